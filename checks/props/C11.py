import hashlib
import json
import os
import subprocess

PROP = {
    "go_test": "TestC11",
    "claimed": True,
    "level_text": "Kernel-checked theorems (11, closed under the global context) about a handler-level permission model that is DEFINED FROM TABLES REGENERATED FROM THE GO SOURCE ON EVERY RUN (translate/goextract: go/parser over x/exchange/keeper/{msg_server,market,orders,payments}.go, x/exchange/msgs.go and every handler under x/*/ whose request has an Authority field): for every endpoint of the generated table, every store of grants, market and caller, getting past the guard implies the caller is the authority or holds THE DOCUMENTED permission on THAT market (documented table transcribed from spec/01_concepts.md, 03_messages.md and market.proto); generated table = documented table; HasPermission/storeHasPermission have the documented shape; every governance endpoint of every module (33 rows) compares msg.Authority with the keeper's authority as the first statement that touches the keeper (4 documented non-governance exceptions have exactly the documented alternative and write nothing first); UpdatePermissions (three loops with error accumulation, rollback) changes no triple a request does not name, over any sequence of requests; CancelOrder succeeds only for owner / authority / PERMISSION_CANCEL on the order's market and an order survives any sequence of cancellations by others; payments are touched only by their target (accept/reject) or source (cancel/retarget) and survive any sequence of operations by third parties. Each run also drives the real message router through the complete matrix 13 endpoints x 128 permission subsets x {unrelated, all-permissions-on-another-market, authority} (+ CancelOrder x 4 signer kinds x 128), a cross-market matrix (request names the caller's own market, the ask/bid order or commitment acted on belongs to the other market; 1,417 requests + 774 cancellations, both directions, 128 subsets; theorem C11_cross_market_items), 116 payment role cases + payment histories, MarketManagePermissions histories with a frame check on 112 triples after every step, and a sweep over all 59 registered sdk.Msg types with an Authority field sent by a non-authority (rejected, store digest unchanged; the same request passes for the authority for all 35 live endpoints of the modules under x/ and 8 SDK ones; each governance-only request of the modules under x/ is also sent by holders of every single market permission and all seven on the named markets, of all marker access, and by the name/trigger owner: 88 requests, all rejected), and evaluates model agreement and the documented rule on every observation inside Coq.",
    "level_note": "Trusted: Coq kernel + vm_compute; the table extractor translate/goextract (std-lib go/ast only; rows are alpha-normalised — locals inlined by what they are bound to, parameters by position, getters as fields, error values dropped — and guards are recognised through those bindings, so renames, hoisting, if-with-init vs assignment+if, swapped ==/!= operands, !strings.EqualFold and else{if} vs else-if give the same row; anything it does not recognise is emitted as an Unrecognised row, which makes the table theorems fail) and gen_coq.py; the hand transcription of the DOCUMENTED tables in Exchange/Perms.v and Exchange/GovGuards.v; the hand-written store-level models of UpdatePermissions, CancelOrder and the payment functions (tied to the code by the correspondence run only, bounded by its generators); the Go harness' projection (passed = handler returned no error; grants read back through GetAccessGrants; store digest = sha256 over every KV store). The translator reads guard SHAPES syntactically: it does not prove that a Can* helper or ValidateAuthority is semantically what its text says beyond the extracted bodies of HasPermission, storeHasPermission, IsAuthority, ValidateAuthority and GetAuthority, which are pinned to accepted source text. No axioms.",
    "technique": "source-to-Coq table translator (go/ast) + Coq proof over the generated tables (vm_compute lifted with forallb_forall, induction over request histories) + exhaustive behavioural matrix on the real code evaluated in Coq",
    "coq_files": ["Exchange/PermTypes.v", "Gen/GenExchangePerms.v", "Gen/GenGovEndpoints.v", "Exchange/Perms.v",
                  "Exchange/GovGuards.v", "Proofs/PermsProofs.v", "Corr/CorrBase.v", "Corr/C11.v"],
    "rule": "matrix: every (endpoint, caller kind, subset of the seven permissions granted to the caller on market 1) is generated exactly once, each request otherwise valid so that the permission alone decides (every permitted combination is observed to succeed); a matrix/cancel/payment case is non-trivial always (distinct = distinct (endpoint|op, caller kind, subset)); a history (payments, MarketManagePermissions) is non-trivial when at least one of its requests was accepted; a governance-sweep message type is non-trivial when the same request is accepted for the authority (so the stranger's rejection is the guard's); distinct = distinct keys of these kinds",
    "trusted_base": ["translate/goextract (go/parser + go/ast, std-lib only) and translate/gen_coq.py: the source-to-table translator that regenerates coq/Gen/GenExchangePerms.v and coq/Gen/GenGovEndpoints.v from the working tree on every run; trusted to report the guard statements it matches faithfully; unmatched shapes become Unrecognised rows (listed under generated_tables.tables.unrecognised) and break the table theorems",
                     "the documented tables (endpoint -> permission, non-governance exceptions, accepted authority-function bodies) are hand transcriptions of x/exchange/spec/01_concepts.md, 03_messages.md, market.proto and the tx.proto field comments"],
    "assumptions": ["callers are well-formed bech32 addresses (ValidateBasic rejects others before the handler; the parse-failure branch of HasPermission is not exercised)",
                    "the signer of a message is the field the model treats as the caller: checked on every run through the codec's GetMsgV1Signers for all 79 message types used",
                    "transaction atomicity (state of a failed handler is discarded) is baseapp machinery; the harness additionally checks that rejected calls wrote nothing",
                    "governance authority = the gov module account for every keeper (checked for the exchange keeper at start-up; the sweep uses it for all modules)"],
}


def pre(ctx):
    """Translator: build translate/goextract, run it on ctx['repo'], render coq/Gen/*.v (only rewritten
    when their content changes).  A shape the extractor does not recognise becomes an `…Unrecognised`
    row in the generated table (the Coq obligations over that table then fail) and is listed under
    tables.unrecognised in the evidence."""
    verif = ctx["verif"]
    tdir = os.path.join(verif, "translate")
    bdir = os.path.join(ctx["build"], "translate")
    os.makedirs(bdir, exist_ok=True)
    binp = os.path.join(bdir, "goextract")
    env = dict(ctx["env"], GOFLAGS="-mod=mod", GOPROXY="off", GOTOOLCHAIN="local", GOWORK="off")
    p = subprocess.run(["go", "build", "-o", binp, "."], cwd=os.path.join(tdir, "goextract"), env=env,
                       stdout=subprocess.PIPE, stderr=subprocess.STDOUT, text=True, timeout=600)
    if p.returncode != 0:
        return {"error": "goextract does not build: " + p.stdout[-1500:]}
    p = subprocess.run([binp, ctx["repo"]], stdout=subprocess.PIPE, stderr=subprocess.PIPE, text=True, timeout=600)
    if p.returncode != 0:
        return {"error": "goextract failed on %s: %s" % (ctx["repo"], p.stderr[-1500:])}
    tag = hashlib.sha256(os.path.realpath(ctx["coq"]).encode()).hexdigest()[:8]
    jpath = os.path.join(bdir, "extract_%s.json" % tag)
    open(jpath, "w").write(p.stdout)
    p = subprocess.run(["python3", os.path.join(tdir, "gen_coq.py"), jpath, ctx["coq"]],
                       stdout=subprocess.PIPE, stderr=subprocess.PIPE, text=True, timeout=120)
    if p.returncode != 0:
        return {"error": "gen_coq.py failed: " + p.stderr[-1500:]}
    info = json.loads(p.stdout)
    tables = dict(info["tables"])
    tables["unrecognised"] = info["unrecognised"]
    # obligations over generated tables: one per generated Definition that a theorem constrains
    # (gen_endpoints, gen_can_helpers, gen_has_permission, gen_store_has_permission, gen_cancel_order,
    #  gen_payment_funcs, gen_custom_signers, gen_gov_endpoints, gen_authority_funcs, gen_delegations)
    return {"obligations": 10, "tables": tables, "rewritten": info["rewritten"], "extract_json": os.path.relpath(jpath, verif)}
