PROP = {
    "go_test": "TestC05",
    "claimed": False,
    "coq_files": ["Marker/Lifecycle.v", "Proofs/LifecycleProofs.v", "Proofs/LifecycleProofs2.v", "Corr/CorrBase.v", "Corr/C05.v"],
    "rule": "TODO",
    "assumptions": [],
    "level_text": "TODO",
    "level_note": "TODO",
    "technique": "Coq invariant proof by induction over fold_left step + differential correspondence (histories) evaluated in Coq",
}
