PROP = {
    "go_test": "TestC12",
    "claimed": True,
    "level_text": "Kernel-checked theorems (30, closed under the global context). (1) For every one of the 23 administration endpoints (the 15 access-right endpoints and the 8 governance-only ones) x status x type x ANY right mask x manager/governance/supply flags, the transcribed access decision performs the operation only for a caller meeting the documented requirement; the per-method guard table extracted from the Go source equals the documented one, every rpc of the module's `service Msg` (read off tx.proto) and every msgServer method is a documented endpoint with its guard rows (a new endpoint without a row breaks the obligation), GrantAllowance needs exactly ADMIN, the governance-only endpoints need the governance account. (2) MsgTransferRequest as an EQUIVALENCE: it goes through exactly from the admin's own account, under an accepting grant of the source, or as a forced transfer (restricted marker allowing it, FORCE_TRANSFER alone suffices, never out of a module/contract-shaped account, marker accounts can be forced); DEPOSIT on a restricted recipient marker is needed whatever that marker's status (transfers and withdrawals; the status-dependent variant is refuted). (3) Over ALL histories of one grant with block time (uses, ticks, MsgGrant re-grants, revocation; keeper route and MsgExec route; any admin rights): per denom the total moved under the current issue never exceeds that issue's limit (a re-grant replaces it), the stored grant is the issue less what was used with the issue's allow list and expiration, an exhausted grant is deleted, no use consumes the grant after its expiry or reaches an address off the allow list; writing the reduced grant back without its expiration is refuted. (4) Over ALL histories of calls on two markers with AddAccess/DeleteAccess/Set-/RemoveAdministrator: every accepted call is justified by the caller's rights on the marker it names at that moment; marker A's evolution and outcomes do not depend on marker B (non-interference); granted rights hold and revoked rights stop at once; the manager invariant is kept. The theorems are about Gallina transcriptions; each run re-evaluates them against the real message router / marker, authz, feegrant, bank keepers on ~34,000 (quick) cases inside Coq and evaluates the property's checker on the implementation's own observations.",
    "level_note": "Trusted: Coq kernel + vm_compute; the hand transcriptions Marker/Access.v (decision table + documented table), Marker/Authz.v, Marker/AuthzSeq.v (block time in whole seconds; expired grants stay stored until the authz BeginBlocker prunes them, which the harness does not run), Marker/AccessHist.v (supplies stay positive and in the markers' accounts), tied to the code by the correspondence run only (bounded by its generators) and by the generated tables of GenMarkerAccess.v (guards per method, rpc list of tx.proto, msgServer methods with the guarded keeper methods they call; recognition is syntactic; proposal_handler.go's governance-control tests are not in the table, they are exercised by the matrix) when the translator hook is present; the harness' projection (rights set by writing the marker's access list directly in the matrices, through the real AddAccess/DeleteAccess handlers in the histories; statuses reached through the real keeper transitions); module/contract accounts characterised by shape (existing, sequence 0, not marker/market/group). MsgIbcTransferRequest is covered statically only (its guard row: TRANSFER; no IBC channel in the harness). No axioms.",
    "technique": "Coq proof (case analysis over the finite table, induction over use sequences / timed grant histories / two-marker call histories with invariants) of a Gallina model + differential correspondence evaluated in Coq",
    "coq_files": ["Marker/Access.v", "Marker/Authz.v", "Marker/AuthzSeq.v", "Marker/AccessHist.v", "Marker/AccessTable.v", "Gen/GenMarkerAccess.v",
                  "Proofs/MarkerAccessProofs.v", "Proofs/MarkerAccessGenProofs.v", "Proofs/MarkerTransferProofs.v", "Proofs/AuthzSeqProofs.v",
                  "Proofs/AccessHistProofs.v", "Corr/CorrBase.v", "Corr/C12.v"],
    "rule": "access matrix: 23 endpoints (8 governance-only) x 14 status variants (7 built with the keeper, 7 driven through the message router incl. governance ChangeStatus; with/without surviving manager; the former manager holding no grant is one of the callers) x coin/restricted x a covering set of right masks (quick: empty, full, 8 singles, 8 complements, random; thorough: all 256, 64 for coin markers) x caller kind (plain, manager, former manager, governance account) x governance-control flag x supply modes (normal, caller holds all, zero supply); transfers: admin rights x forced flag x 10 source kinds (incl. the marker's own account) x 8 grant shapes x 10 destination kinds (plain, blocked, a second restricted marker in every status proposed/finalized/active/cancelled/destroyed, coin markers) x admin with/without DEPOSIT on it x amounts; withdrawals: WITHDRAW on the source x source status x the same 10 recipients x DEPOSIT on the recipient; lifecycles: random 1-5 transitions through the real handlers, each followed by endpoint probes as the creating manager; sequences: 1-6 (thorough 1-10) uses of one grant via the keeper's authz handler and via MsgExec; timed histories: 3-9 (thorough 3-14) steps of uses (partial, exactly exhausting, over-use by 1, zero, negative), block time moving to / one second past / around the expiration, MsgGrant re-grants (valid, expired, empty limit) and MsgRevoke, limits in 1-3 denoms, allow lists with 0/1/2-4 entries, expiration or none, admin holding TRANSFER / FORCE_TRANSFER / both / neither, MsgExec grantee with random own rights; the stored grant AND its expiration observed after every step; two-marker histories: 6-14 (thorough 6-22) calls: AddAccess / DeleteAccess / Set- / RemoveAdministrator / finalize / activate / cancel / delete / the other endpoints on either marker by managers, right holders, the governance account, the address just granted the right on the OTHER marker, the address just revoked; creation (AddFinalizeActivateMarker on fresh and existing denoms), UpdateParams, the granter of accepted fee allowances, endpoint coverage. A case is non-trivial when the call succeeded (access, transfer, withdrawal, creation), at least two uses of the grant were accepted (sequences) or at least two access changes were accepted (histories); distinct = distinct configurations / step lists",
    "assumptions": ["callers are identified by the signer field of each message (Administrator / Signer / Authority / TransferAuthority)",
                    "module accounts and smart-contract accounts never sign, so they are existing accounts with sequence 0 that are neither marker, market nor group-policy accounts",
                    "Transfer / ForceTransfer cannot be stored on a coin marker (SetMarker validates), so coin markers are exercised with the 64 masks over the other six rights",
                    "bank SendCoins moves exactly the requested coin or fails; a failed message leaves no state behind (harness writes its cache only on success)"],
}


import os, json, subprocess, hashlib


def pre(ctx):
    """Translator: build translate/markeraccess (std-lib go/parser only), run it on ctx['repo'],
    render coq/Gen/GenMarkerAccess.v (rewritten only when its content changes).  Every mention of
    an Access_* constant that is not an argument of an access predicate becomes an unrecognised
    row of the generated table; the obligation generated_access_table = documented_access_table
    (Properties/C12.v) then decides."""
    verif = ctx["verif"]
    tdir = os.path.join(verif, "translate", "markeraccess")
    bdir = os.path.join(ctx["build"], "translate")
    os.makedirs(bdir, exist_ok=True)
    binp = os.path.join(bdir, "markeraccess")
    env = dict(ctx["env"], GOFLAGS="-mod=mod", GOPROXY="off", GOTOOLCHAIN="local", GOWORK="off")
    p = subprocess.run(["go", "build", "-o", binp, "."], cwd=tdir, env=env,
                       stdout=subprocess.PIPE, stderr=subprocess.STDOUT, text=True, timeout=600)
    if p.returncode != 0:
        return {"error": "markeraccess does not build: " + p.stdout[-1500:]}
    p = subprocess.run([binp, ctx["repo"]], stdout=subprocess.PIPE, stderr=subprocess.PIPE, text=True, timeout=600)
    if p.returncode != 0:
        return {"error": "markeraccess failed on %s: %s" % (ctx["repo"], p.stderr[-1500:])}
    tag = hashlib.sha256(os.path.realpath(ctx["coq"]).encode()).hexdigest()[:8]
    jpath = os.path.join(bdir, "markeraccess_%s.json" % tag)
    open(jpath, "w").write(p.stdout)
    p = subprocess.run(["python3", os.path.join(tdir, "gen_coq.py"), jpath, ctx["coq"]],
                       stdout=subprocess.PIPE, stderr=subprocess.PIPE, text=True, timeout=120)
    if p.returncode != 0:
        return {"error": "markeraccess/gen_coq.py failed: " + p.stderr[-1500:]}
    info = json.loads(p.stdout)
    return {"obligations": 3, "tables": {"generated_access_table": info["rows"], "generated_marker_rpcs": info["rpcs"],
                                        "generated_marker_endpoints": info["endpoints"], "unrecognised": info["unrecognised"]},
            "rewritten": info["rewritten"], "extract_json": os.path.relpath(jpath, verif)}
