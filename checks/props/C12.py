PROP = {
    "go_test": "TestC12",
    "claimed": True,
    "level_text": "Kernel-checked theorems (13, closed under the global context): for every endpoint x status x type x ANY right mask x manager/governance/supply flags, the transcribed access decision performs the operation only for a caller meeting the documented requirement (rights from accessgrant.proto, alternatives from the spec), the per-method guard table extracted from the Go source equals the documented one (the code before fix 374f3de02, where a rights-less caller was 'holder of the whole supply' of a zero-supply marker, is refuted by a witness); a MsgTransferRequest goes through only from the admin's own account, under an accepting grant of the source, or as a forced transfer on a marker allowing it, never out of a module/contract-shaped account; over ALL sequences of uses of a grant the total moved per denom never exceeds the original limit and every recipient is on the original allow list (and the pre-fix Accept is refuted by a two-step witness). The theorems are about Gallina transcriptions; each run re-evaluates them against the real message router / marker, authz, bank keepers on ~29,000 (quick) / ~350,000 (thorough) cases inside Coq and evaluates the property's checker on the implementation's own observations.",
    "level_note": "Trusted: Coq kernel + vm_compute; the hand transcriptions Marker/Access.v (decision table + documented table) and Marker/Authz.v, tied to the code by the correspondence run only (bounded by its generators) and by the generated table GenMarkerAccess.v when the translator hook is present; the harness' projection (rights set by writing the marker's access list directly, statuses reached through the real keeper transitions); module/contract accounts characterised by shape (existing, sequence 0, not marker/market/group). No axioms.",
    "technique": "Coq proof (case analysis over the finite table, induction over use sequences) of a Gallina model + differential correspondence evaluated in Coq",
    "coq_files": ["Marker/Access.v", "Marker/Authz.v", "Marker/AccessTable.v", "Gen/GenMarkerAccess.v", "Proofs/MarkerAccessProofs.v", "Proofs/MarkerAccessGenProofs.v", "Corr/CorrBase.v", "Corr/C12.v"],
    "rule": "access matrix: 15 endpoints x 14 status variants (7 built with the keeper, 7 driven through the message router incl. governance ChangeStatus, e.g. Proposed -> Active directly; with/without surviving manager; the former manager holding no grant is one of the callers) x coin/restricted x a covering set of right masks (quick: empty, full, 8 singles, 8 complements, random; thorough: all 256, 64 for coin markers) x caller kind (plain, manager, former manager, governance account) x governance-control flag x supply modes (normal, caller holds all, zero supply); transfers: admin rights x forced flag x 9 source kinds x 8 grant shapes x 4 destination kinds x amounts (0, negative, partial, exact, above balance); lifecycles: random 1-5 transitions (finalize, activate, cancel, delete, governance status changes) through the real handlers, each followed by probes of the endpoints as the creating manager; sequences: 1-6 (thorough 1-10) uses of one grant with/without allow list through the marker keeper's authz handler and through authz MsgExec. A case is non-trivial when the call succeeded (access, transfer) or at least two uses of the grant were accepted (sequence); distinct = distinct configurations / step lists",
    "assumptions": ["callers are identified by the signer field of each message (Administrator / Signer / Authority / TransferAuthority)",
                    "module accounts and smart-contract accounts never sign, so they are existing accounts with sequence 0 that are neither marker, market nor group-policy accounts",
                    "Transfer / ForceTransfer cannot be stored on a coin marker (SetMarker validates), so coin markers are exercised with the 64 masks over the other six rights",
                    "bank SendCoins moves exactly the requested coin or fails; a failed message leaves no state behind (harness writes its cache only on success)"],
}


import os, json, subprocess, hashlib


def pre(ctx):
    """Translator: build translate/markeraccess (std-lib go/parser only), run it on ctx['repo'],
    render coq/Gen/GenMarkerAccess.v (rewritten only when its content changes).  Every mention of
    an Access_* constant that is not an argument of an access predicate becomes an unrecognised
    row of the generated table; the obligation generated_access_table = documented_access_table
    (Properties/C12.v) then decides."""
    verif = ctx["verif"]
    tdir = os.path.join(verif, "translate", "markeraccess")
    bdir = os.path.join(ctx["build"], "translate")
    os.makedirs(bdir, exist_ok=True)
    binp = os.path.join(bdir, "markeraccess")
    env = dict(ctx["env"], GOFLAGS="-mod=mod", GOPROXY="off", GOTOOLCHAIN="local", GOWORK="off")
    p = subprocess.run(["go", "build", "-o", binp, "."], cwd=tdir, env=env,
                       stdout=subprocess.PIPE, stderr=subprocess.STDOUT, text=True, timeout=600)
    if p.returncode != 0:
        return {"error": "markeraccess does not build: " + p.stdout[-1500:]}
    p = subprocess.run([binp, ctx["repo"]], stdout=subprocess.PIPE, stderr=subprocess.PIPE, text=True, timeout=600)
    if p.returncode != 0:
        return {"error": "markeraccess failed on %s: %s" % (ctx["repo"], p.stderr[-1500:])}
    tag = hashlib.sha256(os.path.realpath(ctx["coq"]).encode()).hexdigest()[:8]
    jpath = os.path.join(bdir, "markeraccess_%s.json" % tag)
    open(jpath, "w").write(p.stdout)
    p = subprocess.run(["python3", os.path.join(tdir, "gen_coq.py"), jpath, ctx["coq"]],
                       stdout=subprocess.PIPE, stderr=subprocess.PIPE, text=True, timeout=120)
    if p.returncode != 0:
        return {"error": "markeraccess/gen_coq.py failed: " + p.stderr[-1500:]}
    info = json.loads(p.stdout)
    return {"obligations": 1, "tables": {"generated_access_table": info["rows"], "unrecognised": info["unrecognised"]},
            "rewritten": info["rewritten"], "extract_json": os.path.relpath(jpath, verif)}
