PROP = {
    "go_test": "TestC03",
    "claimed": True,
    "coq_files": ["Hold/Locked.v", "Proofs/LockedProofs.v", "Corr/CorrBase.v", "Corr/C03.v"],
    "rule": "route matrix: every balance-decreasing route (bank send, multi-send as single input and as one of many inputs, gov deposit, account-to-module, delegation, marker withdraw, restricted-marker transfer, market withdraw) and every hold-placing route (ask, bid, commitment, payment) x account kinds (base, continuous/delayed vesting, market, marker) x amounts at balance-hold-unvested -1/0/+1, balance-hold, balance-hold+1 and the whole balance; plus random histories of sends, multi-sends, delegations, undelegations, holds, releases and time advances on the real bank+hold keepers. Non-trivial = a hold > 0 was in place; distinct = distinct (route, kind, balance, hold, unvested, amount) tuples / distinct histories",
    "assumptions": ["forked cosmos-sdk bank keeper (subUnlockedCoins, DelegateCoins, SpendableCoins, locked-coins getter chain) is modelled in Hold/Locked.v and trusted; the harness exercises it",
                    "higher-level routes reach balances only through the bank primitives of the model; that reduction is checked by the route matrix, not proved"],
    "level_text": "Kernel-checked invariant over ALL histories of bank primitives (send, multi-send with one or many inputs, delegation with the vesting bypass, undelegation, burn, mint), hold placement/release and vesting-lock changes: 0 <= hold <= balance for every account and denom; only AddHold/ReleaseHold change holds; spendable = max 0 (balance - hold - unvested); exact success conditions of send and delegate. Tied to the code by the route matrix and random histories run against the real bank, hold, staking, gov, marker and exchange code and evaluated against the model inside Coq on every run.",
    "level_note": "Trusted: Coq kernel + vm_compute; hand transcription of the forked bank's locked-coins logic and the hold keeper (Hold/Locked.v); harness projection. The theorem covers the bank primitives; that every module route goes through them is exercised (17 routes), not proved. Fee payment is exercised as the bank call the fee decorator makes (antewrapper.DeductFees), not as a signed transaction.",
    "technique": "Coq invariant proof by induction over fold_left step + differential correspondence (route matrix and histories) evaluated in Coq",
}

# bypass call sites + application wiring obligations (checks/wiring.py, coq/Properties/Wiring.v)
from wiring import hooks
pre, post = hooks("C03")
