import re

PROP = {
    "go_test": "TestC15",
    "claimed": True,
    "level_text": "Kernel-checked theorems (10, closed under the global context, SHA-256 an arbitrary function) about the Gallina transcription of the name keeper and its four message handlers, over ALL histories (fold_left step): an accepted bind found a record under the parent's key and, if it is restricted, the signer owns it; modify needs the governance authority or the owner of the record under the name's key; delete needs that owner; root creation needs the authority; every accepted message changes exactly the key of its own name and a rejected one nothing (C15_ownership); the by-address index holds exactly the records currently owned by each address (C15_index_agrees). The clause 'two different valid names never resolve to the same record' is REFUTED in Coq (C15_distinct_names_distinct_keys_refuted: aa.bbcc / ccaa.bb have one key for every hash; C15_collision_confers_authority_refuted) and reproduced on the real keeper by every run (known finding name-key-preimage-collision); what does hold is proved instead: lookups are exact up to key equality (C15_lookup_exact_unless_keys_collide, C15_lookups_agree_up_to_key) keys are injective on names with equal segment-length profile, and Normalize is idempotent (stored names are valid). Each run drives ~160 (quick) / ~3,000 (thorough) histories of 30-45 messages through the real message router and compares, after every message, GetRecordByName, ResolvesTo and ReverseLookup for a universe of ~12 names x 4 addresses with the model inside Coq, evaluates the property's own checker on the implementation's observations, groups every name over {a,b,c} within the limits by the real GetNameKeyPrefix, and checks Normalize on ~600 / ~27,000 raw inputs.",
    "level_note": "Trusted: Coq kernel + vm_compute; the hand transcription Name/Name.v (tied to the code only by the correspondence run, bounded by its generators); the Go harness' projection; ASCII names only (bytes >= 128 are outside the model); addresses are abstract ids (always well-formed bech32); every signer has an account and no attributes exist (DeleteName's PurgeAttribute call); store iteration order not modelled (listings compared sorted); the correspondence instantiates the hash with the identity. No axioms.",
    "technique": "Coq proof over all histories of a Gallina model of the name keeper (hash abstract) + differential correspondence evaluated in Coq",
    "coq_files": ["Name/Name.v", "Proofs/NameProofs.v", "Corr/CorrBase.v", "Corr/C15.v"],
    "rule": "histories over a random name tree (2 roots, 2-3 children each, 0-2 grandchildren, segments of 2-4 characters from abcde12 and an occasional dash; 1 history in 8 over a universe built around a colliding pair u.vw / wu.v; 1 in 5 under tightened length/level limits), 62% of the messages chosen to be acceptable from the keeper's current state (owner binds/modifies/deletes, authority creates roots) and the rest by strangers, on bound/unbound names, with capitals/padding/short/dotted segments; a history is non-trivial when at least 8 messages of at least 3 kinds were accepted; distinct = distinct (universe, message list). Pair cases are non-trivial when the two names share the real store key; normalize cases when the accepted result differs from the input.",
    "assumptions": ["names are ASCII byte strings; Go's TrimSpace/ToLower/IsLower/IsDigit as transcribed in Name/Name.v header",
                    "SHA-256 is a function (nothing else); the model run used for correspondence keys records by pre-image",
                    "every message signer has an account and the deleted name carries no attributes (PurgeAttribute succeeds)",
                    "genesis names (attribute module's account-data name) are outside every universe (checked by the harness per universe)"],
}

_COLLISION_TAGS = {"prop:lookup_returns_other_name", "prop:resolve_and_reverse_lookup_disagree", "prop:other_name_changed"}


def _revcat(name):
    return "".join(seg.strip() for seg in reversed(name.split(".")))


def _collide(a, b):
    return isinstance(a, str) and isinstance(b, str) and a != b and _revcat(a) == _revcat(b)


def fingerprint(case, tags):
    """'name-key-preimage-collision' exactly when the failure is the known one: two different
    valid names whose reversed, separator-less segment concatenations coincide share a store key,
    and nothing else is wrong with the case.  Anything else gets a different fingerprint."""
    other = "other:" + (tags[0] if tags else "none")
    if not isinstance(case, dict) or any(t.startswith("corr:") for t in tags):
        return other
    kind = case.get("kind")
    if kind == "pair":
        if tags == ["prop:distinct_names_share_key"] and case.get("same_key") is True \
                and _collide(case.get("n1"), case.get("n2")):
            return "name-key-preimage-collision"
        return other
    if kind == "history":
        steps = set()
        for t in tags:
            m = re.match(r"^(prop:\w+) @step (\d+)$", t)
            if not m or m.group(1) not in _COLLISION_TAGS:
                return other
            steps.add(int(m.group(2)))
        if len(steps) != 1 or "prop:lookup_returns_other_name @step %d" % min(steps) not in tags:
            return other
        k = min(steps)
        ops = case.get("steps") or []
        if not (1 <= k <= len(ops)):
            return other
        anomalies = ops[k - 1].get("lookup_returned_other_name") or []
        if not anomalies or not all(len(p) == 2 and _collide(p[0], p[1]) for p in anomalies):
            return other
        # before this step every lookup answered for the queried name
        if any(o.get("lookup_returned_other_name") for o in ops[:k - 1]):
            return other
        return "name-key-preimage-collision"
    return other
