import re

PROP = {
    "go_test": "TestC15",
    "claimed": True,
    "level_text": "Kernel-checked theorems (33, closed under the global context, SHA-256 an arbitrary function; where injectivity is needed it is a Section hypothesis) about the Gallina transcription of the name keeper, its five message handlers and InitGenesis. Over ALL histories of the four name messages under fixed limits (fold_left step): an accepted bind found a record under the parent's key and, if it is restricted, the signer owns it; modify needs the governance authority or the owner of the record under the name's key; delete needs that owner; root creation needs the authority; every accepted message changes exactly the key of its own name and a rejected one nothing (C15_ownership); the by-address index holds exactly the records currently owned by each address (C15_index_agrees). Over ALL histories of the FULL surface (name messages, MsgUpdateParams, genesis imports, any initial limits): the same under the limits in force (C15_ownership_under_params_in_force, C15_index_agrees_full, C15_lookups_agree_up_to_key_full, C15_lookup_full), params change only by the authority and change nothing else, allow_unrestricted_names is dead, the bind check is the check on the DIRECT PARENT OF THE RESULTING NAME (C15_bind_checks_direct_parent, injective hash), the paged ReverseLookup (transcribed FilteredPaginate, next-key and offset clients, any limit >= 1) returns every bound name exactly once (C15_paged_reverse_lookup_complete) and the length-prefixed index prefix keeps prefix-related addresses apart (C15_address_prefix_unambiguous); what InitGenesis accepts (C15_genesis_import_spec / _rejects_duplicates / _rejects_invalid_names / _accepts_orphans). Normalisation: C15_normalize_idempotent, C15_valid_iff (validity = the documented rule, by cases), C15_unicode_model_conservative. The clause 'two different valid names never resolve to the same record' is REFUTED (C15_distinct_names_distinct_keys_refuted: aa.bbcc / ccaa.bb have one key for every hash; C15_collision_confers_authority_refuted; known finding name-key-preimage-collision, reproduced by every run) and replaced by the exact characterisation: for an injective hash keys are equal iff the reversed separator-less concatenations are equal (C15_keys_equal_iff_preimage_equal, C15_valid_names_collide_iff_reversed_concatenations_equal) and resolution is ambiguous only inside such a class (C15_ambiguity_only_inside_preimage_class, C15_lookup_exact_when_class_is_singleton). Each run drives ~170 (quick) / ~3,000 (thorough) histories of 30-45 steps through ValidateBasic + the real message router (and Keeper.InitGenesis) and compares, after every step, GetRecordByName, ResolvesTo, ReverseLookup, the Resolve query and the Params query for a universe of ~15 names x 6 addresses with the model inside Coq, evaluates the property's own checker on the implementation's observations (bind judged on the resulting name's direct parent), walks ReverseLookup page by page (keys / offsets, forward / reverse), spells addresses in upper-case bech32, round-trips ExportGenesis/InitGenesis, enumerates every name over {a,b,1,2} with 1-4 segments (322,000 names quick) by the real GetNameKeyPrefix against the pre-image classes, and checks Normalize on ~900 ASCII and ~300 non-ASCII raw inputs.",
    "level_note": "Trusted: Coq kernel + vm_compute; the hand transcriptions Name/Name.v, NameMsgs.v, NamePaging.v, NameUnicode.v (tied to the code only by the correspondence run, bounded by its generators); the Go harness' projection; the history model is ASCII (the UTF-8 model covers Normalize only, on a tabulated part of Unicode, proved conservative over the ASCII one); addresses are abstract ids in the history model (always well-formed bech32; the byte layout of the index prefix is a separate theorem); every signer has an account and no attributes exist (DeleteName's PurgeAttribute call); store iteration order not modelled (listings compared sorted, page SIZES compared); reverse paging only through the property checker; the correspondence instantiates the hash with the identity. No axioms.",
    "technique": "Coq proof over all histories of a Gallina model of the name keeper (hash abstract) + differential correspondence evaluated in Coq",
    "coq_files": ["Name/Name.v", "Name/NameMsgs.v", "Name/NamePaging.v", "Name/NameUnicode.v", "Proofs/NameProofs.v", "Proofs/NameValidProofs.v", "Proofs/NamePagingProofs.v", "Proofs/NameMsgsProofs.v", "Proofs/NameHistoryProofs.v", "Proofs/NameGenesisProofs.v", "Proofs/NameAuthorityProofs.v", "Proofs/NameUnicodeProofs.v", "Corr/CorrBase.v", "Corr/C15.v"],
    "rule": "histories over a random parent-closed name tree (2 roots, 2-3 children each, 0-2 grandchildren, some great-grandchildren; segments of 2-4 characters from abcde12 and an occasional dash; 1 history in 8 over a universe built around a colliding pair u.vw / wu.v; 1 in 8 over a universe with long segments in twins that share their first 32 bytes (uuid-shaped children, 33-64 character children under max_segment_length 64, directed prelude binding both twins); 1 in 5 starting under tightened length/level limits; 1 in 6 starting with a genesis import; 1 in 6 with the dotted-record-name prelude), 66% of the steps chosen to be acceptable from the keeper's current state and limits (owner binds/modifies/deletes, authority creates roots and updates params, imports of unbound valid names) and the rest by strangers, on bound/unbound names, with capitals/padding/short/dotted record names (two-level record names under the grand parent whose implied parent exists / is missing / is restricted and foreign), duplicate and invalid genesis bindings, nonsensical limits, upper-case bech32 spellings; a history is non-trivial when at least 8 steps of at least 3 kinds were accepted; distinct = distinct (universe, step list). Pair cases (incl. in every run ~250 twin pairs of uuid-shaped / urn:uuid / braced / 33-64 character segments agreeing on the first 31-63 bytes, and an enumeration over a pool with such segments) are non-trivial when the two names share the real store key; normalize cases when the accepted result differs from the input; spelling cases when the address owns a name.",
    "assumptions": ["history model: names are ASCII byte strings; Go's TrimSpace/ToLower/IsLower/IsDigit as transcribed in Name/Name.v header; beyond ASCII only Keeper.Normalize is modelled (Name/NameUnicode.v, tables generated from Go's unicode package for the listed ranges)",
                    "SHA-256 is a function (nothing else; injective where a theorem says so); the model run used for correspondence keys records by pre-image",
                    "every message signer has an account and the deleted name carries no attributes (PurgeAttribute succeeds)",
                    "genesis names (attribute module's account-data name) are outside every universe (checked by the harness per universe)",
                    "FilteredPaginate as transcribed in Name/NamePaging.v: forward iteration, limit >= 1, next keys used without intervening writes"],
}

_COLLISION_TAGS = {"prop:lookup_returns_other_name", "prop:resolve_and_reverse_lookup_disagree", "prop:other_name_changed"}


def _revcat(name):
    return "".join(seg.strip() for seg in reversed(name.split(".")))


def _collide(a, b):
    return isinstance(a, str) and isinstance(b, str) and a != b and _revcat(a) == _revcat(b)


def fingerprint(case, tags):
    """'name-key-preimage-collision' exactly when the failure is the known one: two different
    valid names whose reversed, separator-less segment concatenations coincide share a store key,
    and nothing else is wrong with the case.  Anything else gets a different fingerprint."""
    other = "other:" + (tags[0] if tags else "none")
    if not isinstance(case, dict) or any(t.startswith("corr:") for t in tags):
        return other
    kind = case.get("kind")
    if kind == "pair":
        if tags == ["prop:distinct_names_share_key"] and case.get("same_key") is True \
                and _collide(case.get("n1"), case.get("n2")):
            return "name-key-preimage-collision"
        return other
    if kind == "history":
        steps = set()
        for t in tags:
            m = re.match(r"^(prop:\w+) @step (\d+)$", t)
            if not m or m.group(1) not in _COLLISION_TAGS:
                return other
            steps.add(int(m.group(2)))
        if len(steps) != 1 or "prop:lookup_returns_other_name @step %d" % min(steps) not in tags:
            return other
        k = min(steps)
        ops = case.get("steps") or []
        if not (1 <= k <= len(ops)):
            return other
        anomalies = ops[k - 1].get("lookup_returned_other_name") or []
        if not anomalies or not all(len(p) == 2 and _collide(p[0], p[1]) for p in anomalies):
            return other
        # before this step every lookup answered for the queried name
        if any(o.get("lookup_returned_other_name") for o in ops[:k - 1]):
            return other
        return "name-key-preimage-collision"
    return other
