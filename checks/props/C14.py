PROP = {
    "go_test": "TestC14",
    "claimed": False,
    "coq_files": ["Metadata/Bech32.v", "Metadata/Address.v", "Metadata/Refs.v", "Proofs/AddressProofs.v",
                  "Corr/CorrBase.v", "Corr/C14.v"],
    "rule": "wip",
    "assumptions": [],
    "level_text": "wip",
    "level_note": "wip",
    "technique": "Coq proof + differential correspondence evaluated in Coq",
}
