import re

LITERAL_TAG_PREFIX = "prop:smart contract that is not a party accepted as only/last signer"
FINDING = "contract-signer-used-through-grant-is-not-a-party"

PROP = {
    "go_test": "TestC10",
    "claimed": True,
    "coq_files": ["Metadata/Signers.v", "Metadata/SignersSpec.v", "Metadata/AuthzCount.v", "Proofs/SignersProofs.v",
                  "Proofs/SignersProofs2.v", "Proofs/SignersProofs3.v", "Proofs/SignersProofs4.v",
                  "Proofs/SignersProofs5.v", "Proofs/SignersProofs6.v", "Proofs/AuthzCountProofs.v",
                  "Corr/CorrBase.v", "Corr/C10.v"],
    "rule": "a configuration = (smart-contract accounts, authz grants (granter, grantee, message kind), required parties, "
            "available parties (address, role, optional), required-role list with repeats, ordered signer list) for the direct "
            "calls, or (endpoint, rollup on/off, new/existing entry, scope owners, session parties, previous session, spec roles, "
            "grants, signers) for the messages; the quick tier enumerates EVERY configuration of 2 party addresses x {absent, "
            "2 roles x optional/required} x role lists of length <= 2 x sub-lists of 3 signers x subsets of 2 grants (5,600) "
            "and samples the larger space (<= 4 parties incl. one address in two roles, required != available, 3 repeated "
            "roles, 6 accounts of which 2 smart contracts, grants under own/alias/unrelated kind and in the wrong direction); "
            "1,800 real messages over eleven message types (MsgWriteScope new/existing, MsgDeleteScope, MsgAdd/DeleteScopeOwner, "
            "MsgWriteSession, MsgWriteRecord incl. moving, MsgDeleteRecord, MsgAdd/DeleteScopeDataAccess, MsgUpdateValueOwners "
            "over 1-3 scopes); 800 'overlap' messages (3 addresses x 2 roles, the same party in scope / session / previous "
            "session with different optional flags and roles, an optional entry preceding the required one in the keeper's "
            "concatenation, the dropped signer being such a hidden required party in ~150 of them); 150 count-limited "
            "authorization scenarios (authz.CountAuthorization with 1-3 uses under own/alias/unrelated kinds, up to two grantees, "
            "mixed with generic ones, 3-9 identical messages in a row through ValidateSignersWithoutParties / "
            "ValidateSignersWithParties / real MsgAddScopeDataAccess); 250 scenarios with EXPIRING authorizations at controlled "
            "block times (1-4 uses or generic, expiration at second 10 / 20 / none, 3-8 messages before, exactly at "
            "(repeatedly) and after the expiration seconds, the stored expiration of every key read back after every "
            "message); 900 MsgWriteScope updates of an existing scope WITH a "
            "value owner (the value owner changes together with nothing else / only optional flags of existing owners / roles "
            "or owners / data access, specification id or rollup flag, or stays / is left empty; signed by the value owner "
            "only, the required parties only, both, or a mixed set with grants); in every message stream a third (MsgWriteSession: half) of the MsgWriteScope / "
            "MsgWriteSession / MsgWriteRecord messages identify their entry and specification only through scope_uuid / "
            "spec_uuid / session_id_components / contract_spec_uuid (ids left empty) while the case carries the STORED "
            "entry's parties; 18 fixed witnesses of the Coq observations. Thorough "
            "enumerates 3 addresses x role lists <= 3 x 4 signers and scales the random streams ~14x. A case is non-trivial when "
            "there is at least one signer and at least one required party or required role (direct calls) / always for messages "
            "and count scenarios; distinct = distinct case terms",
    "assumptions": [
        "authz grants are generic authorizations (never consumed), the relation being the grants live at the block time: "
        "stated as theorems over a transcription of findAuthzGrantee with count-limited and expiring authorizations "
        "(C10_generic_grants_assumption: on a generic store the lookup is exactly the model's relation of live grants, "
        "read-only and error-free; C10_count_limited_outside_model: with one CountAuthorization it is not; "
        "C10_grant_must_be_live; C10_expiration_behaviour); "
        "the run records what the real keeper does with CountAuthorizations and compares it with that counted transcription, "
        "not with the main model",
        "scopes have no value owner and none is proposed on the scope/session/record endpoints (value-owner signer rules are "
        "C09) except in the dedicated MsgWriteScope-with-value-owner stream (non-marker value owners, existing proposed "
        "specification, the bank transfer / mint after an accepted signer check succeeds); for MsgUpdateValueOwners only the signer part is modelled (non-marker value owners, distinct scope ids, the "
        "bank transfer after an accepted signer check succeeds)",
        "party and signer addresses are valid bech32 account addresses (message ValidateBasic)",
        "a smart contract is what keeper.isWasmAccount says: an existing BaseAccount with sequence 0 and no public key "
        "(read back from the state each message runs on: an account that has only received a scope coin counts)",
        "the non-signature parts of the write validators (ids, spec lookups, record inputs/outputs, data-access lists) are "
        "satisfied, not modelled",
    ],
    "level_text": "Kernel-checked theorems (36, closed under the global context) about the Gallina transcription of "
                  "signers.go / signer_utils.go and of the callers in scope.go, session.go, record.go, msg_server.go: an accepted "
                  "ValidateSignersWithParties accounts (signer or authz grant to a signer) for every non-optional required "
                  "party, admits an INJECTIVE assignment of the required-role entries to distinct available signing parties of "
                  "that role (the two greedy passes are proved equivalent to the existence of such an assignment, for all "
                  "inputs), satisfies the PROVENANCE-role rule and the smart-contract position rule; conversely the documented "
                  "rule implies acceptance (exact iff when no contract signs). PER ENDPOINT (MsgWriteScope new/existing, "
                  "MsgDeleteScope, MsgAdd/DeleteScopeOwner, MsgWriteSession new/existing, MsgWriteRecord incl. a record moving "
                  "between sessions, MsgDeleteRecord, MsgAdd/DeleteScopeDataAccess; rollup on and off): soundness of the whole "
                  "documented row (C10_endpoints_sound, C10_endpoints_checker_sound: the executable table evaluated on the "
                  "implementation's answers holds of every message the model accepts), the smart-contract rule "
                  "(C10_endpoints_contract_rule) and COMPLETENESS (C10_endpoints_complete_direct: every named party signs "
                  "directly + roles present among the signing parties + contract positions => accepted; "
                  "C10_endpoints_checker_complete for the checker's boolean). MsgWriteScope on an existing scope with the value-owner fields "
                  "(Scope.Equals transcribed field by field incl. the optional flag, the only-the-value-owner-changes shortcut): "
                  "covered by the endpoint theorems, and C10_scope_write_owner_change_needs_signatures (ANY difference in the "
                  "owner list brings the party rules back whatever happens to the value owner). MsgUpdateValueOwners' signer part: soundness, "
                  "direct completeness without contract signers, and three refutation witnesses (observations). The required "
                  "party list is proved to matter only as a SET (C10_required_set, C10_required_list_is_a_set, "
                  "C10_required_order_and_duplicates, C10_required_addresses_set: order of scope ++ session ++ previous session, "
                  "duplicates and earlier optional entries of the same party cannot change the answer). Each run evaluates "
                  "the transcription against the real keeper functions and the real message handlers on ~12,800 (quick) / "
                  "~224,000 (thorough) configurations inside Coq, and evaluates the documented rule (brute-force search for the "
                  "injective assignment, proved to decide it) on the implementation's own answers. One known finding "
                  "(documentation sentence about non-party contract signers, see findings/C10.md).",
    "level_note": "Trusted: Coq kernel + vm_compute; the hand transcriptions Metadata/Signers.v and Metadata/AuthzCount.v (tied "
                  "to the code only by the correspondence run, bounded by its generators); the rendering of "
                  "spec/01_concepts.md in Metadata/SignersSpec.v (doc_sound / doc_direct / doc_direct_P / doc_parties); the Go "
                  "harness' projection (accept/reject, interned addresses, isWasmAccount read back from state); x/authz and "
                  "x/auth as used. Both directions of the endpoint table are now proved, not only run. No axioms.",
    "technique": "Coq proof (greedy = matching by per-role counting, Hall's theorem in its trivial case; normal form of "
                 "BuildPartyDetails for order/duplicate insensitivity) over a Gallina model + exhaustive/differential "
                 "correspondence evaluated in Coq",
}


def _party_addrs(case):
    """addresses (ids) of every party named in the case, whatever list it is in"""
    out = set()
    for key in ("req", "avail"):
        for p in case.get(key) or []:
            m = re.match(r"addr(\d+)/", p)
            if m:
                out.add(int(m.group(1)))
    for r in case.get("required") or []:
        out.add(int(r))
    for m in re.finditer(r"\bP (\d+) \d+ (?:true|false)", case.get("op") or ""):
        out.add(int(m.group(1)))
    if (case.get("op") or "").startswith("OWriteScopeFull"):
        # the value owner being replaced is one of the addresses whose signature the rules look at
        for m in re.finditer(r"\(Some (\d+)\)", case.get("op") or ""):
            out.add(int(m.group(1)))
    return out


def fingerprint(case, tags):
    """FINDING exactly when the only thing wrong is the known discrepancy between
    spec/01_concepts.md ("If a smart contract is a signer, but not a party, it cannot be the only
    signer, and cannot be the last signer") and validateSmartContractSigners (a contract counts
    as "used" as soon as a party's authz grant makes it that party's signer): the message was
    accepted, one of its signers is a smart-contract account (ids 5, 6) to which a party of the case has
    granted (and the tag says the contract is not itself one of the parties whose signature the
    rules look at).  Anything else gets another
    fingerprint."""
    other = "other:" + (tags[0] if tags else "none")
    if not isinstance(case, dict) or len(tags) != 1 or not tags[0].startswith(LITERAL_TAG_PREFIX):
        return other
    if case.get("accepted") is not True:
        return other
    parties = _party_addrs(case)
    grants = set()
    for g in case.get("grants") or []:
        m = re.match(r"addr(\d+)->addr(\d+):", g)
        if m:
            grants.add((int(m.group(1)), int(m.group(2))))
    contracts = case.get("contracts") or (5, 6)
    for s in case.get("signers") or []:
        if s in contracts and any((p, s) in grants for p in parties if p != s):
            return FINDING
    return other
