import re

LITERAL_TAG_PREFIX = "prop:smart contract that is not a party accepted as only/last signer"
FINDING = "contract-signer-used-through-grant-is-not-a-party"

PROP = {
    "go_test": "TestC10",
    "claimed": True,
    "coq_files": ["Metadata/Signers.v", "Metadata/SignersSpec.v", "Proofs/SignersProofs.v",
                  "Proofs/SignersProofs2.v", "Proofs/SignersProofs3.v", "Corr/CorrBase.v", "Corr/C10.v"],
    "rule": "a configuration = (smart-contract accounts, authz grants (granter, grantee, message kind), required parties, "
            "available parties (address, role, optional), required-role list with repeats, ordered signer list) for the direct "
            "calls, or (endpoint, rollup on/off, new/existing entry, scope owners, session parties, previous session, spec roles, "
            "grants, signers) for the messages; the quick tier enumerates EVERY configuration of 2 party addresses x {absent, "
            "2 roles x optional/required} x role lists of length <= 2 x sub-lists of 3 signers x subsets of 2 grants (5,600) "
            "and samples the larger space (<= 4 parties incl. one address in two roles, required != available, 3 repeated "
            "roles, 6 accounts of which 2 smart contracts, grants under own/alias/unrelated kind and in the wrong direction); "
            "thorough enumerates 3 addresses x role lists <= 3 x 4 signers. A case is non-trivial when there is at least one "
            "signer and at least one required party or required role (direct calls) / always for messages; distinct = "
            "distinct case terms",
    "assumptions": [
        "authz grants are generic authorizations (never consumed, unexpired); count-limited authorizations, whose "
        "consumption makes the order of lookups observable, are outside the model and the generators",
        "scopes have no value owner and none is proposed (value-owner signer rules are C09)",
        "party and signer addresses are valid bech32 account addresses (message ValidateBasic)",
        "a smart contract is what keeper.isWasmAccount says: an existing BaseAccount with sequence 0 and no public key",
        "the non-signature parts of the write validators (ids, spec lookups, record inputs/outputs) are satisfied, not modelled",
    ],
    "level_text": "Kernel-checked theorems (13, closed under the global context) about the Gallina transcription of "
                  "signers.go / signer_utils.go and of the callers in scope.go, session.go, record.go: an accepted "
                  "ValidateSignersWithParties accounts (signer or authz grant to a signer) for every non-optional required "
                  "party, admits an INJECTIVE assignment of the required-role entries to distinct available signing parties of "
                  "that role (the two greedy passes are proved equivalent to the existence of such an assignment, for all "
                  "inputs), satisfies the PROVENANCE-role rule and the smart-contract position rule; conversely the documented "
                  "rule implies acceptance (exact iff when no contract signs; direct-signature completeness); the endpoint "
                  "table (write/delete scope, add/delete owner, write session, write/delete record, rollup on/off, record "
                  "moving between sessions incl. the previous session's parties) is implied by acceptance. Each run evaluates "
                  "the transcription against the real keeper functions and the real message handlers on ~10,300 (quick) / "
                  "~190,000 (thorough) configurations inside Coq, and evaluates the documented rule (brute-force search for the "
                  "injective assignment, proved to decide it) on the implementation's own answers. One known finding "
                  "(documentation sentence about non-party contract signers, see findings/C10.md).",
    "level_note": "Trusted: Coq kernel + vm_compute; the hand transcription Metadata/Signers.v (tied to the code only by the "
                  "correspondence run, bounded by its generators); the rendering of spec/01_concepts.md in "
                  "Metadata/SignersSpec.v; the Go harness' projection (accept/reject, interned addresses); x/authz and "
                  "x/auth as used. The endpoint completeness direction is checked by the run (doc_direct), not proved. No axioms.",
    "technique": "Coq proof (greedy = matching by per-role counting, Hall's theorem in its trivial case) over a Gallina model + "
                 "exhaustive/differential correspondence evaluated in Coq",
}


def _party_addrs(case):
    """addresses (ids) of every party named in the case, whatever list it is in"""
    out = set()
    for key in ("req", "avail"):
        for p in case.get(key) or []:
            m = re.match(r"addr(\d+)/", p)
            if m:
                out.add(int(m.group(1)))
    for r in case.get("required") or []:
        out.add(int(r))
    for m in re.finditer(r"\bP (\d+) \d+ (?:true|false)", case.get("op") or ""):
        out.add(int(m.group(1)))
    return out


def fingerprint(case, tags):
    """FINDING exactly when the only thing wrong is the known discrepancy between
    spec/01_concepts.md ("If a smart contract is a signer, but not a party, it cannot be the only
    signer, and cannot be the last signer") and validateSmartContractSigners (a contract counts
    as "used" as soon as a party's authz grant makes it that party's signer): the message was
    accepted, one of its signers is a smart-contract account (ids 5, 6) to which a party of the case has
    granted (and the tag says the contract is not itself one of the parties whose signature the
    rules look at).  Anything else gets another
    fingerprint."""
    other = "other:" + (tags[0] if tags else "none")
    if not isinstance(case, dict) or len(tags) != 1 or not tags[0].startswith(LITERAL_TAG_PREFIX):
        return other
    if case.get("accepted") is not True:
        return other
    parties = _party_addrs(case)
    grants = set()
    for g in case.get("grants") or []:
        m = re.match(r"addr(\d+)->addr(\d+):", g)
        if m:
            grants.add((int(m.group(1)), int(m.group(2))))
    for s in case.get("signers") or []:
        if s in (5, 6) and any((p, s) in grants for p in parties if p != s):
            return FINDING
    return other
