import os, json, subprocess, hashlib

KNOWN_TAGS = {
    "prop:known:payments_with_source_reverse_drops_empty_external_id":
        "C13: reverse key paging of payments-with-source drops the empty-external-id payment",
}


def fingerprint(case, tags):
    """A history is a known finding only if EVERY failing tag is one of the reported shapes
    (the Coq checker emits them apart from, and in addition to, the first failing step's tags)."""
    if not tags:
        return None
    fps = set()
    for t in tags:
        if t in KNOWN_TAGS:
            fps.add(KNOWN_TAGS[t])
        else:
            return None
    return " + ".join(sorted(fps))


PROP = {
    "go_test": "TestC13",
    "claimed": True,
    "level_text": "Kernel-checked theorems (closed under the global context) over byte-level models of the exchange store keys (keys.go), of the commitment / market-id part of the store and of the pagination routines. For ALL joint histories of order (create / cancel / set-external-id / settlement incl. partial fill), payment (create / accept-reject / cancel / retarget), commitment (commit / release / settle-commitments) and market operations (create with automatic or explicit id, foreign account on a market address, accepting-commitments switch, closure, which acts on orders and commitments at once; C13_joint_histories) shorter than 2^64-1 operations: every open order is listed exactly once (ascending ids) in its market, owner, asset and all-orders lookups and under its external id, nothing else is listed, index type bytes equal the order type, order ids strictly increase, external ids are unique per market, payments are unique per (source, external id) and listed only under their current target; the ids of successfully created markets are pairwise different, a creation never lands on an id that already identifies a market, nextMarketID returns the smallest unused id above the counter and terminates; GetMarketCommitments / GetAllCommitments / GetAccountCommitments list exactly the non-zero entries of the commitment store (= GetCommitment), each (market, account) once, with valid amounts in existing markets. Pagination: for every strictly sorted prefix store, hit test with non-empty hit keys, limit >= 1, direction and after-order bound, following next_key and paging by offsets both return each matching entry exactly once in order and count_total is their number, for filteredPaginateAfterOrder (market / owner / asset listings of every reachable state), for the SDK's query.FilteredPaginate (GetAllOrders of every reachable state) and for query.Paginate (all-payments, payments-with-target, all-commitments and market-commitments listings of every reachable state in both directions; payments-with-source in the forward direction); with limit = 2^64-1 filteredPaginateAfterOrder returns everything left after the offset in ONE page for every filter, direction, bound and offset (clamp of commit 9f0ea4287). Refuted by witness: reverse key paging of payments-by-source drops the payment with the empty external id (known finding), and three pre-fix codes (reverts of c4d7ece23 / cd8a0fb50 / 9f0ea4287). Each run executes joint histories through the real message router (markets are created inside the histories by MsgGovCreateMarket) and compares, after every step, all listing endpoints of the real gRPC query server (ten order / payment ones, GetAllMarkets / GetMarket, the four commitment lookups) with each other, with GetOrder / GetPayment / GetCommitment and with the model, and replays paging sessions (after EVERY step in a third of the histories; limits 1..n+1, key and offset mode, both directions, type and after-order filters incl. 0, a middle id, the max id and 2^64-1, limit 0 and 2^64-1 with after bounds and count_total; at every checkpoint reverse key-mode sessions with small pages whose after bound is an id INSIDE the endpoint's own listing, with and without type filter) evaluated inside Coq; a well-formed creation or external-id change asking for an external id that no open order of the market carries must be accepted. Deepening round 2: accounts are BYTES and payment records carry the bech32 SPELLING (lower / upper case) of their Source and Target strings, so the histories contain creations, acceptances, rejections, cancellations and target changes in either spelling (the code decides 'target changed' on strings and builds index keys from bytes): C13_payments holds for all of them, C13_respelled_target_stays_listed proves the re-spelling step after any history and C13_reordered_index_write_refuted shows that swapping the two index writes of setPaymentInStore loses the entry; order denoms obey this chain's denom regex (denom_ok: a letter then 2..127 letters, digits, '/', '-', '.'; case sensitive) and the generators use upper-case, punctuated, case-twin, prefix-sibling and 128-character denoms for assets, prices and commitments in every index and listing endpoint; GetAllMarkets is paged like the other listings and C13_paging_complete_markets proves it complete for every reachable state; the SDK paginators with limit 2^64-1 have theorems (query.Paginate: one page with everything for every store; query.FilteredPaginate: the same when every entry is a hit, which holds for GetAllMarkets and GetAllOrders of every reachable state, refuted for arbitrary hit tests; offset >= 1 with the maximum limit returns an empty page, a remark); InitGenesis of the module is modelled (Exchange/GenesisImport.v) and each run imports random genesis states (order ids with gaps and out of order, special denoms, both address spellings, commitments in several entries, malformed ones) through GenesisState.Validate + Keeper.InitGenesis and runs the same history checker, listings and paging sessions from the imported state; the key prefixes of keys.go are enumerated by a translator on every run and C13_key_prefixes_covered requires each to be modelled or listed as out of scope with a reason.",
    "level_note": "Trusted: Coq kernel + vm_compute; the hand transcriptions Exchange/KV.v, Exchange/Index.v, Exchange/Paging.v, Exchange/Commit.v Exchange/GenesisImport.v, Exchange/KeyCoverage.v (reviewed coverage table) + the std-lib translator translate/exchkeys (order / payment / commitment VALUES are structured, not protobuf bytes or coin strings; an address string is its bytes plus one bit for the spelling; the SDK store / prefix-store / iterator semantics and query.Paginate / FilteredPaginate are modelled; the commitment and market-id keys are modelled as a second store next to the order / payment store because their type bytes differ; GetMarketAddress is assumed collision free; which market ids have an account is a set); the Go harness' projection (order = type, market, owner, asset denom+amount, external id; payment = source + spelling, external id, target + spelling, bbb amount; the price denom of an order is used by the generator only; commitment = market, account, coins; market = id + the name tag given at creation; listed orders are compared with GetOrder by protobuf bytes in Go). No axioms. Funds, holds, fees, permissions and the bank transfers of commitment settlements are not modelled here; account removal (keeper API only) is outside the market-id theorem.",
    "technique": "Coq proof (store invariants by induction over histories; pagination by induction over pages) of a Gallina byte-level model + differential correspondence and property checker evaluated in Coq on real-code traces",
    "coq_files": ["Exchange/KV.v", "Exchange/Index.v", "Exchange/Paging.v", "Exchange/Commit.v", "Proofs/KVProofs.v", "Proofs/IndexProofs.v",
                  "Proofs/PaymentProofs.v", "Proofs/PagingProofs.v", "Proofs/PagingSdkProofs.v", "Proofs/CommitProofs.v", "Proofs/C13Glue.v",
                  "Exchange/GenesisImport.v", "Proofs/PagingMaxProofs.v", "Proofs/MarketsPagingProofs.v", "Proofs/RespellProofs.v",
                  "Proofs/GenesisImportProofs.v", "Proofs/GenesisCommitProofs.v",
                  "Exchange/KeyTable.v", "Gen/GenExchangeKeys.v", "Exchange/KeyCoverage.v", "Proofs/KeyCoverageProofs.v",
                  "Corr/CorrBase.v", "Corr/C13.v"],
    "rule": "joint histories of 22-35 operations (the first two create the base markets) over 2-6 markets, 3 owners, asset denoms aaa/aaab/bbb (prefixes of each other on purpose) plus, per history, three denoms out of Aaa/aaA/AAA (case twins of aaa), an IBC voucher denom ibc/<64 upper-case hex> and its lower-case twin, its 12- and 13-character prefixes, fac/T.k-n1 / Fac/T.k-n1, a 128-character denom and its 127-character prefix (two of the three are siblings: case twins or prefixes of one another; three scripted orders per history land on them; half of all orders and commitments use them), price denoms pricecoin / Pricecoin / ibc/PRICE0F / p1.x-y/Q / a 128-character one, creations with illegal denoms (':' '_' leading digit, 2 and 129 characters); owner, source and target strings of messages and of every query request in lower or UPPER-case bech32 (one request in three), payments created with upper-case Source / Target strings (scripted into every third history: a payment with an upper-case target that is then re-targeted to the same account; into every other third: an upper-case source), accept with the stored or the other spelling, reject-all with one source in both spellings; genesis cases: InitGenesis of 2-3 markets under random ids, 0-8 orders under random pairwise different ids 1..40 in random order, LastOrderId at or above (sometimes below) the largest, 0-4 commitments (one (market, account) possibly twice), 0-5 payments in both spellings (sometimes one payment under both spellings of its source), an unknown market or a doubly carried external id at random, followed by an observation step and 8-12 operations; external ids from a pool of 5 plus empty/100/101-byte ones and NON-ASCII ones (multi-byte UTF-8 at 99 / 100 / 101 / 102 bytes, ids of at most 100 characters but more than 100 bytes such as 51 x U+00E9 or 100 x U+5B57, invalid UTF-8, ids that are byte prefixes of one another such as C3 / C3 A9 / 50 x C3 A9: one draw in four of a non-empty id, and scripted into every history through create, set-external-id and payment creation; the limit is 100 BYTES in the model, in ValidateExternalID and in the lookup guard; after every step the external id of EVERY open order is looked up in its market by the gRPC query and by the keeper, every stored payment by GetPayment) (a 100-byte order id, a 100-byte payment id and a source holding an empty-id payment next to another one are scripted into every sixth history), payments incl. empty external ids, commitments in 1-2 denoms incl. malformed amounts, market creations with automatic / explicit / already-used ids incl. an explicit id exactly where the automatic counter stands and a foreign account on the next automatic id, an external id given up (changed or cleared, the order then cancelled or not) and taken again by another order of the market through creation and through set-external-id (scripted into every third history, attempted at random elsewhere); a third of the histories is paged after every step; a history (= one case) is non-trivial when it has accepted operations and ends with open orders, payments or commitments; distinct = distinct operation/outcome sequences; the number of distinct paging-session shapes (endpoint, type filter, after bound, direction, mode, size) is reported separately as stats.distinct_session_shapes",
    "assumptions": ["store iteration is ascending bytewise key order and a prefix store shows exactly the keys with that prefix (cosmossdk.io/store), as transcribed in Exchange/KV.v",
                    "histories are shorter than 2^64-1 operations (nextOrderID is uint64 and wraps)",
                    "page arithmetic does not overflow: entries + limit + 1 < 2^64 for the multi-page theorems; limit = 2^64-1 has its own theorems: C13_max_limit_one_page (filteredPaginateAfterOrder, every offset), C13_max_limit_sdk_paginate_one_page and C13_max_limit_sdk_filtered_one_page (SDK routines, offset 0; with an offset >= 1 they return an empty page, C13_max_limit_sdk_offset_remark)",
                    "bech32 address strings have exactly two spellings (all lower case, all upper case); the keeper receives the canonical lower-case string from AccAddress.String()",
                    "genesis import: the hold module already holds the funds the imported orders, commitments and payments need (the harness places them); no foreign account sits on the address of a genesis market",
                    "fewer than 2^32 markets (nextMarketID is uint32 and wraps); GetMarketAddress (a hash) is collision free on the ids in use; market accounts are never removed (no message does)"],
}


def pre(ctx):
    """Translator: build translate/exchkeys (std-lib go/parser only), run it on ctx['repo'], render
    coq/Gen/GenExchangeKeys.v (rewritten only when its content changes): every constant declared in
    x/exchange/keeper/keys.go with its value, and every byte / string literal a function of that
    file puts into a key without a named constant.  The obligation C13_key_prefixes_covered
    (Properties/C13.v: every constant is modelled or listed as out of scope in
    Exchange/KeyCoverage.v with the same value, no row is stale, the modelled bytes are the ones
    Exchange/Index.v and Exchange/Commit.v use) then decides."""
    verif = ctx["verif"]
    tdir = os.path.join(verif, "translate", "exchkeys")
    bdir = os.path.join(ctx["build"], "translate")
    os.makedirs(bdir, exist_ok=True)
    binp = os.path.join(bdir, "exchkeys")
    env = dict(ctx["env"], GOFLAGS="-mod=mod", GOPROXY="off", GOSUMDB="off", GOTOOLCHAIN="local", GOWORK="off")
    p = subprocess.run(["go", "build", "-o", binp, "."], cwd=tdir, env=env,
                       stdout=subprocess.PIPE, stderr=subprocess.STDOUT, text=True, timeout=600)
    if p.returncode != 0:
        return {"error": "exchkeys does not build: " + p.stdout[-1500:]}
    p = subprocess.run([binp, ctx["repo"]], stdout=subprocess.PIPE, stderr=subprocess.PIPE, text=True, timeout=600)
    if p.returncode != 0:
        return {"error": "exchkeys failed on %s: %s" % (ctx["repo"], p.stderr[-1500:])}
    tag = hashlib.sha256(os.path.realpath(ctx["coq"]).encode()).hexdigest()[:8]
    jpath = os.path.join(bdir, "exchkeys_%s.json" % tag)
    open(jpath, "w", encoding="utf-8").write(p.stdout)
    p = subprocess.run(["python3", os.path.join(tdir, "gen_coq.py"), jpath, ctx["coq"]],
                       stdout=subprocess.PIPE, stderr=subprocess.PIPE, text=True, timeout=120)
    if p.returncode != 0:
        return {"error": "exchkeys/gen_coq.py failed: " + p.stderr[-1500:]}
    info = json.loads(p.stdout)
    return {"obligations": 1,
            "tables": {"gen_exchange_key_consts": info["rows"], "byte_consts": info["byte"],
                       "string_consts": info["string"], "unrecognised": info["unrecognised_rows"],
                       "raw_literals": info["raw_literals"]},
            "rewritten": info["rewritten"], "extract_json": os.path.relpath(jpath, verif)}
