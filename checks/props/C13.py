KNOWN_TAGS = {
    "prop:known:payments_with_source_reverse_drops_empty_external_id":
        "C13: reverse key paging of payments-with-source drops the empty-external-id payment",
}


def fingerprint(case, tags):
    """A history is a known finding only if EVERY failing tag is one of the reported shapes
    (the Coq checker emits them apart from, and in addition to, the first failing step's tags)."""
    if not tags:
        return None
    fps = set()
    for t in tags:
        if t in KNOWN_TAGS:
            fps.add(KNOWN_TAGS[t])
        else:
            return None
    return " + ".join(sorted(fps))


PROP = {
    "go_test": "TestC13",
    "claimed": True,
    "level_text": "Kernel-checked theorems (closed under the global context) over a byte-level model of the exchange store keys (keys.go) and of the pagination routines: for ALL histories of create / cancel / set-external-id / settlement (incl. partial fill) / market closure / payment create-accept-reject-cancel-retarget shorter than 2^64-1 operations, every open order is listed exactly once (ascending ids) in its market, owner, asset and all-orders lookups and under its external id, nothing else is listed, index type bytes equal the order type, ids strictly increase, external ids are unique per market, payments are unique per (source, external id) and listed only under their current target; for every strictly sorted prefix store, hit test with non-empty hit keys, limit >= 1 (no uint64 overflow), direction and after-order bound, following next_key and paging by offsets both return each matching entry exactly once in order and count_total is their number. Two statements are false of the faithful model and are proved refuted: reverse key paging of payments-by-source drops the payment with the empty external id (known finding), and the pre-fix by-asset / after-order code (reverts of c4d7ece23 / cd8a0fb50). Each run executes histories through the real message router and compares, after every step, all ten listing endpoints of the real gRPC query server with each other, with GetOrder/GetPayment and with the model, and replays paging sessions (limits 1..n+1, key and offset mode, both directions, type and after-order filters incl. 0, a middle id, the max id and 2^64-1, limit 0 and 2^64-1) evaluated inside Coq.",
    "level_note": "Trusted: Coq kernel + vm_compute; the hand transcriptions Exchange/KV.v, Exchange/Index.v, Exchange/Paging.v (order/payment VALUES are structured, not protobuf bytes; the SDK store/prefix-store/iterator semantics and query.Paginate/FilteredPaginate are modelled); the Go harness' projection (order = type, market, owner, asset denom+amount, external id; payment = source, external id, target, bbb amount; listed orders are compared with GetOrder by protobuf bytes in Go). No axioms. Funds, holds, fees, permissions, commitments and market-id allocation are not modelled here.",
    "technique": "Coq proof (store invariants by induction over histories; pagination by induction over pages) of a Gallina byte-level model + differential correspondence and property checker evaluated in Coq on real-code traces",
    "coq_files": ["Exchange/KV.v", "Exchange/Index.v", "Exchange/Paging.v", "Exchange/Commit.v", "Proofs/KVProofs.v", "Proofs/IndexProofs.v",
                  "Proofs/PaymentProofs.v", "Proofs/PagingProofs.v", "Proofs/PagingSdkProofs.v", "Proofs/C13Glue.v", "Corr/CorrBase.v", "Corr/C13.v"],
    "rule": "histories of 14-27 operations over 2 markets, 3 owners, asset denoms aaa/aaab/bbb (prefixes of each other on purpose), external ids from a pool of 5 plus empty/100/101-byte ones, payments incl. empty external ids; a history (= one case) is non-trivial when it has accepted operations and ends with open orders or payments; distinct = distinct operation/outcome sequences; the number of distinct paging-session shapes (endpoint, type filter, after bound, direction, mode, size) is reported separately as stats.distinct_session_shapes",
    "assumptions": ["store iteration is ascending bytewise key order and a prefix store shows exactly the keys with that prefix (cosmossdk.io/store), as transcribed in Exchange/KV.v",
                    "histories are shorter than 2^64-1 operations (nextOrderID is uint64 and wraps)",
                    "page arithmetic does not overflow: entries + limit + 1 < 2^64 (the harness also exercises limit = 2^64-1, where filteredPaginateAfterOrder clamps the bound since commit 9f0ea4287)"],
}
