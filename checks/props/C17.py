PROP = {
    "go_test": "TestC17",
    "claimed": True,
    "coq_files": ["Trigger/Trigger.v", "Proofs/TriggerProofs.v", "Corr/CorrBase.v", "Corr/C17.v"],
    "rule": "each case is one chain history of 5-30 blocks run through the real FinalizeBlock/Commit with signed transactions on a fresh app: trigger creations (block-height, block-time and transaction-event conditions, 0-6 bank-send actions, one or two authorities, gas chosen so that the trigger's limit is tiny / medium / large / capped, malformed ones: action signer not an authority, authority did not sign, no actions, blank attribute name, past height/time, too little gas), destructions (owner, stranger, queued, unknown, zero id), event-emitting sends (matching / non-matching / failing), plain sends of the action denomination, bursts of triggers becoming ready in the same block (queue carries over MaximumActions / MaximumQueueGas). Non-trivial = at least one trigger was executed in the history; distinct = distinct step lists",
    "assumptions": ["trigger actions in the harness are bank MsgSend of a denomination nothing else moves; the model's bank is balance >= amount > 0 (forked SDK bank modelled and trusted)",
                    "gas numbers are external: the gas consumed before RegisterTrigger computes the limit and the out-of-gas/panic outcome of an action list are oracles supplied from the observation; theorems hold for every oracle; only 'a send needs >= 4000 gas' and 'a send never needs > 45000 gas' are assumed by the correspondence",
                    "baseapp runs ValidateBasic and the signature ante handler before the handler and rolls a failed tx back (exercised by the harness, not proved)",
                    "transaction-event names are not 'block-height'/'block-time' (see report: such a trigger makes the end blocker panic)"],
    "level_text": "Kernel-checked theorems over ALL block histories of the Gallina model of x/trigger (registry, gas limits, FIFO queue, begin-block dispatch with MaximumActions/MaximumQueueGas, create/destroy, end-block detection tx->height->time): every id is in at most one of registry/queue and never returns once dispatched; no id is dispatched twice; a dispatched trigger was detected in a strictly earlier block in which its condition held; dispatch order = detection order; a dispatch applies all of a trigger's actions or none; per-block caps and per-trigger limit <= MaximumTriggerGas and <= the creating tx's gas; destroy only by the owner and only while registered; action signers and owner are among the creating tx's signers. Tied to the code on every run by real chain histories (signed txs through FinalizeBlock/Commit) whose per-block registry, queue order, gas limits, executed ids with success flag, tx accept/reject and balances are compared with the model inside Coq, and on which the property's clauses are evaluated directly.",
    "level_note": "Trusted: Coq kernel + vm_compute; hand transcription Trigger/Trigger.v; harness projection; SDK tx pipeline and bank modelled. Not covered: actions other than bank sends (no non-gas panics are provoked), real gas accounting (oracle), liveness (a trigger skipped by detectTransactionEvents after a non-matching same-type event is modelled as the code does it, not judged), genesis import/export of queue state.",
    "technique": "Coq invariant proof by induction over block histories + differential correspondence on real ABCI histories evaluated in Coq",
}


def fingerprint(case, tags):
    """Recognises the one reported finding (findings/C17.md): the chain halts after a trigger with a
    transaction event named like a reserved listener prefix was created (only generated with
    VERIF_C17_RESERVED=1)."""
    if any(t.startswith("prop:chain halted") for t in tags):
        steps = (case or {}).get("steps", [])
        if any(("tx block-height" in s or "tx block-time" in s) and "-> true" in s for s in steps) or \
           any("CHAIN HALTED" in s and "TransactionEvent, not" in s for s in steps):
            return "C17: end blocker panics on a transaction event named block-height/block-time"
    return None
