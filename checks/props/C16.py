import re

PROP = {
    "go_test": "TestC16",
    "level_text": "Kernel-checked theorems (11 + 1 refutation, closed under the global context, by induction over ALL histories of name binds under restricted/unrestricted parents, name transfers and deletions (Name/Name.v's own rules, composed), adds incl. identical re-adds, value/type/expiration updates, deletes by name and by value, direct purges, account-data writes, MaxValueLength updates and blocks with a sweep limit; names are the byte strings as sent, holders account or scope addresses): (1) an attribute write under a name, and the name's deletion, is accepted only from the current owner of the name the spelling normalises to, owner = the address in the name record whose STORED name is that name (PurgeAttribute given a normalised name that has no record is accepted from any account holder and provably changes nothing; SetAccountData writes as the module account owning 'accountdata' or changes nothing); (2) an attribute disappears only through its owner's delete / delete-distinct (spelled as stored) / value update (of exactly that attribute: C16_store_key_identifies_the_name links the store key to the normal form), the owner's deletion or purge of the name, an account-data write on its account, or a block beginning strictly after the expiration currently stored on it; (3) the per-(name key, account) counter is never below the number of records, so AccountsByAttribute / AttributeAccounts list every holder; (4) the gRPC queries Attributes / Attribute (any spelling with the record's key) / Scan return exactly the stored attributes that have not expired and never an expired one, swept or not; (5) an attribute whose stored expiration is before the new block time is gone after that block's sweep PROVIDED no more attributes have expired than the limit (C16_expired_gone_after_sweep), and without the proviso after k blocks once k*limit covers the number expired by then (C16_expired_gone_within_blocks); (6) the store invariants (one record per key, every stored expiration has its queue entry, queue duplicate-free, stored names in normal form; for non-colliding names no attribute under an unbound name); (7) the executable checker that each run evaluates on the implementation's observations never fails on the model's own trace. (1), (2), (6b), (7) carry the hypothesis that the names of the history do not collide under the name module's key; without it they are FALSE of code and model: C16_only_owner_writes_refuted_under_key_collision (vm_compute witness: owner of aa.bbcc writes under the never-bound ccaa.bb, a stranger later deletes it) = C15's known finding seen through attributes, reproduced on the real message router by every run (KNOWN-FINDING name-key-preimage-collision (attribute write)). Each run drives the real message handlers, BeginBlocker / DeleteExpiredAttributes(small limit) and keeper on ~240 (quick) / ~4,000 (thorough) generated histories (~26 steps each) and compares, after every step inside Coq: accept/reject, every stored attribute of every holder, AccountsByAttribute and GetRecordByName of every name, MaxValueLength, and the paged gRPC queries Attributes / Attribute / Scan / AttributeAccounts / AccountData for one holder and one arbitrarily spelled name; and it evaluates the property's own checker (core tags + queries-vs-keeper-dump tags) on the implementation's observations alone.",
    "level_note": "Trusted: Coq kernel + vm_compute; the hand transcription Attribute/Attribute.v composed with Name/Name.v (tied to the code only by the correspondence run, bounded by its generators: 8 addresses incl. one scope and one session metadata address, 4 attribute names under a restricted and an unrestricted root + the roots + 'accountdata' (+ the colliding pair), 5 values of 2/10/10001 bytes, 6 callers one of which has no account, whole-second times); the Go harness' projection; SHA-256 injective on the attribute store's name keys and values (the NAME module's key is modelled by its pre-image, collisions included); the store order of queue entries and of accountdata attributes is supplied by the harness as ranks computed from the real key bytes; ASCII names; the SDK's FilteredPaginate is exercised (pages followed by key / offset, forwards / reverse, totals) but not modelled beyond 'concatenated pages = listing, every page but the last full'; that the executable checker says the same as theorems (1)-(5) on observations is by reading it. No axioms.",
    "technique": "Coq proof by induction over histories of a Gallina state-machine model composed with the name-module model (invariants: unique keys, counter >= records, queue covers stored expirations and is duplicate-free, stored names normal, and - for collision-free universes - every attribute name bound to a record of exactly that name) + string lemmas relating the two name keys + differential correspondence and property checker evaluated in Coq on histories run through the real message handlers, keeper and query server",
    "coq_files": ["Name/Name.v", "Proofs/NameProofs.v", "Attribute/Attribute.v", "Proofs/AttrNameKeyProofs.v", "Proofs/AttributeProofs.v", "Corr/CorrBase.v", "Corr/C16.v", "Proofs/C16CheckerProofs.v"],
    "rule": "a case is one history (12-41 steps quick; ~6,500 steps per quick run, 59% of the non-block operations accepted) over holders {3 accounts, 1 scope, rarely a session metadata address / an account-less address / the root owner}, names {aa.c16, bb.c16 under a restricted root, aa.open under an unrestricted root, xx.aa.c16, rarely a root or 'accountdata'} and 5 values: ~30% adds (a third of the unscripted ones re-adding an existing (account,name,value) with another type/expiration), ~7% updates, ~8% expiration updates, ~9% deletes by name / by value, ~20% name messages: bind 12% (signer entitled ~85% of the time; restricted and unrestricted parents; owner sometimes account-less), transfer 4% (by owner, governance or a stranger), delete 4%; ~2% direct purges, ~2% account-data writes (message for accounts, keeper for the scope), ~1.5% MaxValueLength updates (by governance or not), ~21% blocks (half aimed at an expiration ever submitted: one second before, exactly at, one second after; a quarter of them through DeleteExpiredAttributes with limit 0..3 instead of the BeginBlocker); callers are the current owner ~80% of the time, otherwise any of 6 addresses; in ~22% of all operations that carry a name (attribute AND name-module messages, and the direct purge) the name is spelled non-canonically (outer white space, other letter case, white space next to a dot, both, or not a valid name at all; then the caller is a non-owner half of the time); every step also queries one holder and one name (a third of the time re-spelled) page by page with limit 1-4 (or 100), by next_key or offset, forwards or reverse, with or without count_total (~840 multi-page listings per quick run); fixed fifths of the histories open with scripted shapes: identical re-add with the SAME expiration (4 variants), more attributes expiring in one block than the sweep limit followed by further small-limit blocks (~85 cut-off sweeps per quick run), the name changing hands (transfer, then deletion and re-binding by a DIFFERENT owner) with the former owner's writes in between, and - otherwise a third of the time - add / purge-or-rebind / re-add / block between the two expirations; a fixed twelfth opens with the key-collision shape (aa.bbcc / ccaa.bb: known finding); a history is non-trivial when an identical attribute was re-added with a changed type/expiration, a block's sweep removed an attribute, a block crossed a stale queue entry while the attribute stayed alive, the limit cut a sweep off, or a new owner wrote after the name changed hands; distinct = distinct history terms",
    "assumptions": ["SHA-256 injective on the attribute store's name keys (ToLower(TrimSpace(name)), reversed) and on values: record key = (account, that key, value); the name module's key is its pre-image (collisions modelled)",
                    "names are ASCII byte strings (Name/Name.v); values short decimal numerals without surrounding white space (valid for JSON/String/Int/Float/Proto/Bytes, invalid for UUID/Uri), lengths 2, 10, 10001",
                    "block and expiration times are whole seconds; uint64 counters do not overflow",
                    "the sweep limit is an argument of the model (BeginBlocker passes the constant MaxExpiredAttributionCount = 100000, which tests cannot change; smaller limits are exercised through the exported keeper method DeleteExpiredAttributes); 'expired gone after the next block' is proved under #expired <= limit, and after ceil(n/limit) blocks otherwise",
                    "ownership theorems assume the names of the history do not collide under the name module's key (refuted otherwise: known finding of C15, fingerprint name-key-preimage-collision (attribute write))",
                    "PurgeAttribute (keeper API, only caller: DeleteName with the normalised name) is judged by the property checker only when given a normalised name; given another letter case by a stranger it wipes the name's attributes (C16_purge_wants_a_normalised_name; modelled and compared, not reachable by a message)",
                    "SDK tx atomicity (a failed handler leaves no writes) is modelled as returning the old state and checked on every rejected step"],
    "claimed": True,
}

_WRITE_OPS = {"add", "update", "update_expiration", "delete", "delete_distinct"}


def _revcat(name):
    return "".join(seg.strip() for seg in reversed(name.split(".")))


def _collide(a, b):
    return isinstance(a, str) and isinstance(b, str) and a != b and _revcat(a) == _revcat(b)


def fingerprint(case, tags):
    """'name-key-preimage-collision (attribute write)' exactly when the failure is the known one:
    the first (and only reported) failing step is an ACCEPTED attribute write whose normalised name
    N is not bound, while the name module resolves N to the record of a different name M with the
    same reversed, separator-less segment concatenation (C15's collision), the only failing tag is
    prop:only_owner_writes at that step, and model and implementation agree (no corr: tag).
    Anything else gets a different fingerprint (and is reported as a VIOLATION)."""
    other = "other:" + (tags[0] if tags else "none")
    if not isinstance(case, dict) or case.get("kind") != "history":
        return other
    if len(tags) != 1:
        return other
    m = re.match(r"^prop:only_owner_writes @step (\d+)$", tags[0])
    if not m:
        return other
    k = int(m.group(1))
    steps = case.get("steps") or []
    if not (0 <= k < len(steps)):
        return other
    st = steps[k]
    if st.get("step") != k or st.get("accepted") is not True or st.get("op") not in _WRITE_OPS:
        return other
    n, mname = st.get("name_normalised"), st.get("resolves_to_record_named")
    if not _collide(n, mname):
        return other
    # before this step no write went through a foreign record
    for prev in steps[:k]:
        if prev.get("accepted") and prev.get("op") in _WRITE_OPS and \
                prev.get("name_normalised") != prev.get("resolves_to_record_named"):
            return other
    return "name-key-preimage-collision (attribute write)"
