PROP = {
    "go_test": "TestC19",
    "level_text": "Kernel-checked theorems (13, closed under the global context) state the documented rounding for every amount: ratio fees, exchange share and the commitment charge are ceilings of the exact rational (18-decimal truncation per converted input), the recipient bips share is the floor and the parts add up, nothing is negative, and inside explicit 256-bit product bounds the overflow-checked transcription never fails. The theorems are about the Gallina transcription of the five Go functions; each run evaluates the transcription against the real functions (through the real exchange keeper for the split and the commitment charge) on ~2,300 (quick) / ~90,000 (thorough) boundary-heavy inputs inside Coq, and evaluates the property's checker on the implementation's own outputs.",
    "level_note": "Trusted: Coq kernel + vm_compute; the hand transcription Exchange/Arith.v (tied to the code only by the correspondence run, bounded by its generators); the Go harness' projection; sdkmath.Int/LegacyDec semantics as transcribed. No axioms.",
    "technique": "Coq proof over Z (lia/nia) of a Gallina model + differential correspondence evaluated in Coq",
    "coq_files": ["Exchange/Arith.v", "Proofs/ArithProofs.v", "Corr/CorrBase.v", "Corr/C19.v"],
    "rule": "inputs drawn from boundary amounts (0,1,small primes, 10^k+-1, 2^k+-1 up to 2^200), exact multiples and +-1 neighbours of every divisor, bips 0..10000 and beyond; a case is non-trivial when the implementation returned a value (not an error) and rounding or a split actually took place (remainder non-zero or 0<bips<10000); distinct = distinct input tuples",
    "assumptions": ["sdkmath.Int/LegacyDec semantics as transcribed in Exchange/Arith.v header",
                    "amounts on chain are < 2^256 (sdkmath.Int limit); totality theorems state the product bounds under which no panic occurs"],
}
