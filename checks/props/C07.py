# Known finding: the record key of a single sender longer than 32 bytes is its first 32 bytes, so two
# different senders with a common 32-byte prefix share one record (findings/C07.md).  A history is that
# finding only if it contains such a pair of senders (the harness marks it) and EVERY failing tag is one
# of the shapes the collision produces; anything else in the same history is still a violation.
_COLLISION_TAGS = {
    "prop:quarantined_funds_recorded_under_another_sender",
    "prop:payout_not_exactly_once_in_full",
    "prop:funds_released_report",
    "prop:holder_covers_records",
    "prop:module_invariant_broken",
    "prop:accept_of_all_senders_refused",
}


def fingerprint(case, tags):
    if not tags or not isinstance(case, dict) or not case.get("prefix_collision"):
        return None
    for t in tags:
        if t.split(" @")[0] not in _COLLISION_TAGS:
            return None
    return "quarantine-record-key-truncation-collision"


PROP = {
    "go_test": "TestC07",
    "level_text": "Kernel-checked theorems (13 + a refutation witness for the known record-key truncation finding + two concrete witnesses, closed under the global context) over ALL histories of a Gallina model of the quarantine module, the bank transfers it intercepts and the marker send restriction that runs before it (opt-in/out, MsgSend, MsgMultiSend, many-inputs InputOutputCoins, accept, decline, auto-response updates, restricted marker coins, started from any genesis incl. multi-sender records): the holder's balance covers the record total per denom and its surplus is constant unless someone pays the holder directly; for every transfer kind, pair by pair, a quarantined (input, output) pair leaves the receiver's balance unchanged and adds exactly its amount to the (to, from) record; only an accept lowers the holder's balance; the suffix index reaches every multi-sender record from each of its senders (so accept/decline see every record); an accept removes exactly the records all of whose unaccepted senders were named, pays exactly their coins holder -> receiver, and an accept naming all unaccepted senders of a record IS accepted and pays it in that step (liveness); a decline puts every named sender back among the unaccepted ones and the record then stays unpaid, coins intact, through every continuation without an accept naming that sender; decline/opt/auto-response operations change no balance and no record coins; auto-accepted or non-quarantined sends arrive directly; the sum of all balances per denom is conserved by every history; InitGenesis accepts a genesis exactly when every record has a sender and the holder holds the imported total per denom, and what it accepts is a well-formed, index-sound state whose holder covers the records. Each run replays generated histories (240 quick / 4000 thorough, 10-40 operations, restricted marker coins in ~3/4 of them, scripted accept/decline/re-decline sequences on multi-sender records) through the REAL message handlers, bank and marker keeper, compares every observable with the model inside Coq after every step, evaluates an index-free executable statement of the property on the implementation's observations alone (incl. a ledger of the receiver's own Accept/Decline answers: no payout while a sender was last declined) and runs the module's own invariant.",
    "level_note": "Trusted: Coq kernel + vm_compute; the hand transcription Quarantine/Quarantine.v (tied to the code only by the correspondence run, bounded by its generators); the Go harness' projection; the forked bank, the marker send restriction as modelled (restricted markers without required attributes / deny list / transfer agents; the holder is a required-attribute bypass address: wiring obligation), the sanction restriction (pass-through) and tx rollback as modelled. The first six theorems assume the holder module address signs nothing (signer_ok); the property checker's acceptance ledger is not proved sound on the model. No axioms.",
    "technique": "Coq proof over all histories (induction over fold_left step) of a Gallina model + differential correspondence and property checker evaluated in Coq on observations of the real handlers",
    "coq_files": ["Quarantine/Quarantine.v", "Proofs/QuarantineProofs.v", "Proofs/QuarantineConservation.v", "Proofs/QuarantineIndex.v", "Proofs/QuarantineSteps.v", "Proofs/QuarantineTransfers.v", "Proofs/QuarantineLiveness.v", "Proofs/QuarantineHistories.v", "Proofs/QuarantineCollision.v", "Corr/CorrBase.v", "Corr/C07.v"],
    "rule": "a case is one history of 10-40 operations over 4-5 funded accounts, a stranger and the holder, 2-3 denoms of which each but the first is in 3/4 of the histories a RESTRICTED marker coin (active marker created in the history, Access_Transfer for at least two and usually all but one of the accounts; restricted coins are withdrawn from the marker), after a random genesis (opt-ins, auto-responses, 0-3 records of 1-3 senders) loaded by the real InitGenesis in a store branch that is kept only when it does not panic: in five of six histories the holder is funded exactly or with a surplus (must be accepted), in one of six it is UNDER-funded (must be refused; such a genesis is a case of its own, CGenRefused): short in one denom that it holds, a record denom absent from the holder, an empty holder, or covered record by record but not for two records together; a wrongly accepted genesis is followed by the usual history so that the checker sees holder < records; operations: MsgOptIn/OptOut, MsgSend (also to the holder, to itself, to a stranger; over-balance and malformed coins; restricted coins from senders with and without Transfer access), MsgMultiSend 1..3 outputs (repeated receivers, mismatching totals), BankKeeper.InputOutputCoinsProv with 2-3 inputs, MsgAccept/MsgDecline naming all / a subset / accepted / foreign / duplicate / unknown senders, one sender 3-5 times alone or mixed with others (temporary and permanent); account addresses of 20, 32, 33, 40 and 255 bytes as senders and receivers (4-5 of six per history, pairwise different in their first 32 bytes); every eighth history adds a second 40-byte sender sharing 32 bytes with the first, or a 33-byte sender starting with the 32-byte account, plus the scripted sequence send L1, send L2, accept [L2], accept [L1,L2], MsgUpdateAutoResponses (incl. an invalid enum); in 70 % of the histories with a multi-sender genesis record a scripted sequence on it (accept A, decline B, decline A, accept B, accept A and two variants) is interleaved with the random operations; a history is non-trivial when at least one transfer was quarantined and at least one record was paid out; distinct = distinct operation sequences",
    "assumptions": ["the quarantine funds holder is a module address without a key: it signs no message (signer_ok)",
                    "accounts carry no locked coins, denoms are send-enabled and nobody is sanctioned; marker denoms are active restricted markers without required attributes, send-deny entries or transfer agents (the marker restriction is modelled for these), every other denom has no marker: the bank's other send restrictions pass the transfer through unchanged",
                    "record suffix hash (SHA-256 of the sorted senders) is collision-free: the model keys multi-sender records by the sorted sender list and single-sender records by the first 32 bytes of the sender (createRecordSuffix)",
                    "no Accept/Decline names two different senders that share their first 32 bytes (inj_named): without it the theorems are false of the code, C07_prefix_collision_refuted (known finding quarantine-record-key-truncation-collision)",
                    "an erroring or panicking message leaves no state change (SDK tx rollback)"],
    "claimed": True,
}

from wiring import hooks
pre, post = hooks("C07")
