PROP = {
    "go_test": "TestC18",
    "claimed": True,
    "level_text": "PARTIAL. Proved (kernel-checked, 36 theorems closed under the global context): on the Gallina transcriptions of the InitGenesis/ExportGenesis pairs of ALL TEN custom modules - quarantine, sanction, name, attribute, msgfees, hold, trigger (Genesis/RoundTrip.v), exchange (params, markets with fee tables / flags / permissions / required attributes, orders incl. partially filled ones, commitments, payments, last ids), marker (marker accounts with access lists as auth accounts, registry, deny list, net asset values) and metadata (scopes with value owners in the bank, sessions, records, scope / contract / record specifications, object store locators, scope net asset values with heights) - and of their product in app.go's genesis order (exchange's hold check against the imported hold state), every well-formed store (strictly key-sorted, each record under the key its setter computes, validity as the keepers demand, secondary-index entries exactly the ones derived from the primary records) is rebuilt exactly from its own export - import (export s) = Some s, INCLUDING the secondary indexes that InitGenesis rebuilds through the setters (exchange market/owner/asset/external-id order indexes and target->payment index, marker registry, metadata address->scope, spec->scope, address->spec, contract-spec->scope-spec indexes): C18_*_indexes_rebuilt - hence the second export equals the first and the re-imported state accepts its own export; a generic theorem for index-maintaining import loops (C18_indexed_import_fresh) and one for the per-owner regrouping of net asset values (C18_regroup_flat); every history of raw store writes/deletes yields a key-sorted table and two histories with extensionally equal final stores export identically. Markers in EVERY status reached by EVERY route (Genesis/MarkerLifecycle.v: SetStatus, NewMarkerAccount, Validate, Finalize / Activate / Cancel / DeleteMarker): for every history of life-cycle calls by any callers an ACTIVE marker has no manager, a PROPOSED / FINALIZED one the manager it was created with, a CANCELLED / DESTROYED one either (both reached), and the genesis round trip keeps status, MANAGER and access list of every account, hence DeleteMarker's decision about every caller (C18_marker_manager_by_status, C18_marker_roundtrip_keeps_manager); an export through the constructor NewMarkerAccount would lose the manager of a marker cancelled before activation (C18_marker_constructor_export_drops_manager) while agreeing on all usual flows. Names under parameter changes (Genesis/NameParams.v): every history of bindings and of parameter changes that only LOOSEN the limits leaves a store its own export rebuilds (C18_name_roundtrip_under_loosening). References to DELETED objects of another module (Genesis/DanglingRefs.v): no InitGenesis of the product reads the marker module's state, so whatever becomes of it - markers cancelled, deleted and purged whose denom still prices scope / marker net asset values, orders, trigger actions, or whose account still carries attributes, owns names, is a payment target or has data access to a scope - the whole export is accepted and rebuilds every module (C18_dangling_marker_references_survive). Translator obligation C18_store_prefixes_reviewed: the 58 store prefixes the ten modules declare, and whether ExportGenesis / InitGenesis reach them, regenerated from the source on every run (translate/genprefix), equal the reviewed table (39 carried by the genesis, 17 rebuilt by InitGenesis from the exported records, 2 legacy prefixes nothing writes). What the shadow-node comparison decides, as a model (Genesis/ProcessHistory.v): a node whose block execution is oblivious of process memory gives the same results and state under any side traffic and any restarts (C18_oblivious_node_replay_independent); the cached-regex shape is separated by a two-block schedule. REFUTED with witnesses: tightening the name params by governance under an existing name leaves a reachable state whose export InitGenesis rejects (C18_name_params_tightened_export_rejected_refuted, reproduced on the real application, findings/C18.md finding 4); a quarantine record with accepted and unaccepted senders (reached from a valid genesis holding a two-sender record by ONE MsgAccept: C18_quarantine_accepted_senders_reachable_refuted) is exported without its accepted senders, comes back under another key, and the same later messages release the funds on the imported chain but not on the exporting chain - reproduced on the real application (findings/C18.md). Validated on the real application on every run (NOT proved): cross-module block histories of signed transactions are exported, a fresh App is initialised from the export, and compared for two generations are the exported genesis of all ten custom modules, ~270 module queries, the RAW key/value content of every custom module store, and the raw secondary-index entries of the exchange / marker / metadata stores; the observed genesis of all ten modules and perturbed genesis files (reordered, duplicated, zero/expired/unspecified/unsanctionable entries; duplicate orders / payments / scopes with other owners / specifications with fewer owners, external-id clashes, too small last order id, market id 0, dropped markers, zero NAV volume) are evaluated against the models inside Coq, index tables byte for byte. The exporting and the imported chain then CONTINUE with the same blocks of signed transactions (among them MsgDelete by the manager of every cancelled marker) and must produce the same results and events; the exported marker records are compared field by field with the STORED accounts; the stored bytes of the marker accounts (auth store) are compared before / after import; the first key bytes present in every module store must be declared prefixes; the observed life-cycle operations are evaluated against the model. Determinism across runs (same process and a separate process) and restart safety (goleveldb, closed and reopened at random block boundaries, and - shadow node - after EVERY block) are VALIDATED ONLY: the chain a history is generated on is a PRIMARY node that receives heavy side traffic no replay sees (Simulate + CheckTx of every transaction, CheckTx(Recheck) between FinalizeBlock and Commit, ghost transactions that are never included, parameter probes, ~25 gRPC queries per phase incl. the dry-run endpoints CalculateTxFees / tx Simulate / exchange Validate* and *FeeCalc), the histories carry governance parameter changes (marker denom regex / max supply, message fees, name, attribute, exchange, sanction, auth gas params; a quarter with a later failing message) and transactions whose outcome depends on them, on two further history shapes (cross-module; fee-heavy with 16 extra accounts, 4-5 fee-bearing messages per transaction and at least three distinct fee recipients paid in every block, 20 % of them failing after the ante handler), by comparing app hash, tx results and events of every block; a Gallina function is deterministic by construction, so no theorem can speak about Go map order, scheduling or crash points. Every `for range <map>` in the anchored files and the custom modules is extracted from the source on each run and compared with a reviewed allow-list.",
    "level_note": "PARTIAL claim: export/import proved on models of all ten custom modules + validated on the real app; determinism and restart validated only (sampled histories, 3+1 quick / 10+1 thorough per seed; primary node with side traffic against replays and a shadow node re-opened after every block). The life-cycle model assumes that none of a life-cycle marker's coins circulates and that its supply is within MaxSupply (the generator keeps it so); the name-parameter model covers the length / level limits only (names already normalised, no UUID segments); translate/genprefix follows calls by NAME inside a module's own packages (an over-approximation: 'not reached' is certain, 'reached' is not). Trusted: Coq kernel + vm_compute; the hand transcriptions Genesis/*.v (tied to the code only by the correspondence run); hash-built store keys (name, attribute, msg fee, record address), stateless validators and bank balances enter the models as tables filled from the real functions; opaque bodies (market details, session / record / specification content, params) are compared by SHA-256 of their protobuf encoding; the auth and bank modules' own genesis round trip is the SDK's (the marker accounts travel through the auth genesis as BaseAccounts, the scope coins through the bank genesis); secondary indexes of the seven RoundTrip.v modules are not modelled (query + raw-store comparison only); the attribute store comparison leaves out the name->address counters (known finding, compared through the query) and the expiration queue (stale entries are inert); the map-range extractor translate/maprange is syntactic (no type checker) and its path flags are name-based; restart = clean close/reopen at block boundaries, not a crash in the middle of a commit. No axioms.",
    "technique": "Coq proof (marker life-cycle invariant over all histories, name stores under loosening parameter changes, oblivious-node replay theorem, generated-vs-reviewed store-prefix table, generic sorted-table round trip, generic index-maintaining import loop, per-module instances, product in genesis order, induction over write histories) of Gallina models + differential correspondence evaluated in Coq (genesis values and raw index entries) + replay/restart/export-import/raw-store validation on the real ABCI application + source scan of map ranges",
    "coq_files": ["Genesis/RoundTrip.v", "Genesis/Indexed.v", "Genesis/ExchangeGenesis.v", "Genesis/MarkerGenesis.v", "Genesis/MetadataGenesis.v",
                  "Genesis/FullProduct.v", "Genesis/QuarantineAccept.v", "Genesis/MarkerLifecycle.v", "Genesis/NameParams.v", "Genesis/ProcessHistory.v",
                  "Proofs/MarkerLifecycleProofs.v", "Proofs/NameParamsProofs.v", "Proofs/ProcessHistoryProofs.v",
                  "Gen/GenStorePrefixes.v", "Genesis/StorePrefixDoc.v", "Proofs/StorePrefixProofs.v",
                  "Genesis/DanglingRefs.v", "Proofs/DanglingRefsProofs.v",
                  "Proofs/RoundTripProofs.v", "Proofs/TableLemmas.v", "Proofs/ExchangeGenesisProofs.v", "Proofs/MarkerGenesisProofs.v",
                  "Proofs/MetadataGenesisProofs.v", "Proofs/FullProductProofs.v", "Proofs/QuarantineAcceptProofs.v", "Proofs/FullWitness.v",
                  "Corr/CorrBase.v", "Corr/C18Gen.v", "Corr/C18.v"],
    "rule": "a case is one of: round trip of a history's final state (and of the re-imported chain one block later) for the seven RoundTrip.v modules and, separately, for exchange / marker / metadata with their raw index entries; a perturbed genesis through the real InitChain (two families); per-module canonical-JSON equality for the ten custom modules; per-module raw store equality; the list of differing module queries; acceptance of the export by a fresh chain (two generations); per-block digests of a rerun / separate-process run / restarted run; a scripted scenario (fee shape: >= 3 recipients per block; quarantine multi-sender record once listed). Histories: 28-52 blocks of 2-8 signed transactions drawn from ~35 transaction kinds over all custom modules (about 10 % deliberately invalid), plus one fee-heavy history of 10 (30) blocks with 6-10 four-message transactions each; one life-cycle marker (its stored record and every finalize / activate / cancel / delete asked of it, with the outcome); per module the first key bytes of its store; the blocks both chains run after the import; a governance-tightens-a-parameter scenario per family (8 families). Every block of a history carries one life-cycle transaction and one transaction that makes another module refer to a life-cycle marker (nine kinds of reference, by denom and by account address) or a scope; markers on a deleting route are cancelled, deleted and purged only after all nine, so that every export holds dangling references of every kind (counted: exported_dangling_*); a burst of triggers falls due in the last block (non-empty queue with an advanced start index at export). One scripted governance history (marker regex, a rolled-back message-fee change, a rolled-back name-params change, attribute max length, then the transactions that depend on them) is replayed without side traffic and on a shadow node re-opened after every block. History 0 of a run is dense in governance parameter changes and dependent transactions and is replayed on a shadow node re-opened after every block. Non-trivial = a round trip whose export holds orders, holds, attributes, quarantine records and triggers, or a perturbation class x accept/reject outcome, or a scenario; distinct = distinct history labels / perturbation classes",
    "assumptions": ["VALIDATION ONLY (not proof): process-history independence - the primary node (side traffic: Simulate, CheckTx, Recheck between FinalizeBlock and Commit, never-included ghost transactions, queries incl. dry-run endpoints) against a shadow node fed the same blocks only and re-opened after every block: app hash, tx results and events of every block (tag prop:state_depends_on_process_history); the theorem about oblivious nodes says why this is the right comparison, it says nothing about the Go node",
                    "VALIDATION ONLY (not proof): determinism - the same recorded blocks replayed on a second App in the same process and on a third in a separate process give the same app hash, tx results (code, codespace, data, gas, log) and events for every block; evaluated in Coq merely as equality of the recorded digests (tags prop:determinism_digests_differ:*)",
                    "VALIDATION ONLY (not proof): restart - the same blocks on a goleveldb-backed App closed and reopened after ~35 % of the blocks give the same digests (tag prop:restart_digests_differ); a crash during Commit is not exercised",
                    "VALIDATION ONLY (not proof): export/import on the real app is observed for the sampled histories; the theorems are about the models",
                    "import starts from an empty module store (fresh chain); the bank, auth and staking genesis are imported by the SDK before the custom modules (bank differs after import only by mint/inflation of the extra block); the auth genesis carries every marker account as a BaseAccount with its account number (app/export.go), the bank genesis carries the scope coins",
                    "names and attributes are stored normalized; addresses in genesis are valid bech32 (an undecodable address cannot be expressed in the models); denoms and required-attribute strings do not contain the record separator 0x1E; genesis coin lists that the Go code adds as sdk.Coins are denom-sorted",
                    "the theorems' premise 'index entries = entries derived from the primary records' is checked on the real stores on every run (tags corr:premise_index_is_derived:*)",
                    "map-range allow-list checks identity (file, function, receiver, expression) and the set of callees in the loop body; other body edits inside an already reviewed loop are not detected"],
}

import os, json, subprocess, hashlib

_ROOT_HINT = ("InitGenesis", "ExportGenesis", "BeginBlocker", "EndBlocker", "BeginBlock", "EndBlock", "PreBlocker",
              "InitChainer", "ExportAppStateAndValidators", "AggregateEvents")


def _scan(ctx):
    verif = ctx.get("verif") or os.path.dirname(os.path.dirname(os.path.dirname(os.path.abspath(__file__))))
    tdir = os.path.join(verif, "translate", "maprange")
    bdir = os.path.join(ctx.get("build") or os.path.join(verif, "build"), "translate")
    os.makedirs(bdir, exist_ok=True)
    binp = os.path.join(bdir, "maprange")
    env = dict(ctx["env"], GOFLAGS="-mod=mod", GOPROXY="off", GOTOOLCHAIN="local", GOWORK="off")
    p = subprocess.run(["go", "build", "-o", binp, "."], cwd=tdir, env=env,
                       stdout=subprocess.PIPE, stderr=subprocess.STDOUT, text=True, timeout=600)
    if p.returncode != 0:
        raise RuntimeError("maprange does not build: " + p.stdout[-1500:])
    p = subprocess.run([binp, ctx["repo"]], stdout=subprocess.PIPE, stderr=subprocess.PIPE, text=True, timeout=600)
    if p.returncode != 0:
        raise RuntimeError("maprange failed on %s: %s" % (ctx["repo"], p.stderr[-1500:]))
    scan = json.loads(p.stdout)
    allow = json.load(open(os.path.join(verif, "checks", "c18_map_ranges.json")))
    reviewed = {}
    for e in allow["entries"]:
        reviewed[(e["file"], e["func"], e["recv"], e["expr"])] = e
    seen = {}
    for s in scan["sites"]:
        seen.setdefault((s["file"], s["func"], s["recv"], s["expr"]), []).append(s)
    unreviewed, changed, sensitive = [], [], []
    for k, ss in sorted(seen.items()):
        e = reviewed.get(k)
        cons = any(s.get("consensus_path") for s in ss)
        desc = {"file": k[0], "func": k[1], "recv": k[2], "expr": k[3], "lines": [s["line"] for s in ss],
                "kind": ss[0]["kind"], "consensus_path": cons, "msg_path": any(s.get("msg_path") for s in ss),
                "roots": sorted(set(r for s in ss for r in s.get("roots", [])))}
        if e is None or len(ss) != int(e.get("count", 1)):
            unreviewed.append(desc)
            continue
        calls = sorted(set(c for s in ss for c in s.get("body_calls", [])))
        if "body_calls" in e and calls != sorted(e["body_calls"]):
            desc["body_calls_now"] = calls
            desc["body_calls_reviewed"] = sorted(e["body_calls"])
            changed.append(desc)
        if e.get("verdict") == "order-sensitive" and (cons or desc["msg_path"]):
            sensitive.append(desc)
    gone = [list(k) for k in sorted(reviewed) if k not in seen]
    return {"files_scanned": scan.get("files_scanned"), "range_stmts": scan.get("range_stmts"),
            "map_sites": len(scan["sites"]), "unresolved": scan.get("unresolved"), "reviewed_entries": len(reviewed),
            "unreviewed": unreviewed, "changed_body": changed, "order_sensitive_on_path": sensitive,
            "reviewed_but_gone": gone, "reviewed_at_commit": allow.get("reviewed_at_commit")}


def _state_file(ctx):
    tag = hashlib.sha256(os.path.realpath(ctx["repo"]).encode()).hexdigest()[:8]
    base = ctx.get("build") or os.path.join(os.path.dirname(os.path.dirname(os.path.dirname(os.path.abspath(__file__)))), "build")
    return os.path.join(base, "translate", "maprange_result_%s.json" % tag)


def pre(ctx):
    """Source scan: every `for ... range <map>` of the anchored files and the custom modules'
    keeper/types/module code is listed by translate/maprange (go/ast) and compared with the
    reviewed allow-list checks/c18_map_ranges.json.  One obligation per reviewed site.  Sites that
    are new, whose loop body calls something it did not call when reviewed, or that are marked
    order-sensitive become a broken obligation in post() when they lie on a genesis / begin-block /
    end-block path; all of it is recorded in the evidence either way."""
    res = _scan(ctx)
    os.makedirs(os.path.dirname(_state_file(ctx)), exist_ok=True)
    json.dump(res, open(_state_file(ctx), "w"), indent=1)
    pref = _prefixes(ctx)
    return {"obligations": res["reviewed_entries"] + 1, "map_ranges": res, "store_prefixes": pref}


def _prefixes(ctx):
    """Second translator: translate/genprefix lists the store prefixes every custom module declares
    and whether its ExportGenesis / InitGenesis reach them (call graph by name, go/ast only) and
    renders coq/Gen/GenStorePrefixes.v; the obligation C18_store_prefixes_reviewed
    (Properties/C18.v: generated table = reviewed table Genesis/StorePrefixDoc.v) then decides."""
    verif = ctx.get("verif") or os.path.dirname(os.path.dirname(os.path.dirname(os.path.abspath(__file__))))
    tdir = os.path.join(verif, "translate", "genprefix")
    bdir = os.path.join(ctx.get("build") or os.path.join(verif, "build"), "translate")
    os.makedirs(bdir, exist_ok=True)
    binp = os.path.join(bdir, "genprefix")
    env = dict(ctx["env"], GOFLAGS="-mod=mod", GOPROXY="off", GOTOOLCHAIN="local", GOWORK="off")
    p = subprocess.run(["go", "build", "-o", binp, "."], cwd=tdir, env=env,
                       stdout=subprocess.PIPE, stderr=subprocess.STDOUT, text=True, timeout=600)
    if p.returncode != 0:
        raise RuntimeError("genprefix does not build: " + p.stdout[-1500:])
    p = subprocess.run([binp, ctx["repo"]], stdout=subprocess.PIPE, stderr=subprocess.PIPE, text=True, timeout=600)
    if p.returncode != 0:
        raise RuntimeError("genprefix failed on %s: %s" % (ctx["repo"], p.stderr[-1500:]))
    tag = hashlib.sha256(os.path.realpath(ctx["coq"]).encode()).hexdigest()[:8]
    jpath = os.path.join(bdir, "genprefix_%s.json" % tag)
    open(jpath, "w").write(p.stdout)
    p = subprocess.run(["python3", os.path.join(tdir, "gen_coq.py"), jpath, ctx["coq"]],
                       stdout=subprocess.PIPE, stderr=subprocess.PIPE, text=True, timeout=120)
    if p.returncode != 0:
        raise RuntimeError("genprefix/gen_coq.py failed: " + p.stderr[-1500:])
    return json.loads(p.stdout)


def post(ctx):
    p = _state_file(ctx)
    if not os.path.exists(p):
        return [{"kind": "map-range-scan", "detail": "no scan result (translator did not run)"}]
    res = json.load(open(p))
    problems = []
    for d in res["unreviewed"] + res["changed_body"]:
        if d["consensus_path"]:
            problems.append({"kind": "unreviewed-map-range",
                             "detail": "%s: %s%s ranges over map %s (lines %s) on a genesis/begin/end-block path (%s) and is not in the reviewed allow-list%s"
                                       % (d["file"], (d["recv"] + "." if d["recv"] else ""), d["func"], d["expr"], d["lines"],
                                          ",".join(d["roots"][:4]),
                                          "; loop body now calls %s" % d["body_calls_now"] if "body_calls_now" in d else "")})
    for d in res["order_sensitive_on_path"]:
        problems.append({"kind": "order-sensitive-map-range", "detail": "%s: %s ranges over %s and was reviewed as order-sensitive; it is now reachable from %s"
                                                                       % (d["file"], d["func"], d["expr"], ",".join(d["roots"][:4]) or "a message path")})
    return problems


def fingerprint(case, tags):
    """Known finding: a scope's net asset values come back from InitGenesis with updated_block_height
    reset to the import height (metadata InitGenesis calls SetNetAssetValue, which overwrites it).
    Matched only when NOTHING else differs: the metadata genesis differs in net_asset_values alone and
    is equal once the heights are blanked; the only differing queries are ScopeNetAssetValues answers
    that are equal once the heights are blanked."""
    FP = "C18: metadata scope NAV updated_block_height reset by InitGenesis"
    ts = [t for t in tags if t.startswith("prop:")]
    if not ts or len(ts) != len(tags):
        return None
    if case.get("kind") == "module_json" and case.get("module") == "metadata":
        d = case.get("diff") or {}
        ok1 = case.get("equal_after_import") or (d.get("fields") == ["net_asset_values"] and d.get("equal_ignoring_nav_height") is True)
        ok2 = case.get("equal_after_second_import") or (d.get("fields_second") == ["net_asset_values"] and d.get("equal_ignoring_nav_height_second") is True)
        if ok1 and ok2:
            return FP
    if case.get("kind") == "queries" and case.get("module") == "metadata" and case.get("only_scope_nav_heights_differ") is True \
            and all(":metadata.scope_navs." in t for t in ts):
        return FP
    # second known finding: SetAttribute counts an identical re-add twice in the name->address
    # lookup; after the attribute is deleted the exporting chain still lists the account under the
    # name, the imported chain (whose counters are rebuilt from the records) does not.
    if case.get("kind") == "queries" and case.get("module") == "attribute" and case.get("only_stale_lookup_entries_differ") is True \
            and all(t.endswith(":attribute.accounts.kyc") for t in ts):
        return "C18: stale attribute name->address lookup entry is not reproduced by import"
    # the same finding seen through gas: after the import both chains run the same blocks; a single
    # attribute add / update / delete costs different gas where the (name, account) counter it reads or
    # decrements was double-counted / left stale on the exporting chain and rebuilt by the import
    # (Set of value-1 against Delete; reading an 8-byte value against reading nothing).  Matched only
    # when every differing transaction is such a message with the same code, log and data, the
    # exporting chain's counter was observed ABOVE the number of records held and the imported chain's
    # counter EQUAL to it before the block, and the events of all blocks agree.
    if case.get("kind") == "digests" and case.get("mode") == "postimport" \
            and case.get("only_attribute_lookup_counter_gas_differs") is True and case.get("events_equal") is True \
            and ts == ["prop:blocks_after_import_differ"]:
        return "C18: stale attribute name->address lookup entry is not reproduced by import"
    # third finding: a quarantine record with accepted AND unaccepted senders (genesis with a
    # two-sender record + one MsgAccept) is exported without its accepted senders.  Matched only on
    # the scripted scenario, when the scenario was driven, the two quarantine genesis exports are
    # identical, and exactly the three observations of that scenario fail.
    if case.get("kind") == "scenario" and case.get("scenario") == "quarantine_multi_sender" \
            and case.get("driven") is True and case.get("partially_accepted_record_reached") is True \
            and case.get("genesis_json_equal") is True \
            and sorted(ts) == sorted(["prop:quarantine_multi_sender:store_equal_after_import",
                                      "prop:quarantine_multi_sender:filtered_query_equal_after_import",
                                      "prop:quarantine_multi_sender:same_messages_same_funds_after_import"]):
        return "C18: quarantine export drops accepted_from_addresses"
    # fourth finding: governance tightens the name params (minimum / maximum segment length, levels)
    # under existing names; InitGenesis re-validates every exported name under the exported params
    # and panics, so the reachable state's own export is rejected.  Matched only on the scripted
    # scenario, when it was driven and the import failed with the name-length error.
    if case.get("kind") == "scenario" and case.get("scenario") == "params_tightened" \
            and case.get("family") in ("name-min-segment-length", "name-max-segment-length") \
            and case.get("driven") is True and case.get("import_error_is_name_segment_length") is True \
            and sorted(ts) == ["prop:params_tightened:%s:export_accepted_by_fresh_chain" % case.get("family")]:
        return "C18: export rejected after governance tightened name params under existing names"
    return None
