"""Per-property configuration of bin/check."""

TRUSTED_BASE = [
    "Coq 8.16.1 kernel (coqc; vm_compute is used, native_compute is not); thorough tier re-checks the .vo closure with coqchk",
    "no axioms declared by this development; Print Assumptions output of every property theorem is parsed into print_assumptions",
    "Go harness (harness/*.go) drives the real keepers/msg servers of /repo's working tree and projects observables into Coq terms; trusted to project faithfully",
    "model files under coq/ are hand-written transcriptions of the anchored Go functions; they are tied to the code only by the correspondence run of this check (cases evaluated with vm_compute), whose reach is bounded by the generators",
    "modelled, not verified: forked cosmos-sdk (bank, auth, authz, gov, baseapp tx atomicity), sdkmath big integers/LegacyDec, store iteration order, protobuf, SHA-256",
]

NA_REASONS = {}

import glob, os, importlib.util

PROPS = {}
_here = os.path.dirname(os.path.abspath(__file__))
for _p in sorted(glob.glob(os.path.join(_here, "props", "C*.py"))):
    _name = os.path.basename(_p)[:-3]
    _spec = importlib.util.spec_from_file_location("prop_" + _name, _p)
    _m = importlib.util.module_from_spec(_spec)
    _spec.loader.exec_module(_m)
    PROPS[_name] = _m.PROP
    for _k in dir(_m):
        if _k in ("fingerprint", "post", "pre"):
            globals()[_k + "_" + _name] = getattr(_m, _k)
