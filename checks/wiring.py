"""Shared pre()/post() hooks: the "bypass call sites" and "application wiring" obligations.

C03 (holds), C04 (marker restrictions), C06 (sanctions) and C07 (quarantine) rely on facts that live
outside their anchored code: WHERE the context flags that skip a protection are set
(hold.WithBypass, markertypes.WithBypass / WithTransferAgents, quarantine.WithBypass,
sanction.WithBypass, banktypes.WithVestingLockedBypass, internalsdk.WithFeeGrantInUse) and HOW
app/app.go wires the protections (registration order of send restrictions / locked-coins getters,
markerReqAttrBypassAddrs, unsanctionableAddrs, gov hooks, maccPerms, begin/end blockers).

  pre(ctx)   builds and runs translate/wiring on ctx["repo"] (every non-test, non-*.pb.go file) and
             renders coq/Gen/GenBypassSites.v + coq/Gen/GenWiring.v (rewritten only when changed).
  post(ctx)  compiles Base/WiringTypes.v, the two Gen files, Base/WiringDoc.v (the REVIEWED tables),
             Base/WiringDiff.v (prints generated-vs-reviewed differences) and Properties/Wiring.v
             (the theorems) in ctx["coq"]; returns a list of problems when the development does not
             compile for a reason that is not a table difference, or when a difference concerns the
             calling property (RELEVANT below).  A difference that concerns another property only is
             recorded in the evidence (coverage.wiring) and not reported.

Use from checks/props/Cnn.py (registry.py collects the module-level names `pre` and `post`):

    from wiring import hooks
    pre, post = hooks("Cnn")

and, when the props file already has hooks of its own:

    pre, post = hooks("Cnn", pre=_own_pre, post=_own_post)

(`from wiring import pre, post` also works: the property id is then taken from ctx["outdir"].)
"""
import fcntl
import hashlib
import json
import os
import re
import subprocess

VERIF = os.path.dirname(os.path.dirname(os.path.abspath(__file__)))
BUILD = os.path.join(VERIF, "build")

# compiled in this order; the first four only when stale, the last two on every run
CHAIN = ["Base/WiringTypes.v", "Gen/GenBypassSites.v", "Gen/GenWiring.v", "Base/WiringDoc.v",
         "Base/WiringDiff.v", "Properties/Wiring.v"]

TABLE_THEOREM = {
    "sites": "generated_bypass_sites_reviewed",
    "readers": "generated_flag_readers_reviewed",
    "key_uses": "generated_flag_key_uses_reviewed",
    "regs": "generated_hook_registrations_reviewed",
    "wiring": "generated_wiring_reviewed",
}

# Which differences concern which property.  flags: prefixes of the canonical flag function (sites and
# readers); key_pkgs / key_words: packages and words of context keys; regs: substrings of the hook
# registration method; facts: prefixes of fact names of Gen/GenWiring.v; theorems: the derived theorems
# of Properties/Wiring.v the property uses.  Anything that matches NO property (an unresolved
# "?..." flag, an unparsable file, a new fact name) is reported by every property.
RELEVANT = {
    "C03": {"flags": ["hold.", "banktypes."], "key_pkgs": ["x/hold"], "key_words": ["hold", "locked-coins", "vesting"],
            "regs": ["LockedCoinsGetter"],
            "facts": ["locked_coins_getters.", "ctor.x/hold/keeper.", "ctor.bank.", "hook_registrations."],
            "theorems": ["wiring_hold_bypass_only_in_invariant_helper", "wiring_hold_getter_registered"]},
    "C04": {"flags": ["markertypes.", "internalsdk."], "key_pkgs": ["x/marker/types", "internal/sdk"],
            "key_words": ["marker", "transfer-agent", "feegrant"], "regs": ["SendRestriction"],
            "facts": ["send_restrictions.", "ctor.x/marker/keeper.", "ctor.bank.", "hook_registrations.",
                      "marker_req_attr_bypass_addrs.", "macc_perms.", "begin_blockers"],
            "theorems": ["wiring_send_restriction_order", "wiring_marker_bypass_packages"]},
    "C06": {"flags": ["sanction."], "key_pkgs": ["x/sanction"], "key_words": ["sanction"], "regs": ["SendRestriction"],
            "facts": ["send_restrictions.", "ctor.x/sanction/keeper.", "ctor.x/quarantine/keeper.", "ctor.bank.",
                      "hook_registrations.", "unsanctionable_addrs.", "macc_perms.", "gov_hooks", "hooks.set",
                      "end_blockers", "begin_blockers"],
            "theorems": ["wiring_send_restriction_order", "wiring_no_sanction_bypass",
                         "wiring_unsanctionable_covers_module_accounts_and_quarantine_holder",
                         "wiring_sanction_gov_hooks_registered"]},
    "C07": {"flags": ["quarantine."], "key_pkgs": ["x/quarantine"], "key_words": ["quarantine"], "regs": ["SendRestriction"],
            "facts": ["send_restrictions.", "ctor.x/quarantine/keeper.", "ctor.bank.", "hook_registrations.",
                      "marker_req_attr_bypass_addrs.", "unsanctionable_addrs."],
            "theorems": ["wiring_send_restriction_order", "wiring_quarantine_bypass_packages"]},
    # C09 and C01/C02 rely on the marker restriction (with the signers / market admin as transfer agents)
    # being applied to every token or settlement move: a new marker bypass or transfer-agent site matters.
    "C09": {"flags": ["markertypes."], "key_pkgs": ["x/marker/types"], "key_words": ["marker", "transfer-agent"],
            "regs": ["SendRestriction"], "facts": ["send_restrictions.", "hook_registrations."],
            "theorems": ["wiring_send_restriction_order", "wiring_marker_bypass_packages"]},
}


def _any_prop(pred):
    return any(pred(r) for r in RELEVANT.values())


def relevant(prop, line):
    """Does the difference line `table|change|flag-or-fact|pkg|func|shape` concern the property?"""
    r = RELEVANT.get(prop)
    if r is None:
        return True
    table, _change, a, pkg, _func, _shape = (line.split("|") + [""] * 6)[:6]
    if table in ("sites", "readers"):
        mine = lambda x: any(a.startswith(p) for p in x["flags"])
    elif table == "key_uses":
        mine = lambda x: pkg in x["key_pkgs"] or any(w in a for w in x["key_words"])
    elif table == "regs":
        mine = lambda x: any(k in a for k in x["regs"])
    elif table == "wiring":
        mine = lambda x: any(a.startswith(p) for p in x["facts"])
    else:
        return True
    return mine(r) or not _any_prop(mine)


class _Lock:
    def __init__(self, name):
        os.makedirs(BUILD, exist_ok=True)
        self.path = os.path.join(BUILD, name)

    def __enter__(self):
        self.f = open(self.path, "w")
        fcntl.flock(self.f, fcntl.LOCK_EX)

    def __exit__(self, *a):
        fcntl.flock(self.f, fcntl.LOCK_UN)
        self.f.close()


def _tag(coq):
    return hashlib.sha256(os.path.realpath(coq).encode()).hexdigest()[:8]


def _theorems(coq):
    p = os.path.join(coq, "Properties", "Wiring.v")
    if not os.path.exists(p):
        return []
    return re.findall(r"^(?:Theorem|Example)\s+([\w']+)", open(p).read(), re.M)


_PRE_CACHE = {}


def pre(ctx):
    """Translator: build translate/wiring, run it on ctx['repo'], render coq/Gen/GenBypassSites.v and
    coq/Gen/GenWiring.v.  Shapes the extractor does not recognise become rows / values starting with
    "Unrecognised" (the theorems of Properties/Wiring.v then fail) and are listed under
    tables.unrecognised in the evidence."""
    key = (os.path.realpath(ctx["repo"]), os.path.realpath(ctx["coq"]))
    if key in _PRE_CACHE:
        return dict(_PRE_CACHE[key])
    verif = ctx.get("verif", VERIF)
    tdir = os.path.join(verif, "translate", "wiring")
    bdir = os.path.join(ctx.get("build", BUILD), "translate")
    os.makedirs(bdir, exist_ok=True)
    binp = os.path.join(bdir, "wiring")
    env = dict(ctx.get("env", os.environ), GOFLAGS="-mod=mod", GOPROXY="off", GOTOOLCHAIN="local", GOWORK="off")
    with _Lock("wiring_build.lock"):
        p = subprocess.run(["go", "build", "-o", binp, "."], cwd=tdir, env=env,
                           stdout=subprocess.PIPE, stderr=subprocess.STDOUT, text=True, timeout=600)
    if p.returncode != 0:
        return {"error": "translate/wiring does not build: " + p.stdout[-1500:]}
    p = subprocess.run([binp, ctx["repo"]], stdout=subprocess.PIPE, stderr=subprocess.PIPE, text=True, timeout=600)
    if p.returncode != 0:
        return {"error": "translate/wiring failed on %s: %s" % (ctx["repo"], p.stderr[-1500:])}
    jpath = os.path.join(bdir, "wiring_%s.json" % _tag(ctx["coq"]))
    with _Lock("wiring_coq_%s.lock" % _tag(ctx["coq"])):
        tmp = jpath + ".tmp%d" % os.getpid()
        open(tmp, "w").write(p.stdout)
        os.replace(tmp, jpath)
        p = subprocess.run(["python3", os.path.join(tdir, "gen_coq.py"), jpath, ctx["coq"]],
                           stdout=subprocess.PIPE, stderr=subprocess.PIPE, text=True, timeout=120)
    if p.returncode != 0:
        return {"error": "translate/wiring/gen_coq.py failed: " + p.stderr[-1500:]}
    info = json.loads(p.stdout)
    tables = dict(info["tables"])
    tables["unrecognised"] = info["unrecognised"]
    res = {"obligations": len(_theorems(ctx["coq"])), "tables": tables, "rewritten": info["rewritten"],
           "extract_json": os.path.relpath(jpath, verif)}
    _PRE_CACHE[key] = res
    return dict(res)


def _coqc(coq, rel):
    p = subprocess.run(["timeout", "600", "coqc", "-Q", ".", "PV", rel], cwd=coq,
                       stdout=subprocess.PIPE, stderr=subprocess.STDOUT, text=True)
    return p.returncode, p.stdout


FORBIDDEN = [r"\bAdmitted\b", r"\badmit\b", r"\bAxioms?\b", r"\bParameters?\b", r"\bConjecture\b", r"Unset\s+Guard",
             r"bypass_check", r"type-in-type", r"Admit\s+Obligations", r"Unset\s+Positivity", r"Unset\s+Universe\s+Checking",
             r"native_compute", r"^\s*(Variables?|Hypothes[ie]s|Context)\b"]


def _strip_comments(s):
    out, depth, i = [], 0, 0
    while i < len(s):
        if s.startswith("(*", i):
            depth += 1
            i += 2
        elif s.startswith("*)", i) and depth > 0:
            depth -= 1
            i += 2
        else:
            if depth == 0:
                out.append(s[i])
            i += 1
    return "".join(out)


def _scan_forbidden(coq):
    bad = []
    for rel in CHAIN:
        p = os.path.join(coq, rel)
        if not os.path.exists(p):
            continue
        txt = re.sub(r'"(?:[^"]|"")*"', '""', _strip_comments(open(p).read()))
        for pat in FORBIDDEN:
            for m in re.finditer(pat, txt, re.M):
                bad.append("%s: %s" % (rel, m.group(0).strip()))
    return bad


_LAST_OUTPUT = {}


def _compile_chain(coq):
    """Returns (ok, diff_lines or None, failing_file, output, first_failing_theorem)."""
    newest = 0.0
    diff = None
    for rel in CHAIN:
        v = os.path.join(coq, rel)
        vo = v + "o"
        if not os.path.exists(v):
            return False, diff, rel, "%s does not exist" % rel, None
        always = rel in ("Base/WiringDiff.v", "Properties/Wiring.v")
        stale = (not os.path.exists(vo)) or os.path.getmtime(vo) < os.path.getmtime(v) or os.path.getmtime(vo) < newest
        if always or stale:
            rc, out = _coqc(coq, rel)
            _LAST_OUTPUT[rel] = out
            if rel == "Base/WiringDiff.v" and rc == 0:
                flat = re.sub(r"\s+", " ", out)
                m = re.search(r"WIRING_DIFF = (.*?) : list string", flat)
                if m:
                    diff = [s.replace('""', '"') for s in re.findall(r'"((?:[^"]|"")*)"', m.group(1))]
            if rc != 0:
                thm = None
                m = re.search(r'line (\d+)', out)
                if m and rel == "Properties/Wiring.v":
                    upto = open(v).read().split("\n")[:int(m.group(1))]
                    names = re.findall(r"^(?:Theorem|Example|Lemma)\s+([\w']+)", "\n".join(upto), re.M)
                    thm = names[-1] if names else None
                return False, diff, rel, out[-2500:], thm
        if os.path.exists(vo):
            newest = max(newest, os.path.getmtime(vo))
    return True, diff, None, "", None


def _locations(coq, verif):
    """(table, flag, pkg, func) -> ["file:line  text", ...] from the last extraction (for the report)."""
    loc = {}
    p = os.path.join(BUILD, "translate", "wiring_%s.json" % _tag(coq))
    try:
        d = json.load(open(p))
    except Exception:
        return loc
    for table in ("sites", "readers", "key_uses", "regs"):
        for r in d.get(table, []):
            loc.setdefault((table, r["flag"], r["pkg"], r["func"]), []).append("%s:%s  %s" % (r["file"], r["line"], r["text"][:160]))
    for f in d.get("wiring", []):
        loc.setdefault(("wiring", f["name"], "", ""), []).append("%s  %s" % (f["where"], json.dumps(f["values"])[:400]))
    return loc


def post(ctx, prop=None):
    """Compiles the wiring obligations against the Gen files regenerated by pre(); returns problems
    (each names the theorem of Properties/Wiring.v that stopped checking)."""
    prop = prop or os.path.basename(os.path.normpath(ctx.get("outdir", "")))
    coq = ctx["coq"]
    cov = ctx.get("cov")
    thms = _theorems(coq)
    with _Lock("wiring_coq_%s.lock" % _tag(coq)):
        ok, diff, failing, out, thm = _compile_chain(coq)
        loc = _locations(coq, VERIF)
        wout = _LAST_OUTPUT.get("Properties/Wiring.v", "") if ok else ""
        bad = _scan_forbidden(coq)
    ev = {"obligations": thms, "checker_cmd": "cd %s && for f in %s; do coqc -Q . PV $f; done" % (coq, " ".join(CHAIN)),
          "status": "ok" if ok else "broken", "differences": diff if diff is not None else "not computed"}
    problems = []
    if bad:
        problems.append({"kind": "wiring-obligation:forbidden-vernacular", "detail": bad})
    if ok:
        closed = wout.count("Closed under the global context")
        ev["print_assumptions"] = {"closed_under_global_context": closed}
        if "Axioms:" in wout or closed < len([t for t in thms if t != "wiring_tables_nonempty"]):
            problems.append({"kind": "wiring-obligation:unexpected-axiom",
                             "detail": "Print Assumptions of Properties/Wiring.v: %d closed of %d theorems; %s"
                                       % (closed, len(thms) - 1, wout[-800:])})
    if not ok:
        mine = [l for l in (diff or []) if relevant(prop, l)]
        ev["differences_relevant_to_%s" % prop] = mine
        if diff and failing == "Properties/Wiring.v" and not mine:
            ev["status"] = "differences concern other properties only (not reported by %s)" % prop
        if diff is None or (not diff) or failing != "Properties/Wiring.v":
            # not explained by a table difference: the development itself is broken -> everyone reports
            problems.append({"kind": "wiring-obligation:%s" % failing,
                             "obligation": "%s does not compile" % failing, "first_failing_theorem": thm,
                             "detail": out})
        elif mine:
            detail = []
            for l in mine:
                table, change, a, pkg, func, shape = (l.split("|") + [""] * 6)[:6]
                where = loc.get((table, a, pkg, func), []) if change != "removed" else []
                detail.append({"table": table, "change": change, "flag_or_fact": a, "package": pkg, "function": func,
                               "shape": shape, "theorem": TABLE_THEOREM.get(table, "?"), "where": where})
            broken = sorted({d["theorem"] for d in detail})
            problems.append({"kind": "wiring-obligation:Properties/Wiring.v:" + ",".join(broken),
                             "obligation": "Properties/Wiring.v: " + "; ".join("%s (generated table = reviewed table of Base/WiringDoc.v)" % b for b in broken),
                             "first_failing_theorem": thm,
                             "derived_theorems_relying_on_these_tables": RELEVANT.get(prop, {}).get("theorems", []),
                             "changes": detail,
                             "detail": "the Go source no longer has the reviewed set of bypass call sites / wiring that %s relies on: "
                                       % prop + "; ".join("%s %s %s in %s.%s %s" % (d["table"], d["change"], d["flag_or_fact"], d["package"], d["function"],
                                                                             (d["where"] or [""])[0]) for d in detail),
                             "how_to_accept": "inspect each site, then edit coq/Base/WiringDoc.v (one justification per row); never edit coq/Gen/*.v"})
    if isinstance(cov, dict):
        cov["wiring"] = ev
        if problems and isinstance(cov.get("discharged"), int) and cov["discharged"] >= len(thms):
            cov["discharged"] -= len(thms)
    return problems


def hooks(prop, pre=None, post=None):
    """(pre, post) for checks/props/<prop>.py; runs the property's own hooks (if given) first."""
    own_pre, own_post = pre, post
    wiring_pre, wiring_post = globals()["pre"], globals()["post"]

    def _pre(ctx):
        a = (own_pre(ctx) or {}) if own_pre else {}
        b = wiring_pre(ctx) or {}
        res = dict(a)
        res["obligations"] = int(a.get("obligations", 0)) + int(b.get("obligations", 0))
        tables = dict(a.get("tables", {}))
        tables["wiring"] = b.get("tables", {})
        res["tables"] = tables
        res["rewritten"] = list(a.get("rewritten", [])) + list(b.get("rewritten", []))
        if b.get("extract_json"):
            res["wiring_extract_json"] = b["extract_json"]
        errs = [e for e in (a.get("error"), b.get("error")) if e]
        if errs:
            res["error"] = " | ".join(errs)
        return res

    def _post(ctx):
        probs = list((own_post(ctx) or [])) if own_post else []
        probs.extend(wiring_post(ctx, prop) or [])
        return probs

    return _pre, _post
