//go:build c13

package harness

import (
	"bytes"
	"fmt"
	"math"
	"math/rand"
	"sort"
	"strings"
	"testing"

	sdkmath "cosmossdk.io/math"
	sdk "github.com/cosmos/cosmos-sdk/types"
	"github.com/cosmos/cosmos-sdk/types/query"
	banktypes "github.com/cosmos/cosmos-sdk/x/bank/types"

	"github.com/provenance-io/provenance/x/exchange"
	"github.com/provenance-io/provenance/x/exchange/keeper"
)

// C13: exchange records, lookups and listings.  Histories run through the real message
// handlers; after every step every listing endpoint of the real gRPC query server is asked and
// projected into a Coq term; paging sessions follow next_key / offsets on the real server.

const c13Max = uint64(math.MaxUint64)

// ---- Coq term helpers (all N literals live in a term wrapped in ( ... )%N) ----

func c13Bytes(b []byte) string {
	parts := make([]string, len(b))
	for i, x := range b {
		parts[i] = fmt.Sprint(int(x))
	}
	return "[" + strings.Join(parts, ";") + "]"
}
func c13Str(s string) string { return c13Bytes([]byte(s)) }
func c13U(x uint64) string   { return fmt.Sprint(x) }
func c13Z(x int64) string    { return fmt.Sprintf("%d%%Z", x) }
func c13Ids(ids []uint64) string {
	parts := make([]string, len(ids))
	for i, x := range ids {
		parts[i] = c13U(x)
	}
	return "[" + strings.Join(parts, ";") + "]"
}

type c13Env struct {
	t       *testing.T
	r       *rand.Rand
	qs      exchange.QueryServer
	admin   sdk.AccAddress
	owners  []sdk.AccAddress
	names   map[string]string // bech32 -> Coq variable
	markets []uint32
	handle  func(ctx sdk.Context, msg sdk.Msg) error
	auth    string
	w       *CaseWriter
	shapes  map[string]bool
	// per history
	nameCtr int      // name tag of the next market creation
	forced  []string // operation kinds that must be generated next, in order
	freed   []c13Freed // (market, external id) pairs that some open order carried earlier and none carries now
	xrMkt   uint32     // market of the scripted external-id re-use sequence
	x100Mkt uint32     // market of the scripted 100-byte external id
	assets  []string   // asset / commitment denoms in use in this history (3 base + some special ones)
	dnames  map[string]string // denom -> Coq variable
	hold    func(ctx sdk.Context, addr sdk.AccAddress, amt sdk.Coins) error
	initGen func(ctx sdk.Context, gs *exchange.GenesisState) error
	lookupExt func(ctx sdk.Context, market uint32, ext string) (*exchange.Order, error)
}

// ---- denoms ----
// sdk.ValidateDenom with this chain's regex (app.SdkCoinDenomRegex): [a-zA-Z][a-zA-Z0-9/\-\.]{2,127}
// (':' and '_' are legal in the SDK default but not here: they are used as malformed inputs).  The
// store keys and the listing requests are case sensitive; the by-asset index key has no separator
// after the denom.
var c13BaseAssets = []string{"aaa", "aaab", "bbb"}

const c13IbcUp = "ibc/27394FB092D2ECCD56123C74F36E4C1F926001CEADA9CA97EA622B25F41E5EB2"

var c13Long128 = "L" + strings.Repeat("x9/A-b.C0d-", 11) + "ZZzz01" // 1 + 121 + 6 = 128 characters

// c13SpecialAssets: upper-case letters, digits and every legal punctuation character, denoms that
// differ only by case, denoms that are prefixes of one another, the longest legal denom.
var c13SpecialAssets = []string{
	"Aaa", "aaA", "AAA", // differ from "aaa" only by case
	c13IbcUp, strings.ToLower(c13IbcUp), // an IBC voucher denom and its lower-case twin (a different legal denom)
	c13IbcUp[:12], c13IbcUp[:13], // prefixes of one another (and of the voucher denom)
	"fac/T.k-n1", "Fac/T.k-n1",
	c13Long128, c13Long128[:127], // the longest legal denom and its 127-character prefix
}

var c13PriceDenoms = []string{"pricecoin", "pricecoin", "pricecoin", "Pricecoin", "ibc/PRICE0F", "p1.x-y/Q", "P" + strings.Repeat("r1-", 42) + "c"}

func c13AllDenoms() []string {
	out := append([]string{}, c13BaseAssets...)
	out = append(out, c13SpecialAssets...)
	seen := map[string]bool{}
	for _, d := range out {
		seen[d] = true
	}
	for _, d := range c13PriceDenoms {
		if !seen[d] {
			seen[d] = true
			out = append(out, d)
		}
	}
	return out
}

// pickAssets chooses the denoms of one history: the three base denoms plus three special ones,
// one of them together with a case / prefix sibling.
func (e *c13Env) pickAssets() {
	r := e.r
	e.assets = append([]string{}, c13BaseAssets...)
	sib := [][]string{{"Aaa", "aaA"}, {"AAA", "Aaa"}, {c13IbcUp, strings.ToLower(c13IbcUp)}, {c13IbcUp[:12], c13IbcUp[:13]},
		{c13IbcUp[:13], c13IbcUp}, {"fac/T.k-n1", "Fac/T.k-n1"}, {c13Long128, c13Long128[:127]}}
	pair := sib[r.Intn(len(sib))]
	e.assets = append(e.assets, pair...)
	for {
		d := c13SpecialAssets[r.Intn(len(c13SpecialAssets))]
		if d != pair[0] && d != pair[1] {
			e.assets = append(e.assets, d)
			break
		}
	}
}

// pickAsset: half of the orders use a base denom (so that settlements and long listings stay frequent).
func (e *c13Env) pickAsset() string {
	if e.r.Intn(2) == 0 {
		return c13BaseAssets[e.r.Intn(len(c13BaseAssets))]
	}
	return e.assets[e.r.Intn(len(e.assets))]
}

// probeDenoms: the denoms whose by-asset listing is asked after every step: the denoms in use,
// their other-case spellings (different denoms: must list nothing of the original), proper
// prefixes and extensions.
func (e *c13Env) probeDenoms() []string {
	out := append([]string{}, e.assets...)
	seen := map[string]bool{}
	for _, d := range out {
		seen[d] = true
	}
	add := func(d string) {
		if !seen[d] && sdk.ValidateDenom(d) == nil {
			seen[d] = true
			out = append(out, d)
		}
	}
	for _, d := range e.assets[3:] {
		add(strings.ToLower(d))
		add(strings.ToUpper(d[:1]) + d[1:])
		add(d[:len(d)-1])
	}
	add("aaabb")
	add("AAA")
	add("aaA")
	return out
}

func (e *c13Env) denomTerm(d string) string {
	if v, ok := e.dnames[d]; ok {
		return v
	}
	return c13Str(d)
}

// ---- address spellings ----
// bech32 strings decode in all-lower-case and in ALL-UPPER-CASE; both name the same account.
func c13Upper(bech string) string { return strings.ToUpper(bech) }
func c13IsUpper(bech string) bool {
	return bech != "" && bech == strings.ToUpper(bech) && bech != strings.ToLower(bech)
}
func c13Canon(bech string) string { return strings.ToLower(bech) }

// respell returns the address in a random spelling (upper case one time in three).
func (e *c13Env) respell(bech string) string {
	if bech != "" && e.r.Intn(3) == 0 {
		e.w.Count("requests_with_upper_case_address")
		return c13Upper(c13Canon(bech))
	}
	return c13Canon(bech)
}

type c13Freed struct {
	market uint32
	ext    string
}

// noteFreed records the external ids that were carried before a step and are carried no more.
func (e *c13Env) noteFreed(before, after []c13Order) {
	for _, b := range before {
		if b.ext == "" {
			continue
		}
		still := false
		for _, a := range after {
			if a.market == b.market && a.ext == b.ext {
				still = true
			}
		}
		if !still {
			e.freed = append(e.freed, c13Freed{b.market, b.ext})
			if len(e.freed) > 6 {
				e.freed = e.freed[1:]
			}
		}
	}
}

// c13Coins prints sdk.Coins (in the order given) as a Coq [coins] term.
func (e *c13Env) coinsTerm(cs sdk.Coins) string {
	parts := make([]string, len(cs))
	for i, c := range cs {
		parts[i] = fmt.Sprintf("(%s, %s)", e.denomTerm(c.Denom), c13Z(c.Amount.Int64()))
	}
	return "[" + strings.Join(parts, ";") + "]"
}

type c13Commit struct {
	market uint32
	acct   string
	amount sdk.Coins
}

func (e *c13Env) entriesTerm(es []exchange.AccountAmount) string {
	parts := make([]string, len(es))
	for i, x := range es {
		parts[i] = fmt.Sprintf("(%s, %s)", e.addrVar(x.Account), e.coinsTerm(x.Amount))
	}
	return "[" + strings.Join(parts, ";") + "]"
}

var c13ExtPool = []string{"x", "y", "x1", "zz", "xy"}

// Non-ASCII external ids.  MaxExternalIDLength (100) is a limit in BYTES (ValidateExternalID, and
// the guard of GetOrderByExternalID): ids of multi-byte UTF-8 characters at 99 / 100 / 101 bytes and
// characters, ids that are byte prefixes of one another ("é" = C3 A9; "\xc3" alone is not valid
// UTF-8), invalid UTF-8.  c13MBLegal are at most 100 bytes, c13MBOver are longer in bytes (some of
// them have at most 100 CHARACTERS).
var c13MBLegal = []string{
	"é", "éa", "é字", "\xc3", "\xff\xfe\x80", "字",
	strings.Repeat("é", 49) + "a", // 99 bytes, 50 characters
	strings.Repeat("é", 50),       // 100 bytes, 50 characters
	strings.Repeat("字", 33),       // 99 bytes, 33 characters
	strings.Repeat("字", 33) + "a", // 100 bytes, 34 characters
	strings.Repeat("a", 98) + "é", // 100 bytes, 99 characters
}
var c13MBOver = []string{
	strings.Repeat("é", 50) + "a",  // 101 bytes, 51 characters
	strings.Repeat("é", 51),        // 102 bytes, 51 characters
	strings.Repeat("字", 34),        // 102 bytes, 34 characters
	strings.Repeat("a", 99) + "é",  // 101 bytes, 100 characters
	strings.Repeat("字", 100),       // 300 bytes, 100 characters
	strings.Repeat("字", 101),       // 303 bytes, 101 characters
	strings.Repeat("é", 60),        // 120 bytes, 60 characters
}

func (e *c13Env) addrVar(bech string) string {
	if bech == "" {
		return "[]"
	}
	if v, ok := e.names[c13Canon(bech)]; ok {
		return v
	}
	a, err := sdk.AccAddressFromBech32(bech)
	if err != nil {
		return "[]"
	}
	return c13Bytes(a)
}

type c13Order struct {
	id     uint64
	bid    bool
	market uint32
	owner  string
	asset  string
	amount int64
	ext    string
	price  string // price denom (Go side only: settlements need matching price denoms)
	ownerStr string // the owner string as stored (either spelling; CancelOrder compares the signer with it)
}

func c13Project(o *exchange.Order) c13Order {
	a := o.GetAssets()
	return c13Order{id: o.OrderId, bid: o.IsBidOrder(), market: o.GetMarketID(), owner: c13Canon(o.GetOwner()), asset: a.Denom,
		amount: a.Amount.Int64(), ext: o.GetExternalID(), price: o.GetPrice().Denom, ownerStr: o.GetOwner()}
}

func (e *c13Env) orderTerm(o c13Order) string {
	return fmt.Sprintf("(O %s %d %s %s %s %s)", coqBool(o.bid), o.market, e.addrVar(o.owner), e.denomTerm(o.asset), c13Z(o.amount), c13Str(o.ext))
}

// src / tgt are the canonical (lower-case) strings; srcUp / tgtUp say that the stored string is
// the upper-case spelling.
type c13Pay struct {
	src, ext, tgt string
	srcUp, tgtUp  bool
	amount        int64
}

func (p c13Pay) srcStr() string {
	if p.srcUp {
		return c13Upper(p.src)
	}
	return p.src
}
func (p c13Pay) tgtStr() string {
	if p.tgtUp {
		return c13Upper(p.tgt)
	}
	return p.tgt
}

func c13ProjectPay(p *exchange.Payment) c13Pay {
	return c13Pay{src: c13Canon(p.Source), srcUp: c13IsUpper(p.Source), ext: p.ExternalId, tgt: c13Canon(p.Target), tgtUp: c13IsUpper(p.Target),
		amount: p.SourceAmount.AmountOf("bbb").Int64()}
}
func (e *c13Env) payTerm(p c13Pay) string {
	return fmt.Sprintf("(P %s %s %s %s %s %s)", e.addrVar(p.src), coqBool(p.srcUp), c13Str(p.ext), e.addrVar(p.tgt), coqBool(p.tgtUp), c13Z(p.amount))
}
func (e *c13Env) paysTerm(ps []*exchange.Payment) string {
	parts := make([]string, len(ps))
	for i, p := range ps {
		parts[i] = e.payTerm(c13ProjectPay(p))
	}
	return "[" + strings.Join(parts, ";") + "]"
}

// ---- endpoints ----

type c13Endpoint struct {
	kind   string // market, owner, asset, all, paysrc, paytgt, payall
	market uint32
	addr   string
	denom  string
}

func (e *c13Env) epTerm(ep c13Endpoint) string {
	switch ep.kind {
	case "market":
		return fmt.Sprintf("(EMarket %d)", ep.market)
	case "owner":
		return "(EOwner " + e.addrVar(ep.addr) + ")"
	case "asset":
		return "(EAsset " + e.denomTerm(ep.denom) + ")"
	case "markets":
		return "EMarkets"
	case "all":
		return "EAll"
	case "paysrc":
		return "(EPaySrc " + e.addrVar(ep.addr) + ")"
	case "paytgt":
		return "(EPayTgt " + e.addrVar(ep.addr) + ")"
	case "commitmkt":
		return fmt.Sprintf("(ECommitMkt %d)", ep.market)
	case "commitall":
		return "ECommitAll"
	default:
		return "EPayAll"
	}
}

func (ep c13Endpoint) isOrders() bool {
	return ep.kind == "market" || ep.kind == "owner" || ep.kind == "asset" || ep.kind == "all"
}

type c13Page struct {
	ok     bool
	orders []*exchange.Order
	pays   []*exchange.Payment
	coms   []c13Commit
	mkts   []uint32
	next   []byte
	total  uint64
}

// callPage asks one page of one endpoint of the real query server.
func (e *c13Env) callPage(ctx sdk.Context, ep c13Endpoint, otype string, after uint64, pr *query.PageRequest) c13Page {
	var pg c13Page
	err := try(func() error {
		var pr2 *query.PageResponse
		switch ep.kind {
		case "market":
			r, err := e.qs.GetMarketOrders(ctx, &exchange.QueryGetMarketOrdersRequest{MarketId: ep.market, OrderType: otype, AfterOrderId: after, Pagination: pr})
			if err != nil {
				return err
			}
			pg.orders, pr2 = r.Orders, r.Pagination
		case "owner":
			r, err := e.qs.GetOwnerOrders(ctx, &exchange.QueryGetOwnerOrdersRequest{Owner: ep.addr, OrderType: otype, AfterOrderId: after, Pagination: pr})
			if err != nil {
				return err
			}
			pg.orders, pr2 = r.Orders, r.Pagination
		case "asset":
			r, err := e.qs.GetAssetOrders(ctx, &exchange.QueryGetAssetOrdersRequest{Asset: ep.denom, OrderType: otype, AfterOrderId: after, Pagination: pr})
			if err != nil {
				return err
			}
			pg.orders, pr2 = r.Orders, r.Pagination
		case "all":
			r, err := e.qs.GetAllOrders(ctx, &exchange.QueryGetAllOrdersRequest{Pagination: pr})
			if err != nil {
				return err
			}
			pg.orders, pr2 = r.Orders, r.Pagination
		case "paysrc":
			r, err := e.qs.GetPaymentsWithSource(ctx, &exchange.QueryGetPaymentsWithSourceRequest{Source: ep.addr, Pagination: pr})
			if err != nil {
				return err
			}
			pg.pays, pr2 = r.Payments, r.Pagination
		case "paytgt":
			r, err := e.qs.GetPaymentsWithTarget(ctx, &exchange.QueryGetPaymentsWithTargetRequest{Target: ep.addr, Pagination: pr})
			if err != nil {
				return err
			}
			pg.pays, pr2 = r.Payments, r.Pagination
		case "commitmkt":
			r, err := e.qs.GetMarketCommitments(ctx, &exchange.QueryGetMarketCommitmentsRequest{MarketId: ep.market, Pagination: pr})
			if err != nil {
				return err
			}
			for _, c := range r.Commitments {
				pg.coms = append(pg.coms, c13Commit{market: ep.market, acct: c.Account, amount: c.Amount})
			}
			pr2 = r.Pagination
		case "markets":
			r, err := e.qs.GetAllMarkets(ctx, &exchange.QueryGetAllMarketsRequest{Pagination: pr})
			if err != nil {
				return err
			}
			for _, b := range r.Markets {
				pg.mkts = append(pg.mkts, b.MarketId)
			}
			pr2 = r.Pagination
		case "commitall":
			r, err := e.qs.GetAllCommitments(ctx, &exchange.QueryGetAllCommitmentsRequest{Pagination: pr})
			if err != nil {
				return err
			}
			for _, c := range r.Commitments {
				pg.coms = append(pg.coms, c13Commit{market: c.MarketId, acct: c.Account, amount: c.Amount})
			}
			pr2 = r.Pagination
		default:
			r, err := e.qs.GetAllPayments(ctx, &exchange.QueryGetAllPaymentsRequest{Pagination: pr})
			if err != nil {
				return err
			}
			pg.pays, pr2 = r.Payments, r.Pagination
		}
		if pr2 != nil {
			pg.next, pg.total = pr2.NextKey, pr2.Total
		}
		return nil
	})
	pg.ok = err == nil
	return pg
}

// c13SameOrder compares two orders by their deterministic protobuf encoding.
func c13SameOrder(a, b *exchange.Order) bool {
	if a == nil || b == nil {
		return a == b
	}
	x, err1 := a.Marshal()
	y, err2 := b.Marshal()
	return err1 == nil && err2 == nil && bytes.Equal(x, y)
}

func c13OrderIDs(os []*exchange.Order) []uint64 {
	ids := make([]uint64, len(os))
	for i, o := range os {
		ids[i] = o.OrderId
	}
	return ids
}

// mismatches counts listed orders that differ from what GetOrder returns for their id.
func (e *c13Env) mismatches(ctx sdk.Context, os []*exchange.Order) int {
	n := 0
	for _, o := range os {
		r, err := e.qs.GetOrder(ctx, &exchange.QueryGetOrderRequest{OrderId: o.OrderId})
		if err != nil || r.Order == nil || !c13SameOrder(r.Order, o) {
			n++
		}
	}
	return n
}

func (e *c13Env) itemsTerm(pg c13Page) string {
	var parts []string
	for _, o := range pg.orders {
		parts = append(parts, fmt.Sprintf("IO %d", o.OrderId))
	}
	for _, p := range pg.pays {
		parts = append(parts, "IP "+e.addrVar(p.Source)+" "+c13Str(p.ExternalId))
	}
	for _, c := range pg.coms {
		parts = append(parts, fmt.Sprintf("IC %d %s %s", c.market, e.addrVar(c.acct), e.coinsTerm(c.amount)))
	}
	for _, m := range pg.mkts {
		parts = append(parts, fmt.Sprintf("IM %d", m))
	}
	return "[" + strings.Join(parts, ";") + "]"
}

// session follows next_key (keymode) or offsets until next_key is empty; returns the Coq term.
func (e *c13Env) session(ctx sdk.Context, ep c13Endpoint, otype string, after, limit uint64, reverse, keymode, ctotal bool, maxPages int, mism *int) string {
	var pages []string
	var key []byte
	offset := uint64(0)
	for i := 0; i < maxPages; i++ {
		pr := &query.PageRequest{Key: key, Offset: offset, Limit: limit, Reverse: reverse, CountTotal: ctotal}
		pg := e.callPage(ctx, ep, otype, after, pr)
		*mism += e.mismatches(ctx, pg.orders)
		pages = append(pages, fmt.Sprintf("Pg %s %s %s %s %s %s", c13Bytes(key), c13U(offset), coqBool(pg.ok), e.itemsTerm(pg), c13Bytes(pg.next), c13U(pg.total)))
		e.w.Count("pages")
		if !pg.ok || len(pg.next) == 0 {
			break
		}
		if keymode {
			key = pg.next
		} else {
			eff := limit
			if eff == 0 {
				eff = 100
			}
			offset += eff
		}
	}
	ot := "None"
	switch otype {
	case "ask":
		ot = "(Some 0)"
	case "bid":
		ot = "(Some 1)"
	}
	e.w.Count("sessions")
	return fmt.Sprintf("Se %s %s %s %s %s %s %s [%s]", e.epTerm(ep), ot, c13U(after), c13U(limit), coqBool(reverse), coqBool(keymode), coqBool(ctotal), strings.Join(pages, ";\n      "))
}

// ---- observation after a step ----

type c13View struct {
	orders  []c13Order
	pays    []c13Pay
	markets []uint32 // every known market id (GetAllMarkets)
	commits []c13Commit
}

// c13NoMarket is a market id that no history ever creates.
const c13NoMarket = uint32(11)

func (e *c13Env) observe(ctx sdk.Context, maxID uint64, extra *int) (string, c13View) {
	var view c13View
	big := &query.PageRequest{Limit: 100000}
	mism := *extra
	// GetOrder probes
	probed := []uint64{}
	for id := uint64(1); id <= maxID+2; id++ {
		probed = append(probed, id)
	}
	probed = append(probed, 999, c13Max)
	var found []string
	for _, id := range probed {
		var o *exchange.Order
		err := try(func() error {
			r, err := e.qs.GetOrder(ctx, &exchange.QueryGetOrderRequest{OrderId: id})
			if err == nil {
				o = r.Order
			}
			return err
		})
		if err == nil && o != nil {
			po := c13Project(o)
			if po.id != id {
				mism++
			}
			view.orders = append(view.orders, po)
			found = append(found, fmt.Sprintf("(%d, %s)", id, e.orderTerm(po)))
		}
	}
	list := func(ep c13Endpoint) []uint64 {
		pg := e.callPage(ctx, ep, "", 0, big)
		if !pg.ok {
			return []uint64{c13Max} // cannot be a real listing: forces a mismatch
		}
		mism += e.mismatches(ctx, pg.orders)
		return c13OrderIDs(pg.orders)
	}
	all := list(c13Endpoint{kind: "all"})
	var mk, ow, as, ex []string
	for _, m := range append(append([]uint32{}, e.markets...), 3) {
		mk = append(mk, fmt.Sprintf("(%d, %s)", m, c13Ids(list(c13Endpoint{kind: "market", market: m}))))
	}
	for _, a := range append(append([]sdk.AccAddress{}, e.owners...), e.admin) {
		ow = append(ow, fmt.Sprintf("(%s, %s)", e.addrVar(a.String()), c13Ids(list(c13Endpoint{kind: "owner", addr: e.respell(a.String())}))))
	}
	for _, d := range e.probeDenoms() {
		as = append(as, fmt.Sprintf("(%s, %s)", e.denomTerm(d), c13Ids(list(c13Endpoint{kind: "asset", denom: d}))))
	}
	probedExt := map[string]bool{}
	for _, m := range e.markets {
		for _, x := range append(append([]string{}, c13ExtPool...), strings.Repeat("h", 100), strings.Repeat("f", 100), "é", strings.Repeat("é", 50), strings.Repeat("é", 51)) {
			var id uint64
			okk := false
			_ = try(func() error {
				r, err := e.qs.GetOrderByExternalID(ctx, &exchange.QueryGetOrderByExternalIDRequest{MarketId: m, ExternalId: x})
				if err == nil && r.Order != nil {
					id, okk = r.Order.OrderId, true
					rr, err2 := e.qs.GetOrder(ctx, &exchange.QueryGetOrderRequest{OrderId: id})
					if err2 != nil || !c13SameOrder(rr.Order, r.Order) {
						mism++
					}
				}
				return err
			})
			ex = append(ex, fmt.Sprintf("(%d, %s, %s)", m, c13Str(x), coqOpt(okk, c13U(id))))
			probedExt[fmt.Sprintf("%d|%s", m, x)] = true
		}
	}
	// ... and the external id of every open order in its own market (whatever bytes it has), by the
	// gRPC query and by the keeper's lookup, which must agree
	for _, o := range view.orders {
		key := fmt.Sprintf("%d|%s", o.market, o.ext)
		if o.ext == "" || probedExt[key] {
			continue
		}
		probedExt[key] = true
		var id uint64
		okk := false
		_ = try(func() error {
			r, err := e.qs.GetOrderByExternalID(ctx, &exchange.QueryGetOrderByExternalIDRequest{MarketId: o.market, ExternalId: o.ext})
			if err == nil && r.Order != nil {
				id, okk = r.Order.OrderId, true
			}
			return err
		})
		var kid uint64
		kok := false
		_ = try(func() error {
			ko, err := e.lookupExt(ctx, o.market, o.ext)
			if err == nil && ko != nil {
				kid, kok = ko.OrderId, true
			}
			return err
		})
		if kok != okk || kid != id {
			mism++
		}
		ex = append(ex, fmt.Sprintf("(%d, %s, %s)", o.market, c13Str(o.ext), coqOpt(okk, c13U(id))))
		e.w.Count("own_external_id_probes")
	}
	// payments
	pall := e.callPage(ctx, c13Endpoint{kind: "payall"}, "", 0, big)
	for _, p := range pall.pays {
		view.pays = append(view.pays, c13ProjectPay(p))
	}
	var ps, pt, pgs []string
	for _, a := range append(append([]sdk.AccAddress{}, e.owners...), e.admin) {
		ps = append(ps, fmt.Sprintf("(%s, %s)", e.addrVar(a.String()), e.paysTerm(e.callPage(ctx, c13Endpoint{kind: "paysrc", addr: e.respell(a.String())}, "", 0, big).pays)))
		pt = append(pt, fmt.Sprintf("(%s, %s)", e.addrVar(a.String()), e.paysTerm(e.callPage(ctx, c13Endpoint{kind: "paytgt", addr: e.respell(a.String())}, "", 0, big).pays)))
	}
	probedPay := map[string]bool{}
	for _, a := range e.owners {
		for _, x := range append([]string{""}, c13ExtPool[:3]...) {
			var p *exchange.Payment
			err := try(func() error {
				r, err := e.qs.GetPayment(ctx, &exchange.QueryGetPaymentRequest{Source: e.respell(a.String()), ExternalId: x})
				if err == nil {
					p = r.Payment
				}
				return err
			})
			v := ""
			if err == nil && p != nil {
				v = e.payTerm(c13ProjectPay(p))
			}
			pgs = append(pgs, fmt.Sprintf("(%s, %s, %s)", e.addrVar(a.String()), c13Str(x), coqOpt(err == nil && p != nil, v)))
			probedPay[a.String()+"|"+x] = true
		}
	}
	for _, q := range view.pays {
		if probedPay[q.src+"|"+q.ext] {
			continue
		}
		probedPay[q.src+"|"+q.ext] = true
		var p *exchange.Payment
		err := try(func() error {
			r, err := e.qs.GetPayment(ctx, &exchange.QueryGetPaymentRequest{Source: e.respell(q.src), ExternalId: q.ext})
			if err == nil {
				p = r.Payment
			}
			return err
		})
		v := ""
		if err == nil && p != nil {
			v = e.payTerm(c13ProjectPay(p))
		}
		pgs = append(pgs, fmt.Sprintf("(%s, %s, %s)", e.addrVar(q.src), c13Str(q.ext), coqOpt(err == nil && p != nil, v)))
	}
	j := func(l []string) string { return "[" + strings.Join(l, "; ") + "]" }
	// markets: the listing, and every listed market fetched by id (its name carries the tag
	// given at creation, so a market replaced under the same id shows)
	var mids, mnames []string
	_ = try(func() error {
		r, err := e.qs.GetAllMarkets(ctx, &exchange.QueryGetAllMarketsRequest{Pagination: big})
		if err != nil {
			return err
		}
		for _, b := range r.Markets {
			view.markets = append(view.markets, b.MarketId)
			mids = append(mids, fmt.Sprint(b.MarketId))
		}
		return nil
	})
	for _, m := range view.markets {
		tag := int64(-1)
		_ = try(func() error {
			r, err := e.qs.GetMarket(ctx, &exchange.QueryGetMarketRequest{MarketId: m})
			if err == nil && r.Market != nil && r.Market.MarketId == m {
				var n int64
				if _, err2 := fmt.Sscanf(r.Market.MarketDetails.Name, "c13-%d", &n); err2 == nil {
					tag = n
				}
			}
			return err
		})
		if tag >= 0 {
			mnames = append(mnames, fmt.Sprintf("(%d, %d)", m, tag))
		}
	}
	// commitments
	comTerm := func(c c13Commit) string {
		return fmt.Sprintf("(%d, %s, %s)", c.market, e.addrVar(c.acct), e.coinsTerm(c.amount))
	}
	call := e.callPage(ctx, c13Endpoint{kind: "commitall"}, "", 0, big)
	view.commits = call.coms
	var cs, cm, ca, cg []string
	for _, c := range call.coms {
		cs = append(cs, comTerm(c))
	}
	probeMarkets := append(append([]uint32{}, view.markets...), c13NoMarket)
	for _, m := range probeMarkets {
		pg := e.callPage(ctx, c13Endpoint{kind: "commitmkt", market: m}, "", 0, big)
		var l []string
		for _, c := range pg.coms {
			l = append(l, fmt.Sprintf("(%s, %s)", e.addrVar(c.acct), e.coinsTerm(c.amount)))
		}
		cm = append(cm, fmt.Sprintf("(%d, %s)", m, j(l)))
	}
	for _, a := range append(append([]sdk.AccAddress{}, e.owners...), e.admin) {
		var l []string
		_ = try(func() error {
			r, err := e.qs.GetAccountCommitments(ctx, &exchange.QueryGetAccountCommitmentsRequest{Account: a.String()})
			if err != nil {
				return err
			}
			for _, c := range r.Commitments {
				l = append(l, fmt.Sprintf("(%d, %s)", c.MarketId, e.coinsTerm(c.Amount)))
			}
			return nil
		})
		ca = append(ca, fmt.Sprintf("(%s, %s)", e.addrVar(a.String()), j(l)))
	}
	for _, m := range probeMarkets {
		for _, a := range e.owners {
			var amt sdk.Coins
			_ = try(func() error {
				r, err := e.qs.GetCommitment(ctx, &exchange.QueryGetCommitmentRequest{Account: a.String(), MarketId: m})
				if err == nil {
					amt = r.Amount
				}
				return err
			})
			cg = append(cg, fmt.Sprintf("(%d, %s, %s)", m, e.addrVar(a.String()), e.coinsTerm(amt)))
		}
	}
	term := fmt.Sprintf("{| ob_probed := %s; ob_orders := %s; ob_mismatch := %d; ob_all := %s;\n      ob_mkt := %s;\n      ob_own := %s;\n      ob_asset := %s;\n      ob_ext := %s;\n      ob_pays := %s;\n      ob_psrc := %s;\n      ob_ptgt := %s;\n      ob_pget := %s;\n      ob_markets := %s; ob_mnames := %s;\n      ob_commits := %s;\n      ob_cmkt := %s;\n      ob_cacct := %s;\n      ob_cget := %s |}",
		c13Ids(probed), j(found), mism, c13Ids(all), j(mk), j(ow), j(as), j(ex), e.paysTerm(pall.pays), j(ps), j(pt), j(pgs),
		j(mids), j(mnames), j(cs), j(cm), j(ca), j(cg))
	return term, view
}

// ---- paging sessions at a checkpoint ----

func (e *c13Env) checkpoint(ctx sdk.Context, view c13View, full bool, mism *int) []string {
	r := e.r
	var out []string
	var eps []c13Endpoint
	for _, m := range e.markets {
		eps = append(eps, c13Endpoint{kind: "market", market: m})
	}
	for _, a := range e.owners {
		eps = append(eps, c13Endpoint{kind: "owner", addr: a.String()})
	}
	for _, d := range e.assets {
		eps = append(eps, c13Endpoint{kind: "asset", denom: d})
	}
	nOrderEps := len(eps) // market, owner and asset listings (filteredPaginateAfterOrder)
	eps = append(eps, c13Endpoint{kind: "all"}, c13Endpoint{kind: "payall"})
	for _, a := range e.owners {
		eps = append(eps, c13Endpoint{kind: "paysrc", addr: e.respell(a.String())}, c13Endpoint{kind: "paytgt", addr: e.respell(a.String())})
	}
	eps = append(eps, c13Endpoint{kind: "commitall"}, c13Endpoint{kind: "markets"})
	for _, m := range view.markets {
		eps = append(eps, c13Endpoint{kind: "commitmkt", market: m})
	}
	count := func(ep c13Endpoint) int {
		n := 0
		switch ep.kind {
		case "market":
			for _, o := range view.orders {
				if o.market == ep.market {
					n++
				}
			}
		case "owner":
			for _, o := range view.orders {
				if o.owner == c13Canon(ep.addr) {
					n++
				}
			}
		case "asset":
			for _, o := range view.orders {
				if o.asset == ep.denom {
					n++
				}
			}
		case "all":
			n = len(view.orders)
		case "paysrc":
			for _, p := range view.pays {
				if p.src == c13Canon(ep.addr) {
					n++
				}
			}
		case "paytgt":
			for _, p := range view.pays {
				if p.tgt == c13Canon(ep.addr) {
					n++
				}
			}
		case "markets":
			n = len(view.markets)
		case "commitall":
			n = len(view.commits)
		case "commitmkt":
			for _, c := range view.commits {
				if c.market == ep.market {
					n++
				}
			}
		default:
			n = len(view.pays)
		}
		return n
	}
	afters := func() []uint64 {
		a := []uint64{0, c13Max, 1}
		if len(view.orders) > 0 {
			a = append(a, view.orders[len(view.orders)/2].id, view.orders[len(view.orders)-1].id)
		}
		return a
	}
	type combo struct {
		ep      c13Endpoint
		otype   string
		after   uint64
		reverse bool
		keymode bool
	}
	var combos []combo
	ncombo := 3
	if full {
		ncombo = 6
	}
	for i := 0; i < ncombo; i++ {
		ep := eps[r.Intn(len(eps))]
		c := combo{ep: ep, reverse: r.Intn(2) == 0, keymode: r.Intn(2) == 0}
		if ep.kind != "all" && ep.isOrders() {
			c.otype = []string{"", "", "ask", "bid"}[r.Intn(4)]
			as := afters()
			if r.Intn(2) == 0 {
				c.after = as[r.Intn(len(as))]
			}
		}
		combos = append(combos, c)
	}
	// forced shapes: the two repaired defects and the payments-by-source reverse listing
	combos = append(combos,
		combo{ep: c13Endpoint{kind: "asset", denom: "aaa"}, reverse: r.Intn(2) == 0, keymode: r.Intn(2) == 0, otype: []string{"", "ask", "bid"}[r.Intn(3)]},
		combo{ep: eps[r.Intn(nOrderEps)], after: c13Max, reverse: true, keymode: r.Intn(2) == 0},
		combo{ep: eps[r.Intn(nOrderEps)], after: c13Max, reverse: false, keymode: r.Intn(2) == 0},
		combo{ep: c13Endpoint{kind: "paysrc", addr: e.respell(e.owners[r.Intn(len(e.owners))].String())}, reverse: true, keymode: r.Intn(2) == 0},
		// the market listing (query.FilteredPaginate over the known market ids)
		combo{ep: c13Endpoint{kind: "markets"}, reverse: r.Intn(2) == 0, keymode: r.Intn(2) == 0},
	)
	// a by-asset listing of a special denom (upper case / punctuation / case twin / prefix / 128
	// characters), preferably one that has open orders, with a type filter at random
	{
		special := e.assets[3:]
		d := special[r.Intn(len(special))]
		for _, o := range view.orders {
			if o.asset != "aaa" && o.asset != "aaab" && o.asset != "bbb" && r.Intn(2) == 0 {
				d = o.asset
				break
			}
		}
		combos = append(combos, combo{ep: c13Endpoint{kind: "asset", denom: d}, reverse: r.Intn(2) == 0, keymode: r.Intn(2) == 0, otype: []string{"", "", "ask", "bid"}[r.Intn(4)]})
		e.w.Count("sessions_on_special_denom_listing")
	}
	// a payments-with-target listing of an account that is the target of some payment
	if len(view.pays) > 0 {
		p := view.pays[r.Intn(len(view.pays))]
		if p.tgt != "" {
			combos = append(combos, combo{ep: c13Endpoint{kind: "paytgt", addr: e.respell(p.tgt)}, reverse: r.Intn(2) == 0, keymode: r.Intn(2) == 0})
		}
	}
	// after-order bound INSIDE a listing, small pages, so that later pages reach the bound: the
	// bound is the id of an entry of the endpoint's own listing with at least two entries above it
	// (and, when possible, some below); reverse key paging first, the other modes at random
	idsOf := func(ep c13Endpoint, otype string) []uint64 {
		var ids []uint64
		for _, o := range view.orders {
			if (ep.kind == "market" && o.market != ep.market) || (ep.kind == "owner" && o.owner != c13Canon(ep.addr)) || (ep.kind == "asset" && o.asset != ep.denom) {
				continue
			}
			if (otype == "ask" && o.bid) || (otype == "bid" && !o.bid) {
				continue
			}
			ids = append(ids, o.id)
		}
		return ids
	}
	type bcombo struct {
		c     combo
		above int
	}
	var bounded []bcombo
	for _, i := range r.Perm(nOrderEps) {
		ep := eps[i]
		for _, otype := range []string{"", []string{"ask", "bid"}[r.Intn(2)]} {
			ids := idsOf(ep, otype)
			if len(ids) < 3 {
				continue
			}
			k := r.Intn(len(ids) - 2) // ids[k+1:] has at least two entries
			if k == 0 && len(ids) > 3 && r.Intn(2) == 0 {
				k = 1
			}
			bounded = append(bounded, bcombo{combo{ep: ep, otype: otype, after: ids[k], reverse: true, keymode: true}, len(ids) - k - 1})
			if r.Intn(2) == 0 {
				bounded = append(bounded, bcombo{combo{ep: ep, otype: otype, after: ids[k], reverse: r.Intn(2) == 0, keymode: r.Intn(2) == 0}, len(ids) - k - 1})
			}
		}
		nb := 3
		if full {
			nb = 8
		}
		if len(bounded) >= nb {
			break
		}
	}
	for _, b := range bounded {
		top := b.above
		if top > 4 {
			top = 4
		}
		for limit := uint64(1); limit <= uint64(top); limit++ {
			out = append(out, e.session(ctx, b.c.ep, b.c.otype, b.c.after, limit, b.c.reverse, b.c.keymode, r.Intn(3) == 0, b.above+3, mism))
			e.w.Count("sessions_after_bound_inside_listing")
			if b.c.reverse && b.c.keymode {
				e.w.Count("sessions_reverse_key_after_bound")
			}
		}
	}
	// the commitment listings: the market holding the most commitments, or all of them
	if len(view.commits) > 0 {
		// both commitment listings, in one direction / mode each (the other ones at other checkpoints)
		combos = append(combos, combo{ep: c13Endpoint{kind: "commitall"}, reverse: r.Intn(2) == 0, keymode: r.Intn(2) == 0},
			combo{ep: c13Endpoint{kind: "commitmkt", market: view.commits[r.Intn(len(view.commits))].market}, reverse: r.Intn(2) == 0, keymode: r.Intn(2) == 0})
	}
	// GetAllOrders (query.FilteredPaginate) in the mode and direction not drawn above
	if full || r.Intn(3) == 0 {
		combos = append(combos, combo{ep: c13Endpoint{kind: "all"}, reverse: r.Intn(2) == 0, keymode: r.Intn(2) == 0})
	}
	for ci, c := range combos {
		// at the final checkpoint of a history every shape is paged; at the others the scripted
		// shapes (everything after the random ones) are thinned out to one in two
		if !full && ci >= ncombo && r.Intn(2) == 0 {
			continue
		}
		n := count(c.ep)
		if n > 6 {
			n = 6
		}
		for limit := uint64(1); limit <= uint64(n+1); limit++ {
			out = append(out, e.session(ctx, c.ep, c.otype, c.after, limit, c.reverse, c.keymode, r.Intn(3) == 0, count(c.ep)+3, mism))
		}
		shape := fmt.Sprintf("s/%v/%s/%d/%v/%v/%d", c.ep, c.otype, c.after, c.reverse, c.keymode, n)
		if !e.shapes[shape] {
			e.shapes[shape] = true
			e.w.Count("distinct_session_shapes")
		}
	}
	// boundary limits: 0 (= default 100 with count_total) in both modes, 2^64-1 following keys
	ep := eps[r.Intn(len(eps))]
	out = append(out, e.session(ctx, ep, "", 0, 0, r.Intn(2) == 0, r.Intn(2) == 0, false, 3, mism))
	// the maximum limit (the SDK's PaginationMaxLimit) with a type filter, both directions
	for i := 0; i < 2; i++ {
		ep = eps[r.Intn(nOrderEps)]
		after := uint64(0)
		if r.Intn(4) == 0 {
			as := afters()
			after = as[r.Intn(len(as))]
		}
		out = append(out, e.session(ctx, ep, []string{"ask", "bid", ""}[r.Intn(3)], after, c13Max, i == 0, r.Intn(3) != 0, r.Intn(2) == 0, 4, mism))
	}
	// ... and on one of the SDK-paginated listings (all orders, payments, commitments, markets)
	ep = eps[nOrderEps+r.Intn(len(eps)-nOrderEps)]
	out = append(out, e.session(ctx, ep, "", 0, c13Max, r.Intn(2) == 0, r.Intn(2) == 0, r.Intn(2) == 0, 4, mism))
	// the boundary limits on the market and commitment listings: 0 (default 100 + count_total) and
	// 2^64-1, offset mode (key = nil, offset 0: C13_max_limit_sdk_*), either direction
	for _, bep := range []c13Endpoint{{kind: "markets"}, {kind: "commitall"}} {
		if bep.kind == "commitall" && len(view.commits) > 0 && r.Intn(2) == 0 {
			bep = c13Endpoint{kind: "commitmkt", market: view.commits[r.Intn(len(view.commits))].market}
		}
		lim := []uint64{0, c13Max}[r.Intn(2)]
		out = append(out, e.session(ctx, bep, "", 0, lim, r.Intn(2) == 0, false, r.Intn(2) == 0, 4, mism))
		e.w.Count("sessions_boundary_limit_markets_commitments")
	}
	return out
}

// ---- the history generator ----

func TestC13(t *testing.T) {
	r := newRand("C13")
	w := NewCaseWriter("C13", "PV.Corr.C13", "check_all", 3)
	app, baseCtx := newApp(t)
	e := &c13Env{t: t, r: r, w: w, qs: keeper.NewQueryServer(app.ExchangeKeeper), admin: addrN(1), names: map[string]string{}, shapes: map[string]bool{}, auth: app.ExchangeKeeper.GetAuthority()}
	e.owners = []sdk.AccAddress{addrN(2), addrN(3), addrN(4)}
	e.names[e.admin.String()] = "AD"
	for i, a := range e.owners {
		e.names[a.String()] = fmt.Sprintf("A%d", i+1)
	}
	e.dnames = map[string]string{}
	var rich sdk.Coins
	for i, d := range c13AllDenoms() {
		if err := sdk.ValidateDenom(d); err != nil {
			t.Fatalf("denom %q is not legal: %v", d, err)
		}
		e.dnames[d] = fmt.Sprintf("D%d", i)
		rich = rich.Add(sdk.NewInt64Coin(d, 1_000_000_000))
	}
	if len(c13Long128) != 128 {
		t.Fatalf("the long denom has %d characters", len(c13Long128))
	}
	e.hold = func(ctx sdk.Context, addr sdk.AccAddress, amt sdk.Coins) error {
		return app.HoldKeeper.AddHold(ctx, addr, amt, "c13 genesis")
	}
	e.lookupExt = func(ctx sdk.Context, market uint32, ext string) (*exchange.Order, error) {
		return app.ExchangeKeeper.GetOrderByExternalID(ctx, market, ext)
	}
	e.initGen = func(ctx sdk.Context, gs *exchange.GenesisState) error {
		return try(func() error {
			if err := gs.Validate(); err != nil {
				return err
			}
			app.ExchangeKeeper.InitGenesis(ctx, gs)
			return nil
		})
	}
	for _, a := range append(append([]sdk.AccAddress{}, e.owners...), e.admin) {
		ensureAccount(app, baseCtx, a)
		fund(t, app, baseCtx, a, rich)
	}
	// The two base markets are created INSIDE every history (its first two operations), through
	// MsgGovCreateMarket, so that market-id allocation is part of the modelled history.
	e.handle = func(ctx sdk.Context, msg sdk.Msg) error {
		cctx, write := ctx.CacheContext()
		err := try(func() error {
			h := app.MsgServiceRouter().Handler(msg)
			if h == nil {
				return fmt.Errorf("no handler for %T", msg)
			}
			_, err := h(cctx, msg)
			return err
		})
		if err == nil {
			write()
		}
		return err
	}

	nHist := scale(36, 300)
	for hi := 0; hi < nHist; hi++ {
		ctx, _ := baseCtx.CacheContext()
		nSteps := 22 + r.Intn(14)
		// a third of the histories page after EVERY step, the others after one step in five
		everyStep := hi%3 == 0
		e.markets = nil
		e.nameCtr = 0
		e.forced = []string{"mcreate-auto", "mcreate-auto"}
		e.freed = nil
		e.x100Mkt = 0
		e.pickAssets()
		// orders on the special denoms of this history (both siblings), in every history
		e.forced = append(e.forced, "special-a", "special-b", "special-c")
		if hi%3 == 1 {
			// a target stored in upper case is "changed" to the same account: old and new index key coincide
			e.forced = append(e.forced, "pay-up-target", "pay-respell")
		}
		if hi%3 == 2 {
			e.forced = append(e.forced, "pay-up-source")
		}
		// non-ASCII external ids around the 100-BYTE limit, through create and set-external-id
		switch hi % 3 {
		case 0:
			e.forced = append(e.forced, "create-ext-mb-over", "setext-mb")
		case 1:
			e.forced = append(e.forced, "create-ext-mb100", "create-ext-mb-prefix", "setext-mb-over")
		case 2:
			e.forced = append(e.forced, "pay-mb", "pay-mb-over", "create-ext-mb-over")
		}
		if hi%6 == 2 || hi%6 == 5 {
			// an external id is given up (changed or cleared, the order then cancelled or not)
			// and taken again by ANOTHER order of the same market, by creation and by set-external-id
			e.forced = append(e.forced, "xr-create", "xr-change")
			if hi%12 >= 6 {
				e.forced = append(e.forced, "xr-cancel")
			}
			e.forced = append(e.forced, "xr-create2", "xr-create3", "xr-change2", "xr-set")
		}
		if hi%6 == 0 {
			// shapes that must occur in every run: an external id of exactly 100 bytes, a source
			// with an empty-external-id payment next to another one, a 100-byte payment id
			e.forced = append(e.forced, "create-ext100", "create-ext100-dup", "pay-empty", "pay-x", "pay-ext100")
		}
		if hi%6 == 1 {
			// an explicit id exactly where the automatic counter stands, then automatic creations,
			// which must skip it
			e.forced = append(e.forced, "mcreate-next-explicit", "mcreate-auto", "commit", "mcreate-next-explicit", "mcreate-auto")
		}
		if hi%6 == 3 {
			e.forced = append(e.forced, "acct-squat-next", "mcreate-auto", "mcreate-explicit", "mcreate-dup", "commit", "commit", "settle")
		}
		steps, descOps, view, accepted := e.runSteps(ctx, nSteps, everyStep, c13View{}, 0)
		if everyStep {
			w.Count("histories_paged_after_every_step")
		}
		term := "(" + e.lets() + "CHist [\n  " + strings.Join(steps, ";\n  ") + "])%N"
		w.Add(term, map[string]any{"history": hi, "steps": descOps, "open_orders_at_end": len(view.orders), "payments_at_end": len(view.pays),
			"commitments_at_end": len(view.commits), "markets_at_end": len(view.markets), "paged_after_every_step": everyStep})
		if accepted > 0 && len(view.orders)+len(view.pays)+len(view.commits) > 0 {
			w.Nontrivial(strings.Join(descOps, "|"))
		}
		w.CountN("history_len_total", int64(nSteps))
	}
	c13GenesisCases(t, e, baseCtx)
	w.Require += e.preamble()
	w.Flush(t)
}

// runSteps generates and performs [nSteps] operations from the state seen in [view] (maxID = the
// largest order id handed out so far), observing after every step.
func (e *c13Env) runSteps(ctx sdk.Context, nSteps int, everyStep bool, view c13View, maxID uint64) ([]string, []string, c13View, int) {
	r, w := e.r, e.w
	var steps []string
	var descOps []string
	accepted := 0
	for si := 0; si < nSteps; si++ {
		opTerm, desc, kind, run := e.genOp(ctx, view, maxID)
		before := maxID
		marketsBefore := append([]uint32{}, view.markets...)
		err := run()
		ok := err == nil
		created := "None"
		if ok && kind == "OCreate" {
			// the id handed out = the largest id now present
			r2, _ := e.qs.GetAllOrders(ctx, &exchange.QueryGetAllOrdersRequest{Pagination: &query.PageRequest{Limit: 1, Reverse: true}})
			if r2 != nil && len(r2.Orders) == 1 && r2.Orders[0].OrderId > before {
				maxID = r2.Orders[0].OrderId
				created = fmt.Sprintf("(Some %d)", maxID)
			}
		}
		w.Count("ops")
		w.Count("op_" + kind)
		if ok {
			accepted++
			w.Count("ops_accepted")
			w.Count("ok_" + kind)
		} else {
			w.Count("ops_rejected")
		}
		mism := 0
		var sess []string
		// decide on a checkpoint before observing so that its mismatch count is included
		doCp := si >= 2 && (si == nSteps-1 || everyStep || r.Intn(5) == 0)
		var obsTerm string
		ordersBefore := view.orders
		obsTerm, view = e.observe(ctx, maxID, &mism)
		e.noteFreed(ordersBefore, view.orders)
		if ok && kind == "CMarketCreate" {
			// the id handed out = the market id that was not listed before
			for _, m := range view.markets {
				isNew := true
				for _, b := range marketsBefore {
					if b == m {
						isNew = false
					}
				}
				if isNew {
					created = fmt.Sprintf("(Some %d)", m)
					if len(e.markets) < 2 {
						e.markets = append(e.markets, m)
					}
				}
			}
		}
		if doCp {
			m2 := 0
			sess = e.checkpoint(ctx, view, si == nSteps-1, &m2)
			if m2 > 0 {
				mism = m2
				obsTerm, view = e.observe(ctx, maxID, &mism)
			}
			w.Count("checkpoints")
		}
		w.CountN("hist_ext100_orders", int64(c13CountExt100(view)))
		w.CountN("hist_empty_ext_payments", int64(c13CountEmptyPay(view)))
		steps = append(steps, fmt.Sprintf("St (%s) %s %s\n    %s\n    [%s]", opTerm, coqBool(ok), created, obsTerm, strings.Join(sess, ";\n     ")))
		d := fmt.Sprintf("%d: %s ok=%v", si, desc, ok)
		if err != nil {
			msg := err.Error()
			if len(msg) > 160 {
				msg = msg[:160]
			}
			d += " (" + msg + ")"
		}
		descOps = append(descOps, d)
	}
	return steps, descOps, view, accepted
}

// lets: the addresses and denoms are bound once per shard (preamble), not per case: type checking
// a case term under twenty [let]s with long bodies is ten times slower.
func (e *c13Env) lets() string { return "" }

// preamble returns top-level Coq definitions of the address and denom variables.  CaseWriter has
// no preamble hook; its Require field is printed as "Require Import <Require>." at the top of every
// shard, so the definitions ride behind the module name (the last one without its final dot).
func (e *c13Env) preamble() string {
	var defs []string
	for _, a := range append(append([]sdk.AccAddress{}, e.owners...), e.admin) {
		defs = append(defs, fmt.Sprintf("Definition %s : list N := (%s)%%N", e.names[a.String()], c13Bytes(a)))
	}
	for _, d := range c13AllDenoms() {
		defs = append(defs, fmt.Sprintf("Definition %s : list N := (%s)%%N", e.dnames[d], c13Str(d)))
	}
	return ".\nImport ListNotations.\n" + strings.Join(defs, ".\n")
}

// c13CountExt100 / c13CountEmptyPay: open orders with a 100-byte external id / payments with an
// empty external id in a view (summed over steps they measure how long such shapes stay around).
func c13CountExt100(v c13View) int {
	n := 0
	for _, o := range v.orders {
		if len(o.ext) == 100 {
			n++
		}
	}
	for _, p := range v.pays {
		if len(p.ext) == 100 {
			n++
		}
	}
	return n
}
func c13CountEmptyPay(v c13View) int {
	n := 0
	for _, p := range v.pays {
		if p.ext == "" {
			n++
		}
	}
	return n
}

// genOp picks the next operation: returns the model operation term, a description and the
// function performing it through the real message handlers.
func (e *c13Env) genOrderPayOp(ctx sdk.Context, view c13View, maxID uint64) (string, string, func() error) {
	r := e.r
	pickOwner := func() sdk.AccAddress { return e.owners[r.Intn(len(e.owners))] }
	pickExt := func() string {
		if r.Intn(10) < 4 {
			return ""
		}
		switch r.Intn(12) {
		case 0, 1: // multi-byte / invalid UTF-8, at most 100 bytes
			e.w.Count("ext_ids_non_ascii")
			return c13MBLegal[r.Intn(len(c13MBLegal))]
		case 2: // more than 100 bytes (some with at most 100 characters): refused
			e.w.Count("ext_ids_non_ascii_over_100_bytes")
			return c13MBOver[r.Intn(len(c13MBOver))]
		}
		return c13ExtPool[r.Intn(len(c13ExtPool))]
	}
	pickOrder := func() (c13Order, bool) {
		if len(view.orders) == 0 {
			return c13Order{}, false
		}
		return view.orders[r.Intn(len(view.orders))], true
	}
	someID := func() uint64 {
		switch r.Intn(8) {
		case 0:
			return maxID + 1
		case 1:
			if maxID > 0 {
				return uint64(r.Int63n(int64(maxID))) + 1
			}
			return 7
		case 2:
			return 0
		}
		if o, ok := pickOrder(); ok {
			return o.id
		}
		return 1
	}
	k := r.Intn(100)
	if len(view.orders) < 3 && k >= 34 && k < 68 {
		k = r.Intn(34)
	}
	switch {
	case k < 34: // create ask / bid
		o := c13Order{bid: r.Intn(2) == 0, market: e.markets[r.Intn(len(e.markets))], owner: pickOwner().String(), asset: e.pickAsset(), amount: int64(r.Intn(12) + 1), ext: pickExt(),
			price: c13PriceDenoms[r.Intn(len(c13PriceDenoms))]}
		if len(e.freed) > 0 && r.Intn(4) == 0 { // an external id that was given up earlier
			f := e.freed[r.Intn(len(e.freed))]
			o.market, o.ext = f.market, f.ext
			e.w.Count("reuse_attempts_create")
		}
		switch r.Intn(25) {
		case 0:
			o.ext = strings.Repeat("e", 101)
		case 1:
			o.market = 0
		case 2:
			o.amount = 0
		case 3:
			o.ext = strings.Repeat("f", 100)
		case 4: // not a legal denom on this chain
			o.asset = []string{"aa:a", "aa_a", "1aa", "ab", c13Long128 + "x", "aaa b"}[r.Intn(6)]
			e.w.Count("creations_with_illegal_denom")
		}
		var msg sdk.Msg
		assets := sdk.Coin{Denom: o.asset, Amount: sdkmath.NewInt(o.amount)}
		price := sdk.NewInt64Coin(o.price, o.amount*3)
		e.countDenom(o.asset, o.price)
		// the owner string of the message in either spelling (the index key is built from the bytes)
		ownerStr := e.respell(o.owner)
		if o.bid {
			msg = &exchange.MsgCreateBidRequest{BidOrder: exchange.BidOrder{MarketId: o.market, Buyer: ownerStr, Assets: assets, Price: price, AllowPartial: true, ExternalId: o.ext}}
		} else {
			msg = &exchange.MsgCreateAskRequest{AskOrder: exchange.AskOrder{MarketId: o.market, Seller: ownerStr, Assets: assets, Price: price, AllowPartial: true, ExternalId: o.ext}}
		}
		return "OCreate " + e.orderTerm(o), fmt.Sprintf("create bid=%v m=%d %s %d%s ext=%q price=%s", o.bid, o.market, e.names[o.owner], o.amount, c13Short(o.asset), c13Short(o.ext), c13Short(o.price)), func() error { return e.handle(ctx, msg) }
	case k < 45: // cancel
		id := someID()
		signer := e.admin.String()
		for _, o := range view.orders {
			if o.id == id && r.Intn(2) == 0 {
				signer = o.ownerStr
			}
		}
		return fmt.Sprintf("OCancel %d", id), fmt.Sprintf("cancel %d", id), func() error {
			return e.handle(ctx, &exchange.MsgCancelOrderRequest{Signer: signer, OrderId: id})
		}
	case k < 56: // set external id
		id := someID()
		m := e.markets[r.Intn(len(e.markets))]
		for _, o := range view.orders {
			if o.id == id && r.Intn(6) != 0 {
				m = o.market
			}
		}
		x := pickExt()
		if r.Intn(30) == 0 {
			x = strings.Repeat("g", 101)
		}
		if len(e.freed) > 0 && r.Intn(3) == 0 { // give an order an external id that was given up earlier
			f := e.freed[r.Intn(len(e.freed))]
			for _, o := range view.orders {
				if o.market == f.market && o.ext != f.ext {
					id, m, x = o.id, f.market, f.ext
					e.w.Count("reuse_attempts_set")
					break
				}
			}
		}
		return fmt.Sprintf("OSetExt %d %d %s", m, id, c13Str(x)), fmt.Sprintf("set-ext m=%d id=%d %q", m, id, c13Short(x)), func() error {
			return e.handle(ctx, &exchange.MsgMarketSetOrderExternalIDRequest{Admin: e.admin.String(), MarketId: m, OrderId: id, ExternalId: x})
		}
	case k < 65: // market settlement of one ask with one bid (full or partial)
		var asks, bids []c13Order
		for _, o := range view.orders {
			if o.bid {
				bids = append(bids, o)
			} else {
				asks = append(asks, o)
			}
		}
		r.Shuffle(len(asks), func(i, j int) { asks[i], asks[j] = asks[j], asks[i] })
		r.Shuffle(len(bids), func(i, j int) { bids[i], bids[j] = bids[j], bids[i] })
		for _, a := range asks {
			for _, b := range bids {
				if a.market != b.market || a.asset != b.asset || a.owner == b.owner || a.price != b.price {
					continue
				}
				full := []uint64{}
				part := "None"
				expectPartial := false
				switch {
				case a.amount == b.amount:
					full = []uint64{a.id, b.id}
				case a.amount > b.amount:
					full = []uint64{b.id}
					part = fmt.Sprintf("(Some (%d, %s))", a.id, c13Z(a.amount-b.amount))
					expectPartial = true
				default:
					full = []uint64{a.id}
					part = fmt.Sprintf("(Some (%d, %s))", b.id, c13Z(b.amount-a.amount))
					expectPartial = true
				}
				askIDs, bidIDs := []uint64{a.id}, []uint64{b.id}
				if r.Intn(12) == 0 { // an order that does not exist
					askIDs = append(askIDs, maxID+5)
					full = append(full, maxID+5)
				}
				msg := &exchange.MsgMarketSettleRequest{Admin: e.admin.String(), MarketId: a.market, AskOrderIds: askIDs, BidOrderIds: bidIDs, ExpectPartial: expectPartial}
				return fmt.Sprintf("OFill %s %s", c13Ids(full), part), fmt.Sprintf("settle ask %d (%d) bid %d (%d)", a.id, a.amount, b.id, b.amount), func() error { return e.handle(ctx, msg) }
			}
		}
		fallthrough
	case k < 68: // a seller fills bids completely (user settlement)
		var bids []c13Order
		for _, o := range view.orders {
			if o.bid {
				bids = append(bids, o)
			}
		}
		if len(bids) > 0 {
			b := bids[r.Intn(len(bids))]
			var chosen []c13Order
			total := int64(0)
			for _, o := range bids {
				if o.market == b.market && o.asset == b.asset && o.price == b.price && (o.id == b.id || r.Intn(2) == 0) && len(chosen) < 3 {
					chosen = append(chosen, o)
					total += o.amount
				}
			}
			var seller sdk.AccAddress = e.admin
			ids := []uint64{}
			for _, o := range chosen {
				ids = append(ids, o.id)
			}
			msg := &exchange.MsgFillBidsRequest{Seller: seller.String(), MarketId: b.market, TotalAssets: sdk.NewCoins(sdk.NewInt64Coin(b.asset, total)), BidOrderIds: ids}
			return fmt.Sprintf("OFill %s None", c13Ids(ids)), fmt.Sprintf("fill-bids %v", ids), func() error { return e.handle(ctx, msg) }
		}
		return e.genOrderPayOp(ctx, view, maxID)
	case k < 71: // close a market (cancels all its orders, releases all its commitments), then let it accept orders again
		m := e.markets[r.Intn(len(e.markets))]
		if len(view.markets) > 0 && r.Intn(3) == 0 {
			m = view.markets[r.Intn(len(view.markets))]
		}
		return fmt.Sprintf("OCloseMarket %d", m), fmt.Sprintf("close-market %d", m), func() error {
			err := e.handle(ctx, &exchange.MsgGovCloseMarketRequest{Authority: e.auth, MarketId: m})
			_ = e.handle(ctx, &exchange.MsgMarketUpdateAcceptingOrdersRequest{Admin: e.admin.String(), MarketId: m, AcceptingOrders: true})
			return err
		}
	}
	// payments
	pickPay := func() (c13Pay, bool) {
		if len(view.pays) == 0 || r.Intn(8) == 0 {
			return c13Pay{src: pickOwner().String(), ext: pickExt(), tgt: pickOwner().String(), amount: 1}, false
		}
		return view.pays[r.Intn(len(view.pays))], true
	}
	coins := func(n int64) sdk.Coins { return sdk.NewCoins(sdk.NewInt64Coin("bbb", n)) }
	switch {
	case k < 82 || len(view.pays) == 0: // create
		src := pickOwner()
		p := c13Pay{src: src.String(), ext: pickExt(), amount: int64(r.Intn(5) + 1)}
		if r.Intn(3) == 0 {
			p.ext = ""
		}
		if r.Intn(4) != 0 {
			for {
				tg := pickOwner()
				if !tg.Equals(src) {
					p.tgt = tg.String()
					break
				}
			}
		}
		// the strings of the message in either spelling: the payment stores them as given
		p.srcUp = r.Intn(4) == 0
		p.tgtUp = p.tgt != "" && r.Intn(3) == 0
		if r.Intn(30) == 0 {
			p.ext = strings.Repeat("p", 101)
		}
		return e.payCreateOp(ctx, p)
	case k < 86: // accept: the submitted Source / Target strings must equal the stored ones
		p, _ := pickPay()
		tgt, tup, sup := p.tgt, p.tgtUp, p.srcUp
		if r.Intn(6) == 0 || tgt == "" {
			tgt = pickOwner().String()
		}
		switch r.Intn(8) {
		case 0:
			tup = !tup // the same account in the other spelling: refused
			e.w.Count("accept_with_other_spelling")
		case 1:
			sup = !sup
			e.w.Count("accept_with_other_spelling")
		}
		// the submitted amounts always equal the stored ones (the amount comparison of
		// AcceptPayment is not part of the store model), also when a made-up payment collides
		for _, q := range view.pays {
			if q.src == p.src && q.ext == p.ext {
				p.amount = q.amount
			}
		}
		q := c13Pay{src: p.src, srcUp: sup, tgt: tgt, tgtUp: tup}
		msg := &exchange.MsgAcceptPaymentRequest{Payment: exchange.Payment{Source: q.srcStr(), SourceAmount: coins(p.amount), Target: q.tgtStr(), ExternalId: p.ext}}
		return fmt.Sprintf("OPayAccept %s %s %s %s %s", e.addrVar(tgt), coqBool(tup), e.addrVar(p.src), coqBool(sup), c13Str(p.ext)), fmt.Sprintf("pay-accept %s(up=%v) %q by %s(up=%v)", e.names[p.src], sup, p.ext, e.names[tgt], tup), func() error { return e.handle(ctx, msg) }
	case k < 89: // reject one (the message's strings are parsed: their spelling does not matter)
		p, _ := pickPay()
		tgt := p.tgt
		if r.Intn(6) == 0 || tgt == "" {
			tgt = pickOwner().String()
		}
		msg := &exchange.MsgRejectPaymentRequest{Target: e.respell(tgt), Source: e.respell(p.src), ExternalId: p.ext}
		return fmt.Sprintf("OPayTake %s %s %s", e.addrVar(tgt), e.addrVar(p.src), c13Str(p.ext)), fmt.Sprintf("pay-reject %s %q by %s (stored target upper=%v)", e.names[p.src], p.ext, e.names[tgt], p.tgtUp), func() error { return e.handle(ctx, msg) }
	case k < 93: // reject all payments of some sources
		p, _ := pickPay()
		tgt := p.tgt
		if tgt == "" {
			tgt = pickOwner().String()
		}
		srcs := []string{e.respell(p.src)}
		if r.Intn(2) == 0 {
			srcs = append(srcs, e.respell(pickOwner().String()))
		}
		switch r.Intn(6) {
		case 0:
			srcs = append(srcs, srcs[0]) // the same string twice: ValidateBasic refuses
		case 1: // the same account in the other spelling: passes ValidateBasic, the keeper skips it
			if c13IsUpper(srcs[0]) {
				srcs = append(srcs, c13Canon(srcs[0]))
			} else {
				srcs = append(srcs, c13Upper(srcs[0]))
			}
			e.w.Count("reject_all_same_source_in_both_spellings")
		}
		var st []string
		for _, s := range srcs {
			st = append(st, fmt.Sprintf("(%s, %s)", e.addrVar(s), coqBool(c13IsUpper(s))))
		}
		msg := &exchange.MsgRejectPaymentsRequest{Target: e.respell(tgt), Sources: srcs}
		return fmt.Sprintf("OPayRejectAll %s [%s]", e.addrVar(tgt), strings.Join(st, ";")), fmt.Sprintf("pay-reject-all by %s of %d sources", e.names[tgt], len(srcs)), func() error { return e.handle(ctx, msg) }
	case k < 96: // cancel some
		p, _ := pickPay()
		exts := []string{p.ext}
		for _, q := range view.pays {
			if q.src == p.src && q.ext != p.ext && r.Intn(2) == 0 {
				exts = append(exts, q.ext)
			}
		}
		if r.Intn(5) == 0 {
			exts = append(exts, p.ext)
		}
		if r.Intn(8) == 0 {
			exts = append(exts, "nope")
		}
		var xt []string
		for _, x := range exts {
			xt = append(xt, c13Str(x))
		}
		msg := &exchange.MsgCancelPaymentsRequest{Source: e.respell(p.src), ExternalIds: exts}
		return fmt.Sprintf("OPayCancel %s [%s]", e.addrVar(p.src), strings.Join(xt, ";")), fmt.Sprintf("pay-cancel %s %q", e.names[p.src], exts), func() error { return e.handle(ctx, msg) }
	default: // change target
		p, _ := pickPay()
		nt := ""
		switch r.Intn(5) {
		case 0: // remove the target
		case 1:
			nt = p.tgt // the same account: refused, unless the stored string is the upper-case spelling
			if p.tgtUp {
				e.w.Count("retarget_same_account_respelled")
			}
		default:
			for {
				tg := pickOwner().String()
				if tg != p.src {
					nt = tg
					break
				}
			}
		}
		return e.retargetOp(ctx, p, nt)
	}
}

func (e *c13Env) payCreateOp(ctx sdk.Context, p c13Pay) (string, string, func() error) {
	coins := sdk.NewCoins(sdk.NewInt64Coin("bbb", p.amount))
	if p.srcUp || p.tgtUp {
		e.w.Count("payments_created_with_upper_case_address")
	}
	msg := &exchange.MsgCreatePaymentRequest{Payment: exchange.Payment{Source: p.srcStr(), SourceAmount: coins, Target: p.tgtStr(), ExternalId: p.ext}}
	return "OPayCreate " + e.payTerm(p), fmt.Sprintf("pay-create %s(up=%v) %q -> %s(up=%v)", e.names[p.src], p.srcUp, c13Short(p.ext), e.names[p.tgt], p.tgtUp), func() error { return e.handle(ctx, msg) }
}

func (e *c13Env) retargetOp(ctx sdk.Context, p c13Pay, nt string) (string, string, func() error) {
	msg := &exchange.MsgChangePaymentTargetRequest{Source: e.respell(p.src), ExternalId: p.ext, NewTarget: e.respell(nt)}
	return fmt.Sprintf("OPayRetarget %s %s %s", e.addrVar(p.src), c13Str(p.ext), e.addrVar(nt)), fmt.Sprintf("pay-retarget %s %q -> %s (stored target %s upper=%v)", e.names[p.src], p.ext, e.names[nt], e.names[p.tgt], p.tgtUp), func() error { return e.handle(ctx, msg) }
}

func (e *c13Env) countDenom(ds ...string) {
	for _, d := range ds {
		if d != strings.ToLower(d) {
			e.w.Count("orders_with_upper_case_denom")
		}
		if len(d) >= 127 {
			e.w.Count("orders_with_127_128_char_denom")
		}
		if strings.ContainsAny(d, "/.-") {
			e.w.Count("orders_with_punctuation_denom")
		}
	}
}

// genOp picks the next operation of a history: a forced one (scripted shapes), an order / payment
// operation (genOrderPayOp) or a commitment / market operation.  Returns the joint model operation
// term ([xop]), a description, the operation kind and the function performing it.
func (e *c13Env) genOp(ctx sdk.Context, view c13View, maxID uint64) (string, string, string, func() error) {
	r := e.r
	kindOf := func(term string) string { return strings.SplitN(term, " ", 2)[0] }
	if len(e.forced) > 0 {
		f := e.forced[0]
		e.forced = e.forced[1:]
		if t, d, run := e.genForced(ctx, view, f); t != "" {
			return t, d, kindOf(strings.TrimPrefix(strings.TrimPrefix(t, "XO ("), "XC (")), run
		}
	}
	if len(e.markets) >= 2 && r.Intn(100) < 34 {
		if t, d, run := e.genCommitOp(ctx, view, ""); t != "" {
			return "XC (" + t + ")", d, kindOf(t), run
		}
	}
	t, d, run := e.genOrderPayOp(ctx, view, maxID)
	return "XO (" + t + ")", d, kindOf(t), run
}

func (e *c13Env) genForced(ctx sdk.Context, view c13View, f string) (string, string, func() error) {
	r := e.r
	pickOwner := func() sdk.AccAddress { return e.owners[r.Intn(len(e.owners))] }
	payCreate := func(p c13Pay) (string, string, func() error) {
		t, d, run := e.payCreateOp(ctx, p)
		return "XO (" + t + ")", d, run
	}
	mkCreateD := func(market uint32, ext, asset string, bid bool) (string, string, func() error) {
		o := c13Order{bid: bid, market: market, owner: pickOwner().String(), asset: asset, amount: int64(r.Intn(12) + 1), ext: ext}
		assets := sdk.Coin{Denom: o.asset, Amount: sdkmath.NewInt(o.amount)}
		price := sdk.NewInt64Coin("pricecoin", o.amount*3)
		e.countDenom(o.asset)
		var msg sdk.Msg
		if o.bid {
			msg = &exchange.MsgCreateBidRequest{BidOrder: exchange.BidOrder{MarketId: o.market, Buyer: o.owner, Assets: assets, Price: price, AllowPartial: true, ExternalId: o.ext}}
		} else {
			msg = &exchange.MsgCreateAskRequest{AskOrder: exchange.AskOrder{MarketId: o.market, Seller: o.owner, Assets: assets, Price: price, AllowPartial: true, ExternalId: o.ext}}
		}
		return "XO (OCreate " + e.orderTerm(o) + ")", fmt.Sprintf("create bid=%v m=%d %s %d%s ext=%q", o.bid, o.market, e.names[o.owner], o.amount, c13Short(o.asset), c13Short(o.ext)), func() error { return e.handle(ctx, msg) }
	}
	mkCreate := func(market uint32, ext string) (string, string, func() error) {
		return mkCreateD(market, ext, e.pickAsset(), r.Intn(2) == 0)
	}
	byExt := func(ext string) (c13Order, bool) {
		for _, o := range view.orders {
			if o.market == e.xrMkt && o.ext == ext {
				return o, true
			}
		}
		return c13Order{}, false
	}
	setExt := func(id uint64, x string) (string, string, func() error) {
		m := e.xrMkt
		return fmt.Sprintf("XO (OSetExt %d %d %s)", m, id, c13Str(x)), fmt.Sprintf("set-ext m=%d id=%d %q", m, id, c13Short(x)), func() error {
			return e.handle(ctx, &exchange.MsgMarketSetOrderExternalIDRequest{Admin: e.admin.String(), MarketId: m, OrderId: id, ExternalId: x})
		}
	}
	if strings.HasPrefix(f, "xr-") && len(e.markets) == 0 {
		return "", "", nil
	}
	switch f {
	case "xr-create": // order A takes the id
		e.xrMkt = e.markets[r.Intn(len(e.markets))]
		return mkCreate(e.xrMkt, "reuse1")
	case "xr-change": // A gives it up: changed or cleared
		if a, ok := byExt("reuse1"); ok {
			return setExt(a.id, []string{"", "reuseA"}[r.Intn(2)])
		}
		return "", "", nil
	case "xr-cancel": // ... and is cancelled
		for _, o := range view.orders {
			if o.market == e.xrMkt && (o.ext == "reuseA" || o.ext == "") {
				id := o.id
				return fmt.Sprintf("XO (OCancel %d)", id), fmt.Sprintf("cancel %d", id), func() error {
					return e.handle(ctx, &exchange.MsgCancelOrderRequest{Signer: e.admin.String(), OrderId: id})
				}
			}
		}
		return "", "", nil
	case "xr-create2": // another order B is created with the id: must be accepted
		return mkCreate(e.xrMkt, "reuse1")
	case "xr-create3": // order C
		return mkCreate(e.xrMkt, "reuseC")
	case "xr-change2": // B gives the id up again
		if b, ok := byExt("reuse1"); ok {
			return setExt(b.id, []string{"", "reuseB"}[r.Intn(2)])
		}
		return "", "", nil
	case "xr-set": // C takes it by set-external-id: must be accepted
		if c, ok := byExt("reuseC"); ok {
			return setExt(c.id, "reuse1")
		}
		return "", "", nil
	case "create-ext100":
		if len(e.markets) == 0 {
			return "", "", nil
		}
		e.x100Mkt = e.markets[r.Intn(len(e.markets))]
		return mkCreate(e.x100Mkt, strings.Repeat("h", 100))
	case "create-ext100-dup": // the same 100-byte id again in the same market: must be refused
		if e.x100Mkt == 0 {
			return "", "", nil
		}
		return mkCreate(e.x100Mkt, strings.Repeat("h", 100))
	case "special-a", "special-b", "special-c":
		// orders on the sibling denoms of this history (case twins / prefixes / 128 characters):
		// two on the first sibling, one on the second, so that both listings are non-empty
		if len(e.markets) == 0 {
			return "", "", nil
		}
		d := e.assets[3]
		if f == "special-c" {
			d = e.assets[4]
		}
		return mkCreateD(e.markets[r.Intn(len(e.markets))], "", d, f == "special-b")
	case "pay-up-target": // a payment whose Target is stored in the upper-case spelling ...
		return payCreate(c13Pay{src: e.owners[2].String(), ext: "respell", tgt: e.owners[0].String(), tgtUp: true, amount: 3})
	case "pay-respell": // ... is given the SAME account as new target (the keeper gets the lower-case string)
		t, d, run := e.retargetOp(ctx, c13Pay{src: e.owners[2].String(), ext: "respell", tgt: e.owners[0].String(), tgtUp: true}, e.owners[0].String())
		e.w.Count("retarget_same_account_respelled")
		return "XO (" + t + ")", d, run
	case "pay-up-source": // a payment whose Source is stored in the upper-case spelling
		return payCreate(c13Pay{src: e.owners[1].String(), srcUp: true, ext: "upsrc", tgt: e.owners[2].String(), tgtUp: r.Intn(2) == 0, amount: 2})
	case "create-ext-mb100": // exactly 100 BYTES of two-byte characters (50 characters): accepted
		if len(e.markets) == 0 {
			return "", "", nil
		}
		e.x100Mkt = e.markets[r.Intn(len(e.markets))]
		return mkCreate(e.x100Mkt, strings.Repeat("é", 50))
	case "create-ext-mb-over": // more than 100 bytes in at most 100 characters: must be refused
		if len(e.markets) == 0 {
			return "", "", nil
		}
		return mkCreate(e.markets[r.Intn(len(e.markets))], []string{strings.Repeat("é", 51), strings.Repeat("字", 34), strings.Repeat("字", 100), strings.Repeat("a", 99) + "é"}[r.Intn(4)])
	case "create-ext-mb-prefix": // "é" next to the 100-byte id it is a byte prefix of, same market
		if e.x100Mkt == 0 {
			return "", "", nil
		}
		return mkCreate(e.x100Mkt, []string{"é", "\xc3"}[r.Intn(2)])
	case "setext-mb-over", "setext-mb": // set-external-id with a multi-byte id over / at the byte limit
		if len(view.orders) == 0 {
			return "", "", nil
		}
		o := view.orders[r.Intn(len(view.orders))]
		x := strings.Repeat("é", 60)
		if f == "setext-mb" {
			x = strings.Repeat("字", 33) + "a"
		}
		return fmt.Sprintf("XO (OSetExt %d %d %s)", o.market, o.id, c13Str(x)), fmt.Sprintf("set-ext m=%d id=%d %q", o.market, o.id, c13Short(x)), func() error {
			return e.handle(ctx, &exchange.MsgMarketSetOrderExternalIDRequest{Admin: e.admin.String(), MarketId: o.market, OrderId: o.id, ExternalId: x})
		}
	case "pay-mb": // payments with multi-byte external ids: 100 bytes (accepted), "é" (its byte prefix)
		return payCreate(c13Pay{src: e.owners[0].String(), ext: []string{strings.Repeat("é", 50), "é", "字"}[r.Intn(3)], tgt: e.owners[1].String(), amount: 1})
	case "pay-mb-over": // 102 bytes in 51 characters: refused
		return payCreate(c13Pay{src: e.owners[0].String(), ext: strings.Repeat("é", 51), tgt: "", amount: 1})
	case "observe-only": // refused by ValidateBasic and by the model: the step only carries the observation
		return "XO (OCancel 0)", "observe (cancel of order 0)", func() error {
			return e.handle(ctx, &exchange.MsgCancelOrderRequest{Signer: e.admin.String(), OrderId: 0})
		}
	case "pay-empty":
		return payCreate(c13Pay{src: e.owners[0].String(), ext: "", tgt: e.owners[1].String(), amount: 2})
	case "pay-x":
		return payCreate(c13Pay{src: e.owners[0].String(), ext: "x", tgt: "", amount: 1})
	case "pay-ext100":
		return payCreate(c13Pay{src: e.owners[r.Intn(len(e.owners))].String(), ext: strings.Repeat("q", 100), tgt: "", amount: 1})
	default:
		t, d, run := e.genCommitOp(ctx, view, f)
		if t == "" {
			return "", "", nil
		}
		return "XC (" + t + ")", d, run
	}
}

// genCommitOp generates a commitment / market operation ([cop] term).  [want] forces a kind.
func (e *c13Env) genCommitOp(ctx sdk.Context, view c13View, want string) (string, string, func() error) {
	r := e.r
	pickOwner := func() sdk.AccAddress { return e.owners[r.Intn(len(e.owners))] }
	known := func(m uint32) bool {
		for _, x := range view.markets {
			if x == m {
				return true
			}
		}
		return false
	}
	pickMarket := func() uint32 {
		if len(view.markets) == 0 || r.Intn(12) == 0 {
			return []uint32{c13NoMarket, 0, uint32(3 + r.Intn(7))}[r.Intn(3)]
		}
		return view.markets[r.Intn(len(view.markets))]
	}
	commitsOf := func(m uint32) []c13Commit {
		var out []c13Commit
		for _, c := range view.commits {
			if c.market == m {
				out = append(out, c)
			}
		}
		return out
	}
	partOf := func(cs sdk.Coins) sdk.Coins {
		var out sdk.Coins
		for _, c := range cs {
			if r.Intn(3) != 0 || len(out) == 0 {
				n := c.Amount.Int64()
				out = out.Add(sdk.NewInt64Coin(c.Denom, 1+r.Int63n(n)))
			}
		}
		return out
	}
	k := r.Intn(100)
	switch want {
	case "mcreate-auto", "mcreate-explicit", "mcreate-dup", "mcreate-next-explicit":
		k = 0
	case "acct-squat-next":
		k = 9
	case "commit":
		k = 40
	case "settle":
		k = 90
	default:
		// nothing to release or settle yet: commit instead, most of the time
		if len(view.commits) == 0 && k >= 60 && r.Intn(5) != 0 {
			k = 40
		}
	}
	switch {
	case k < 8: // create a market: next free id, an explicit unused id, or an id already in use
		id := uint32(0)
		sel := r.Intn(10)
		switch want {
		case "mcreate-auto":
			sel = 0
		case "mcreate-explicit":
			sel = 6
		case "mcreate-dup":
			sel = 9
		}
		nextFree := uint32(1)
		for known(nextFree) {
			nextFree++
		}
		if want == "mcreate-next-explicit" {
			sel = 7
		}
		switch {
		case sel < 6:
		case sel < 7:
			id = uint32(3 + r.Intn(7))
		case sel < 8:
			id = nextFree // where the automatic counter will look next
			if want == "" && r.Intn(2) == 0 {
				id++
			}
		default:
			if len(view.markets) > 0 {
				id = view.markets[r.Intn(len(view.markets))]
			} else {
				id = 1
			}
		}
		acc := r.Intn(6) != 0 || want != ""
		tag := e.nameCtr
		e.nameCtr++
		msg := &exchange.MsgGovCreateMarketRequest{Authority: e.auth, Market: exchange.Market{
			MarketId:        id,
			MarketDetails:   exchange.MarketDetails{Name: fmt.Sprintf("c13-%d", tag)},
			AcceptingOrders: true, AllowUserSettlement: true, AcceptingCommitments: acc,
			AccessGrants: []exchange.AccessGrant{{Address: e.admin.String(), Permissions: exchange.AllPermissions()}},
		}}
		return fmt.Sprintf("CMarketCreate %d %s", id, coqBool(acc)), fmt.Sprintf("market-create id=%d accepting=%v tag=%d", id, acc, tag), func() error { return e.handle(ctx, msg) }
	case k < 12: // an account appears at the address a market id is derived to (a plain bank send)
		id := uint32(3 + r.Intn(7))
		if want == "acct-squat-next" || r.Intn(2) == 0 {
			// the id the next automatic creation would pick
			id = 1
			for known(id) {
				id++
			}
			if want == "" && r.Intn(3) == 0 && len(view.markets) > 0 {
				id = view.markets[r.Intn(len(view.markets))] // an existing market account: nothing changes
			}
		}
		msg := &banktypes.MsgSend{FromAddress: e.admin.String(), ToAddress: exchange.GetMarketAddress(id).String(), Amount: sdk.NewCoins(sdk.NewInt64Coin("pricecoin", 1))}
		return fmt.Sprintf("CAcctCreate %d", id), fmt.Sprintf("send-to-market-address %d", id), func() error { return e.handle(ctx, msg) }
	case k < 19: // switch commitments on / off (by the governance authority)
		m := pickMarket()
		b := r.Intn(4) != 0
		msg := &exchange.MsgMarketUpdateAcceptingCommitmentsRequest{Admin: e.auth, MarketId: m, AcceptingCommitments: b}
		return fmt.Sprintf("CSetAccepting %d %s", m, coqBool(b)), fmt.Sprintf("accepting-commitments m=%d %v", m, b), func() error { return e.handle(ctx, msg) }
	case k < 60: // commit funds
		m := pickMarket()
		a := pickOwner()
		amt := sdk.NewCoins(sdk.NewInt64Coin(e.pickAsset(), int64(1+r.Intn(9))))
		if r.Intn(3) == 0 {
			amt = amt.Add(sdk.NewInt64Coin([]string{"aaa", "bbb", "pricecoin", e.assets[3], e.assets[4]}[r.Intn(5)], int64(1+r.Intn(5))))
		}
		switch r.Intn(30) {
		case 0:
			amt = sdk.Coins{} // nothing
		case 1:
			amt = sdk.Coins{sdk.NewInt64Coin("bbb", 2), sdk.NewInt64Coin("aaa", 1)} // not sorted
		case 2:
			amt = sdk.Coins{sdk.Coin{Denom: "aaa", Amount: sdkmath.ZeroInt()}} // a zero coin
		}
		msg := &exchange.MsgCommitFundsRequest{Account: a.String(), MarketId: m, Amount: amt}
		return fmt.Sprintf("CCommit %d %s %s", m, e.addrVar(a.String()), e.coinsTerm(amt)), fmt.Sprintf("commit m=%d %s %s", m, e.names[a.String()], amt), func() error { return e.handle(ctx, msg) }
	case k < 80: // release commitments
		m := pickMarket()
		if len(view.commits) > 0 && r.Intn(8) != 0 {
			m = view.commits[r.Intn(len(view.commits))].market
		}
		cs := commitsOf(m)
		var entries []exchange.AccountAmount
		if len(cs) > 0 {
			perm := r.Perm(len(cs))
			n := 1 + r.Intn(2)
			if n > len(cs) {
				n = len(cs)
			}
			for _, i := range perm[:n] {
				c := cs[i]
				switch r.Intn(6) {
				case 0, 1:
					entries = append(entries, exchange.AccountAmount{Account: c.acct}) // everything
				case 2:
					entries = append(entries, exchange.AccountAmount{Account: c.acct, Amount: c.amount.Add(sdk.NewInt64Coin(c.amount[0].Denom, 1))}) // too much
				case 3:
					entries = append(entries, exchange.AccountAmount{Account: c.acct, Amount: c.amount}) // exactly everything
				default:
					entries = append(entries, exchange.AccountAmount{Account: c.acct, Amount: partOf(c.amount)})
				}
			}
			if r.Intn(8) == 0 { // the same account twice
				entries = append(entries, exchange.AccountAmount{Account: entries[0].Account, Amount: partOf(cs[perm[0]].amount)})
			}
		} else {
			entries = []exchange.AccountAmount{{Account: pickOwner().String()}}
		}
		msg := &exchange.MsgMarketReleaseCommitmentsRequest{Admin: e.admin.String(), MarketId: m, ToRelease: entries}
		return fmt.Sprintf("CRelease %d %s", m, e.entriesTerm(entries)), fmt.Sprintf("release m=%d %d entries", m, len(entries)), func() error { return e.handle(ctx, msg) }
	default: // settle commitments: funds move between accounts and stay committed
		if len(view.commits) == 0 {
			return "", "", nil
		}
		m := view.commits[r.Intn(len(view.commits))].market
		cs := commitsOf(m)
		a := cs[r.Intn(len(cs))]
		var inputs, outputs, fees []exchange.AccountAmount
		inA := partOf(a.amount)
		inputs = append(inputs, exchange.AccountAmount{Account: a.acct, Amount: inA})
		if len(cs) > 1 && r.Intn(3) != 0 {
			b := cs[r.Intn(len(cs))]
			if b.acct != a.acct {
				inB := partOf(b.amount)
				inputs = append(inputs, exchange.AccountAmount{Account: b.acct, Amount: inB})
				outputs = append(outputs, exchange.AccountAmount{Account: b.acct, Amount: inA}, exchange.AccountAmount{Account: a.acct, Amount: inB})
			}
		}
		if len(outputs) == 0 {
			to := pickOwner()
			for to.String() == a.acct {
				to = pickOwner()
			}
			outputs = append(outputs, exchange.AccountAmount{Account: to.String(), Amount: inA})
		}
		if r.Intn(2) == 0 {
			left, neg := a.amount.SafeSub(inA...)
			if !neg && !left.IsZero() {
				fees = append(fees, exchange.AccountAmount{Account: a.acct, Amount: partOf(left)})
			} else if r.Intn(3) == 0 {
				fees = append(fees, exchange.AccountAmount{Account: a.acct, Amount: sdk.NewCoins(sdk.NewInt64Coin(a.amount[0].Denom, 1))}) // not committed
			}
		}
		if r.Intn(15) == 0 {
			outputs[0].Amount = outputs[0].Amount.Add(sdk.NewInt64Coin(outputs[0].Amount[0].Denom, 1)) // totals differ
		}
		msg := &exchange.MsgMarketCommitmentSettleRequest{Admin: e.admin.String(), MarketId: m, Inputs: inputs, Outputs: outputs, Fees: fees}
		return fmt.Sprintf("CSettle %d %s %s %s", m, e.entriesTerm(inputs), e.entriesTerm(outputs), e.entriesTerm(fees)), fmt.Sprintf("commit-settle m=%d %d in %d out %d fees", m, len(inputs), len(outputs), len(fees)), func() error { return e.handle(ctx, msg) }
	}
}

// ---- genesis import ----

// c13GenesisCases: InitGenesis of a random exchange genesis state on the empty store (after
// GenesisState.Validate), then a short history from the imported state with the same observations
// and paging sessions as any other history.  The genesis carries orders under arbitrary ids (with
// gaps, not in id order) on upper-case / long / sibling denoms, commitments given in several
// entries, payments and owners in both address spellings; some are malformed on purpose (an order
// id above LastOrderId, an unknown market, an external id carried twice in one market, one payment
// under both spellings of its source).
func c13GenesisCases(t *testing.T, e *c13Env, baseCtx sdk.Context) {
	r, w := e.r, e.w
	n := scale(8, 60)
	for gi := 0; gi < n; gi++ {
		ctx, _ := baseCtx.CacheContext()
		e.pickAssets()
		e.freed, e.forced, e.markets, e.nameCtr, e.x100Mkt = nil, nil, nil, 0, 0
		pickOwner := func() sdk.AccAddress { return e.owners[r.Intn(len(e.owners))] }
		gs := &exchange.GenesisState{Params: exchange.DefaultParams()}
		holds := map[string]sdk.Coins{}
		addHold := func(bech string, amt sdk.Coins) { holds[c13Canon(bech)] = holds[c13Canon(bech)].Add(amt...) }
		// markets
		nm := 2 + r.Intn(2)
		var mk, names []string
		var mids []uint32
		mperm := r.Perm(8)[:nm]
		sort.Ints(mperm) // the name tags are compared with the (ascending) market listing
		for _, i := range mperm {
			id := uint32(i + 1)
			acc := r.Intn(4) != 0
			tag := e.nameCtr
			e.nameCtr++
			gs.Markets = append(gs.Markets, exchange.Market{MarketId: id, MarketDetails: exchange.MarketDetails{Name: fmt.Sprintf("c13-%d", tag)},
				AcceptingOrders: true, AllowUserSettlement: true, AcceptingCommitments: acc,
				AccessGrants: []exchange.AccessGrant{{Address: e.admin.String(), Permissions: exchange.AllPermissions()}}})
			mids = append(mids, id)
			mk = append(mk, fmt.Sprintf("(%d, %s)", id, coqBool(acc)))
			names = append(names, fmt.Sprintf("(%d, %d)", id, tag))
		}
		gs.LastMarketId = uint32(r.Intn(10))
		// orders
		no := r.Intn(9)
		var os []string
		maxOrder := uint64(0)
		for _, i := range r.Perm(40)[:no] {
			id := uint64(i + 1)
			o := c13Order{id: id, bid: r.Intn(2) == 0, market: mids[r.Intn(len(mids))], owner: pickOwner().String(), asset: e.pickAsset(), amount: int64(r.Intn(12) + 1),
				price: c13PriceDenoms[r.Intn(len(c13PriceDenoms))]}
			if r.Intn(10) < 5 {
				o.ext = fmt.Sprintf("%s-%d", c13ExtPool[r.Intn(len(c13ExtPool))], id) // unique
				if r.Intn(12) == 0 {
					o.ext = "x" // may be carried twice in one market: InitGenesis panics
				}
				if r.Intn(6) == 0 {
					o.ext = c13MBLegal[6+r.Intn(5)][:90] + fmt.Sprint(id) // multi-byte (cut anywhere), unique
				}
				if r.Intn(30) == 0 {
					o.ext = c13MBOver[r.Intn(len(c13MBOver))] // Validate refuses
				}
			}
			if r.Intn(40) == 0 {
				o.market = 9 // may be unknown
			}
			assets := sdk.Coin{Denom: o.asset, Amount: sdkmath.NewInt(o.amount)}
			price := sdk.NewInt64Coin(o.price, o.amount*3)
			e.countDenom(o.asset, o.price)
			ord := exchange.NewOrder(id)
			if o.bid {
				ord = ord.WithBid(&exchange.BidOrder{MarketId: o.market, Buyer: e.respell(o.owner), Assets: assets, Price: price, AllowPartial: true, ExternalId: o.ext})
			} else {
				ord = ord.WithAsk(&exchange.AskOrder{MarketId: o.market, Seller: e.respell(o.owner), Assets: assets, Price: price, AllowPartial: true, ExternalId: o.ext})
			}
			gs.Orders = append(gs.Orders, *ord)
			addHold(o.owner, ord.GetHoldAmount())
			os = append(os, fmt.Sprintf("(%d, %s)", id, e.orderTerm(o)))
			if id > maxOrder {
				maxOrder = id
			}
		}
		gs.LastOrderId = maxOrder + uint64(r.Intn(4))
		if maxOrder > 0 && r.Intn(12) == 0 {
			gs.LastOrderId = maxOrder - 1
		}
		// commitments
		var cs []string
		var lastCom *exchange.Commitment
		for i, nc := 0, r.Intn(5); i < nc; i++ {
			c := exchange.Commitment{MarketId: mids[r.Intn(len(mids))], Account: pickOwner().String(), Amount: sdk.NewCoins(sdk.NewInt64Coin(e.pickAsset(), int64(1+r.Intn(9))))}
			if r.Intn(3) == 0 {
				c.Amount = c.Amount.Add(sdk.NewInt64Coin(e.assets[3+r.Intn(2)], int64(1+r.Intn(5))))
			}
			if lastCom != nil && r.Intn(3) == 0 { // a second entry of the same market and account
				c.MarketId, c.Account = lastCom.MarketId, lastCom.Account
			}
			cc := c
			lastCom = &cc
			addHold(c.Account, c.Amount)
			cs = append(cs, fmt.Sprintf("(%d, %s, %s)", c.MarketId, e.addrVar(c.Account), e.coinsTerm(c.Amount)))
			c.Account = e.respell(c.Account)
			gs.Commitments = append(gs.Commitments, c)
		}
		// payments
		var ps []string
		usedPay := map[string]bool{}
		for i, np := 0, r.Intn(6); i < np; i++ {
			src := pickOwner()
			p := c13Pay{src: src.String(), srcUp: r.Intn(3) == 0, amount: int64(1 + r.Intn(5))}
			if r.Intn(3) != 0 {
				p.ext = c13ExtPool[r.Intn(len(c13ExtPool))]
			}
			if usedPay[p.src+" "+p.ext] {
				continue
			}
			usedPay[p.src+" "+p.ext] = true
			if r.Intn(4) != 0 {
				for {
					tg := pickOwner()
					if !tg.Equals(src) {
						p.tgt, p.tgtUp = tg.String(), r.Intn(2) == 0
						break
					}
				}
			}
			add := func(p c13Pay) {
				amt := sdk.NewCoins(sdk.NewInt64Coin("bbb", p.amount))
				gs.Payments = append(gs.Payments, exchange.Payment{Source: p.srcStr(), SourceAmount: amt, Target: p.tgtStr(), ExternalId: p.ext})
				addHold(p.src, amt)
				ps = append(ps, e.payTerm(p))
				if p.srcUp || p.tgtUp {
					w.Count("payments_created_with_upper_case_address")
				}
			}
			add(p)
			if r.Intn(14) == 0 { // the same payment under the other spelling of its source
				p.srcUp = !p.srcUp
				add(p)
				w.Count("genesis_payment_under_both_source_spellings")
			}
		}
		for _, a := range e.owners {
			if amt := holds[a.String()]; !amt.IsZero() {
				if err := e.hold(ctx, a, amt); err != nil {
					t.Fatalf("placing the genesis holds: %v", err)
				}
			}
		}
		err := e.initGen(ctx, gs)
		ok := err == nil
		w.Count("genesis_imports")
		var steps, descOps []string
		var view c13View
		accepted := 0
		if ok {
			w.Count("genesis_imports_accepted")
			e.markets = append([]uint32{}, mids[:2]...)
			e.forced = []string{"observe-only"}
			if gi%2 == 0 {
				e.forced = append(e.forced, "pay-up-target", "pay-respell")
			}
			steps, descOps, view, accepted = e.runSteps(ctx, 8+r.Intn(5), gi%3 == 0, c13View{}, gs.LastOrderId)
		} else {
			msg := err.Error()
			if len(msg) > 200 {
				msg = msg[:200]
			}
			descOps = []string{"genesis refused: " + msg}
		}
		j := func(l []string) string { return "[" + strings.Join(l, "; ") + "]" }
		gterm := fmt.Sprintf("(G %s %d\n  %s %d\n  %s\n  %s)", j(mk), gs.LastMarketId, j(os), gs.LastOrderId, j(cs), j(ps))
		term := "(" + e.lets() + "CGen " + gterm + " " + j(names) + " " + coqBool(ok) + " [\n  " + strings.Join(steps, ";\n  ") + "])%N"
		w.Add(term, map[string]any{"genesis": gi, "accepted": ok, "markets": len(gs.Markets), "orders": len(gs.Orders), "commitments": len(gs.Commitments),
			"payments": len(gs.Payments), "last_order_id": gs.LastOrderId, "steps": descOps, "open_orders_at_end": len(view.orders)})
		if ok && len(gs.Orders)+len(gs.Payments)+len(gs.Commitments) > 0 {
			w.Nontrivial(fmt.Sprintf("genesis|%d|%d|%d|%s", len(gs.Orders), len(gs.Payments), len(gs.Commitments), strings.Join(descOps, "|")))
		}
		_ = accepted
	}
}

func c13Short(s string) string {
	if len(s) > 8 {
		return fmt.Sprintf("%s..(%d)", s[:3], len(s))
	}
	return s
}

var _ = bytes.Equal
var _ = sort.Strings
