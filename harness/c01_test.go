//go:build c01

package harness

import (
	"errors"
	"fmt"
	"math/big"
	"math/rand"
	"sort"
	"strings"
	"testing"

	sdkmath "cosmossdk.io/math"
	sdk "github.com/cosmos/cosmos-sdk/types"
	banktypes "github.com/cosmos/cosmos-sdk/x/bank/types"

	"github.com/provenance-io/provenance/x/exchange"
)

// Property C01: order settlement moves exactly the agreed assets, price and fees.
// Two streams: (a) pure: exchange.BuildSettlement / Order.Split on constructively generated
// order lists; (b) stateful: real keepers through the message router.

// ---------- interned denoms and addresses ----------

// Lexical order of the denoms equals the order of their ids, so sdk.Coins sorting is id sorting.
var c01Denoms = []string{"aacoin", "bbcoin", "cccoin", "ddcoin", "eecoin"}

const (
	c01MarketAddrID = 100
	c01FeeColAddrID = 101
	c01AdminAddrN   = 90
)

func c01DenomID(d string) int {
	for i, s := range c01Denoms {
		if s == d {
			return i + 1
		}
	}
	panic("unknown denom " + d)
}

func c01Owner(i int) sdk.AccAddress { return addrN(10 + i) } // owner id i (1-based)

// Accounts are identified by their BYTES: the same account may be spelled in lower- and in
// upper-case bech32 in messages and stored orders.
type c01Intern struct{ addrs map[string]int }

func newC01Intern(nOwners int) *c01Intern {
	in := &c01Intern{addrs: map[string]int{}}
	for i := 1; i <= nOwners; i++ {
		in.addrs[string(c01Owner(i))] = i
	}
	return in
}

func (in *c01Intern) set(a sdk.AccAddress, id int) { in.addrs[string(a)] = id }

func (in *c01Intern) addr(a string) int {
	bz, err := sdk.AccAddressFromBech32(a)
	if err != nil {
		panic("bad address " + a + ": " + err.Error())
	}
	if id, ok := in.addrs[string(bz)]; ok {
		return id
	}
	panic("unknown address " + a)
}

// ---------- model-side order representation ----------

type mCoin struct {
	d int // denom id (1-based)
	a *big.Int
}

type mOrder struct {
	id      uint64
	ask     bool
	owner   int
	ad, pd  int
	assets  *big.Int
	price   *big.Int
	fees    []mCoin
	partial bool
	// multi-market stream: the owner's address as spelled in the message, and the market
	ownerStr string
	market   uint32
}

type mRatio struct {
	pd, fd int
	p, f   *big.Int
}

func sortCoins(cs []mCoin) []mCoin {
	sort.Slice(cs, func(i, j int) bool { return cs[i].d < cs[j].d })
	return cs
}

func sdkCoin(c mCoin) sdk.Coin {
	return sdk.Coin{Denom: c01Denoms[c.d-1], Amount: sdkmath.NewIntFromBigInt(c.a)}
}

func (o mOrder) toOrder() *exchange.Order {
	assets := sdkCoin(mCoin{o.ad, o.assets})
	price := sdkCoin(mCoin{o.pd, o.price})
	ord := exchange.NewOrder(o.id)
	owner, market := o.ownerStr, o.market
	if owner == "" {
		owner = c01Owner(o.owner).String()
	}
	if market == 0 {
		market = 1
	}
	if o.ask {
		ao := &exchange.AskOrder{MarketId: market, Seller: owner, Assets: assets, Price: price, AllowPartial: o.partial}
		if len(o.fees) > 0 {
			c := sdkCoin(o.fees[0])
			ao.SellerSettlementFlatFee = &c
		}
		return ord.WithAsk(ao)
	}
	bo := &exchange.BidOrder{MarketId: market, Buyer: owner, Assets: assets, Price: price, AllowPartial: o.partial}
	for _, c := range sortCoins(o.fees) {
		bo.BuyerSettlementFees = append(bo.BuyerSettlementFees, sdkCoin(c))
	}
	return ord.WithBid(bo)
}

// ---------- Coq terms ----------

func coqCoins(cs sdk.Coins) string {
	items := make([]string, 0, len(cs))
	type kv struct {
		d int
		s string
	}
	var l []kv
	for _, c := range cs {
		l = append(l, kv{c01DenomID(c.Denom), zInt(c.Amount)})
	}
	sort.Slice(l, func(i, j int) bool { return l[i].d < l[j].d })
	for _, e := range l {
		items = append(items, fmt.Sprintf("(%d, %s)", e.d, e.s))
	}
	return coqList(items)
}

func coqOrder(in *c01Intern, o *exchange.Order) string {
	ask := o.IsAskOrder()
	return fmt.Sprintf("(Od %d %s %d %d %s %d %s %s %s)", o.OrderId, coqBool(ask), in.addr(o.GetOwner()),
		c01DenomID(o.GetAssets().Denom), zInt(o.GetAssets().Amount), c01DenomID(o.GetPrice().Denom), zInt(o.GetPrice().Amount),
		coqCoins(o.GetSettlementFees()), coqBool(o.PartialFillAllowed()))
}

func coqOrders(in *c01Intern, os []*exchange.Order) string {
	items := make([]string, len(os))
	for i, o := range os {
		items[i] = coqOrder(in, o)
	}
	return coqList(items)
}

func coqInputs(in *c01Intern, ins []banktypes.Input) string {
	items := make([]string, len(ins))
	for i, x := range ins {
		items[i] = fmt.Sprintf("(%d, %s)", in.addr(x.Address), coqCoins(x.Coins))
	}
	return coqList(items)
}

func coqOutputs(in *c01Intern, outs []banktypes.Output) string {
	items := make([]string, len(outs))
	for i, x := range outs {
		items[i] = fmt.Sprintf("(%d, %s)", in.addr(x.Address), coqCoins(x.Coins))
	}
	return coqList(items)
}

func coqFilled(in *c01Intern, f *exchange.FilledOrder) string {
	return fmt.Sprintf("(F %s %s %s)", coqOrder(in, f.GetOriginalOrder()), zInt(f.GetPrice().Amount), coqCoins(f.GetSettlementFees()))
}

func coqSettlement(in *c01Intern, s *exchange.Settlement) string {
	ts := make([]string, len(s.Transfers))
	for i, t := range s.Transfers {
		ts[i] = fmt.Sprintf("(T %s %s)", coqInputs(in, t.Inputs), coqOutputs(in, t.Outputs))
	}
	fs := make([]string, len(s.FullyFilledOrders))
	for i, f := range s.FullyFilledOrders {
		fs[i] = coqFilled(in, f)
	}
	part, left := "None", "None"
	if s.PartialOrderFilled != nil {
		part = "(Some " + coqFilled(in, s.PartialOrderFilled) + ")"
	}
	if s.PartialOrderLeft != nil {
		left = "(Some " + coqOrder(in, s.PartialOrderLeft) + ")"
	}
	return fmt.Sprintf("(Stl %s %s %s %s %s)", coqList(ts), coqInputs(in, s.FeeInputs), coqList(fs), part, left)
}

func coqRatio(r *mRatio) string {
	return fmt.Sprintf("(%d, %s, %d, %s)", r.pd, zBig(r.p), r.fd, zBig(r.f))
}

// ---------- generator ----------

type c01Gen struct {
	r       *rand.Rand
	pool    []*big.Int
	w       *CaseWriter
	feeBits int
	forceOwners int
	pend    [][]*c01Pending // per stream, interleaved when flushed so that the shards are balanced
}

func (g *c01Gen) emit(stream int, term string, desc map[string]any, key string) {
	for len(g.pend) <= stream {
		g.pend = append(g.pend, nil)
	}
	g.pend[stream] = append(g.pend[stream], &c01Pending{term: term, desc: desc, key: key})
}

// flushInterleaved hands the cases to the writer round-robin over the streams (a history costs
// ~100x a pure case in the evaluator; interleaving spreads them evenly over the shards).
func (g *c01Gen) flushInterleaved() {
	type slot struct {
		key float64
		p   *c01Pending
	}
	var all []slot
	for _, l := range g.pend {
		for j, p := range l {
			all = append(all, slot{(float64(j) + 0.5) / float64(len(l)), p})
		}
	}
	sort.SliceStable(all, func(i, j int) bool { return all[i].key < all[j].key })
	for _, s := range all {
		g.w.Add(s.p.term, s.p.desc)
		if s.p.key != "" {
			g.w.Nontrivial(s.p.key)
		}
	}
}

func (g *c01Gen) amount(maxBits int) *big.Int {
	a := randAmount(g.r, g.pool)
	if a.BitLen() > maxBits {
		a.Rsh(a, uint(a.BitLen()-maxBits+g.r.Intn(8)))
	}
	if a.Sign() <= 0 {
		a.SetInt64(1)
	}
	return a
}

func (g *c01Gen) small(n int64) *big.Int { return big.NewInt(g.r.Int63n(n) + 1) }

func bigSum(l []*big.Int) *big.Int {
	s := new(big.Int)
	for _, x := range l {
		s.Add(s, x)
	}
	return s
}

func mulB(a, b *big.Int) *big.Int { return new(big.Int).Mul(a, b) }
func addB(a, b *big.Int) *big.Int { return new(big.Int).Add(a, b) }
func subB(a, b *big.Int) *big.Int { return new(big.Int).Sub(a, b) }

// compose splits total (>= n) into n positive parts.
func (g *c01Gen) compose(total *big.Int, n int) []*big.Int {
	parts := make([]*big.Int, n)
	rem := new(big.Int).Set(total)
	for i := 0; i < n-1; i++ {
		// leave at least 1 for each remaining part
		room := subB(rem, big.NewInt(int64(n-1-i)))
		var p *big.Int
		switch g.r.Intn(3) {
		case 0:
			p = big.NewInt(1)
		case 1:
			p = new(big.Int).Quo(room, big.NewInt(int64(n-i)))
		default:
			p = new(big.Int).Rand(g.r, room)
		}
		if p.Sign() <= 0 {
			p = big.NewInt(1)
		}
		if p.Cmp(room) > 0 {
			p = room
		}
		parts[i] = p
		rem = subB(rem, p)
	}
	parts[n-1] = rem
	return parts
}

type c01Plan struct {
	asks, bids  []mOrder
	ratio       *mRatio
	lookupErr   bool
	partialSide int // 0 none, 1 last ask, 2 last bid
	even        bool
	perturbed   string
}

type planOpts struct {
	nOwners  int
	maxBits  int
	maxN     int
	ad, pd   int
	ratio    *mRatio // fixed ratio (stateful stream) or nil to draw one
	drawR    bool
	flatAsk  *mCoin // required seller flat option (stateful) or nil
	flatBid  *mCoin
	feeBits  int
	distinct bool // buyers and sellers disjoint? (false: owners reused across sides)
	// fee builders of a market (multi-market stream): settlement fees an order of the given size
	// must carry to be admitted; proportional = every amount a multiple of the assets
	askFees func(assets, price *big.Int, proportional bool) []mCoin
	bidFees func(assets, price *big.Int, proportional bool) []mCoin
	owner   func() int
}

func (g *c01Gen) plan(o planOpts) c01Plan {
	r := g.r
	nA, nB := 1+r.Intn(o.maxN), 1+r.Intn(o.maxN)
	var p c01Plan
	a := make([]*big.Int, nA)
	for i := range a {
		a[i] = g.amount(o.maxBits)
	}
	S := bigSum(a)
	if S.Cmp(big.NewInt(int64(nB))) < 0 {
		a[0] = addB(a[0], big.NewInt(int64(nB)))
		S = bigSum(a)
	}
	b := g.compose(S, nB)
	p.partialSide = r.Intn(3)
	p.even = r.Intn(10) < 7
	extra := g.amount(o.maxBits)

	// ask prices: a unit price per asset (so proportional splits are exact) or arbitrary
	askAssets := make([]*big.Int, nA)
	askPrice := make([]*big.Int, nA)
	askFilledPrice := make([]*big.Int, nA)
	for i := range a {
		askAssets[i] = a[i]
		if r.Intn(2) == 0 {
			askPrice[i] = mulB(a[i], g.small(50))
		} else {
			askPrice[i] = g.amount(o.maxBits)
		}
		askFilledPrice[i] = askPrice[i]
	}
	unitA := g.small(50)
	if p.partialSide == 1 {
		l := nA - 1
		askAssets[l] = addB(a[l], extra)
		if p.even {
			askPrice[l] = mulB(askAssets[l], unitA)
			askFilledPrice[l] = mulB(a[l], unitA)
		} else {
			askPrice[l] = g.amount(o.maxBits)
			askFilledPrice[l] = new(big.Int).Quo(mulB(askPrice[l], a[l]), askAssets[l])
		}
	}
	PA := bigSum(askFilledPrice)
	var surplus *big.Int
	switch r.Intn(20) {
	case 0, 1, 2, 3, 4, 5, 6:
		surplus = big.NewInt(0)
	case 7, 8, 9, 10, 11:
		surplus = big.NewInt(r.Int63n(int64(2*nA)) + 1)
	default:
		surplus = g.amount(o.maxBits)
	}
	PB := addB(PA, surplus)
	bidAssets := make([]*big.Int, nB)
	bidPrice := make([]*big.Int, nB)
	copy(bidAssets, b)
	unitB := g.small(50)
	if p.partialSide == 2 {
		l := nB - 1
		bidAssets[l] = addB(b[l], extra)
		var filledLast *big.Int
		if nB == 1 {
			// the only bid must cover the whole ask price with its filled part
			u := new(big.Int).Quo(addB(PB, subB(b[l], big.NewInt(1))), b[l])
			if u.Sign() == 0 {
				u.SetInt64(1)
			}
			unitB = u
		}
		if p.even {
			bidPrice[l] = mulB(bidAssets[l], unitB)
			filledLast = mulB(b[l], unitB)
		} else {
			bidPrice[l] = addB(mulB(bidAssets[l], unitB), g.small(5))
			filledLast = mulB(b[l], unitB)
		}
		if nB > 1 {
			rest := subB(PB, filledLast)
			if rest.Cmp(big.NewInt(int64(nB-1))) < 0 {
				rest = big.NewInt(int64(nB - 1))
			}
			parts := g.compose(rest, nB-1)
			copy(bidPrice, parts)
		}
	} else {
		if PB.Cmp(big.NewInt(int64(nB))) < 0 {
			PB = big.NewInt(int64(nB))
		}
		copy(bidPrice, g.compose(PB, nB))
	}

	feeAmt := func(assets *big.Int, proportional bool) *big.Int {
		if proportional {
			return mulB(assets, g.small(9))
		}
		return g.amount(o.feeBits)
	}
	owner := func() int { return 1 + r.Intn(o.nOwners) }
	if o.owner != nil {
		owner = o.owner
	}
	for i := 0; i < nA; i++ {
		ord := mOrder{ask: true, owner: owner(), ad: o.ad, pd: o.pd, assets: askAssets[i], price: askPrice[i], partial: r.Intn(2) == 0}
		last := p.partialSide == 1 && i == nA-1
		if last {
			ord.partial = true
		}
		if o.askFees != nil {
			ord.fees = o.askFees(ord.assets, ord.price, last && p.even)
		} else if o.flatAsk != nil {
			ord.fees = []mCoin{{o.flatAsk.d, addB(o.flatAsk.a, feeAmt(ord.assets, last && p.even))}}
			if last && p.even {
				ord.fees[0].a = mulB(ord.assets, addB(o.flatAsk.a, g.small(3)))
			}
		} else if r.Intn(2) == 0 {
			ord.fees = []mCoin{{1 + r.Intn(len(c01Denoms)), feeAmt(ord.assets, last && p.even)}}
		}
		p.asks = append(p.asks, ord)
	}
	for i := 0; i < nB; i++ {
		ord := mOrder{ask: false, owner: owner(), ad: o.ad, pd: o.pd, assets: bidAssets[i], price: bidPrice[i], partial: r.Intn(2) == 0}
		last := p.partialSide == 2 && i == nB-1
		if last {
			ord.partial = true
		}
		nf := r.Intn(3)
		used := map[int]bool{}
		if o.bidFees != nil {
			ord.fees = o.bidFees(ord.assets, ord.price, last && p.even)
			nf = 0
		} else if o.flatBid != nil {
			amt := addB(o.flatBid.a, feeAmt(ord.assets, last && p.even))
			if last && p.even {
				amt = mulB(ord.assets, addB(o.flatBid.a, g.small(3)))
			}
			ord.fees = append(ord.fees, mCoin{o.flatBid.d, amt})
			used[o.flatBid.d] = true
		}
		for k := 0; k < nf; k++ {
			d := 1 + r.Intn(len(c01Denoms))
			if used[d] {
				continue
			}
			used[d] = true
			ord.fees = append(ord.fees, mCoin{d, feeAmt(ord.assets, last && p.even)})
		}
		sortCoins(ord.fees)
		p.bids = append(p.bids, ord)
	}
	if o.ratio != nil {
		p.ratio = o.ratio
	} else if o.drawR && r.Intn(10) < 6 {
		var rp *big.Int
		switch r.Intn(6) {
		case 0:
			rp = big.NewInt([]int64{1, 2, 3, 7, 100, 1000, 10000}[r.Intn(7)])
		case 1:
			rp = g.amount(30)
		default:
			rp = big.NewInt(r.Int63n(5000) + 1)
		}
		rf := new(big.Int).Rand(r, addB(rp, big.NewInt(1)))
		fd := o.pd
		if r.Intn(10) == 0 {
			fd = 1 + r.Intn(len(c01Denoms))
		}
		p.ratio = &mRatio{pd: o.pd, fd: fd, p: rp, f: rf}
	}
	return p
}

// perturb applies one mutation to a plan that would otherwise settle.
func (g *c01Gen) perturb(p *c01Plan) {
	r := g.r
	pick := func(l []mOrder) *mOrder { return &l[r.Intn(len(l))] }
	side := func() []mOrder {
		if r.Intn(2) == 0 {
			return p.asks
		}
		return p.bids
	}
	switch r.Intn(11) {
	case 0:
		o := pick(side())
		o.assets = addB(o.assets, big.NewInt(1))
		p.perturbed = "assets+1"
	case 1:
		l := side()
		l[len(l)-1].partial = !l[len(l)-1].partial
		p.perturbed = "flip-partial-last"
	case 2:
		l := side()
		if len(l) > 1 {
			i := r.Intn(len(l) - 1)
			l[i], l[len(l)-1] = l[len(l)-1], l[i]
		}
		p.perturbed = "swap-last"
	case 3:
		o := pick(p.bids)
		if o.price.Cmp(big.NewInt(1)) > 0 {
			o.price = subB(o.price, big.NewInt(1))
		}
		p.perturbed = "bid-price-1"
	case 4:
		o := pick(side())
		o.ad = o.ad%len(c01Denoms) + 1
		if o.ad == o.pd {
			o.ad = o.ad%len(c01Denoms) + 1
		}
		p.perturbed = "asset-denom"
	case 5:
		if r.Intn(2) == 0 {
			p.asks = append(p.asks, p.bids[len(p.bids)-1])
		} else {
			p.bids = append(p.bids, p.asks[len(p.asks)-1])
		}
		p.perturbed = "wrong-side"
	case 6:
		o := pick(side())
		if len(o.fees) > 0 {
			o.fees[0].a = addB(o.fees[0].a, big.NewInt(1))
		} else {
			o.price = addB(o.price, big.NewInt(1))
		}
		p.perturbed = "fee+1"
	case 7:
		if r.Intn(2) == 0 {
			p.bids = nil
		} else {
			p.asks = nil
		}
		p.perturbed = "empty-side"
	case 8:
		maxLen := 0
		for _, l := range [][]mOrder{p.asks, p.bids} {
			for i := range l {
				if n := l[i].assets.BitLen(); n > maxLen {
					maxLen = n
				}
				if n := l[i].price.BitLen(); n > maxLen {
					maxLen = n
				}
			}
		}
		room := 250 - maxLen
		if room < 1 {
			room = 1
		}
		sh := uint(room - r.Intn(room/2+1))
		for _, l := range [][]mOrder{p.asks, p.bids} {
			for i := range l {
				l[i].assets = new(big.Int).Lsh(l[i].assets, sh)
				l[i].price = new(big.Int).Lsh(l[i].price, sh)
			}
		}
		p.perturbed = "huge"
	case 9:
		o := pick(side())
		o.pd = o.pd%len(c01Denoms) + 1
		if o.ad == o.pd {
			o.pd = o.pd%len(c01Denoms) + 1
		}
		p.perturbed = "price-denom"
	default:
		o := pick(p.asks)
		o.price = addB(o.price, g.amount(40))
		p.perturbed = "ask-price-up"
	}
}

func bigOver64(xs ...*big.Int) bool {
	for _, x := range xs {
		if x != nil && x.BitLen() > 64 {
			return true
		}
	}
	return false
}

// ---------- pure stream ----------

func (g *c01Gen) pureBuild(idx int) {
	r := g.r
	w := g.w
	nOwners := 2 + r.Intn(4)
	in := newC01Intern(5)
	ad := 1 + r.Intn(len(c01Denoms))
	pd := ad%len(c01Denoms) + 1
	if r.Intn(2) == 0 {
		pd = (ad+1)%len(c01Denoms) + 1
	}
	maxBits := []int{16, 40, 63, 70, 100, 128}[r.Intn(6)]
	p := g.plan(planOpts{nOwners: nOwners, maxBits: maxBits, maxN: 6, ad: ad, pd: pd, drawR: true, feeBits: 40})
	if r.Intn(100) < 22 {
		g.perturb(&p)
	}
	switch r.Intn(40) {
	case 0:
		p.lookupErr = true
	case 1:
		if p.ratio != nil {
			p.ratio = &mRatio{pd: p.ratio.pd%len(c01Denoms) + 1, fd: p.ratio.fd, p: p.ratio.p, f: p.ratio.f}
		}
	case 2:
		if p.ratio != nil {
			p.ratio = &mRatio{pd: p.ratio.pd, fd: p.ratio.fd, p: big.NewInt(0), f: p.ratio.f}
		}
	}
	id := uint64(1)
	var asks, bids []*exchange.Order
	over64 := false
	for i := range p.asks {
		p.asks[i].id = id
		id++
		asks = append(asks, p.asks[i].toOrder())
		over64 = over64 || bigOver64(p.asks[i].assets, p.asks[i].price)
	}
	for i := range p.bids {
		p.bids[i].id = id
		id++
		bids = append(bids, p.bids[i].toOrder())
		over64 = over64 || bigOver64(p.bids[i].assets, p.bids[i].price)
	}
	lookupTerm := "(Ok None)"
	lookup := func(denom string) (*exchange.FeeRatio, error) { return nil, nil }
	if p.lookupErr {
		lookupTerm = "Err"
		lookup = func(denom string) (*exchange.FeeRatio, error) { return nil, errors.New("injected lookup error") }
	} else if p.ratio != nil {
		lookupTerm = "(Ok (Some (R " + coqRatio(p.ratio) + ")))"
		fr := &exchange.FeeRatio{Price: sdkCoin(mCoin{p.ratio.pd, p.ratio.p}), Fee: sdkCoin(mCoin{p.ratio.fd, p.ratio.f})}
		lookup = func(denom string) (*exchange.FeeRatio, error) { return fr, nil }
	}
	// terms of the inputs are rendered before the call (BuildSettlement does not mutate them,
	// but the observation must not depend on that)
	asksTerm, bidsTerm := coqOrders(in, asks), coqOrders(in, bids)
	var stl *exchange.Settlement
	err := try(func() error {
		var e error
		stl, e = exchange.BuildSettlement(asks, bids, lookup)
		return e
	})
	obs := "None"
	if err == nil {
		obs = "(Some " + coqSettlement(in, stl) + ")"
	}
	term := fmt.Sprintf("CBuild %s %s %s %s", asksTerm, bidsTerm, lookupTerm, obs)
	key := ""
	if err == nil && (len(asks)+len(bids) > 2 || stl.PartialOrderLeft != nil) {
		key = term
	}
	g.emit(0, term, map[string]any{"stream": "pure", "fn": "BuildSettlement", "asks": len(asks), "bids": len(bids), "planned_partial": p.partialSide,
		"even": p.even, "perturbed": p.perturbed, "ratio": p.ratio != nil, "ok": err == nil, "term": term}, key)
	w.Count("build")
	if err == nil {
		w.Count("build_accepted")
		if stl.PartialOrderLeft != nil {
			w.Count("build_accepted_partial")
		}
	} else {
		w.Count("build_rejected")
		if strings.HasPrefix(err.Error(), "panic") {
			w.Count("build_panicked")
		}
	}
	if p.perturbed != "" {
		w.Count("build_perturbed")
	}
	if over64 {
		w.Count("build_amount_above_2^64")
	}
	if p.ratio != nil {
		w.Count("build_with_ratio")
	}
}

func (g *c01Gen) pureSplit() {
	r := g.r
	w := g.w
	in := newC01Intern(5)
	ad := 1 + r.Intn(len(c01Denoms))
	pd := ad%len(c01Denoms) + 1
	maxBits := []int{8, 16, 40, 63, 70, 128, 200}[r.Intn(7)]
	o := mOrder{id: uint64(1 + r.Intn(50)), ask: r.Intn(2) == 0, owner: 1 + r.Intn(5), ad: ad, pd: pd, partial: r.Intn(8) != 0}
	k := g.amount(maxBits)
	mode := r.Intn(20)
	switch {
	case mode < 14: // proportional: everything a multiple of the asset amount's cofactor
		q := g.amount(maxBits / 2)
		m := big.NewInt(r.Int63n(12) + 2)
		o.assets = mulB(q, m)
		o.price = mulB(m, g.amount(maxBits/2))
		k = mulB(q, big.NewInt(r.Int63n(m.Int64()-1)+1))
		nf := r.Intn(3)
		if o.ask && nf > 1 {
			nf = 1
		}
		used := map[int]bool{}
		for i := 0; i < nf; i++ {
			d := 1 + r.Intn(len(c01Denoms))
			if used[d] {
				continue
			}
			used[d] = true
			amt := mulB(m, g.amount(30))
			if r.Intn(6) == 0 {
				amt = addB(amt, big.NewInt(1))
			}
			o.fees = append(o.fees, mCoin{d, amt})
		}
		if r.Intn(8) == 0 {
			o.price = addB(o.price, big.NewInt(1))
		}
	case mode < 17:
		o.assets = g.amount(maxBits)
		o.price = g.amount(maxBits)
		if r.Intn(2) == 0 {
			o.fees = []mCoin{{1 + r.Intn(len(c01Denoms)), g.amount(40)}}
		}
		if o.assets.Cmp(big.NewInt(1)) > 0 {
			k = addB(new(big.Int).Rand(r, subB(o.assets, big.NewInt(1))), big.NewInt(1))
		}
	default: // boundary k: 0, negative, equal, above
		o.assets = g.amount(maxBits)
		o.price = mulB(o.assets, g.small(20))
		switch r.Intn(4) {
		case 0:
			k = big.NewInt(0)
		case 1:
			k = big.NewInt(-int64(r.Intn(5) + 1))
		case 2:
			k = new(big.Int).Set(o.assets)
		default:
			k = addB(o.assets, g.small(5))
		}
	}
	sortCoins(o.fees)
	ord := o.toOrder()
	ordTerm := coqOrder(in, ord)
	var filled, unfilled *exchange.Order
	err := try(func() error {
		var e error
		filled, unfilled, e = ord.Split(sdkmath.NewIntFromBigInt(k))
		return e
	})
	obs := "None"
	if err == nil {
		obs = fmt.Sprintf("(Some (%s, %s))", coqOrder(in, filled), coqOrder(in, unfilled))
	}
	term := fmt.Sprintf("CSplit %s %s %s", ordTerm, zBig(k), obs)
	key := ""
	if err == nil {
		key = term
	}
	g.emit(1, term, map[string]any{"stream": "pure", "fn": "Order.Split", "ok": err == nil, "term": term}, key)
	w.Count("split")
	if err == nil {
		w.Count("split_accepted")
	} else {
		w.Count("split_rejected")
	}
	if bigOver64(o.assets, o.price, k) {
		w.Count("split_amount_above_2^64")
	}
}

// purePerm: BuildSettlement on two orderings of the same orders.
func (g *c01Gen) purePerm() {
	r := g.r
	w := g.w
	in := newC01Intern(5)
	nOwners := 2 + r.Intn(4)
	ad := 1 + r.Intn(len(c01Denoms))
	pd := ad%len(c01Denoms) + 1
	maxBits := []int{8, 16, 40, 63, 70, 128}[r.Intn(6)]
	var p c01Plan
	for tries := 0; tries < 20; tries++ {
		p = g.plan(planOpts{nOwners: nOwners, maxBits: maxBits, maxN: 6, ad: ad, pd: pd, drawR: true, feeBits: 40})
		if p.partialSide == 0 || r.Intn(4) == 0 {
			break
		}
	}
	id := uint64(1)
	var asks, bids []*exchange.Order
	for i := range p.asks {
		p.asks[i].id = id
		id++
		asks = append(asks, p.asks[i].toOrder())
	}
	for i := range p.bids {
		p.bids[i].id = id
		id++
		bids = append(bids, p.bids[i].toOrder())
	}
	lookupTerm := "(Ok None)"
	lookup := func(denom string) (*exchange.FeeRatio, error) { return nil, nil }
	if p.ratio != nil {
		lookupTerm = "(Ok (Some (R " + coqRatio(p.ratio) + ")))"
		fr := &exchange.FeeRatio{Price: sdkCoin(mCoin{p.ratio.pd, p.ratio.p}), Fee: sdkCoin(mCoin{p.ratio.fd, p.ratio.f})}
		lookup = func(denom string) (*exchange.FeeRatio, error) { return fr, nil }
	}
	asks2 := append([]*exchange.Order{}, asks...)
	bids2 := append([]*exchange.Order{}, bids...)
	r.Shuffle(len(asks2), func(i, j int) { asks2[i], asks2[j] = asks2[j], asks2[i] })
	r.Shuffle(len(bids2), func(i, j int) { bids2[i], bids2[j] = bids2[j], bids2[i] })
	run := func(a, b []*exchange.Order) (string, bool, bool) {
		var stl *exchange.Settlement
		err := try(func() error {
			var e error
			stl, e = exchange.BuildSettlement(a, b, lookup)
			return e
		})
		if err != nil {
			return "None", false, false
		}
		return "(Some " + coqSettlement(in, stl) + ")", true, stl.PartialOrderLeft != nil
	}
	t1, t2, t3, t4 := coqOrders(in, asks), coqOrders(in, bids), coqOrders(in, asks2), coqOrders(in, bids2)
	o1, ok1, part1 := run(asks, bids)
	o2, ok2, part2 := run(asks2, bids2)
	term := fmt.Sprintf("CPerm %s %s %s %s %s %s %s", t1, t2, t3, t4, lookupTerm, o1, o2)
	key := ""
	if ok1 && ok2 && len(asks)+len(bids) > 2 {
		key = term
	}
	g.emit(0, term, map[string]any{"stream": "pure", "fn": "BuildSettlement x2 (permuted)", "asks": len(asks), "bids": len(bids), "ok1": ok1, "ok2": ok2, "term": term}, key)
	w.Count("perm")
	switch {
	case ok1 && ok2 && !part1 && !part2:
		w.Count("perm_both_accepted_no_split")
	case ok1 && ok2:
		w.Count("perm_both_accepted_with_split")
	case ok1 != ok2:
		w.Count("perm_acceptance_differs")
	}
}

func TestC01(t *testing.T) {
	r := newRand("C01")
	w := NewCaseWriter("C01", "PV.Corr.C01", "check_all", scale(190, 1000))
	pool := boundaryAmounts()
	// amounts around 2^63 / k and 2^64 / k for the k a fast path of the exchange split might multiply by
	for _, k := range []int64{2, 3, 500, 2500, 3333, 5000, 9999, 10000} {
		for _, e := range []uint{63, 64} {
			q := new(big.Int).Quo(pow2(e), big.NewInt(k))
			pool = append(pool, bigAdd(q, -1), q, bigAdd(q, 1))
		}
	}
	g := &c01Gen{r: r, pool: pool, w: w, feeBits: 40}
	app, base := newApp(t)

	nBuild := scale(1300, 60000)
	nPerm := scale(300, 8000)
	nSplit := scale(500, 20000)
	nHist := scale(420, 4000)
	for i := 0; i < nBuild; i++ {
		g.pureBuild(i)
	}
	for i := 0; i < nPerm; i++ {
		g.purePerm()
	}
	for i := 0; i < nSplit; i++ {
		g.pureSplit()
	}
	for i := 0; i < nHist; i++ {
		g.feeBits = []int{12, 12, 40, 64}[r.Intn(4)]
		if p := g.multiHistory(t, app, base); p != nil {
			g.emit(2, p.term, p.desc, p.key)
		}
	}
	for i := 0; i < scale(12, 60); i++ {
		if p := g.manyPayersHistory(t, app, base); p != nil {
			g.emit(3, p.term, p.desc, p.key)
		}
	}
	g.flushInterleaved()
	w.Flush(t)
}
