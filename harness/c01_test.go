//go:build c01

package harness

import (
	"errors"
	"fmt"
	"math/big"
	"math/rand"
	"sort"
	"strings"
	"testing"

	sdkmath "cosmossdk.io/math"
	sdk "github.com/cosmos/cosmos-sdk/types"
	authtypes "github.com/cosmos/cosmos-sdk/x/auth/types"
	banktypes "github.com/cosmos/cosmos-sdk/x/bank/types"

	simapp "github.com/provenance-io/provenance/app"
	"github.com/provenance-io/provenance/x/exchange"
)

// Property C01: order settlement moves exactly the agreed assets, price and fees.
// Two streams: (a) pure: exchange.BuildSettlement / Order.Split on constructively generated
// order lists; (b) stateful: real keepers through the message router.

// ---------- interned denoms and addresses ----------

// Lexical order of the denoms equals the order of their ids, so sdk.Coins sorting is id sorting.
var c01Denoms = []string{"aacoin", "bbcoin", "cccoin", "ddcoin", "eecoin"}

const (
	c01MarketAddrID = 100
	c01FeeColAddrID = 101
	c01AdminAddrN   = 90
)

func c01DenomID(d string) int {
	for i, s := range c01Denoms {
		if s == d {
			return i + 1
		}
	}
	panic("unknown denom " + d)
}

func c01Owner(i int) sdk.AccAddress { return addrN(10 + i) } // owner id i (1-based)

type c01Intern struct{ addrs map[string]int }

func newC01Intern(nOwners int) *c01Intern {
	in := &c01Intern{addrs: map[string]int{}}
	for i := 1; i <= nOwners; i++ {
		in.addrs[c01Owner(i).String()] = i
	}
	return in
}

func (in *c01Intern) addr(a string) int {
	if id, ok := in.addrs[a]; ok {
		return id
	}
	panic("unknown address " + a)
}

// ---------- model-side order representation ----------

type mCoin struct {
	d int // denom id (1-based)
	a *big.Int
}

type mOrder struct {
	id      uint64
	ask     bool
	owner   int
	ad, pd  int
	assets  *big.Int
	price   *big.Int
	fees    []mCoin
	partial bool
}

type mRatio struct {
	pd, fd int
	p, f   *big.Int
}

func sortCoins(cs []mCoin) []mCoin {
	sort.Slice(cs, func(i, j int) bool { return cs[i].d < cs[j].d })
	return cs
}

func sdkCoin(c mCoin) sdk.Coin {
	return sdk.Coin{Denom: c01Denoms[c.d-1], Amount: sdkmath.NewIntFromBigInt(c.a)}
}

func (o mOrder) toOrder() *exchange.Order {
	assets := sdkCoin(mCoin{o.ad, o.assets})
	price := sdkCoin(mCoin{o.pd, o.price})
	ord := exchange.NewOrder(o.id)
	if o.ask {
		ao := &exchange.AskOrder{MarketId: 1, Seller: c01Owner(o.owner).String(), Assets: assets, Price: price, AllowPartial: o.partial}
		if len(o.fees) > 0 {
			c := sdkCoin(o.fees[0])
			ao.SellerSettlementFlatFee = &c
		}
		return ord.WithAsk(ao)
	}
	bo := &exchange.BidOrder{MarketId: 1, Buyer: c01Owner(o.owner).String(), Assets: assets, Price: price, AllowPartial: o.partial}
	for _, c := range sortCoins(o.fees) {
		bo.BuyerSettlementFees = append(bo.BuyerSettlementFees, sdkCoin(c))
	}
	return ord.WithBid(bo)
}

// ---------- Coq terms ----------

func coqCoins(cs sdk.Coins) string {
	items := make([]string, 0, len(cs))
	type kv struct {
		d int
		s string
	}
	var l []kv
	for _, c := range cs {
		l = append(l, kv{c01DenomID(c.Denom), zInt(c.Amount)})
	}
	sort.Slice(l, func(i, j int) bool { return l[i].d < l[j].d })
	for _, e := range l {
		items = append(items, fmt.Sprintf("(%d, %s)", e.d, e.s))
	}
	return coqList(items)
}

func coqOrder(in *c01Intern, o *exchange.Order) string {
	ask := o.IsAskOrder()
	return fmt.Sprintf("(Od %d %s %d %d %s %d %s %s %s)", o.OrderId, coqBool(ask), in.addr(o.GetOwner()),
		c01DenomID(o.GetAssets().Denom), zInt(o.GetAssets().Amount), c01DenomID(o.GetPrice().Denom), zInt(o.GetPrice().Amount),
		coqCoins(o.GetSettlementFees()), coqBool(o.PartialFillAllowed()))
}

func coqOrders(in *c01Intern, os []*exchange.Order) string {
	items := make([]string, len(os))
	for i, o := range os {
		items[i] = coqOrder(in, o)
	}
	return coqList(items)
}

func coqInputs(in *c01Intern, ins []banktypes.Input) string {
	items := make([]string, len(ins))
	for i, x := range ins {
		items[i] = fmt.Sprintf("(%d, %s)", in.addr(x.Address), coqCoins(x.Coins))
	}
	return coqList(items)
}

func coqOutputs(in *c01Intern, outs []banktypes.Output) string {
	items := make([]string, len(outs))
	for i, x := range outs {
		items[i] = fmt.Sprintf("(%d, %s)", in.addr(x.Address), coqCoins(x.Coins))
	}
	return coqList(items)
}

func coqFilled(in *c01Intern, f *exchange.FilledOrder) string {
	return fmt.Sprintf("(F %s %s %s)", coqOrder(in, f.GetOriginalOrder()), zInt(f.GetPrice().Amount), coqCoins(f.GetSettlementFees()))
}

func coqSettlement(in *c01Intern, s *exchange.Settlement) string {
	ts := make([]string, len(s.Transfers))
	for i, t := range s.Transfers {
		ts[i] = fmt.Sprintf("(T %s %s)", coqInputs(in, t.Inputs), coqOutputs(in, t.Outputs))
	}
	fs := make([]string, len(s.FullyFilledOrders))
	for i, f := range s.FullyFilledOrders {
		fs[i] = coqFilled(in, f)
	}
	part, left := "None", "None"
	if s.PartialOrderFilled != nil {
		part = "(Some " + coqFilled(in, s.PartialOrderFilled) + ")"
	}
	if s.PartialOrderLeft != nil {
		left = "(Some " + coqOrder(in, s.PartialOrderLeft) + ")"
	}
	return fmt.Sprintf("(Stl %s %s %s %s %s)", coqList(ts), coqInputs(in, s.FeeInputs), coqList(fs), part, left)
}

func coqRatio(r *mRatio) string {
	return fmt.Sprintf("(%d, %s, %d, %s)", r.pd, zBig(r.p), r.fd, zBig(r.f))
}

// ---------- generator ----------

type c01Gen struct {
	r    *rand.Rand
	pool []*big.Int
	w    *CaseWriter
}

func (g *c01Gen) amount(maxBits int) *big.Int {
	a := randAmount(g.r, g.pool)
	if a.BitLen() > maxBits {
		a.Rsh(a, uint(a.BitLen()-maxBits+g.r.Intn(8)))
	}
	if a.Sign() <= 0 {
		a.SetInt64(1)
	}
	return a
}

func (g *c01Gen) small(n int64) *big.Int { return big.NewInt(g.r.Int63n(n) + 1) }

func bigSum(l []*big.Int) *big.Int {
	s := new(big.Int)
	for _, x := range l {
		s.Add(s, x)
	}
	return s
}

func mulB(a, b *big.Int) *big.Int { return new(big.Int).Mul(a, b) }
func addB(a, b *big.Int) *big.Int { return new(big.Int).Add(a, b) }
func subB(a, b *big.Int) *big.Int { return new(big.Int).Sub(a, b) }

// compose splits total (>= n) into n positive parts.
func (g *c01Gen) compose(total *big.Int, n int) []*big.Int {
	parts := make([]*big.Int, n)
	rem := new(big.Int).Set(total)
	for i := 0; i < n-1; i++ {
		// leave at least 1 for each remaining part
		room := subB(rem, big.NewInt(int64(n-1-i)))
		var p *big.Int
		switch g.r.Intn(3) {
		case 0:
			p = big.NewInt(1)
		case 1:
			p = new(big.Int).Quo(room, big.NewInt(int64(n-i)))
		default:
			p = new(big.Int).Rand(g.r, room)
		}
		if p.Sign() <= 0 {
			p = big.NewInt(1)
		}
		if p.Cmp(room) > 0 {
			p = room
		}
		parts[i] = p
		rem = subB(rem, p)
	}
	parts[n-1] = rem
	return parts
}

type c01Plan struct {
	asks, bids  []mOrder
	ratio       *mRatio
	lookupErr   bool
	partialSide int // 0 none, 1 last ask, 2 last bid
	even        bool
	perturbed   string
}

type planOpts struct {
	nOwners  int
	maxBits  int
	maxN     int
	ad, pd   int
	ratio    *mRatio // fixed ratio (stateful stream) or nil to draw one
	drawR    bool
	flatAsk  *mCoin // required seller flat option (stateful) or nil
	flatBid  *mCoin
	feeBits  int
	distinct bool // buyers and sellers disjoint? (false: owners reused across sides)
}

func (g *c01Gen) plan(o planOpts) c01Plan {
	r := g.r
	nA, nB := 1+r.Intn(o.maxN), 1+r.Intn(o.maxN)
	var p c01Plan
	a := make([]*big.Int, nA)
	for i := range a {
		a[i] = g.amount(o.maxBits)
	}
	S := bigSum(a)
	if S.Cmp(big.NewInt(int64(nB))) < 0 {
		a[0] = addB(a[0], big.NewInt(int64(nB)))
		S = bigSum(a)
	}
	b := g.compose(S, nB)
	p.partialSide = r.Intn(3)
	p.even = r.Intn(10) < 7
	extra := g.amount(o.maxBits)

	// ask prices: a unit price per asset (so proportional splits are exact) or arbitrary
	askAssets := make([]*big.Int, nA)
	askPrice := make([]*big.Int, nA)
	askFilledPrice := make([]*big.Int, nA)
	for i := range a {
		askAssets[i] = a[i]
		if r.Intn(2) == 0 {
			askPrice[i] = mulB(a[i], g.small(50))
		} else {
			askPrice[i] = g.amount(o.maxBits)
		}
		askFilledPrice[i] = askPrice[i]
	}
	unitA := g.small(50)
	if p.partialSide == 1 {
		l := nA - 1
		askAssets[l] = addB(a[l], extra)
		if p.even {
			askPrice[l] = mulB(askAssets[l], unitA)
			askFilledPrice[l] = mulB(a[l], unitA)
		} else {
			askPrice[l] = g.amount(o.maxBits)
			askFilledPrice[l] = new(big.Int).Quo(mulB(askPrice[l], a[l]), askAssets[l])
		}
	}
	PA := bigSum(askFilledPrice)
	var surplus *big.Int
	switch r.Intn(20) {
	case 0, 1, 2, 3, 4, 5, 6:
		surplus = big.NewInt(0)
	case 7, 8, 9, 10, 11:
		surplus = big.NewInt(r.Int63n(int64(2*nA)) + 1)
	default:
		surplus = g.amount(o.maxBits)
	}
	PB := addB(PA, surplus)
	bidAssets := make([]*big.Int, nB)
	bidPrice := make([]*big.Int, nB)
	copy(bidAssets, b)
	unitB := g.small(50)
	if p.partialSide == 2 {
		l := nB - 1
		bidAssets[l] = addB(b[l], extra)
		var filledLast *big.Int
		if nB == 1 {
			// the only bid must cover the whole ask price with its filled part
			u := new(big.Int).Quo(addB(PB, subB(b[l], big.NewInt(1))), b[l])
			if u.Sign() == 0 {
				u.SetInt64(1)
			}
			unitB = u
		}
		if p.even {
			bidPrice[l] = mulB(bidAssets[l], unitB)
			filledLast = mulB(b[l], unitB)
		} else {
			bidPrice[l] = addB(mulB(bidAssets[l], unitB), g.small(5))
			filledLast = mulB(b[l], unitB)
		}
		if nB > 1 {
			rest := subB(PB, filledLast)
			if rest.Cmp(big.NewInt(int64(nB-1))) < 0 {
				rest = big.NewInt(int64(nB - 1))
			}
			parts := g.compose(rest, nB-1)
			copy(bidPrice, parts)
		}
	} else {
		if PB.Cmp(big.NewInt(int64(nB))) < 0 {
			PB = big.NewInt(int64(nB))
		}
		copy(bidPrice, g.compose(PB, nB))
	}

	feeAmt := func(assets *big.Int, proportional bool) *big.Int {
		if proportional {
			return mulB(assets, g.small(9))
		}
		return g.amount(o.feeBits)
	}
	owner := func() int { return 1 + r.Intn(o.nOwners) }
	for i := 0; i < nA; i++ {
		ord := mOrder{ask: true, owner: owner(), ad: o.ad, pd: o.pd, assets: askAssets[i], price: askPrice[i], partial: r.Intn(2) == 0}
		last := p.partialSide == 1 && i == nA-1
		if last {
			ord.partial = true
		}
		if o.flatAsk != nil {
			ord.fees = []mCoin{{o.flatAsk.d, addB(o.flatAsk.a, feeAmt(ord.assets, last && p.even))}}
			if last && p.even {
				ord.fees[0].a = mulB(ord.assets, addB(o.flatAsk.a, g.small(3)))
			}
		} else if r.Intn(2) == 0 {
			ord.fees = []mCoin{{1 + r.Intn(len(c01Denoms)), feeAmt(ord.assets, last && p.even)}}
		}
		p.asks = append(p.asks, ord)
	}
	for i := 0; i < nB; i++ {
		ord := mOrder{ask: false, owner: owner(), ad: o.ad, pd: o.pd, assets: bidAssets[i], price: bidPrice[i], partial: r.Intn(2) == 0}
		last := p.partialSide == 2 && i == nB-1
		if last {
			ord.partial = true
		}
		nf := r.Intn(3)
		used := map[int]bool{}
		if o.flatBid != nil {
			amt := addB(o.flatBid.a, feeAmt(ord.assets, last && p.even))
			if last && p.even {
				amt = mulB(ord.assets, addB(o.flatBid.a, g.small(3)))
			}
			ord.fees = append(ord.fees, mCoin{o.flatBid.d, amt})
			used[o.flatBid.d] = true
		}
		for k := 0; k < nf; k++ {
			d := 1 + r.Intn(len(c01Denoms))
			if used[d] {
				continue
			}
			used[d] = true
			ord.fees = append(ord.fees, mCoin{d, feeAmt(ord.assets, last && p.even)})
		}
		sortCoins(ord.fees)
		p.bids = append(p.bids, ord)
	}
	if o.ratio != nil {
		p.ratio = o.ratio
	} else if o.drawR && r.Intn(10) < 6 {
		var rp *big.Int
		switch r.Intn(6) {
		case 0:
			rp = big.NewInt([]int64{1, 2, 3, 7, 100, 1000, 10000}[r.Intn(7)])
		case 1:
			rp = g.amount(30)
		default:
			rp = big.NewInt(r.Int63n(5000) + 1)
		}
		rf := new(big.Int).Rand(r, addB(rp, big.NewInt(1)))
		fd := o.pd
		if r.Intn(10) == 0 {
			fd = 1 + r.Intn(len(c01Denoms))
		}
		p.ratio = &mRatio{pd: o.pd, fd: fd, p: rp, f: rf}
	}
	return p
}

// perturb applies one mutation to a plan that would otherwise settle.
func (g *c01Gen) perturb(p *c01Plan) {
	r := g.r
	pick := func(l []mOrder) *mOrder { return &l[r.Intn(len(l))] }
	side := func() []mOrder {
		if r.Intn(2) == 0 {
			return p.asks
		}
		return p.bids
	}
	switch r.Intn(11) {
	case 0:
		o := pick(side())
		o.assets = addB(o.assets, big.NewInt(1))
		p.perturbed = "assets+1"
	case 1:
		l := side()
		l[len(l)-1].partial = !l[len(l)-1].partial
		p.perturbed = "flip-partial-last"
	case 2:
		l := side()
		if len(l) > 1 {
			i := r.Intn(len(l) - 1)
			l[i], l[len(l)-1] = l[len(l)-1], l[i]
		}
		p.perturbed = "swap-last"
	case 3:
		o := pick(p.bids)
		if o.price.Cmp(big.NewInt(1)) > 0 {
			o.price = subB(o.price, big.NewInt(1))
		}
		p.perturbed = "bid-price-1"
	case 4:
		o := pick(side())
		o.ad = o.ad%len(c01Denoms) + 1
		if o.ad == o.pd {
			o.ad = o.ad%len(c01Denoms) + 1
		}
		p.perturbed = "asset-denom"
	case 5:
		if r.Intn(2) == 0 {
			p.asks = append(p.asks, p.bids[len(p.bids)-1])
		} else {
			p.bids = append(p.bids, p.asks[len(p.asks)-1])
		}
		p.perturbed = "wrong-side"
	case 6:
		o := pick(side())
		if len(o.fees) > 0 {
			o.fees[0].a = addB(o.fees[0].a, big.NewInt(1))
		} else {
			o.price = addB(o.price, big.NewInt(1))
		}
		p.perturbed = "fee+1"
	case 7:
		if r.Intn(2) == 0 {
			p.bids = nil
		} else {
			p.asks = nil
		}
		p.perturbed = "empty-side"
	case 8:
		maxLen := 0
		for _, l := range [][]mOrder{p.asks, p.bids} {
			for i := range l {
				if n := l[i].assets.BitLen(); n > maxLen {
					maxLen = n
				}
				if n := l[i].price.BitLen(); n > maxLen {
					maxLen = n
				}
			}
		}
		room := 250 - maxLen
		if room < 1 {
			room = 1
		}
		sh := uint(room - r.Intn(room/2+1))
		for _, l := range [][]mOrder{p.asks, p.bids} {
			for i := range l {
				l[i].assets = new(big.Int).Lsh(l[i].assets, sh)
				l[i].price = new(big.Int).Lsh(l[i].price, sh)
			}
		}
		p.perturbed = "huge"
	case 9:
		o := pick(side())
		o.pd = o.pd%len(c01Denoms) + 1
		if o.ad == o.pd {
			o.pd = o.pd%len(c01Denoms) + 1
		}
		p.perturbed = "price-denom"
	default:
		o := pick(p.asks)
		o.price = addB(o.price, g.amount(40))
		p.perturbed = "ask-price-up"
	}
}

func bigOver64(xs ...*big.Int) bool {
	for _, x := range xs {
		if x != nil && x.BitLen() > 64 {
			return true
		}
	}
	return false
}

// ---------- pure stream ----------

func (g *c01Gen) pureBuild(idx int) {
	r := g.r
	w := g.w
	nOwners := 2 + r.Intn(4)
	in := newC01Intern(5)
	ad := 1 + r.Intn(len(c01Denoms))
	pd := ad%len(c01Denoms) + 1
	if r.Intn(2) == 0 {
		pd = (ad+1)%len(c01Denoms) + 1
	}
	maxBits := []int{16, 40, 63, 70, 100, 128}[r.Intn(6)]
	p := g.plan(planOpts{nOwners: nOwners, maxBits: maxBits, maxN: 6, ad: ad, pd: pd, drawR: true, feeBits: 40})
	if r.Intn(100) < 22 {
		g.perturb(&p)
	}
	switch r.Intn(40) {
	case 0:
		p.lookupErr = true
	case 1:
		if p.ratio != nil {
			p.ratio = &mRatio{pd: p.ratio.pd%len(c01Denoms) + 1, fd: p.ratio.fd, p: p.ratio.p, f: p.ratio.f}
		}
	case 2:
		if p.ratio != nil {
			p.ratio = &mRatio{pd: p.ratio.pd, fd: p.ratio.fd, p: big.NewInt(0), f: p.ratio.f}
		}
	}
	id := uint64(1)
	var asks, bids []*exchange.Order
	over64 := false
	for i := range p.asks {
		p.asks[i].id = id
		id++
		asks = append(asks, p.asks[i].toOrder())
		over64 = over64 || bigOver64(p.asks[i].assets, p.asks[i].price)
	}
	for i := range p.bids {
		p.bids[i].id = id
		id++
		bids = append(bids, p.bids[i].toOrder())
		over64 = over64 || bigOver64(p.bids[i].assets, p.bids[i].price)
	}
	lookupTerm := "(Ok None)"
	lookup := func(denom string) (*exchange.FeeRatio, error) { return nil, nil }
	if p.lookupErr {
		lookupTerm = "Err"
		lookup = func(denom string) (*exchange.FeeRatio, error) { return nil, errors.New("injected lookup error") }
	} else if p.ratio != nil {
		lookupTerm = "(Ok (Some (R " + coqRatio(p.ratio) + ")))"
		fr := &exchange.FeeRatio{Price: sdkCoin(mCoin{p.ratio.pd, p.ratio.p}), Fee: sdkCoin(mCoin{p.ratio.fd, p.ratio.f})}
		lookup = func(denom string) (*exchange.FeeRatio, error) { return fr, nil }
	}
	// terms of the inputs are rendered before the call (BuildSettlement does not mutate them,
	// but the observation must not depend on that)
	asksTerm, bidsTerm := coqOrders(in, asks), coqOrders(in, bids)
	var stl *exchange.Settlement
	err := try(func() error {
		var e error
		stl, e = exchange.BuildSettlement(asks, bids, lookup)
		return e
	})
	obs := "None"
	if err == nil {
		obs = "(Some " + coqSettlement(in, stl) + ")"
	}
	term := fmt.Sprintf("CBuild %s %s %s %s", asksTerm, bidsTerm, lookupTerm, obs)
	w.Add(term, map[string]any{"stream": "pure", "fn": "BuildSettlement", "asks": len(asks), "bids": len(bids), "planned_partial": p.partialSide,
		"even": p.even, "perturbed": p.perturbed, "ratio": p.ratio != nil, "ok": err == nil, "term": term})
	w.Count("build")
	if err == nil {
		w.Count("build_accepted")
		if stl.PartialOrderLeft != nil {
			w.Count("build_accepted_partial")
		}
		if len(asks)+len(bids) > 2 || stl.PartialOrderLeft != nil {
			w.Nontrivial(term)
		}
	} else {
		w.Count("build_rejected")
		if strings.HasPrefix(err.Error(), "panic") {
			w.Count("build_panicked")
		}
	}
	if p.perturbed != "" {
		w.Count("build_perturbed")
	}
	if over64 {
		w.Count("build_amount_above_2^64")
	}
	if p.ratio != nil {
		w.Count("build_with_ratio")
	}
}

func (g *c01Gen) pureSplit() {
	r := g.r
	w := g.w
	in := newC01Intern(5)
	ad := 1 + r.Intn(len(c01Denoms))
	pd := ad%len(c01Denoms) + 1
	maxBits := []int{8, 16, 40, 63, 70, 128, 200}[r.Intn(7)]
	o := mOrder{id: uint64(1 + r.Intn(50)), ask: r.Intn(2) == 0, owner: 1 + r.Intn(5), ad: ad, pd: pd, partial: r.Intn(8) != 0}
	k := g.amount(maxBits)
	mode := r.Intn(20)
	switch {
	case mode < 14: // proportional: everything a multiple of the asset amount's cofactor
		q := g.amount(maxBits / 2)
		m := big.NewInt(r.Int63n(12) + 2)
		o.assets = mulB(q, m)
		o.price = mulB(m, g.amount(maxBits/2))
		k = mulB(q, big.NewInt(r.Int63n(m.Int64()-1)+1))
		nf := r.Intn(3)
		if o.ask && nf > 1 {
			nf = 1
		}
		used := map[int]bool{}
		for i := 0; i < nf; i++ {
			d := 1 + r.Intn(len(c01Denoms))
			if used[d] {
				continue
			}
			used[d] = true
			amt := mulB(m, g.amount(30))
			if r.Intn(6) == 0 {
				amt = addB(amt, big.NewInt(1))
			}
			o.fees = append(o.fees, mCoin{d, amt})
		}
		if r.Intn(8) == 0 {
			o.price = addB(o.price, big.NewInt(1))
		}
	case mode < 17:
		o.assets = g.amount(maxBits)
		o.price = g.amount(maxBits)
		if r.Intn(2) == 0 {
			o.fees = []mCoin{{1 + r.Intn(len(c01Denoms)), g.amount(40)}}
		}
		if o.assets.Cmp(big.NewInt(1)) > 0 {
			k = addB(new(big.Int).Rand(r, subB(o.assets, big.NewInt(1))), big.NewInt(1))
		}
	default: // boundary k: 0, negative, equal, above
		o.assets = g.amount(maxBits)
		o.price = mulB(o.assets, g.small(20))
		switch r.Intn(4) {
		case 0:
			k = big.NewInt(0)
		case 1:
			k = big.NewInt(-int64(r.Intn(5) + 1))
		case 2:
			k = new(big.Int).Set(o.assets)
		default:
			k = addB(o.assets, g.small(5))
		}
	}
	sortCoins(o.fees)
	ord := o.toOrder()
	ordTerm := coqOrder(in, ord)
	var filled, unfilled *exchange.Order
	err := try(func() error {
		var e error
		filled, unfilled, e = ord.Split(sdkmath.NewIntFromBigInt(k))
		return e
	})
	obs := "None"
	if err == nil {
		obs = fmt.Sprintf("(Some (%s, %s))", coqOrder(in, filled), coqOrder(in, unfilled))
	}
	term := fmt.Sprintf("CSplit %s %s %s", ordTerm, zBig(k), obs)
	w.Add(term, map[string]any{"stream": "pure", "fn": "Order.Split", "ok": err == nil, "term": term})
	w.Count("split")
	if err == nil {
		w.Count("split_accepted")
		w.Nontrivial(term)
	} else {
		w.Count("split_rejected")
	}
	if bigOver64(o.assets, o.price, k) {
		w.Count("split_amount_above_2^64")
	}
}

// ---------- stateful stream ----------

type c01Hist struct {
	g        *c01Gen
	t        *testing.T
	app      *simapp.App
	ctx      sdk.Context
	in       *c01Intern
	nOwners  int
	marketID uint32
	admin    sdk.AccAddress
	accts    []sdk.AccAddress // owners..., market, fee collector
	acctIDs  []int
	ratios   []exchange.FeeRatio
	ids      []uint64 // every order id ever created in this history
	steps    []string
	nOps     int
	nOK      int
}

func (h *c01Hist) observe(ok bool, fills string) string {
	var bal, hold, sup []string
	for _, a := range h.accts {
		for _, d := range c01Denoms {
			bal = append(bal, zInt(h.app.BankKeeper.GetBalance(h.ctx, a, d).Amount))
			hc, err := h.app.HoldKeeper.GetHoldCoin(h.ctx, a, d)
			if err != nil {
				h.t.Fatalf("hold: %v", err)
			}
			hold = append(hold, zInt(hc.Amount))
		}
	}
	for _, d := range c01Denoms {
		sup = append(sup, zInt(h.app.BankKeeper.GetSupply(h.ctx, d).Amount))
	}
	var orders []*exchange.Order
	for _, id := range h.ids {
		o, err := h.app.ExchangeKeeper.GetOrder(h.ctx, id)
		if err != nil {
			h.t.Fatalf("get order: %v", err)
		}
		if o != nil {
			orders = append(orders, o)
		}
	}
	return fmt.Sprintf("(SO %s %s %s %s %s %s)", coqBool(ok), coqList(bal), coqList(hold), coqList(sup), coqOrders(h.in, orders), fills)
}

// exec runs one message through the router in a cache context (written only on success).
func (h *c01Hist) exec(msg sdk.Msg, vb func() error) (*sdk.Result, error) {
	cctx, write := h.ctx.CacheContext()
	var res *sdk.Result
	err := try(func() error {
		if e := vb(); e != nil {
			return e
		}
		handler := h.app.MsgServiceRouter().Handler(msg)
		if handler == nil {
			return fmt.Errorf("no handler for %T", msg)
		}
		var e error
		res, e = handler(cctx, msg)
		return e
	})
	if err == nil {
		write()
	}
	return res, err
}

func (h *c01Hist) record(opTerm string, ok bool, fills string, kind string) {
	h.steps = append(h.steps, fmt.Sprintf("(%s, %s)", opTerm, h.observe(ok, fills)))
	h.nOps++
	h.g.w.Count("op_" + kind)
	if ok {
		h.nOK++
		h.g.w.Count("op_" + kind + "_accepted")
	}
}

// create submits a create-ask / create-bid message and records the step; returns the order id.
func (h *c01Hist) create(o mOrder) uint64 {
	ord := o.toOrder()
	var msg sdk.Msg
	var vb func() error
	if o.ask {
		ao := *ord.GetAskOrder()
		ao.MarketId = h.marketID
		m := &exchange.MsgCreateAskRequest{AskOrder: ao}
		msg, vb = m, m.ValidateBasic
	} else {
		bo := *ord.GetBidOrder()
		bo.MarketId = h.marketID
		m := &exchange.MsgCreateBidRequest{BidOrder: bo}
		msg, vb = m, m.ValidateBasic
	}
	res, err := h.exec(msg, vb)
	var id uint64
	if err == nil {
		switch v := res.MsgResponses[0].GetCachedValue().(type) {
		case *exchange.MsgCreateAskResponse:
			id = v.OrderId
		case *exchange.MsgCreateBidResponse:
			id = v.OrderId
		default:
			h.t.Fatalf("unexpected response %T", v)
		}
		h.ids = append(h.ids, id)
	}
	ord.OrderId = id
	if id == 0 {
		ord.OrderId = 999999
	}
	h.record(fmt.Sprintf("OpCreate %s %s", coqOrder(h.in, ord), coqBool(err == nil)), err == nil, "[]", "create")
	return id
}

func (h *c01Hist) ratioLookup(denom string) (*exchange.FeeRatio, error) {
	for i := range h.ratios {
		if h.ratios[i].Price.Denom == denom && h.ratios[i].Fee.Denom == denom {
			return &h.ratios[i], nil
		}
	}
	if len(h.ratios) > 0 {
		return nil, fmt.Errorf("no seller settlement fee ratio found for denom %q", denom)
	}
	return nil, nil
}

// dryRun evaluates the real BuildSettlement on the current order records (the per-order amounts
// the property speaks about: assets filled, price applied, fees to pay).
func (h *c01Hist) dryRun(askIDs, bidIDs []uint64) string {
	get := func(ids []uint64) []*exchange.Order {
		var out []*exchange.Order
		for _, id := range ids {
			o, err := h.app.ExchangeKeeper.GetOrder(h.ctx, id)
			if err != nil || o == nil {
				return nil
			}
			out = append(out, o)
		}
		return out
	}
	asks, bids := get(askIDs), get(bidIDs)
	if asks == nil || bids == nil {
		return "[]"
	}
	var stl *exchange.Settlement
	err := try(func() error {
		var e error
		stl, e = exchange.BuildSettlement(asks, bids, h.ratioLookup)
		return e
	})
	if err != nil {
		return "[]"
	}
	var items []string
	add := func(f *exchange.FilledOrder) {
		items = append(items, fmt.Sprintf("(%d, %s, %s, %s)", f.GetOrderID(), zInt(f.GetAssets().Amount), zInt(f.GetPrice().Amount), coqCoins(f.GetSettlementFees())))
	}
	for _, f := range stl.FullyFilledOrders {
		add(f)
	}
	if stl.PartialOrderFilled != nil {
		add(stl.PartialOrderFilled)
	}
	return coqList(items)
}

func coqIDs(ids []uint64) string {
	items := make([]string, len(ids))
	for i, id := range ids {
		items[i] = fmt.Sprint(id)
	}
	return coqList(items)
}

func (h *c01Hist) settle(askIDs, bidIDs []uint64, expectPartial bool) bool {
	fills := h.dryRun(askIDs, bidIDs)
	msg := &exchange.MsgMarketSettleRequest{Admin: h.admin.String(), MarketId: h.marketID, AskOrderIds: askIDs, BidOrderIds: bidIDs, ExpectPartial: expectPartial}
	_, err := h.exec(msg, msg.ValidateBasic)
	if err != nil {
		fills = "[]"
	}
	h.record(fmt.Sprintf("OpSettle %s %s %s", coqIDs(askIDs), coqIDs(bidIDs), coqBool(expectPartial)), err == nil, fills, "settle")
	return err == nil
}

func (h *c01Hist) fillBids(seller int, ids []uint64, total sdk.Coins, flat *sdk.Coin) bool {
	msg := &exchange.MsgFillBidsRequest{Seller: c01Owner(seller).String(), MarketId: h.marketID, TotalAssets: total, BidOrderIds: ids, SellerSettlementFlatFee: flat}
	_, err := h.exec(msg, msg.ValidateBasic)
	fl := "None"
	if flat != nil {
		fl = fmt.Sprintf("(Some (%d, %s))", c01DenomID(flat.Denom), zInt(flat.Amount))
	}
	h.record(fmt.Sprintf("OpFillBids %d %s %s %s", seller, coqIDs(ids), coqCoins(total), fl), err == nil, "[]", "fill_bids")
	return err == nil
}

func (h *c01Hist) fillAsks(buyer int, ids []uint64, total sdk.Coin, fees sdk.Coins) bool {
	msg := &exchange.MsgFillAsksRequest{Buyer: c01Owner(buyer).String(), MarketId: h.marketID, TotalPrice: total, AskOrderIds: ids, BuyerSettlementFees: fees}
	_, err := h.exec(msg, msg.ValidateBasic)
	h.record(fmt.Sprintf("OpFillAsks %d %s (%d, %s) %s", buyer, coqIDs(ids), c01DenomID(total.Denom), zInt(total.Amount), coqCoins(fees)), err == nil, "[]", "fill_asks")
	return err == nil
}

type bigOrder struct {
	id      uint64
	ask     bool
	slices  int64 // remaining
	q, u    *big.Int
	feeUnit []mCoin
	owner   int
}

func (g *c01Gen) history(t *testing.T, app *simapp.App, base sdk.Context, n int) {
	r := g.r
	w := g.w
	ctx, _ := base.CacheContext()
	nOwners := 2 + r.Intn(4)
	h := &c01Hist{g: g, t: t, app: app, ctx: ctx, in: newC01Intern(5), nOwners: nOwners, admin: addrN(c01AdminAddrN)}

	// --- configuration ---
	ad := 1 + r.Intn(len(c01Denoms))
	pd := ad%len(c01Denoms) + 1
	if r.Intn(2) == 0 {
		pd = (ad+1)%len(c01Denoms) + 1
	}
	var ratio *mRatio
	var ratioTerms []string
	if r.Intn(10) < 7 {
		rp := big.NewInt([]int64{1, 3, 7, 20, 100, 1000, 10000, 33333}[r.Intn(8)])
		rf := new(big.Int).Rand(r, addB(new(big.Int).Quo(rp, big.NewInt(4)), big.NewInt(1)))
		ratio = &mRatio{pd: pd, fd: pd, p: rp, f: rf}
		h.ratios = append(h.ratios, exchange.FeeRatio{Price: sdkCoin(mCoin{pd, rp}), Fee: sdkCoin(mCoin{pd, rf})})
		ratioTerms = append(ratioTerms, coqRatio(ratio))
		if r.Intn(4) == 0 { // an unrelated ratio for another denom
			od := ad
			h.ratios = append(h.ratios, exchange.FeeRatio{Price: sdkCoin(mCoin{od, big.NewInt(10)}), Fee: sdkCoin(mCoin{od, big.NewInt(1)})})
			ratioTerms = append(ratioTerms, coqRatio(&mRatio{pd: od, fd: od, p: big.NewInt(10), f: big.NewInt(1)}))
		}
	}
	var flatAsk, flatBid *mCoin
	market := exchange.Market{
		MarketDetails:             exchange.MarketDetails{Name: "c01"},
		AcceptingOrders:           true,
		AllowUserSettlement:       true,
		FeeSellerSettlementRatios: h.ratios,
		AccessGrants:              []exchange.AccessGrant{{Address: h.admin.String(), Permissions: exchange.AllPermissions()}},
	}
	sflat, bflat := "[]", "[]"
	if r.Intn(10) < 3 {
		flatAsk = &mCoin{1 + r.Intn(len(c01Denoms)), big.NewInt(r.Int63n(20) + 1)}
		market.FeeSellerSettlementFlat = []sdk.Coin{sdkCoin(*flatAsk)}
		sflat = fmt.Sprintf("[(%d, %s)]", flatAsk.d, zBig(flatAsk.a))
	}
	if r.Intn(10) < 3 {
		flatBid = &mCoin{1 + r.Intn(len(c01Denoms)), big.NewInt(r.Int63n(20) + 1)}
		market.FeeBuyerSettlementFlat = []sdk.Coin{sdkCoin(*flatBid)}
		bflat = fmt.Sprintf("[(%d, %s)]", flatBid.d, zBig(flatBid.a))
	}
	mid, err := app.ExchangeKeeper.CreateMarket(ctx, market)
	if err != nil {
		t.Fatalf("create market: %v", err)
	}
	h.marketID = mid
	defSplit := uint32([]int{0, 1, 500, 3333, 5000, 9999, 10000}[r.Intn(7)])
	var dsplits []exchange.DenomSplit
	var splitTerms []string
	for i, d := range c01Denoms {
		if r.Intn(3) == 0 {
			s := uint32(r.Intn(10001))
			if r.Intn(3) == 0 {
				s = uint32([]int{0, 1, 2500, 10000}[r.Intn(4)])
			}
			dsplits = append(dsplits, exchange.DenomSplit{Denom: d, Split: s})
			splitTerms = append(splitTerms, fmt.Sprintf("(%d, %d)", i+1, s))
		}
	}
	app.ExchangeKeeper.SetParams(ctx, &exchange.Params{DefaultSplit: defSplit, DenomSplits: dsplits})

	// --- accounts and funds ---
	maxBits := []int{20, 40, 63, 70, 90}[r.Intn(5)]
	fundAmt := new(big.Int).Lsh(big.NewInt(1), uint(maxBits+20))
	poor := 0
	if r.Intn(8) == 0 {
		poor = 1 + r.Intn(nOwners)
	}
	for i := 1; i <= 5; i++ {
		a := c01Owner(i)
		ensureAccount(app, ctx, a)
		h.accts = append(h.accts, a)
		h.acctIDs = append(h.acctIDs, i)
		if i > nOwners {
			continue
		}
		amt := fundAmt
		if i == poor {
			amt = big.NewInt(r.Int63n(2000) + 1)
		}
		var cs sdk.Coins
		for _, d := range c01Denoms {
			cs = cs.Add(sdk.NewCoin(d, sdkmath.NewIntFromBigInt(amt)))
		}
		fund(t, app, ctx, a, cs)
	}
	marketAddr := exchange.GetMarketAddress(mid)
	feeCol := authtypes.NewModuleAddress(authtypes.FeeCollectorName)
	h.accts = append(h.accts, marketAddr, feeCol)
	h.acctIDs = append(h.acctIDs, c01MarketAddrID, c01FeeColAddrID)
	h.in.addrs[marketAddr.String()] = c01MarketAddrID
	h.in.addrs[feeCol.String()] = c01FeeColAddrID
	init := h.observe(true, "[]")

	// --- operations ---
	var big_ *bigOrder
	rounds := 1 + r.Intn(4)
	opts := planOpts{nOwners: nOwners, maxBits: maxBits, maxN: 3, ad: ad, pd: pd, ratio: ratio, flatAsk: flatAsk, flatBid: flatBid, feeBits: 12}
	partialFills := 0
	for rd := 0; rd < rounds; rd++ {
		kind := r.Intn(10)
		switch {
		case kind < 6: // market settlement, possibly against the standing big order
			p := g.plan(opts)
			useBig := false
			if big_ == nil && r.Intn(2) == 0 {
				// create a standing order of m equal slices: every later partial fill of whole
				// slices divides evenly
				m := int64(3 + r.Intn(8))
				q, u := g.amount(maxBits-8), g.small(40)
				bo := &bigOrder{ask: r.Intn(2) == 0, slices: m, q: q, u: u, owner: 1 + r.Intn(nOwners)}
				ord := mOrder{ask: bo.ask, owner: bo.owner, ad: ad, pd: pd, assets: mulB(q, big.NewInt(m)), price: mulB(mulB(q, u), big.NewInt(m)), partial: true}
				if bo.ask {
					if flatAsk != nil {
						bo.feeUnit = []mCoin{{flatAsk.d, addB(flatAsk.a, g.small(5))}}
					} else if r.Intn(2) == 0 {
						bo.feeUnit = []mCoin{{1 + r.Intn(len(c01Denoms)), g.small(9)}}
					}
				} else {
					if flatBid != nil {
						bo.feeUnit = []mCoin{{flatBid.d, addB(flatBid.a, g.small(5))}}
					}
					if r.Intn(2) == 0 {
						d := 1 + r.Intn(len(c01Denoms))
						if flatBid == nil || d != flatBid.d {
							bo.feeUnit = append(bo.feeUnit, mCoin{d, g.small(9)})
						}
					}
				}
				for _, fu := range bo.feeUnit {
					ord.fees = append(ord.fees, mCoin{fu.d, mulB(fu.a, big.NewInt(m))})
				}
				sortCoins(ord.fees)
				bo.id = h.create(ord)
				if bo.id != 0 {
					big_ = bo
				}
			}
			if big_ != nil && r.Intn(4) != 0 {
				useBig = true
			}
			var askIDs, bidIDs []uint64
			expect := p.partialSide != 0
			if useBig {
				// rebuild the plan around the standing order: it is the last of its side and gets
				// k of its remaining slices
				k := int64(1 + r.Intn(int(big_.slices)))
				if r.Intn(3) != 0 && big_.slices > 1 {
					k = int64(1 + r.Intn(int(big_.slices-1)))
				}
				fillAssets := mulB(big_.q, big.NewInt(k))
				fillPrice := mulB(mulB(big_.q, big_.u), big.NewInt(k))
				expect = k < big_.slices
				nOther := 1 + r.Intn(2)
				owner := func() int { return 1 + r.Intn(nOwners) }
				mk := func(ask bool, assets, price *big.Int) mOrder {
					o := mOrder{ask: ask, owner: owner(), ad: ad, pd: pd, assets: assets, price: price, partial: r.Intn(2) == 0}
					if ask && flatAsk != nil {
						o.fees = []mCoin{{flatAsk.d, addB(flatAsk.a, g.small(4))}}
					} else if !ask && flatBid != nil {
						o.fees = []mCoin{{flatBid.d, addB(flatBid.a, g.small(4))}}
					} else if r.Intn(2) == 0 {
						o.fees = []mCoin{{1 + r.Intn(len(c01Denoms)), g.small(50)}}
					}
					return o
				}
				if fillAssets.Cmp(big.NewInt(int64(nOther))) < 0 {
					nOther = 1
				}
				parts := g.compose(fillAssets, nOther)
				if big_.ask {
					// counter-side bids cover exactly the filled slices, paying at least their price
					prices := g.compose(addB(fillPrice, big.NewInt(r.Int63n(7))), nOther)
					if fillPrice.Cmp(big.NewInt(int64(nOther))) < 0 {
						prices = g.compose(big.NewInt(int64(nOther)), nOther)
					}
					for i := 0; i < nOther; i++ {
						if id := h.create(mk(false, parts[i], prices[i])); id != 0 {
							bidIDs = append(bidIDs, id)
						}
					}
					askIDs = []uint64{big_.id}
				} else {
					total := fillPrice
					if r.Intn(2) == 0 && total.Cmp(big.NewInt(int64(nOther+3))) > 0 {
						total = subB(total, big.NewInt(r.Int63n(3)))
					}
					if total.Cmp(big.NewInt(int64(nOther))) < 0 {
						total = big.NewInt(int64(nOther))
					}
					prices := g.compose(total, nOther)
					for i := 0; i < nOther; i++ {
						if id := h.create(mk(true, parts[i], prices[i])); id != 0 {
							askIDs = append(askIDs, id)
						}
					}
					bidIDs = []uint64{big_.id}
				}
				if len(askIDs) == 0 || len(bidIDs) == 0 {
					continue
				}
				if r.Intn(12) == 0 {
					expect = !expect
				}
				if h.settle(askIDs, bidIDs, expect) {
					if k < big_.slices {
						big_.slices -= k
						partialFills++
					} else {
						big_ = nil
					}
				}
				continue
			}
			if r.Intn(100) < 15 {
				g.perturb(&p)
			}
			for _, o := range p.asks {
				// (a "wrong-side" perturbation leaves a bid in this list on purpose)
				if id := h.create(o); id != 0 {
					askIDs = append(askIDs, id)
				}
			}
			for _, o := range p.bids {
				if id := h.create(o); id != 0 {
					bidIDs = append(bidIDs, id)
				}
			}
			switch r.Intn(25) {
			case 0:
				expect = !expect
			case 1:
				askIDs = append(askIDs, 424242)
			case 2:
				if len(bidIDs) > 0 {
					bidIDs = append(bidIDs, bidIDs[0])
				}
			case 3:
				if len(askIDs) > 1 {
					askIDs[0], askIDs[len(askIDs)-1] = askIDs[len(askIDs)-1], askIDs[0]
				}
			}
			if len(askIDs) == 0 || len(bidIDs) == 0 {
				continue
			}
			if h.settle(askIDs, bidIDs, expect) && p.partialSide != 0 {
				partialFills++
			}
		case kind < 8: // a seller fills bids
			nb := 1 + r.Intn(3)
			seller := 1 + r.Intn(nOwners)
			var ids []uint64
			total := sdk.Coins{}
			for i := 0; i < nb; i++ {
				o := mOrder{ask: false, owner: 1 + r.Intn(nOwners), ad: ad, pd: pd, assets: g.amount(maxBits), price: g.amount(maxBits), partial: r.Intn(2) == 0}
				if r.Intn(5) == 0 { // a second asset denom: FillBids allows mixed bids
					o.ad = ad%len(c01Denoms) + 1
					if o.ad == pd {
						o.ad = o.ad%len(c01Denoms) + 1
					}
				}
				if nOwners > 1 && r.Intn(6) != 0 {
					for o.owner == seller {
						o.owner = 1 + r.Intn(nOwners)
					}
				}
				if flatBid != nil {
					o.fees = []mCoin{{flatBid.d, addB(flatBid.a, g.small(4))}}
				} else if r.Intn(2) == 0 {
					o.fees = []mCoin{{1 + r.Intn(len(c01Denoms)), g.small(50)}}
				}
				if id := h.create(o); id != 0 {
					ids = append(ids, id)
					total = total.Add(sdkCoin(mCoin{o.ad, o.assets}))
				}
			}
			if len(ids) == 0 {
				continue
			}
			var flat *sdk.Coin
			if flatAsk != nil && r.Intn(8) != 0 {
				c := sdkCoin(mCoin{flatAsk.d, addB(flatAsk.a, big.NewInt(r.Int63n(3)))})
				flat = &c
			} else if flatAsk == nil && r.Intn(2) == 0 {
				c := sdkCoin(mCoin{1 + r.Intn(len(c01Denoms)), g.small(30)})
				flat = &c
			}
			switch r.Intn(15) {
			case 0:
				total = total.Add(sdkCoin(mCoin{ad, big.NewInt(1)}))
			case 1:
				ids = append(ids, 424242)
			}
			h.fillBids(seller, ids, total, flat)
		default: // a buyer fills asks
			na := 1 + r.Intn(3)
			buyer := 1 + r.Intn(nOwners)
			var ids []uint64
			total := new(big.Int)
			for i := 0; i < na; i++ {
				price := g.amount(maxBits)
				if price.Cmp(big.NewInt(100)) < 0 {
					price = addB(price, big.NewInt(100))
				}
				o := mOrder{ask: true, owner: 1 + r.Intn(nOwners), ad: ad, pd: pd, assets: g.amount(maxBits), price: price, partial: r.Intn(2) == 0}
				if nOwners > 1 && r.Intn(6) != 0 {
					for o.owner == buyer {
						o.owner = 1 + r.Intn(nOwners)
					}
				}
				if flatAsk != nil {
					o.fees = []mCoin{{flatAsk.d, addB(flatAsk.a, g.small(4))}}
				} else if r.Intn(2) == 0 {
					o.fees = []mCoin{{1 + r.Intn(len(c01Denoms)), g.small(50)}}
				}
				if id := h.create(o); id != 0 {
					ids = append(ids, id)
					total = addB(total, o.price)
				}
			}
			if len(ids) == 0 {
				continue
			}
			fees := sdk.Coins{}
			if flatBid != nil && r.Intn(8) != 0 {
				fees = fees.Add(sdkCoin(mCoin{flatBid.d, addB(flatBid.a, big.NewInt(r.Int63n(3)))}))
			}
			if r.Intn(2) == 0 {
				fees = fees.Add(sdkCoin(mCoin{1 + r.Intn(len(c01Denoms)), g.small(30)}))
			}
			switch r.Intn(15) {
			case 0:
				total = addB(total, big.NewInt(1))
			case 1:
				ids = append(ids, ids[0])
			}
			h.fillAsks(buyer, ids, sdkCoin(mCoin{pd, total}), fees)
		}
	}
	if h.nOps == 0 {
		return
	}
	ids := make([]string, len(h.acctIDs))
	for i, a := range h.acctIDs {
		ids[i] = fmt.Sprint(a)
	}
	cfg := fmt.Sprintf("(Cfg %s %s %d %s %s %d %d)", coqList(ratioTerms), coqList(splitTerms), defSplit, sflat, bflat, c01MarketAddrID, c01FeeColAddrID)
	term := fmt.Sprintf("CHist %s %s %d %s %s", cfg, coqList(ids), len(c01Denoms), init, coqList(h.steps))
	w.Add(term, map[string]any{"stream": "stateful", "ops": h.nOps, "accepted": h.nOK, "owners": nOwners, "ratio": ratio != nil,
		"partial_fills": partialFills, "term": term})
	w.Count("history")
	w.CountN("history_ops", int64(h.nOps))
	w.CountN("history_ops_accepted", int64(h.nOK))
	if partialFills >= 2 {
		w.Count("history_repeated_partial_fill")
	}
	if maxBits > 64 {
		w.Count("history_amounts_above_2^64")
	}
	if h.nOK > 0 {
		w.Nontrivial(term)
	}
}

func TestC01(t *testing.T) {
	r := newRand("C01")
	w := NewCaseWriter("C01", "PV.Corr.C01", "check_all", 250)
	g := &c01Gen{r: r, pool: boundaryAmounts(), w: w}
	app, base := newApp(t)

	nBuild := scale(1600, 120000)
	nSplit := scale(500, 30000)
	nHist := scale(300, 12000)
	for i := 0; i < nBuild; i++ {
		g.pureBuild(i)
	}
	for i := 0; i < nSplit; i++ {
		g.pureSplit()
	}
	for i := 0; i < nHist; i++ {
		g.history(t, app, base, i)
	}
	w.Flush(t)
}
