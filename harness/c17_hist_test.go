//go:build c17

package harness

import (
	"fmt"
	"math/rand"
	"sort"
	"strconv"
	"strings"
	"testing"
	"time"

	sdk "github.com/cosmos/cosmos-sdk/types"
	banktypes "github.com/cosmos/cosmos-sdk/x/bank/types"

	triggertypes "github.com/provenance-io/provenance/x/trigger/types"
)

// ---------- observation ----------

type c17Obs struct {
	reg, queue, bal, rbal, names, grants string
	limits                               map[uint64]uint64
	nextID                               uint64
}

// observe reads registry, queue, balances, bound names and grants from the committed state.
func (g *c17Gen) observe() c17Obs {
	n := g.n
	ctx := n.queryCtx()
	idx := map[string]int{}
	for i := range g.accts {
		idx[g.accts[i].addr.String()] = i
	}
	o := c17Obs{limits: map[uint64]uint64{}}
	gls, err := n.app.TriggerKeeper.GetAllGasLimits(ctx)
	if err != nil {
		g.t.Fatal(err)
	}
	for _, gl := range gls {
		o.limits[gl.TriggerId] = gl.Amount
	}
	trs, err := n.app.TriggerKeeper.GetAllTriggers(ctx)
	if err != nil {
		g.t.Fatal(err)
	}
	g.reg = g.reg[:0]
	var ri []string
	for _, tr := range trs {
		ow, ok := idx[tr.Owner]
		if !ok {
			ow = 999
		}
		lim, has := o.limits[tr.Id]
		if !has {
			lim = 999999999 // a registered trigger without a gas limit: shows up as a mismatch
		}
		ri = append(ri, fmt.Sprintf("(%d, %d, %d)", tr.Id, ow, lim))
		g.reg = append(g.reg, c17Trig{tr.Id, ow})
		if tr.Id > g.maxID {
			g.maxID = tr.Id
		}
	}
	qs, err := n.app.TriggerKeeper.GetAllQueueItems(ctx)
	if err != nil {
		g.t.Fatal(err)
	}
	g.queue = g.queue[:0]
	var qi []string
	for _, q := range qs {
		lim, has := o.limits[q.Trigger.Id]
		if !has {
			lim = 999999999
		}
		qi = append(qi, fmt.Sprintf("(%d, %d)", q.Trigger.Id, lim))
		g.queue = append(g.queue, c17Trig{q.Trigger.Id, idx[q.Trigger.Owner]})
		if q.Trigger.Id > g.maxID {
			g.maxID = q.Trigger.Id
		}
	}
	var bi, rbi, ni, gi []string
	for i := 0; i < g.nAcc; i++ {
		bi = append(bi, fmt.Sprintf("(%d, %s%%Z)", i, zInt(n.app.BankKeeper.GetBalance(ctx, g.accts[i].addr, c17TrigDen).Amount)))
		rbi = append(rbi, fmt.Sprintf("(%d, %s%%Z)", i, zInt(n.app.BankKeeper.GetBalance(ctx, g.accts[i].addr, c17RDen).Amount)))
	}
	for k := 0; k < c17NNames; k++ {
		rec, err := n.app.NameKeeper.GetRecordByName(ctx, fmt.Sprintf("n%d.%s", k, c17Root))
		if err == nil && rec != nil {
			ow, ok := idx[rec.Address]
			if !ok {
				ow = 999
			}
			ni = append(ni, fmt.Sprintf("(%d, %d)", k, ow))
		}
	}
	sendURL := sdk.MsgTypeURL(&banktypes.MsgSend{})
	for a := 0; a < g.nAcc; a++ {
		for b := 0; b < g.nAcc; b++ {
			if au, _ := n.app.AuthzKeeper.GetAuthorization(ctx, g.accts[b].addr, g.accts[a].addr, sendURL); au != nil {
				gi = append(gi, fmt.Sprintf("(%d, %d)", a, b))
			}
		}
	}
	o.reg, o.queue, o.bal, o.rbal, o.names, o.grants = coqList(ri), coqList(qi), coqList(bi), coqList(rbi), coqList(ni), coqList(gi)
	o.nextID = n.app.TriggerKeeper.ExportGenesis(ctx).TriggerId
	g.limits = o.limits
	g.nextID = o.nextID
	g.height = n.height
	return o
}

func (g *c17Gen) entryTerm(im c17Imported) string {
	_, terms, _ := c17ActTerms(im.acts)
	return fmt.Sprintf("({| t_id := %d; t_owner := %d; t_event := %s; t_actions := %s; t_auths := [%d]; t_root := [%d]; t_prepaid := %d |}, %d)",
		im.id, im.owner, im.evCoq, coqList(terms), im.owner, im.owner, im.limit+2510, im.limit)
}

// planImport: what InitGenesis is given: triggers whose height / time already lies in the past, is exactly
// the first block's, or is still to come, transaction-event triggers, and a few queued ones.
func (g *c17Gen) planImport(first time.Time) {
	r := g.r
	nReg, nQ := 1+r.Intn(4), r.Intn(3)
	id := uint64(1)
	for i := 0; i < nReg+nQ; i++ {
		id += uint64(r.Intn(3)) // gaps in the ids
		owner := r.Intn(g.nAcc)
		im := c17Imported{id: id, owner: owner, queued: i >= nReg}
		var ev c17Ev
		switch k := r.Intn(10); {
		case k < 3:
			h := []uint64{0, 1, 2, 3, 5}[r.Intn(5)] // the first block of the history has height 2
			ev = c17Ev{ev: &triggertypes.BlockHeightEvent{BlockHeight: h}, coq: fmt.Sprintf("(EvHeight %d)", h)}
		case k < 7:
			ds := []time.Duration{0, -1, 1, -time.Hour, -24 * 365 * time.Hour, 7 * time.Second, 400 * time.Millisecond, 12 * time.Second}
			tm := first.Add(ds[r.Intn(len(ds))])
			if r.Intn(8) == 0 {
				tm = time.Unix(0, int64(r.Intn(2))).UTC() // 1970-01-01: the smallest order keys
			}
			ev = c17Ev{ev: &triggertypes.BlockTimeEvent{Time: tm}, coq: fmt.Sprintf("(EvTime (%s))", c17Nanos(tm).String())}
		default:
			ev = g.genEvent()
			for ev.invalid || !ev.isTx {
				ev = g.genEvent()
			}
		}
		im.ev, im.evCoq = ev.ev, ev.coq
		na := 1 + r.Intn(2)
		for j := 0; j < na; j++ {
			a := g.genBasic([]int{owner}, false)
			for a.bad {
				a = g.genBasic([]int{owner}, false)
			}
			im.acts = append(im.acts, a)
		}
		im.limit = []uint64{3000, 60000, 150000, 400000, 900000, 2000000}[r.Intn(6)]
		g.su.imported = append(g.su.imported, im)
		g.acts[id] = im.acts
		g.auths[id] = []int{owner}
		id++
	}
	g.su.nextID = id + uint64(r.Intn(3))
}

func c17History(t *testing.T, r *rand.Rand, w *CaseWriter, hi int, cal *c17Cal) {
	const nAcc = 5
	accts := c17Accts(nAcc)
	g := &c17Gen{t: t, r: r, w: w, accts: accts, nAcc: nAcc, intern: map[string]int{"block-height": 1, "block-time": 2}, style: r.Intn(3), cal: cal,
		band: map[uint64]string{}, acts: map[uint64][]c17Act{}, auths: map[uint64][]int{}}
	g.su.trigBal, g.su.rBal = make([]int64, nAcc), make([]int64, nAcc)
	for i := 0; i < nAcc; i++ {
		switch r.Intn(4) {
		case 0:
			g.su.trigBal[i] = int64(r.Intn(60))
		default:
			g.su.trigBal[i] = int64(200 + r.Intn(3000))
		}
		g.su.rBal[i] = []int64{0, 20, 500, 500}[r.Intn(4)]
	}
	g.su.xfer = []int{r.Intn(nAcc)}
	if x := r.Intn(nAcc); x != g.su.xfer[0] {
		g.su.xfer = append(g.su.xfer, x)
	}
	g.su.rootOwner = r.Intn(nAcc)
	g.su.nextID = 1
	g.hugeH = r.Intn(4) == 0
	nBlocks := 5 + r.Intn(26)
	if tier() == "quick" && nBlocks > 18 {
		nBlocks = 10 + r.Intn(9)
	}
	// block times: a few seconds apart, with sub-second parts (none, round milliseconds, arbitrary nanoseconds)
	at := time.Unix(1_700_000_000, 0).UTC()
	for b := 0; b < nBlocks; b++ {
		dt := 5
		if r.Intn(6) == 0 {
			dt = 1 + r.Intn(30)
		}
		at = at.Truncate(time.Second).Add(time.Duration(dt) * time.Second)
		switch r.Intn(5) {
		case 0:
		case 1:
			at = at.Add(time.Duration(r.Intn(1000)) * time.Millisecond)
		case 2:
			at = at.Add(200 * time.Millisecond)
		case 3:
			at = at.Add(999_999_999)
		default:
			at = at.Add(time.Duration(r.Intn(1_000_000_000)))
		}
		g.times = append(g.times, at)
	}
	g.height = 1 // SetupWithGenesisAccounts + Commit leave the chain at height 1
	imported := r.Intn(4) == 0
	if imported {
		g.planImport(g.times[0])
		w.Count("histories_with_imported_trigger_genesis")
	}
	n := c17NewNet(t, accts, g.su)
	g.n = n
	if n.height != 1 {
		t.Fatalf("unexpected start height %d", n.height)
	}
	o0 := g.observe()
	da, db := n.digests()
	if g.style != 1 { // burst: many triggers become ready in the same block
		g.burstH = uint64(n.height) + 3 + uint64(r.Intn(4))
		bt := g.times[(2+r.Intn(5))%nBlocks]
		g.burstT = c17Nanos(bt.Add([]time.Duration{0, 1, -1, 400 * time.Millisecond, -400 * time.Millisecond}[r.Intn(5)])).Int64()
	}
	var blocks, descs []string
	executedAny, carried := false, false
	for b := 0; b < nBlocks; b++ {
		nt := r.Intn(7)
		g.bi = b
		if g.burstH > uint64(n.height+1) || g.burstT > c17Nanos(g.times[b]).Int64() {
			nt += 2
		}
		if b >= nBlocks-3 {
			nt = r.Intn(2) // let the queue drain
		}
		if len(g.queue) > 0 && r.Intn(100) < 30 {
			nt = 0 // a block without transactions: the stores may only change through the dispatched triggers
		}
		var plans []*c17Plan
		blocked := map[int]bool{}
		if nt > 0 && b < nBlocks-3 && r.Intn(100) < 12 {
			plans = g.planRace()
			w.Count("race_blocks")
			nt = 0
		} else if nt > 0 && b < nBlocks-3 && r.Intn(100) < 10 {
			plans = g.planOrder()
			w.Count("order_blocks")
			nt = 0
		}
		for i := 0; i < nt; i++ {
			var p *c17Plan
			n.lastSigners = nil
			switch k := r.Intn(20); {
			case k < 10:
				p = g.planCreate()
			case k < 13:
				p = g.planDestroy()
			case k < 17:
				p = g.planSend(c17EvtDen)
			default:
				p = g.planSend(c17TrigDen)
			}
			skip := false
			for _, s := range n.lastSigners {
				if blocked[s] {
					skip = true
				}
			}
			if skip {
				continue
			}
			// transactions that fail before or inside the ante handler do not advance sequences; the
			// accounts of a tx whose fate there is uncertain sign nothing else in this block
			if p.noAnte || p.lowGas {
				for _, s := range n.lastSigners {
					blocked[s] = true
				}
			} else {
				for _, s := range n.lastSigners {
					n.pendingSeq[s]++
				}
			}
			plans = append(plans, p)
		}
		txs := make([][]byte, len(plans))
		for i, p := range plans {
			txs[i] = p.bz
		}
		queuedBefore := len(g.queue)
		prevLimits := g.limits
		prevNext := g.nextID
		res := n.block(g.times[b], txs)
		if res == nil {
			descs = append(descs, fmt.Sprintf("h%d: CHAIN HALTED: %v", n.height, n.haltErr))
			w.Count("chain_halts")
			break
		}
		ob := g.observe()
		// executed triggers
		var exec, oracle []string
		var okIDs []uint64
		nExec, nFail := 0, 0
		for _, e := range res.Events {
			if e.Type != "provenance.trigger.v1.EventTriggerExecuted" {
				continue
			}
			idq, _ := c17Attr(e, "trigger_id")
			id, err := strconv.ParseUint(strings.Trim(idq, "\""), 10, 64)
			if err != nil {
				t.Fatalf("trigger id %q", idq)
			}
			okS, _ := c17Attr(e, "success")
			ok := okS == "true"
			exec = append(exec, fmt.Sprintf("(%d, %s)", id, coqBool(ok)))
			nExec++
			executedAny = true
			hetero, nested := false, false
			for _, a := range g.acts[id] {
				hetero = hetero || a.kind != "send"
				nested = nested || a.create
				w.Count("executed_action:" + strings.SplitN(a.kind, ":", 2)[0] + ":" + map[bool]string{true: "in-ok-trigger", false: "in-failed-trigger"}[ok])
			}
			band := "gas-unknown-band"
			if na := uint64(len(g.acts[id])); prevLimits[id] < 4000*na {
				band = "gas-surely-too-little"
			} else if prevLimits[id] >= 115000*na && !nested {
				band = "gas-ample"
			}
			if bd, has := g.band[id]; has {
				w.Count("precise:" + bd + ":" + map[bool]string{true: "ok", false: "failed"}[ok])
			}
			if ok {
				w.Count("triggers_executed_ok")
				w.Count("executed_ok:" + band)
				okIDs = append(okIDs, id)
				if hetero {
					w.Count("triggers_executed_ok_with_non_send_actions")
				}
			} else {
				nFail++
				w.Count("triggers_executed_failed")
				w.Count("executed_failed:" + band)
				if len(g.acts[id]) > 1 {
					w.Count("multi_action_triggers_failed")
				}
				oracle = append(oracle, strconv.FormatUint(id, 10))
			}
		}
		if nExec > 0 && queuedBefore > nExec {
			carried = true
			w.Count("blocks_with_carry_over")
		}
		// transactions
		var txT, resT, evT []string
		txIDs := map[uint64]bool{}
		for i, p := range plans {
			tr := res.TxResults[i]
			ok := tr.Code == 0
			w.Count("tx_" + p.kind)
			if ok {
				w.Count("tx_accepted")
				w.Count("tx_" + p.kind + "_accepted")
			} else {
				w.Count("tx_rejected")
			}
			w.Count("shape:" + p.shape + ":" + map[bool]string{true: "accepted", false: "rejected"}[ok])
			if ok {
				for _, e := range tr.Events {
					if !c17ListenTypes[strings.ToLower(strings.TrimSpace(e.Type))] {
						continue
					}
					if _, has := c17Attr(e, "msg_index"); !has {
						continue // ante and fee events are not part of the block's event history
					}
					var as []string
					keys := map[string]int{}
					for _, a := range e.Attributes {
						as = append(as, fmt.Sprintf("(%s, %s)", g.sym(a.Key), g.sym(a.Value)))
						keys[a.Key]++
					}
					for _, c := range keys {
						if c > 1 {
							w.Count("events_with_a_repeated_attribute_key")
							break
						}
					}
					evT = append(evT, fmt.Sprintf("{| em_type := %s; em_ltype := %s; em_attrs := %s |}", g.sym(e.Type), g.lsym(e.Type), coqList(as)))
				}
			}
			if p.kind == "emit" {
				descs = append(descs, fmt.Sprintf("h%d: %s -> %v", n.height, p.desc, ok))
				continue
			}
			term := p.coqPre
			rterm := "None"
			if p.kind == "create" {
				used := uint64(0)
				var id uint64
				if ok {
					var d sdk.TxMsgData
					if err := d.Unmarshal(tr.Data); err != nil || len(d.MsgResponses) != 1 {
						t.Fatalf("tx data: %v", err)
					}
					var resp triggertypes.MsgCreateTriggerResponse
					if err := resp.Unmarshal(d.MsgResponses[0].Value); err != nil {
						t.Fatal(err)
					}
					id = resp.Id
					txIDs[id] = true
					g.acts[id] = p.acts
					g.auths[id] = p.auths
					if p.band != "" {
						g.band[id] = p.band
					}
					if id > g.maxID {
						g.maxID = id
					}
					if lim, has := ob.limits[id]; has && uint64(tr.GasUsed) >= lim+2510 {
						used = uint64(tr.GasUsed) - lim - 2510
					}
					rterm = fmt.Sprintf("(Some (%d, %d))", id, tr.GasUsed)
				} else if tr.Codespace == "sdk" && tr.Code == 11 {
					used = p.gas // out of gas
					w.Count("create_out_of_gas")
				}
				term = fmt.Sprintf("%s %d", term, used)
			} else if ok {
				rterm = fmt.Sprintf("(Some (0, %d))", tr.GasUsed)
			}
			txT = append(txT, "("+term+")")
			resT = append(resT, rterm)
			descs = append(descs, fmt.Sprintf("h%d: %s -> %v", n.height, p.desc, ok))
		}
		// triggers created by actions: the ids of this block that no transaction answered with, in order, belong
		// to the successfully executed triggers that end in a creation, in order
		var parents []uint64
		for _, id := range okIDs {
			if a := g.acts[id]; len(a) > 0 && a[len(a)-1].create {
				parents = append(parents, id)
			}
		}
		var nested, nestO []string
		pi := 0
		for id := prevNext; id < ob.nextID; id++ {
			if txIDs[id] {
				continue
			}
			if pi >= len(parents) {
				w.Count("unattributed_new_trigger_ids")
				nested = append(nested, fmt.Sprintf("(0, %d, %d)", id, ob.limits[id]))
				continue
			}
			par := parents[pi]
			pi++
			lim := ob.limits[id] // 0 when it was destroyed again in the same block
			nested = append(nested, fmt.Sprintf("(%d, %d, %d)", par, id, lim))
			nestO = append(nestO, fmt.Sprintf("(%d, %d)", par, lim))
			w.Count("triggers_created_by_an_action")
			if id > g.maxID {
				g.maxID = id
			}
		}
		same := "None"
		na, nb := n.digests()
		if len(plans) == 0 {
			same = fmt.Sprintf("(Some (%s, %s))", coqBool(na == da), coqBool(nb == db))
			w.Count("blocks_without_transactions")
			if nExec > 0 && nFail == nExec {
				w.Count("quiet_blocks_with_only_failed_triggers")
				if na == da {
					w.Count("quiet_blocks_with_only_failed_triggers:stores_unchanged")
				}
			}
			if nExec > nFail && na != da {
				w.Count("quiet_blocks_with_successful_triggers:stores_changed")
			}
		}
		da, db = na, nb
		blk := fmt.Sprintf("{| b_height := %d; b_time := %s; b_oracle := %s; b_nest := %s; b_txs := %s; b_events := %s |}",
			n.height, c17Nanos(n.now).String(), coqList(oracle), coqList(nestO), coqList(txT), coqList(evT))
		obT := fmt.Sprintf("{| ob_exec := %s; ob_txres := %s; ob_reg := %s; ob_queue := %s; ob_bal := %s; ob_rbal := %s; ob_names := %s; ob_grants := %s; ob_nested := %s; ob_same := %s |}",
			coqList(exec), coqList(resT), ob.reg, ob.queue, ob.bal, ob.rbal, ob.names, ob.grants, coqList(nested), same)
		blocks = append(blocks, "("+blk+",\n    "+obT+")")
		if len(exec) > 0 {
			descs = append(descs, fmt.Sprintf("h%d: executed %v; queue now %s", n.height, exec, ob.queue))
		}
		w.Count("blocks")
		w.CountN("events_in_history", int64(len(evT)))
	}
	accN := make([]int, nAcc)
	for i := range accN {
		accN[i] = i
	}
	var regE, qE []string
	for _, im := range g.su.imported {
		if im.queued {
			qE = append(qE, g.entryTerm(im))
		} else {
			regE = append(regE, g.entryTerm(im))
		}
	}
	start := fmt.Sprintf("{| st_cfg := {| xfer_admins := %s; root_owner := %d |}; st_bal := %s; st_rbal := %s; st_reg := %s; st_queue := %s; st_next := %d |}",
		c17NList(g.su.xfer), g.su.rootOwner, o0.bal, o0.rbal, coqList(regE), coqList(qE), g.su.nextID)
	ctor := "CHist"
	if n.haltErr != nil {
		ctor = "CHalt"
	}
	w.Add(fmt.Sprintf("(%s %s\n   %s %d\n   %s)%%N", ctor, c17NList(accN), start, cal.cMin, coqList(blocks)),
		map[string]any{"history": hi, "blocks": nBlocks, "imported": imported, "steps": descs})
	w.Count("histories")
	if carried {
		w.Count("histories_with_carry_over")
	}
	if executedAny {
		sort.Strings(descs)
		w.Nontrivial(fmt.Sprintf("%d/%s", hi, strings.Join(descs, ";")))
	}
}

func TestC17(t *testing.T) {
	r := newRand("C17")
	w := NewCaseWriter("C17", "PV.Corr.C17", "check_all", 25)
	nh := scale(100, 1500)
	cal := c17Calibrate(t, w)
	for hi := 0; hi < nh; hi++ {
		c17History(t, r, w, hi, cal)
	}
	w.Flush(t)
}
