//go:build c06

package harness

import (
	"fmt"
	"math/rand"
	"strings"
	"testing"
	"time"

	sdkmath "cosmossdk.io/math"
	sdk "github.com/cosmos/cosmos-sdk/types"
	"github.com/cosmos/cosmos-sdk/types/query"
	authtypes "github.com/cosmos/cosmos-sdk/x/auth/types"
	banktypes "github.com/cosmos/cosmos-sdk/x/bank/types"
	"github.com/cosmos/cosmos-sdk/x/gov"
	govtypes "github.com/cosmos/cosmos-sdk/x/gov/types"
	govv1 "github.com/cosmos/cosmos-sdk/x/gov/types/v1"
	minttypes "github.com/cosmos/cosmos-sdk/x/mint/types"
	stakingtypes "github.com/cosmos/cosmos-sdk/x/staking/types"

	simapp "github.com/provenance-io/provenance/app"
	sanctionkeeper "github.com/provenance-io/provenance/x/sanction/keeper"
	markertypes "github.com/provenance-io/provenance/x/marker/types"
	"github.com/provenance-io/provenance/x/quarantine"
	"github.com/provenance-io/provenance/x/sanction"
)

// C06: histories of governance proposals carrying sanction-module messages, driven through the
// REAL gov module (message handlers + EndBlocker), the real sanction keeper hooked into it and
// the real bank with its send-restriction chain.  After every step the harness records what the
// implementation shows; coq/Corr/C06.v replays the same operations on the model and evaluates
// the property's checker on the observations.

const (
	c06GovMin  = 1000 // gov MinDeposit, bond denom (denom A)
	c06GovMinB = 20   // gov MinDeposit, second deposit denom (denom B)
	c06DenomB  = "bbbcoin"
	c06NUsers  = 5    // universe ids 0..4 = plain accounts (id 3 = a 32-byte address extending id 2's 20 bytes)
	c06IDGov   = 5    // universe id 5 = gov module account  (unsanctionable)
	c06IDQuar  = 6    // universe id 6 = quarantine funds holder (unsanctionable)
	c06NProt   = 5    // universe ids 5..9 = protected accounts (gov, quarantine holder, fee collector, bonded pool, marker module)
	c06ExpMin  = 5 * c06GovMin // gov ExpeditedMinDeposit (bond denom only)
	c06T0      = int64(1_700_000_000)
)

// the protected accounts of the universe, in id order
func c06Protected() []sdk.AccAddress {
	return []sdk.AccAddress{
		authtypes.NewModuleAddress(govtypes.ModuleName),
		authtypes.NewModuleAddress(quarantine.ModuleName),
		authtypes.NewModuleAddress(authtypes.FeeCollectorName),
		authtypes.NewModuleAddress(stakingtypes.BondedPoolName),
		authtypes.NewModuleAddress(markertypes.ModuleName),
	}
}

type c06Env struct {
	t       *testing.T
	app     *simapp.App
	base    sdk.Context
	bond    string
	valAddr string
	voter   sdk.AccAddress
	govAddr sdk.AccAddress
	// tally thresholds of the gov params in permille
	thr, expThr, veto int64
}

type c06Hist struct {
	e     *c06Env
	ctx   sdk.Context
	now   int64
	addrs []sdk.AccAddress // universe, index = id
	// generator-side mirror, only used to pick mostly valid operations
	proposer map[uint64]int
	lastObs  c06Obs
	idx      map[string]int // bech32 -> universe id
	govMinB  int64 // denom-B component of the gov MinDeposit of this history (0 = denom B is not a deposit denom)
	dp       int64 // gov MaxDepositPeriod as last set
}

type c06Obs struct {
	ok    bool
	sanct []int
	perm  []int
	temps [][3]int64 // addr id, proposal id, 1 = sanction / 0 = unsanction
	live  []uint64
	pinfo [][3]int64 // proposal id, 1 = in voting period, 1 = expedited (live proposals)
	passed []uint64  // proposals that stopped being live in this step and are now PASSED
	bals  []int64
	deps  [][3]int64 // proposal id, total deposit A, total deposit B (live proposals)
	balsb []int64
	smin  [2]int64
	umin  [2]int64
}

func c06Deliver(app *simapp.App, ctx sdk.Context, msg sdk.Msg) error {
	return try(func() error {
		if vb, ok := msg.(interface{ ValidateBasic() error }); ok {
			if err := vb.ValidateBasic(); err != nil {
				return err
			}
		}
		h := app.MsgServiceRouter().Handler(msg)
		if h == nil {
			return fmt.Errorf("no handler for %T", msg)
		}
		_, err := h(ctx, msg)
		return err
	})
}

func (h *c06Hist) idOf(bech string) int {
	if len(h.idx) != len(h.addrs) {
		h.idx = map[string]int{}
		for i, a := range h.addrs {
			h.idx[a.String()] = i
		}
	}
	if i, ok := h.idx[bech]; ok {
		return i
	}
	return 99999
}

func (h *c06Hist) observe(ok bool) c06Obs {
	e := h.e
	o := c06Obs{ok: ok}
	for i, a := range h.addrs {
		resp, err := e.app.SanctionKeeper.IsSanctioned(h.ctx, &sanction.QueryIsSanctionedRequest{Address: a.String()})
		if err != nil {
			e.t.Fatalf("IsSanctioned query: %v", err)
		}
		if resp.IsSanctioned != e.app.SanctionKeeper.IsSanctionedAddr(h.ctx, a) {
			e.t.Fatalf("IsSanctioned query and keeper disagree for %d", i)
		}
		if resp.IsSanctioned {
			o.sanct = append(o.sanct, i)
		}
	}
	pr, err := e.app.SanctionKeeper.SanctionedAddresses(h.ctx, &sanction.QuerySanctionedAddressesRequest{Pagination: &query.PageRequest{Limit: 10000}})
	if err != nil {
		e.t.Fatalf("SanctionedAddresses query: %v", err)
	}
	for _, a := range pr.Addresses {
		o.perm = append(o.perm, h.idOf(a))
	}
	tr, err := e.app.SanctionKeeper.TemporaryEntries(h.ctx, &sanction.QueryTemporaryEntriesRequest{Pagination: &query.PageRequest{Limit: 10000}})
	if err != nil {
		e.t.Fatalf("TemporaryEntries query: %v", err)
	}
	for _, te := range tr.Entries {
		var b int64
		switch te.Status {
		case sanction.TEMP_STATUS_SANCTIONED:
			b = 1
		case sanction.TEMP_STATUS_UNSANCTIONED:
			b = 0
		default:
			e.t.Fatalf("temporary entry with status %v", te.Status)
		}
		o.temps = append(o.temps, [3]int64{int64(h.idOf(te.Address)), int64(te.ProposalId), b})
	}
	err = e.app.GovKeeper.Proposals.Walk(h.ctx, nil, func(id uint64, p govv1.Proposal) (bool, error) {
		if p.Status == govv1.StatusDepositPeriod || p.Status == govv1.StatusVotingPeriod {
			o.live = append(o.live, id)
			var vot, exp int64
			if p.Status == govv1.StatusVotingPeriod {
				vot = 1
			}
			if p.Expedited {
				exp = 1
			}
			o.pinfo = append(o.pinfo, [3]int64{int64(id), vot, exp})
			td := sdk.NewCoins(p.TotalDeposit...)
			if len(td) > 2 || (len(td) == 2 && (td.AmountOf(e.bond).IsZero() || td.AmountOf(c06DenomB).IsZero())) {
				e.t.Fatalf("deposit in an unexpected denom: %s", td)
			}
			o.deps = append(o.deps, [3]int64{int64(id), td.AmountOf(e.bond).Int64(), td.AmountOf(c06DenomB).Int64()})
		}
		return false, nil
	})
	if err != nil {
		e.t.Fatalf("walk proposals: %v", err)
	}
	for _, pid := range h.lastObs.live {
		if !containsPid(o.live, pid) {
			if p, err := e.app.GovKeeper.Proposals.Get(h.ctx, pid); err == nil && p.Status == govv1.StatusPassed {
				o.passed = append(o.passed, pid)
			}
		}
	}
	for i := 0; i < c06NUsers; i++ {
		o.bals = append(o.bals, e.app.BankKeeper.GetBalance(h.ctx, h.addrs[i], e.bond).Amount.Int64())
		o.balsb = append(o.balsb, e.app.BankKeeper.GetBalance(h.ctx, h.addrs[i], c06DenomB).Amount.Int64())
	}
	qp, err := e.app.SanctionKeeper.Params(h.ctx, &sanction.QueryParamsRequest{})
	if err != nil {
		e.t.Fatalf("Params query: %v", err)
	}
	pair := func(c sdk.Coins) [2]int64 {
		a, b := c.AmountOf(e.bond), c.AmountOf(c06DenomB)
		n := 0
		if a.IsPositive() {
			n++
		}
		if b.IsPositive() {
			n++
		}
		if len(c) != n {
			e.t.Fatalf("params in an unexpected denom: %s", c)
		}
		return [2]int64{a.Int64(), b.Int64()}
	}
	o.smin = pair(qp.Params.ImmediateSanctionMinDeposit)
	o.umin = pair(qp.Params.ImmediateUnsanctionMinDeposit)
	return o
}

func nList(xs []int) string {
	items := make([]string, len(xs))
	for i, x := range xs {
		items[i] = fmt.Sprintf("%d%%N", x)
	}
	return coqList(items)
}

func (o c06Obs) coq() string {
	var temps, live, bals []string
	for _, t := range o.temps {
		temps = append(temps, fmt.Sprintf("(%d%%N, %d%%N, %s)", t[0], t[1], coqBool(t[2] == 1)))
	}
	for _, l := range o.live {
		live = append(live, fmt.Sprintf("%d%%N", l))
	}
	for i, b := range o.bals {
		bals = append(bals, fmt.Sprintf("(%d%%N, %s)", i, zI64(b)))
	}
	var balsb, deps, pinfo, passed []string
	for _, pp := range o.passed {
		passed = append(passed, fmt.Sprintf("%d%%N", pp))
	}
	for _, pi := range o.pinfo {
		pinfo = append(pinfo, fmt.Sprintf("(%d%%N, (%s, %s))", pi[0], coqBool(pi[1] == 1), coqBool(pi[2] == 1)))
	}
	for i, b := range o.balsb {
		balsb = append(balsb, fmt.Sprintf("(%d%%N, %s)", i, zI64(b)))
	}
	for _, d := range o.deps {
		deps = append(deps, fmt.Sprintf("(%d%%N, %s)", d[0], pair2(d[1], d[2])))
	}
	return fmt.Sprintf("{| o_ok := %s; o_sanct := %s; o_perm := %s; o_temps := %s; o_live := %s; o_pinfo := %s; o_passed := %s; o_deps := %s; o_bals := %s; o_balsb := %s; o_smin := %s; o_umin := %s |}",
		coqBool(o.ok), nList(o.sanct), nList(o.perm), coqList(temps), coqList(live), coqList(pinfo), coqList(passed), coqList(deps), coqList(bals), coqList(balsb),
		pair2(o.smin[0], o.smin[1]), pair2(o.umin[0], o.umin[1]))
}

func (o c06Obs) json() map[string]any {
	return map[string]any{"ok": o.ok, "sanctioned": o.sanct, "permanent": o.perm, "temporary": o.temps, "live_proposals": o.live, "proposal_voting_expedited": o.pinfo, "passed_in_this_step": o.passed,
		"total_deposits": o.deps, "balances": o.bals, "balances_b": o.balsb, "immediate_sanction_min": o.smin, "immediate_unsanction_min": o.umin}
}

func pair2(a, b int64) string { return fmt.Sprintf("(%s, %s)", zI64(a), zI64(b)) }

// ---- operations ----

type c06Msg struct {
	kind  int // 0 sanction, 1 unsanction, 2 params
	addrs []int
	a, b  [2]int64 // params update: immediate sanction / unsanction minimum (denom A, denom B)
}

func (m c06Msg) coq() string {
	switch m.kind {
	case 0:
		return "MSanction " + nList(m.addrs)
	case 1:
		return "MUnsanction " + nList(m.addrs)
	}
	return fmt.Sprintf("MParams %s %s", pair2(m.a[0], m.a[1]), pair2(m.b[0], m.b[1]))
}

func (m c06Msg) String() string { return m.coq() }

func (h *c06Hist) sdkMsg(m c06Msg, authority string) sdk.Msg {
	var as []sdk.AccAddress
	for _, i := range m.addrs {
		as = append(as, h.addrs[i])
	}
	switch m.kind {
	case 0:
		return sanction.NewMsgSanction(authority, as...)
	case 1:
		return sanction.NewMsgUnsanction(authority, as...)
	}
	return sanction.NewMsgUpdateParams(authority, h.coins2(m.a[0], m.a[1]), h.coins2(m.b[0], m.b[1]))
}

func (h *c06Hist) coins(v int64) sdk.Coins {
	if v <= 0 {
		return sdk.NewCoins()
	}
	return sdk.NewCoins(sdk.NewInt64Coin(h.e.bond, v))
}

// coins2 builds a coin set from amounts of the two deposit denoms (non-positive = absent).
func (h *c06Hist) coins2(a, b int64) sdk.Coins {
	cs := sdk.NewCoins()
	if a > 0 {
		cs = cs.Add(sdk.NewInt64Coin(h.e.bond, a))
	}
	if b > 0 {
		cs = cs.Add(sdk.NewInt64Coin(c06DenomB, b))
	}
	return cs
}

func (h *c06Hist) setGovPeriods(dp, vp int64) {
	gp, err := h.e.app.GovKeeper.Params.Get(h.ctx)
	if err != nil {
		h.e.t.Fatal(err)
	}
	d, v, ev := time.Duration(dp)*time.Second, time.Duration(vp)*time.Second, time.Duration(vp/2)*time.Second
	gp.MaxDepositPeriod = &d
	gp.VotingPeriod = &v
	gp.ExpeditedVotingPeriod = &ev // convention of the model: half the voting period
	h.dp = dp
	if err := h.e.app.GovKeeper.Params.Set(h.ctx, gp); err != nil {
		h.e.t.Fatal(err)
	}
}

// apply runs f in a cache context and writes it only on success.
func (h *c06Hist) apply(f func(ctx sdk.Context) error) bool {
	cctx, write := h.ctx.CacheContext()
	err := try(func() error { return f(cctx) })
	if err == nil {
		write()
	}
	return err == nil
}

type c06Op struct {
	term string
	desc string
	kind string
	run  func(h *c06Hist) bool
}

func opSubmit(h *c06Hist, who int, ms []c06Msg, dep, dp, vp int64) c06Op {
	return opSubmit3(h, who, ms, dep, 0, dp, vp, false)
}

func opSubmit2(h *c06Hist, who int, ms []c06Msg, dep, depB, dp, vp int64) c06Op {
	return opSubmit3(h, who, ms, dep, depB, dp, vp, false)
}

func opSubmit3(h *c06Hist, who int, ms []c06Msg, dep, depB, dp, vp int64, expedited bool) c06Op {
	var mt []string
	for _, m := range ms {
		mt = append(mt, m.coq())
	}
	term := fmt.Sprintf("OSubmit %d%%N %s %s %s %s %s", who, coqList(mt), pair2(dep, depB), zI64(dp), zI64(vp), coqBool(expedited))
	return c06Op{term: term, desc: term, kind: "submit", run: func(h *c06Hist) bool {
		h.setGovPeriods(dp, vp)
		var msgs []sdk.Msg
		for _, m := range ms {
			msgs = append(msgs, h.sdkMsg(m, h.e.govAddr.String()))
		}
		next, err := h.e.app.GovKeeper.ProposalID.Peek(h.ctx)
		if err != nil {
			h.e.t.Fatal(err)
		}
		return h.apply(func(ctx sdk.Context) error {
			msg, err := govv1.NewMsgSubmitProposal(msgs, h.coins2(dep, depB), h.addrs[who].String(), "", "c06 title", "c06 summary", expedited)
			if err != nil {
				return err
			}
			if err := c06Deliver(h.e.app, ctx, msg); err != nil {
				return err
			}
			h.proposer[next] = who
			return nil
		})
	}}
}

func opDeposit(who int, pid uint64, amt, vp int64) c06Op { return opDeposit2(who, pid, amt, 0, vp) }

func opDeposit2(who int, pid uint64, amt, amtB, vp int64) c06Op {
	term := fmt.Sprintf("ODeposit %d%%N %d%%N %s %s", who, pid, pair2(amt, amtB), zI64(vp))
	return c06Op{term: term, desc: term, kind: "deposit", run: func(h *c06Hist) bool {
		h.setGovPeriods(h.dp, vp)
		return h.apply(func(ctx sdk.Context) error {
			return c06Deliver(h.e.app, ctx, govv1.NewMsgDeposit(h.addrs[who], pid, h.coins2(amt, amtB)))
		})
	}}
}

// a ballot: weights of Yes, Abstain, No, NoWithVeto in permille
type c06Ballot [4]int64

var (
	c06Yes     = c06Ballot{1000, 0, 0, 0}
	c06Abstain = c06Ballot{0, 1000, 0, 0}
	c06No      = c06Ballot{0, 0, 1000, 0}
	c06Veto    = c06Ballot{0, 0, 0, 1000}
)

func opVote(pid uint64, yes bool) c06Op {
	if yes {
		return opBallot(pid, c06Yes)
	}
	return opBallot(pid, c06No)
}

func opBallot(pid uint64, b c06Ballot) c06Op {
	term := fmt.Sprintf("OVote %d%%N (%s, %s, %s, %s)", pid, zI64(b[0]), zI64(b[1]), zI64(b[2]), zI64(b[3]))
	return c06Op{term: term, desc: term, kind: "vote", run: func(h *c06Hist) bool {
		opts := []govv1.VoteOption{govv1.OptionYes, govv1.OptionAbstain, govv1.OptionNo, govv1.OptionNoWithVeto}
		return h.apply(func(ctx sdk.Context) error {
			for i, w := range b {
				if w == 1000 && b[0]+b[1]+b[2]+b[3] == 1000 {
					return c06Deliver(h.e.app, ctx, govv1.NewMsgVote(h.e.voter, pid, opts[i], ""))
				}
			}
			var ws govv1.WeightedVoteOptions
			for i, w := range b {
				if w != 0 {
					ws = append(ws, &govv1.WeightedVoteOption{Option: opts[i], Weight: sdkmath.LegacyNewDecWithPrec(w, 3).String()})
				}
			}
			return c06Deliver(h.e.app, ctx, govv1.NewMsgVoteWeighted(h.e.voter, pid, ws, ""))
		})
	}}
}

func opCancel(who int, pid uint64) c06Op {
	term := fmt.Sprintf("OCancel %d%%N %d%%N", who, pid)
	return c06Op{term: term, desc: term, kind: "cancel", run: func(h *c06Hist) bool {
		return h.apply(func(ctx sdk.Context) error {
			return c06Deliver(h.e.app, ctx, govv1.NewMsgCancelProposal(pid, h.addrs[who].String()))
		})
	}}
}

func opNewBlock(t int64) c06Op { return opNewBlockVP(t, 250) }

func opNewBlockVP(t, vp int64) c06Op {
	term := fmt.Sprintf("ONewBlock %s %s", zI64(t), zI64(vp))
	return c06Op{term: term, desc: term, kind: "newblock", run: func(h *c06Hist) bool {
		h.setGovPeriods(h.dp, vp)
		ok := h.apply(func(ctx sdk.Context) error { return gov.EndBlocker(ctx, &h.e.app.GovKeeper) })
		// an EndBlocker error or panic would halt the chain; it is recorded as a rejected step (the
		// property checker flags it: prop:governance end blocker failed) and the history goes on
		h.now = t
		h.ctx = h.ctx.WithBlockTime(time.Unix(t, 0).UTC()).WithBlockHeight(h.ctx.BlockHeight() + 1)
		return ok
	}}
}

func opDirect(h *c06Hist, authOK bool, m c06Msg, stranger int) c06Op {
	term := fmt.Sprintf("ODirect %s (%s)", coqBool(authOK), m.coq())
	return c06Op{term: term, desc: term, kind: "direct", run: func(h *c06Hist) bool {
		auth := h.e.govAddr.String()
		if !authOK {
			auth = h.addrs[stranger].String()
		}
		return h.apply(func(ctx sdk.Context) error { return c06Deliver(h.e.app, ctx, h.sdkMsg(m, auth)) })
	}}
}

func opSend(from, to int, amt int64) c06Op {
	term := fmt.Sprintf("OSend %d%%N %d%%N %s", from, to, zI64(amt))
	return c06Op{term: term, desc: term, kind: "send", run: func(h *c06Hist) bool {
		return h.apply(func(ctx sdk.Context) error {
			return c06Deliver(h.e.app, ctx, banktypes.NewMsgSend(h.addrs[from], h.addrs[to], h.coins(amt)))
		})
	}}
}

func pairList(xs [][2]int64) string {
	var items []string
	for _, x := range xs {
		items = append(items, fmt.Sprintf("(%d%%N, %s)", x[0], zI64(x[1])))
	}
	return coqList(items)
}

func opMultiSend(from int, outs [][2]int64) c06Op {
	term := fmt.Sprintf("OMultiSend %d%%N %s", from, pairList(outs))
	return c06Op{term: term, desc: term, kind: "multisend", run: func(h *c06Hist) bool {
		var total int64
		var os []banktypes.Output
		for _, o := range outs {
			total += o[1]
			os = append(os, banktypes.NewOutput(h.addrs[o[0]], h.coins(o[1])))
		}
		return h.apply(func(ctx sdk.Context) error {
			return c06Deliver(h.e.app, ctx, banktypes.NewMsgMultiSend(banktypes.NewInput(h.addrs[from], h.coins(total)), os))
		})
	}}
}

// many inputs, one output: the bank primitive behind exchange settlements.
func opManyToOne(ins [][2]int64, to int) c06Op {
	term := fmt.Sprintf("OManyToOne %s %d%%N", pairList(ins), to)
	return c06Op{term: term, desc: term, kind: "manytoone", run: func(h *c06Hist) bool {
		var total int64
		var is []banktypes.Input
		for _, i := range ins {
			total += i[1]
			is = append(is, banktypes.NewInput(h.addrs[i[0]], h.coins(i[1])))
		}
		return h.apply(func(ctx sdk.Context) error {
			return h.e.app.BankKeeper.InputOutputCoinsProv(ctx, is, []banktypes.Output{banktypes.NewOutput(h.addrs[to], h.coins(total))})
		})
	}}
}

func opDelegate(from int, amt int64) c06Op {
	term := fmt.Sprintf("ODelegate %d%%N %s", from, zI64(amt))
	return c06Op{term: term, desc: term, kind: "delegate", run: func(h *c06Hist) bool {
		return h.apply(func(ctx sdk.Context) error {
			return c06Deliver(h.e.app, ctx, stakingtypes.NewMsgDelegate(h.addrs[from].String(), h.e.valAddr, sdk.NewInt64Coin(h.e.bond, amt)))
		})
	}}
}

// the transfer the fee decorator makes: account -> fee collector module.
func opPayFee(from int, amt int64) c06Op {
	term := fmt.Sprintf("OPayFee %d%%N %s", from, zI64(amt))
	return c06Op{term: term, desc: term, kind: "payfee", run: func(h *c06Hist) bool {
		return h.apply(func(ctx sdk.Context) error {
			if amt <= 0 {
				return fmt.Errorf("no fee")
			}
			return h.e.app.BankKeeper.SendCoinsFromAccountToModule(ctx, h.addrs[from], authtypes.FeeCollectorName, h.coins(amt))
		})
	}}
}

func opFund(to int, amt int64) c06Op {
	term := fmt.Sprintf("OFund %d%%N %s", to, zI64(amt))
	return c06Op{term: term, desc: term, kind: "fund", run: func(h *c06Hist) bool {
		return h.apply(func(ctx sdk.Context) error {
			if err := h.e.app.BankKeeper.MintCoins(ctx, minttypes.ModuleName, h.coins(amt)); err != nil {
				return err
			}
			return h.e.app.BankKeeper.SendCoinsFromModuleToAccount(ctx, minttypes.ModuleName, h.addrs[to], h.coins(amt))
		})
	}}
}

func containsPid(xs []uint64, p uint64) bool {
	for _, x := range xs {
		if x == p {
			return true
		}
	}
	return false
}

// ---- store keys and raw store ----

func coqBytes(b []byte) string {
	items := make([]string, len(b))
	for i, x := range b {
		items[i] = fmt.Sprintf("%d%%N", x)
	}
	return coqList(items)
}

// c06KeyCases: the key constructors of x/sanction/keeper/keys.go against the byte-level model.
func c06KeyCases(r *rand.Rand, w *CaseWriter) {
	var addrs [][]byte
	base := []byte(addrN(42))
	long := append(append([]byte{}, base...), []byte("extension_12")...)
	addrs = append(addrs, base, long, base[:19], []byte{0x00}, []byte{0xFF}, make([]byte, 20), make([]byte, 32))
	for _, last := range []byte{0x00, 0xFF, 0x7F} {
		a20, a32 := make([]byte, 20), make([]byte, 32)
		r.Read(a20)
		copy(a32, a20)
		r.Read(a32[20:])
		a20[19], a32[31] = last, last
		addrs = append(addrs, a20, a32)
	}
	ff := make([]byte, 255)
	for i := range ff {
		ff[i] = 0xFF
	}
	addrs = append(addrs, ff)
	addrs = append(addrs, c06Protected()[0], c06Protected()[1])
	pids := []uint64{0, 1, 255, 256, 257, 65535, 65536, 1<<32 - 1, 1 << 32, 1<<56 - 1, 1 << 56, 1<<63 - 1, 1 << 63, 1<<64 - 1, uint64(r.Int63()), uint64(r.Int63()) << 1}
	for _, a := range addrs {
		for _, pid := range pids {
			p := pid
			term := fmt.Sprintf("CKeys %s %d%%N %s %s %s %s %s", coqBytes(a), pid,
				coqBytes(sanctionkeeper.CreateSanctionedAddrKey(a)), coqBytes(sanctionkeeper.CreateTemporaryAddrPrefix(a)),
				coqBytes(sanctionkeeper.CreateTemporaryKey(a, pid)), coqBytes(sanctionkeeper.CreateProposalTempIndexPrefix(&p)),
				coqBytes(sanctionkeeper.CreateProposalTempIndexKey(pid, a)))
			w.Add(term, map[string]any{"kind": "keys", "address_len": len(a), "address_last_byte": a[len(a)-1], "proposal_id": pid})
			w.Count("key_cases")
			w.Nontrivial(fmt.Sprintf("keys/%x/%d", a, pid))
		}
	}
}

// storeCase dumps the sanction store of the history's context with what the keeper answers.
func (h *c06Hist) storeCase(w *CaseWriter, hi int) {
	store := h.ctx.KVStore(h.e.app.GetKey(sanction.StoreKey))
	it := store.Iterator(nil, nil)
	var raw []string
	nTemp := 0
	for ; it.Valid(); it.Next() {
		k, v := it.Key(), it.Value()
		if len(k) == 0 || k[0] == 0 { // params
			continue
		}
		if len(v) != 1 {
			h.e.t.Fatalf("sanction store value of %d bytes under key %x", len(v), k)
		}
		if k[0] == 2 {
			nTemp++
		}
		raw = append(raw, fmt.Sprintf("(%s, %d%%N)", coqBytes(k), v[0]))
	}
	it.Close()
	var addrs, un, listing []string
	for i, a := range h.addrs {
		addrs = append(addrs, fmt.Sprintf("(%s, %s)", coqBytes(a), coqBool(h.e.app.SanctionKeeper.IsSanctionedAddr(h.ctx, a))))
		if i >= c06NUsers && i < c06NUsers+c06NProt {
			un = append(un, coqBytes(a))
		}
	}
	h.e.app.SanctionKeeper.IterateTemporaryEntries(h.ctx, nil, func(addr sdk.AccAddress, pid uint64, isSanction bool) bool {
		v := 0
		if isSanction {
			v = 1
		}
		listing = append(listing, fmt.Sprintf("(%s, %d%%N, %d%%N)", coqBytes(addr), pid, v))
		return false
	})
	term := fmt.Sprintf("CStore %s %s\n    %s\n    %s", coqList(un), coqList(addrs), coqList(raw), coqList(listing))
	w.Add(term, map[string]any{"kind": "store", "index": hi, "keys": len(raw), "temporary_entries": len(listing)})
	w.Count("store_cases")
	if nTemp > 0 {
		w.Count("store_cases_with_temporary_entries")
		w.Nontrivial(fmt.Sprintf("store/%d/%s", hi, strings.Join(raw, "|")))
	}
}

// ---- generators ----

func pick64(r *rand.Rand, xs ...int64) int64 { return xs[r.Intn(len(xs))] }

func (h *c06Hist) randAddrs(r *rand.Rand) []int {
	n := 1 + r.Intn(3)
	seen := map[int]bool{}
	var out []int
	for len(out) < n {
		var a int
		if r.Intn(9) == 0 {
			a = c06IDGov + r.Intn(c06NProt) // a protected address
		} else {
			a = r.Intn(c06NUsers)
		}
		if r.Intn(3) == 0 && len(h.lastObs.sanct) > 0 { // overlap with already affected accounts
			a = h.lastObs.sanct[r.Intn(len(h.lastObs.sanct))]
		}
		if !seen[a] {
			seen[a] = true
			out = append(out, a)
		}
	}
	return out
}

func (h *c06Hist) randMsg(r *rand.Rand) c06Msg {
	switch x := r.Intn(20); {
	case x < 11:
		return c06Msg{kind: 0, addrs: h.randAddrs(r)}
	case x < 18:
		return c06Msg{kind: 1, addrs: h.randAddrs(r)}
	default:
		return c06Msg{kind: 2, a: c06Thresholds[r.Intn(len(c06Thresholds))], b: c06Thresholds[r.Intn(len(c06Thresholds))]}
	}
}

// immediate minimum deposits: off, one denom (A or B), or both denoms; below and above the gov minimum
var c06Thresholds = [][2]int64{{0, 0}, {300, 0}, {300, 10}, {700, 30}, {1500, 0}, {0, 30}, {200, 60}, {400, 0}, {400, 10}, {1200, 25}, {200, 0}}

// depositAmountB picks the denom-B part of a deposit: often nothing, else around each B component.
func (h *c06Hist) depositAmountB(r *rand.Rand) int64 {
	if r.Intn(5) < 2 {
		return 0
	}
	s, u := h.lastObs.smin[1], h.lastObs.umin[1]
	g := h.govMinB
	v := pick64(r, 1, 5, s-1, s, s+1, u-1, u, u+1, g-1, g, g, g+1, 40, 70)
	if v < 0 {
		v = 0
	}
	return v
}

func (h *c06Hist) depositAmount(r *rand.Rand) int64 {
	s, u := h.lastObs.smin[0], h.lastObs.umin[0]
	return pick64(r, 1, 50, 100, s-1, s, s+1, u-1, u, u+1, c06GovMin-1, c06GovMin, c06GovMin, c06GovMin, c06GovMin+1, 400, 600, 1600, s-100, u-100, c06ExpMin, c06ExpMin-1)
}

func (h *c06Hist) sender(r *rand.Rand) int {
	var us []int
	for _, a := range h.lastObs.sanct {
		if a < c06NUsers {
			us = append(us, a)
		}
	}
	if len(us) > 0 && r.Intn(2) == 0 {
		return us[r.Intn(len(us))]
	}
	return r.Intn(c06NUsers)
}

func (h *c06Hist) amountFor(r *rand.Rand, from int) int64 {
	b := h.lastObs.bals[from]
	switch r.Intn(10) {
	case 0:
		return b + 1
	case 1:
		return b
	default:
		if b <= 1 {
			return 1
		}
		return 1 + r.Int63n(minI64(b, 400))
	}
}

func minI64(a, b int64) int64 {
	if a < b {
		return a
	}
	return b
}

func (h *c06Hist) livePid(r *rand.Rand) uint64 {
	if len(h.lastObs.live) > 0 && r.Intn(10) != 0 {
		return h.lastObs.live[r.Intn(len(h.lastObs.live))]
	}
	next, _ := h.e.app.GovKeeper.ProposalID.Peek(h.ctx)
	return uint64(r.Int63n(int64(next) + 2))
}

// votingPid picks a proposal that is in its voting period (falls back to any live one).
func (h *c06Hist) votingPid(r *rand.Rand) uint64 {
	var vs []uint64
	for _, pid := range h.lastObs.live {
		if p, err := h.e.app.GovKeeper.Proposals.Get(h.ctx, pid); err == nil && p.Status == govv1.StatusVotingPeriod {
			vs = append(vs, pid)
		}
	}
	if len(vs) > 0 && r.Intn(8) != 0 {
		return vs[r.Intn(len(vs))]
	}
	return h.livePid(r)
}

func (h *c06Hist) randOp(r *rand.Rand) c06Op {
	nlive := len(h.lastObs.live)
	x := r.Intn(100)
	for _, pi := range h.lastObs.pinfo {
		// an expedited proposal is being voted on: let time pass more often, so that it is tallied
		if pi[1] == 1 && pi[2] == 1 && r.Intn(5) < 2 {
			return opNewBlockVP(h.now+pick64(r, 1, 100, 150, 300), pick64(r, 100, 250, 400))
		}
		if pi[1] == 1 && pi[2] == 1 && r.Intn(12) == 0 {
			// governance changes the immediate minimums while an expedited proposal is being voted on:
			// its conversion is the next time the hook looks at it
			return opDirect(h, true, c06Msg{kind: 2, a: c06Thresholds[r.Intn(len(c06Thresholds))], b: c06Thresholds[r.Intn(len(c06Thresholds))]}, 0)
		}
	}
	switch {
	case x < 14 && nlive < 4 || nlive == 0 && x < 40:
		var ms []c06Msg
		for i, n := 0, 1+r.Intn(2); i < n; i++ {
			ms = append(ms, h.randMsg(r))
		}
		if r.Intn(5) == 0 {
			// opposite directions for one address in one proposal
			a := r.Intn(c06NUsers)
			k := r.Intn(2)
			ms = append(ms, c06Msg{kind: k, addrs: []int{a}}, c06Msg{kind: 1 - k, addrs: []int{a, r.Intn(c06NUsers)}})
		}
		if (h.lastObs.smin == [2]int64{0, 0} || h.lastObs.smin[0] > c06GovMin || h.lastObs.smin[1] > h.govMinB) && r.Intn(4) == 0 {
			// a proposal that can reach the vote but whose last message fails on execution
			ms = append(ms, c06Msg{kind: 0, addrs: []int{r.Intn(c06NUsers), c06IDGov + r.Intn(c06NProt)}})
		}
		expedited := r.Intn(4) == 0
		who := r.Intn(c06NUsers)
		dep := h.depositAmount(r)
		if r.Intn(5) == 0 {
			dep = 0
		}
		if dep < 0 {
			dep = 0
		}
		depB := h.depositAmountB(r)
		if dep >= c06GovMin && depB < h.govMinB && r.Intn(10) < 7 {
			depB = h.govMinB + pick64(r, 0, 0, 1, 15)
		}
		if expedited && r.Intn(3) != 0 {
			dep = c06ExpMin + pick64(r, 0, 0, 1, -1)
		}
		return opSubmit3(h, who, ms, dep, depB, pick64(r, 100, 200, 300), pick64(r, 100, 250, 400), expedited)
	case x < 28:
		amt, amtB := h.depositAmount(r), h.depositAmountB(r)
		if amt < 0 {
			amt = 0
		}
		switch r.Intn(4) {
		case 0:
			amt = 0 // a deposit in denom B only
		case 1:
			amtB = 0
		}
		if amt <= 0 && amtB <= 0 && r.Intn(3) != 0 {
			amt = 10
		}
		if amt >= c06GovMin-1 && amtB < h.govMinB && r.Intn(10) < 6 {
			amtB = h.govMinB
		}
		return opDeposit2(r.Intn(c06NUsers), h.livePid(r), amt, amtB, pick64(r, 100, 250, 400))
	case x < 40:
		ballots := []c06Ballot{c06Yes, c06Yes, c06Yes, c06Yes, c06No, c06No, c06Abstain, c06Veto, {600, 0, 400, 0}, {600, 0, 400, 0}, {500, 0, 500, 0}, {400, 300, 300, 0},
			{600, 0, 0, 400}, {670, 0, 0, 330}, {500, 0, 166, 334}, {334, 0, 166, 500}, {700, 0, 200, 100}, {667, 0, 333, 0}, {668, 0, 332, 0}, {1, 999, 0, 0}, {500, 0, 400, 0}}
		return opBallot(h.votingPid(r), ballots[r.Intn(len(ballots))])
	case x < 45:
		pid := h.livePid(r)
		who, ok := h.proposer[pid]
		if !ok || r.Intn(5) == 0 {
			who = r.Intn(c06NUsers)
		}
		return opCancel(who, pid)
	case x < 60:
		return opNewBlockVP(h.now+pick64(r, 30, 50, 100, 150, 300), pick64(r, 100, 250, 400))
	case x < 65:
		return opDirect(h, r.Intn(2) == 0, h.randMsg(r), r.Intn(c06NUsers))
	case x < 77:
		from := h.sender(r)
		return opSend(from, r.Intn(c06NUsers), h.amountFor(r, from))
	case x < 83:
		from := h.sender(r)
		amt := h.amountFor(r, from)
		a := amt / 2
		outs := [][2]int64{{int64(r.Intn(c06NUsers)), amt - a}}
		if a > 0 {
			outs = append(outs, [2]int64{int64(r.Intn(c06NUsers)), a})
		}
		return opMultiSend(from, outs)
	case x < 88:
		a, b := h.sender(r), r.Intn(c06NUsers)
		for b == a {
			b = r.Intn(c06NUsers)
		}
		to := r.Intn(c06NUsers)
		for to == a || to == b {
			to = r.Intn(c06NUsers)
		}
		return opManyToOne([][2]int64{{int64(b), minI64(h.amountFor(r, b), 50)}, {int64(a), minI64(h.amountFor(r, a), 60)}}, to)
	case x < 93:
		from := h.sender(r)
		return opDelegate(from, minI64(h.amountFor(r, from), 80))
	case x < 98:
		from := h.sender(r)
		return opPayFee(from, h.amountFor(r, from))
	default:
		return opFund(r.Intn(c06NUsers), pick64(r, 0, 100, 1000))
	}
}

func TestC06(t *testing.T) {
	r := newRand("C06")
	w := NewCaseWriter("C06", "PV.Corr.C06", "check_all", 40)
	app, baseCtx := newApp(t)
	baseCtx = baseCtx.WithBlockTime(time.Unix(c06T0, 0).UTC())
	e := &c06Env{t: t, app: app, base: baseCtx, voter: addrN(0)}
	bond, err := app.StakingKeeper.BondDenom(baseCtx)
	if err != nil {
		t.Fatal(err)
	}
	e.bond = bond
	vals, err := app.StakingKeeper.GetAllValidators(baseCtx)
	if err != nil || len(vals) == 0 {
		t.Fatalf("validators: %v %d", err, len(vals))
	}
	e.valAddr = vals[0].GetOperator()
	e.govAddr = authtypes.NewModuleAddress(govtypes.ModuleName)
	if app.SanctionKeeper.GetAuthority() != e.govAddr.String() {
		t.Fatalf("sanction authority is not the gov module account")
	}

	gp, err := app.GovKeeper.Params.Get(baseCtx)
	if err != nil {
		t.Fatal(err)
	}
	gp.MinDeposit = sdk.NewCoins(sdk.NewInt64Coin(bond, c06GovMin), sdk.NewInt64Coin(c06DenomB, c06GovMinB))
	gp.ExpeditedMinDeposit = sdk.NewCoins(sdk.NewInt64Coin(bond, 5*c06GovMin))
	gp.MinInitialDepositRatio = "0"
	gp.MinDepositRatio = "0"
	gp.ProposalCancelRatio = "0.5"
	gp.ProposalCancelDest = ""
	gp.BurnVoteQuorum = false
	gp.BurnProposalDepositPrevote = false
	gp.BurnVoteVeto = true
	if err := app.GovKeeper.Params.Set(baseCtx, gp); err != nil {
		t.Fatal(err)
	}
	permille := func(name, v string) int64 {
		d := sdkmath.LegacyMustNewDecFromStr(v).MulInt64(1000)
		if !d.IsInteger() || gp.Quorum == "" || !sdkmath.LegacyMustNewDecFromStr(gp.Quorum).IsPositive() {
			t.Fatalf("gov param %s = %s (quorum %s) is outside what the model covers", name, v, gp.Quorum)
		}
		return d.TruncateInt64()
	}
	e.thr, e.expThr, e.veto = permille("threshold", gp.Threshold), permille("expedited_threshold", gp.ExpeditedThreshold), permille("veto_threshold", gp.VetoThreshold)

	nh := scale(120, 2500)
	for hi := 0; hi < nh; hi++ {
		c06History(e, r, w, hi)
	}
	c06KeyCases(r, w)
	c06RouteMatrix(e, r, w)
	c06FeeRoutes(t, r, w)
	w.Flush(t)
}

func c06History(e *c06Env, r *rand.Rand, w *CaseWriter, hi int) {
	ctx, _ := e.base.CacheContext()
	h := &c06Hist{e: e, ctx: ctx, now: c06T0, proposer: map[uint64]int{}, govMinB: c06GovMinB, dp: 200}
	for i := 0; i < c06NUsers; i++ {
		a := addrN(6000 + hi*10 + i)
		if i == 3 {
			// a 32-byte address whose first 20 bytes are account 2's address: their store keys share
			// everything up to the length byte; last byte 0xFF or 0x00
			b := make([]byte, 32)
			copy(b, h.addrs[2])
			copy(b[20:], fmt.Sprintf("long%08d", hi))
			b[31] = byte(0xFF * (hi % 2))
			a = sdk.AccAddress(b)
		}
		ensureAccount(e.app, ctx, a)
		fund(e.t, e.app, ctx, a, sdk.NewCoins(sdk.NewInt64Coin(e.bond, int64(7000+r.Intn(6000))), sdk.NewInt64Coin(c06DenomB, int64(150+r.Intn(300)))))
		h.addrs = append(h.addrs, a)
	}
	h.addrs = append(h.addrs, c06Protected()...)
	// "big" histories: proposals naming hundreds of addresses (sanctions lists), resolved as
	// rejected / failed on execution / expired in deposit; ids 10.. are cheap addresses without funds
	big := hi == 12 || (hi > 12 && hi%400 == 12)
	var bigSizes [3]int
	if big {
		bigSizes = [3]int{250, 150, 101}
		if hi > 12 {
			all := []int{101, 150, 250, 500, 100, 199, 200, 201}
			for i := range bigSizes {
				bigSizes[i] = all[r.Intn(len(all))]
			}
		}
		nBig := 0
		for _, x := range bigSizes {
			if x > nBig {
				nBig = x
			}
		}
		for i := 0; i < nBig; i++ {
			h.addrs = append(h.addrs, addrN(900000+hi*1000+r.Intn(3)+3*i))
		}
	}
	// gov params of this history: burn flags, and (1 history in 8) a gov minimum in the bond denom
	// only, so that denom B is no deposit denom at all
	burnVeto, burnQuorum, burnPrevote := r.Intn(4) != 0, r.Intn(4) == 0, r.Intn(4) == 0
	if hi < 16 {
		burnVeto, burnQuorum, burnPrevote = true, false, false
	}
	if hi >= 16 && r.Intn(8) == 0 {
		h.govMinB = 0
	}
	gp, err := e.app.GovKeeper.Params.Get(ctx)
	if err != nil {
		e.t.Fatal(err)
	}
	gp.MinDeposit = h.coins2(c06GovMin, h.govMinB)
	gp.BurnVoteVeto, gp.BurnVoteQuorum, gp.BurnProposalDepositPrevote = burnVeto, burnQuorum, burnPrevote
	if err := e.app.GovKeeper.Params.Set(ctx, gp); err != nil {
		e.t.Fatal(err)
	}
	// sanction params for this history: thresholds below and above the gov minimum, or off
	sm := c06Thresholds[r.Intn(len(c06Thresholds))]
	um := c06Thresholds[r.Intn(len(c06Thresholds))]
	switch {
	case hi < 3 || hi == 6 || hi == 7 || hi == 8 || hi == 9 || hi == 10:
		sm, um = [2]int64{300, 0}, [2]int64{400, 0}
	case hi == 3:
		sm, um = [2]int64{300, 10}, [2]int64{400, 10}
	case hi == 4 || hi == 5 || hi == 11:
		sm, um = [2]int64{0, 0}, [2]int64{0, 0}
	}
	if big {
		sm, um = [2]int64{1500, 0}, [2]int64{200, 0}
	}
	if err := e.app.SanctionKeeper.SetParams(ctx, &sanction.Params{ImmediateSanctionMinDeposit: h.coins2(sm[0], sm[1]), ImmediateUnsanctionMinDeposit: h.coins2(um[0], um[1])}); err != nil {
		e.t.Fatal(err)
	}
	firstID, err := e.app.GovKeeper.ProposalID.Peek(ctx)
	if err != nil {
		e.t.Fatal(err)
	}
	ob0 := h.observe(true)
	h.lastObs = ob0

	san := func(as ...int) c06Msg { return c06Msg{kind: 0, addrs: as} }
	uns := func(as ...int) c06Msg { return c06Msg{kind: 1, addrs: as} }
	par := func(a, b [2]int64) c06Msg { return c06Msg{kind: 2, a: a, b: b} }
	var script []c06Op
	switch hi {
	case 0:
		// the minimal history of the known finding: immediate sanction, cancelled by the proposer
		script = []c06Op{
			opSubmit(h, 0, []c06Msg{{kind: 0, addrs: []int{1}}}, 300, 200, 250),
			opSend(1, 2, 10),
			opCancel(0, firstID),
			opSend(1, 2, 10),
			opNewBlock(c06T0 + 500),
			opSend(1, 2, 10),
		}
	case 1:
		// one proposal per resolution kind: passed, rejected, failed, expired
		script = []c06Op{
			opSubmit2(h, 0, []c06Msg{{kind: 0, addrs: []int{1}}}, 1000, 20, 200, 100),                  // -> passed
			opSubmit2(h, 0, []c06Msg{{kind: 0, addrs: []int{2}}}, 1000, 20, 200, 100),                  // -> rejected
			opSubmit(h, 0, []c06Msg{{kind: 0, addrs: []int{3}}, {kind: 0, addrs: []int{c06IDGov}}}, 200, 200, 100), // -> failed
			opDeposit2(3, firstID+2, 800, 20, 100),
			opSubmit(h, 4, []c06Msg{{kind: 0, addrs: []int{3, 1}}}, 300, 100, 100),                     // -> expired
			opVote(firstID, true), opVote(firstID+1, false), opVote(firstID+2, true),
			opSend(1, 4, 5), opSend(2, 4, 5), opSend(3, 4, 5), opSend(4, 1, 5), opDelegate(2, 5), opPayFee(3, 5),
			opNewBlock(c06T0 + 100),
			opNewBlock(c06T0 + 200),
			opSend(1, 4, 5), opSend(2, 4, 5), opSend(3, 4, 5),
		}
	case 2:
		// latest proposal wins: sanction by an earlier proposal, unsanction by a later one, and back
		script = []c06Op{
			opSubmit(h, 0, []c06Msg{{kind: 0, addrs: []int{1, 2}}}, 300, 300, 400),
			opSubmit(h, 3, []c06Msg{{kind: 1, addrs: []int{1}}}, 400, 300, 400),
			opSend(1, 4, 5), opSend(2, 4, 5),
			opDeposit(4, firstID, 5, 400),
			opSend(1, 4, 5),
			opSubmit2(h, 3, []c06Msg{{kind: 0, addrs: []int{1}}, {kind: 1, addrs: []int{2}}}, 1000, 20, 300, 100),
			opSend(1, 4, 5), opSend(2, 4, 5),
			opVote(firstID+2, false),
			opNewBlock(c06T0 + 100), opNewBlock(c06T0 + 101),
			opSend(1, 4, 5), opSend(2, 4, 5),
		}
	case 3:
		// two-denom immediate minimums (300 A + 10 B / 400 A + 10 B): a deposit covering only one of
		// the denoms must not create temporary entries; completing the other denom does
		script = []c06Op{
			opDirect(h, true, c06Msg{kind: 0, addrs: []int{2}}, 0),                   // 2 permanently sanctioned
			opSubmit2(h, 0, []c06Msg{{kind: 0, addrs: []int{1}}}, 300, 0, 300, 400), // under-funded: A only
			opSend(1, 4, 5),
			opSubmit2(h, 3, []c06Msg{{kind: 1, addrs: []int{2}}}, 400, 9, 300, 400), // under-funded: B short by one
			opSend(2, 4, 5),
			opSubmit2(h, 3, []c06Msg{{kind: 0, addrs: []int{4}}}, 0, 10, 300, 400), // under-funded: B only
			opSend(4, 0, 5),
			opDeposit2(4, firstID, 0, 10, 400), // completes proposal 1: account 1 sanctioned now
			opSend(1, 4, 5),
			opDeposit2(0, firstID+1, 0, 1, 400), // completes proposal 2: account 2 temporarily unsanctioned
			opSend(2, 4, 5),
			opDeposit2(0, firstID+2, 299, 0, 400), // still one short in A
			opSend(4, 0, 5),
			opDeposit2(0, firstID+2, 1, 0, 400),
			opSend(4, 0, 5),
		}
	case 4:
		// REGRESSION of the repaired chain halt: the immediate minimum is off; an expedited proposal
		// names a protected address; governance switches the minimum on; at the end of the expedited
		// voting period the proposal is converted and the sanction hook runs in the EndBlocker: the
		// block must go on (before the repair the hook panicked there), no entry of that hook run
		// is kept, the converted proposal is rejected by the next block
		script = []c06Op{
			opSubmit3(h, 0, []c06Msg{san(1, c06IDGov)}, c06ExpMin, 0, 200, 200, true),
			opDirect(h, true, par([2]int64{300, 0}, [2]int64{400, 0}), 0),
			opSend(1, 2, 10),
			opDeposit(4, firstID, 1, 200), // the hook in a transaction: the deposit is refused
			opNewBlockVP(c06T0+100, 200),  // (EndBlocker of the block at T0: nothing is due)
			opNewBlockVP(c06T0+101, 200),  // EndBlocker at T0+100 = expedited end: conversion, hook error ignored
			opSend(1, 2, 10),
			opDeposit(4, firstID, 1, 200),
			opNewBlockVP(c06T0+200, 200),
			opNewBlockVP(c06T0+201, 200), // EndBlocker at T0+200 = regular end (start + 200): rejected (no votes)
			opSend(1, 2, 10),
		}
	case 5:
		// expedited proposals: the hook sees a converted proposal twice (entries created at the
		// conversion with the params of that moment), a conversion whose new end is already over is
		// tallied by the next block; an expedited proposal that passes; one that passes only as a
		// regular proposal (60 % yes)
		script = []c06Op{
			opSubmit3(h, 0, []c06Msg{san(1), uns(2)}, c06ExpMin, 0, 200, 200, true), // id+0: nobody votes
			opSubmit3(h, 3, []c06Msg{san(2)}, c06ExpMin, 0, 200, 200, true),         // id+1: passes expedited
			opSubmit3(h, 4, []c06Msg{san(4)}, c06ExpMin, 0, 200, 200, true),         // id+2: 60 % yes
			opBallot(firstID+1, c06Yes),
			opBallot(firstID+2, c06Ballot{600, 0, 400, 0}),
			opDirect(h, true, par([2]int64{300, 0}, [2]int64{0, 0}), 0), // sanction minimum on, unsanction minimum off
			opSend(1, 3, 10), opSend(4, 3, 10),
			opNewBlockVP(c06T0+100, 50),
			opNewBlockVP(c06T0+101, 50), // all three end: id+0 and id+2 converted (new end = start + 50, over), id+1 passed
			opSend(1, 3, 10), opSend(2, 3, 10), opSend(4, 3, 10),
			opBallot(firstID+2, c06Ballot{600, 0, 400, 0}), // votes were deleted by the first tally
			opNewBlockVP(c06T0+102, 50), // id+0 rejected (no votes), id+2 passed as a regular proposal
			opSend(1, 3, 10), opSend(2, 3, 10), opSend(4, 3, 10),
		}
	case 6:
		// the other resolutions: quorum not reached (no vote), everybody abstains, veto (deposits
		// burned), rejected by a weighted vote, each with temporary entries to clean up
		script = []c06Op{
			opSubmit2(h, 0, []c06Msg{san(1)}, 1000, 20, 200, 100),
			opSubmit2(h, 0, []c06Msg{san(2)}, 1000, 20, 200, 100),
			opSubmit2(h, 3, []c06Msg{san(4)}, 1000, 20, 200, 100),
			opSubmit2(h, 3, []c06Msg{uns(1)}, 1000, 20, 200, 100),
			opBallot(firstID+1, c06Abstain),
			opBallot(firstID+2, c06Veto),
			opBallot(firstID+3, c06Ballot{500, 0, 500, 0}),
			opSend(1, 0, 5), opSend(2, 0, 5), opSend(4, 0, 5),
			opNewBlock(c06T0 + 100), opNewBlock(c06T0 + 101),
			opSend(1, 0, 5), opSend(2, 0, 5), opSend(4, 0, 5),
		}
	case 7:
		// several messages for one address in opposite directions: the later message wins for the
		// temporary entry, and for the permanent entry when the proposal passes
		script = []c06Op{
			opDirect(h, true, san(2), 0),
			opSubmit2(h, 0, []c06Msg{san(1), uns(1, 2), san(2)}, 1000, 20, 200, 100),   // 1: unsanction wins, 2: sanction wins
			opSubmit2(h, 0, []c06Msg{uns(4), san(4, 3), uns(3)}, 1000, 20, 200, 100),   // 4: sanction wins, 3: unsanction wins
			opSubmit2(h, 0, []c06Msg{san(0), uns(0)}, 350, 0, 200, 100),                // only the sanction minimum is covered
			opSend(1, 4, 5), opSend(2, 4, 5), opSend(3, 1, 5), opSend(4, 1, 5), opSend(0, 1, 5),
			opDeposit(1, firstID+2, 50, 100), // now both minimums: the unsanction (later message) wins
			opSend(0, 1, 5),
			opVote(firstID, true), opVote(firstID+1, true),
			opNewBlock(c06T0 + 100), opNewBlock(c06T0 + 101),
			opSend(1, 4, 5), opSend(2, 4, 5), opSend(3, 1, 5), opSend(4, 1, 5),
		}
	case 8:
		// passed, but a later message fails: the permanent changes of the earlier messages and their
		// deletion of OTHER proposals' temporary entries are rolled back; only its own entries go
		script = []c06Op{
			opDirect(h, true, san(2), 0),
			opSubmit(h, 0, []c06Msg{san(1), uns(2)}, 400, 300, 400),                      // id+0 stays live: entries for 1 and 2
			opDirect(h, true, par([2]int64{1500, 0}, [2]int64{1500, 0}), 0),               // minimums above the next deposits
			opSubmit2(h, 3, []c06Msg{uns(1), san(2), san(4), san(c06IDQuar)}, 1000, 20, 200, 100), // id+1 passes, 4th message fails
			opDeposit(3, firstID+1, 600, 100),                                             // 1600 >= 1500: but the hook fails (protected address): refused
			opVote(firstID+1, true),
			opNewBlock(c06T0 + 100), opNewBlock(c06T0 + 101),
			opSend(1, 0, 5), opSend(2, 0, 5), opSend(4, 0, 5),
		}
	case 9:
		// interleaved proposals whose deposits arrive in the opposite order of their ids
		script = []c06Op{
			opSubmit(h, 0, []c06Msg{san(1, 2)}, 0, 300, 400), // id+0
			opSubmit(h, 3, []c06Msg{uns(1)}, 0, 300, 400),    // id+1
			opSubmit(h, 3, []c06Msg{san(1)}, 0, 300, 400),    // id+2
			opDeposit(4, firstID+2, 300, 400), opSend(1, 0, 5),
			opDeposit(4, firstID+1, 400, 400), opSend(1, 0, 5), // id+2 still wins
			opDeposit(4, firstID, 300, 400), opSend(1, 0, 5), opSend(2, 0, 5),
			opCancel(3, firstID+2), // (known finding: its entry stays and still wins)
			opSend(1, 0, 5),
		}
	case 10:
		// a resolution cleans exactly its own entries: rejected and expired proposals leave the other
		// proposals' entries for the same address; a PASSED one deletes them (by design)
		script = []c06Op{
			opSubmit(h, 0, []c06Msg{san(1, 2)}, 400, 100, 100),            // id+0 expires at +100
			opSubmit2(h, 0, []c06Msg{uns(1), san(2)}, 1000, 20, 300, 150), // id+1 rejected at +150
			opSubmit2(h, 3, []c06Msg{san(1, 2)}, 1000, 20, 300, 400),      // id+2 live throughout
			opSubmit2(h, 3, []c06Msg{uns(2)}, 1000, 20, 300, 250),         // id+3 passes at +250
			opVote(firstID+1, false), opVote(firstID+3, true),
			opNewBlock(c06T0 + 100), opNewBlock(c06T0 + 150), opSend(1, 0, 5),
			opNewBlock(c06T0 + 151), opSend(1, 0, 5), opSend(2, 0, 5),
			opNewBlock(c06T0 + 250), opNewBlock(c06T0 + 251), opSend(2, 0, 5),
			opDeposit(4, firstID+2, 1, 400), opSend(2, 0, 5), // the next deposit brings id+2's entry for 2 back
		}
	case 11:
		// params changed by governance between submission and deposits; deposits in several steps
		script = []c06Op{
			opSubmit2(h, 0, []c06Msg{san(1)}, 500, 5, 300, 400), // feature off: nothing
			opSend(1, 0, 5),
			opDirect(h, true, par([2]int64{700, 30}, [2]int64{0, 0}), 0), // on: 700 A + 30 B
			opSend(1, 0, 5),                                          // a params change alone creates nothing
			opDeposit2(4, firstID, 200, 0, 400), opSend(1, 0, 5),     // 700 A, 5 B: one denom only
			opDeposit2(4, firstID, 0, 24, 400), opSend(1, 0, 5),      // 29 B: one short
			opDirect(h, true, par([2]int64{800, 29}, [2]int64{0, 0}), 0), opSend(1, 0, 5),
			opDeposit2(3, firstID, 99, 0, 400), opSend(1, 0, 5),      // 799 A
			opDeposit2(3, firstID, 1, 0, 400), opSend(1, 0, 5),       // 800 A + 29 B: now
			opDirect(h, true, par([2]int64{0, 0}, [2]int64{0, 0}), 0), opSend(1, 0, 5), // off again: the entry stays until resolution
			opNewBlock(c06T0 + 300), opSend(1, 0, 5),
		}
	}
	storeAt := -1
	if big {
		// subsets of the cheap addresses (ids 10..), each with one of the funded accounts
		pickBig := func(n int, extra ...int) []int {
			perm := r.Perm(len(h.addrs) - 10)
			out := append([]int{}, extra...)
			for _, x := range perm[:n-len(extra)] {
				out = append(out, 10+x)
			}
			return out
		}
		nAll := len(h.addrs) - 10
		setA, setB, setC := pickBig(bigSizes[0], 1), pickBig(bigSizes[1], 2), pickBig(bigSizes[2], 4)
		script = []c06Op{
			opDirect(h, true, san(pickBig(nAll/2, 2)...), 0), // half of them (and account 2) permanently sanctioned
			opSubmit2(h, 0, []c06Msg{san(setA...)}, 1500, 20, 300, 100),                // id+0 -> rejected
			opSubmit(h, 3, []c06Msg{uns(setB...)}, 200, 100, 100),                      // id+1 -> expires in deposit
			opSubmit2(h, 0, []c06Msg{uns(setC...), san(c06IDGov)}, 1000, 20, 300, 100), // id+2 -> passes, fails on execution
			opVote(firstID, false), opVote(firstID+2, true),
			opSend(1, 0, 5), opSend(2, 0, 5), opSend(4, 0, 5),
			opNewBlock(c06T0 + 100),
			opNewBlock(c06T0 + 101), // all three are resolved here
			opSend(1, 0, 5), opSend(2, 0, 5), opSend(4, 0, 5),
		}
		storeAt = 3 // the raw store with all the entries in it
		w.Count("big_histories")
		w.CountN("big_history_addresses_named", int64(bigSizes[0]+bigSizes[1]+bigSizes[2]))
	}
	n := 25 + r.Intn(25)
	if big {
		n = len(script) + 4
	}
	type stepRec struct {
		Op  string         `json:"op"`
		Obs map[string]any `json:"obs"`
	}
	var steps []string
	var recs []stepRec
	var kinds = map[string]bool{}
	accepted, total := 0, 0
	tempsSeen, resolved, sanctMove, cancelledWithTemps := false, 0, 0, false
	for i := 0; i < len(script) || i < n; i++ {
		var op c06Op
		if i < len(script) {
			op = script[i]
		} else {
			op = h.randOp(r)
		}
		before := h.lastObs
		ok := op.run(h)
		ob := h.observe(ok)
		h.lastObs = ob
		if i == storeAt {
			h.storeCase(w, hi*1000+i)
		}
		steps = append(steps, fmt.Sprintf("(%s, %s)", op.term, ob.coq()))
		recs = append(recs, stepRec{Op: op.desc, Obs: ob.json()})
		total++
		w.Count("ops")
		w.Count("op:" + op.kind)
		if ok {
			accepted++
			w.Count("ops_accepted")
			w.Count("accepted:" + op.kind)
			if op.kind == "submit" && strings.HasSuffix(op.term, " true") {
				w.Count("accepted:submit expedited")
				for _, pi := range ob.pinfo {
					if pi[1] == 1 && pi[2] == 1 && !containsPid(before.live, uint64(pi[0])) {
						w.Count("accepted:submit expedited, voting period entered at once")
					}
				}
			}
			kinds[op.kind] = true
		} else {
			w.Count("ops_rejected")
		}
		if len(ob.temps) > 0 {
			tempsSeen = true
		}
		// expedited proposals converted to regular ones by this step
		for _, pb := range before.pinfo {
			for _, pa := range ob.pinfo {
				if pa[0] == pb[0] && pb[2] == 1 && pa[2] == 0 {
					w.Count("expedited_proposal_converted")
					nb, na := 0, 0
					for _, te := range before.temps {
						if te[1] == pa[0] {
							nb++
						}
					}
					for _, te := range ob.temps {
						if te[1] == pa[0] {
							na++
						}
					}
					if na > nb {
						w.Count("expedited_proposal_converted_creating_temp_entries")
					}
				}
			}
		}
		// classify what happened to proposals that stopped being live
		for _, pid := range before.live {
			still := false
			for _, q := range ob.live {
				if q == pid {
					still = true
				}
			}
			if still {
				continue
			}
			resolved++
			hadTemps := false
			for _, te := range before.temps {
				if uint64(te[1]) == pid {
					hadTemps = true
				}
			}
			what := "expired"
			if op.kind == "cancel" {
				what = "cancelled"
				if hadTemps {
					cancelledWithTemps = true
				}
			} else if p, err := e.app.GovKeeper.Proposals.Get(h.ctx, pid); err == nil {
				what = strings.ToLower(strings.TrimPrefix(p.Status.String(), "PROPOSAL_STATUS_"))
				if tr := p.FinalTallyResult; tr != nil && p.Status == govv1.StatusRejected {
					y, _ := sdkmath.NewIntFromString(tr.YesCount)
					a, _ := sdkmath.NewIntFromString(tr.AbstainCount)
					n, _ := sdkmath.NewIntFromString(tr.NoCount)
					v, _ := sdkmath.NewIntFromString(tr.NoWithVetoCount)
					tot := y.Add(a).Add(n).Add(v)
					switch {
					case tot.IsZero():
						what += " (quorum not reached)"
					case a.Equal(tot):
						what += " (all abstain)"
					case v.MulRaw(1000).GT(tot.MulRaw(e.veto)):
						what += " (veto)"
					default:
						what += " (threshold not reached)"
					}
				}
			}
			w.Count("resolution:" + what)
			if hadTemps {
				w.Count("resolution_with_temp_entries:" + what)
			}
		}
		switch op.kind {
		case "send", "multisend", "manytoone", "delegate", "payfee", "deposit", "submit":
			if len(before.sanct) > 0 {
				sanctMove++
			}
		}
	}
	if cancelledWithTemps {
		w.Count("histories_with_cancelled_proposal_holding_temp_entries")
	}
	cfg := fmt.Sprintf("{| c_unsanct := [5%%N; 6%%N; 7%%N; 8%%N; 9%%N]; c_gov_min := %s; c_exp_min := %s; c_thr := %d; c_exp_thr := %d; c_veto := %d; c_burn_veto := %s; c_burn_quorum := %s; c_burn_prevote := %s |}",
		pair2(c06GovMin, h.govMinB), pair2(c06ExpMin, 0), e.thr, e.expThr, e.veto, coqBool(burnVeto), coqBool(burnQuorum), coqBool(burnPrevote))
	var universe []int
	for i := range h.addrs {
		universe = append(universe, i)
	}
	term := fmt.Sprintf("CHist %s %s [0%%N; 1%%N; 2%%N; 3%%N; 4%%N] %d%%N %s\n    (%s)\n    %s",
		cfg, nList(universe), firstID, zI64(c06T0), ob0.coq(), coqList(steps))
	w.Add(term, map[string]any{"kind": "history", "index": hi, "immediate_sanction_min": sm, "immediate_unsanction_min": um, "gov_min_deposit": [2]int64{c06GovMin, h.govMinB}, "expedited_min_deposit": [2]int64{c06ExpMin, 0}, "denoms": "pairs are (bond denom, bbbcoin)",
		"burn_veto_quorum_prevote": []bool{burnVeto, burnQuorum, burnPrevote},
		"first_proposal_id": firstID, "universe": "0-4 plain accounts (3 = 32-byte address extending 2's bytes), 5 gov module account, 6 quarantine funds holder, 7 fee collector, 8 bonded pool, 9 marker module, 10.. (big histories only) unfunded addresses named by large proposals", "universe_size": len(h.addrs), "initial": ob0.json(), "steps": recs,
		"accepted": accepted, "ops": total})
	w.Count("histories")
	h.storeCase(w, hi)
	if tempsSeen && resolved > 0 && sanctMove > 0 && len(kinds) >= 4 {
		w.Nontrivial(fmt.Sprintf("h%d:%s", hi, strings.Join(steps, "|")))
	}
}
