//go:build c14

package harness

import (
	"crypto/sha256"
	"encoding/hex"
	"encoding/json"
	"fmt"
	"math/rand"
	"sort"
	"strings"
	"testing"

	sdkmath "cosmossdk.io/math"
	btcbech32 "github.com/cosmos/btcutil/bech32"
	sdk "github.com/cosmos/cosmos-sdk/types"
	sdkbech32 "github.com/cosmos/cosmos-sdk/types/bech32"
	"github.com/google/uuid"

	simapp "github.com/provenance-io/provenance/app"
	mdtypes "github.com/provenance-io/provenance/x/metadata/types"
)

// C14: (1) the address stream: constructors, validators, conversions, bech32/hex/denom parsers of
// x/metadata/types/address.go and the SDK bech32 functions on random UUIDs/names and on ARBITRARY
// byte strings and texts; (2) the history stream: keeper calls and messages on the real metadata
// keeper, with every stored entry and every lookup iterator dumped after each step.

// ---------------------------------------------------------------- Coq term helpers

func c14B(b []byte) string {
	var sb strings.Builder
	sb.WriteString("(B [")
	for i, x := range b {
		if i > 0 {
			sb.WriteString(";")
		}
		fmt.Fprintf(&sb, "%d", x)
	}
	sb.WriteString("])")
	return sb.String()
}

func c14OB(ok bool, b []byte) string {
	if !ok {
		return "None"
	}
	return "(Some " + c14B(b) + ")"
}

func c14S(s string) string { return c14B([]byte(s)) }

func c14ZL(l []int64) string {
	items := make([]string, len(l))
	for i, x := range l {
		items[i] = zI64(x)
	}
	return coqList(items)
}

func c14ZLL(l [][]int64) string {
	items := make([]string, len(l))
	for i, x := range l {
		items[i] = c14ZL(x)
	}
	return coqList(items)
}

// ---------------------------------------------------------------- address stream

func c14RandBytes(r *rand.Rand, n int) []byte {
	b := make([]byte, n)
	r.Read(b)
	return b
}

func c14UUID(r *rand.Rand) uuid.UUID {
	var u uuid.UUID
	switch r.Intn(12) {
	case 0: // all zero
	case 1:
		for i := range u {
			u[i] = 0xff
		}
	case 2: // looks like a type byte run
		for i := range u {
			u[i] = byte(r.Intn(6))
		}
	default:
		r.Read(u[:])
	}
	return u
}

func c14Name(r *rand.Rand) string {
	switch r.Intn(10) {
	case 0:
		return ""
	case 1:
		return []string{" ", "  \t", "\n", "\r\n ", "\v\f"}[r.Intn(5)]
	}
	alphabet := "abcdefghijklmnopqrstuvwxyzABCDEFGHIJKLMNOPQRSTUVWXYZ0123456789-_. "
	n := 1 + r.Intn(12)
	var sb strings.Builder
	if r.Intn(4) == 0 {
		sb.WriteString([]string{" ", "\t", "  "}[r.Intn(3)])
	}
	for i := 0; i < n; i++ {
		sb.WriteByte(alphabet[r.Intn(len(alphabet))])
	}
	if r.Intn(4) == 0 {
		sb.WriteString([]string{" ", "\n", " \t "}[r.Intn(3)])
	}
	return sb.String()
}

// c14Norm is the harness' own ASCII TrimSpace+ToLower (names here are ASCII).
func c14Norm(name string) string { return strings.ToLower(strings.TrimSpace(name)) }

func c14Hash16(name string) []byte {
	n := c14Norm(name)
	if n == "" {
		return nil
	}
	h := sha256.Sum256([]byte(n))
	return h[:16]
}

func c14MA(f func() (mdtypes.MetadataAddress, error)) (ok bool, out []byte) {
	var ma mdtypes.MetadataAddress
	err := try(func() error {
		var e error
		ma, e = f()
		return e
	})
	if err != nil {
		return false, nil
	}
	return true, []byte(ma)
}

func c14UU(f func() (uuid.UUID, error)) (ok bool, out []byte) {
	var u uuid.UUID
	err := try(func() error {
		var e error
		u, e = f()
		return e
	})
	if err != nil {
		return false, nil
	}
	return true, u[:]
}

func c14Bz(f func() ([]byte, error)) (ok bool, out []byte) {
	var b []byte
	err := try(func() error {
		var e error
		b, e = f()
		return e
	})
	if err != nil {
		return false, nil
	}
	return true, b
}

func c14ABytes(w *CaseWriter, bz []byte, kind string) {
	ma := mdtypes.MetadataAddress(append([]byte{}, bz...))
	hrp, verr := mdtypes.VerifyMetadataAddressFormat(ma)
	var strOK bool
	var str string
	_ = try(func() error {
		str = ma.String()
		return nil
	})
	strOK = len(bz) == 0 || verr == nil
	backOK, back := false, []byte(nil)
	if strOK && len(bz) > 0 {
		backOK, back = c14MA(func() (mdtypes.MetadataAddress, error) { return mdtypes.MetadataAddressFromBech32(str) })
	}
	is := []string{coqBool(ma.IsScopeAddress()), coqBool(ma.IsSessionAddress()), coqBool(ma.IsRecordAddress()),
		coqBool(ma.IsContractSpecificationAddress()), coqBool(ma.IsScopeSpecificationAddress()), coqBool(ma.IsRecordSpecificationAddress())}
	a1, b1 := c14MA(ma.AsScopeAddress)
	a2, b2 := c14MA(ma.AsContractSpecAddress)
	a3, b3 := c14UU(ma.ScopeUUID)
	a4, b4 := c14UU(ma.SessionUUID)
	a5, b5 := c14UU(ma.ScopeSpecUUID)
	a6, b6 := c14UU(ma.ContractSpecUUID)
	a7, b7 := c14UU(ma.PrimaryUUID)
	a8, b8 := c14UU(ma.SecondaryUUID)
	a9, b9 := c14Bz(ma.NameHash)
	p1, q1 := c14Bz(ma.ScopeSessionIteratorPrefix)
	p2, q2 := c14Bz(ma.ScopeRecordIteratorPrefix)
	p3, q3 := c14Bz(ma.ContractSpecRecordSpecIteratorPrefix)
	if len(bz) > 0 && len(bz) < 17 {
		// ma[1:17] reslices past the length: a panic or bytes of the backing array, depending on
		// the slice's capacity. Not an observable; the model says None.
		p1, p2, p3 = false, false, false
	}
	denomOK, denom := strOK, ""
	if strOK {
		_ = try(func() error { denom = ma.Denom(); return nil })
	}
	term := fmt.Sprintf("ABytes %s (AO %s %s %s %s %s %s %s %s %s %s %s %s %s %s %s %s %s)", c14B(bz),
		c14OB(verr == nil, []byte(hrp)), c14OB(strOK, []byte(str)), c14OB(backOK, back), coqList(is),
		c14OB(a1, b1), c14OB(a2, b2), c14OB(a3, b3), c14OB(a4, b4), c14OB(a5, b5), c14OB(a6, b6), c14OB(a7, b7), c14OB(a8, b8), c14OB(a9, b9),
		c14OB(p1, q1), c14OB(p2, q2), c14OB(p3, q3), c14OB(denomOK, []byte(denom)))
	w.Add(term, map[string]any{"kind": "bytes:" + kind, "hex": hex.EncodeToString(bz)})
	w.Count("abytes_" + kind)
	if verr == nil {
		w.Count("abytes_valid")
		w.Nontrivial("ab:" + hex.EncodeToString(bz))
	}
}

// c14ACons builds every address kind from (u1, u2, name) with the real constructors.
func c14ACons(w *CaseWriter, u1, u2 uuid.UUID, name string) (all [][]byte) {
	scope := mdtypes.ScopeMetadataAddress(u1)
	sess := mdtypes.SessionMetadataAddress(u1, u2)
	recOK, rec := c14MA(func() (mdtypes.MetadataAddress, error) { return mdtypes.RecordMetadataAddress(u1, name), nil })
	sspec := mdtypes.ScopeSpecMetadataAddress(u1)
	cspec := mdtypes.ContractSpecMetadataAddress(u2)
	rspOK, rsp := c14MA(func() (mdtypes.MetadataAddress, error) { return mdtypes.RecordSpecMetadataAddress(u2, name), nil })
	s1, t1 := c14MA(func() (mdtypes.MetadataAddress, error) { return scope.AsSessionAddress(u2) })
	s2, t2 := c14MA(func() (mdtypes.MetadataAddress, error) { return sess.AsRecordAddress(name) })
	s3, t3 := c14MA(func() (mdtypes.MetadataAddress, error) { return cspec.AsRecordSpecAddress(name) })
	s4, t4 := c14MA(sess.AsScopeAddress)
	s5, t5 := false, []byte(nil)
	if recOK {
		s5, t5 = c14MA(mdtypes.MetadataAddress(rec).AsScopeAddress)
	}
	s6, t6 := false, []byte(nil)
	if rspOK {
		s6, t6 = c14MA(mdtypes.MetadataAddress(rsp).AsContractSpecAddress)
	}
	term := fmt.Sprintf("ACons %s %s %s %s (CO %s %s %s %s %s %s %s %s %s %s %s %s)", c14B(u1[:]), c14B(u2[:]), c14S(name), c14B(c14Hash16(name)),
		c14B(scope), c14B(sess), c14OB(recOK, rec), c14B(sspec), c14B(cspec), c14OB(rspOK, rsp),
		c14OB(s1, t1), c14OB(s2, t2), c14OB(s3, t3), c14OB(s4, t4), c14OB(s5, t5), c14OB(s6, t6))
	w.Add(term, map[string]any{"kind": "cons", "u1": u1.String(), "u2": u2.String(), "name": name})
	w.Count("acons")
	if recOK {
		w.Count("acons_named")
		w.Nontrivial("ac:" + u1.String() + u2.String() + name)
	} else {
		w.Count("acons_blank_name")
	}
	all = [][]byte{scope, sess, sspec, cspec}
	if recOK {
		all = append(all, rec)
	}
	if rspOK {
		all = append(all, rsp)
	}
	return all
}

func c14AText(w *CaseWriter, text, kind string) {
	ok, bz := c14MA(func() (mdtypes.MetadataAddress, error) { return mdtypes.MetadataAddressFromBech32(text) })
	strOK, str := false, ""
	if ok {
		_ = try(func() error { str = mdtypes.MetadataAddress(bz).String(); strOK = true; return nil })
	}
	w.Add(fmt.Sprintf("AText %s %s %s", c14S(text), c14OB(ok, bz), c14OB(strOK, []byte(str))),
		map[string]any{"kind": "text:" + kind, "text": text})
	w.Count("atext_" + kind)
	if ok {
		w.Count("atext_accepted")
		w.Nontrivial("at:" + text)
	}
}

func c14ADec(w *CaseWriter, text, kind string) {
	var hrp string
	var data []byte
	err := try(func() error {
		var e error
		hrp, data, e = sdkbech32.DecodeAndConvert(text)
		return e
	})
	dec := "None"
	if err == nil {
		dec = fmt.Sprintf("(Some (%s, %s))", c14S(hrp), c14B(data))
		w.Count("adec_accepted")
		w.Nontrivial("ad:" + text)
	}
	w.Add(fmt.Sprintf("ADec %s %s", c14S(text), dec), map[string]any{"kind": "dec:" + kind, "text": text})
	w.Count("adec_" + kind)
}

func c14AEnc(w *CaseWriter, hrp string, data []byte) string {
	var enc string
	err := try(func() error {
		var e error
		enc, e = sdkbech32.ConvertAndEncode(hrp, data)
		return e
	})
	dec := "None"
	if err == nil {
		var h2 string
		var d2 []byte
		if e2 := try(func() error {
			var e error
			h2, d2, e = sdkbech32.DecodeAndConvert(enc)
			return e
		}); e2 == nil {
			dec = fmt.Sprintf("(Some (%s, %s))", c14S(h2), c14B(d2))
			w.Count("aenc_roundtrip")
			w.Nontrivial("ae:" + enc)
		}
	}
	w.Add(fmt.Sprintf("AEnc %s %s %s %s", c14S(hrp), c14B(data), c14OB(err == nil, []byte(enc)), dec),
		map[string]any{"kind": "enc", "hrp": hrp, "data": hex.EncodeToString(data)})
	w.Count("aenc")
	return enc
}

func c14Hrp(r *rand.Rand) string {
	switch r.Intn(8) {
	case 0:
		return []string{"scope", "session", "record", "scopespec", "contractspec", "recspec", "pb", "tp"}[r.Intn(8)]
	case 1:
		return []string{"", "A", "Scope", "SCOPE", "a1b", "1", "x y", "h\x7f", "\xc3\xa9"}[r.Intn(9)]
	}
	n := 1 + r.Intn(10)
	b := make([]byte, n)
	for i := range b {
		b[i] = byte(33 + r.Intn(94))
		if r.Intn(3) > 0 && b[i] >= 'A' && b[i] <= 'Z' {
			b[i] += 32
		}
	}
	return string(b)
}

func c14MutateText(r *rand.Rand, s string) (string, string) {
	if len(s) == 0 {
		return "1", "mut_empty"
	}
	b := []byte(s)
	switch r.Intn(9) {
	case 0:
		return strings.ToUpper(s), "upper"
	case 1: // mixed case
		i := r.Intn(len(b))
		for k := 0; k < len(b) && !(b[i] >= 'a' && b[i] <= 'z'); k++ {
			i = (i + 1) % len(b)
		}
		b[i] = byte(strings.ToUpper(string(b[i]))[0])
		return string(b), "mixed_case"
	case 2: // flip one data char -> bad checksum
		const cs = "qpzry9x8gf2tvdw0s3jn54khce6mua7l"
		i := len(b) - 1 - r.Intn(min(len(b), 20))
		b[i] = cs[r.Intn(32)]
		return string(b), "flip_char"
	case 3:
		return s[:r.Intn(len(s))], "truncated"
	case 4:
		i := r.Intn(len(b) + 1)
		return s[:i] + string([]byte{byte(r.Intn(256))}) + s[i:], "insert_byte"
	case 5:
		return " " + s + " ", "padded"
	case 6:
		i := r.Intn(len(b))
		b[i] = byte(r.Intn(256))
		return string(b), "set_byte"
	case 7: // swap two characters
		i, j := r.Intn(len(b)), r.Intn(len(b))
		b[i], b[j] = b[j], b[i]
		return string(b), "swap"
	default:
		return s + s[strings.LastIndex(s, "1")+1:], "doubled_data"
	}
}

func c14AddressStream(t *testing.T, w *CaseWriter, r *rand.Rand) {
	nCons := scale(150, 4000)
	var pool [][]byte
	var texts []string
	hrps := []string{mdtypes.PrefixScope, mdtypes.PrefixSession, mdtypes.PrefixRecord, mdtypes.PrefixScopeSpecification, mdtypes.PrefixContractSpecification, mdtypes.PrefixRecordSpecification}
	for i := 0; i < nCons; i++ {
		all := c14ACons(w, c14UUID(r), c14UUID(r), c14Name(r))
		pick := all[r.Intn(len(all))]
		pool = append(pool, pick)
		c14ABytes(w, pick, "constructed")
		texts = append(texts, mdtypes.MetadataAddress(pick).String())
	}
	// same name up to case / surrounding blanks gives the same record address
	for i := 0; i < scale(20, 300); i++ {
		u := c14UUID(r)
		n := strings.TrimSpace(c14Name(r))
		if n == "" {
			n = "x"
		}
		c14ACons(w, u, u, " "+strings.ToUpper(n)+"\t")
		c14ACons(w, u, u, strings.ToLower(n))
	}
	// malformed / arbitrary byte strings
	for i := 0; i < scale(400, 10000); i++ {
		var bz []byte
		kind := ""
		base := pool[r.Intn(len(pool))]
		switch r.Intn(8) {
		case 0:
			bz, kind = c14RandBytes(r, r.Intn(40)), "random"
		case 1: // wrong type byte, right length
			bz = append([]byte{}, base...)
			bz[0] = byte(6 + r.Intn(250))
			kind = "wrong_type"
		case 2: // other valid type byte: length may no longer fit
			bz = append([]byte{}, base...)
			bz[0] = byte(r.Intn(6))
			kind = "other_type"
		case 3:
			bz, kind = base[:r.Intn(len(base))], "short"
		case 4:
			bz, kind = append(append([]byte{}, base...), c14RandBytes(r, 1+r.Intn(17))...), "long"
		case 5:
			lens := []int{0, 1, 16, 17, 18, 32, 33, 34}
			bz = c14RandBytes(r, lens[r.Intn(len(lens))])
			if len(bz) > 0 {
				bz[0] = byte(r.Intn(7))
			}
			kind = "boundary_len"
		case 6:
			bz, kind = []byte{byte(r.Intn(8))}, "type_only"
		default:
			bz = c14RandBytes(r, 17+16*r.Intn(2))
			bz[0] = byte(r.Intn(6))
			kind = "random_typed"
		}
		c14ABytes(w, bz, kind)
	}
	// bech32 texts
	for i := 0; i < scale(400, 10000); i++ {
		base := texts[r.Intn(len(texts))]
		switch r.Intn(6) {
		case 0:
			c14AText(w, base, "valid")
		case 1: // right bytes under another type's hrp
			bz := pool[r.Intn(len(pool))]
			s, _ := sdkbech32.ConvertAndEncode(hrps[r.Intn(len(hrps))], bz)
			c14AText(w, s, "other_hrp")
		case 2: // valid bech32 of bytes that are not an address
			var bz []byte
			if r.Intn(2) == 0 {
				bz = c14RandBytes(r, r.Intn(40))
			} else {
				bz = append([]byte{}, pool[r.Intn(len(pool))]...)
				bz[0] = byte(6 + r.Intn(250))
			}
			s, _ := sdkbech32.ConvertAndEncode(hrps[r.Intn(len(hrps))], bz)
			c14AText(w, s, "not_an_address")
		case 3:
			c14AText(w, string(c14RandBytes(r, r.Intn(60))), "random")
		default:
			s, k := c14MutateText(r, base)
			c14AText(w, s, k)
		}
	}
	c14AText(w, "", "empty")
	c14AText(w, "   ", "blank")
	{ // longer than the 1023 limit
		s, _ := sdkbech32.ConvertAndEncode("scope", c14RandBytes(r, 700))
		c14AText(w, s, "too_long")
		c14ADec(w, s, "too_long")
		s2, _ := sdkbech32.ConvertAndEncode("scope", c14RandBytes(r, 630))
		c14ADec(w, s2, "near_limit")
	}
	// hex and denom
	for i := 0; i < scale(120, 3000); i++ {
		bz := pool[r.Intn(len(pool))]
		h := hex.EncodeToString(bz)
		switch r.Intn(5) {
		case 0:
			h = strings.ToUpper(h)
		case 1:
			h = h[:r.Intn(len(h)+1)]
		case 2:
			b := []byte(h)
			b[r.Intn(len(b))] = byte(r.Intn(256))
			h = string(b)
		case 3:
			h = string(c14RandBytes(r, r.Intn(12)))
		}
		ok, out := c14MA(func() (mdtypes.MetadataAddress, error) { return mdtypes.MetadataAddressFromHex(h) })
		w.Add(fmt.Sprintf("AHex %s %s", c14S(h), c14OB(ok, out)), map[string]any{"kind": "hex", "text": h})
		w.Count("ahex")
		if ok {
			w.Count("ahex_accepted")
		}
		d := texts[r.Intn(len(texts))]
		switch r.Intn(6) {
		case 0:
			d = "nft/" + d
		case 1:
			d = "nft/" + strings.ToUpper(d)
		case 2:
			d = "NFT/" + d
		case 3:
			d = "nft/"
		case 4:
			m, _ := c14MutateText(r, d)
			d = "nft/" + m
		}
		ok2, out2 := c14MA(func() (mdtypes.MetadataAddress, error) { return mdtypes.MetadataAddressFromDenom(d) })
		w.Add(fmt.Sprintf("ADenom %s %s", c14S(d), c14OB(ok2, out2)), map[string]any{"kind": "denom", "text": d})
		w.Count("adenom")
		if ok2 {
			w.Count("adenom_accepted")
		}
	}
	// ConvertBits, ConvertAndEncode / DecodeAndConvert on arbitrary input
	for i := 0; i < scale(300, 8000); i++ {
		from, to := uint8(1+r.Intn(8)), uint8(1+r.Intn(8))
		switch r.Intn(4) {
		case 0:
			from, to = 8, 5
		case 1:
			from, to = 5, 8
		case 2:
			from, to = uint8(r.Intn(10)), uint8(r.Intn(10))
		}
		pad := r.Intn(2) == 0
		data := c14RandBytes(r, r.Intn(24))
		if from == 5 && r.Intn(2) == 0 {
			for k := range data {
				data[k] &= 31
			}
		}
		ok, out := c14Bz(func() ([]byte, error) { return btcbech32.ConvertBits(data, from, to, pad) })
		w.Add(fmt.Sprintf("AConv %d%%nat %d%%nat %s %s %s", from, to, coqBool(pad), c14B(data), c14OB(ok, out)),
			map[string]any{"kind": "convert_bits", "from": from, "to": to, "pad": pad, "data": hex.EncodeToString(data)})
		w.Count("aconv")
		if ok {
			w.Count("aconv_accepted")
		}
	}
	var encs []string
	for i := 0; i < scale(200, 5000); i++ {
		enc := c14AEnc(w, c14Hrp(r), c14RandBytes(r, r.Intn(45)))
		if enc != "" {
			encs = append(encs, enc)
		}
	}
	for i := 0; i < scale(300, 8000); i++ {
		switch r.Intn(4) {
		case 0:
			c14ADec(w, string(c14RandBytes(r, r.Intn(50))), "random")
		case 1:
			c14ADec(w, encs[r.Intn(len(encs))], "valid")
		default:
			s, k := c14MutateText(r, encs[r.Intn(len(encs))])
			c14ADec(w, s, k)
		}
	}
	for _, s := range []string{"a12uel5l", "A12UEL5L", "abcdef1qpzry9x8gf2tvdw0s3jn54khce6mua7lmqqqxw", "11qqqqqqqqqqqqqqqqqqqqqqqqqqqqqqqqqqqqqqqqqqqqqqqqqqqqqqqqqqqqqqqqqqqqqqqqqqqqqqqqqc8247j",
		"split1checkupstagehandshakeupstreamerranterredcaperred2y9e3w", "?1ezyfcl", "pzry9x0s0muk", "1pzry9x0s0muk", "x1b4n0q5v", "li1dgmt3", "A1G7SGD8", "10a06t8", "1qzzfhee", "a12UEL5L"} {
		c14ADec(w, s, "bip173")
	}
}

// ---------------------------------------------------------------- history stream

type c14Env struct {
	app     *simapp.App
	accts   []sdk.AccAddress // ids 1..n
	acctID  map[string]int64
	scopeU  []uuid.UUID // ids 1..n
	sessU   []uuid.UUID
	sspecU  []uuid.UUID
	cspecU  []uuid.UUID
	names   []string         // record / record-spec names, ids 1..n
	denoms  []string         // id 0 = usd
	uuidID  map[string]int64 // per kind prefix + uuid bytes
	nameID  map[string]int64
	signers []string
	uris    []string // object store locator URIs, ids 1..n (id 0 = a URI checkValidURI rejects)
	hasAcct map[int64]bool
}

// owners are party codes: entry + 1000*role + 100000*(optional), entry = account (+100 = upper-case
// spelling), role 0 = OWNER, 1 = CUSTODIAN, 2 = INVESTOR (Metadata/Refs.v).
type c14Scope struct {
	id, spec   int64
	owners, da []int64
	rollup     bool
}

var c14Roles = []mdtypes.PartyType{mdtypes.PartyType_PARTY_TYPE_OWNER, mdtypes.PartyType_PARTY_TYPE_CUSTODIAN, mdtypes.PartyType_PARTY_TYPE_INVESTOR}

func c14RoleID(t mdtypes.PartyType) int64 {
	for i, x := range c14Roles {
		if x == t {
			return int64(i)
		}
	}
	return 99
}

type c14Sess struct{ scope, uuid, spec int64 }
type c14Rec struct{ scope, name, sess int64 }
type c14SSpec struct {
	id             int64
	owners, cspecs []int64
}
type c14CSpec struct {
	id     int64
	owners []int64
}
type c14RSpec struct{ cspec, name int64 }
type c14Nav struct{ scope, denom, price int64 }
type c14Loc struct{ acct, uri int64 }

type c14Obs struct {
	ok                                            bool
	scopes                                        []c14Scope
	sess                                          []c14Sess
	recs                                          []c14Rec
	sspecs                                        []c14SSpec
	cspecs                                        []c14CSpec
	rspecs                                        []c14RSpec
	navs                                          []c14Nav
	lAS, lSS, lASP, lCS, lAC, lSess, lRec, lRSpec [][]int64
	locs                                          []c14Loc
	lLocSc                                        []string // per scope: GetOSLocatorByScope as a Coq term
}

func (e *c14Env) uid(kind string, b []byte) int64 {
	if id, ok := e.uuidID[kind+string(b)]; ok {
		return id
	}
	return -1
}
func (e *c14Env) aid(bech string) int64 {
	if id, ok := e.acctID[bech]; ok {
		return id
	}
	return -1
}
func (e *c14Env) aids(l []string) []int64 {
	out := make([]int64, len(l))
	for i, s := range l {
		out[i] = e.aid(s)
	}
	return out
}
func (e *c14Env) nid(name string) int64 {
	if id, ok := e.nameID[name]; ok {
		return id
	}
	return -1
}
func (e *c14Env) did(denom string) int64 {
	for i, d := range e.denoms {
		if d == denom {
			return int64(i)
		}
	}
	return -1
}

func sortedSet(l []int64) []int64 {
	sort.Slice(l, func(i, j int) bool { return l[i] < l[j] })
	out := l[:0]
	for i, x := range l {
		if i == 0 || x != l[i-1] {
			out = append(out, x)
		}
	}
	if out == nil {
		out = []int64{}
	}
	return out
}

func less2(a1, a2, b1, b2 int64) bool { return a1 < b1 || (a1 == b1 && a2 < b2) }

func (e *c14Env) scopeAddr(id int64) mdtypes.MetadataAddress {
	return mdtypes.ScopeMetadataAddress(e.scopeU[id-1])
}
func (e *c14Env) sessAddr(su, ss int64) mdtypes.MetadataAddress {
	return mdtypes.SessionMetadataAddress(e.scopeU[su-1], e.sessU[ss-1])
}
func (e *c14Env) recAddr(su, n int64) mdtypes.MetadataAddress {
	return mdtypes.RecordMetadataAddress(e.scopeU[su-1], e.names[n-1])
}
func (e *c14Env) sspecAddr(id int64) mdtypes.MetadataAddress {
	return mdtypes.ScopeSpecMetadataAddress(e.sspecU[id-1])
}
func (e *c14Env) cspecAddr(id int64) mdtypes.MetadataAddress {
	return mdtypes.ContractSpecMetadataAddress(e.cspecU[id-1])
}
func (e *c14Env) rspecAddr(cu, n int64) mdtypes.MetadataAddress {
	return mdtypes.RecordSpecMetadataAddress(e.cspecU[cu-1], e.names[n-1])
}

func (e *c14Env) observe(ctx sdk.Context, ok bool) c14Obs {
	k := e.app.MetadataKeeper
	o := c14Obs{ok: ok}
	must := func(err error) {
		if err != nil {
			panic(err)
		}
	}
	must(k.IterateScopes(ctx, func(s mdtypes.Scope) bool {
		sc := c14Scope{id: -1, spec: -1, da: e.aids(s.DataAccess), rollup: s.RequirePartyRollup}
		if len(s.ScopeId) == 17 {
			sc.id = e.uid("scope", s.ScopeId[1:])
		}
		if len(s.SpecificationId) == 17 {
			sc.spec = e.uid("sspec", s.SpecificationId[1:])
		}
		for _, p := range s.Owners {
			code := e.aid(p.Address)
			if code > 0 {
				code += 1000 * c14RoleID(p.Role)
				if p.Optional {
					code += 100000
				}
			}
			sc.owners = append(sc.owners, code)
		}
		// the entry is reachable under the id its content names
		if g, found := k.GetScope(ctx, s.ScopeId); !found || !g.ScopeId.Equals(s.ScopeId) {
			sc.id = -2
		}
		o.scopes = append(o.scopes, sc)
		return false
	}))
	sort.Slice(o.scopes, func(i, j int) bool { return o.scopes[i].id < o.scopes[j].id })
	must(k.IterateSessions(ctx, mdtypes.MetadataAddress{}, func(s mdtypes.Session) bool {
		se := c14Sess{-1, -1, -1}
		if len(s.SessionId) == 33 {
			se.scope, se.uuid = e.uid("scope", s.SessionId[1:17]), e.uid("sess", s.SessionId[17:])
		}
		if len(s.SpecificationId) == 17 {
			se.spec = e.uid("cspec", s.SpecificationId[1:])
		}
		if _, found := k.GetSession(ctx, s.SessionId); !found {
			se.uuid = -2
		}
		o.sess = append(o.sess, se)
		return false
	}))
	sort.Slice(o.sess, func(i, j int) bool { return less2(o.sess[i].scope, o.sess[i].uuid, o.sess[j].scope, o.sess[j].uuid) })
	must(k.IterateRecords(ctx, mdtypes.MetadataAddress{}, func(r mdtypes.Record) bool {
		re := c14Rec{-1, e.nid(r.Name), -1}
		if len(r.SessionId) == 33 {
			re.scope, re.sess = e.uid("scope", r.SessionId[1:17]), e.uid("sess", r.SessionId[17:])
			var u uuid.UUID
			copy(u[:], r.SessionId[1:17])
			if g, found := k.GetRecord(ctx, mdtypes.RecordMetadataAddress(u, r.Name)); !found || g.Name != r.Name {
				re.name = -2
			}
		}
		o.recs = append(o.recs, re)
		return false
	}))
	sort.Slice(o.recs, func(i, j int) bool { return less2(o.recs[i].scope, o.recs[i].name, o.recs[j].scope, o.recs[j].name) })
	must(k.IterateScopeSpecs(ctx, func(s mdtypes.ScopeSpecification) bool {
		sp := c14SSpec{id: -1, owners: e.aids(s.OwnerAddresses)}
		if len(s.SpecificationId) == 17 {
			sp.id = e.uid("sspec", s.SpecificationId[1:])
		}
		for _, c := range s.ContractSpecIds {
			if len(c) == 17 {
				sp.cspecs = append(sp.cspecs, e.uid("cspec", c[1:]))
			} else {
				sp.cspecs = append(sp.cspecs, -1)
			}
		}
		o.sspecs = append(o.sspecs, sp)
		return false
	}))
	sort.Slice(o.sspecs, func(i, j int) bool { return o.sspecs[i].id < o.sspecs[j].id })
	must(k.IterateContractSpecs(ctx, func(s mdtypes.ContractSpecification) bool {
		sp := c14CSpec{id: -1, owners: e.aids(s.OwnerAddresses)}
		if len(s.SpecificationId) == 17 {
			sp.id = e.uid("cspec", s.SpecificationId[1:])
		}
		o.cspecs = append(o.cspecs, sp)
		return false
	}))
	sort.Slice(o.cspecs, func(i, j int) bool { return o.cspecs[i].id < o.cspecs[j].id })
	must(k.IterateRecordSpecs(ctx, func(s mdtypes.RecordSpecification) bool {
		sp := c14RSpec{-1, e.nid(s.Name)}
		if len(s.SpecificationId) == 33 {
			sp.cspec = e.uid("cspec", s.SpecificationId[1:17])
		}
		o.rspecs = append(o.rspecs, sp)
		return false
	}))
	sort.Slice(o.rspecs, func(i, j int) bool {
		return less2(o.rspecs[i].cspec, o.rspecs[i].name, o.rspecs[j].cspec, o.rspecs[j].name)
	})
	for i := range e.scopeU {
		id := int64(i + 1)
		must(k.IterateNetAssetValues(ctx, e.scopeAddr(id), func(n mdtypes.NetAssetValue) bool {
			o.navs = append(o.navs, c14Nav{id, e.did(n.Price.Denom), n.Price.Amount.Int64()})
			return false
		}))
	}
	sort.Slice(o.navs, func(i, j int) bool { return less2(o.navs[i].scope, o.navs[i].denom, o.navs[j].scope, o.navs[j].denom) })
	// lookups
	// a lookup iterator that fails (or panics) lists the sentinel -3: an observation, not a harness error
	collect := func(kind string, f func(h func(id mdtypes.MetadataAddress) bool) error) []int64 {
		l := []int64{}
		if err := try(func() error {
			return f(func(id mdtypes.MetadataAddress) bool {
				if len(id) == 17 {
					l = append(l, e.uid(kind, id[1:]))
				} else {
					l = append(l, -1)
				}
				return false
			})
		}); err != nil {
			l = append(l, -3)
		}
		return sortedSet(l)
	}
	for _, a := range e.accts {
		a := a
		o.lAS = append(o.lAS, collect("scope", func(h func(mdtypes.MetadataAddress) bool) error { return k.IterateScopesForAddress(ctx, a, h) }))
		o.lASP = append(o.lASP, collect("sspec", func(h func(mdtypes.MetadataAddress) bool) error { return k.IterateScopeSpecsForOwner(ctx, a, h) }))
		o.lAC = append(o.lAC, collect("cspec", func(h func(mdtypes.MetadataAddress) bool) error { return k.IterateContractSpecsForOwner(ctx, a, h) }))
	}
	for i := range e.sspecU {
		id := e.sspecAddr(int64(i + 1))
		o.lSS = append(o.lSS, collect("scope", func(h func(mdtypes.MetadataAddress) bool) error { return k.IterateScopesForScopeSpec(ctx, id, h) }))
	}
	for i := range e.cspecU {
		id := e.cspecAddr(int64(i + 1))
		o.lCS = append(o.lCS, collect("sspec", func(h func(mdtypes.MetadataAddress) bool) error {
			return k.IterateScopeSpecsForContractSpec(ctx, id, h)
		}))
		l := []int64{}
		must(k.IterateRecordSpecsForContractSpec(ctx, id, func(rid mdtypes.MetadataAddress) bool {
			if rs, found := k.GetRecordSpecification(ctx, rid); found {
				l = append(l, e.nid(rs.Name))
			} else {
				l = append(l, -1)
			}
			return false
		}))
		o.lRSpec = append(o.lRSpec, sortedSet(l))
	}
	for i := range e.scopeU {
		id := e.scopeAddr(int64(i + 1))
		l := []int64{}
		must(k.IterateSessions(ctx, id, func(s mdtypes.Session) bool {
			if len(s.SessionId) == 33 {
				l = append(l, e.uid("sess", s.SessionId[17:]))
			} else {
				l = append(l, -1)
			}
			return false
		}))
		o.lSess = append(o.lSess, sortedSet(l))
		l2 := []int64{}
		must(k.IterateRecords(ctx, id, func(r mdtypes.Record) bool { l2 = append(l2, e.nid(r.Name)); return false }))
		o.lRec = append(o.lRec, sortedSet(l2))
	}
	// object store locators: all of them, and per scope
	locOf := func(l mdtypes.ObjectStoreLocator) c14Loc {
		lc := c14Loc{e.aid(l.Owner), -1}
		for i, u := range e.uris {
			if u == l.LocatorUri {
				lc.uri = int64(i + 1)
			}
		}
		return lc
	}
	must(k.IterateOSLocators(ctx, func(l mdtypes.ObjectStoreLocator) bool {
		o.locs = append(o.locs, locOf(l))
		return false
	}))
	sort.Slice(o.locs, func(i, j int) bool { return o.locs[i].acct < o.locs[j].acct })
	for i := range e.scopeU {
		var ls []mdtypes.ObjectStoreLocator
		err := try(func() error {
			var e2 error
			ls, e2 = k.GetOSLocatorByScope(ctx, e.scopeAddr(int64(i+1)).String())
			return e2
		})
		if err != nil {
			o.lLocSc = append(o.lLocSc, "None")
			continue
		}
		var items []string
		for _, l := range ls {
			items = append(items, locOf(l).coq())
		}
		o.lLocSc = append(o.lLocSc, "(Some "+coqList(items)+")")
	}
	return o
}

func (l c14Loc) coq() string { return fmt.Sprintf("(%s, %s)", zI64(l.acct), zI64(l.uri)) }

func (o c14Obs) coq() string {
	var a, b, c, d, f, g, h []string
	for _, s := range o.scopes {
		a = append(a, fmt.Sprintf("ScR %s %s %s %s %s", zI64(s.id), zI64(s.spec), c14ZL(s.owners), c14ZL(s.da), coqBool(s.rollup)))
	}
	for _, s := range o.sess {
		b = append(b, fmt.Sprintf("Se %s %s %s", zI64(s.scope), zI64(s.uuid), zI64(s.spec)))
	}
	for _, s := range o.recs {
		c = append(c, fmt.Sprintf("Re %s %s %s", zI64(s.scope), zI64(s.name), zI64(s.sess)))
	}
	for _, s := range o.sspecs {
		d = append(d, fmt.Sprintf("Ss %s %s %s", zI64(s.id), c14ZL(s.owners), c14ZL(s.cspecs)))
	}
	for _, s := range o.cspecs {
		f = append(f, fmt.Sprintf("Cs %s %s", zI64(s.id), c14ZL(s.owners)))
	}
	for _, s := range o.rspecs {
		g = append(g, fmt.Sprintf("Rs %s %s", zI64(s.cspec), zI64(s.name)))
	}
	for _, s := range o.navs {
		h = append(h, fmt.Sprintf("(%s, %s, %s)", zI64(s.scope), zI64(s.denom), zI64(s.price)))
	}
	var lc []string
	for _, l := range o.locs {
		lc = append(lc, l.coq())
	}
	return fmt.Sprintf("HO %s %s %s %s %s %s %s %s %s %s %s %s %s %s %s %s %s %s", coqBool(o.ok), coqList(a), coqList(b), coqList(c), coqList(d), coqList(f), coqList(g), coqList(h),
		c14ZLL(o.lAS), c14ZLL(o.lSS), c14ZLL(o.lASP), c14ZLL(o.lCS), c14ZLL(o.lAC), c14ZLL(o.lSess), c14ZLL(o.lRec), c14ZLL(o.lRSpec), coqList(lc), coqList(o.lLocSc))
}

// ---------------------------------------------------------------- letter case of the text form

// c14CaseStream: every address kind rendered by String(), then read back in lower case, in upper
// case (a legal bech32 spelling) and in mixed case (illegal) through every way the module reads a
// metadata address from text.
func c14CaseStream(t *testing.T, w *CaseWriter, r *rand.Rand) {
	read := func(text string) []string {
		var out []string
		ok, bz := c14MA(func() (mdtypes.MetadataAddress, error) { return mdtypes.MetadataAddressFromBech32(text) })
		out = append(out, c14OB(ok, bz))
		ok, bz = c14MA(func() (mdtypes.MetadataAddress, error) {
			ma, _, err := mdtypes.ParseMetadataAddressFromBech32(text)
			return ma, err
		})
		out = append(out, c14OB(ok, bz))
		js, _ := json.Marshal(text)
		ok, bz = c14MA(func() (mdtypes.MetadataAddress, error) {
			var ma mdtypes.MetadataAddress
			err := ma.UnmarshalJSON(js)
			return ma, err
		})
		out = append(out, c14OB(ok, bz))
		ok, bz = c14MA(func() (mdtypes.MetadataAddress, error) {
			var ma mdtypes.MetadataAddress
			err := ma.UnmarshalYAML([]byte(text))
			return ma, err
		})
		out = append(out, c14OB(ok, bz))
		return out
	}
	mixed := func(lower string) string {
		b := []byte(lower)
		var letters []int
		for i, c := range b {
			if c >= 'a' && c <= 'z' {
				letters = append(letters, i)
			}
		}
		// some but not all letters in upper case
		k := 1 + r.Intn(len(letters)-1)
		for _, j := range r.Perm(len(letters))[:k] {
			b[letters[j]] -= 32
		}
		return string(b)
	}
	for i := 0; i < scale(150, 3600); i++ {
		u1, u2 := c14UUID(r), c14UUID(r)
		var ma mdtypes.MetadataAddress
		switch i % 6 {
		case 0:
			ma = mdtypes.ScopeMetadataAddress(u1)
		case 1:
			ma = mdtypes.SessionMetadataAddress(u1, u2)
		case 2:
			ma = mdtypes.RecordMetadataAddress(u1, "rec"+c14Name(r))
		case 3:
			ma = mdtypes.ContractSpecMetadataAddress(u1)
		case 4:
			ma = mdtypes.ScopeSpecMetadataAddress(u1)
		default:
			ma = mdtypes.RecordSpecMetadataAddress(u1, "rec"+c14Name(r))
		}
		lo := ma.String()
		up := strings.ToUpper(lo)
		mx := mixed(lo)
		texts := []string{lo, up, mx}
		sess := []string{"None", "None", "None"}
		v := []string{}
		if ma.IsScopeAddress() {
			for k, text := range texts {
				comp := &mdtypes.SessionIdComponents{ScopeIdentifier: &mdtypes.SessionIdComponents_ScopeAddr{ScopeAddr: text}, SessionUuid: u2.String()}
				ok, bz := c14MA(comp.GetSessionAddr)
				sess[k] = c14OB(ok, bz)
				msg := mdtypes.MsgAddNetAssetValuesRequest{ScopeId: text, Signers: []string{addrN(1400).String()},
					NetAssetValues: []mdtypes.NetAssetValue{mdtypes.NewNetAssetValue(sdk.NewInt64Coin(mdtypes.UsdDenom, 5), 1)}}
				v = append(v, coqBool(try(msg.ValidateBasic) == nil))
			}
			w.Count("acase_scope")
		}
		rl, ru, rm := read(lo), read(up), read(mx)
		w.Add(fmt.Sprintf("ACase %s %s %s %s %s %s %s %s %s %s %s %s", c14B(ma), c14S(lo), c14S(up), c14S(mx), coqList(rl), coqList(ru), coqList(rm),
			c14B(u2[:]), sess[0], sess[1], sess[2], coqList(v)),
			map[string]any{"kind": "text_case", "lower": lo, "upper": up, "mixed": mx})
		w.Count("acase")
		if ru[0] != "None" {
			w.Count("acase_upper_parsed")
			w.Nontrivial("cs:" + lo)
		}
	}
}

// ---------------------------------------------------------------- UTF-8 name stream

// Alphabets for record names outside ASCII. "covered" runes lie inside the part of
// unicode.ToLower that Metadata/Utf8Name.v transcribes (the whole normal form is then compared with
// the model); names with an "uncovered" rune are compared on TrimSpace only and checked on the
// normal form Go computed.
var (
	c14Covered = []rune("abcXYZ09-_." +
		"ÀÉÎÕÜÞßçñÿ×÷µª" + // Latin-1
		"ĀāĂăĮį" + // Latin Extended-A pairs
		"ΑΒΓΣΩΪαβσςωάώ" + // Greek
		"ЀЁЏАЖЯажяёѝ" + // Cyrillic
		"\u212a\u2126\u212b" + // Kelvin, Ohm, Angstrom signs
		"記録名レコード기록" + // CJK, Katakana, Hangul
		"\U0001f600\U0001f64f\U0001f30d" + // pictographs
		"שלسجกक" + // Hebrew, Arabic, Thai, Devanagari
		"\u0301\u0308\u0345" + // combining marks
		"\u200b\u2060€→∀\ufffd") // zero width space / word joiner (NOT white space), symbols, U+FFFD
	c14Uncovered = []rune("ԱԲա" + // Armenian
		"ƂƃǄǅ" + // Latin Extended-B
		"İıĴŁŠŽſ" + // Latin Extended-A beyond 012F (dotted I, long s ...)
		"ႠაᎠꭰ" + // Georgian, Cherokee
		"Ａａ" + // fullwidth
		"ẞḀἈⅠⒶⰀ" + // capital sharp s, Latin Extended Additional, Greek Extended, Roman numeral, circled, Glagolitic
		"\U00010400\U00010428\U0001e900" + // Deseret, Adlam (4 byte letters with case)
		"\ufeff\u180e") // BOM, Mongolian vowel separator (not white space)
	c14Spaces = []rune("\t\n\v\f\r \u0085\u00a0\u1680\u2000\u2001\u2005\u200a\u2028\u2029\u202f\u205f\u3000")
)

func c14UName(r *rand.Rand) (name string, class string) {
	class = "covered"
	var sb strings.Builder
	pad := func() {
		for k := r.Intn(3); k > 0; k-- {
			sb.WriteRune(c14Spaces[r.Intn(len(c14Spaces))])
		}
	}
	if r.Intn(2) == 0 {
		pad()
	}
	n := r.Intn(9)
	if r.Intn(12) > 0 && n == 0 {
		n = 1
	}
	unc := r.Intn(5) == 0
	for i := 0; i < n; i++ {
		switch {
		case unc && r.Intn(3) == 0:
			sb.WriteRune(c14Uncovered[r.Intn(len(c14Uncovered))])
			class = "uncovered"
		case r.Intn(10) == 0: // inner white space stays
			sb.WriteRune(c14Spaces[r.Intn(len(c14Spaces))])
		default:
			sb.WriteRune(c14Covered[r.Intn(len(c14Covered))])
		}
	}
	if r.Intn(2) == 0 {
		pad()
	}
	name = sb.String()
	if r.Intn(5) == 0 { // invalid UTF-8: stray / overlong / surrogate / truncated / impossible bytes
		bad := [][]byte{{0xff}, {0x80}, {0xbf}, {0xc0, 0x80}, {0xc1, 0xbf}, {0xed, 0xa0, 0x80}, {0xe2, 0x80}, {0xf0, 0x9f, 0x98}, {0xf4, 0x90, 0x80, 0x80}, {0xf5}, {0xe0, 0x80, 0x80}, {0xc3}, {0xe3, 0x80}}[r.Intn(13)]
		b := []byte(name)
		i := r.Intn(len(b) + 1)
		switch r.Intn(3) {
		case 0:
			i = 0
		case 1:
			i = len(b)
		}
		name = string(b[:i]) + string(bad) + string(b[i:])
		if class == "covered" {
			class = "invalid_utf8"
		}
	}
	return name, class
}

// c14ConsObs builds every address kind from (u1, u2, name) with the real constructors and returns
// the Coq observation term.
func c14ConsObs(u1, u2 uuid.UUID, name string) (term string, recOK bool, rec []byte, all [][]byte) {
	scope := mdtypes.ScopeMetadataAddress(u1)
	sess := mdtypes.SessionMetadataAddress(u1, u2)
	recOK, rec = c14MA(func() (mdtypes.MetadataAddress, error) { return mdtypes.RecordMetadataAddress(u1, name), nil })
	sspec := mdtypes.ScopeSpecMetadataAddress(u1)
	cspec := mdtypes.ContractSpecMetadataAddress(u2)
	rspOK, rsp := c14MA(func() (mdtypes.MetadataAddress, error) { return mdtypes.RecordSpecMetadataAddress(u2, name), nil })
	s1, t1 := c14MA(func() (mdtypes.MetadataAddress, error) { return scope.AsSessionAddress(u2) })
	s2, t2 := c14MA(func() (mdtypes.MetadataAddress, error) { return sess.AsRecordAddress(name) })
	s3, t3 := c14MA(func() (mdtypes.MetadataAddress, error) { return cspec.AsRecordSpecAddress(name) })
	s4, t4 := c14MA(sess.AsScopeAddress)
	s5, t5 := false, []byte(nil)
	if recOK {
		s5, t5 = c14MA(mdtypes.MetadataAddress(rec).AsScopeAddress)
	}
	s6, t6 := false, []byte(nil)
	if rspOK {
		s6, t6 = c14MA(mdtypes.MetadataAddress(rsp).AsContractSpecAddress)
	}
	term = fmt.Sprintf("(CO %s %s %s %s %s %s %s %s %s %s %s %s)",
		c14B(scope), c14B(sess), c14OB(recOK, rec), c14B(sspec), c14B(cspec), c14OB(rspOK, rsp),
		c14OB(s1, t1), c14OB(s2, t2), c14OB(s3, t3), c14OB(s4, t4), c14OB(s5, t5), c14OB(s6, t6))
	all = [][]byte{scope, sess, sspec, cspec}
	if recOK {
		all = append(all, rec)
	}
	if rspOK {
		all = append(all, rsp)
	}
	return term, recOK, rec, all
}

func c14AConsU(w *CaseWriter, u1, u2 uuid.UUID, name, class string) {
	trimmed := strings.TrimSpace(name)
	norm := strings.ToLower(trimmed)
	obs, recOK, _, _ := c14ConsObs(u1, u2, name)
	w.Add(fmt.Sprintf("AConsU %s %s %s %s %s %s %s", c14B(u1[:]), c14B(u2[:]), c14S(name), c14S(trimmed), c14S(norm), c14B(c14Hash16(name)), obs),
		map[string]any{"kind": "cons_utf8:" + class, "u1": u1.String(), "u2": u2.String(), "name": name, "name_hex": hex.EncodeToString([]byte(name))})
	w.Count("aconsu")
	w.Count("aconsu_" + class)
	if trimmed != name {
		w.Count("aconsu_trimmed")
	}
	if norm != trimmed {
		w.Count("aconsu_lowered")
	}
	if recOK {
		w.Nontrivial("au:" + u1.String() + u2.String() + name)
	} else {
		w.Count("aconsu_blank_name")
	}
}

func c14ANames(w *CaseWriter, u uuid.UUID, n1, n2, how string) {
	o1, r1 := c14MA(func() (mdtypes.MetadataAddress, error) { return mdtypes.RecordMetadataAddress(u, n1), nil })
	o2, r2 := c14MA(func() (mdtypes.MetadataAddress, error) { return mdtypes.RecordMetadataAddress(u, n2), nil })
	w.Add(fmt.Sprintf("ANames %s %s %s %s %s %s %s", c14B(u[:]), c14S(n1), c14S(c14Norm(n1)), c14S(n2), c14S(c14Norm(n2)), c14OB(o1, r1), c14OB(o2, r2)),
		map[string]any{"kind": "names:" + how, "n1": n1, "n2": n2})
	w.Count("anames")
	if o1 && o2 && string(r1) == string(r2) {
		w.Count("anames_same_address")
		w.Nontrivial("an:" + n1 + "|" + n2)
	}
}

func c14NameStream(t *testing.T, w *CaseWriter, r *rand.Rand) {
	for i := 0; i < scale(260, 6000); i++ {
		name, class := c14UName(r)
		c14AConsU(w, c14UUID(r), c14UUID(r), name, class)
	}
	for _, name := range []string{"\u212a", "k", "K", "\u00a0", "\u3000\u2028", "\u200b", " \u200b ", "İ", "I\u0307", "ß", "ẞ", "Σ", "ς", "σ",
		"\xff", "a\xff", "a\xfe", "\xc2", "\xc2\xa0", "a\xc2\xa0", "\xa0", "\xe2\x80\xa8\xe2\x80", "\xef\xbf\xbd", "A\xef\xbf\xbd", "\u0085\u0085", "a\u0085", "\u180e"} {
		class := "fixed"
		c14AConsU(w, c14UUID(r), c14UUID(r), name, class)
	}
	// pairs: case variants and padding give the same record address, anything else another one
	for i := 0; i < scale(80, 2000); i++ {
		n1, _ := c14UName(r)
		var n2, how string
		switch r.Intn(6) {
		case 0:
			n2, how = strings.ToUpper(n1), "upper"
		case 1:
			n2, how = strings.ToLower(n1), "lower"
		case 2:
			n2, how = strings.ToTitle(n1), "title"
		case 3:
			n2, how = string(c14Spaces[r.Intn(len(c14Spaces))])+n1+string(c14Spaces[r.Intn(len(c14Spaces))]), "padded"
		case 4:
			n2, how = n1+string(c14Covered[r.Intn(len(c14Covered))]), "appended"
		default:
			n2, how = c14UName(r)
			how = "other"
		}
		c14ANames(w, c14UUID(r), n1, n2, how)
	}
	c14ANames(w, c14UUID(r), "a\xff", "a\xfe", "invalid_bytes_collapse")
	c14ANames(w, c14UUID(r), "\u212a", "k", "kelvin")
	c14ANames(w, c14UUID(r), "Σ", "ς", "sigma")
}

// c14Op is one operation: its Coq term and how to run it on the real code.
type c14Op struct {
	term string
	kind string
	run  func(ctx sdk.Context) error
}

// entryStr spells an address entry: id a = lower-case bech32 of account a, 100+a = the upper-case
// spelling of the same account (both are legal bech32 and pass ValidateBasic).
func (e *c14Env) entryStr(id int64) string {
	if id > 100 {
		return strings.ToUpper(e.accts[id-101].String())
	}
	return e.accts[id-1].String()
}
func (e *c14Env) parties(ids []int64) []mdtypes.Party {
	var out []mdtypes.Party
	for _, id := range ids {
		out = append(out, mdtypes.Party{Address: e.entryStr(id % 1000), Role: c14Roles[(id/1000)%100], Optional: id >= 100000})
	}
	return out
}
func (e *c14Env) strs(ids []int64) []string {
	out := []string{}
	for _, id := range ids {
		out = append(out, e.entryStr(id))
	}
	return out
}

// respell switches some entries to the other spelling and sometimes adds the second spelling of
// an account that is already listed.
func respell(r *rand.Rand, l []int64) []int64 {
	out := append([]int64{}, l...)
	for i := range out {
		if r.Intn(4) == 0 {
			out[i] += 100
		}
	}
	if len(out) > 0 && r.Intn(5) == 0 {
		x := out[r.Intn(len(out))]
		if x > 100 {
			out = append(out, x-100)
		} else {
			out = append(out, x+100)
		}
	}
	return out
}

func (e *c14Env) mkScope(s c14Scope) mdtypes.Scope {
	return mdtypes.Scope{ScopeId: e.scopeAddr(s.id), SpecificationId: e.sspecAddr(s.spec), Owners: e.parties(s.owners), DataAccess: e.strs(s.da), RequirePartyRollup: s.rollup}
}
func (e *c14Env) mkSession(s c14Sess, parties []int64) mdtypes.Session {
	return mdtypes.Session{SessionId: e.sessAddr(s.scope, s.uuid), SpecificationId: e.cspecAddr(s.spec), Parties: e.parties(parties), Name: "sess"}
}
func (e *c14Env) mkRecord(r c14Rec) mdtypes.Record {
	return mdtypes.Record{
		Name: e.names[r.name-1], SessionId: e.sessAddr(r.scope, r.sess),
		Process: mdtypes.Process{ProcessId: &mdtypes.Process_Hash{Hash: "prochash"}, Name: "proc", Method: "run"},
		Inputs:  []mdtypes.RecordInput{{Name: "in1", Source: &mdtypes.RecordInput_Hash{Hash: "inhash"}, TypeName: "typ", Status: mdtypes.RecordInputStatus_Proposed}},
		Outputs: []mdtypes.RecordOutput{{Hash: "outhash", Status: mdtypes.ResultStatus_RESULT_STATUS_PASS}},
	}
}
func (e *c14Env) mkSSpec(s c14SSpec) mdtypes.ScopeSpecification {
	sp := mdtypes.ScopeSpecification{SpecificationId: e.sspecAddr(s.id), OwnerAddresses: e.strs(s.owners), PartiesInvolved: []mdtypes.PartyType{mdtypes.PartyType_PARTY_TYPE_OWNER}}
	for _, c := range s.cspecs {
		sp.ContractSpecIds = append(sp.ContractSpecIds, e.cspecAddr(c))
	}
	return sp
}
func (e *c14Env) mkCSpec(s c14CSpec) mdtypes.ContractSpecification {
	return mdtypes.ContractSpecification{SpecificationId: e.cspecAddr(s.id), OwnerAddresses: e.strs(s.owners), PartiesInvolved: []mdtypes.PartyType{mdtypes.PartyType_PARTY_TYPE_OWNER},
		Source: mdtypes.NewContractSpecificationSourceHash("srchash"), ClassName: "cls"}
}
func (e *c14Env) mkRSpec(s c14RSpec) mdtypes.RecordSpecification {
	return mdtypes.RecordSpecification{SpecificationId: e.rspecAddr(s.cspec, s.name), Name: e.names[s.name-1],
		Inputs:   []*mdtypes.InputSpecification{{Name: "in1", TypeName: "typ", Source: mdtypes.NewInputSpecificationSourceHash("inhash")}},
		TypeName: "typ", ResultType: mdtypes.DefinitionType_DEFINITION_TYPE_RECORD, ResponsibleParties: []mdtypes.PartyType{mdtypes.PartyType_PARTY_TYPE_OWNER}}
}

type c14VB interface {
	sdk.Msg
	ValidateBasic() error
}

func (e *c14Env) msg(m c14VB) func(sdk.Context) error {
	return func(ctx sdk.Context) error {
		if err := m.ValidateBasic(); err != nil {
			return err
		}
		h := e.app.MsgServiceRouter().Handler(m)
		if h == nil {
			return fmt.Errorf("no handler for %T", m)
		}
		_, err := h(ctx, m)
		return err
	}
}

// ---- operation constructors (one per model constructor; used by the random generator and by the
// directed histories that replay the Coq witnesses on the real code)

func c14ScopeTerm(s c14Scope) string {
	return fmt.Sprintf("(ScR %s %s %s %s %s)", zI64(s.id), zI64(s.spec), c14ZL(s.owners), c14ZL(s.da), coqBool(s.rollup))
}
func c14SSpecTerm(s c14SSpec) string {
	return fmt.Sprintf("(Ss %s %s %s)", zI64(s.id), c14ZL(s.owners), c14ZL(s.cspecs))
}
func c14CSpecTerm(s c14CSpec) string { return fmt.Sprintf("(Cs %s %s)", zI64(s.id), c14ZL(s.owners)) }

func (e *c14Env) opWriteScope(s c14Scope, mills uint64, viaMsg bool) c14Op {
	if viaMsg {
		return c14Op{fmt.Sprintf("MWriteScope %s %d", c14ScopeTerm(s), mills), "MWriteScope", e.msg(mdtypes.NewMsgWriteScopeRequest(e.mkScope(s), e.signers, mills))}
	}
	return c14Op{"KSetScope " + c14ScopeTerm(s), "KSetScope", func(ctx sdk.Context) error { return e.app.MetadataKeeper.SetScope(ctx, e.mkScope(s)) }}
}
func (e *c14Env) opDeleteScope(id int64, viaMsg bool) c14Op {
	if viaMsg {
		return c14Op{"MDeleteScope " + zI64(id), "MDeleteScope", e.msg(mdtypes.NewMsgDeleteScopeRequest(e.scopeAddr(id), e.signers))}
	}
	return c14Op{"KRemoveScope " + zI64(id), "KRemoveScope", func(ctx sdk.Context) error { return e.app.MetadataKeeper.RemoveScope(ctx, e.scopeAddr(id)) }}
}
func (e *c14Env) opAddDA(id int64, l []int64) c14Op {
	return c14Op{fmt.Sprintf("MAddDataAccess %d %s", id, c14ZL(l)), "MAddDataAccess", e.msg(mdtypes.NewMsgAddScopeDataAccessRequest(e.scopeAddr(id), e.strs(l), e.signers))}
}
func (e *c14Env) opDelDA(id int64, l []int64) c14Op {
	return c14Op{fmt.Sprintf("MDelDataAccess %d %s", id, c14ZL(l)), "MDelDataAccess", e.msg(mdtypes.NewMsgDeleteScopeDataAccessRequest(e.scopeAddr(id), e.strs(l), e.signers))}
}
func (e *c14Env) opAddOwners(id int64, l []int64) c14Op {
	return c14Op{fmt.Sprintf("MAddOwners %d %s", id, c14ZL(l)), "MAddOwners", e.msg(mdtypes.NewMsgAddScopeOwnerRequest(e.scopeAddr(id), e.parties(l), e.signers))}
}
func (e *c14Env) opDelOwners(id int64, l []int64) c14Op {
	return c14Op{fmt.Sprintf("MDelOwners %d %s", id, c14ZL(l)), "MDelOwners", e.msg(mdtypes.NewMsgDeleteScopeOwnerRequest(e.scopeAddr(id), e.strs(l), e.signers))}
}
func (e *c14Env) opWriteSession(s c14Sess, parties []int64, raw bool) c14Op {
	term := fmt.Sprintf("(Se %d %d %d)", s.scope, s.uuid, s.spec)
	if raw {
		return c14Op{"KSetSession " + term, "KSetSession", func(ctx sdk.Context) error {
			e.app.MetadataKeeper.SetSession(ctx, e.mkSession(s, []int64{1}))
			return nil
		}}
	}
	return c14Op{"MWriteSession " + term, "MWriteSession", e.msg(mdtypes.NewMsgWriteSessionRequest(e.mkSession(s, parties), e.signers))}
}
func (e *c14Env) opRemoveSession(su, ss int64) c14Op {
	return c14Op{fmt.Sprintf("KRemoveSession %d %d", su, ss), "KRemoveSession", func(ctx sdk.Context) error { e.app.MetadataKeeper.RemoveSession(ctx, e.sessAddr(su, ss)); return nil }}
}
func (e *c14Env) opWriteRecord(rc c14Rec, raw bool) c14Op {
	term := fmt.Sprintf("(Re %d %d %d)", rc.scope, rc.name, rc.sess)
	if raw {
		return c14Op{"KSetRecord " + term, "KSetRecord", func(ctx sdk.Context) error { e.app.MetadataKeeper.SetRecord(ctx, e.mkRecord(rc)); return nil }}
	}
	return c14Op{"MWriteRecord " + term, "MWriteRecord", e.msg(mdtypes.NewMsgWriteRecordRequest(e.mkRecord(rc), nil, "", e.signers, nil))}
}
func (e *c14Env) opDeleteRecord(su, n int64, viaMsg bool) c14Op {
	if viaMsg {
		return c14Op{fmt.Sprintf("MDeleteRecord %d %d", su, n), "MDeleteRecord", e.msg(mdtypes.NewMsgDeleteRecordRequest(e.recAddr(su, n), e.signers))}
	}
	return c14Op{fmt.Sprintf("KRemoveRecord %d %d", su, n), "KRemoveRecord", func(ctx sdk.Context) error { e.app.MetadataKeeper.RemoveRecord(ctx, e.recAddr(su, n)); return nil }}
}
func (e *c14Env) opWriteSSpec(s c14SSpec, viaMsg bool) c14Op {
	if viaMsg {
		return c14Op{"MWriteSSpec " + c14SSpecTerm(s), "MWriteSSpec", e.msg(mdtypes.NewMsgWriteScopeSpecificationRequest(e.mkSSpec(s), e.signers))}
	}
	return c14Op{"KSetSSpec " + c14SSpecTerm(s), "KSetSSpec", func(ctx sdk.Context) error { e.app.MetadataKeeper.SetScopeSpecification(ctx, e.mkSSpec(s)); return nil }}
}
func (e *c14Env) opDeleteSSpec(id int64, viaMsg bool) c14Op {
	if viaMsg {
		return c14Op{"MDeleteSSpec " + zI64(id), "MDeleteSSpec", e.msg(mdtypes.NewMsgDeleteScopeSpecificationRequest(e.sspecAddr(id), e.signers))}
	}
	return c14Op{"KRemoveSSpec " + zI64(id), "KRemoveSSpec", func(ctx sdk.Context) error {
		return e.app.MetadataKeeper.RemoveScopeSpecification(ctx, e.sspecAddr(id))
	}}
}
func (e *c14Env) opWriteCSpec(s c14CSpec, viaMsg bool) c14Op {
	if viaMsg {
		return c14Op{"MWriteCSpec " + c14CSpecTerm(s), "MWriteCSpec", e.msg(mdtypes.NewMsgWriteContractSpecificationRequest(e.mkCSpec(s), e.signers))}
	}
	return c14Op{"KSetCSpec " + c14CSpecTerm(s), "KSetCSpec", func(ctx sdk.Context) error {
		e.app.MetadataKeeper.SetContractSpecification(ctx, e.mkCSpec(s))
		return nil
	}}
}
func (e *c14Env) opDeleteCSpec(id int64, viaMsg bool) c14Op {
	if viaMsg {
		return c14Op{"MDeleteCSpec " + zI64(id), "MDeleteCSpec", e.msg(mdtypes.NewMsgDeleteContractSpecificationRequest(e.cspecAddr(id), e.signers))}
	}
	return c14Op{"KRemoveCSpec " + zI64(id), "KRemoveCSpec", func(ctx sdk.Context) error {
		return e.app.MetadataKeeper.RemoveContractSpecification(ctx, e.cspecAddr(id))
	}}
}
func (e *c14Env) opWriteRSpec(s c14RSpec, viaMsg bool) c14Op {
	term := fmt.Sprintf("(Rs %d %d)", s.cspec, s.name)
	if viaMsg {
		return c14Op{"MWriteRSpec " + term, "MWriteRSpec", e.msg(mdtypes.NewMsgWriteRecordSpecificationRequest(e.mkRSpec(s), e.signers))}
	}
	return c14Op{"KSetRSpec " + term, "KSetRSpec", func(ctx sdk.Context) error {
		e.app.MetadataKeeper.SetRecordSpecification(ctx, e.mkRSpec(s))
		return nil
	}}
}
func (e *c14Env) opDeleteRSpec(cu, n int64, viaMsg bool) c14Op {
	if viaMsg {
		return c14Op{fmt.Sprintf("MDeleteRSpec %d %d", cu, n), "MDeleteRSpec", e.msg(mdtypes.NewMsgDeleteRecordSpecificationRequest(e.rspecAddr(cu, n), e.signers))}
	}
	return c14Op{fmt.Sprintf("KRemoveRSpec %d %d", cu, n), "KRemoveRSpec", func(ctx sdk.Context) error {
		return e.app.MetadataKeeper.RemoveRecordSpecification(ctx, e.rspecAddr(cu, n))
	}}
}
func (e *c14Env) opAddCSpecToSSpec(c, s int64) c14Op {
	return c14Op{fmt.Sprintf("MAddCSpecToSSpec %d %d", c, s), "MAddCSpecToSSpec", e.msg(mdtypes.NewMsgAddContractSpecToScopeSpecRequest(e.cspecAddr(c), e.sspecAddr(s), e.signers))}
}
func (e *c14Env) opDelCSpecFromSSpec(c, s int64) c14Op {
	return c14Op{fmt.Sprintf("MDelCSpecFromSSpec %d %d", c, s), "MDelCSpecFromSSpec", e.msg(mdtypes.NewMsgDeleteContractSpecFromScopeSpecRequest(e.cspecAddr(c), e.sspecAddr(s), e.signers))}
}
func (e *c14Env) opAddNav(sc, price int64) c14Op {
	return c14Op{fmt.Sprintf("MAddNav %d %d", sc, price), "MAddNav", e.msg(mdtypes.NewMsgAddNetAssetValuesRequest(e.scopeAddr(sc).String(), e.signers,
		[]mdtypes.NetAssetValue{mdtypes.NewNetAssetValue(sdk.NewInt64Coin(mdtypes.UsdDenom, price), 1)}))}
}
func (e *c14Env) opRemoveNavs(sc int64) c14Op {
	return c14Op{fmt.Sprintf("KRemoveNavs %d", sc), "KRemoveNavs", func(ctx sdk.Context) error {
		e.app.MetadataKeeper.RemoveNetAssetValues(ctx, e.scopeAddr(sc))
		return nil
	}}
}
func (e *c14Env) opSetNav(sc, d, price int64) c14Op {
	return c14Op{fmt.Sprintf("KSetNav %d %d %d", sc, d, price), "KSetNav", func(ctx sdk.Context) error {
		return e.app.MetadataKeeper.SetNetAssetValue(ctx, e.scopeAddr(sc), mdtypes.NewNetAssetValue(sdk.NewCoin(e.denoms[d], sdkmath.NewInt(price)), 1), "harness")
	}}
}

// uriStr: id 0 = a URI that passes ValidateBasic (not blank, parses) but that checkValidURI
// rejects (no scheme / no host / longer than the MaxUriLength parameter).
func (e *c14Env) uriStr(id int64, variant int) string {
	if id == 0 {
		return []string{"nohost", "/relative/path", "http://h.example/" + strings.Repeat("x", 5000), "mailto:someone"}[variant%4]
	}
	return e.uris[id-1]
}
func (e *c14Env) opBindLoc(a, uri int64, variant int) c14Op {
	loc := mdtypes.ObjectStoreLocator{Owner: e.entryStr(a), LocatorUri: e.uriStr(uri, variant)}
	return c14Op{fmt.Sprintf("MBindLoc %s %d %d", coqBool(e.hasAcct[a%100]), a, uri), "MBindLoc", e.msg(mdtypes.NewMsgBindOSLocatorRequest(loc))}
}
func (e *c14Env) opDelLoc(a, uri int64, variant int) c14Op {
	loc := mdtypes.ObjectStoreLocator{Owner: e.entryStr(a), LocatorUri: e.uriStr(uri, variant)}
	return c14Op{fmt.Sprintf("MDelLoc %d", a), "MDelLoc", e.msg(mdtypes.NewMsgDeleteOSLocatorRequest(loc))}
}
func (e *c14Env) opModLoc(a, uri int64, variant int) c14Op {
	loc := mdtypes.ObjectStoreLocator{Owner: e.entryStr(a), LocatorUri: e.uriStr(uri, variant)}
	return c14Op{fmt.Sprintf("MModLoc %d %d", a, uri), "MModLoc", e.msg(mdtypes.NewMsgModifyOSLocatorRequest(loc))}
}

func pickN(r *rand.Rand, n int) int64 { return int64(1 + r.Intn(n)) }

// subset returns a non-empty (unless allowEmpty) random sublist of 1..n in random order.
func subset(r *rand.Rand, n int, allowEmpty bool) []int64 {
	var out []int64
	for _, i := range r.Perm(n) {
		if r.Intn(2) == 0 {
			out = append(out, int64(i+1))
		}
	}
	if len(out) == 0 && !allowEmpty {
		out = []int64{pickN(r, n)}
	}
	return out
}

func has[T any](l []T, p func(T) bool) bool {
	for _, x := range l {
		if p(x) {
			return true
		}
	}
	return false
}

func hasI64(l []int64, x int64) bool { return has(l, func(y int64) bool { return y == x }) }

// genOp draws the next operation; [last] is the state the real code is in, used to aim most
// operations at entries that exist (or, for creations, at parents that exist).
func (e *c14Env) genOp(r *rand.Rand, last c14Obs, step int, raw, msgOnly bool) c14Op {
	nA, nSc, nSe, nN, nSS, nCS := len(e.accts), len(e.scopeU), len(e.sessU), len(e.names), len(e.sspecU), len(e.cspecU)
	aimScope := func() int64 {
		if len(last.scopes) > 0 && r.Intn(8) > 0 {
			return last.scopes[r.Intn(len(last.scopes))].id
		}
		return pickN(r, nSc)
	}
	aimSSpec := func() int64 {
		if len(last.sspecs) > 0 && r.Intn(8) > 0 {
			return last.sspecs[r.Intn(len(last.sspecs))].id
		}
		return pickN(r, nSS)
	}
	aimCSpec := func() int64 {
		if len(last.cspecs) > 0 && r.Intn(8) > 0 {
			return last.cspecs[r.Intn(len(last.cspecs))].id
		}
		return pickN(r, nCS)
	}
	entry := func() int64 { // an account entry in one of its two spellings
		a := pickN(r, nA)
		if r.Intn(3) == 0 {
			a += 100
		}
		return a
	}
	scopeOf := func(id int64) *c14Scope {
		for i := range last.scopes {
			if last.scopes[i].id == id {
				return &last.scopes[i]
			}
		}
		return nil
	}
	genScope := func(viaMsg bool) c14Scope {
		s := c14Scope{id: aimScope(), spec: aimSSpec(), owners: respell(r, subset(r, nA, false)), da: respell(r, subset(r, nA, true)), rollup: r.Intn(5) < 2}
		if r.Intn(6) == 0 && len(s.da) > 0 { // duplicate data access entry
			s.da = append(s.da, s.da[0])
		}
		// roles and optional flags: the first party stays a required-or-optional OWNER (every scope the
		// harness writes has an OWNER party: the signer rules of roll-up scopes want one); the others
		// get any role; sometimes the same address appears under a second role; optional parties
		// mostly on roll-up scopes (elsewhere they make the scope invalid)
		for i := range s.owners {
			if i > 0 && r.Intn(2) == 0 {
				s.owners[i] += 1000 * int64(1+r.Intn(2))
			}
			if (s.rollup && r.Intn(2) == 0) || r.Intn(40) == 0 {
				s.owners[i] += 100000
			}
		}
		if r.Intn(4) == 0 {
			x := s.owners[r.Intn(len(s.owners))]
			y := x%1000 + 1000*int64(1+r.Intn(2))
			if s.rollup && r.Intn(2) == 0 {
				y += 100000
			}
			if !has(s.owners, func(o int64) bool { return o%100000 == y%100000 }) {
				s.owners = append(s.owners, y)
			}
		}
		// an existing scope: often keep its parties and only flip optional flags / the roll-up flag
		if old := scopeOf(s.id); old != nil && r.Intn(3) == 0 {
			s.owners = append([]int64{}, old.owners...)
			s.rollup = old.rollup || r.Intn(3) == 0
			for i := range s.owners {
				if s.rollup && r.Intn(2) == 0 {
					s.owners[i] = s.owners[i]%100000 + 100000*int64(r.Intn(2))
				}
			}
			if r.Intn(2) == 0 {
				s.da = append([]int64{}, old.da...)
			}
		}
		switch r.Intn(25) { // owner lists that ValidatePartiesBasic / validateRolesPresent reject
		case 0:
			if viaMsg {
				s.owners = nil
			}
		case 1:
			s.owners = append(s.owners, s.owners[0])
		case 2:
			if viaMsg {
				for i := range s.owners { // no OWNER party at all
					if (s.owners[i]/1000)%100 == 0 {
						s.owners[i] += 1000
					}
				}
			}
		}
		return s
	}
	// a session aimed at an existing scope whose scope spec lists an existing contract spec
	genSess := func() c14Sess {
		s := c14Sess{scope: aimScope(), uuid: pickN(r, nSe), spec: aimCSpec()}
		if r.Intn(6) > 0 {
			for _, sc := range last.scopes {
				if sc.id != s.scope {
					continue
				}
				for _, sp := range last.sspecs {
					if sp.id == sc.spec && len(sp.cspecs) > 0 {
						s.spec = sp.cspecs[r.Intn(len(sp.cspecs))]
					}
				}
			}
			// an existing session keeps its contract spec
			for _, x := range last.sess {
				if x.scope == s.scope && x.uuid == s.uuid && r.Intn(8) > 0 {
					s.spec = x.spec
				}
			}
		}
		return s
	}
	// a record aimed at an existing session whose contract spec has a record spec
	genRec := func() c14Rec {
		rc := c14Rec{scope: aimScope(), name: pickN(r, nN), sess: pickN(r, nSe)}
		if len(last.sess) > 0 && r.Intn(8) > 0 {
			s := last.sess[r.Intn(len(last.sess))]
			rc.scope, rc.sess = s.scope, s.uuid
			var cands []int64
			for _, rs := range last.rspecs {
				if rs.cspec == s.spec {
					cands = append(cands, rs.name)
				}
			}
			if len(cands) > 0 && r.Intn(8) > 0 {
				rc.name = cands[r.Intn(len(cands))]
			}
		}
		return rc
	}
	aimRec := func() (int64, int64) {
		if len(last.recs) > 0 && r.Intn(8) > 0 {
			x := last.recs[r.Intn(len(last.recs))]
			return x.scope, x.name
		}
		return pickN(r, nSc), pickN(r, nN)
	}
	genSSpec := func() c14SSpec {
		s := c14SSpec{id: pickN(r, nSS), owners: respell(r, subset(r, nA, false))}
		for _, c := range last.cspecs {
			if r.Intn(3) > 0 {
				s.cspecs = append(s.cspecs, c.id)
			}
		}
		if r.Intn(8) == 0 {
			s.cspecs = append(s.cspecs, pickN(r, nCS))
		}
		return s
	}
	genCSpec := func() c14CSpec { return c14CSpec{id: pickN(r, nCS), owners: respell(r, subset(r, nA, false))} }
	genRSpec := func() c14RSpec {
		rs := c14RSpec{cspec: aimCSpec(), name: pickN(r, nN)}
		for try := 0; try < 3 && has(last.rspecs, func(x c14RSpec) bool { return x == rs }); try++ {
			rs.name = pickN(r, nN) // prefer one that does not exist yet
		}
		return rs
	}

	// msgOnly: every operation that has a message goes through its message (the history stays inside
	// [spec_guarded]: no raw specification / scope writers, no bare RemoveContractSpecification)
	useMsg := msgOnly || r.Intn(2) == 0
	// the first steps build specifications so that later writes can be accepted
	sel := r.Intn(114)
	if step < 9 {
		sel = []int{74, 74, 82, 82, 82, 65, 65, 0, 0}[step]
	}
	if sel >= 39 && sel < 57 && len(last.sess) == 0 { // no session to put a record in: write a session instead
		sel = 30
	}
	switch {
	case sel < 12: // write scope
		viaMsg := useMsg || step == 7
		s := genScope(viaMsg)
		var mills uint64
		if r.Intn(3) == 0 {
			mills = uint64(1 + r.Intn(1000))
		}
		return e.opWriteScope(s, mills, viaMsg)
	case sel < 18: // delete scope
		return e.opDeleteScope(aimScope(), useMsg)
	case sel < 23: // data access: one or two entries; mostly absent ones for add, present ones for delete
		id := aimScope()
		sc := scopeOf(id)
		n := 1 + r.Intn(2)
		var l []int64
		if r.Intn(2) == 0 {
			for len(l) < n {
				a := entry()
				if sc != nil && hasI64(sc.da, a) && r.Intn(5) > 0 {
					continue
				}
				l = append(l, a)
			}
			if r.Intn(6) == 0 {
				l = append(l, l[0]) // the request repeats an entry
			}
			if r.Intn(20) == 0 {
				l = nil
			}
			return e.opAddDA(id, l)
		}
		for len(l) < n {
			a := entry()
			if sc != nil && len(sc.da) > 0 && r.Intn(6) > 0 {
				a = sc.da[r.Intn(len(sc.da))]
			}
			l = append(l, a)
		}
		if r.Intn(20) == 0 {
			l = nil
		}
		return e.opDelDA(id, l)
	case sel < 36: // write session
		s := genSess()
		owners := []int64{1}
		if sc := scopeOf(s.scope); sc != nil { // an OWNER party of the scope (roll-up scopes: session parties must be scope owners)
			for _, o := range sc.owners {
				if (o/1000)%100 == 0 && o > 0 {
					owners = []int64{o % 100000}
					break
				}
			}
		}
		return e.opWriteSession(s, owners, raw && r.Intn(3) == 0)
	case sel < 39: // remove session (keeper)
		su, ss := aimScope(), pickN(r, nSe)
		if len(last.sess) > 0 && r.Intn(6) > 0 {
			x := last.sess[r.Intn(len(last.sess))]
			su, ss = x.scope, x.uuid
		}
		return e.opRemoveSession(su, ss)
	case sel < 57: // write record (new, update, or move to another session of the scope)
		rc := genRec()
		if r.Intn(3) == 0 && len(last.recs) > 0 { // aim a move: existing record, another existing session of its scope
			x := last.recs[r.Intn(len(last.recs))]
			for _, s := range last.sess {
				if s.scope == x.scope && s.uuid != x.sess {
					rc = c14Rec{x.scope, x.name, s.uuid}
				}
			}
		}
		return e.opWriteRecord(rc, raw && r.Intn(3) == 0)
	case sel < 65: // delete record
		su, n := aimRec()
		return e.opDeleteRecord(su, n, useMsg)
	case sel < 71: // write scope spec
		return e.opWriteSSpec(genSSpec(), useMsg)
	case sel < 74: // delete scope spec
		return e.opDeleteSSpec(aimSSpec(), useMsg)
	case sel < 79: // write contract spec
		return e.opWriteCSpec(genCSpec(), useMsg)
	case sel < 82: // delete contract spec
		return e.opDeleteCSpec(aimCSpec(), useMsg)
	case sel < 90: // write record spec
		return e.opWriteRSpec(genRSpec(), useMsg)
	case sel < 92: // delete record spec
		cu, n := aimCSpec(), pickN(r, nN)
		if len(last.rspecs) > 0 && r.Intn(6) > 0 {
			x := last.rspecs[r.Intn(len(last.rspecs))]
			cu, n = x.cspec, x.name
		}
		return e.opDeleteRSpec(cu, n, useMsg)
	case sel < 96: // contract spec <-> scope spec
		c, s := aimCSpec(), aimSSpec()
		if r.Intn(2) == 0 {
			return e.opAddCSpecToSSpec(c, s)
		}
		return e.opDelCSpecFromSSpec(c, s)
	case sel < 100: // net asset values
		sc, price := aimScope(), int64(r.Intn(5000))
		switch r.Intn(4) {
		case 0:
			return e.opAddNav(sc, price)
		case 1:
			return e.opRemoveNavs(sc)
		default:
			return e.opSetNav(sc, int64(r.Intn(len(e.denoms))), price)
		}
	case sel < 108: // owners: add parties that are not there yet / delete some (not all) that are
		id := aimScope()
		sc := scopeOf(id)
		n := 1 + r.Intn(2)
		var l []int64
		if r.Intn(2) == 0 {
			same := func(list []int64, a int64) bool {
				return has(list, func(o int64) bool { return o%100000 == a%100000 })
			}
			for tries := 0; len(l) < n && tries < 20; tries++ {
				a := entry() + 1000*int64(r.Intn(3))
				if sc != nil && len(sc.owners) > 0 && r.Intn(4) == 0 { // an address that is already an owner, under another role
					a = sc.owners[r.Intn(len(sc.owners))]%1000 + 1000*int64(r.Intn(3))
				}
				if (sc != nil && same(sc.owners, a) || same(l, a)) && r.Intn(6) > 0 {
					continue
				}
				if (sc != nil && sc.rollup && r.Intn(2) == 0) || r.Intn(30) == 0 {
					a += 100000
				}
				l = append(l, a)
			}
			if r.Intn(20) == 0 {
				l = nil
			}
			return e.opAddOwners(id, l)
		}
		for len(l) < n {
			a := entry()
			if sc != nil && len(sc.owners) > 0 && r.Intn(6) > 0 {
				a = sc.owners[r.Intn(len(sc.owners))] % 1000
			}
			l = append(l, a)
		}
		if sc != nil && r.Intn(10) == 0 { // every owner: must be refused
			l = nil
			for _, o := range sc.owners {
				l = append(l, o%1000)
			}
		}
		if r.Intn(20) == 0 {
			l = nil
		}
		return e.opDelOwners(id, l)
	default: // object store locators (they belong to accounts, not to scopes)
		a := entry()
		uri := int64(r.Intn(len(e.uris) + 1))
		if uri == 0 && r.Intn(3) > 0 {
			uri = pickN(r, len(e.uris))
		}
		bound := has(last.locs, func(l c14Loc) bool { return l.acct == a%100 })
		switch {
		case (!bound && r.Intn(5) > 0) || r.Intn(8) == 0:
			return e.opBindLoc(a, uri, r.Intn(4))
		case r.Intn(2) == 0:
			return e.opModLoc(a, uri, r.Intn(4))
		default:
			return e.opDelLoc(a, uri, r.Intn(4))
		}
	}
}

// c14Witnesses are the computed witnesses of Properties/C14.v, replayed on the real code (the
// correspondence tags of these histories pass iff the real code does what the model computed).
func (e *c14Env) witnesses() map[string][]c14Op {
	sp := c14SSpec{1, []int64{1}, []int64{1}}
	cs := c14CSpec{1, []int64{1}}
	sc := c14Scope{1, 1, []int64{1}, nil, false}
	return map[string][]c14Op{
		// a session whose contract specification is deleted, by messages only
		"session_cspec": {e.opWriteCSpec(cs, true), e.opWriteSSpec(sp, true), e.opWriteScope(sc, 0, true), e.opWriteSession(c14Sess{1, 1, 1}, []int64{1}, false),
			e.opDelCSpecFromSSpec(1, 1), e.opDeleteCSpec(1, true)},
		// a record whose record specification is deleted, by messages only
		"record_rspec": {e.opWriteCSpec(cs, true), e.opWriteRSpec(c14RSpec{1, 3}, true), e.opWriteSSpec(sp, true), e.opWriteScope(sc, 0, true),
			e.opWriteSession(c14Sess{1, 1, 1}, []int64{1}, false), e.opWriteRecord(c14Rec{1, 3, 1}, false), e.opDeleteRSpec(1, 3, true)},
		// keeper RemoveContractSpecification leaves the record specifications
		"rspec_orphan": {e.opWriteCSpec(cs, true), e.opWriteRSpec(c14RSpec{1, 3}, true), e.opDeleteCSpec(1, false)},
		// raw writers: a scope without specification accepts data access but not owner changes
		"raw_scope": {e.opWriteScope(c14Scope{1, 2, []int64{1}, nil, false}, 0, false), e.opAddDA(1, []int64{2}), e.opAddOwners(1, []int64{2})},
		// a listed contract spec id is never re-checked
		"raw_sspec": {e.opWriteSSpec(c14SSpec{1, []int64{1}, []int64{3}}, false), e.opWriteSSpec(c14SSpec{1, []int64{2}, []int64{3}}, true), e.opWriteSSpec(c14SSpec{2, []int64{2}, []int64{3}}, true)},
		// keeper RemoveScope keeps the net asset values, MsgDeleteScope removes them
		"keeper_remove_scope_keeps_nav": {e.opWriteCSpec(cs, true), e.opWriteSSpec(sp, true), e.opWriteScope(sc, 25, true), e.opSetNav(1, 1, 7), e.opDeleteScope(1, false),
			e.opWriteScope(sc, 0, true), e.opDeleteScope(1, true)},
		// owners and locators: the locator of an owner is listed once per spelling; deleting the scope keeps it
		"locators": {e.opWriteCSpec(cs, true), e.opWriteSSpec(sp, true), e.opWriteScope(c14Scope{1, 1, []int64{1, 101}, nil, false}, 0, true), e.opBindLoc(1, 1, 0), e.opBindLoc(104, 2, 0),
			e.opAddOwners(1, []int64{2}), e.opBindLoc(102, 2, 0), e.opDelOwners(1, []int64{1}), e.opModLoc(1, 3, 0), e.opDeleteScope(1, true), e.opDelLoc(2, 0, 0)},
		// party rollup: a required -> optional flip keeps the lookup entry; optional parties only with rollup; one address, several roles
		"rollup": {e.opWriteCSpec(cs, true), e.opWriteSSpec(sp, true), e.opWriteScope(c14Scope{1, 1, []int64{1, 1002}, nil, true}, 0, true),
			e.opWriteScope(c14Scope{1, 1, []int64{1, 101002}, nil, true}, 0, true), e.opWriteScope(c14Scope{1, 1, []int64{1, 101002}, nil, false}, 0, true),
			e.opAddOwners(1, []int64{102003}), e.opAddOwners(1, []int64{103}), e.opAddOwners(1, []int64{102001}), e.opDelOwners(1, []int64{1}),
			e.opWriteScope(c14Scope{2, 1, []int64{100001, 101004}, []int64{3}, true}, 0, true), e.opDelOwners(1, []int64{2, 3}), e.opDeleteScope(1, true)},
		// the last owner cannot be removed; both spellings are different parties
		"owners": {e.opWriteCSpec(cs, true), e.opWriteSSpec(sp, true), e.opWriteScope(sc, 0, true), e.opDelOwners(1, []int64{1}), e.opAddOwners(1, []int64{1}), e.opAddOwners(1, []int64{101, 3}),
			e.opDelOwners(1, []int64{1, 3}), e.opDelOwners(1, []int64{101}), e.opAddOwners(1, []int64{2, 2})},
	}
}

// danglers counts, on an observed state, the reference shapes Properties/C14.v has theorems or
// witnesses about.
func c14Danglers(o c14Obs) []string {
	var out []string
	hasSS := func(id int64) bool { return has(o.sspecs, func(x c14SSpec) bool { return x.id == id }) }
	hasCS := func(id int64) bool { return has(o.cspecs, func(x c14CSpec) bool { return x.id == id }) }
	hasSc := func(id int64) bool { return has(o.scopes, func(x c14Scope) bool { return x.id == id }) }
	for _, s := range o.scopes {
		if !hasSS(s.spec) {
			out = append(out, "scope_without_scope_spec")
		}
	}
	for _, s := range o.sspecs {
		for _, c := range s.cspecs {
			if !hasCS(c) {
				out = append(out, "scope_spec_lists_missing_contract_spec")
			}
		}
	}
	for _, s := range o.sess {
		if !hasCS(s.spec) {
			out = append(out, "session_without_contract_spec")
		}
	}
	for _, rs := range o.rspecs {
		if !hasCS(rs.cspec) {
			out = append(out, "record_spec_without_contract_spec")
		}
	}
	for _, rc := range o.recs {
		for _, s := range o.sess {
			if s.scope == rc.scope && s.uuid == rc.sess && !has(o.rspecs, func(x c14RSpec) bool { return x.cspec == s.spec && x.name == rc.name }) {
				out = append(out, "record_without_record_spec")
			}
		}
	}
	for _, n := range o.navs {
		if !hasSc(n.scope) {
			out = append(out, "nav_without_scope")
		}
	}
	return out
}

// storeKeys dumps every key of the metadata KV store (except the constant locator-params key).
func (e *c14Env) storeKeys(ctx sdk.Context) []string {
	store := ctx.KVStore(e.app.GetKey(mdtypes.StoreKey))
	it := store.Iterator(nil, nil)
	defer it.Close()
	var out []string
	for ; it.Valid(); it.Next() {
		k := it.Key()
		if len(k) > 0 && k[0] == 0x23 {
			continue
		}
		out = append(out, c14B(k))
	}
	return out
}

func c14BL(l [][]byte) string {
	items := make([]string, len(l))
	for i, b := range l {
		items[i] = c14B(b)
	}
	return coqList(items)
}

func c14NewEnv(app *simapp.App, r *rand.Rand) *c14Env {
	e := &c14Env{app: app, acctID: map[string]int64{}, uuidID: map[string]int64{}, nameID: map[string]int64{}, hasAcct: map[int64]bool{},
		denoms: []string{mdtypes.UsdDenom, "navb", "navc"}, uris: []string{"http://h1.example/os", "https://h2.example:8080/a/b?c=d", "grpc://h3.example"}}
	for i := 0; i < 4; i++ {
		a := addrN(1400 + i)
		if i == 3 { // a 32 byte account that STARTS WITH account 1's 20 bytes: the account part of the lookup keys is length-prefixed
			a = sdk.AccAddress(append(append([]byte{}, e.accts[0]...), []byte("_verif32byte")...))
		}
		e.accts = append(e.accts, a)
		e.hasAcct[int64(i+1)] = i < 3 // what prepare() arranges (and then observes)
		e.acctID[a.String()] = int64(i + 1)
		e.acctID[strings.ToUpper(a.String())] = int64(100 + i + 1)
		e.signers = append(e.signers, a.String())
	}
	for _, a := range e.accts { // both spellings sign (required signers are matched as strings)
		e.signers = append(e.signers, strings.ToUpper(a.String()))
	}
	mk := func(kind string, n int) []uuid.UUID {
		var out []uuid.UUID
		for i := 0; i < n; i++ {
			u := c14UUID(r)
			for e.uuidID[kind+string(u[:])] != 0 { // distinct within the kind
				r.Read(u[:])
			}
			e.uuidID[kind+string(u[:])] = int64(i + 1)
			out = append(out, u)
		}
		return out
	}
	e.scopeU, e.sessU, e.sspecU, e.cspecU = mk("scope", 3), mk("sess", 3), mk("sspec", 2), mk("cspec", 3)
	if r.Intn(3) == 0 { // scopes whose UUIDs share a long prefix
		copy(e.scopeU[1][:15], e.scopeU[0][:15])
		e.scopeU[1][15] = e.scopeU[0][15] ^ byte(1+r.Intn(255))
		if e.scopeU[2] == e.scopeU[1] {
			e.scopeU[2][0] ^= 0x55
		}
		e.uuidID = rebuildIDs(e)
	}
	e.names = []string{"recordone", "Record Two", "r3"}
	if r.Intn(3) == 0 { // names outside ASCII: the key is the hash of the lower-cased, trimmed UTF-8 name
		e.names = []string{"Ärger \u00a0", "\u3000ΣΟΦΊΑ", "запись-3"}
	}
	for i, n := range e.names {
		e.nameID[n] = int64(i + 1)
	}
	return e
}

// prepare creates auth accounts for accounts 1..3 (sequence 1: an existing account with sequence 0
// and no public key is taken for a smart contract by the signer checks); account 4 has none.
func (e *c14Env) prepare(ctx sdk.Context) {
	for i, a := range e.accts {
		if i < 3 {
			acc := e.app.AccountKeeper.NewAccountWithAddress(ctx, a)
			_ = acc.SetSequence(1)
			e.app.AccountKeeper.SetAccount(ctx, acc)
		}
		e.hasAcct[int64(i+1)] = e.app.AccountKeeper.HasAccount(ctx, a)
	}
}

// play runs one history: [next] yields the operations; every step is observed.
func (e *c14Env) play(w *CaseWriter, ctx sdk.Context, tag string, raw bool, next func(step int, last c14Obs) (c14Op, bool)) {
	last := e.observe(ctx, true)
	var steps, kinds, errs, opTerms []string
	accepted, nSteps := 0, 0
	shape := map[string]bool{}
	for s := 0; ; s++ {
		op, more := next(s, last)
		if !more {
			break
		}
		nSteps++
		cctx, write := ctx.CacheContext()
		err := try(func() error { return op.run(cctx) })
		if err == nil {
			write()
			accepted++
			w.Count("op_ok_" + op.kind)
		} else {
			w.Count("op_rejected_" + op.kind)
			msg := err.Error()
			if len(msg) > 160 {
				msg = msg[:160]
			}
			errs = append(errs, fmt.Sprintf("%d:%s", s, msg))
		}
		w.Count("ops")
		cur := e.observe(ctx, err == nil)
		// interesting shapes
		if err == nil && (op.kind == "KRemoveScope" || op.kind == "MDeleteScope") {
			var id int64
			fmt.Sscanf(op.term[strings.Index(op.term, " ")+1:], "%d", &id)
			for _, se := range last.sess {
				if se.scope == id && !has(last.recs, func(x c14Rec) bool { return x.scope == id && x.sess == se.uuid }) {
					shape["delete_scope_with_recordless_session"] = true
				}
			}
			if has(last.recs, func(x c14Rec) bool { return x.scope == id }) {
				shape["delete_scope_with_records"] = true
			}
			if has(last.navs, func(x c14Nav) bool { return x.scope == id }) {
				shape["delete_scope_with_navs"] = true
				if op.kind == "KRemoveScope" && has(cur.navs, func(x c14Nav) bool { return x.scope == id }) {
					shape["keeper_remove_scope_kept_navs"] = true
				}
			}
			if len(last.locs) > 0 {
				shape["delete_scope_while_locators_exist"] = true
			}
		}
		if err == nil && len(cur.sess) < len(last.sess) && (op.kind == "KRemoveRecord" || op.kind == "MDeleteRecord") {
			shape["last_record_removed_session"] = true
		}
		if err == nil && op.kind == "MWriteRecord" && len(cur.recs) == len(last.recs) {
			for i := range cur.recs {
				if cur.recs[i].sess != last.recs[i].sess {
					shape["record_moved"] = true
					if len(cur.sess) < len(last.sess) {
						shape["record_moved_emptied_session"] = true
					}
				}
			}
		}
		for _, d := range c14Danglers(cur) {
			shape["state_"+d] = true
		}
		steps = append(steps, fmt.Sprintf("(%s, %s)", op.term, cur.coq()))
		opTerms = append(opTerms, op.term)
		kinds = append(kinds, op.kind)
		last = cur
	}
	for k := range shape {
		w.Count("history_" + k)
	}
	w.CountN("ops_accepted", int64(accepted))
	term := fmt.Sprintf("History %s %s %s %s %s", c14ZL([]int64{1, 2, 3, 4}), c14ZL([]int64{1, 2, 3}), c14ZL([]int64{1, 2}), c14ZL([]int64{1, 2, 3}), coqList(steps))
	w.Add(term, map[string]any{"kind": "history", "tag": tag, "raw": raw, "ops": kinds, "accepted": accepted, "errors": errs})
	w.Count("histories")
	if accepted*3 >= nSteps {
		w.Nontrivial(fmt.Sprintf("h:%s:%s", tag, strings.Join(opTerms, ",")))
	}
	// the complete key set of the store after the history, with the bytes behind every interned id
	u16 := func(l []uuid.UUID) [][]byte {
		var out [][]byte
		for i := range l {
			out = append(out, append([]byte{}, l[i][:]...))
		}
		return out
	}
	var names, accts, denoms [][]byte
	for _, n := range e.names {
		names = append(names, c14Hash16(n))
	}
	for _, a := range e.accts {
		accts = append(accts, a)
	}
	for _, d := range e.denoms {
		denoms = append(denoms, []byte(d))
	}
	keys := e.storeKeys(ctx)
	sg := true // no raw scope / specification writer, no bare keeper RemoveContractSpecification
	for _, k := range kinds {
		if k == "KSetScope" || k == "KSetSSpec" || k == "KSetRSpec" || k == "KRemoveCSpec" {
			sg = false
		}
	}
	w.Add(fmt.Sprintf("Keys %s %s %s %s %s %s %s %s %s %s %s", coqBool(!raw), coqBool(sg), c14BL(u16(e.scopeU)), c14BL(u16(e.sessU)), c14BL(u16(e.sspecU)), c14BL(u16(e.cspecU)),
		c14BL(names), c14BL(accts), c14BL(denoms), coqList(opTerms), coqList(keys)),
		map[string]any{"kind": "keys", "tag": tag, "raw": raw, "ops": kinds, "keys": len(keys)})
	w.Count("keys_cases")
	w.CountN("store_keys", int64(len(keys)))
	if len(keys) >= 10 {
		w.Nontrivial("k:" + tag)
	}
}

func c14HistoryStream(t *testing.T, w *CaseWriter, r *rand.Rand) {
	app, base := newApp(t)
	// the witnesses of Properties/C14.v on the real code
	{
		e := c14NewEnv(app, r)
		ws := e.witnesses()
		var names []string
		for n := range ws {
			names = append(names, n)
		}
		sort.Strings(names)
		for _, n := range names {
			ops := ws[n]
			ctx, _ := base.CacheContext()
			e.prepare(ctx)
			e.play(w, ctx, "witness:"+n, false, func(s int, _ c14Obs) (c14Op, bool) {
				if s >= len(ops) {
					return c14Op{}, false
				}
				return ops[s], true
			})
			w.Count("histories_witness")
		}
	}
	// one scripted history per run: a contract specification with more than 100 record specifications
	// (names r001...), others next to it, deleted by message, re-created under the same id
	{
		e := c14NewEnv(app, r)
		n := 101 + r.Intn(50)
		for i := 1; i <= n; i++ {
			name := fmt.Sprintf("r%03d", i)
			e.names = append(e.names, name)
			e.nameID[name] = int64(len(e.names))
		}
		base0 := int64(len(e.names) - n)
		ops := []c14Op{e.opWriteCSpec(c14CSpec{1, []int64{1}}, true), e.opWriteCSpec(c14CSpec{2, []int64{2}}, true),
			e.opWriteRSpec(c14RSpec{2, 1}, true), e.opWriteRSpec(c14RSpec{2, base0 + 1}, true)}
		for _, i := range r.Perm(n) {
			ops = append(ops, e.opWriteRSpec(c14RSpec{1, base0 + int64(i+1)}, true))
		}
		ops = append(ops, e.opWriteRSpec(c14RSpec{2, base0 + 2}, true), e.opDeleteCSpec(1, true), e.opWriteCSpec(c14CSpec{1, []int64{101}}, true),
			e.opWriteRSpec(c14RSpec{1, base0 + 5}, true), e.opDeleteCSpec(2, true))
		ctx, _ := base.CacheContext()
		e.prepare(ctx)
		e.play(w, ctx, "many_record_specs", false, func(s int, _ c14Obs) (c14Op, bool) {
			if s >= len(ops) {
				return c14Op{}, false
			}
			return ops[s], true
		})
		w.Count("histories_many_record_specs")
		w.CountN("many_record_specs_n", int64(n))
	}
	nHist := scale(140, 2500)
	for hI := 0; hI < nHist; hI++ {
		e := c14NewEnv(app, r)
		ctx, _ := base.CacheContext()
		e.prepare(ctx)
		raw := r.Intn(10) < 3
		msgOnly := !raw && r.Intn(2) == 0
		nSteps := 18 + r.Intn(scale(36, 50))
		e.play(w, ctx, fmt.Sprintf("%d", hI), raw, func(s int, last c14Obs) (c14Op, bool) {
			if s >= nSteps {
				return c14Op{}, false
			}
			return e.genOp(r, last, s, raw, msgOnly), true
		})
		if raw {
			w.Count("histories_raw")
		} else {
			w.Count("histories_guarded")
		}
		if msgOnly {
			w.Count("histories_messages_only")
		}
	}
}

func rebuildIDs(e *c14Env) map[string]int64 {
	m := map[string]int64{}
	for kind, l := range map[string][]uuid.UUID{"scope": e.scopeU, "sess": e.sessU, "sspec": e.sspecU, "cspec": e.cspecU} {
		for i, u := range l {
			m[kind+string(u[:])] = int64(i + 1)
		}
	}
	return m
}

func TestC14(t *testing.T) {
	w := NewCaseWriter("C14", "PV.Corr.C14", "check_all", 200)
	r := newRand("C14")
	c14AddressStream(t, w, r)
	c14NameStream(t, w, r)
	c14CaseStream(t, w, r)
	c14HistoryStream(t, w, r)
	w.Flush(t)
}
