//go:build c10

package harness

// C10 — metadata writes require the signatures that the party rules demand.
//
// Streams (all call the real code of /repo, observable = accept/reject only):
//   1. exhaustive: keeper.ValidateSignersWithParties over every configuration of a small universe
//      (2 party addresses x {absent, 2 roles x optional/required}, required-role lists of length
//      <= 2 with repeats, every sub-list of 3 signers, every subset of 2 grants); thorough: 3 party
//      addresses, role lists <= 3, 4 signers;
//   2. random ValidateSignersWithParties: up to 4 parties incl. one address in two roles, required
//      != available, repeated roles, shuffled signers, grants under the message's own kind / the
//      documented alias kind / an unrelated kind / in the wrong direction, smart-contract accounts
//      as parties and as signers in every position;
//   3. random ValidateSignersWithoutParties;
//   4. the real messages through the message router (MsgWriteScope new/existing, MsgDeleteScope,
//      MsgAddScopeOwner, MsgDeleteScopeOwner, MsgWriteSession new/existing, MsgWriteRecord
//      new/moving between sessions, MsgDeleteRecord, MsgAddScopeDataAccess, MsgDeleteScopeDataAccess,
//      MsgUpdateValueOwners) on state set up through the keeper;
//   5. overlap: record writes / session writes / deletions with a missing specification in a
//      universe of 3 addresses x 2 roles, so that the same party sits in scope, session and previous
//      session with DIFFERENT optional flags and roles, the lists concatenated by the keeper in an
//      order in which an optional entry precedes the required one; the signer that is dropped is
//      such a "hidden" required party half of the time;
//   6. count-limited authorizations (authz.CountAuthorization): k identical messages in a row
//      through the real keeper / the real message handler; compared with the counted transcription
//      of findAuthzGrantee (Metadata/AuthzCount.v), NOT with the main model (which assumes generic
//      authorizations);
//   7. the concrete witnesses of the Coq observations run on the real code;
//   8. MsgWriteScope on an existing scope WITH a value owner: the value owner changes together with
//      (a) nothing else, (b) only optional flags of existing owners, (c) roles / owners, (d) data
//      access, specification id or rollup flag, or does not change; signed by the value owner only,
//      by the required parties only, by both, or by both with one missing / replaced by a grant;
//   9. count-limited authorizations WITH EXPIRATIONS at controlled block times (uses before, exactly
//      at and after the expiration second; the stored expiration read back after every message).
// A third of the MsgWriteScope / MsgWriteSession / MsgWriteRecord messages of every stream identify
// their entry and specification through the optional fields (scope_uuid, spec_uuid,
// session_id_components, contract_spec_uuid) instead of the ids; the case term always carries the
// STORED entry's parties, so the checker demands what the stored entry demands.
//
// Accounts: ids 1,2 have no account, 3 is a BaseAccount with sequence 7, 4 a BaseAccount with a
// public key, 5 and 6 are BaseAccounts with sequence 0 and no public key — which is exactly what
// keeper.isWasmAccount takes for a smart contract.  Grants are real x/authz generic authorizations.

import (
	"encoding/json"
	"fmt"
	"math/rand"
	"sort"
	"strings"
	"testing"
	"time"

	"github.com/cosmos/cosmos-sdk/crypto/keys/secp256k1"
	sdk "github.com/cosmos/cosmos-sdk/types"
	authtypes "github.com/cosmos/cosmos-sdk/x/auth/types"
	"github.com/cosmos/cosmos-sdk/x/authz"
	"github.com/google/uuid"

	simapp "github.com/provenance-io/provenance/app"
	mdtypes "github.com/provenance-io/provenance/x/metadata/types"
)

type c10Party struct {
	a    int
	role int
	opt  bool
}
type c10Grant struct{ granter, grantee, kind int }

const (
	c10Owner      = 5
	c10Servicer   = 2
	c10Provenance = 8
	c10Controller = 10
)

var c10KindURL = map[int]string{
	1: mdtypes.TypeURLMsgWriteScopeRequest, 2: mdtypes.TypeURLMsgDeleteScopeRequest,
	3: mdtypes.TypeURLMsgAddScopeDataAccessRequest, 4: mdtypes.TypeURLMsgDeleteScopeDataAccessRequest,
	5: mdtypes.TypeURLMsgAddScopeOwnerRequest, 6: mdtypes.TypeURLMsgDeleteScopeOwnerRequest,
	7: mdtypes.TypeURLMsgWriteSessionRequest, 8: mdtypes.TypeURLMsgWriteRecordRequest,
	9: mdtypes.TypeURLMsgDeleteRecordRequest, 10: mdtypes.TypeURLMsgUpdateValueOwnersRequest,
}

type c10Env struct {
	app   *simapp.App
	base  sdk.Context
	addrs []sdk.AccAddress // index = id (0 unused)
	w     *CaseWriter
	r     *rand.Rand
	// one representative description per kind of case, for the evidence file
	samples map[string]any
	// optionalize: 0 = at random, 1 = always, -1 = never (fixed witnesses)
	forceOptional int
}

func (e *c10Env) sample(key string, d any) {
	if e.samples == nil {
		e.samples = map[string]any{}
	}
	if _, ok := e.samples[key]; !ok {
		e.samples[key] = d
	}
}

const c10NAddr = 6

func c10Setup(t *testing.T, w *CaseWriter, r *rand.Rand) *c10Env {
	app, ctx := newApp(t)
	e := &c10Env{app: app, base: ctx, w: w, r: r, addrs: make([]sdk.AccAddress, c10NAddr+1)}
	for i := 1; i <= c10NAddr; i++ {
		e.addrs[i] = addrN(1000 + i)
	}
	e.addrs = append(e.addrs, addrN(1000+c10NAddr+1)) // id 7: only ever a proposed value owner
	// 3: ordinary account that has sent transactions
	a3 := app.AccountKeeper.NewAccount(ctx, authtypes.NewBaseAccountWithAddress(e.addrs[3]))
	if err := a3.SetSequence(7); err != nil {
		t.Fatal(err)
	}
	app.AccountKeeper.SetAccount(ctx, a3)
	// 4: account with a public key, sequence 0
	a4 := app.AccountKeeper.NewAccount(ctx, authtypes.NewBaseAccountWithAddress(e.addrs[4]))
	if err := a4.SetPubKey(secp256k1.GenPrivKeyFromSecret([]byte("c10")).PubKey()); err != nil {
		t.Fatal(err)
	}
	app.AccountKeeper.SetAccount(ctx, a4)
	// 5, 6: what the keeper takes for smart contracts
	ensureAccount(app, ctx, e.addrs[5])
	ensureAccount(app, ctx, e.addrs[6])
	return e
}

func c10IsWasm(id int) bool { return id == 5 || id == 6 }

func (e *c10Env) parties(ps []c10Party) []mdtypes.Party {
	out := make([]mdtypes.Party, 0, len(ps))
	for _, p := range ps {
		out = append(out, mdtypes.Party{Address: e.addrs[p.a].String(), Role: mdtypes.PartyType(p.role), Optional: p.opt})
	}
	return out
}
func (e *c10Env) roles(rs []int) []mdtypes.PartyType {
	out := make([]mdtypes.PartyType, 0, len(rs))
	for _, r := range rs {
		out = append(out, mdtypes.PartyType(r))
	}
	return out
}
func (e *c10Env) strs(ids []int) []string {
	out := make([]string, 0, len(ids))
	for _, id := range ids {
		out = append(out, e.addrs[id].String())
	}
	return out
}

// grantCtx returns a branch of the base state holding the given grants (never written back).
func (e *c10Env) grantCtx(t *testing.T, grants []c10Grant) sdk.Context {
	ctx, _ := e.base.CacheContext()
	exp := time.Date(2100, 1, 1, 0, 0, 0, 0, time.UTC)
	for _, g := range grants {
		var expp *time.Time
		if (g.granter+g.grantee)%2 == 0 {
			expp = &exp
		}
		if err := e.app.AuthzKeeper.SaveGrant(ctx, e.addrs[g.grantee], e.addrs[g.granter], authz.NewGenericAuthorization(c10KindURL[g.kind]), expp); err != nil {
			t.Fatalf("save grant: %v", err)
		}
	}
	return ctx
}

// signerMsg builds a message of the given kind that only carries signers (direct keeper calls).
func (e *c10Env) signerMsg(kind int, signers []int) mdtypes.MetadataMsg {
	s := e.strs(signers)
	switch kind {
	case 1:
		return &mdtypes.MsgWriteScopeRequest{Signers: s}
	case 2:
		return &mdtypes.MsgDeleteScopeRequest{Signers: s}
	case 3:
		return &mdtypes.MsgAddScopeDataAccessRequest{Signers: s}
	case 4:
		return &mdtypes.MsgDeleteScopeDataAccessRequest{Signers: s}
	case 5:
		return &mdtypes.MsgAddScopeOwnerRequest{Signers: s}
	case 6:
		return &mdtypes.MsgDeleteScopeOwnerRequest{Signers: s}
	case 7:
		return &mdtypes.MsgWriteSessionRequest{Signers: s}
	case 8:
		return &mdtypes.MsgWriteRecordRequest{Signers: s}
	case 10:
		return &mdtypes.MsgUpdateValueOwnersRequest{Signers: s}
	default:
		return &mdtypes.MsgDeleteRecordRequest{Signers: s}
	}
}

// ---------- Coq terms ----------

func c10Ints(l []int) string {
	items := make([]string, len(l))
	for i, v := range l {
		items[i] = fmt.Sprint(v)
	}
	return coqList(items)
}
func c10Parties(ps []c10Party) string {
	items := make([]string, len(ps))
	for i, p := range ps {
		items[i] = fmt.Sprintf("P %d %d %s", p.a, p.role, coqBool(p.opt))
	}
	return coqList(items)
}
func c10Grants(gs []c10Grant) string {
	items := make([]string, len(gs))
	for i, g := range gs {
		items[i] = fmt.Sprintf("(%d, %d, %d)", g.granter, g.grantee, g.kind)
	}
	return coqList(items)
}
func c10OptParties(ok bool, ps []c10Party) string { return coqOpt(ok, c10Parties(ps)) }
func c10OptInts(ok bool, l []int) string          { return coqOpt(ok, c10Ints(l)) }

const c10Wasm = "[5; 6]"

type c10Desc map[string]any

func c10PartyDesc(ps []c10Party) []string {
	out := []string{}
	for _, p := range ps {
		o := "required"
		if p.opt {
			o = "optional"
		}
		out = append(out, fmt.Sprintf("addr%d/%s/%s", p.a, mdtypes.PartyType(p.role).SimpleString(), o))
	}
	return out
}

// ---------- direct calls ----------

func (e *c10Env) runWith(gctx sdk.Context, kind int, grants []c10Grant, req, avail []c10Party, roles, signers []int, stream string) bool {
	ctx := mdtypes.AddAuthzCacheToContext(gctx)
	msg := e.signerMsg(kind, signers)
	rq, av, rl := e.parties(req), e.parties(avail), e.roles(roles)
	err := try(func() error { return e.app.MetadataKeeper.ValidateSignersWithParties(ctx, rq, av, rl, msg) })
	ok := err == nil
	term := fmt.Sprintf("CWith %d %s %s %s %s %s %s %s", kind, c10Wasm, c10Grants(grants), c10Parties(req), c10Parties(avail), c10Ints(roles), c10Ints(signers), coqBool(ok))
	e.w.Add(term, c10Desc{"fn": "ValidateSignersWithParties", "stream": stream, "msg": c10KindURL[kind], "grants": grants2desc(grants),
		"req": c10PartyDesc(req), "avail": c10PartyDesc(avail), "roles": roles, "signers": signers, "accepted": ok})
	e.w.Count(stream)
	if ok {
		e.w.Count(stream + "_accepted")
	}
	if len(signers) > 0 && (len(roles) > 0 || hasRequired(req)) {
		e.w.Nontrivial(term)
	}
	return ok
}

func grants2desc(gs []c10Grant) []string {
	out := []string{}
	for _, g := range gs {
		out = append(out, fmt.Sprintf("addr%d->addr%d:%s", g.granter, g.grantee, strings.TrimPrefix(c10KindURL[g.kind], "/provenance.metadata.v1.")))
	}
	return out
}

func hasRequired(ps []c10Party) bool {
	for _, p := range ps {
		if !p.opt {
			return true
		}
	}
	return false
}

func (e *c10Env) runWithout(gctx sdk.Context, kind int, grants []c10Grant, required, signers []int) bool {
	ctx := mdtypes.AddAuthzCacheToContext(gctx)
	msg := e.signerMsg(kind, signers)
	rq := e.strs(required)
	err := try(func() error { return e.app.MetadataKeeper.ValidateSignersWithoutParties(ctx, rq, msg) })
	ok := err == nil
	term := fmt.Sprintf("CWithout %d %s %s %s %s %s", kind, c10Wasm, c10Grants(grants), c10Ints(required), c10Ints(signers), coqBool(ok))
	e.w.Add(term, c10Desc{"fn": "ValidateSignersWithoutParties", "msg": c10KindURL[kind], "grants": grants2desc(grants),
		"required": required, "signers": signers, "accepted": ok})
	e.w.Count("without")
	if ok {
		e.w.Count("without_accepted")
	}
	if len(signers) > 0 && len(required) > 0 {
		e.w.Nontrivial(term)
	}
	return ok
}

// sublists of l (order kept)
func c10Sublists(l []int) [][]int {
	out := [][]int{}
	for m := 0; m < 1<<len(l); m++ {
		var s []int
		for i, v := range l {
			if m&(1<<i) != 0 {
				s = append(s, v)
			}
		}
		out = append(out, s)
	}
	return out
}

// all lists over alphabet of length <= n
func c10Lists(alphabet []int, n int) [][]int {
	out := [][]int{{}}
	prev := [][]int{{}}
	for k := 1; k <= n; k++ {
		var cur [][]int
		for _, p := range prev {
			for _, a := range alphabet {
				cur = append(cur, append(append([]int{}, p...), a))
			}
		}
		out = append(out, cur...)
		prev = cur
	}
	return out
}

func (e *c10Env) exhaustive(t *testing.T) {
	nAddr, maxRoles := 2, 2
	if tier() == "thorough" {
		nAddr, maxRoles = 3, 3
	}
	outsider := nAddr + 1 // signs, never a party; the grantee of every grant
	rolesAlpha := []int{c10Owner, c10Servicer}
	// party options per address: absent, or role x optional
	type popt struct {
		present bool
		role    int
		opt     bool
	}
	opts := []popt{{false, 0, false}}
	for _, r := range rolesAlpha {
		for _, o := range []bool{false, true} {
			opts = append(opts, popt{true, r, o})
		}
	}
	var partyLists [][]c10Party
	var rec func(i int, cur []c10Party)
	rec = func(i int, cur []c10Party) {
		if i > nAddr {
			partyLists = append(partyLists, append([]c10Party{}, cur...))
			return
		}
		for _, o := range opts {
			if o.present {
				rec(i+1, append(cur, c10Party{i, o.role, o.opt}))
			} else {
				rec(i+1, cur)
			}
		}
	}
	rec(1, nil)
	roleLists := c10Lists(rolesAlpha, maxRoles)
	var signerPool []int
	for i := 1; i <= outsider; i++ {
		signerPool = append(signerPool, i)
	}
	signerLists := c10Sublists(signerPool)
	grantPool := []c10Grant{{1, outsider, 1}, {2, outsider, 1}}
	for gm := 0; gm < 1<<len(grantPool); gm++ {
		var grants []c10Grant
		for i, g := range grantPool {
			if gm&(1<<i) != 0 {
				grants = append(grants, g)
			}
		}
		gctx := e.grantCtx(t, grants)
		for _, ps := range partyLists {
			for _, rl := range roleLists {
				for _, sg := range signerLists {
					e.runWith(gctx, 1, grants, ps, ps, rl, sg, "exhaustive")
				}
			}
		}
	}
}

// ---------- random structured generation ----------

func (e *c10Env) pick(l []int) int { return l[e.r.Intn(len(l))] }

func (e *c10Env) randParty(allowWasm bool) c10Party {
	r := e.r
	p := c10Party{a: 1 + r.Intn(4), role: e.pick([]int{c10Owner, c10Owner, c10Servicer, c10Servicer, c10Controller}), opt: r.Intn(5) < 2}
	if allowWasm {
		switch r.Intn(32) {
		case 0, 1: // a smart contract in its documented role
			p.a, p.role = 5+r.Intn(2), c10Provenance
		case 2: // a smart contract in another role
			p.a = 5 + r.Intn(2)
		case 3: // PROVENANCE role on an ordinary account
			p.role = c10Provenance
		}
	}
	return p
}

func (e *c10Env) randParties(n int, unique, allowWasm, allowOpt bool) []c10Party {
	var out []c10Party
	for len(out) < n {
		p := e.randParty(allowWasm)
		if !allowOpt {
			p.opt = false
		}
		dup := false
		for _, q := range out {
			if q.a == p.a && q.role == p.role {
				dup = true
			}
		}
		if dup && unique {
			if e.r.Intn(8) == 0 {
				break
			}
			continue
		}
		out = append(out, p)
	}
	return out
}

// rolesFrom draws required roles mostly from the roles the parties have (with repeats).
func (e *c10Env) rolesFrom(ps []c10Party, max int) []int {
	n := e.r.Intn(max + 1)
	var out []int
	taken := map[int]bool{}
	for i := 0; i < n; i++ {
		if len(ps) > 0 && e.r.Intn(8) != 0 {
			j := e.r.Intn(len(ps))
			if taken[j] && e.r.Intn(5) != 0 { // mostly no more entries of a role than parties of it
				continue
			}
			taken[j] = true
			out = append(out, ps[j].role)
		} else {
			out = append(out, e.pick([]int{c10Owner, c10Servicer, c10Controller, c10Provenance}))
		}
	}
	return out
}

// signersFor builds a signer list that mostly satisfies "needed" (addresses that should be
// covered), replacing some signatures by grants, dropping some, adding strangers and contracts.
func (e *c10Env) signersFor(kind int, needed []int, extra []int) ([]int, []c10Grant) {
	r := e.r
	seen := map[int]bool{}
	var signers []int
	var grants []c10Grant
	add := func(id int) {
		if !seen[id] {
			seen[id] = true
			signers = append(signers, id)
		}
	}
	goodKinds := []int{kind}
	switch kind {
	case 3, 4, 5, 6:
		goodKinds = append(goodKinds, 1)
	case 8:
		goodKinds = append(goodKinds, 7)
	}
	for _, a := range needed {
		switch x := r.Intn(20); {
		case x < 11:
			add(a)
		case x < 15: // a grant stands in for the signature
			g := 1 + r.Intn(c10NAddr)
			if g == a {
				add(a)
				break
			}
			add(g)
			grants = append(grants, c10Grant{a, g, e.pick(goodKinds)})
		case x < 16: // grant under an unrelated message kind
			g := 1 + r.Intn(4)
			if g == a {
				add(a)
				break
			}
			add(g)
			k := e.pick([]int{2, 9, 7, 1})
			grants = append(grants, c10Grant{a, g, k})
		case x < 17: // grant in the wrong direction
			g := 1 + r.Intn(4)
			if g == a {
				add(a)
				break
			}
			add(g)
			grants = append(grants, c10Grant{g, a, kind})
		default: // missing
		}
	}
	for _, a := range extra {
		if r.Intn(3) == 0 {
			add(a)
		}
	}
	if r.Intn(6) == 0 {
		add(1 + r.Intn(4))
	}
	if r.Intn(4) == 0 {
		r.Shuffle(len(signers), func(i, j int) { signers[i], signers[j] = signers[j], signers[i] })
	}
	if r.Intn(8) != 0 { // contracts that are needed sign first, as the documentation asks
		sort.SliceStable(signers, func(i, j int) bool { return c10IsWasm(signers[i]) && !c10IsWasm(signers[j]) })
	}
	// smart-contract signers
	switch r.Intn(24) {
	case 0: // contract first, authorized by everyone after it
		c := 5 + r.Intn(2)
		if !seen[c] {
			for _, s := range signers {
				grants = append(grants, c10Grant{s, c, e.pick(goodKinds)})
			}
			signers = append([]int{c}, signers...)
		}
	case 1: // contract first, one authorization missing
		c := 5 + r.Intn(2)
		if !seen[c] {
			for i, s := range signers {
				if i != 0 {
					grants = append(grants, c10Grant{s, c, kind})
				}
			}
			signers = append([]int{c}, signers...)
		}
	case 2: // contract last
		c := 5 + r.Intn(2)
		if !seen[c] {
			signers = append(signers, c)
		}
	case 3: // two contracts, then the rest
		if !seen[5] && !seen[6] {
			for _, s := range signers {
				grants = append(grants, c10Grant{s, 5, kind}, c10Grant{s, 6, kind})
			}
			if r.Intn(2) == 0 {
				grants = append(grants, c10Grant{6, 5, kind})
			}
			signers = append([]int{5, 6}, signers...)
		}
	case 4: // a contract that is needed is moved to the front / middle
		for i, s := range signers {
			if c10IsWasm(s) && i > 0 && r.Intn(2) == 0 {
				signers[0], signers[i] = signers[i], signers[0]
			}
		}
	}
	// de-duplicate grants (SaveGrant overwrites; the list given to Coq is a set anyway)
	sort.Slice(grants, func(i, j int) bool {
		a, b := grants[i], grants[j]
		if a.granter != b.granter {
			return a.granter < b.granter
		}
		if a.grantee != b.grantee {
			return a.grantee < b.grantee
		}
		return a.kind < b.kind
	})
	var gs []c10Grant
	for i, g := range grants {
		if g.granter == g.grantee {
			continue // authz refuses self grants
		}
		if i > 0 && g == grants[i-1] {
			continue
		}
		gs = append(gs, g)
	}
	return signers, gs
}

// neededAddrs: the non-optional required parties plus, per required role, some available party of it.
func (e *c10Env) neededAddrs(req, avail []c10Party, roles []int) []int {
	var out []int
	for _, p := range req {
		if !p.opt {
			out = append(out, p.a)
		}
	}
	used := map[int]bool{}
	for _, rl := range roles {
		for i, p := range avail {
			if p.role == rl && !used[i] {
				used[i] = true
				out = append(out, p.a)
				break
			}
		}
	}
	return out
}

func c10Addrs(ps []c10Party) []int {
	var out []int
	for _, p := range ps {
		out = append(out, p.a)
	}
	return out
}

func (e *c10Env) randomWith(t *testing.T, n int) {
	r := e.r
	for i := 0; i < n; i++ {
		kind := e.pick([]int{1, 1, 2, 5, 7, 8, 8, 9, 3})
		avail := e.randParties(r.Intn(5), r.Intn(6) != 0, true, true)
		var req []c10Party
		switch r.Intn(10) {
		case 0, 1, 2, 3:
			req = append(req, avail...)
		case 4, 5, 6:
			req = append(append(req, e.randParties(1+r.Intn(2), false, true, true)...), avail...)
		case 7, 8:
			req = e.randParties(r.Intn(4), false, true, true)
		}
		roles := e.rolesFrom(avail, 3)
		signers, grants := e.signersFor(kind, e.neededAddrs(req, avail, roles), c10Addrs(avail))
		gctx := e.grantCtx(t, grants)
		e.runWith(gctx, kind, grants, req, avail, roles, signers, "random_with")
	}
}

func (e *c10Env) randomWithout(t *testing.T, n int) {
	r := e.r
	for i := 0; i < n; i++ {
		kind := e.pick([]int{1, 2, 6, 7, 8, 9, 4})
		var required []int
		for k := r.Intn(4); k > 0; k-- {
			a := 1 + r.Intn(4)
			if r.Intn(12) == 0 {
				a = 5 + r.Intn(2)
			}
			required = append(required, a)
		}
		signers, grants := e.signersFor(kind, required, nil)
		gctx := e.grantCtx(t, grants)
		e.runWithout(gctx, kind, grants, required, signers)
	}
}

// ---------- real messages ----------

var (
	c10ScopeU  = uuid.MustParse("c1000000-0000-4000-8000-000000000001")
	c10SessU1  = uuid.MustParse("c1000000-0000-4000-8000-000000000011")
	c10SessU2  = uuid.MustParse("c1000000-0000-4000-8000-000000000012")
	c10SSpecU  = uuid.MustParse("c1000000-0000-4000-8000-000000000021")
	c10CSpecU  = uuid.MustParse("c1000000-0000-4000-8000-000000000031")
	c10RecName = "c10record"
)

type c10VB interface {
	sdk.Msg
	ValidateBasic() error
}

func (e *c10Env) send(ctx sdk.Context, m c10VB) error {
	return try(func() error {
		if err := m.ValidateBasic(); err != nil {
			return err
		}
		h := e.app.MsgServiceRouter().Handler(m)
		if h == nil {
			return fmt.Errorf("no handler for %T", m)
		}
		_, err := h(ctx, m)
		return err
	})
}

func (e *c10Env) mkRecord(sess mdtypes.MetadataAddress) mdtypes.Record {
	return mdtypes.Record{
		Name: c10RecName, SessionId: sess,
		Process: mdtypes.Process{ProcessId: &mdtypes.Process_Hash{Hash: "prochash"}, Name: "proc", Method: "run"},
		Inputs:  []mdtypes.RecordInput{{Name: "in1", Source: &mdtypes.RecordInput_Hash{Hash: "inhash"}, TypeName: "typ", Status: mdtypes.RecordInputStatus_Proposed}},
		Outputs: []mdtypes.RecordOutput{{Hash: "outhash", Status: mdtypes.ResultStatus_RESULT_STATUS_PASS}},
	}
}

func (e *c10Env) outerCase(t *testing.T, which int) {
	r := e.r
	k := e.app.MetadataKeeper
	scopeID := mdtypes.ScopeMetadataAddress(c10ScopeU)
	sspecID := mdtypes.ScopeSpecMetadataAddress(c10SSpecU)
	cspecID := mdtypes.ContractSpecMetadataAddress(c10CSpecU)
	rspecID := mdtypes.RecordSpecMetadataAddress(c10CSpecU, c10RecName)
	sess1 := mdtypes.SessionMetadataAddress(c10ScopeU, c10SessU1)
	sess2 := mdtypes.SessionMetadataAddress(c10ScopeU, c10SessU2)
	specOwner := []string{e.addrs[1].String()}

	rollup := r.Intn(2) == 0
	owners := e.randParties(1+r.Intn(3), true, true, rollup)
	var op, name string
	var kind int
	var needed, extra []int
	dropAddr := 0 // an address that must neither sign nor have granted (targeted omission)
	var build func(signers []int) c10VB
	setup := func(ctx sdk.Context) {}
	setSpecs := func(ctx sdk.Context, sroles, croles, rroles []int, withS, withR bool) {
		if withS {
			k.SetScopeSpecification(ctx, mdtypes.ScopeSpecification{SpecificationId: sspecID, OwnerAddresses: specOwner,
				PartiesInvolved: e.roles(sroles), ContractSpecIds: []mdtypes.MetadataAddress{cspecID}})
		}
		k.SetContractSpecification(ctx, mdtypes.ContractSpecification{SpecificationId: cspecID, OwnerAddresses: specOwner,
			PartiesInvolved: e.roles(croles), Source: mdtypes.NewContractSpecificationSourceHash("srchash"), ClassName: "cls"})
		if withR {
			k.SetRecordSpecification(ctx, mdtypes.RecordSpecification{SpecificationId: rspecID, Name: c10RecName,
				Inputs:   []*mdtypes.InputSpecification{{Name: "in1", TypeName: "typ", Source: mdtypes.NewInputSpecificationSourceHash("inhash")}},
				TypeName: "typ", ResultType: mdtypes.DefinitionType_DEFINITION_TYPE_RECORD, ResponsibleParties: e.roles(rroles)})
		}
	}
	setScope := func(ctx sdk.Context, ow []c10Party, ru bool) {
		if err := k.SetScope(ctx, mdtypes.Scope{ScopeId: scopeID, SpecificationId: sspecID, Owners: e.parties(ow), RequirePartyRollup: ru}); err != nil {
			t.Fatalf("set scope: %v", err)
		}
	}
	// a sub-list of the scope owners (sessions under rollup must use scope owners)
	subOwners := func(min int) []c10Party {
		var out []c10Party
		for _, p := range owners {
			if r.Intn(3) != 0 {
				q := p
				if rollup && r.Intn(4) == 0 {
					q.opt = !q.opt
				}
				out = append(out, q)
			}
		}
		if len(out) < min {
			out = append(out, owners[0])
		}
		if r.Intn(10) == 0 { // someone who is not a scope owner
			out = append(out, e.randParties(1, true, false, rollup)...)
			out = uniqueParties(out)
		}
		return out
	}

	switch which {
	case 0: // MsgWriteScope, new
		sroles := e.rolesFrom(owners, 2)
		kind, name = 1, "WriteScopeNew"
		op = fmt.Sprintf("OWriteScopeNew %s %s %s", c10Parties(owners), coqBool(rollup), c10Ints(sroles))
		setup = func(ctx sdk.Context) { setSpecs(ctx, sroles, nil, nil, true, false) }
		extra = c10Addrs(owners)
		build = func(s []int) c10VB {
			return &mdtypes.MsgWriteScopeRequest{Scope: mdtypes.Scope{ScopeId: scopeID, SpecificationId: sspecID, Owners: e.parties(owners), RequirePartyRollup: rollup}, Signers: e.strs(s)}
		}
	case 1: // MsgWriteScope, existing
		sroles := e.rolesFrom(owners, 2)
		proposed := owners
		propRollup := rollup
		switch r.Intn(5) {
		case 0:
			proposed = e.randParties(1+r.Intn(3), true, true, rollup)
		case 1:
			proposed = append(append([]c10Party{}, owners...), e.randParties(1, true, false, rollup)...)
			proposed = uniqueParties(proposed)
		case 2:
			propRollup = !rollup
		}
		other := r.Intn(3) != 0
		kind, name = 1, "WriteScope"
		op = fmt.Sprintf("OWriteScope %s %s %s %s %s %s", coqBool(rollup), c10Parties(owners), coqBool(propRollup), c10Parties(proposed), coqBool(other), c10Ints(sroles))
		setup = func(ctx sdk.Context) { setSpecs(ctx, sroles, nil, nil, true, false); setScope(ctx, owners, rollup) }
		needed = e.neededAddrs(ifRollup(rollup, owners), owners, ifRollupI(rollup, sroles))
		extra = c10Addrs(owners)
		build = func(s []int) c10VB {
			sc := mdtypes.Scope{ScopeId: scopeID, SpecificationId: sspecID, Owners: e.parties(proposed), RequirePartyRollup: propRollup}
			if other {
				sc.DataAccess = []string{e.addrs[2].String()}
			}
			return &mdtypes.MsgWriteScopeRequest{Scope: sc, Signers: e.strs(s)}
		}
	case 2: // MsgDeleteScope
		sroles := e.rolesFrom(owners, 2)
		withSpec := r.Intn(6) != 0
		kind, name = 2, "DeleteScope"
		op = fmt.Sprintf("ODeleteScope %s %s %s", coqBool(rollup), c10Parties(owners), c10OptInts(withSpec, sroles))
		setup = func(ctx sdk.Context) { setSpecs(ctx, sroles, nil, nil, withSpec, false); setScope(ctx, owners, rollup) }
		needed = e.neededAddrs(ifRollup(rollup, owners), owners, ifRollupI(rollup && withSpec, sroles))
		extra = c10Addrs(owners)
		build = func(s []int) c10VB { return &mdtypes.MsgDeleteScopeRequest{ScopeId: scopeID, Signers: e.strs(s)} }
	case 3: // MsgAddScopeOwner / MsgDeleteScopeOwner
		sroles := e.rolesFrom(owners, 2)
		var proposed []c10Party
		needed = e.neededAddrs(ifRollup(rollup, owners), owners, ifRollupI(rollup, sroles))
		extra = c10Addrs(owners)
		if r.Intn(2) == 0 {
			var add []c10Party
			for _, p := range e.randParties(1+r.Intn(2), true, true, rollup || r.Intn(8) == 0) {
				dup := false
				for _, q := range owners {
					if q.a == p.a && q.role == p.role {
						dup = true
					}
				}
				if !dup {
					add = append(add, p)
				}
			}
			if len(add) == 0 {
				add = []c10Party{{a: 4, role: 3, opt: false}}
			}
			proposed = append(append([]c10Party{}, owners...), add...)
			kind, name = 5, "AddScopeOwner"
			build = func(s []int) c10VB {
				return &mdtypes.MsgAddScopeOwnerRequest{ScopeId: scopeID, Owners: e.parties(add), Signers: e.strs(s)}
			}
		} else {
			rm := owners[r.Intn(len(owners))].a
			if r.Intn(3) == 0 { // the owner being removed is the one whose signature is missing
				dropAddr = rm
			}
			for _, p := range owners {
				if p.a != rm {
					proposed = append(proposed, p)
				}
			}
			kind, name = 6, "DeleteScopeOwner"
			build = func(s []int) c10VB {
				return &mdtypes.MsgDeleteScopeOwnerRequest{ScopeId: scopeID, Owners: e.strs([]int{rm}), Signers: e.strs(s)}
			}
		}
		op = fmt.Sprintf("OUpdateOwners %s %s %s %s", coqBool(rollup), c10Parties(owners), c10Parties(proposed), c10Ints(sroles))
		setup = func(ctx sdk.Context) { setSpecs(ctx, sroles, nil, nil, true, false); setScope(ctx, owners, rollup) }
	case 4: // MsgWriteSession new / existing
		proposed := subOwners(1)
		existing := r.Intn(2) == 0
		var ex []c10Party
		if existing {
			ex = subOwners(1)
		}
		avail := proposed
		if existing {
			avail = ex
		}
		croles := e.rolesFrom(avail, 3)
		kind, name = 7, "WriteSession"
		op = fmt.Sprintf("OWriteSession %s %s %s %s %s", coqBool(rollup), c10Parties(owners), c10OptParties(existing, ex), c10Parties(proposed), c10Ints(croles))
		setup = func(ctx sdk.Context) {
			setSpecs(ctx, nil, croles, nil, true, false)
			setScope(ctx, owners, rollup)
			if existing {
				k.SetSession(ctx, mdtypes.Session{SessionId: sess1, SpecificationId: cspecID, Parties: e.parties(ex), Name: "sess"})
			}
		}
		if rollup {
			needed = e.neededAddrs(append(append([]c10Party{}, ex...), owners...), avail, croles)
		} else {
			needed = c10Addrs(owners)
		}
		extra = c10Addrs(avail)
		build = func(s []int) c10VB {
			return &mdtypes.MsgWriteSessionRequest{Session: mdtypes.Session{SessionId: sess1, SpecificationId: cspecID, Parties: e.parties(proposed), Name: "sess"}, Signers: e.strs(s)}
		}
	case 5: // MsgWriteRecord: new record, rewrite in place, or moving from session 2 to session 1
		session := subOwners(1)
		mode := r.Intn(4) // 0 new, 1 same session, 2/3 moving
		var old []c10Party
		if mode >= 2 {
			old = subOwners(1)
			if r.Intn(3) == 0 { // a previous session with somebody else in it
				old = uniqueParties(append(old, c10Party{a: 1 + r.Intn(4), role: c10Servicer, opt: false}))
			}
		}
		rroles := e.rolesFrom(session, 3)
		kind, name = 8, "WriteRecord"
		op = fmt.Sprintf("OWriteRecord %s %s %s %s %s", coqBool(rollup), c10Parties(owners), c10Parties(session), c10OptParties(mode >= 2, old), c10Ints(rroles))
		setup = func(ctx sdk.Context) {
			setSpecs(ctx, nil, nil, rroles, true, true)
			setScope(ctx, owners, rollup)
			k.SetSession(ctx, mdtypes.Session{SessionId: sess1, SpecificationId: cspecID, Parties: e.parties(session), Name: "sess"})
			if mode >= 2 {
				k.SetSession(ctx, mdtypes.Session{SessionId: sess2, SpecificationId: cspecID, Parties: e.parties(old), Name: "old"})
				rec := e.mkRecord(sess2)
				rec.SpecificationId = rspecID
				k.SetRecord(ctx, rec)
			} else if mode == 1 {
				rec := e.mkRecord(sess1)
				rec.SpecificationId = rspecID
				k.SetRecord(ctx, rec)
			}
		}
		if rollup {
			all := append(append(append([]c10Party{}, owners...), session...), old...)
			needed = e.neededAddrs(all, session, rroles)
		} else {
			needed = append(c10Addrs(session), c10Addrs(old)...)
		}
		extra = c10Addrs(session)
		build = func(s []int) c10VB { return &mdtypes.MsgWriteRecordRequest{Record: e.mkRecord(sess1), Signers: e.strs(s)} }
	case 7: // MsgAddScopeDataAccess / MsgDeleteScopeDataAccess
		sroles := e.rolesFrom(owners, 2)
		withSpec := r.Intn(8) != 0
		add := r.Intn(2) == 0
		kind, name = 4, "DeleteScopeDataAccess"
		if add {
			kind, name = 3, "AddScopeDataAccess"
		}
		op = fmt.Sprintf("ODataAccess %s %s %s", coqBool(rollup), c10Parties(owners), c10OptInts(withSpec, sroles))
		setup = func(ctx sdk.Context) {
			setSpecs(ctx, sroles, nil, nil, withSpec, false)
			if err := k.SetScope(ctx, mdtypes.Scope{ScopeId: scopeID, SpecificationId: sspecID, Owners: e.parties(owners),
				DataAccess: e.strs([]int{2, 3}), RequirePartyRollup: rollup}); err != nil {
				t.Fatalf("set scope: %v", err)
			}
		}
		needed = e.neededAddrs(ifRollup(rollup, owners), owners, ifRollupI(rollup && withSpec, sroles))
		extra = c10Addrs(owners)
		build = func(s []int) c10VB {
			if add {
				return &mdtypes.MsgAddScopeDataAccessRequest{ScopeId: scopeID, DataAccess: e.strs([]int{4}), Signers: e.strs(s)}
			}
			return &mdtypes.MsgDeleteScopeDataAccessRequest{ScopeId: scopeID, DataAccess: e.strs([]int{3}), Signers: e.strs(s)}
		}
	case 8: // MsgUpdateValueOwners: 1-3 scopes, each with a value owner (rarely without)
		n := 1 + r.Intn(3)
		vos := make([]int, n) // 0 = the scope has no value owner
		for i := 0; i < n; i++ {
			vos[i] = e.pick([]int{3, 4, 3, 4, 3, 4, 1, 2})
			if i > 0 && r.Intn(3) == 0 {
				vos[i] = vos[0]
			}
			switch r.Intn(24) {
			case 0:
				vos[i] = 0
			case 1, 2:
				vos[i] = 5 + r.Intn(2) // a smart contract is the value owner
			}
		}
		proposed := 7
		switch r.Intn(12) {
		case 0:
			proposed = vos[r.Intn(n)] // already the value owner of one of them
			if proposed == 0 {
				proposed = 7
			}
		case 1, 2:
			proposed = 1 + r.Intn(6)
		}
		for _, v := range vos {
			if v != 0 {
				needed = append(needed, v)
			}
		}
		kind, name = 10, "UpdateValueOwners"
		op, setup, build = e.uvoParts(t, vos, proposed)
	default: // MsgDeleteRecord
		rroles := e.rolesFrom(owners, 2)
		withSpec := r.Intn(6) != 0
		kind, name = 9, "DeleteRecord"
		op = fmt.Sprintf("ODeleteRecord %s %s %s", coqBool(rollup), c10Parties(owners), c10OptInts(withSpec, rroles))
		setup = func(ctx sdk.Context) {
			setSpecs(ctx, nil, nil, rroles, true, withSpec)
			setScope(ctx, owners, rollup)
			k.SetSession(ctx, mdtypes.Session{SessionId: sess1, SpecificationId: cspecID, Parties: e.parties(owners), Name: "sess"})
			rec := e.mkRecord(sess1)
			rec.SpecificationId = rspecID
			k.SetRecord(ctx, rec)
		}
		needed = e.neededAddrs(ifRollup(rollup, owners), owners, ifRollupI(rollup && withSpec, rroles))
		extra = c10Addrs(owners)
		build = func(s []int) c10VB {
			return &mdtypes.MsgDeleteRecordRequest{RecordId: mdtypes.RecordMetadataAddress(c10ScopeU, c10RecName), Signers: e.strs(s)}
		}
	}
	if !rollup && (which == 1 || which == 2 || which == 3 || which == 6 || which == 7) && len(needed) == 0 {
		needed = c10Addrs(owners)
	}
	signers, grants := e.signersFor(kind, dedupInts(needed), extra)
	if dropAddr != 0 {
		var sg []int
		for _, a := range signers {
			if a != dropAddr {
				sg = append(sg, a)
			}
		}
		var gs []c10Grant
		for _, g := range grants {
			if g.granter != dropAddr {
				gs = append(gs, g)
			}
		}
		signers, grants = sg, gs
	}
	if len(signers) == 0 {
		signers = []int{1 + r.Intn(4)}
	}
	e.emitOuter(t, kind, name, op, setup, build, signers, grants, "msg")
}

// emitOuter sets the state up on a branch holding the grants, sends the real message and emits the case.
func (e *c10Env) emitOuter(t *testing.T, kind int, name, op string, setup func(sdk.Context), build func([]int) c10VB,
	signers []int, grants []c10Grant, stream string) bool {
	ctx := e.grantCtx(t, grants)
	setup(ctx)
	// what keeper.isWasmAccount answers on the state the message runs on: ids 5 and 6 by
	// construction, and ids 1 and 2 (no account in the base state) as soon as the set-up has
	// created their account by sending them a scope coin (value owners): sequence 0, no key.
	wasm := []int{}
	for id := 1; id <= c10NAddr; id++ {
		if acc, isBase := e.app.AccountKeeper.GetAccount(ctx, e.addrs[id]).(*authtypes.BaseAccount); isBase && acc != nil &&
			acc.GetSequence() == 0 && acc.GetPubKey() == nil {
			wasm = append(wasm, id)
		}
	}
	if len(wasm) != 2 {
		e.w.Count(stream + "_fresh_account_counts_as_contract")
	}
	msg, viaOptional := e.optionalize(build(signers))
	err := e.send(ctx, msg)
	ok := err == nil
	if viaOptional {
		e.w.Count(stream + "_via_optional_id_fields")
		if ok {
			e.w.Count(stream + "_via_optional_id_fields_accepted")
		}
	}
	term := fmt.Sprintf("COuter %d %s %s (%s) %s %s", kind, c10Ints(wasm), c10Grants(grants), op, c10Ints(signers), coqBool(ok))
	d := c10Desc{"msg": name, "stream": stream, "op": op, "grants": grants2desc(grants), "signers": signers, "accepted": ok, "contracts": wasm,
		"ids_via_optional_fields": viaOptional}
	if err != nil {
		m := err.Error()
		if len(m) > 200 {
			m = m[:200]
		}
		d["error"] = m
	}
	e.w.Add(term, d)
	e.sample(fmt.Sprintf("%s/%s/accepted=%v", stream, name, ok), d)
	e.w.Count(stream + "_" + name)
	if ok {
		e.w.Count(stream + "_" + name + "_accepted")
		e.w.Count(stream + "_accepted")
	}
	if strings.HasPrefix(op, "OWriteRecord") && strings.Contains(op, "(Some") {
		e.w.Count(stream + "_WriteRecord_moving")
		if ok {
			e.w.Count(stream + "_WriteRecord_moving_accepted")
		}
	}
	e.w.Count(stream)
	e.w.Nontrivial(term)
	return ok
}

// ---------- fixtures shared by the additional streams ----------

func c10ScopeID() mdtypes.MetadataAddress { return mdtypes.ScopeMetadataAddress(c10ScopeU) }
func c10SSpecID() mdtypes.MetadataAddress { return mdtypes.ScopeSpecMetadataAddress(c10SSpecU) }
func c10CSpecID() mdtypes.MetadataAddress { return mdtypes.ContractSpecMetadataAddress(c10CSpecU) }
func c10RSpecID() mdtypes.MetadataAddress {
	return mdtypes.RecordSpecMetadataAddress(c10CSpecU, c10RecName)
}
func c10Sess1() mdtypes.MetadataAddress { return mdtypes.SessionMetadataAddress(c10ScopeU, c10SessU1) }
func c10Sess2() mdtypes.MetadataAddress { return mdtypes.SessionMetadataAddress(c10ScopeU, c10SessU2) }

func (e *c10Env) fxSpecs(ctx sdk.Context, sroles, croles, rroles []int, withS, withR bool) {
	k := e.app.MetadataKeeper
	specOwner := []string{e.addrs[1].String()}
	if withS {
		k.SetScopeSpecification(ctx, mdtypes.ScopeSpecification{SpecificationId: c10SSpecID(), OwnerAddresses: specOwner,
			PartiesInvolved: e.roles(sroles), ContractSpecIds: []mdtypes.MetadataAddress{c10CSpecID()}})
	}
	k.SetContractSpecification(ctx, mdtypes.ContractSpecification{SpecificationId: c10CSpecID(), OwnerAddresses: specOwner,
		PartiesInvolved: e.roles(croles), Source: mdtypes.NewContractSpecificationSourceHash("srchash"), ClassName: "cls"})
	if withR {
		k.SetRecordSpecification(ctx, mdtypes.RecordSpecification{SpecificationId: c10RSpecID(), Name: c10RecName,
			Inputs:   []*mdtypes.InputSpecification{{Name: "in1", TypeName: "typ", Source: mdtypes.NewInputSpecificationSourceHash("inhash")}},
			TypeName: "typ", ResultType: mdtypes.DefinitionType_DEFINITION_TYPE_RECORD, ResponsibleParties: e.roles(rroles)})
	}
}

func (e *c10Env) fxScope(t *testing.T, ctx sdk.Context, owners []c10Party, rollup bool) {
	if err := e.app.MetadataKeeper.SetScope(ctx, mdtypes.Scope{ScopeId: c10ScopeID(), SpecificationId: c10SSpecID(),
		Owners: e.parties(owners), RequirePartyRollup: rollup}); err != nil {
		t.Fatalf("set scope: %v", err)
	}
}

func (e *c10Env) fxSession(ctx sdk.Context, id mdtypes.MetadataAddress, ps []c10Party, name string) {
	e.app.MetadataKeeper.SetSession(ctx, mdtypes.Session{SessionId: id, SpecificationId: c10CSpecID(), Parties: e.parties(ps), Name: name})
}

func (e *c10Env) fxRecord(ctx sdk.Context, sess mdtypes.MetadataAddress) {
	rec := e.mkRecord(sess)
	rec.SpecificationId = c10RSpecID()
	e.app.MetadataKeeper.SetRecord(ctx, rec)
}

// uvoParts: MsgUpdateValueOwners over len(vos) scopes whose value owners are vos (0 = none).
func (e *c10Env) uvoParts(t *testing.T, vos []int, proposed int) (string, func(sdk.Context), func([]int) c10VB) {
	k := e.app.MetadataKeeper
	var ids []mdtypes.MetadataAddress
	items := make([]string, len(vos))
	for i, v := range vos {
		ids = append(ids, mdtypes.ScopeMetadataAddress(uuid.MustParse(fmt.Sprintf("c1000000-0000-4000-8000-0000000001%02d", i))))
		items[i] = coqOpt(v != 0, fmt.Sprint(v))
	}
	op := fmt.Sprintf("OUpdateValueOwners %s %d", coqList(items), proposed)
	setup := func(ctx sdk.Context) {
		e.fxSpecs(ctx, nil, nil, nil, true, false)
		for i, id := range ids {
			if err := k.SetScope(ctx, mdtypes.Scope{ScopeId: id, SpecificationId: c10SSpecID(), Owners: e.parties([]c10Party{{a: 1, role: c10Owner}})}); err != nil {
				t.Fatalf("set scope: %v", err)
			}
			if vos[i] != 0 {
				if err := k.SetScopeValueOwner(ctx, id, e.addrs[vos[i]].String()); err != nil {
					t.Fatalf("set value owner: %v", err)
				}
			}
		}
	}
	build := func(s []int) c10VB {
		return &mdtypes.MsgUpdateValueOwnersRequest{ScopeIds: ids, ValueOwnerAddress: e.addrs[proposed].String(), Signers: e.strs(s)}
	}
	return op, setup, build
}

// ---------- overlap stream: the same party in several lists with different flags / roles ----------

// c10Hidden: addresses that are required by a LATER entry of the concatenated list while an
// EARLIER entry of the same address is optional (what a "de-duplicating" rewrite would lose).
func c10Hidden(req []c10Party) []int {
	firstOpt := map[int]bool{}
	seen := map[int]bool{}
	var out []int
	done := map[int]bool{}
	for _, p := range req {
		if !seen[p.a] {
			seen[p.a] = true
			firstOpt[p.a] = p.opt
			continue
		}
		if firstOpt[p.a] && !p.opt && !done[p.a] {
			done[p.a] = true
			out = append(out, p.a)
		}
	}
	return out
}

func (e *c10Env) overlapParties(min, max int, allowOpt bool) []c10Party {
	r := e.r
	n := min + r.Intn(max-min+1)
	var out []c10Party
	for tries := 0; len(out) < n && tries < 40; tries++ {
		p := c10Party{a: 1 + r.Intn(3), role: e.pick([]int{c10Owner, c10Servicer}), opt: allowOpt && r.Intn(2) == 0}
		dup := false
		for _, q := range out {
			if q.a == p.a && q.role == p.role {
				dup = true
			}
		}
		if !dup {
			out = append(out, p)
		}
	}
	return out
}

// reflag: a sub-list of ps (address, role kept) with fresh random optional flags.
func (e *c10Env) reflag(ps []c10Party, min int) []c10Party {
	r := e.r
	var out []c10Party
	for _, p := range ps {
		if r.Intn(3) != 0 {
			out = append(out, c10Party{a: p.a, role: p.role, opt: r.Intn(2) == 0})
		}
	}
	for len(out) < min {
		p := ps[r.Intn(len(ps))]
		out = uniqueParties(append(out, c10Party{a: p.a, role: p.role, opt: r.Intn(2) == 0}))
	}
	return out
}

func (e *c10Env) overlapCase(t *testing.T, i int) {
	r := e.r
	k := e.app.MetadataKeeper
	owners := e.overlapParties(2, 4, true)
	var op, name string
	var kind int
	var req, avail []c10Party
	var roles []int
	var setup func(sdk.Context)
	var build func([]int) c10VB
	switch i % 4 {
	case 0, 1: // MsgWriteRecord, rollup on; i%4 == 1: moving from session 2 (arbitrary parties) to session 1
		session := e.reflag(owners, 1)
		if r.Intn(3) == 0 {
			session = uniqueParties(append(session, e.overlapParties(1, 1, true)...))
		}
		moving := i%4 == 1
		var old []c10Party
		if moving {
			old = e.overlapParties(1, 3, true)
			if r.Intn(2) == 0 {
				old = uniqueParties(append(e.reflag(session, 1), old...))
			}
		}
		roles = e.rolesFrom(session, 2)
		req = append(append(append([]c10Party{}, owners...), session...), old...)
		avail = session
		kind, name = 8, "WriteRecord"
		op = fmt.Sprintf("OWriteRecord true %s %s %s %s", c10Parties(owners), c10Parties(session), c10OptParties(moving, old), c10Ints(roles))
		setup = func(ctx sdk.Context) {
			e.fxSpecs(ctx, nil, nil, roles, true, true)
			e.fxScope(t, ctx, owners, true)
			e.fxSession(ctx, c10Sess1(), session, "sess")
			if moving {
				e.fxSession(ctx, c10Sess2(), old, "old")
				e.fxRecord(ctx, c10Sess2())
			} else if r.Intn(2) == 0 {
				e.fxRecord(ctx, c10Sess1())
			}
		}
		build = func(s []int) c10VB { return &mdtypes.MsgWriteRecordRequest{Record: e.mkRecord(c10Sess1()), Signers: e.strs(s)} }
	case 2: // MsgWriteSession on an existing session, rollup on: required = existing ++ owners
		ex := e.reflag(owners, 1)
		proposed := e.reflag(owners, 1)
		roles = e.rolesFrom(ex, 2)
		req = append(append([]c10Party{}, ex...), owners...)
		avail = ex
		kind, name = 7, "WriteSession"
		op = fmt.Sprintf("OWriteSession true %s %s %s %s", c10Parties(owners), c10OptParties(true, ex), c10Parties(proposed), c10Ints(roles))
		setup = func(ctx sdk.Context) {
			e.fxSpecs(ctx, nil, roles, nil, true, false)
			e.fxScope(t, ctx, owners, true)
			e.fxSession(ctx, c10Sess1(), ex, "sess")
		}
		build = func(s []int) c10VB {
			return &mdtypes.MsgWriteSessionRequest{Session: mdtypes.Session{SessionId: c10Sess1(), SpecificationId: c10CSpecID(), Parties: e.parties(proposed), Name: "sess"}, Signers: e.strs(s)}
		}
	default: // MsgDeleteRecord / MsgDeleteScope, rollup on, specification gone or present
		withSpec := r.Intn(3) == 0
		roles = e.rolesFrom(owners, 2)
		req, avail = owners, owners
		if !withSpec {
			avail, roles = nil, nil
		}
		if r.Intn(2) == 0 {
			kind, name = 9, "DeleteRecord"
			op = fmt.Sprintf("ODeleteRecord true %s %s", c10Parties(owners), c10OptInts(withSpec, roles))
			setup = func(ctx sdk.Context) {
				e.fxSpecs(ctx, nil, nil, roles, true, withSpec)
				e.fxScope(t, ctx, owners, true)
				e.fxSession(ctx, c10Sess1(), owners, "sess")
				e.fxRecord(ctx, c10Sess1())
			}
			build = func(s []int) c10VB {
				return &mdtypes.MsgDeleteRecordRequest{RecordId: mdtypes.RecordMetadataAddress(c10ScopeU, c10RecName), Signers: e.strs(s)}
			}
		} else {
			kind, name = 2, "DeleteScope"
			op = fmt.Sprintf("ODeleteScope true %s %s", c10Parties(owners), c10OptInts(withSpec, roles))
			setup = func(ctx sdk.Context) {
				e.fxSpecs(ctx, roles, nil, nil, withSpec, false)
				e.fxScope(t, ctx, owners, true)
			}
			build = func(s []int) c10VB { return &mdtypes.MsgDeleteScopeRequest{ScopeId: c10ScopeID(), Signers: e.strs(s)} }
		}
	}
	_ = k
	needed := dedupInts(e.neededAddrs(req, avail, roles))
	hidden := c10Hidden(req)
	if len(hidden) > 0 {
		e.w.Count("overlap_with_hidden_required")
	}
	// drop one signer half of the time, preferably a hidden required party
	drop := 0
	if r.Intn(2) == 0 && len(needed) > 0 {
		if len(hidden) > 0 && r.Intn(4) != 0 {
			drop = hidden[r.Intn(len(hidden))]
		} else {
			drop = needed[r.Intn(len(needed))]
		}
	}
	var signers []int
	var grants []c10Grant
	for _, a := range needed {
		if a == drop {
			if r.Intn(5) == 0 { // the dropped party has granted instead
				g := 4
				signers = append(signers, g)
				grants = append(grants, c10Grant{a, g, kind})
			}
			continue
		}
		signers = append(signers, a)
	}
	signers = dedupInts(signers)
	if len(signers) == 0 {
		signers = []int{4}
	}
	if r.Intn(3) == 0 {
		r.Shuffle(len(signers), func(i, j int) { signers[i], signers[j] = signers[j], signers[i] })
	}
	ok := e.emitOuter(t, kind, name, op, setup, build, signers, grants, "overlap")
	if drop != 0 && containsInt(hidden, drop) {
		e.w.Count("overlap_hidden_dropped")
		if ok {
			e.w.Count("overlap_hidden_dropped_accepted")
		}
	}
}

func containsInt(l []int, v int) bool {
	for _, x := range l {
		if x == v {
			return true
		}
	}
	return false
}

// ---------- count-limited authorizations ----------

type c10CGrant struct{ granter, grantee, kind, uses int } // uses 0 = generic

func (e *c10Env) countCase(t *testing.T, i int) {
	r := e.r
	kind := e.pick([]int{1, 2, 5, 8, 3, 3})
	goodKinds := []int{kind}
	switch kind {
	case 3, 5:
		goodKinds = append(goodKinds, 1)
	case 8:
		goodKinds = append(goodKinds, 7)
	}
	granter := 1 + r.Intn(4)
	var signers []int
	for _, a := range r.Perm(4) {
		if a+1 != granter && len(signers) < 1+r.Intn(2) {
			signers = append(signers, a+1)
		}
	}
	if r.Intn(12) == 0 {
		signers = append(signers, granter) // signs itself: nothing is consumed
	}
	keyed := map[[3]int]int{}
	var order [][3]int
	addG := func(g c10CGrant) {
		k3 := [3]int{g.granter, g.grantee, g.kind}
		if _, ok := keyed[k3]; !ok {
			order = append(order, k3)
		}
		keyed[k3] = g.uses
	}
	total := 0
	for _, s := range signers {
		if s == granter {
			continue
		}
		switch x := r.Intn(12); {
		case x < 7: // count-limited, usable kind
			u := 1 + r.Intn(3)
			addG(c10CGrant{granter, s, e.pick(goodKinds), u})
			total += u
			if len(goodKinds) > 1 && r.Intn(3) == 0 { // and another one under the other usable kind
				u2 := 1 + r.Intn(2)
				k2 := goodKinds[0]
				if keyed[[3]int{granter, s, k2}] != 0 {
					k2 = goodKinds[1]
				}
				if _, ok := keyed[[3]int{granter, s, k2}]; !ok {
					addG(c10CGrant{granter, s, k2, u2})
					total += u2
				}
			}
		case x < 8: // generic
			addG(c10CGrant{granter, s, e.pick(goodKinds), 0})
		case x < 9: // count-limited under an unrelated kind
			addG(c10CGrant{granter, s, 9, 2})
		case x < 10: // wrong direction
			addG(c10CGrant{s, granter, kind, 2})
		default: // nothing
		}
	}
	k := total + 2
	if k > 9 {
		k = 9
	}
	var st []c10CGrant
	for _, k3 := range order {
		st = append(st, c10CGrant{k3[0], k3[1], k3[2], keyed[k3]})
	}
	ctx, _ := e.base.CacheContext()
	for _, g := range st {
		var a authz.Authorization = authz.NewGenericAuthorization(c10KindURL[g.kind])
		if g.uses > 0 {
			a = authz.NewCountAuthorization(c10KindURL[g.kind], int32(g.uses))
		}
		if err := e.app.AuthzKeeper.SaveGrant(ctx, e.addrs[g.grantee], e.addrs[g.granter], a, nil); err != nil {
			t.Fatalf("save count grant: %v", err)
		}
	}
	mode := "without"
	switch {
	case kind == 3 && i%2 == 0:
		mode = "message"
	case r.Intn(3) == 0:
		mode = "with"
	}
	obs := make([]string, 0, k)
	nAcc := 0
	if mode == "message" {
		e.fxSpecs(ctx, []int{c10Owner}, nil, nil, true, false)
		e.fxScope(t, ctx, []c10Party{{a: granter, role: c10Owner}}, false)
	}
	for j := 0; j < k; j++ {
		var err error
		switch mode {
		case "message":
			cctx, write := ctx.CacheContext()
			err = e.send(cctx, &mdtypes.MsgAddScopeDataAccessRequest{ScopeId: c10ScopeID(), DataAccess: []string{addrN(2000 + j).String()}, Signers: e.strs(signers)})
			if err == nil {
				write()
			}
		case "with":
			c := mdtypes.AddAuthzCacheToContext(ctx)
			ps := e.parties([]c10Party{{a: granter, role: c10Owner}})
			err = try(func() error {
				return e.app.MetadataKeeper.ValidateSignersWithParties(c, ps, ps, e.roles([]int{c10Owner}), e.signerMsg(kind, signers))
			})
		default:
			c := mdtypes.AddAuthzCacheToContext(ctx)
			err = try(func() error {
				return e.app.MetadataKeeper.ValidateSignersWithoutParties(c, e.strs([]int{granter}), e.signerMsg(kind, signers))
			})
		}
		obs = append(obs, coqBool(err == nil))
		if err == nil {
			nAcc++
		}
	}
	items := make([]string, len(st))
	descG := []string{}
	for i, g := range st {
		items[i] = fmt.Sprintf("(%d, %d, %d, %d)", g.granter, g.grantee, g.kind, g.uses)
		u := fmt.Sprintf("count=%d", g.uses)
		if g.uses == 0 {
			u = "generic"
		}
		descG = append(descG, fmt.Sprintf("addr%d->addr%d:%s:%s", g.granter, g.grantee, strings.TrimPrefix(c10KindURL[g.kind], "/provenance.metadata.v1."), u))
	}
	term := fmt.Sprintf("CCount %d %s %d %s %s", kind, coqList(items), granter, c10Ints(signers), coqList(obs))
	e.w.Add(term, c10Desc{"stream": "count", "mode": mode, "msg": c10KindURL[kind], "authorizations": descG, "required": granter,
		"signers": signers, "accepted_sequence": obs,
		"note": "count-limited authorizations are outside Metadata/Signers.v (it would answer the same for every repetition)"})
	if nAcc > 0 && nAcc < k {
		e.sample("count/"+mode, c10Desc{"stream": "count", "mode": mode, "msg": c10KindURL[kind], "authorizations": descG,
			"required": granter, "signers": signers, "accepted_sequence": obs})
	}
	e.w.Count("count")
	e.w.Count("count_mode_" + mode)
	e.w.CountN("count_messages", int64(k))
	e.w.CountN("count_messages_accepted", int64(nAcc))
	if nAcc > 0 && nAcc < k {
		e.w.Count("count_accepted_then_rejected") // the behaviour the generic-grant model cannot show
	}
	e.w.Nontrivial(term)
}

// ---------- MsgWriteScope on an existing scope with a value owner ----------

var c10SSpecU2 = uuid.MustParse("c1000000-0000-4000-8000-000000000022")

func c10SV(spec int, owners []c10Party, data []int, vo int, rollup bool) string {
	return fmt.Sprintf("(SV %d %s %s %s %s)", spec, c10Parties(owners), c10Ints(data), coqOpt(vo != 0, fmt.Sprint(vo)), coqBool(rollup))
}

func (e *c10Env) voScopeCase(t *testing.T, i int) {
	r := e.r
	k := e.app.MetadataKeeper
	rollup := r.Intn(3) != 0
	owners := e.randParties(1+r.Intn(3), true, false, rollup)
	exData := []int{}
	if r.Intn(2) == 0 {
		exData = []int{2}
	}
	exVO := e.pick([]int{3, 4, 3, 4, 3, 4, 3, 4, 1, 5, 0})
	sroles := e.rolesFrom(owners, 2)
	specIDs := map[int]mdtypes.MetadataAddress{1: c10SSpecID(), 2: mdtypes.ScopeSpecMetadataAddress(c10SSpecU2)}

	// the proposal
	prOwners := append([]c10Party{}, owners...)
	prData := append([]int{}, exData...)
	prSpec, prRollup := 1, rollup
	mode := i % 6
	switch mode {
	case 0: // (a) nothing but the value owner; owners possibly listed in another order
		if r.Intn(2) == 0 {
			r.Shuffle(len(prOwners), func(a, b int) { prOwners[a], prOwners[b] = prOwners[b], prOwners[a] })
		}
	case 1: // (b) only optional flags of existing owners
		n := 0
		for j := range prOwners {
			if r.Intn(2) == 0 || (j == len(prOwners)-1 && n == 0) {
				prOwners[j].opt = !prOwners[j].opt
				n++
			}
		}
	case 2: // (c) a role, an added or a removed owner
		switch r.Intn(3) {
		case 0:
			j := r.Intn(len(prOwners))
			prOwners[j].role = e.pick([]int{c10Owner, c10Servicer, c10Controller, 3})
			prOwners = uniqueParties(prOwners)
		case 1:
			prOwners = uniqueParties(append(prOwners, e.randParties(1, true, false, rollup)...))
		default:
			if len(prOwners) > 1 {
				prOwners = prOwners[1:]
			} else {
				prOwners[0].a = 1 + r.Intn(4)
			}
		}
	case 3: // (d) data access, specification id or rollup flag
		switch r.Intn(4) {
		case 0:
			prData = append(prData, 3)
		case 1:
			if len(prData) > 0 {
				prData = nil
			} else {
				prData = []int{4}
			}
		case 2:
			prSpec = 2
		default:
			prRollup = !rollup
			if !prRollup {
				for j := range prOwners {
					prOwners[j].opt = false
				}
			}
		}
	default: // 4, 5: nothing changes besides (perhaps) the value owner, which may also stay or be left empty
	}
	prVO := 7
	switch x := r.Intn(12); {
	case mode >= 4 && x < 4:
		prVO = exVO // unchanged (or both empty)
	case mode >= 4 && x < 7:
		prVO = 0 // field left empty
	case x < 2:
		prVO = 1 + r.Intn(4)
	}
	specRoles := sroles
	roles2 := e.rolesFrom(owners, 2)
	if prSpec == 2 {
		specRoles = roles2
	}
	op := fmt.Sprintf("OWriteScopeFull %s %s %s", c10SV(1, owners, exData, exVO, rollup), c10SV(prSpec, prOwners, prData, prVO, prRollup), c10Ints(specRoles))
	setup := func(ctx sdk.Context) {
		e.fxSpecs(ctx, sroles, nil, nil, true, false)
		k.SetScopeSpecification(ctx, mdtypes.ScopeSpecification{SpecificationId: specIDs[2], OwnerAddresses: []string{e.addrs[1].String()},
			PartiesInvolved: e.roles(roles2), ContractSpecIds: []mdtypes.MetadataAddress{c10CSpecID()}})
		if err := k.SetScope(ctx, mdtypes.Scope{ScopeId: c10ScopeID(), SpecificationId: specIDs[1], Owners: e.parties(owners),
			DataAccess: e.strs(exData), RequirePartyRollup: rollup}); err != nil {
			t.Fatalf("set scope: %v", err)
		}
		if exVO != 0 {
			if err := k.SetScopeValueOwner(ctx, c10ScopeID(), e.addrs[exVO].String()); err != nil {
				t.Fatalf("set value owner: %v", err)
			}
		}
	}
	build := func(sg []int) c10VB {
		sc := mdtypes.Scope{ScopeId: c10ScopeID(), SpecificationId: specIDs[prSpec], Owners: e.parties(prOwners),
			DataAccess: e.strs(prData), RequirePartyRollup: prRollup}
		if prVO != 0 {
			sc.ValueOwnerAddress = e.addrs[prVO].String()
		}
		return &mdtypes.MsgWriteScopeRequest{Scope: sc, Signers: e.strs(sg)}
	}
	// who signs
	partyNeed := dedupInts(e.neededAddrs(ifRollup(rollup, owners), owners, ifRollupI(rollup, specRoles)))
	var signers []int
	var grants []c10Grant
	strategy := ""
	switch x := r.Intn(10); {
	case x < 3:
		strategy = "value_owner_only"
		if exVO != 0 {
			signers = []int{exVO}
		} else {
			signers = []int{1 + r.Intn(4)}
		}
	case x < 5:
		strategy = "parties_only"
		signers = partyNeed
	case x < 8:
		strategy = "both"
		if exVO != 0 {
			signers = append([]int{exVO}, partyNeed...)
		} else {
			signers = partyNeed
		}
		signers = dedupInts(signers)
	default:
		strategy = "mixed"
		need := partyNeed
		if exVO != 0 {
			need = dedupInts(append([]int{exVO}, partyNeed...))
		}
		signers, grants = e.signersFor(1, need, nil)
	}
	if len(signers) == 0 {
		signers = []int{1 + r.Intn(4)}
	}
	ok := e.emitOuter(t, 1, "WriteScopeVO", op, setup, build, signers, grants, "vo")
	key := fmt.Sprintf("vo_mode%d_%s", mode, strategy)
	e.w.Count(key)
	if ok {
		e.w.Count(key + "_accepted")
	}
}

// optionalize rewrites (one time in three) a MsgWriteScope / MsgWriteSession / MsgWriteRecord so that
// the entry and its specification are identified ONLY by the optional fields (scope_uuid, spec_uuid,
// session_id_components, contract_spec_uuid); the ids inside the entry are left empty. ValidateBasic
// converts a copy (value receiver), the message server has to convert the message it is given.
func (e *c10Env) optionalize(m c10VB) (c10VB, bool) {
	r := e.r
	skip := func(n int) bool {
		switch e.forceOptional {
		case 1:
			return false
		case -1:
			return true
		}
		return r.Intn(n) != 0
	}
	switch msg := m.(type) {
	case *mdtypes.MsgWriteScopeRequest:
		if skip(3) {
			return m, false
		}
		uid, err := msg.Scope.ScopeId.ScopeUUID()
		if err != nil {
			return m, false
		}
		msg.ScopeUuid, msg.Scope.ScopeId = uid.String(), nil
		if r.Intn(2) == 0 {
			if sid, err := msg.Scope.SpecificationId.ScopeSpecUUID(); err == nil {
				msg.SpecUuid, msg.Scope.SpecificationId = sid.String(), nil
			}
		}
		return msg, true
	case *mdtypes.MsgWriteSessionRequest:
		if skip(2) {
			return m, false
		}
		comp := e.sessionComponents(msg.Session.SessionId)
		if comp == nil {
			return m, false
		}
		msg.SessionIdComponents, msg.Session.SessionId = comp, nil
		if r.Intn(2) == 0 {
			if sid, err := msg.Session.SpecificationId.ContractSpecUUID(); err == nil {
				msg.SpecUuid, msg.Session.SpecificationId = sid.String(), nil
			}
		}
		return msg, true
	case *mdtypes.MsgWriteRecordRequest:
		if skip(3) {
			return m, false
		}
		comp := e.sessionComponents(msg.Record.SessionId)
		if comp == nil {
			return m, false
		}
		msg.SessionIdComponents, msg.Record.SessionId = comp, nil
		if r.Intn(2) == 0 && msg.Record.SpecificationId.Empty() {
			msg.ContractSpecUuid = c10CSpecU.String()
		}
		return msg, true
	}
	return m, false
}

func (e *c10Env) sessionComponents(id mdtypes.MetadataAddress) *mdtypes.SessionIdComponents {
	scopeUUID, err := id.ScopeUUID()
	if err != nil {
		return nil
	}
	sessUUID, err := id.SessionUUID()
	if err != nil {
		return nil
	}
	comp := &mdtypes.SessionIdComponents{SessionUuid: sessUUID.String()}
	if e.r.Intn(2) == 0 {
		comp.ScopeIdentifier = &mdtypes.SessionIdComponents_ScopeUuid{ScopeUuid: scopeUUID.String()}
	} else {
		comp.ScopeIdentifier = &mdtypes.SessionIdComponents_ScopeAddr{ScopeAddr: mdtypes.ScopeMetadataAddress(scopeUUID).String()}
	}
	return comp
}

// ---------- count-limited authorizations with expirations and block times ----------

type c10TGrant struct{ granter, grantee, kind, uses, exp int } // uses 0 = generic, exp 0 = none (seconds after c10T0)

var c10T0 = time.Date(2031, 3, 1, 12, 0, 0, 0, time.UTC)

func (e *c10Env) countTimedCase(t *testing.T, i int) {
	r := e.r
	kind := e.pick([]int{1, 2, 5, 8, 3, 3})
	goodKinds := []int{kind}
	switch kind {
	case 3, 5:
		goodKinds = append(goodKinds, 1)
	case 8:
		goodKinds = append(goodKinds, 7)
	}
	granter := 1 + r.Intn(4)
	var signers []int
	nS := 1 + r.Intn(2)
	for _, a := range r.Perm(4) {
		if a+1 != granter && len(signers) < nS {
			signers = append(signers, a+1)
		}
	}
	var st []c10TGrant
	for _, s := range signers {
		switch x := r.Intn(12); {
		case x < 8:
			st = append(st, c10TGrant{granter, s, e.pick(goodKinds), 1 + r.Intn(4), e.pick([]int{10, 10, 10, 20, 0})})
		case x < 9:
			st = append(st, c10TGrant{granter, s, e.pick(goodKinds), 0, e.pick([]int{10, 20, 0})})
		case x < 10:
			st = append(st, c10TGrant{granter, s, 9, 2, 10}) // unrelated kind
		default:
		}
	}
	// block times: nondecreasing, the expiration seconds themselves often and repeatedly
	pool := []int{3, 6, 9, 10, 10, 10, 11, 15, 20, 20, 21, 30}
	var times []int
	for _, p := range pool {
		if r.Intn(2) == 0 {
			times = append(times, p)
		}
	}
	if len(times) < 3 {
		times = []int{5, 10, 10, 12}
	}
	if len(times) > 8 {
		times = times[:8]
	}
	base, _ := e.base.CacheContext()
	ctx := base.WithBlockTime(c10T0)
	for _, g := range st {
		var a authz.Authorization = authz.NewGenericAuthorization(c10KindURL[g.kind])
		if g.uses > 0 {
			a = authz.NewCountAuthorization(c10KindURL[g.kind], int32(g.uses))
		}
		var expp *time.Time
		if g.exp > 0 {
			x := c10T0.Add(time.Duration(g.exp) * time.Second)
			expp = &x
		}
		if err := e.app.AuthzKeeper.SaveGrant(ctx, e.addrs[g.grantee], e.addrs[g.granter], a, expp); err != nil {
			t.Fatalf("save timed grant: %v", err)
		}
	}
	mode := "without"
	switch {
	case kind == 3 && i%2 == 0:
		mode = "message"
	case r.Intn(3) == 0:
		mode = "with"
	}
	if mode == "message" {
		e.fxSpecs(ctx, []int{c10Owner}, nil, nil, true, false)
		e.fxScope(t, ctx, []c10Party{{a: granter, role: c10Owner}}, false)
	}
	var obs []string
	var descObs []any
	nAcc, atExpiry, afterExpiryAccepted := 0, 0, 0
	for j, sec := range times {
		now := ctx.WithBlockTime(c10T0.Add(time.Duration(sec) * time.Second))
		var err error
		switch mode {
		case "message":
			cctx, write := now.CacheContext()
			err = e.send(cctx, &mdtypes.MsgAddScopeDataAccessRequest{ScopeId: c10ScopeID(), DataAccess: []string{addrN(3000 + j).String()}, Signers: e.strs(signers)})
			if err == nil {
				write()
			}
		case "with":
			c := mdtypes.AddAuthzCacheToContext(now)
			ps := e.parties([]c10Party{{a: granter, role: c10Owner}})
			err = try(func() error {
				return e.app.MetadataKeeper.ValidateSignersWithParties(c, ps, ps, e.roles([]int{c10Owner}), e.signerMsg(kind, signers))
			})
		default:
			c := mdtypes.AddAuthzCacheToContext(now)
			err = try(func() error {
				return e.app.MetadataKeeper.ValidateSignersWithoutParties(c, e.strs([]int{granter}), e.signerMsg(kind, signers))
			})
		}
		// the expiration stored for every original key, asked at a time before every expiration
		var exps []int
		for _, g := range st {
			a, exp := e.app.AuthzKeeper.GetAuthorization(ctx, e.addrs[g.grantee], e.addrs[g.granter], c10KindURL[g.kind])
			switch {
			case a == nil:
				exps = append(exps, -1)
			case exp == nil:
				exps = append(exps, 0)
			default:
				exps = append(exps, int(exp.Unix()-c10T0.Unix()))
			}
		}
		items := make([]string, len(exps))
		for q, x := range exps {
			items[q] = fmt.Sprint(x)
			if x < 0 {
				items[q] = "(" + items[q] + ")"
			}
		}
		obs = append(obs, fmt.Sprintf("(%s, %s)", coqBool(err == nil), coqList(items)))
		descObs = append(descObs, map[string]any{"second": sec, "accepted": err == nil, "stored_expirations": exps})
		if err == nil {
			nAcc++
		}
		for _, g := range st {
			if g.exp == sec {
				atExpiry++
			}
			if g.exp > 0 && sec > g.exp && err == nil {
				afterExpiryAccepted++
			}
		}
	}
	items := make([]string, len(st))
	descG := []string{}
	for q, g := range st {
		items[q] = fmt.Sprintf("(%d, %d, %d, %d, %d)", g.granter, g.grantee, g.kind, g.uses, g.exp)
		u := fmt.Sprintf("count=%d", g.uses)
		if g.uses == 0 {
			u = "generic"
		}
		x := "no expiration"
		if g.exp > 0 {
			x = fmt.Sprintf("expires at second %d", g.exp)
		}
		descG = append(descG, fmt.Sprintf("addr%d->addr%d:%s:%s:%s", g.granter, g.grantee, strings.TrimPrefix(c10KindURL[g.kind], "/provenance.metadata.v1."), u, x))
	}
	term := fmt.Sprintf("CCountT %d %s %d %s %s %s", kind, coqList(items), granter, c10Ints(signers), c10Ints(times), coqList(obs))
	d := c10Desc{"stream": "count_timed", "mode": mode, "msg": c10KindURL[kind], "authorizations": descG, "required": granter,
		"signers": signers, "messages": descObs}
	e.w.Add(term, d)
	if atExpiry > 0 {
		e.sample("count_timed/"+mode, d)
	}
	e.w.Count("count_timed")
	e.w.Count("count_timed_mode_" + mode)
	e.w.CountN("count_timed_messages", int64(len(times)))
	e.w.CountN("count_timed_messages_accepted", int64(nAcc))
	e.w.CountN("count_timed_messages_at_an_expiration_second", int64(atExpiry))
	e.w.CountN("count_timed_accepted_after_some_grant_expired", int64(afterExpiryAccepted))
	e.w.Nontrivial(term)
}


// ---------- the concrete witnesses of the Coq observations, on the real code ----------

func (e *c10Env) witnessCases(t *testing.T) {
	e.forceOptional = -1
	defer func() { e.forceOptional = 0 }()
	// C10_available_order_observable
	p1, p2 := c10Party{1, c10Owner, true}, c10Party{2, c10Owner, true}
	gs := []c10Grant{{1, 6, 1}, {2, 3, 1}}
	g := e.grantCtx(t, gs)
	if e.runWith(g, 1, gs, []c10Party{p1, p2}, []c10Party{p1, p2}, []int{c10Owner}, []int{6, 3}, "witness") {
		e.w.Count("witness_avail_order_12_accepted")
	}
	if !e.runWith(g, 1, gs, []c10Party{p2, p1}, []c10Party{p2, p1}, []int{c10Owner}, []int{6, 3}, "witness") {
		e.w.Count("witness_avail_order_21_rejected")
	}
	// C10_update_value_owners_no_position_rule: value owner signs, a smart contract follows
	op, setup, build := e.uvoParts(t, []int{3}, 2)
	if e.emitOuter(t, 10, "UpdateValueOwners", op, setup, build, []int{3, 6}, nil, "witness") {
		e.w.Count("witness_uvo_contract_after_ordinary_signer_accepted")
	}
	// C10_update_value_owners_contract_literal_refuted: a contract that is not the value owner, alone, under the owner's grant
	gs = []c10Grant{{3, 6, 10}}
	if e.emitOuter(t, 10, "UpdateValueOwners", op, setup, build, []int{6}, gs, "witness") {
		e.w.Count("witness_uvo_contract_not_owner_with_grant_accepted")
	}
	// ... and without the grant it is refused; with the owner listed after the contract it is refused as well (others are ignored)
	if !e.emitOuter(t, 10, "UpdateValueOwners", op, setup, build, []int{6}, nil, "witness") {
		e.w.Count("witness_uvo_contract_not_owner_no_grant_rejected")
	}
	if !e.emitOuter(t, 10, "UpdateValueOwners", op, setup, build, []int{6, 3}, nil, "witness") {
		e.w.Count("witness_uvo_contract_first_silences_owner_rejected")
	}
	// C10_update_value_owners_first_signer_silences: value owner 2 has only ever received its scope
	// coin, so isWasmAccount takes it for a smart contract; both value owners sign
	op2, setup2, build2 := e.uvoParts(t, []int{2, 3}, 7)
	if !e.emitOuter(t, 10, "UpdateValueOwners", op2, setup2, build2, []int{2, 3}, nil, "witness") {
		e.w.Count("witness_uvo_fresh_owner_signs_first_rejected")
	}
	if e.emitOuter(t, 10, "UpdateValueOwners", op2, setup2, build2, []int{3, 2}, nil, "witness") {
		e.w.Count("witness_uvo_fresh_owner_signs_second_accepted")
	}
	// C10_witness_endpoints: required in the session although optional in the scope
	owners := []c10Party{{1, c10Controller, false}, {2, c10Servicer, true}}
	session := []c10Party{{2, c10Servicer, false}, {1, c10Controller, true}}
	old := []c10Party{{2, c10Servicer, true}}
	rop := fmt.Sprintf("OWriteRecord true %s %s %s %s", c10Parties(owners), c10Parties(session), c10OptParties(true, old), c10Ints([]int{c10Servicer}))
	rsetup := func(ctx sdk.Context) {
		e.fxSpecs(ctx, nil, nil, []int{c10Servicer}, true, true)
		e.fxScope(t, ctx, owners, true)
		e.fxSession(ctx, c10Sess1(), session, "sess")
		e.fxSession(ctx, c10Sess2(), old, "old")
		e.fxRecord(ctx, c10Sess2())
	}
	rbuild := func(s []int) c10VB { return &mdtypes.MsgWriteRecordRequest{Record: e.mkRecord(c10Sess1()), Signers: e.strs(s)} }
	if e.emitOuter(t, 8, "WriteRecord", rop, rsetup, rbuild, []int{1, 2}, nil, "witness") {
		e.w.Count("witness_record_move_all_sign_accepted")
	}
	if !e.emitOuter(t, 8, "WriteRecord", rop, rsetup, rbuild, []int{1}, nil, "witness") {
		e.w.Count("witness_record_move_hidden_required_missing_rejected")
	}
	// an EXISTING session addressed only through session_id_components: the stored session's
	// required party (2) must sign although the signer (1, an optional scope owner) lists only itself
	sOwners := []c10Party{{1, c10Servicer, true}, {2, c10Servicer, true}}
	sEx := []c10Party{{2, c10Servicer, false}}
	sProp := []c10Party{{1, c10Servicer, false}}
	sop := fmt.Sprintf("OWriteSession true %s %s %s %s", c10Parties(sOwners), c10OptParties(true, sEx), c10Parties(sProp), c10Ints([]int{c10Servicer}))
	ssetup := func(ctx sdk.Context) {
		e.fxSpecs(ctx, nil, []int{c10Servicer}, nil, true, false)
		e.fxScope(t, ctx, sOwners, true)
		e.fxSession(ctx, c10Sess1(), sEx, "sess")
	}
	sbuild := func(s []int) c10VB {
		return &mdtypes.MsgWriteSessionRequest{Session: mdtypes.Session{SessionId: c10Sess1(), SpecificationId: c10CSpecID(), Parties: e.parties(sProp), Name: "sess"}, Signers: e.strs(s)}
	}
	for _, f := range []int{1, -1} {
		e.forceOptional = f
		if !e.emitOuter(t, 7, "WriteSession", sop, ssetup, sbuild, []int{1}, nil, "witness") {
			e.w.Count(fmt.Sprintf("witness_existing_session_needs_stored_parties_rejected_optional_fields_%v", f == 1))
		}
		if e.emitOuter(t, 7, "WriteSession", sop, ssetup, sbuild, []int{1, 2}, nil, "witness") {
			e.w.Count(fmt.Sprintf("witness_existing_session_stored_parties_sign_accepted_optional_fields_%v", f == 1))
		}
	}
}


func ifRollup(rollup bool, ps []c10Party) []c10Party {
	if rollup {
		return ps
	}
	var out []c10Party
	for _, p := range ps {
		q := p
		q.opt = false
		out = append(out, q)
	}
	return out
}
func ifRollupI(c bool, l []int) []int {
	if c {
		return l
	}
	return nil
}
func dedupInts(l []int) []int {
	seen := map[int]bool{}
	var out []int
	for _, v := range l {
		if !seen[v] {
			seen[v] = true
			out = append(out, v)
		}
	}
	return out
}
func uniqueParties(ps []c10Party) []c10Party {
	var out []c10Party
	for _, p := range ps {
		dup := false
		for _, q := range out {
			if q.a == p.a && q.role == p.role {
				dup = true
			}
		}
		if !dup {
			out = append(out, p)
		}
	}
	return out
}

func TestC10(t *testing.T) {
	w := NewCaseWriter("C10", "PV.Corr.C10", "check_all", 500)
	r := newRand("C10")
	e := c10Setup(t, w, r)
	e.exhaustive(t)
	e.randomWith(t, scale(2500, 40000))
	e.randomWithout(t, scale(800, 10000))
	nOuter := scale(1800, 26000)
	for i := 0; i < nOuter; i++ {
		e.outerCase(t, i%9)
	}
	nOverlap := scale(800, 10000)
	for i := 0; i < nOverlap; i++ {
		e.overlapCase(t, i)
	}
	nCount := scale(150, 2000)
	for i := 0; i < nCount; i++ {
		e.countCase(t, i)
	}
	nCountT := scale(250, 3000)
	for i := 0; i < nCountT; i++ {
		e.countTimedCase(t, i)
	}
	nVO := scale(900, 12000)
	for i := 0; i < nVO; i++ {
		e.voScopeCase(t, i)
	}
	e.witnessCases(t)
	for _, key := range []string{"count_timed/without", "count/without", "count/message", "overlap/WriteRecord/accepted=false", "overlap/WriteSession/accepted=true",
		"msg/UpdateValueOwners/accepted=true", "msg/AddScopeDataAccess/accepted=true", "msg/DeleteScopeDataAccess/accepted=false",
		"vo/WriteScopeVO/accepted=false", "witness/UpdateValueOwners/accepted=false", "msg/WriteRecord/accepted=true"} {
		if d, ok := e.samples[key]; ok {
			b, err := json.Marshal(d)
			if err != nil {
				t.Fatal(err)
			}
			w.Samples = append(w.Samples, b)
		}
	}
	w.Flush(t)
}
