//go:build c12

package harness

import (
	"fmt"
	"math/rand"
	"os"
	"sort"
	"strings"
	"testing"
	"time"

	sdkmath "cosmossdk.io/math"
	"cosmossdk.io/x/feegrant"

	codectypes "github.com/cosmos/cosmos-sdk/codec/types"
	sdk "github.com/cosmos/cosmos-sdk/types"
	authtypes "github.com/cosmos/cosmos-sdk/x/auth/types"
	"github.com/cosmos/cosmos-sdk/x/authz"
	banktypes "github.com/cosmos/cosmos-sdk/x/bank/types"
	"github.com/cosmos/cosmos-sdk/x/group"
	minttypes "github.com/cosmos/cosmos-sdk/x/mint/types"

	simapp "github.com/provenance-io/provenance/app"
	"github.com/provenance-io/provenance/x/exchange"
	markertypes "github.com/provenance-io/provenance/x/marker/types"
)

// ---------------------------------------------------------------------------------------------
// C12: marker operations need the matching access right; authz transfers stay in grant.
//
// Part A  access matrix: every administration endpoint through the real message router, on
//         markers brought into each status by the real keeper transitions, for callers holding
//         a chosen subset of the eight access rights / being the manager / being the governance
//         account / holding the whole supply.  Every request is otherwise valid, so that the
//         access decision decides.  Observables: success, marker status afterwards.
// Part B  MsgTransferRequest matrix: admin rights x forced-transfer flag x kind of source
//         account x authz grant x destination kind.  Observables: success, balance deltas, the
//         stored grant (authz Grants query).
// Part C  sequences of partial uses of ONE MarkerTransferAuthorization (with / without allow
//         list), through the marker keeper's authz handler and through authz MsgExec.
// ---------------------------------------------------------------------------------------------

const (
	c12Caller  = 100
	c12Manager = 101
	c12Third   = 103 // address granted/revoked by add/delete access
	c12Minter  = 104 // holds Mint so that zero-supply markers validate
	c12Deleter = 106 // holds Delete: cancels/deletes active markers during setup
	c12Recv    = 107 // withdraw recipient
	c12Denied  = 108 // deny-list entry
	c12Grantee = 109 // fee allowance grantee
)

var c12RightNames = []string{"RMint", "RBurn", "RDeposit", "RWithdraw", "RDelete", "RAdmin", "RTransfer", "RForceTransfer"}

func c12Perms(mask int) []markertypes.Access {
	var out []markertypes.Access
	for i := 0; i < 8; i++ {
		if mask&(1<<i) != 0 {
			out = append(out, markertypes.Access(i+1))
		}
	}
	return out
}

var c12StatusCoq = map[markertypes.MarkerStatus]string{
	markertypes.StatusProposed: "SProposed", markertypes.StatusFinalized: "SFinalized", markertypes.StatusActive: "SActive",
	markertypes.StatusCancelled: "SCancelled", markertypes.StatusDestroyed: "SDestroyed",
}

// status variants: how the marker got where it is decides whether it still has a manager.
type c12Variant struct {
	name       string
	status     markertypes.MarkerStatus
	hasManager bool     // on the unchanged code
	activated  bool     // the marker is or has been active (known from the lifecycle driven here)
	route      []string // non-nil: built through the real message handlers, incl. governance ChangeStatus
}

var c12Variants = []c12Variant{
	{"proposed", markertypes.StatusProposed, true, false, nil},
	{"finalized", markertypes.StatusFinalized, true, false, nil},
	{"active", markertypes.StatusActive, false, true, nil},
	{"cancelled-before-activation", markertypes.StatusCancelled, true, false, nil},
	{"cancelled-after-activation", markertypes.StatusCancelled, false, true, nil},
	{"destroyed-before-activation", markertypes.StatusDestroyed, true, false, nil},
	{"destroyed-after-activation", markertypes.StatusDestroyed, false, true, nil},
	// lifecycles through the message router, with governance status changes
	{"gov-activated-from-proposed", markertypes.StatusActive, false, true, []string{"gov:active"}},
	{"gov-activated-from-finalized", markertypes.StatusActive, false, true, []string{"finalize", "gov:active"}},
	{"gov-activated-then-cancelled", markertypes.StatusCancelled, false, true, []string{"gov:active", "cancel"}},
	{"gov-activated-then-gov-cancelled", markertypes.StatusCancelled, false, true, []string{"gov:active", "gov:cancelled"}},
	{"gov-activated-cancelled-destroyed", markertypes.StatusDestroyed, false, true, []string{"gov:active", "cancel", "delete"}},
	{"gov-finalized", markertypes.StatusFinalized, true, false, []string{"gov:finalized"}},
	{"gov-cancelled-from-proposed", markertypes.StatusCancelled, true, false, []string{"gov:cancelled"}},
}

type c12Env struct {
	t    *testing.T
	app  *simapp.App
	base sdk.Context
	gov  sdk.AccAddress
	n    int // denom counter
	te   *c12TEnv
	w    *CaseWriter
	opsRun map[string]bool // endpoints of the table exercised by the access matrix
}

func (e *c12Env) handle(ctx sdk.Context, msg sdk.Msg) error {
	return try(func() error {
		h := e.app.MsgServiceRouter().Handler(msg)
		if h == nil {
			return fmt.Errorf("no handler for %T", msg)
		}
		_, err := h(ctx, msg)
		return err
	})
}

func (e *c12Env) must(err error, what string) {
	if err != nil {
		e.t.Fatalf("setup %s: %v", what, err)
	}
}

// fundBypass mints coins and delivers them without consulting the marker send restriction.
func (e *c12Env) fundBypass(ctx sdk.Context, to sdk.AccAddress, coins sdk.Coins) {
	e.must(e.app.BankKeeper.MintCoins(ctx, minttypes.ModuleName, coins), "mint")
	e.must(e.app.BankKeeper.SendCoins(markertypes.WithBypass(ctx), authtypes.NewModuleAddress(minttypes.ModuleName), to, coins), "fund")
}

var c12StatusByName = map[string]markertypes.MarkerStatus{
	"proposed": markertypes.StatusProposed, "finalized": markertypes.StatusFinalized, "active": markertypes.StatusActive,
	"cancelled": markertypes.StatusCancelled, "destroyed": markertypes.StatusDestroyed,
}

// driveLife creates a marker with MsgAddMarkerRequest (manager without any access grant,
// governance control on) and walks it through the given transitions with the real message
// handlers: finalize / activate by the manager, cancel / delete by a DELETE holder, "gov:<status>"
// by MsgChangeStatusProposalRequest of the governance account.  It emits the observed lifecycle as a
// CLife case and returns whether an Active status was ever observed.
func (e *c12Env) driveLife(ctx sdk.Context, denom string, restricted bool, initial markertypes.MarkerStatus, supply int64, route []string) bool {
	mgr := addrN(c12Manager)
	mt := markertypes.MarkerType_Coin
	if restricted {
		mt = markertypes.MarkerType_RestrictedCoin
	}
	add := markertypes.NewMsgAddMarkerRequest(denom, sdkmath.NewInt(supply), mgr, mgr, mt, true, true, false, nil, 0, 0)
	add.Status = initial
	add.AccessList = []markertypes.AccessGrant{
		{Address: addrN(c12Minter).String(), Permissions: []markertypes.Access{markertypes.Access_Mint}},
		{Address: addrN(c12Deleter).String(), Permissions: []markertypes.Access{markertypes.Access_Delete}},
	}
	e.must(e.handle(ctx, add), "MsgAddMarkerRequest "+denom)
	m, err := e.app.MarkerKeeper.GetMarkerByDenom(ctx, denom)
	e.must(err, "get "+denom)
	init := fmt.Sprintf("{| l_status := %s; l_manager := %s; l_activated := false |}", c12StatusCoq[m.GetStatus()], coqBool(!m.GetManager().Empty()))
	activated := false
	var obs []string
	var sdesc []map[string]any
	for _, op := range route {
		var msg sdk.Msg
		var coqOp string
		switch {
		case op == "finalize":
			msg, coqOp = markertypes.NewMsgFinalizeRequest(denom, mgr), "LFinalize"
		case op == "activate":
			msg, coqOp = markertypes.NewMsgActivateRequest(denom, mgr), "LActivate"
		case op == "cancel":
			msg, coqOp = markertypes.NewMsgCancelRequest(denom, addrN(c12Deleter)), "LCancel"
		case op == "delete":
			msg, coqOp = markertypes.NewMsgDeleteRequest(denom, addrN(c12Deleter)), "LDelete"
		case strings.HasPrefix(op, "gov:"):
			st := c12StatusByName[strings.TrimPrefix(op, "gov:")]
			msg, coqOp = markertypes.NewMsgChangeStatusProposalRequest(denom, st, e.gov.String()), "(LGov "+c12StatusCoq[st]+")"
		default:
			e.t.Fatalf("unknown lifecycle op %q", op)
		}
		cc, write := ctx.CacheContext()
		err := e.handle(cc, msg)
		if err == nil {
			write()
		}
		m, gerr := e.app.MarkerKeeper.GetMarkerByDenom(ctx, denom)
		e.must(gerr, "get "+denom)
		if m.GetStatus() == markertypes.StatusActive {
			activated = true
		}
		obs = append(obs, fmt.Sprintf("{| lo_op := %s; lo_ok := %s; lo_status := %s; lo_manager := %s |}", coqOp, coqBool(err == nil), c12StatusCoq[m.GetStatus()], coqBool(!m.GetManager().Empty())))
		sdesc = append(sdesc, map[string]any{"op": op, "ok": err == nil, "status_after": m.GetStatus().String(), "manager_after": m.GetManager().String()})
		e.w.Count("lifecycle_steps")
		if err == nil {
			e.w.Count("lifecycle_steps_accepted")
		}
	}
	e.w.Add(fmt.Sprintf("CLife %s %s", init, coqList(obs)), map[string]any{"part": "lifecycle", "denom": denom, "restricted": restricted, "initial": initial.String(), "steps": sdesc})
	e.w.Count("lifecycle_cases")
	if activated {
		e.w.Nontrivial("l/" + init + strings.Join(obs, ";"))
	}
	return activated
}

// makeMarker creates a marker through the real keeper and walks it to the variant's status.
func (e *c12Env) makeMarker(ctx sdk.Context, denom string, v c12Variant, restricted, forced, govctl bool, supply int64) {
	if v.route != nil {
		// through the message router; whether the manager survives is observed, not assumed
		e.driveLife(ctx, denom, restricted, markertypes.StatusProposed, supply, v.route)
		m, err := e.app.MarkerKeeper.GetMarkerByDenom(ctx, denom)
		e.must(err, "get "+denom)
		if m.GetStatus() != v.status {
			e.t.Fatalf("setup %s (%s): status %s", denom, v.name, m.GetStatus())
		}
		return
	}
	mk := e.app.MarkerKeeper
	mt := markertypes.MarkerType_Coin
	if restricted {
		mt = markertypes.MarkerType_RestrictedCoin
	}
	mgr := addrN(c12Manager)
	access := []markertypes.AccessGrant{
		{Address: addrN(c12Minter).String(), Permissions: []markertypes.Access{markertypes.Access_Mint}},
		{Address: addrN(c12Deleter).String(), Permissions: []markertypes.Access{markertypes.Access_Delete}},
	}
	ma := markertypes.NewMarkerAccount(authtypes.NewBaseAccountWithAddress(markertypes.MustGetMarkerAddress(denom)),
		sdk.NewInt64Coin(denom, supply), mgr, access, markertypes.StatusProposed, mt, true, govctl, forced, nil)
	e.must(mk.AddMarkerAccount(ctx, ma), "add "+denom)
	switch v.name {
	case "proposed":
	case "finalized":
		e.must(mk.FinalizeMarker(ctx, mgr, denom), "finalize")
	case "active", "cancelled-after-activation", "destroyed-after-activation":
		e.must(mk.FinalizeMarker(ctx, mgr, denom), "finalize")
		e.must(mk.ActivateMarker(ctx, mgr, denom), "activate")
		if v.name != "active" {
			e.must(mk.CancelMarker(ctx, addrN(c12Deleter), denom), "cancel")
		}
		if v.name == "destroyed-after-activation" {
			e.must(mk.DeleteMarker(ctx, addrN(c12Deleter), denom), "delete")
		}
	case "cancelled-before-activation", "destroyed-before-activation":
		e.must(mk.CancelMarker(ctx, mgr, denom), "cancel")
		if v.name == "destroyed-before-activation" {
			e.must(mk.DeleteMarker(ctx, mgr, denom), "delete")
		}
	}
	m, err := mk.GetMarkerByDenom(ctx, denom)
	e.must(err, "get "+denom)
	if m.GetStatus() != v.status || (m.GetManager().Empty() == v.hasManager) {
		e.t.Fatalf("setup %s: status %s manager %q", denom, m.GetStatus(), m.GetManager())
	}
}

// setRights replaces the caller's entry of the marker's access list.
func (e *c12Env) setRights(ctx sdk.Context, denom string, who sdk.AccAddress, mask int) {
	m, err := e.app.MarkerKeeper.GetMarkerByDenom(ctx, denom)
	e.must(err, "get "+denom)
	ma := m.(*markertypes.MarkerAccount)
	var list []markertypes.AccessGrant
	for _, g := range ma.AccessControl {
		if g.Address != who.String() {
			list = append(list, g)
		}
	}
	if mask != 0 {
		list = append(list, markertypes.AccessGrant{Address: who.String(), Permissions: c12Perms(mask)})
	}
	ma.AccessControl = list
	e.app.MarkerKeeper.SetMarker(ctx, ma)
}

func c12Masks(r *rand.Rand, restricted bool) []int {
	limit := 256
	if !restricted {
		limit = 64 // Transfer / ForceTransfer cannot be granted on a coin marker (MarkerAccount.Validate)
	}
	if tier() == "thorough" {
		out := make([]int, limit)
		for i := range out {
			out[i] = i
		}
		return out
	}
	set := map[int]bool{0: true, limit - 1: true}
	for i := 0; i < 8; i++ {
		if 1<<i < limit {
			set[1<<i] = true
			set[(limit-1)&^(1<<i)] = true
		}
	}
	for len(set) < 24 {
		set[r.Intn(limit)] = true
	}
	var out []int
	for k := range set {
		out = append(out, k)
	}
	sort.Ints(out)
	return out
}

var c12Ops = []string{"OMint", "OBurn", "OWithdraw", "OFinalize", "OActivate", "OCancel", "ODelete", "OAddAccess", "ODeleteAccess",
	"OSetMetadata", "OSetAccountData", "OUpdateDenyList", "OUpdateReqAttrs", "OGrantAllowance", "OAddNav",
	// governance-only endpoints
	"OUpdateForcedTransfer", "OSupplyIncrease", "OSupplyDecrease", "OSetAdministrator", "ORemoveAdministrator",
	"OChangeStatus", "OWithdrawEscrow", "OSetMetadataProposal"}

var c12GovOnly = map[string]bool{"OUpdateForcedTransfer": true, "OSupplyIncrease": true, "OSupplyDecrease": true, "OSetAdministrator": true,
	"ORemoveAdministrator": true, "OChangeStatus": true, "OWithdrawEscrow": true, "OSetMetadataProposal": true}

func c12Metadata(denom string) banktypes.Metadata {
	return banktypes.Metadata{
		Description: "c12", Base: denom, Display: denom, Name: "C12 " + denom, Symbol: strings.ToUpper(denom),
		DenomUnits: []*banktypes.DenomUnit{{Denom: denom, Exponent: 0}, {Denom: "k" + denom, Exponent: 3}}}
}

// govOpMsg builds the governance-only requests; they read the marker (current status, current
// forced-transfer flag) so that the request is valid apart from who sends it.
func (e *c12Env) govOpMsg(ctx sdk.Context, op, denom string, caller sdk.AccAddress) sdk.Msg {
	m, err := e.app.MarkerKeeper.GetMarkerByDenom(ctx, denom)
	e.must(err, "get "+denom)
	switch op {
	case "OUpdateForcedTransfer":
		return markertypes.NewMsgUpdateForcedTransferRequest(denom, !m.AllowsForcedTransfer(), caller)
	case "OSupplyIncrease":
		return markertypes.NewMsgSupplyIncreaseProposalRequest(sdk.NewInt64Coin(denom, 5), "", caller.String())
	case "OSupplyDecrease":
		return markertypes.NewMsgSupplyDecreaseProposalRequest(sdk.NewInt64Coin(denom, 5), caller.String())
	case "OSetAdministrator":
		return markertypes.NewMsgSetAdministratorProposalRequest(denom, []markertypes.AccessGrant{{Address: addrN(c12Third).String(), Permissions: []markertypes.Access{markertypes.Access_Deposit}}}, caller.String())
	case "ORemoveAdministrator":
		return markertypes.NewMsgRemoveAdministratorProposalRequest(denom, []string{addrN(c12Third).String()}, caller.String())
	case "OChangeStatus":
		return markertypes.NewMsgChangeStatusProposalRequest(denom, m.GetStatus(), caller.String())
	case "OWithdrawEscrow":
		return markertypes.NewMsgWithdrawEscrowProposalRequest(denom, sdk.NewCoins(sdk.NewInt64Coin("xothercoin", 5)), addrN(c12Recv).String(), caller.String())
	case "OSetMetadataProposal":
		return markertypes.NewMsgSetDenomMetadataProposalRequest(c12Metadata(denom), caller.String())
	}
	e.t.Fatalf("unknown governance op %s", op)
	return nil
}

func (e *c12Env) opMsg(op, denom string, caller sdk.AccAddress) sdk.Msg {
	switch op {
	case "OMint":
		return markertypes.NewMsgMintRequest(caller, sdk.NewInt64Coin(denom, 5))
	case "OBurn":
		return markertypes.NewMsgBurnRequest(caller, sdk.NewInt64Coin(denom, 5))
	case "OWithdraw":
		return markertypes.NewMsgWithdrawRequest(caller, addrN(c12Recv), denom, sdk.NewCoins(sdk.NewInt64Coin("xothercoin", 5)))
	case "OFinalize":
		return markertypes.NewMsgFinalizeRequest(denom, caller)
	case "OActivate":
		return markertypes.NewMsgActivateRequest(denom, caller)
	case "OCancel":
		return markertypes.NewMsgCancelRequest(denom, caller)
	case "ODelete":
		return markertypes.NewMsgDeleteRequest(denom, caller)
	case "OAddAccess":
		return markertypes.NewMsgAddAccessRequest(denom, caller, markertypes.AccessGrant{Address: addrN(c12Third).String(), Permissions: []markertypes.Access{markertypes.Access_Deposit}})
	case "ODeleteAccess":
		return markertypes.NewDeleteAccessRequest(denom, caller, addrN(c12Third))
	case "OSetMetadata":
		return &markertypes.MsgSetDenomMetadataRequest{Administrator: caller.String(), Metadata: c12Metadata(denom)}
	case "OSetAccountData":
		return markertypes.NewMsgSetAccountDataRequest(denom, "c12 account data", caller)
	case "OUpdateDenyList":
		return markertypes.NewMsgUpdateSendDenyListRequest(denom, caller, nil, []string{addrN(c12Denied).String()})
	case "OUpdateReqAttrs":
		return markertypes.NewMsgUpdateRequiredAttributesRequest(denom, caller, nil, []string{"kyc.verif.c12"})
	case "OGrantAllowance":
		m, err := markertypes.NewMsgGrantAllowance(denom, caller, addrN(c12Grantee), &feegrant.BasicAllowance{SpendLimit: sdk.NewCoins(sdk.NewInt64Coin("nhash", 10))})
		e.must(err, "allowance msg")
		return m
	case "OAddNav":
		return markertypes.NewMsgAddNetAssetValuesRequest(denom, caller.String(), []markertypes.NetAssetValue{markertypes.NewNetAssetValue(sdk.NewInt64Coin(markertypes.UsdDenom, 100), 1)})
	}
	e.t.Fatalf("unknown op %s", op)
	return nil
}

type c12Key struct {
	variant            int
	restricted, govctl bool
	zero               bool
}

func TestC12(t *testing.T) {
	r := newRand("C12")
	w := NewCaseWriter("C12", "PV.Corr.C12", "check_all", 1000)
	app, base := newApp(t)
	e := &c12Env{t: t, app: app, base: base, w: w, opsRun: map[string]bool{}}
	e.gov = sdk.MustAccAddressFromBech32(app.MarkerKeeper.GetAuthority())
	for _, n := range []int{c12Caller, c12Manager, c12Third, c12Minter, c12Deleter, c12Recv, c12Denied, c12Grantee} {
		ensureAccount(app, base, addrN(n))
	}

	c12Access(e, r, w)
	c12Lifecycles(e, r, w)
	c12Transfers(e, r, w)
	c12Sequences(e, r, w)
	c12Withdraws(e, r, w)
	c12TimedSequences(e, r, w)
	c12Histories(e, r, w)
	c12Misc(e, r, w)
	c12FloatingSupply(e, r, w)
	c12Ibc(e, r, w) // last: it builds a second marker keeper (one more send restriction on the bank keeper)
	w.Flush(t)
}

// ---------------------------------------------------------------------------------------------
// Part A
// ---------------------------------------------------------------------------------------------

func c12Access(e *c12Env, r *rand.Rand, w *CaseWriter) {
	app, base := e.app, e.base
	type desc map[string]any
	markers := map[c12Key]string{}
	for vi, v := range c12Variants {
		for _, restricted := range []bool{false, true} {
			for _, govctl := range []bool{false, true} {
				for _, zero := range []bool{false, true} {
					if v.route != nil && !govctl {
						continue // the governance route needs governance control: one marker serves both keys
					}
					e.n++
					denom := fmt.Sprintf("xacc%03d", e.n)
					supply := int64(1000)
					if zero {
						supply = 0
					}
					e.makeMarker(base, denom, v, restricted, false, govctl, supply)
					markers[c12Key{vi, restricted, govctl, zero}] = denom
					if v.route != nil {
						markers[c12Key{vi, restricted, false, zero}] = denom
					}
				}
			}
		}
	}
	govAware := map[string]bool{"OSetAccountData": true, "OUpdateDenyList": true, "OUpdateReqAttrs": true, "OAddNav": true}
	for k := range c12GovOnly {
		govAware[k] = true
	}
	accessOps := map[string]bool{"OAddAccess": true, "ODeleteAccess": true}
	thorough := tier() == "thorough"

	for _, op := range c12Ops {
		for vi, v := range c12Variants {
			for _, restricted := range []bool{false, true} {
				masks := c12Masks(r, restricted)
				callers := []string{"plain"}
				if v.hasManager {
					callers = append(callers, "manager")
				} else {
					callers = append(callers, "former-manager")
				}
				if govAware[op] || thorough {
					callers = append(callers, "gov")
				}
				for _, ck := range callers {
					govctls := []bool{r.Intn(2) == 0}
					if ck == "gov" {
						govctls = []bool{false, true}
					}
					if v.route != nil {
						govctls = []bool{true}
					}
					for _, govctl := range govctls {
						modes := []string{"normal"}
						if accessOps[op] && ck == "plain" {
							modes = append(modes, "zero-supply")
							if v.status == markertypes.StatusActive {
								modes = append(modes, "holds-all")
							}
						}
						for _, mode := range modes {
							for _, mask := range masks {
								if (mode != "normal" || ck == "gov") && !thorough && mask != 0 && mask&(mask-1) != 0 && r.Intn(3) != 0 {
									continue // quick tier: thin out the multi-right masks of the side dimensions
								}
								if c12GovOnly[op] && !thorough && mask != 0 && mask != masks[len(masks)-1] && r.Intn(8) != 0 {
									continue // governance-only endpoints read no right: empty, full and a few other masks
								}
								denom := markers[c12Key{vi, restricted, govctl, mode == "zero-supply"}]
								ctx, _ := base.CacheContext()
								var caller sdk.AccAddress
								switch ck {
								case "plain":
									caller = addrN(c12Caller)
								case "manager", "former-manager":
									caller = addrN(c12Manager)
								case "gov":
									caller = e.gov
								}
								e.setRights(ctx, denom, caller, mask)
								m, _ := app.MarkerKeeper.GetMarkerByDenom(ctx, denom)
								if op == "OWithdraw" || op == "OWithdrawEscrow" {
									// something other than the marker's own coin sits in the marker account
									e.fundBypass(ctx, m.GetAddress(), sdk.NewCoins(sdk.NewInt64Coin("xothercoin", 50)))
								}
								if op == "OSupplyDecrease" {
									// only where there is something to burn (otherwise the request fails for everybody)
									if app.BankKeeper.GetBalance(ctx, m.GetAddress(), denom).Amount.LT(sdkmath.NewInt(5)) || m.GetSupply().Amount.LT(sdkmath.NewInt(5)) {
										w.Count("access_skipped_nothing_to_burn")
										continue
									}
								}
								if mode == "holds-all" {
									e.must(app.BankKeeper.SendCoins(markertypes.WithBypass(ctx), m.GetAddress(), caller, sdk.NewCoins(m.GetSupply())), "hold all")
								}
								// what the decision reads, taken from the state (not from the code under test)
								isMgr := m.GetManager().Equals(caller)
								bal := app.BankKeeper.GetBalance(ctx, caller, denom).Amount
								allSupply := m.GetSupply().Amount.Equal(bal)
								supplyZero := m.GetSupply().Amount.IsZero()
								before := m.GetStatus()

								var msg sdk.Msg
								if c12GovOnly[op] {
									msg = e.govOpMsg(ctx, op, denom, caller)
								} else {
									msg = e.opMsg(op, denom, caller)
								}
								cc, write := ctx.CacheContext()
								err := e.handle(cc, msg)
								if err == nil {
									write()
								} else if os.Getenv("C12_DEBUG") == op {
									fmt.Printf("DEBUG %s %s mask=%d caller=%s: %v\n", op, v.name, mask, ck, err)
								}
								after := before
								if m2, err2 := app.MarkerKeeper.GetMarkerByDenom(ctx, denom); err2 == nil {
									after = m2.GetStatus()
								}
								mt := "TCoin"
								if restricted {
									mt = "TRestricted"
								}
								cfg := fmt.Sprintf("{| c_status := %s; c_type := %s; c_rights := %d%%N; c_manager := %s; c_gov := %s; c_govctl := %s; c_allsupply := %s; c_supply_zero := %s; c_activated := %s |}",
									c12StatusCoq[before], mt, mask, coqBool(isMgr), coqBool(ck == "gov"), coqBool(m.HasGovernanceEnabled()), coqBool(allSupply), coqBool(supplyZero), coqBool(v.activated))
								w.Add(fmt.Sprintf("CAccess %s %s %s %s", cfg, op, coqBool(err == nil), c12StatusCoq[after]),
									desc{"part": "access", "op": op, "marker": v.name, "type": mt, "rights": c12RightList(mask), "caller": ck,
										"gov_control": m.HasGovernanceEnabled(), "mode": mode, "caller_is_stored_manager": isMgr, "marker_was_activated": v.activated, "holds_all_supply": allSupply, "supply_zero": supplyZero,
										"ok": err == nil, "status_after": after.String()})
								w.Count("access_cases")
								w.Count("access_" + op)
								e.opsRun[op] = true
								if op == "OGrantAllowance" && err == nil {
									// the allowance is the MARKER's: granter = marker account, not the administrator
									fromMarker, _ := app.FeeGrantKeeper.GetAllowance(ctx, m.GetAddress(), addrN(c12Grantee))
									fromCaller, _ := app.FeeGrantKeeper.GetAllowance(ctx, caller, addrN(c12Grantee))
									w.Add(fmt.Sprintf("CAllowance %s %s", coqBool(fromMarker != nil), coqBool(fromCaller != nil)),
										desc{"part": "allowance", "marker": v.name, "allowance_of_marker_account": fromMarker != nil, "allowance_of_administrator": fromCaller != nil})
									w.Count("allowance_cases")
								}
								if err == nil {
									w.Count("access_accepted")
									w.Nontrivial(fmt.Sprintf("a/%s/%d/%v/%d/%s/%s/%v", op, vi, restricted, mask, ck, mode, govctl))
								}
							}
						}
					}
				}
			}
		}
	}
}

// ---------------------------------------------------------------------------------------------
// Part D: random lifecycles through the message router (incl. governance ChangeStatus), then every
// endpoint probed as the (former) manager, who holds no access grant unless a mask says so.
// ---------------------------------------------------------------------------------------------

func c12Lifecycles(e *c12Env, r *rand.Rand, w *CaseWriter) {
	app, base := e.app, e.base
	type desc map[string]any
	allOps := []string{"finalize", "activate", "cancel", "delete", "gov:proposed", "gov:finalized", "gov:active", "gov:cancelled", "gov:destroyed"}
	n := scale(250, 4000)
	for i := 0; i < n; i++ {
		ctx, _ := base.CacheContext()
		restricted := r.Intn(2) == 0
		initial := markertypes.StatusProposed
		if r.Intn(5) == 0 {
			initial = markertypes.StatusFinalized
		}
		var route []string
		for k := 1 + r.Intn(5); k > 0; k-- {
			op := allOps[r.Intn(len(allOps))]
			if r.Intn(3) == 0 {
				op = "gov:active"
			}
			route = append(route, op)
		}
		denom := "xlife"
		activated := e.driveLife(ctx, denom, restricted, initial, 1000, route)
		caller := addrN(c12Manager)
		for _, op := range c12Ops {
			if c12GovOnly[op] {
				continue // probed as the (former) manager: the governance-only endpoints are in the matrix above
			}
			if r.Intn(2) == 0 && op != "OSetMetadata" && op != "ODelete" {
				continue
			}
			mask := 0
			if r.Intn(4) == 0 {
				mask = r.Intn(64)
			}
			pc, _ := ctx.CacheContext()
			e.setRights(pc, denom, caller, mask)
			m, _ := app.MarkerKeeper.GetMarkerByDenom(pc, denom)
			if op == "OWithdraw" {
				e.fundBypass(pc, m.GetAddress(), sdk.NewCoins(sdk.NewInt64Coin("xothercoin", 50)))
			}
			isMgr := m.GetManager().Equals(caller)
			bal := app.BankKeeper.GetBalance(pc, caller, denom).Amount
			before := m.GetStatus()
			err := e.handle(pc, e.opMsg(op, denom, caller))
			after := before
			if m2, err2 := app.MarkerKeeper.GetMarkerByDenom(pc, denom); err2 == nil && err == nil {
				after = m2.GetStatus()
			}
			mt := "TCoin"
			if restricted {
				mt = "TRestricted"
			}
			cfg := fmt.Sprintf("{| c_status := %s; c_type := %s; c_rights := %d%%N; c_manager := %s; c_gov := false; c_govctl := %s; c_allsupply := %s; c_supply_zero := %s; c_activated := %s |}",
				c12StatusCoq[before], mt, mask, coqBool(isMgr), coqBool(m.HasGovernanceEnabled()), coqBool(m.GetSupply().Amount.Equal(bal)), coqBool(m.GetSupply().Amount.IsZero()), coqBool(activated))
			w.Add(fmt.Sprintf("CAccess %s %s %s %s", cfg, op, coqBool(err == nil), c12StatusCoq[after]),
				desc{"part": "access", "op": op, "marker": "lifecycle " + strings.Join(route, ","), "type": mt, "rights": c12RightList(mask), "caller": "manager-of-creation",
					"caller_is_stored_manager": isMgr, "marker_was_activated": activated, "status": before.String(), "ok": err == nil, "status_after": after.String()})
			w.Count("access_cases")
			w.Count("access_after_lifecycle")
			if err == nil {
				w.Count("access_accepted")
				w.Nontrivial(fmt.Sprintf("d/%s/%s/%d/%s", op, strings.Join(route, ","), mask, initial))
			}
		}
	}
}

func c12RightList(mask int) []string {
	out := []string{}
	for i := 0; i < 8; i++ {
		if mask&(1<<i) != 0 {
			out = append(out, strings.TrimPrefix(c12RightNames[i], "R"))
		}
	}
	return out
}


// ---------------------------------------------------------------------------------------------
// Parts B and C: transfers
// ---------------------------------------------------------------------------------------------

const (
	c12Admin    = 200
	c12Signed   = 201
	c12Fresh    = 202
	c12Nobody   = 203
	c12Contract = 204
	c12ExecG    = 210
	c12Granter  = 211
)

type c12Src struct {
	name string
	addr sdk.AccAddress
	modc bool // module account or smart-contract account (ground truth by construction)
}

type c12Dst struct {
	name string
	addr sdk.AccAddress
	coq  func(adminRights int) string
	mark string // denom of the destination marker, if it is one
}

type c12TEnv struct {
	*c12Env
	denoms  []string // restricted, active: index+1 is the interned id
	forced  map[string]bool
	srcs    []c12Src
	dsts    []c12Dst
	ids     map[string]int // address -> interned id
	recvs   []sdk.AccAddress
	typeURL string
}

func (te *c12TEnv) id(a string) int {
	if v, ok := te.ids[a]; ok {
		return v
	}
	v := len(te.ids) + 1
	te.ids[a] = v
	return v
}

func (te *c12TEnv) denomID(d string) int {
	for i, x := range te.denoms {
		if x == d {
			return i + 1
		}
	}
	return 90
}

type c12Grant struct {
	limit sdk.Coins
	allow []string
}

func (te *c12TEnv) grantCoq(g *c12Grant) string {
	if g == nil {
		return "None"
	}
	var cs, al []string
	for _, c := range g.limit {
		cs = append(cs, fmt.Sprintf("(%d%%N, %s)", te.denomID(c.Denom), zInt(c.Amount)))
	}
	for _, a := range g.allow {
		al = append(al, fmt.Sprintf("%d%%N", te.id(a)))
	}
	return "(Some {| g_limit := " + coqList(cs) + "; g_allow := " + coqList(al) + " |})"
}

// storedGrant asks the authz Grants query what is stored for (granter, grantee).
func (te *c12TEnv) storedGrant(ctx sdk.Context, granter, grantee sdk.AccAddress) *c12Grant {
	resp, err := te.app.AuthzKeeper.Grants(ctx, &authz.QueryGrantsRequest{Granter: granter.String(), Grantee: grantee.String(), MsgTypeUrl: te.typeURL})
	if err != nil || len(resp.Grants) == 0 {
		return nil
	}
	var a authz.Authorization
	if err := te.app.InterfaceRegistry().UnpackAny(resp.Grants[0].Authorization, &a); err != nil {
		te.t.Fatalf("unpack grant: %v", err)
	}
	mta, ok := a.(*markertypes.MarkerTransferAuthorization)
	if !ok {
		te.t.Fatalf("unexpected authorization %T", a)
	}
	return &c12Grant{limit: mta.TransferLimit, allow: mta.AllowList}
}

func (te *c12TEnv) saveGrant(ctx sdk.Context, granter, grantee sdk.AccAddress, g *c12Grant) {
	auth := &markertypes.MarkerTransferAuthorization{TransferLimit: g.limit, AllowList: g.allow}
	te.must(auth.ValidateBasic(), "grant validate")
	te.must(te.app.AuthzKeeper.SaveGrant(ctx, grantee, granter, auth, nil), "save grant")
}

func (te *c12TEnv) acctCoq(ctx sdk.Context, a sdk.AccAddress) string {
	acc := te.app.AccountKeeper.GetAccount(ctx, a)
	exists := acc != nil
	seq := uint64(0)
	isMarker, isMarket := false, false
	if exists {
		seq = acc.GetSequence()
		_, isMarker = acc.(markertypes.MarkerAccountI)
		_, isMarket = acc.(*exchange.MarketAccount)
	}
	_, gerr := te.app.GroupKeeper.GroupPolicyInfo(ctx, &group.QueryGroupPolicyInfoRequest{Address: a.String()})
	return fmt.Sprintf("{| a_group := %s; a_exists := %s; a_seq := %d%%N; a_marker := %s; a_market := %s |}",
		coqBool(gerr == nil), coqBool(exists), seq, coqBool(isMarker), coqBool(isMarket))
}

func c12SetupTransfers(e *c12Env) *c12TEnv {
	app, base := e.app, e.base
	te := &c12TEnv{c12Env: e, forced: map[string]bool{}, ids: map[string]int{}}
	te.typeURL = markertypes.MarkerTransferAuthorization{}.MsgTypeURL()
	active := c12Variants[2]
	for _, d := range []struct {
		denom  string
		forced bool
	}{{"xrca", false}, {"xrcb", true}, {"xrcc", false}} {
		e.makeMarker(base, d.denom, active, true, d.forced, true, 1000000)
		te.denoms = append(te.denoms, d.denom)
		te.forced[d.denom] = d.forced
	}
	// other markers: destinations (a second restricted marker in EVERY status, coin markers) and a holder
	e.makeMarker(base, "xdestr", active, true, false, true, 1000)
	e.makeMarker(base, "xdestc", active, false, false, true, 1000)
	e.makeMarker(base, "xdrp", c12Variants[0], true, false, true, 1000) // proposed
	e.makeMarker(base, "xdrf", c12Variants[1], true, false, true, 1000) // finalized
	e.makeMarker(base, "xdrc", c12Variants[4], true, false, true, 1000) // cancelled after activation
	e.makeMarker(base, "xdrx", c12Variants[3], true, false, true, 1000) // cancelled before activation
	e.makeMarker(base, "xdrd", c12Variants[6], true, false, true, 1000) // destroyed (account not yet removed)
	e.makeMarker(base, "xdcp", c12Variants[0], false, false, true, 1000) // proposed coin marker
	e.makeMarker(base, "xholder", active, false, false, true, 1000)
	e.makeMarker(base, "xrcp", c12Variants[0], true, true, true, 1000)  // proposed restricted
	e.makeMarker(base, "xrcf", c12Variants[1], true, true, true, 1000)  // finalized restricted
	e.makeMarker(base, "xcoin", active, false, false, true, 1000)       // active, not restricted

	admin := addrN(c12Admin)
	for _, n := range []int{c12Admin, c12Signed, c12Fresh, c12Contract, c12ExecG, c12Granter} {
		ensureAccount(app, base, addrN(n))
	}
	for _, n := range []int{c12Admin, c12Signed, c12ExecG, c12Granter} {
		acc := app.AccountKeeper.GetAccount(base, addrN(n))
		e.must(acc.SetSequence(uint64(3+n%5)), "sequence")
		app.AccountKeeper.SetAccount(base, acc)
	}
	modAcc := app.AccountKeeper.GetModuleAccount(base, "distribution")
	marketID, err := app.ExchangeKeeper.CreateMarket(base, exchange.Market{MarketDetails: exchange.MarketDetails{Name: "c12"}})
	e.must(err, "create market")
	te.srcs = []c12Src{
		{"self", admin, false},
		{"signed-account", addrN(c12Signed), false},
		{"never-signed-account", addrN(c12Fresh), false},
		{"contract-account", addrN(c12Contract), true},
		{"module-account", modAcc.GetAddress(), true},
		{"marker-account", markertypes.MustGetMarkerAddress("xholder"), false},
		{"own-marker-account", nil, false}, // the account of the marker of the coin itself (resolved per case)
		{"market-account", exchange.GetMarketAddress(marketID), false},
		{"no-account", addrN(c12Nobody), false},
	}
	// a group policy account
	gm := &group.MsgCreateGroupWithPolicy{Admin: addrN(c12Signed).String(), Members: []group.MemberRequest{{Address: addrN(c12Signed).String(), Weight: "1"}}}
	if err := gm.SetDecisionPolicy(group.NewThresholdDecisionPolicy("1", time.Hour, 0)); err == nil {
		if res, err := app.GroupKeeper.CreateGroupWithPolicy(base, gm); err == nil {
			te.srcs = append(te.srcs, c12Src{"group-policy-account", sdk.MustAccAddressFromBech32(res.GroupPolicyAddress), false})
		} else {
			e.t.Logf("group policy not created: %v", err)
		}
	}
	for _, s := range te.srcs {
		if s.name == "no-account" || s.addr == nil {
			continue
		}
		for _, d := range append(append([]string{}, te.denoms...), "xrcp", "xrcf", "xcoin") {
			e.fundBypass(base, s.addr, sdk.NewCoins(sdk.NewInt64Coin(d, 500)))
		}
	}
	if app.AccountKeeper.GetAccount(base, addrN(c12Nobody)) != nil {
		e.t.Fatalf("no-account exists")
	}
	// destinations
	var blocked sdk.AccAddress
	for _, name := range []string{"mint", "distribution", "bonded_tokens_pool", "gov", "marker"} {
		a := authtypes.NewModuleAddress(name)
		if app.BankKeeper.BlockedAddr(a) {
			blocked = a
			break
		}
	}
	plain := addrN(300)
	ensureAccount(app, base, plain)
	te.dsts = []c12Dst{{"plain", plain, func(int) string { return "DPlain" }, ""}}
	for _, d := range []struct {
		name, denom, status string
		restricted         bool
	}{
		{"restricted-marker-active", "xdestr", "SActive", true}, {"coin-marker-active", "xdestc", "SActive", false},
		{"restricted-marker-proposed", "xdrp", "SProposed", true}, {"restricted-marker-finalized", "xdrf", "SFinalized", true},
		{"restricted-marker-cancelled", "xdrc", "SCancelled", true}, {"restricted-marker-cancelled-never-active", "xdrx", "SCancelled", true},
		{"restricted-marker-destroyed", "xdrd", "SDestroyed", true}, {"coin-marker-proposed", "xdcp", "SProposed", false},
	} {
		d := d
		dm, derr := app.MarkerKeeper.GetMarkerByDenom(base, d.denom)
		e.must(derr, "get "+d.denom)
		if c12StatusCoq[dm.GetStatus()] != d.status {
			e.t.Fatalf("destination marker %s: status %s", d.denom, dm.GetStatus())
		}
		te.dsts = append(te.dsts, c12Dst{d.name, markertypes.MustGetMarkerAddress(d.denom),
			func(r int) string { return fmt.Sprintf("(DMarker %s %s %d%%N)", coqBool(d.restricted), d.status, r) }, d.denom})
	}
	if blocked != nil {
		te.dsts = append(te.dsts, c12Dst{"blocked-module-account", blocked, func(int) string { return "DBlocked" }, ""})
	}
	for i := 0; i < 5; i++ {
		a := addrN(310 + i)
		ensureAccount(app, base, a)
		te.recvs = append(te.recvs, a)
	}
	return te
}

func c12TransferMasks(r *rand.Rand) int {
	// the four Transfer/ForceTransfer combinations are equally likely; the other bits random
	m := r.Intn(64)
	switch r.Intn(8) {
	case 0:
		m = 0
	case 1:
		m = 63
	}
	return m | (r.Intn(4) << 6)
}

func c12Transfers(e *c12Env, r *rand.Rand, w *CaseWriter) {
	te := c12SetupTransfers(e)
	e.te = te
	app, base := e.app, e.base
	type desc map[string]any
	admin := addrN(c12Admin)
	n := scale(2500, 40000)
	for i := 0; i < n; i++ {
		ctx, _ := base.CacheContext()
		denom := te.denoms[r.Intn(2)] // xrca (no forced transfer) or xrcb (forced transfer allowed)
		status, mtype := "SActive", "TRestricted"
		switch r.Intn(25) {
		case 0:
			denom, status = "xrcp", "SProposed"
		case 1:
			denom, status = "xrcf", "SFinalized"
		case 2:
			denom, mtype = "xcoin", "TCoin"
		}
		mask := c12TransferMasks(r)
		if mtype == "TCoin" {
			mask &= 63 // SetMarker validates: Transfer / ForceTransfer cannot be stored on a coin marker
		}
		e.setRights(ctx, denom, admin, mask)
		m, _ := app.MarkerKeeper.GetMarkerByDenom(ctx, denom)
		src := te.srcs[r.Intn(len(te.srcs))]
		if r.Intn(6) == 0 {
			src = te.srcs[0]
		}
		if src.addr == nil {
			src.addr = m.GetAddress() // the marker's own account holds (part of) its supply
		}
		dst := te.dsts[0]
		if r.Intn(2) == 0 {
			dst = te.dsts[r.Intn(len(te.dsts))]
		}
		dstRights := 0
		if dst.mark != "" {
			dstRights = r.Intn(256)
			if r.Intn(2) == 0 {
				dstRights |= 4 // Deposit
			}
			if dst.mark == "xdestc" || dst.mark == "xdcp" {
				dstRights &= 63
			}
			e.setRights(ctx, dst.mark, admin, dstRights)
		}
		amt := int64(1 + r.Intn(20))
		switch r.Intn(20) {
		case 0:
			amt = 0
		case 1:
			amt = 501 + int64(r.Intn(100)) // more than the source holds
		case 2:
			amt = 500
		case 3:
			amt = -1 - int64(r.Intn(5))
		}
		// grant from the source to the admin
		var g *c12Grant
		gkind := "none"
		if src.name != "self" || r.Intn(4) == 0 {
			other := te.denoms[r.Intn(len(te.denoms))]
			if other == denom {
				other = te.denoms[(te.denomID(denom))%len(te.denoms)]
			}
			pos := amt
			if pos <= 0 {
				pos = 1
			}
			switch r.Intn(9) {
			case 0, 1:
				gkind, g = "enough", &c12Grant{limit: sdk.NewCoins(sdk.NewInt64Coin(denom, pos+int64(1+r.Intn(50))))}
			case 2:
				gkind, g = "enough-two-denoms", &c12Grant{limit: sdk.NewCoins(sdk.NewInt64Coin(denom, pos+int64(1+r.Intn(50))), sdk.NewInt64Coin(other, 7))}
			case 3:
				gkind, g = "exact", &c12Grant{limit: sdk.NewCoins(sdk.NewInt64Coin(denom, pos))}
			case 4:
				if pos > 1 {
					gkind, g = "too-small", &c12Grant{limit: sdk.NewCoins(sdk.NewInt64Coin(denom, pos-1))}
				}
			case 5:
				gkind, g = "other-denom-only", &c12Grant{limit: sdk.NewCoins(sdk.NewInt64Coin(other, 100))}
			case 6:
				gkind, g = "allow-list-has-recipient", &c12Grant{limit: sdk.NewCoins(sdk.NewInt64Coin(denom, pos+10)), allow: []string{te.recvs[0].String(), dst.addr.String()}}
			case 7:
				gkind, g = "allow-list-misses-recipient", &c12Grant{limit: sdk.NewCoins(sdk.NewInt64Coin(denom, pos+10)), allow: []string{te.recvs[0].String(), te.recvs[1].String()}}
			}
			if g != nil {
				te.saveGrant(ctx, src.addr, admin, g)
			}
		}
		pre := te.storedGrant(ctx, src.addr, admin)
		fromBal := app.BankKeeper.SpendableCoins(ctx, src.addr).AmountOf(denom)
		toBal := app.BankKeeper.GetBalance(ctx, dst.addr, denom).Amount
		fromAcct := te.acctCoq(ctx, src.addr)

		msg := &markertypes.MsgTransferRequest{Amount: sdk.Coin{Denom: denom, Amount: sdkmath.NewInt(amt)}, Administrator: admin.String(), FromAddress: src.addr.String(), ToAddress: dst.addr.String()}
		cc, write := ctx.CacheContext()
		err := e.handle(cc, msg)
		if err == nil {
			write()
		}
		post := te.storedGrant(ctx, src.addr, admin)
		dFrom := fromBal.Sub(app.BankKeeper.SpendableCoins(ctx, src.addr).AmountOf(denom))
		dTo := app.BankKeeper.GetBalance(ctx, dst.addr, denom).Amount.Sub(toBal)

		x := fmt.Sprintf("{| x_status := %s; x_type := %s; x_rights := %d%%N; x_forced := %s; x_self := %s; x_from := %s; x_dest := %s; x_grant := %s; x_msg := {| m_to := %d%%N; m_denom := %d%%N; m_amt := %s |}; x_frombal := %s |}",
			status, mtype, mask, coqBool(m.AllowsForcedTransfer()), coqBool(src.addr.Equals(admin)), fromAcct, dst.coq(dstRights), te.grantCoq(pre),
			te.id(dst.addr.String()), te.denomID(denom), zI64(amt), zInt(fromBal))
		w.Add(fmt.Sprintf("CTransfer %s %s %s %s %s %s", x, coqBool(src.modc), coqBool(err == nil), zInt(dTo), zInt(dFrom), te.grantCoq(post)),
			desc{"part": "transfer", "denom": denom, "marker_status": status, "marker_type": mtype, "admin_rights": c12RightList(mask), "forced_transfer_allowed": m.AllowsForcedTransfer(),
				"source": src.name, "destination": dst.name, "admin_rights_on_destination": c12RightList(dstRights), "grant": gkind, "amount": amt, "source_balance": fromBal.String(),
				"ok": err == nil, "moved": dTo.String()})
		w.Count("transfer_cases")
		w.Count("transfer_src_" + src.name)
		if err == nil {
			w.Count("transfer_accepted")
			w.Nontrivial(fmt.Sprintf("t/%s/%d/%s/%s/%s/%d", denom, mask, src.name, dst.name, gkind, amt))
			if !src.addr.Equals(admin) {
				if m.AllowsForcedTransfer() && mask&128 != 0 {
					w.Count("transfer_accepted_forced")
				} else {
					w.Count("transfer_accepted_by_grant")
				}
			}
		}
	}
}

// ---------------------------------------------------------------------------------------------
// Part C: sequences of partial uses of one grant
// ---------------------------------------------------------------------------------------------

func c12Sequences(e *c12Env, r *rand.Rand, w *CaseWriter) {
	te := e.te
	app, base := e.app, e.base
	type desc map[string]any
	admin := addrN(c12Admin)
	n := scale(500, 8000)
	maxLen := scale(6, 10)
	for i := 0; i < n; i++ {
		ctx, _ := base.CacheContext()
		viaExec := r.Intn(2) == 0
		// the admin holds Transfer only, so every third-party transfer needs the grant
		for _, d := range te.denoms {
			e.setRights(ctx, d, admin, 64)
		}
		// keeper path: granter = the source account, grantee = the admin (marker keeper's authzHandler)
		// exec path:   granter = the admin (signer of the inner message), grantee executes MsgExec
		granter, grantee := addrN(c12Granter), admin
		if viaExec {
			granter, grantee = admin, addrN(c12ExecG)
		}
		// balances of the granter
		bal := sdk.Coins{}
		balCoq := []string{}
		for _, d := range te.denoms {
			amt := int64(500)
			if r.Intn(4) == 0 {
				amt = int64(r.Intn(12))
			}
			cur := app.BankKeeper.GetBalance(ctx, granter, d).Amount
			if cur.IsPositive() {
				e.must(app.BankKeeper.SendCoins(markertypes.WithBypass(ctx), granter, markertypes.MustGetMarkerAddress(d), sdk.NewCoins(sdk.NewCoin(d, cur))), "reset balance")
			}
			if amt > 0 {
				e.fundBypass(ctx, granter, sdk.NewCoins(sdk.NewInt64Coin(d, amt)))
			}
			bal = bal.Add(sdk.NewInt64Coin(d, amt))
			balCoq = append(balCoq, fmt.Sprintf("(%d%%N, %d)", te.denomID(d), amt))
		}
		// the grant
		g0 := &c12Grant{}
		for _, d := range te.denoms {
			if r.Intn(3) != 0 {
				g0.limit = g0.limit.Add(sdk.NewInt64Coin(d, int64(1+r.Intn(30))))
			}
		}
		if g0.limit.IsZero() {
			g0.limit = sdk.NewCoins(sdk.NewInt64Coin(te.denoms[0], int64(1+r.Intn(30))))
		}
		nAllow := 0
		if r.Intn(4) != 0 {
			nAllow = 1 + r.Intn(3)
		}
		perm := r.Perm(len(te.recvs))
		for _, k := range perm[:nAllow] {
			g0.allow = append(g0.allow, te.recvs[k].String())
		}
		te.saveGrant(ctx, granter, grantee, g0)
		g0Coq := strings.TrimSuffix(strings.TrimPrefix(te.grantCoq(g0), "(Some "), ")")

		steps := 1 + r.Intn(maxLen)
		var obs []string
		var sdesc []map[string]any
		accepted, offList, offListAfterUse := 0, 0, false
		for s := 0; s < steps; s++ {
			cur := te.storedGrant(ctx, granter, grantee)
			// recipient: on the list most of the time, otherwise a non-listed one
			to := te.recvs[r.Intn(len(te.recvs))]
			if nAllow > 0 && r.Intn(5) < 3 {
				to = sdk.MustAccAddressFromBech32(g0.allow[r.Intn(len(g0.allow))])
			}
			denom := te.denoms[r.Intn(len(te.denoms))]
			if cur != nil && len(cur.limit) > 0 && r.Intn(5) != 0 {
				denom = cur.limit[r.Intn(len(cur.limit))].Denom
			}
			left := int64(0)
			if cur != nil {
				left = cur.limit.AmountOf(denom).Int64()
			}
			var amt int64
			switch k := r.Intn(20); {
			case k < 11 && left > 1: // partial use
				amt = 1 + r.Int63n(left-1)
				if r.Intn(2) == 0 && left > 3 {
					amt = 1 + r.Int63n(left/3)
				}
			case k < 14: // exactly what is left
				amt = left
			case k < 17: // too much
				amt = left + 1 + int64(r.Intn(3))
			case k == 17:
				amt = 0
			case k == 18:
				amt = -1
			default:
				amt = 1
			}
			onList := nAllow == 0
			for _, a := range g0.allow {
				if a == to.String() {
					onList = true
				}
			}
			fromB := app.BankKeeper.GetBalance(ctx, granter, denom).Amount
			toB := app.BankKeeper.GetBalance(ctx, to, denom).Amount
			inner := &markertypes.MsgTransferRequest{Amount: sdk.Coin{Denom: denom, Amount: sdkmath.NewInt(amt)}, Administrator: admin.String(), FromAddress: granter.String(), ToAddress: to.String()}
			var msg sdk.Msg = inner
			if viaExec {
				ex := authz.NewMsgExec(grantee, []sdk.Msg{inner})
				msg = &ex
			}
			cc, write := ctx.CacheContext()
			err := e.handle(cc, msg)
			if err == nil {
				write()
				accepted++
			}
			post := te.storedGrant(ctx, granter, grantee)
			dFrom := fromB.Sub(app.BankKeeper.GetBalance(ctx, granter, denom).Amount)
			dTo := app.BankKeeper.GetBalance(ctx, to, denom).Amount.Sub(toB)
			if !onList {
				offList++
				if accepted > 0 {
					offListAfterUse = true
				}
			}
			obs = append(obs, fmt.Sprintf("{| so_msg := {| m_to := %d%%N; m_denom := %d%%N; m_amt := %s |}; so_ok := %s; so_to_delta := %s; so_from_delta := %s; so_grant := %s |}",
				te.id(to.String()), te.denomID(denom), zI64(amt), coqBool(err == nil), zInt(dTo), zInt(dFrom), te.grantCoq(post)))
			sdesc = append(sdesc, map[string]any{"to": te.id(to.String()), "on_original_allow_list": onList, "denom": denom, "amount": amt, "ok": err == nil, "moved": dTo.String(),
				"stored_limit_after": c12LimitStr(post), "stored_allow_list_len_after": c12AllowLen(post)})
			w.Count("sequence_uses")
			if err == nil {
				w.Count("sequence_uses_accepted")
			}
		}
		w.Add(fmt.Sprintf("CSeq %s %s %s %s", coqBool(viaExec), g0Coq, coqList(balCoq), coqList(obs)),
			desc{"part": "sequence", "via_msg_exec": viaExec, "limit": g0.limit.String(), "allow_list": c12IDs(te, g0.allow), "granter_balance": bal.String(), "uses": sdesc})
		w.Count("sequence_cases")
		if viaExec {
			w.Count("sequence_via_msg_exec")
		}
		if nAllow > 0 {
			w.Count("sequence_with_allow_list")
		}
		if offListAfterUse {
			w.Count("sequence_offlist_attempt_after_a_partial_use")
		}
		if accepted >= 2 {
			w.Nontrivial("s/" + strings.Join(obs, ";"))
		}
	}
}

func c12LimitStr(g *c12Grant) string {
	if g == nil {
		return "(no grant)"
	}
	return g.limit.String()
}
func c12AllowLen(g *c12Grant) int {
	if g == nil {
		return -1
	}
	return len(g.allow)
}
func c12IDs(te *c12TEnv, l []string) []int {
	out := []int{}
	for _, a := range l {
		out = append(out, te.id(a))
	}
	return out
}

var _ = codectypes.NewAnyWithValue
