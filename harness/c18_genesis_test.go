//go:build c18

package harness

import (
	"bytes"
	"context"
	"crypto/sha256"
	"encoding/hex"
	"encoding/json"
	"fmt"
	"math/rand"
	"os"
	"path/filepath"
	"sort"
	"strings"
	"testing"
	"time"

	abci "github.com/cometbft/cometbft/abci/types"

	sdkmath "cosmossdk.io/math"

	"github.com/cosmos/cosmos-sdk/codec"
	sdk "github.com/cosmos/cosmos-sdk/types"
	"github.com/cosmos/cosmos-sdk/types/query"
	authtypes "github.com/cosmos/cosmos-sdk/x/auth/types"
	banktypes "github.com/cosmos/cosmos-sdk/x/bank/types"
	"github.com/cosmos/gogoproto/proto"

	attrtypes "github.com/provenance-io/provenance/x/attribute/types"
	"github.com/provenance-io/provenance/x/exchange"
	"github.com/provenance-io/provenance/x/hold"
	markertypes "github.com/provenance-io/provenance/x/marker/types"
	mdtypes "github.com/provenance-io/provenance/x/metadata/types"
	msgfeestypes "github.com/provenance-io/provenance/x/msgfees/types"
	nametypes "github.com/provenance-io/provenance/x/name/types"
	"github.com/provenance-io/provenance/x/quarantine"
	"github.com/provenance-io/provenance/x/sanction"
	triggertypes "github.com/provenance-io/provenance/x/trigger/types"
)

// the custom modules whose exported genesis is compared as canonical JSON
var c18Modules = []string{"exchange", "hold", "marker", "metadata", "name", "attribute", "quarantine", "sanction", "trigger", "msgfees"}

// c18Mods is the typed genesis of the modules that have a Coq model.
type c18Mods struct {
	Quar quarantine.GenesisState
	Sanc sanction.GenesisState
	Name nametypes.GenesisState
	Attr attrtypes.GenesisState
	Fees msgfeestypes.GenesisState
	Hold hold.GenesisState
	Trig triggertypes.GenesisState
}

func c18AppState(t *testing.T, g c18Genesis) map[string]json.RawMessage {
	var m map[string]json.RawMessage
	if err := json.Unmarshal(g.AppState, &m); err != nil {
		t.Fatalf("app state: %v", err)
	}
	return m
}

func c18Canon(raw json.RawMessage) string {
	var v any
	if err := json.Unmarshal(raw, &v); err != nil {
		return "unparsable:" + string(raw)
	}
	b, _ := json.Marshal(v) // maps are written with sorted keys
	return string(b)
}

// c18ZeroNavHeights replaces every "updated_block_height" in a JSON value by "0".
func c18ZeroNavHeights(v any) any {
	switch x := v.(type) {
	case map[string]any:
		for k, e := range x {
			if k == "updated_block_height" {
				x[k] = "0"
			} else {
				x[k] = c18ZeroNavHeights(e)
			}
		}
		return x
	case []any:
		for i := range x {
			x[i] = c18ZeroNavHeights(x[i])
		}
		return x
	}
	return v
}

// c18JSONDiff names the top-level fields on which two module genesis values differ and says
// whether they are equal once net-asset-value heights are ignored.
func c18JSONDiff(a, b json.RawMessage) (keys []string, equalIgnoringNavHeight bool) {
	var ma, mb map[string]any
	if json.Unmarshal(a, &ma) != nil || json.Unmarshal(b, &mb) != nil {
		return []string{"unparsable"}, false
	}
	seen := map[string]bool{}
	for k := range ma {
		seen[k] = true
	}
	for k := range mb {
		seen[k] = true
	}
	for k := range seen {
		x, _ := json.Marshal(ma[k])
		y, _ := json.Marshal(mb[k])
		if string(x) != string(y) {
			keys = append(keys, k)
		}
	}
	sort.Strings(keys)
	x, _ := json.Marshal(c18ZeroNavHeights(ma))
	y, _ := json.Marshal(c18ZeroNavHeights(mb))
	return keys, string(x) == string(y)
}

// c18NavQueryEqualIgnoringHeight compares two "code|hex" answers of the ScopeNetAssetValues query
// with the recorded heights blanked.
func c18NavQueryEqualIgnoringHeight(a, b string) bool {
	dec := func(s string) (string, bool) {
		parts := strings.SplitN(s, "|", 2)
		if len(parts) != 2 {
			return "", false
		}
		bz, err := hex.DecodeString(parts[1])
		if err != nil {
			return "", false
		}
		var resp mdtypes.QueryScopeNetAssetValuesResponse
		if err := resp.Unmarshal(bz); err != nil {
			return "", false
		}
		for i := range resp.NetAssetValues {
			resp.NetAssetValues[i].UpdatedBlockHeight = 0
		}
		out, _ := resp.Marshal()
		return parts[0] + "|" + hex.EncodeToString(out), true
	}
	x, ok1 := dec(a)
	y, ok2 := dec(b)
	return ok1 && ok2 && x == y
}

// c18OnlyStaleLookup: the exporting chain's AttributeAccounts answer is the imported chain's answer
// plus accounts that hold NO attribute of that name on the exporting chain (stale lookup entries).
func c18OnlyStaleLookup(ref *c18Net, a, b string) bool {
	dec := func(s string) ([]string, bool) {
		parts := strings.SplitN(s, "|", 2)
		if len(parts) != 2 || parts[0] != "0" {
			return nil, false
		}
		bz, err := hex.DecodeString(parts[1])
		if err != nil {
			return nil, false
		}
		var resp attrtypes.QueryAttributeAccountsResponse
		if err := resp.Unmarshal(bz); err != nil {
			return nil, false
		}
		return resp.Accounts, true
	}
	xa, ok1 := dec(a)
	xb, ok2 := dec(b)
	if !ok1 || !ok2 {
		return false
	}
	inB := map[string]bool{}
	for _, x := range xb {
		inB[x] = true
	}
	inA := map[string]bool{}
	extra := 0
	for _, x := range xa {
		inA[x] = true
		if !inB[x] {
			attrs, err := ref.app.AttributeKeeper.GetAttributes(ref.queryCtx(), x, c18KycNam)
			if err != nil || len(attrs) != 0 {
				return false
			}
			extra++
		}
	}
	for _, x := range xb {
		if !inA[x] {
			return false
		}
	}
	return extra > 0
}

func c18ParseMods(cdc codec.Codec, st map[string]json.RawMessage) (m c18Mods, err error) {
	err = try(func() error {
		cdc.MustUnmarshalJSON(st[quarantine.ModuleName], &m.Quar)
		cdc.MustUnmarshalJSON(st[sanction.ModuleName], &m.Sanc)
		cdc.MustUnmarshalJSON(st[nametypes.ModuleName], &m.Name)
		cdc.MustUnmarshalJSON(st[attrtypes.ModuleName], &m.Attr)
		cdc.MustUnmarshalJSON(st[msgfeestypes.ModuleName], &m.Fees)
		cdc.MustUnmarshalJSON(st[hold.ModuleName], &m.Hold)
		cdc.MustUnmarshalJSON(st[triggertypes.ModuleName], &m.Trig)
		return nil
	})
	return
}

// keeper-level export of the modelled modules from the (uncommitted) state InitChain produced
func (n *c18Net) keeperMods() (m c18Mods, err error) {
	err = try(func() error {
		ctx := n.queryCtx()
		m.Quar = *n.app.QuarantineKeeper.ExportGenesis(ctx)
		m.Sanc = *n.app.SanctionKeeper.ExportGenesis(ctx)
		m.Name = *n.app.NameKeeper.ExportGenesis(ctx)
		m.Attr = *n.app.AttributeKeeper.ExportGenesis(ctx)
		m.Fees = *n.app.MsgFeesKeeper.ExportGenesis(ctx)
		m.Hold = *n.app.HoldKeeper.ExportGenesis(ctx)
		m.Trig = *n.app.TriggerKeeper.ExportGenesis(ctx)
		return nil
	})
	return
}

// ---------- Coq terms ----------

func hx(b []byte) string  { return "(hx \"" + hex.EncodeToString(b) + "\")" }
func hxs(s string) string { return hx([]byte(s)) }

func c18Addr(s string) []byte {
	a, err := sdk.AccAddressFromBech32(s)
	if err != nil {
		return []byte("!" + s)
	}
	return a
}

func c18Coins(cs sdk.Coins) string {
	var items []string
	for _, c := range cs {
		items = append(items, fmt.Sprintf("(%s, %s)", hxs(c.Denom), zInt(c.Amount)))
	}
	return coqList(items)
}

func c18N(x uint64) string { return fmt.Sprintf("%d%%N", x) }

func c18TrigTerm(tr triggertypes.Trigger) string {
	h := sha256.New()
	if tr.Event != nil {
		h.Write([]byte(tr.Event.TypeUrl))
		h.Write(tr.Event.Value)
	}
	for _, a := range tr.Actions {
		h.Write([]byte("|" + a.TypeUrl))
		h.Write(a.Value)
	}
	return fmt.Sprintf("{| tr_id := %s; tr_owner := %s; tr_body := %s |}", c18N(tr.Id), hx(c18Addr(tr.Owner)), hx(h.Sum(nil)[:12]))
}

func (m c18Mods) coq() string {
	var sb strings.Builder
	// quarantine
	var qa, qr, qf []string
	for _, a := range m.Quar.QuarantinedAddresses {
		qa = append(qa, hx(c18Addr(a)))
	}
	for _, a := range m.Quar.AutoResponses {
		qr = append(qr, fmt.Sprintf("{| ar_to := %s; ar_from := %s; ar_resp := %s |}", hx(c18Addr(a.ToAddress)), hx(c18Addr(a.FromAddress)), c18N(uint64(a.Response))))
	}
	for _, f := range m.Quar.QuarantinedFunds {
		var un []string
		for _, a := range f.UnacceptedFromAddresses {
			un = append(un, hx(c18Addr(a)))
		}
		qf = append(qf, fmt.Sprintf("{| qf_to := %s; qf_unaccepted := %s; qf_coins := %s; qf_declined := %s |}", hx(c18Addr(f.ToAddress)), coqList(un), c18Coins(f.Coins), coqBool(f.Declined)))
	}
	fmt.Fprintf(&sb, "{| g_quar := {| qg_addrs := %s; qg_autos := %s; qg_funds := %s |};\n", coqList(qa), coqList(qr), coqList(qf))
	// sanction
	sp := "None"
	if m.Sanc.Params != nil {
		sp = fmt.Sprintf("(Some {| sp_sanction_min := %s; sp_unsanction_min := %s |})", c18Coins(m.Sanc.Params.ImmediateSanctionMinDeposit), c18Coins(m.Sanc.Params.ImmediateUnsanctionMinDeposit))
	}
	var sa, st []string
	for _, a := range m.Sanc.SanctionedAddresses {
		sa = append(sa, hx(c18Addr(a)))
	}
	for _, e := range m.Sanc.TemporaryEntries {
		st = append(st, fmt.Sprintf("{| te_addr := %s; te_prop := %s; te_status := %s |}", hx(c18Addr(e.Address)), c18N(e.ProposalId), c18N(uint64(e.Status))))
	}
	fmt.Fprintf(&sb, " g_sanc := {| sg_params := %s; sg_addrs := %s; sg_temps := %s |};\n", sp, coqList(sa), coqList(st))
	// name
	var nb []string
	for _, b := range m.Name.Bindings {
		nb = append(nb, fmt.Sprintf("{| nr_name := %s; nr_addr := %s; nr_restricted := %s |}", hxs(b.Name), hx(c18Addr(b.Address)), coqBool(b.Restricted)))
	}
	p := m.Name.Params
	fmt.Fprintf(&sb, " g_name := {| ng_params := {| np_max_seg := %s; np_min_seg := %s; np_max_levels := %s; np_allow_unrestricted := %s |}; ng_bindings := %s |};\n",
		c18N(uint64(p.MaxSegmentLength)), c18N(uint64(p.MinSegmentLength)), c18N(uint64(p.MaxNameLevels)), coqBool(p.AllowUnrestrictedNames), coqList(nb))
	// attribute
	var at []string
	for _, a := range m.Attr.Attributes {
		exp := "None"
		if a.ExpirationDate != nil {
			exp = fmt.Sprintf("(Some %s)", zI64(a.ExpirationDate.Unix()))
		}
		at = append(at, fmt.Sprintf("{| at_name := %s; at_value := %s; at_type := %s; at_addr := %s; at_exp := %s; at_ctype := %s |}",
			hxs(a.Name), hx(a.Value), c18N(uint64(a.AttributeType)), hxs(a.Address), exp, hxs("")))
	}
	fmt.Fprintf(&sb, " g_attr := {| ag_maxlen := %s; ag_attrs := %s |};\n", c18N(uint64(m.Attr.Params.MaxValueLength)), coqList(at))
	// msgfees
	var mf []string
	for _, f := range m.Fees.MsgFees {
		mf = append(mf, fmt.Sprintf("{| mf_url := %s; mf_denom := %s; mf_amt := %s; mf_recipient := %s; mf_bips := %s |}",
			hxs(f.MsgTypeUrl), hxs(f.AdditionalFee.Denom), zInt(f.AdditionalFee.Amount), hxs(f.Recipient), c18N(uint64(f.RecipientBasisPoints))))
	}
	fp := m.Fees.Params
	fmt.Fprintf(&sb, " g_fees := {| mg_params := {| mp_floor_denom := %s; mp_floor_amt := %s; mp_nhash_per_usd_mil := %s; mp_conv_denom := %s |}; mg_fees := %s |};\n",
		hxs(fp.FloorGasPrice.Denom), zInt(fp.FloorGasPrice.Amount), c18N(fp.NhashPerUsdMil), hxs(fp.ConversionFeeDenom), coqList(mf))
	// hold
	var hs []string
	for _, h := range m.Hold.Holds {
		hs = append(hs, fmt.Sprintf("{| ah_addr := %s; ah_coins := %s |}", hx(c18Addr(h.Address)), c18Coins(h.Amount)))
	}
	fmt.Fprintf(&sb, " g_hold := %s;\n", coqList(hs))
	// trigger
	var ts, gl, qs []string
	for _, tr := range m.Trig.Triggers {
		ts = append(ts, c18TrigTerm(tr))
	}
	for _, g := range m.Trig.GasLimits {
		gl = append(gl, fmt.Sprintf("{| gl_id := %s; gl_amt := %s |}", c18N(g.TriggerId), c18N(g.Amount)))
	}
	for _, q := range m.Trig.QueuedTriggers {
		qs = append(qs, fmt.Sprintf("{| qt_height := %s; qt_time := %s; qt_trig := %s |}", c18N(q.BlockHeight), zI64(q.Time.UnixNano()), c18TrigTerm(q.Trigger)))
	}
	fmt.Fprintf(&sb, " g_trig := {| tg_trigger_id := %s; tg_qstart := %s; tg_triggers := %s; tg_gas := %s; tg_queue := %s |} |}",
		c18N(m.Trig.TriggerId), c18N(m.Trig.QueueStart), coqList(ts), coqList(gl), coqList(qs))
	return sb.String()
}

// c18Snap is the bank as the importing chain will see it before the hold and quarantine modules
// are initialised: the balances of the exporting chain at export time.
type c18Snap struct {
	spend  []string
	holder []string
}

func c18TakeSnap(n *c18Net, m c18Mods) c18Snap {
	ctx := n.queryCtx()
	var sn c18Snap
	seen := map[string]bool{}
	var addrs []sdk.AccAddress
	for _, a := range n.accts {
		addrs = append(addrs, a.addr)
		seen[a.addr.String()] = true
	}
	for _, h := range m.Hold.Holds {
		if !seen[h.Address] {
			seen[h.Address] = true
			addrs = append(addrs, c18Addr(h.Address))
		}
	}
	for _, a := range addrs {
		for _, c := range n.app.BankKeeper.GetAllBalances(ctx, a) {
			sn.spend = append(sn.spend, fmt.Sprintf("(%s, %s, %s)", hx(a), hxs(c.Denom), zInt(c.Amount)))
		}
	}
	for _, c := range n.app.BankKeeper.GetAllBalances(ctx, n.app.QuarantineKeeper.GetFundsHolder()) {
		sn.holder = append(sn.holder, fmt.Sprintf("(%s, %s)", hxs(c.Denom), zInt(c.Amount)))
	}
	return sn
}

// c18Tables renders the lookup tables for every genesis given (store keys through the real key
// constructors; balances from the snapshot of the exporting chain's bank).
func c18Tables(sn c18Snap, importTime time.Time, unsanctionable []sdk.AccAddress, gs ...c18Mods) string {
	seenN, seenA, seenF := map[string]bool{}, map[string]bool{}, map[string]bool{}
	var nk, ak, fk []string
	addName := func(name string) {
		if seenN[name] {
			return
		}
		seenN[name] = true
		k, err := nametypes.GetNameKeyPrefix(name)
		if err == nil {
			nk = append(nk, fmt.Sprintf("(%s, %s)", hxs(name), hx(k)))
		}
	}
	addName(attrtypes.AccountDataName)
	for _, m := range gs {
		for _, b := range m.Name.Bindings {
			addName(b.Name)
		}
		for _, a := range m.Attr.Attributes {
			id := a.Address + "|" + a.Name + "|" + string(a.Value)
			if seenA[id] {
				continue
			}
			seenA[id] = true
			var key []byte
			if err := try(func() error { key = attrtypes.AddrAttributeKey(a.GetAddressBytes(), a); return nil }); err == nil {
				ak = append(ak, fmt.Sprintf("(%s, %s, %s, %s)", hxs(a.Address), hxs(a.Name), hx(a.Value), hx(key)))
			}
		}
		for _, f := range m.Fees.MsgFees {
			if !seenF[f.MsgTypeUrl] {
				seenF[f.MsgTypeUrl] = true
				fk = append(fk, fmt.Sprintf("(%s, %s)", hxs(f.MsgTypeUrl), hx(msgfeestypes.GetMsgFeeKey(f.MsgTypeUrl))))
			}
		}
	}
	var us []string
	for _, a := range unsanctionable {
		us = append(us, hx(a))
	}
	return fmt.Sprintf("{| t_name_keys := %s; t_attr_keys := %s; t_fee_keys := %s; t_spend := %s; t_holder := %s; t_now := %s; t_acctdata := %s; t_modaddr := %s; t_unsanctionable := %s |}",
		coqList(nk), coqList(ak), coqList(fk), coqList(sn.spend), coqList(sn.holder), zI64(importTime.Unix()), hxs(attrtypes.AccountDataName),
		hx(authtypes.NewModuleAddress(attrtypes.ModuleName)), coqList(us))
}

// ---------- module queries ----------

type c18Q struct {
	name string
	path string
	req  proto.Message
}

func c18Queries(n *c18Net, names []string, denoms []string, scopeIDs []string) []c18Q {
	pg := &query.PageRequest{Limit: 2000}
	var qs []c18Q
	add := func(name, path string, req proto.Message) { qs = append(qs, c18Q{name, path, req}) }
	ex := "/provenance.exchange.v1.Query/"
	add("exchange.all_orders", ex+"GetAllOrders", &exchange.QueryGetAllOrdersRequest{Pagination: pg})
	add("exchange.all_commitments", ex+"GetAllCommitments", &exchange.QueryGetAllCommitmentsRequest{Pagination: pg})
	add("exchange.all_payments", ex+"GetAllPayments", &exchange.QueryGetAllPaymentsRequest{Pagination: pg})
	add("exchange.all_markets", ex+"GetAllMarkets", &exchange.QueryGetAllMarketsRequest{Pagination: pg})
	add("exchange.params", ex+"Params", &exchange.QueryParamsRequest{})
	for m := uint32(1); m <= 2; m++ {
		add(fmt.Sprintf("exchange.market.%d", m), ex+"GetMarket", &exchange.QueryGetMarketRequest{MarketId: m})
		add(fmt.Sprintf("exchange.market_orders.%d", m), ex+"GetMarketOrders", &exchange.QueryGetMarketOrdersRequest{MarketId: m, Pagination: pg})
	}
	add("exchange.asset_orders", ex+"GetAssetOrders", &exchange.QueryGetAssetOrdersRequest{Asset: c18Asset, Pagination: pg})
	add("hold.all", "/provenance.hold.v1.Query/GetAllHolds", &hold.GetAllHoldsRequest{Pagination: pg})
	add("marker.all", "/provenance.marker.v1.Query/AllMarkers", &markertypes.QueryAllMarkersRequest{Pagination: pg})
	add("marker.params", "/provenance.marker.v1.Query/Params", &markertypes.QueryParamsRequest{})
	for _, d := range denoms {
		add("marker.marker."+d, "/provenance.marker.v1.Query/Marker", &markertypes.QueryMarkerRequest{Id: d})
		add("marker.holding."+d, "/provenance.marker.v1.Query/Holding", &markertypes.QueryHoldingRequest{Id: d, Pagination: pg})
		add("marker.navs."+d, "/provenance.marker.v1.Query/NetAssetValues", &markertypes.QueryNetAssetValuesRequest{Id: d})
		add("marker.escrow."+d, "/provenance.marker.v1.Query/Escrow", &markertypes.QueryEscrowRequest{Id: d})
		add("marker.supply."+d, "/provenance.marker.v1.Query/Supply", &markertypes.QuerySupplyRequest{Id: d})
		add("marker.access."+d, "/provenance.marker.v1.Query/Access", &markertypes.QueryAccessRequest{Id: d})
	}
	md := "/provenance.metadata.v1.Query/"
	add("metadata.scopes", md+"ScopesAll", &mdtypes.ScopesAllRequest{Pagination: pg})
	add("metadata.sessions", md+"SessionsAll", &mdtypes.SessionsAllRequest{Pagination: pg})
	add("metadata.records", md+"RecordsAll", &mdtypes.RecordsAllRequest{Pagination: pg})
	add("metadata.scope_specs", md+"ScopeSpecificationsAll", &mdtypes.ScopeSpecificationsAllRequest{Pagination: pg})
	add("metadata.contract_specs", md+"ContractSpecificationsAll", &mdtypes.ContractSpecificationsAllRequest{Pagination: pg})
	add("metadata.record_specs", md+"RecordSpecificationsAll", &mdtypes.RecordSpecificationsAllRequest{Pagination: pg})
	add("metadata.os_locators", md+"OSAllLocators", &mdtypes.OSAllLocatorsRequest{Pagination: pg})
	for _, s := range scopeIDs {
		add("metadata.scope."+s, md+"Scope", &mdtypes.ScopeRequest{ScopeId: s, IncludeSessions: true, IncludeRecords: true})
		add("metadata.scope_navs."+s, md+"ScopeNetAssetValues", &mdtypes.QueryScopeNetAssetValuesRequest{Id: s})
	}
	for _, nm := range names {
		add("name.resolve."+nm, "/provenance.name.v1.Query/Resolve", &nametypes.QueryResolveRequest{Name: nm})
	}
	add("name.params", "/provenance.name.v1.Query/Params", &nametypes.QueryParamsRequest{})
	add("attribute.accounts.kyc", "/provenance.attribute.v1.Query/AttributeAccounts", &attrtypes.QueryAttributeAccountsRequest{AttributeName: c18KycNam, Pagination: pg})
	add("quarantine.funds", "/cosmos.quarantine.v1beta1.Query/QuarantinedFunds", &quarantine.QueryQuarantinedFundsRequest{Pagination: pg})
	add("sanction.addresses", "/cosmos.sanction.v1beta1.Query/SanctionedAddresses", &sanction.QuerySanctionedAddressesRequest{Pagination: pg})
	add("sanction.temporary", "/cosmos.sanction.v1beta1.Query/TemporaryEntries", &sanction.QueryTemporaryEntriesRequest{Pagination: pg})
	add("sanction.params", "/cosmos.sanction.v1beta1.Query/Params", &sanction.QueryParamsRequest{})
	add("trigger.all", "/provenance.trigger.v1.Query/Triggers", &triggertypes.QueryTriggersRequest{Pagination: pg})
	add("msgfees.all", "/provenance.msgfees.v1.Query/QueryAllMsgFees", &msgfeestypes.QueryAllMsgFeesRequest{Pagination: pg})
	add("msgfees.params", "/provenance.msgfees.v1.Query/Params", &msgfeestypes.QueryParamsRequest{})
	for i, a := range n.accts {
		s := a.addr.String()
		add(fmt.Sprintf("exchange.owner_orders.%d", i), ex+"GetOwnerOrders", &exchange.QueryGetOwnerOrdersRequest{Owner: s, Pagination: pg})
		add(fmt.Sprintf("exchange.account_commitments.%d", i), ex+"GetAccountCommitments", &exchange.QueryGetAccountCommitmentsRequest{Account: s})
		add(fmt.Sprintf("exchange.payments_source.%d", i), ex+"GetPaymentsWithSource", &exchange.QueryGetPaymentsWithSourceRequest{Source: s, Pagination: pg})
		add(fmt.Sprintf("exchange.payments_target.%d", i), ex+"GetPaymentsWithTarget", &exchange.QueryGetPaymentsWithTargetRequest{Target: s, Pagination: pg})
		add(fmt.Sprintf("hold.account.%d", i), "/provenance.hold.v1.Query/GetHolds", &hold.GetHoldsRequest{Address: s})
		add(fmt.Sprintf("metadata.ownership.%d", i), md+"Ownership", &mdtypes.OwnershipRequest{Address: s, Pagination: pg})
		add(fmt.Sprintf("metadata.value_ownership.%d", i), md+"ValueOwnership", &mdtypes.ValueOwnershipRequest{Address: s, Pagination: pg})
		add(fmt.Sprintf("name.reverse.%d", i), "/provenance.name.v1.Query/ReverseLookup", &nametypes.QueryReverseLookupRequest{Address: s, Pagination: pg})
		add(fmt.Sprintf("attribute.account.%d", i), "/provenance.attribute.v1.Query/Attributes", &attrtypes.QueryAttributesRequest{Account: s, Pagination: pg})
		add(fmt.Sprintf("quarantine.is.%d", i), "/cosmos.quarantine.v1beta1.Query/IsQuarantined", &quarantine.QueryIsQuarantinedRequest{ToAddress: s})
		add(fmt.Sprintf("quarantine.funds_to.%d", i), "/cosmos.quarantine.v1beta1.Query/QuarantinedFunds", &quarantine.QueryQuarantinedFundsRequest{ToAddress: s, Pagination: pg})
		add(fmt.Sprintf("quarantine.auto.%d", i), "/cosmos.quarantine.v1beta1.Query/AutoResponses", &quarantine.QueryAutoResponsesRequest{ToAddress: s, Pagination: pg})
		add(fmt.Sprintf("sanction.is.%d", i), "/cosmos.sanction.v1beta1.Query/IsSanctioned", &sanction.QueryIsSanctionedRequest{Address: s})
		add(fmt.Sprintf("bank.balances.%d", i), "/cosmos.bank.v1beta1.Query/AllBalances", &banktypes.QueryAllBalancesRequest{Address: s, Pagination: pg})
		add(fmt.Sprintf("bank.spendable.%d", i), "/cosmos.bank.v1beta1.Query/SpendableBalances", &banktypes.QuerySpendableBalancesRequest{Address: s, Pagination: pg})
	}
	return qs
}

func (n *c18Net) runQueries(qs []c18Q) map[string]string {
	out := map[string]string{}
	for _, q := range qs {
		bz, err := proto.Marshal(q.req)
		if err != nil {
			out[q.name] = "marshal: " + err.Error()
			continue
		}
		var resp *abci.ResponseQuery
		err = try(func() error {
			var e error
			resp, e = n.app.Query(context.Background(), &abci.RequestQuery{Path: q.path, Data: bz})
			return e
		})
		if err != nil {
			out[q.name] = "error"
			continue
		}
		out[q.name] = fmt.Sprintf("%d|%x", resp.Code, resp.Value)
	}
	return out
}

// ---------- export / import ----------

func c18ExportImport(t *testing.T, r *rand.Rand, w *CaseWriter, label string, ref *c18Net, nPerturb int, g *c18Gen) {
	cdc := ref.app.AppCodec()
	for _, k := range c18SortedKeys(g.lcFinalStats()) {
		w.CountN("exported_lifecycle_marker_"+k, int64(g.lcFinalStats()[k]))
	}
	refStats := g.refStats()
	for _, k := range c18SortedKeys(refStats) {
		w.CountN("exported_dangling_"+k, int64(refStats[k]))
	}
	stateMarkers1 := ref.stateMarkers()
	// the first key bytes present in every custom module's store at export time
	for _, m := range c18Modules {
		seen := map[string]bool{}
		var bs []string
		for _, e := range ref.rawStore(m) {
			if len(e) >= 2 && !seen[e[:2]] {
				seen[e[:2]] = true
				var b uint64
				fmt.Sscanf(e[:2], "%x", &b)
				bs = append(bs, c18N(b))
			}
		}
		w.Add(fmt.Sprintf("CPrefixes %s %s %s", coqStr(label), coqStr(m), coqList(bs)), map[string]any{"kind": "store_prefixes", "label": label, "module": m, "first_bytes": bs})
		w.CountN("store_prefix_bytes_seen", int64(len(bs)))
	}
	g1, err := ref.export()
	if err != nil {
		t.Fatalf("%s: export: %v", label, err)
	}
	st1 := c18AppState(t, g1)
	m1, err := c18ParseMods(cdc, st1)
	if err != nil {
		t.Fatalf("%s: parse export: %v", label, err)
	}
	snap := c18TakeSnap(ref, m1)
	d1, err := c18ParseDeep(cdc, st1)
	if err != nil {
		t.Fatalf("%s: parse export (exchange/marker/metadata): %v", label, err)
	}
	ixRef := ref.deepIndex()
	// what the queries will ask about
	var names, denoms, scopes []string
	for _, b := range m1.Name.Bindings {
		names = append(names, b.Name)
	}
	var mk markertypes.GenesisState
	cdc.MustUnmarshalJSON(st1[markertypes.ModuleName], &mk)
	for _, m := range mk.Markers {
		denoms = append(denoms, m.Denom)
	}
	var mdg mdtypes.GenesisState
	cdc.MustUnmarshalJSON(st1[mdtypes.ModuleName], &mdg)
	for _, s := range mdg.Scopes {
		scopes = append(scopes, s.ScopeId.String())
	}
	var exg exchange.GenesisState
	cdc.MustUnmarshalJSON(st1[exchange.ModuleName], &exg)
	w.CountN("exported_orders", int64(len(exg.Orders)))
	w.CountN("exported_commitments", int64(len(exg.Commitments)))
	w.CountN("exported_payments", int64(len(exg.Payments)))
	w.CountN("exported_holds", int64(len(m1.Hold.Holds)))
	w.CountN("exported_markers", int64(len(mk.Markers)))
	w.CountN("exported_marker_navs", int64(len(mk.NetAssetValues)))
	w.CountN("exported_deny_entries", int64(len(mk.DenySendAddresses)))
	w.CountN("exported_scopes", int64(len(mdg.Scopes)))
	w.CountN("exported_sessions", int64(len(mdg.Sessions)))
	w.CountN("exported_records", int64(len(mdg.Records)))
	w.CountN("exported_names", int64(len(m1.Name.Bindings)))
	w.CountN("exported_attributes", int64(len(m1.Attr.Attributes)))
	w.CountN("exported_quarantine_records", int64(len(m1.Quar.QuarantinedFunds)))
	w.CountN("exported_auto_responses", int64(len(m1.Quar.AutoResponses)))
	w.CountN("exported_sanctioned", int64(len(m1.Sanc.SanctionedAddresses)))
	w.CountN("exported_temp_sanctions", int64(len(m1.Sanc.TemporaryEntries)))
	w.CountN("exported_triggers", int64(len(m1.Trig.Triggers)))
	w.CountN("exported_queued_triggers", int64(len(m1.Trig.QueuedTriggers)))
	w.CountN("exported_msg_fees", int64(len(m1.Fees.MsgFees)))

	// first generation: a fresh chain from g1
	accept1, accept2 := true, true
	importErr := ""
	e1, err := c18Start(t, g1, "")
	var m2, m2x, m3 c18Mods
	var d2, d2x, d3 c18Deep
	var ixImp, ixRef2, ixImp2 string
	stateMarkers2 := "[]"
	var st2deep map[string]json.RawMessage
	var g2 c18Genesis
	var snap2 c18Snap
	var at time.Time
	jsonEq12 := map[string]bool{}
	jsonEq23 := map[string]bool{}
	jsonDiff := map[string]map[string]any{}
	var qdiff []string
	var storeDiff map[string][]string
	qdiffOnlyNavHeight, qdiffOnlyStaleLookup := true, true
	if err != nil {
		accept1, accept2 = false, false
		w.Count("import_rejected")
		importErr = err.Error()
		if len(importErr) > 400 {
			importErr = importErr[:400]
		}
	} else {
		defer e1.close()
		// pure round trip of the modelled modules: keeper exports of the InitChain state
		if m2, err = e1.keeperMods(); err != nil {
			t.Fatalf("%s: keeper export: %v", label, err)
		}
		if d2, err = e1.keeperDeep(); err != nil {
			t.Fatalf("%s: keeper export (exchange/marker/metadata): %v", label, err)
		}
		ixImp = e1.deepIndex()
		// both chains run the same next (empty) block; their exports and queries must agree
		// (three blocks, 25 s apart, so that waiting height/time triggers fire, queued ones run and
		// attributes expire on both sides)
		for i := 0; i < 3 && accept1; i++ {
			at = ref.now.Add(25 * time.Second)
			if _, err := ref.block(at, nil); err != nil {
				t.Fatalf("%s: next block on the exporting chain: %v", label, err)
			}
			if _, err := e1.block(at, nil); err != nil {
				accept1 = false
				w.Count("import_first_block_failed")
				importErr = "block after import failed: " + err.Error()
				if len(importErr) > 400 {
					importErr = importErr[:400]
				}
			}
		}
		nCont := 0
		var contDiffs []map[string]any
		contUnexplained := 0
		if accept1 {
			// the state right after the import, before anything else is done to it
			direct := c18StoreDiffs(ref, e1)
			for _, m := range append(append([]string{}, c18Modules...), c18MarkerAccounts) {
				diff := direct[m]
				desc := map[string]any{"kind": "store", "label": label + "/direct", "module": m, "differing_entries": len(diff), "when": "three empty blocks after the import"}
				if len(diff) > 0 {
					desc["first_differences"] = diff[:min(len(diff), 12)]
				}
				w.Add(fmt.Sprintf("CStore %s %s %s", coqStr(label+"/direct"), coqStr(m), c18N(uint64(len(diff)))), desc)
			}
			c18AttrCounterCases(w, label+"/direct", ref, e1, true)
			// import-then-continue equals continue: both chains run the same further blocks of
			// signed transactions; the first one asks for the deletion of every cancelled
			// life-cycle marker by its manager
			for i := 0; i < scale(3, 6) && accept1; i++ {
				var must []*c18Tx
				if i == 0 {
					must = g.lcDeletes()
					w.CountN("postimport_manager_deletes", int64(len(must)))
				}
				bl := g.buildBlock(2+r.Intn(5), false, must)
				at = ref.now.Add(time.Duration(4+r.Intn(20)) * time.Second)
				ctrA, ctrB := c18AttrCounters(ref), c18AttrCounters(e1)
				dbl := make([]bool, len(bl.plans))
				for pi, p := range bl.plans {
					dbl[pi] = c18AttrDoubleCounted(p, ref, e1)
				}
				resA, err := g.runBlock(bl, at)
				if err != nil {
					t.Fatalf("%s: continuation block on the exporting chain: %v", label, err)
				}
				resB, err := e1.block(at, bl.txs)
				if err != nil {
					accept1 = false
					w.Count("import_continuation_block_failed")
				} else {
					for ti := range resA.TxResults {
						a, b := resA.TxResults[ti], resB.TxResults[ti]
						if a.Code != b.Code || a.GasUsed != b.GasUsed || a.Log != b.Log || !bytes.Equal(a.Data, b.Data) {
							// the one explained shape (known finding, findings/C18.md finding 2): an attribute
							// delete that costs different gas because the name->address lookup counter it
							// decrements was double-counted on the exporting chain and rebuilt by the import
							explained := a.Code == b.Code && a.Log == b.Log && bytes.Equal(a.Data, b.Data) && dbl[ti] && c18AttrCounterDiffers(bl.plans[ti], ctrA, ctrB)
							if !explained {
								contUnexplained++
							}
							contDiffs = append(contDiffs, map[string]any{"explained_by_attribute_lookup_counter": explained, "block_after_import": 4 + i, "tx": bl.kinds[ti], "code": []uint32{a.Code, b.Code},
								"gas_used": []int64{a.GasUsed, b.GasUsed}, "log_exporting": a.Log[:min(len(a.Log), 160)], "log_imported": b.Log[:min(len(b.Log), 160)]})
						}
					}
				}
				nCont++
				w.CountN("postimport_txs", int64(len(bl.txs)))
			}
		}
		if accept1 {
			// bank differs by the mint module's inflation, so app hashes differ; the results and
			// events of the blocks after the import must not
			strip := func(ds []string) []string {
				var out []string
				for _, d := range ds[max(0, len(ds)-3-nCont):] {
					if p := strings.SplitN(d, "|", 2); len(p) == 2 {
						out = append(out, d[:strings.Index(d, ":")]+":"+p[1])
					}
				}
				return out
			}
			a, b := strip(ref.digests), strip(e1.digests)
			w.Add(fmt.Sprintf("CDigests %s \"postimport\" %s %s", coqStr(label), c18StrList(a), c18StrList(b)),
				map[string]any{"kind": "digests", "label": label, "mode": "postimport", "blocks": len(a), "blocks_with_transactions": nCont, "first_difference": c18FirstDiff(a, b), "differing_transactions": contDiffs,
					"events_equal": c18EventsPartEqual(a, b),
					"only_attribute_lookup_counter_gas_differs": len(contDiffs) > 0 && contUnexplained == 0 && c18EventsPartEqual(a, b)})
		}
	}
	if accept1 {
		gA, err := ref.export()
		if err != nil {
			t.Fatalf("%s: export 2: %v", label, err)
		}
		g2, err = e1.export()
		if err != nil {
			t.Fatalf("%s: export of the imported chain: %v", label, err)
		}
		stA, st2 := c18AppState(t, gA), c18AppState(t, g2)
		for _, m := range c18Modules {
			jsonEq12[m] = c18Canon(stA[m]) == c18Canon(st2[m])
			if !jsonEq12[m] {
				keys, eqNav := c18JSONDiff(stA[m], st2[m])
				jsonDiff[m] = map[string]any{"fields": keys, "equal_ignoring_nav_height": eqNav}
			}
			if !jsonEq12[m] && os.Getenv("VERIF_C18_DEBUG") != "" {
				_ = os.WriteFile(filepath.Join(outDir(t), label+"_"+m+"_before.json"), []byte(c18Canon(stA[m])), 0o644)
				_ = os.WriteFile(filepath.Join(outDir(t), label+"_"+m+"_after.json"), []byte(c18Canon(st2[m])), 0o644)
			}
		}
		qs := c18Queries(ref, names, denoms, scopes)
		qa, qb := ref.runQueries(qs), e1.runQueries(qs)
		for _, q := range qs {
			if qa[q.name] != qb[q.name] {
				qdiff = append(qdiff, q.name)
				if os.Getenv("VERIF_C18_DEBUG") != "" {
					fmt.Printf("QUERY DIFF %s\n  exporting: %s\n  imported:  %s\n", q.name, qa[q.name], qb[q.name])
				}
				if strings.HasPrefix(q.name, "metadata.") && !(strings.HasPrefix(q.name, "metadata.scope_navs.") && c18NavQueryEqualIgnoringHeight(qa[q.name], qb[q.name])) {
					qdiffOnlyNavHeight = false
				}
				if strings.HasPrefix(q.name, "attribute.") && !(q.name == "attribute.accounts.kyc" && c18OnlyStaleLookup(ref, qa[q.name], qb[q.name])) {
					qdiffOnlyStaleLookup = false
				}
			}
		}
		w.CountN("queries_compared", int64(len(qs)))
		storeDiff = c18StoreDiffs(ref, e1)
		c18AttrCounterCases(w, label, ref, e1, false)
		// second generation
		if m2x, err = c18ParseMods(cdc, st2); err != nil {
			t.Fatalf("%s: parse export 2: %v", label, err)
		}
		snap2 = c18TakeSnap(e1, m2x)
		if d2x, err = c18ParseDeep(cdc, st2); err != nil {
			t.Fatalf("%s: parse export 2 (exchange/marker/metadata): %v", label, err)
		}
		ixRef2 = e1.deepIndex()
		stateMarkers2 = e1.stateMarkers()
		st2deep = st2
		e2, err := c18Start(t, g2, "")
		if err != nil {
			accept2 = false
		} else {
			defer e2.close()
			if m3, err = e2.keeperMods(); err != nil {
				t.Fatalf("%s: keeper export 3: %v", label, err)
			}
			if d3, err = e2.keeperDeep(); err != nil {
				t.Fatalf("%s: keeper export 3 (exchange/marker/metadata): %v", label, err)
			}
			ixImp2 = e2.deepIndex()
			at2 := at.Add(6 * time.Second)
			if _, err := e1.block(at2, nil); err != nil {
				t.Fatalf("%s: block on imported chain: %v", label, err)
			}
			if _, err := e2.block(at2, nil); err != nil {
				accept2 = false
			} else {
				gB, err1 := e1.export()
				g3, err2 := e2.export()
				if err1 != nil || err2 != nil {
					t.Fatalf("%s: exports 3: %v %v", label, err1, err2)
				}
				stB, st3 := c18AppState(t, gB), c18AppState(t, g3)
				for _, m := range c18Modules {
					jsonEq23[m] = c18Canon(stB[m]) == c18Canon(st3[m])
					if !jsonEq23[m] {
						keys, eqNav := c18JSONDiff(stB[m], st3[m])
						d := jsonDiff[m]
						if d == nil {
							d = map[string]any{}
							jsonDiff[m] = d
						}
						d["fields_second"], d["equal_ignoring_nav_height_second"] = keys, eqNav
					}
				}
			}
		}
	}
	w.Add(fmt.Sprintf("CAccepts %s %s %s", coqStr(label), coqBool(accept1), coqBool(accept2)), map[string]any{"kind": "accepts", "label": label, "first": accept1, "second": accept2, "import_error": importErr})
	if accept1 {
		tabs := c18Tables(snap, time.Unix(g1.TimeUnix, 0), nil, m1, m2)
		if accept2 {
			tabs2 := c18Tables(snap2, time.Unix(g2.TimeUnix, 0), nil, m2x, m3)
			w.Add(fmt.Sprintf("CRound %s\n (%s)\n (%s)\n (%s)", coqStr(label+"/second"), tabs2, m2x.coq(), m3.coq()),
				map[string]any{"kind": "roundtrip", "label": label, "generation": 2, "holds": len(m2x.Hold.Holds), "queued": len(m2x.Trig.QueuedTriggers)})
		}
		w.Add(fmt.Sprintf("CRound %s\n (%s)\n (%s)\n (%s)", coqStr(label), tabs, m1.coq(), m2.coq()),
			map[string]any{"kind": "roundtrip", "label": label, "holds": len(m1.Hold.Holds), "names": len(m1.Name.Bindings), "attributes": len(m1.Attr.Attributes),
				"quarantine_records": len(m1.Quar.QuarantinedFunds), "temp_sanctions": len(m1.Sanc.TemporaryEntries), "triggers": len(m1.Trig.Triggers), "queued": len(m1.Trig.QueuedTriggers)})
		w.Nontrivial(label + "/roundtrip")
		if accept2 {
			w.Add(fmt.Sprintf("CDeepRound %s\n (%s)\n (%s)\n (%s)\n (%s)\n (%s)", coqStr(label+"/second"), c18DeepTables(cdc, st2deep, m2x.Hold, stateMarkers2, d2x, d3), d2x.coq(), d3.coq(), ixRef2, ixImp2),
				map[string]any{"kind": "deep_roundtrip", "label": label, "generation": 2, "orders": len(d2x.Exch.Orders), "markers": len(d2x.Mark.Markers), "scopes": len(d2x.Md.Scopes)})
		}
		w.Add(fmt.Sprintf("CDeepRound %s\n (%s)\n (%s)\n (%s)\n (%s)\n (%s)", coqStr(label), c18DeepTables(cdc, st1, m1.Hold, stateMarkers1, d1, d2), d1.coq(), d2.coq(), ixRef, ixImp),
			map[string]any{"kind": "deep_roundtrip", "label": label, "orders": len(d1.Exch.Orders), "commitments": len(d1.Exch.Commitments), "payments": len(d1.Exch.Payments),
				"markers": len(d1.Mark.Markers), "deny": len(d1.Mark.DenySendAddresses), "scopes": len(d1.Md.Scopes), "sessions": len(d1.Md.Sessions), "records": len(d1.Md.Records),
				"scope_specs": len(d1.Md.ScopeSpecifications), "locators": len(d1.Md.ObjectStoreLocators)})
		for _, m := range append(append([]string{}, c18Modules...), c18MarkerAccounts) {
			diff := storeDiff[m]
			desc := map[string]any{"kind": "store", "label": label, "module": m, "differing_entries": len(diff)}
			if len(diff) > 0 {
				show := diff
				if len(show) > 12 {
					show = show[:12]
				}
				desc["first_differences"] = show
			}
			w.Add(fmt.Sprintf("CStore %s %s %s", coqStr(label), coqStr(m), c18N(uint64(len(diff)))), desc)
		}
		for _, m := range c18Modules {
			e23, ok := jsonEq23[m]
			if !ok {
				e23 = true
			}
			w.Add(fmt.Sprintf("CJson %s %s %s %s", coqStr(label), coqStr(m), coqBool(jsonEq12[m]), coqBool(e23)),
				map[string]any{"kind": "module_json", "label": label, "module": m, "equal_after_import": jsonEq12[m], "equal_after_second_import": e23, "diff": jsonDiff[m]})
		}
		// one case per module's queries; a difference is annotated when it is exactly one of the
		// two reported shapes (scope NAV heights; stale attribute name->address lookup entries)
		groups := map[string][]string{}
		for _, q := range qdiff {
			mod := strings.SplitN(q, ".", 2)[0]
			groups[mod] = append(groups[mod], q)
		}
		for _, mod := range []string{"exchange", "hold", "marker", "metadata", "name", "attribute", "quarantine", "sanction", "trigger", "msgfees", "bank"} {
			d := groups[mod]
			sort.Strings(d)
			desc := map[string]any{"kind": "queries", "label": label, "module": mod, "differing": d}
			if mod == "metadata" && len(d) > 0 {
				desc["only_scope_nav_heights_differ"] = qdiffOnlyNavHeight
			}
			if mod == "attribute" && len(d) > 0 {
				desc["only_stale_lookup_entries_differ"] = qdiffOnlyStaleLookup
			}
			w.Add(fmt.Sprintf("CQueries %s %s", coqStr(label+"/"+mod), c18StrList(d)), desc)
		}
	}

	// perturbed genesis files through the real InitChain
	for i := 0; i < nPerturb; i++ {
		c18Perturbed(t, r, w, fmt.Sprintf("%s/p%d", label, i), ref, snap, g1, st1, m1)
	}
	for i := 0; i < nPerturb; i++ {
		c18DeepPerturbed(t, r, w, fmt.Sprintf("%s/d%d", label, i), ref, g1, st1, m1.Hold, d1)
	}
}

// c18Perturbed changes one modelled module's genesis (reordering, duplicates, dead entries),
// starts a fresh chain from it and records whether InitChain succeeded and what the modules export.
func c18Perturbed(t *testing.T, r *rand.Rand, w *CaseWriter, label string, ref *c18Net, snap c18Snap, g1 c18Genesis, st1 map[string]json.RawMessage, m1 c18Mods) {
	cdc := ref.app.AppCodec()
	m := m1
	var unsanc []sdk.AccAddress
	what := ""
	importTime := time.Unix(g1.TimeUnix, 0)
	rev := func(n int, swap func(i, j int)) {
		for i, j := 0, n-1; i < j; i, j = i+1, j-1 {
			swap(i, j)
		}
	}
	switch k := r.Intn(20); k {
	case 0:
		what = "hold:reverse"
		hs := append([]*hold.AccountHold{}, m.Hold.Holds...)
		rev(len(hs), func(i, j int) { hs[i], hs[j] = hs[j], hs[i] })
		m.Hold.Holds = hs
	case 1:
		what = "hold:duplicate"
		if len(m.Hold.Holds) == 0 {
			return
		}
		h := m.Hold.Holds[r.Intn(len(m.Hold.Holds))]
		m.Hold.Holds = append(append([]*hold.AccountHold{}, m.Hold.Holds...), &hold.AccountHold{Address: h.Address, Amount: h.Amount})
	case 2:
		what = "hold:zero-entry"
		m.Hold.Holds = append(append([]*hold.AccountHold{}, m.Hold.Holds...), &hold.AccountHold{Address: ref.accts[11].addr.String(), Amount: sdk.Coins{sdk.Coin{Denom: c18Price, Amount: sdkmath.ZeroInt()}}})
	case 3:
		what = "hold:more-than-balance"
		m.Hold.Holds = append(append([]*hold.AccountHold{}, m.Hold.Holds...), &hold.AccountHold{Address: ref.accts[11].addr.String(), Amount: sdk.NewCoins(sdk.NewInt64Coin("nosuchcoin", 5))})
	case 4:
		what = "name:reverse"
		bs := append([]nametypes.NameRecord{}, m.Name.Bindings...)
		rev(len(bs), func(i, j int) { bs[i], bs[j] = bs[j], bs[i] })
		m.Name.Bindings = bs
	case 5:
		what = "name:duplicate"
		b := m.Name.Bindings[r.Intn(len(m.Name.Bindings))]
		m.Name.Bindings = append(append([]nametypes.NameRecord{}, m.Name.Bindings...), b)
	case 6:
		what = "name:drop-accountdata"
		var bs []nametypes.NameRecord
		for _, b := range m.Name.Bindings {
			if b.Name != attrtypes.AccountDataName {
				bs = append(bs, b)
			}
		}
		m.Name.Bindings = bs
	case 7:
		what = "name:accountdata-unrestricted-foreign"
		bs := append([]nametypes.NameRecord{}, m.Name.Bindings...)
		for i := range bs {
			if bs[i].Name == attrtypes.AccountDataName {
				bs[i].Restricted = false
				bs[i].Address = ref.accts[11].addr.String()
			}
		}
		m.Name.Bindings = bs
	case 8:
		what = "attribute:reverse"
		as := append([]attrtypes.Attribute{}, m.Attr.Attributes...)
		rev(len(as), func(i, j int) { as[i], as[j] = as[j], as[i] })
		m.Attr.Attributes = as
	case 9:
		what = "attribute:one-expired"
		if len(m.Attr.Attributes) == 0 {
			return
		}
		as := append([]attrtypes.Attribute{}, m.Attr.Attributes...)
		i := r.Intn(len(as))
		old := importTime.Add(-time.Hour)
		as[i].ExpirationDate = &old
		m.Attr.Attributes = as
	case 10:
		what = "attribute:duplicate-changed-expiry"
		if len(m.Attr.Attributes) == 0 {
			return
		}
		a := m.Attr.Attributes[r.Intn(len(m.Attr.Attributes))]
		later := importTime.Add(1000 * time.Hour)
		a.ExpirationDate = &later
		m.Attr.Attributes = append(append([]attrtypes.Attribute{}, m.Attr.Attributes...), a)
	case 11:
		what = "quarantine:reverse"
		q := m.Quar
		q.QuarantinedAddresses = append([]string{}, q.QuarantinedAddresses...)
		rev(len(q.QuarantinedAddresses), func(i, j int) {
			q.QuarantinedAddresses[i], q.QuarantinedAddresses[j] = q.QuarantinedAddresses[j], q.QuarantinedAddresses[i]
		})
		q.QuarantinedFunds = append([]*quarantine.QuarantinedFunds{}, q.QuarantinedFunds...)
		rev(len(q.QuarantinedFunds), func(i, j int) {
			q.QuarantinedFunds[i], q.QuarantinedFunds[j] = q.QuarantinedFunds[j], q.QuarantinedFunds[i]
		})
		q.AutoResponses = append([]*quarantine.AutoResponseEntry{}, q.AutoResponses...)
		rev(len(q.AutoResponses), func(i, j int) { q.AutoResponses[i], q.AutoResponses[j] = q.AutoResponses[j], q.AutoResponses[i] })
		m.Quar = q
	case 12:
		what = "quarantine:unspecified-auto-response+duplicate-optin"
		q := m.Quar
		q.AutoResponses = append(append([]*quarantine.AutoResponseEntry{}, q.AutoResponses...),
			&quarantine.AutoResponseEntry{ToAddress: ref.accts[7].addr.String(), FromAddress: ref.accts[12].addr.String(), Response: quarantine.AUTO_RESPONSE_UNSPECIFIED},
			&quarantine.AutoResponseEntry{ToAddress: ref.accts[7].addr.String(), FromAddress: ref.accts[11].addr.String(), Response: quarantine.AUTO_RESPONSE_DECLINE})
		q.QuarantinedAddresses = append(append([]string{}, q.QuarantinedAddresses...), ref.accts[7].addr.String(), ref.accts[7].addr.String())
		m.Quar = q
	case 13:
		what = "quarantine:duplicate-funds"
		if len(m.Quar.QuarantinedFunds) == 0 {
			return
		}
		q := m.Quar
		f := *q.QuarantinedFunds[r.Intn(len(q.QuarantinedFunds))]
		f.Declined = !f.Declined
		q.QuarantinedFunds = append(append([]*quarantine.QuarantinedFunds{}, q.QuarantinedFunds...), &f)
		m.Quar = q
	case 14:
		what = "sanction:reverse"
		s := m.Sanc
		s.SanctionedAddresses = append([]string{}, s.SanctionedAddresses...)
		rev(len(s.SanctionedAddresses), func(i, j int) {
			s.SanctionedAddresses[i], s.SanctionedAddresses[j] = s.SanctionedAddresses[j], s.SanctionedAddresses[i]
		})
		s.TemporaryEntries = append([]*sanction.TemporaryEntry{}, s.TemporaryEntries...)
		rev(len(s.TemporaryEntries), func(i, j int) {
			s.TemporaryEntries[i], s.TemporaryEntries[j] = s.TemporaryEntries[j], s.TemporaryEntries[i]
		})
		m.Sanc = s
	case 15:
		what = "sanction:temp-duplicate-flipped"
		if len(m.Sanc.TemporaryEntries) == 0 {
			return
		}
		s := m.Sanc
		e := *s.TemporaryEntries[r.Intn(len(s.TemporaryEntries))]
		if e.Status == sanction.TEMP_STATUS_SANCTIONED {
			e.Status = sanction.TEMP_STATUS_UNSANCTIONED
		} else {
			e.Status = sanction.TEMP_STATUS_SANCTIONED
		}
		s.TemporaryEntries = append(append([]*sanction.TemporaryEntry{}, s.TemporaryEntries...), &e)
		m.Sanc = s
	case 16:
		what = "sanction:module-account"
		s := m.Sanc
		gov := authtypes.NewModuleAddress("gov")
		unsanc = append(unsanc, gov)
		if r.Intn(2) == 0 {
			s.SanctionedAddresses = append(append([]string{}, s.SanctionedAddresses...), gov.String())
		} else {
			s.TemporaryEntries = append(append([]*sanction.TemporaryEntry{}, s.TemporaryEntries...), &sanction.TemporaryEntry{Address: gov.String(), ProposalId: 77, Status: sanction.TEMP_STATUS_SANCTIONED})
		}
		m.Sanc = s
	case 17:
		what = "msgfees:reverse+duplicate"
		fs := append([]msgfeestypes.MsgFee{}, m.Fees.MsgFees...)
		rev(len(fs), func(i, j int) { fs[i], fs[j] = fs[j], fs[i] })
		if len(fs) > 0 {
			d := fs[r.Intn(len(fs))]
			d.AdditionalFee = d.AdditionalFee.AddAmount(sdkmath.NewInt(17))
			fs = append(fs, d)
		}
		m.Fees.MsgFees = fs
	case 18:
		what = "trigger:reverse"
		tg := m.Trig
		tg.Triggers = append([]triggertypes.Trigger{}, tg.Triggers...)
		rev(len(tg.Triggers), func(i, j int) { tg.Triggers[i], tg.Triggers[j] = tg.Triggers[j], tg.Triggers[i] })
		tg.GasLimits = append([]triggertypes.GasLimit{}, tg.GasLimits...)
		rev(len(tg.GasLimits), func(i, j int) { tg.GasLimits[i], tg.GasLimits[j] = tg.GasLimits[j], tg.GasLimits[i] })
		m.Trig = tg
	default:
		what = "trigger:gas-limit-missing-or-duplicate"
		tg := m.Trig
		if len(tg.GasLimits) == 0 {
			return
		}
		if r.Intn(2) == 0 {
			tg.GasLimits = append([]triggertypes.GasLimit{}, tg.GasLimits[1:]...)
		} else {
			tg.GasLimits = append(append([]triggertypes.GasLimit{}, tg.GasLimits...), tg.GasLimits[0])
			if len(tg.Triggers) > 0 {
				tg.Triggers = append(append([]triggertypes.Trigger{}, tg.Triggers...), tg.Triggers[0])
			}
		}
		m.Trig = tg
	}
	st := map[string]json.RawMessage{}
	for k, v := range st1 {
		st[k] = v
	}
	if err := try(func() error {
		st[quarantine.ModuleName] = cdc.MustMarshalJSON(&m.Quar)
		st[sanction.ModuleName] = cdc.MustMarshalJSON(&m.Sanc)
		st[nametypes.ModuleName] = cdc.MustMarshalJSON(&m.Name)
		st[attrtypes.ModuleName] = cdc.MustMarshalJSON(&m.Attr)
		st[msgfeestypes.ModuleName] = cdc.MustMarshalJSON(&m.Fees)
		st[hold.ModuleName] = cdc.MustMarshalJSON(&m.Hold)
		st[triggertypes.ModuleName] = cdc.MustMarshalJSON(&m.Trig)
		return nil
	}); err != nil {
		w.Count("perturbed_unencodable")
		return
	}
	bz, err := json.Marshal(st)
	if err != nil {
		return
	}
	gp := g1
	gp.AppState = bz
	obs := "None"
	accepted := false
	var mo c18Mods
	if e, err := c18Start(t, gp, ""); err == nil {
		mo, err = e.keeperMods()
		if err == nil {
			accepted = true
			obs = "(Some (" + mo.coq() + "))"
		}
		e.close()
	}
	w.Count("perturbed_" + strings.SplitN(what, ":", 2)[0])
	if accepted {
		w.Count("perturbed_accepted")
	} else {
		w.Count("perturbed_rejected")
	}
	tabs := c18Tables(snap, importTime, unsanc, m1, m, mo)
	w.Add(fmt.Sprintf("CImport %s\n (%s)\n (%s)\n %s", coqStr(label+" "+what), tabs, m.coq(), obs),
		map[string]any{"kind": "perturbed_import", "label": label, "perturbation": what, "accepted": accepted})
	w.Nontrivial(what + fmt.Sprint(accepted))
}

var _ = bytes.Equal

// c18AttrCounters: the attribute module's name->address lookup counters (prefix 0x03), raw.
func c18AttrCounters(n *c18Net) map[string]string {
	out := map[string]string{}
	for _, e := range n.rawStore(attrtypes.StoreKey) {
		if strings.HasPrefix(e, "03") {
			if kv := strings.SplitN(e, "=", 2); len(kv) == 2 {
				out[kv[0]] = kv[1]
			}
		}
	}
	return out
}

// c18AttrMsgTarget: the (name, account) whose lookup counter an attribute transaction touches: one
// attribute add / update / delete, possibly followed by the failing bank send of a rolled-back wrapper
func c18AttrMsgTarget(p *c18Tx) (name, account string, ok bool) {
	if p == nil || len(p.msgs) == 0 {
		return "", "", false
	}
	for _, m := range p.msgs[1:] {
		if _, isSend := m.(*banktypes.MsgSend); !isSend {
			return "", "", false
		}
	}
	switch m := p.msgs[0].(type) {
	case *attrtypes.MsgDeleteDistinctAttributeRequest:
		return m.Name, m.Account, true
	case *attrtypes.MsgDeleteAttributeRequest:
		return m.Name, m.Account, true
	case *attrtypes.MsgAddAttributeRequest:
		return m.Name, m.Account, true
	case *attrtypes.MsgUpdateAttributeRequest:
		return m.Name, m.Account, true
	}
	return "", "", false
}

// c18AttrCounterDiffers: the transaction is a single attribute add / update / delete and the lookup counter of
// its (name, account) had different values on the two chains before the block.
func c18AttrCounterDiffers(p *c18Tx, ctrA, ctrB map[string]string) bool {
	name, account, ok := c18AttrMsgTarget(p)
	if !ok {
		return false
	}
	key := hex.EncodeToString(attrtypes.AttributeNameAddrKeyPrefix(name, attrtypes.GetAttributeAddressBytes(account)))
	return ctrA[key] != ctrB[key]
}

// c18AttrDoubleCounted: the known shape exactly - on the exporting chain the counter of the
// (name, account) the transaction deletes from is ABOVE the number of records held, on the
// imported chain it IS that number.
func c18AttrDoubleCounted(p *c18Tx, ref, imp *c18Net) bool {
	name, account, ok := c18AttrMsgTarget(p)
	if !ok {
		return false
	}
	key := hex.EncodeToString(attrtypes.AttributeNameAddrKeyPrefix(name, attrtypes.GetAttributeAddressBytes(account)))
	count := func(n *c18Net) (uint64, uint64) {
		attrs, _ := n.app.AttributeKeeper.GetAttributes(n.queryCtx(), account, name)
		var c uint64
		if bz, err := hex.DecodeString(c18AttrCounters(n)[key]); err == nil && len(bz) == 8 {
			c = sdk.BigEndianToUint64(bz)
		}
		return c, uint64(len(attrs))
	}
	ca, ra := count(ref)
	cb, rb := count(imp)
	return ca > ra && cb == rb && ra == rb
}

// c18EventsPartEqual: the stripped post-import digests ("height:results|events") agree on the events part.
func c18EventsPartEqual(a, b []string) bool {
	if len(a) != len(b) {
		return false
	}
	for i := range a {
		x, y := strings.Split(a[i], "|"), strings.Split(b[i], "|")
		if len(x) != 2 || len(y) != 2 || x[1] != y[1] {
			return false
		}
	}
	return true
}

// c18AttrCounterMismatch lists, for one chain, the (name, account) pairs whose stored name->address
// lookup counter (attribute store, prefix 0x03: "rebuilt by InitGenesis" in Genesis/StorePrefixDoc.v)
// is not the number of attribute records the account holds under that name.  exact = false only
// lists counters that are too LOW or missing (the exporting chain's counters may be too high:
// known finding 2).
func c18AttrCounterMismatch(n *c18Net, exact bool) []string {
	want := map[string]uint64{}
	_ = try(func() error {
		return n.app.AttributeKeeper.IterateRecords(n.queryCtx(), attrtypes.AttributeKeyPrefix, func(a attrtypes.Attribute) error {
			want[hex.EncodeToString(attrtypes.AttributeNameAddrKeyPrefix(a.Name, a.GetAddressBytes()))]++
			return nil
		})
	})
	have := map[string]uint64{}
	for k, v := range c18AttrCounters(n) {
		if bz, err := hex.DecodeString(v); err == nil && len(bz) == 8 {
			have[k] = sdk.BigEndianToUint64(bz)
		}
	}
	var out []string
	for k, w := range want {
		if h := have[k]; h < w || (exact && h != w) {
			out = append(out, fmt.Sprintf("%s: counter %d, records %d", k, h, w))
		}
	}
	if exact {
		for k, h := range have {
			if _, ok := want[k]; !ok {
				out = append(out, fmt.Sprintf("%s: counter %d, records 0", k, h))
			}
		}
	}
	sort.Strings(out)
	return out
}

// c18AttrCounterCases: the derived-entry obligation of the attribute lookup counters, on both chains
func c18AttrCounterCases(w *CaseWriter, label string, ref, imp *c18Net, direct bool) {
	for _, c := range []struct {
		name string
		bad  []string
	}{
		{"attribute:lookup-counter-below-records(exporting)", c18AttrCounterMismatch(ref, false)},
		// right after the import the rebuilt counters are exact; once the imported chain has run
		// transactions of its own it may double-count like any chain (known finding 2)
		{map[bool]string{true: "attribute:lookup-counter-is-not-record-count(imported)", false: "attribute:lookup-counter-below-records(imported)"}[direct], c18AttrCounterMismatch(imp, direct)},
	} {
		desc := map[string]any{"kind": "store", "label": label, "module": c.name, "differing_entries": len(c.bad)}
		if len(c.bad) > 0 {
			desc["first_differences"] = c.bad[:min(len(c.bad), 12)]
		}
		w.Add(fmt.Sprintf("CStore %s %s %s", coqStr(label), coqStr(c.name), c18N(uint64(len(c.bad)))), desc)
	}
}
