//go:build c02

package harness

// C02 — funds on hold always equal the account's open exchange obligations.
//
// Histories of 5–60 operations are run through the REAL message handlers of the exchange module
// (with the real hold and bank keepers behind them).  After every operation the harness reads back
// every order, commitment and payment from the exchange store, every hold from the hold store and
// the balances from the bank, and emits them as a Coq term of the shape of the model's state; it also asks
// the hold module's GetHolds gRPC query what it reports for every account.
//
// Besides the exchange messages the histories contain: delegations of the account's own funds (staking
// MsgDelegate and the bank keeper's DelegateCoins route) -- the one bank route that looks at the locked
// coins with the vesting bypass set --, block time moving over the end of the vesting schedules, governance
// changing params and fees, markets switching their flags, and queries run on the history's own context.
// Corners visited on purpose (BUILDING.md, "generator dimensions"): addresses of 20 / 32 bytes, one a prefix
// of another, last byte 0xFF / 0x00, upper-case bech32; denoms that differ by case only, are prefixes of one
// another, use / - . and have the maximum length, and the staking bond denom; empty, longest, non-ASCII and
// recurring external ids; amounts around 2^63, 2^64, 2^65 and 2^64/k.

import (
	"fmt"
	"math/big"
	"math/rand"
	"os"
	"sort"
	"strings"
	"testing"
	"time"

	sdkmath "cosmossdk.io/math"
	sdk "github.com/cosmos/cosmos-sdk/types"
	authtypes "github.com/cosmos/cosmos-sdk/x/auth/types"
	vesting "github.com/cosmos/cosmos-sdk/x/auth/vesting/types"
	banktypes "github.com/cosmos/cosmos-sdk/x/bank/types"
	stakingtypes "github.com/cosmos/cosmos-sdk/x/staking/types"

	simapp "github.com/provenance-io/provenance/app"
	"github.com/provenance-io/provenance/internal/pioconfig"
	"github.com/provenance-io/provenance/x/exchange"
	exchangekeeper "github.com/provenance-io/provenance/x/exchange/keeper"
	"github.com/provenance-io/provenance/x/hold"
)

// The traded denoms: two that differ only by case, one that has another as a prefix and uses every
// special character this chain allows (IBC / factory style; its denom regex has no : or _), and the longest legal denom.
var (
	c02DA = "cna"
	c02DB = "cnA"
	c02DC = "cna/x-y.z9"
	c02DD = "cnd" + strings.Repeat("z", 125)
)
var c02Denoms = []string{c02DA, c02DB, c02DC, c02DD}

type c02World struct {
	t       *testing.T
	app     *simapp.App
	ctx     sdk.Context
	r       *rand.Rand
	accts   []sdk.AccAddress // traders; ids 1..n
	admin   sdk.AccAddress   // market admin (all permissions); id n+1
	denoms  []string         // traded denoms of this history (prefix of c02Denoms)
	markets []uint32
	addrID  map[string]int64
	extID   map[string]int64
	denomID map[string]int64
	lastID  uint64
	payN    int
	pairs   [][2]string // (assets denom, price denom) used by this history
	vesting map[string]bool // traders (by address bytes) that are vesting accounts in this history
	bond    string           // the staking bond denom
	val     string           // operator address of the chain's validator
	all     []string         // every denom observed: c02Denoms and the bond denom
	whale   map[string]bool  // traders (by address bytes) that own more than 2^64 of every funded denom
	whales  []sdk.AccAddress
	bondIn  bool             // the bond denom is one of the traded denoms of this history
	vestEnd int64            // unix time at which the vesting schedules of this history end
}

const c02BipsMarket = 3 // charges the exchange's commitment settlement fee (bips, NAV conversion)
var c02Interm = c02DD // its intermediary denom

// ---------- observation ----------

type c02Obs struct {
	orders  []*exchange.Order
	commits []exchange.Commitment
	pays    []*exchange.Payment
	holds   []c02KV
	qholds  []c02KV // the holds as the hold module's gRPC query REPORTS them, account by account
	bals    []c02KV
	vest    []c02KV
	lastID  uint64
}

type c02KV struct {
	a, d int64
	v    sdkmath.Int
}

// addrKey identifies an account by its BYTES, however the bech32 string spells it (lower or UPPER case).
func addrKey(addr string) string {
	bz, err := sdk.AccAddressFromBech32(addr)
	if err != nil {
		return "?" + addr
	}
	return string(bz)
}

func sameAddr(a, b string) bool { return a == b || (a != "" && b != "" && addrKey(a) == addrKey(b)) }

func (w *c02World) aid(addr string) int64 {
	if addr == "" {
		return 0
	}
	k := addrKey(addr)
	if id, ok := w.addrID[k]; ok {
		return id
	}
	id := int64(1000 + len(w.addrID))
	w.addrID[k] = id
	return id
}

// spell returns the account's address as a message would carry it: mostly lower case, sometimes the
// (equally valid) UPPER-case bech32 spelling.
func (w *c02World) spell(a sdk.AccAddress) string {
	if w.pick(7) == 0 {
		return strings.ToUpper(a.String())
	}
	return a.String()
}

func (w *c02World) did(denom string) int64 {
	if id, ok := w.denomID[denom]; ok {
		return id
	}
	id := int64(50 + len(w.denomID))
	w.denomID[denom] = id
	return id
}

func (w *c02World) eid(ext string) int64 {
	if id, ok := w.extID[ext]; ok {
		return id
	}
	id := int64(1 + len(w.extID))
	w.extID[ext] = id
	return id
}

func (w *c02World) universe() []sdk.AccAddress {
	return append(append([]sdk.AccAddress{}, w.accts...), w.admin)
}

func (w *c02World) observe(ctx sdk.Context) *c02Obs {
	ob := &c02Obs{lastID: w.lastID}
	if err := w.app.ExchangeKeeper.IterateOrders(ctx, func(o *exchange.Order) bool {
		ob.orders = append(ob.orders, o)
		return false
	}); err != nil {
		w.t.Fatalf("IterateOrders: %v", err)
	}
	w.app.ExchangeKeeper.IterateCommitments(ctx, func(c exchange.Commitment) bool {
		ob.commits = append(ob.commits, c)
		return false
	})
	w.app.ExchangeKeeper.IteratePayments(ctx, func(p *exchange.Payment) bool {
		ob.pays = append(ob.pays, p)
		return false
	})
	ahs, err := w.app.HoldKeeper.GetAllAccountHolds(ctx)
	if err != nil {
		w.t.Fatalf("GetAllAccountHolds: %v", err)
	}
	for _, ah := range ahs {
		for _, c := range ah.Amount {
			ob.holds = append(ob.holds, c02KV{w.aid(ah.Address), w.did(c.Denom), c.Amount})
		}
	}
	for i, a := range w.universe() {
		// "the amount reported as on hold": the GetHolds query, asked on the history's own context, with the
		// address in either spelling
		spelled := a.String()
		if (i+len(ob.orders)+len(ob.pays))%2 == 0 {
			spelled = strings.ToUpper(spelled)
		}
		resp, qerr := w.app.HoldKeeper.GetHolds(ctx, &hold.GetHoldsRequest{Address: spelled})
		if qerr != nil {
			w.t.Fatalf("GetHolds(%s): %v", spelled, qerr)
		}
		for _, c := range resp.Amount {
			ob.qholds = append(ob.qholds, c02KV{w.aid(a.String()), w.did(c.Denom), c.Amount})
		}
		for _, d := range w.all {
			b := w.app.BankKeeper.GetBalance(ctx, a, d)
			ob.bals = append(ob.bals, c02KV{w.aid(a.String()), w.did(d), b.Amount})
		}
		// coins still locked by a vesting schedule (the bank adds them to the coins on hold)
		if va, ok := w.app.AccountKeeper.GetAccount(ctx, a).(banktypes.VestingAccount); ok {
			for _, c := range va.LockedCoins(ctx.BlockTime()) {
				ob.vest = append(ob.vest, c02KV{w.aid(a.String()), w.did(c.Denom), c.Amount})
			}
		}
	}
	return ob
}

func (ob *c02Obs) get(kvs []c02KV, a, d int64) sdkmath.Int {
	for _, kv := range kvs {
		if kv.a == a && kv.d == d {
			return kv.v
		}
	}
	return sdkmath.ZeroInt()
}

// spendable = balance - hold - still vesting, as the bank computes it.
func (ob *c02Obs) spendable(a, d int64) sdkmath.Int {
	return ob.get(ob.bals, a, d).Sub(ob.get(ob.holds, a, d)).Sub(ob.get(ob.vest, a, d))
}

func (ob *c02Obs) bal(a, d int64) sdkmath.Int {
	for _, kv := range ob.bals {
		if kv.a == a && kv.d == d {
			return kv.v
		}
	}
	return sdkmath.ZeroInt()
}

func (ob *c02Obs) order(id uint64) *exchange.Order {
	for _, o := range ob.orders {
		if o.OrderId == id {
			return o
		}
	}
	return nil
}

// ---------- Coq terms ----------

func (w *c02World) coinT(c sdk.Coin) string {
	return fmt.Sprintf("(%d, %s)", w.did(c.Denom), zInt(c.Amount))
}

func (w *c02World) coinsT(cs sdk.Coins) string {
	items := make([]string, 0, len(cs))
	for _, c := range cs {
		items = append(items, w.coinT(c))
	}
	return coqList(items)
}

func (w *c02World) optCoinT(c *sdk.Coin) string {
	if c == nil {
		return "[]"
	}
	return coqList([]string{w.coinT(*c)})
}

func (w *c02World) orderT(o *exchange.Order) string {
	if o.IsAskOrder() {
		a := o.GetAskOrder()
		return fmt.Sprintf("(mk_order true %d %d %s %s %s %s)", w.aid(a.Seller), a.MarketId, w.coinT(a.Assets), w.coinT(a.Price),
			w.optCoinT(a.SellerSettlementFlatFee), coqBool(a.AllowPartial))
	}
	b := o.GetBidOrder()
	return fmt.Sprintf("(mk_order false %d %d %s %s %s %s)", w.aid(b.Buyer), b.MarketId, w.coinT(b.Assets), w.coinT(b.Price),
		w.coinsT(b.BuyerSettlementFees), coqBool(b.AllowPartial))
}

func (w *c02World) kvT(kvs []c02KV) string {
	items := make([]string, 0, len(kvs))
	for _, kv := range kvs {
		items = append(items, fmt.Sprintf("((%d, %d), %s)", kv.a, kv.d, zInt(kv.v)))
	}
	return coqList(items)
}

func (w *c02World) stateT(ob *c02Obs) string {
	var os, cs, ps []string
	for _, o := range ob.orders {
		os = append(os, fmt.Sprintf("(%d, %s)", o.OrderId, w.orderT(o)))
	}
	for _, c := range ob.commits {
		cs = append(cs, fmt.Sprintf("((%d, %d), %s)", c.MarketId, w.aid(c.Account), w.coinsT(c.Amount)))
	}
	for _, p := range ob.pays {
		ps = append(ps, fmt.Sprintf("((%d, %d), mk_payment %s %s %d)", w.aid(p.Source), w.eid(p.ExternalId),
			w.coinsT(p.SourceAmount), w.coinsT(p.TargetAmount), w.aid(p.Target)))
	}
	return fmt.Sprintf("(mk_state %s %d %s %s %s %s %s)", coqList(os), ob.lastID, coqList(cs), coqList(ps), w.kvT(ob.holds), w.kvT(ob.bals), w.kvT(ob.vest))
}

func (w *c02World) entriesT(es []exchange.AccountAmount) string {
	items := make([]string, 0, len(es))
	for _, e := range es {
		items = append(items, fmt.Sprintf("(%d, %s)", w.aid(e.Account), w.coinsT(e.Amount)))
	}
	return coqList(items)
}

func zList(ids []uint64) string {
	items := make([]string, 0, len(ids))
	for _, id := range ids {
		items = append(items, fmt.Sprintf("%d", id))
	}
	return coqList(items)
}

// ---------- running one message ----------

type c02Result struct {
	ok   bool
	resp any
	err  error
}

func c02ValidateBasic(msg sdk.Msg) error {
	if vb, ok := msg.(interface{ ValidateBasic() error }); ok {
		return try(vb.ValidateBasic)
	}
	return nil
}

// execOn runs ValidateBasic and the real handler on a cache of ctx; the cache is written only when
// asked for and the message succeeded.
func (w *c02World) execOn(ctx sdk.Context, msg sdk.Msg, commit bool) c02Result {
	return w.execOp(ctx, &c02Op{msg: msg}, commit)
}

func (w *c02World) execOp(ctx sdk.Context, op *c02Op, commit bool) c02Result {
	cctx, write := ctx.CacheContext()
	var resp any
	msg := op.msg
	err := try(func() error {
		if op.call != nil { // a keeper call instead of a message
			return op.call(cctx)
		}
		if e := c02ValidateBasic(msg); e != nil {
			return e
		}
		h := w.app.MsgServiceRouter().Handler(msg)
		if h == nil {
			return fmt.Errorf("no handler for %T", msg)
		}
		res, e := h(cctx, msg)
		if e != nil {
			return e
		}
		if res != nil && len(res.MsgResponses) > 0 {
			resp = res.MsgResponses[0].GetCachedValue()
		}
		return nil
	})
	if err != nil {
		return c02Result{ok: false, err: err}
	}
	if commit {
		write()
	}
	return c02Result{ok: true, resp: resp}
}

func (w *c02World) exec(op *c02Op) c02Result {
	if op.direct != nil { // something that is not a transaction (block time, a query): runs on the context itself
		if err := try(func() error { return op.direct(w) }); err != nil {
			return c02Result{ok: false, err: err}
		}
		return c02Result{ok: true}
	}
	return w.execOp(w.ctx, op, true)
}

// richAccepts answers: would the implementation accept this message if `who` had unlimited spendable
// funds?  (Same state, same message, thrown away afterwards.)  A refusal that remains is not about funds.
func (w *c02World) richAccepts(msg sdk.Msg, who sdk.AccAddress) bool {
	return w.richAcceptsOp(&c02Op{msg: msg}, who)
}

func (w *c02World) richAcceptsOp(op *c02Op, who sdk.AccAddress) bool {
	cctx, _ := w.ctx.CacheContext()
	var cs sdk.Coins
	for _, d := range w.all {
		cs = cs.Add(sdk.NewCoin(d, sdkmath.NewIntFromBigInt(pow2(100))))
	}
	if err := try(func() error {
		if e := w.app.BankKeeper.MintCoins(cctx, "mint", cs); e != nil {
			return e
		}
		return w.app.BankKeeper.SendCoinsFromModuleToAccount(cctx, "mint", who, cs)
	}); err != nil {
		return false
	}
	return w.execOp(cctx, op, false).ok
}

// ---------- generators ----------

// c02Op is one generated operation: the message and how to render the model operation from the
// observed outcome.
type c02Op struct {
	kind string
	msg  sdk.Msg
	// adm computes the model's [adm] flag ("every check the model does not make itself passed") from
	// facts known by construction or asked of the implementation in a funds-rich copy of the state;
	// nil means: the implementation's own answer (one-sided comparison).
	adm  func(ok bool) bool
	term func(adm, ok bool, before, after *c02Obs) string
	// call: a keeper call run like a message (on a cache that is written on success);
	// direct: not a transaction at all (block time moves, a query on the context whose writes persist).
	call   func(ctx sdk.Context) error
	direct func(w *c02World) error
}

func (w *c02World) pick(n int) int { return w.r.Intn(n) }

func (w *c02World) trader() sdk.AccAddress { return w.accts[w.pick(len(w.accts))] }

func (w *c02World) otherTrader(not string) sdk.AccAddress {
	for i := 0; i < 8; i++ {
		a := w.trader()
		if !sameAddr(a.String(), not) {
			return a
		}
	}
	return w.trader()
}

func (w *c02World) market() uint32 { return w.markets[w.pick(len(w.markets))] }

func (w *c02World) inHistory(denom string) bool {
	for _, d := range w.denoms {
		if d == denom {
			return true
		}
	}
	return false
}

// option picks a fee option, preferring the history's denoms.
func (w *c02World) option(opts []sdk.Coin) *sdk.Coin {
	if len(opts) == 0 {
		return nil
	}
	var pref []sdk.Coin
	for _, o := range opts {
		if w.inHistory(o.Denom) {
			pref = append(pref, o)
		}
	}
	if len(pref) == 0 || w.pick(10) == 0 {
		pref = opts
	}
	c := pref[w.pick(len(pref))]
	return &c
}

func roundUpTo(x sdkmath.Int, mm sdkmath.Int) sdkmath.Int {
	rem := x.Mod(mm)
	if rem.IsZero() {
		return x
	}
	return x.Add(mm.Sub(rem))
}

var c02AssetAmts = []int64{1, 2, 4, 6, 10, 20}

// c02BigAmts: asset amounts around 2^63, 2^64 and 2^64/k for the k a fast path might multiply by.
func c02BigAmts() []sdkmath.Int {
	var out []sdkmath.Int
	for _, b := range []*big.Int{pow2(63), pow2(64), pow2(65)} {
		for _, d := range []int64{-1, 0, 1} {
			out = append(out, sdkmath.NewIntFromBigInt(bigAdd(b, d)))
		}
	}
	for _, k := range []int64{2, 100, 10000} {
		q := new(big.Int).Quo(pow2(64), big.NewInt(k))
		out = append(out, sdkmath.NewIntFromBigInt(q), sdkmath.NewIntFromBigInt(bigAdd(q, 1)))
	}
	return out
}

// below picks an amount in 1..x.
func (w *c02World) below(x sdkmath.Int) sdkmath.Int {
	switch {
	case !x.IsPositive():
		return sdkmath.OneInt()
	case x.IsInt64():
		return sdkmath.NewInt(1 + w.r.Int63n(x.Int64()))
	default:
		return x.QuoRaw(int64(2 + w.pick(3)))
	}
}

// assetAmount: a small asset amount, or for a whale sometimes one beyond 64 bits.
func (w *c02World) assetAmount(who sdk.AccAddress) sdkmath.Int {
	if w.whale[string(who)] && w.pick(2) == 0 {
		pool := c02BigAmts()
		return pool[w.pick(len(pool))]
	}
	return sdkmath.NewInt(c02AssetAmts[w.pick(len(c02AssetAmts))])
}

// orderExtID: most orders carry no external id; some do (an index entry per market), sometimes one that is taken.
func (w *c02World) orderExtID(before *c02Obs) string {
	switch w.pick(10) {
	case 0:
		w.payN++
		return fmt.Sprintf("order-%d", w.payN)
	case 1:
		w.payN++
		return strings.Repeat("ö", 20) + fmt.Sprintf("%d", w.payN)
	case 2:
		for _, o := range before.orders {
			if o.GetExternalID() != "" {
				return o.GetExternalID() // taken (in that order's market)
			}
		}
	}
	return ""
}

// buyerFees computes settlement fees that satisfy the market for the given price.
func (w *c02World) buyerFees(mkt *exchange.Market, price sdk.Coin, assetsAmt sdkmath.Int, partial bool) sdk.Coins {
	var fees sdk.Coins
	if f := w.option(mkt.FeeBuyerSettlementFlat); f != nil {
		fees = fees.Add(*f)
	}
	var ratios []exchange.FeeRatio
	for _, r := range mkt.FeeBuyerSettlementRatios {
		if r.Price.Denom == price.Denom {
			ratios = append(ratios, r)
		}
	}
	if len(ratios) > 0 {
		var pref []exchange.FeeRatio
		for _, r := range ratios {
			if w.inHistory(r.Fee.Denom) {
				pref = append(pref, r)
			}
		}
		if len(pref) == 0 {
			pref = ratios
		}
		r := pref[w.pick(len(pref))]
		if fee, err := r.ApplyTo(price); err == nil {
			fees = fees.Add(fee)
		}
	}
	if len(fees) == 0 && w.pick(6) == 0 {
		// a voluntary fee in a market that asks for none
		fees = sdk.NewCoins(sdk.NewCoin(w.denoms[w.pick(len(w.denoms))], assetsAmt.MulRaw(int64(1+w.pick(5)))))
	}
	if partial {
		out := sdk.Coins{}
		for _, c := range fees {
			out = out.Add(sdk.NewCoin(c.Denom, roundUpTo(c.Amount, assetsAmt)))
		}
		fees = out
	}
	return fees
}

func (w *c02World) sellerFlat(mkt *exchange.Market, priceDenom string, assetsAmt sdkmath.Int, partial bool) *sdk.Coin {
	f := w.option(mkt.FeeSellerSettlementFlat)
	if f == nil {
		if w.pick(4) != 0 {
			return nil
		}
		// voluntary flat fee; sometimes in the price denom (then it is NOT held)
		d := w.denoms[w.pick(len(w.denoms))]
		if w.pick(3) == 0 {
			d = priceDenom
		}
		c := sdk.NewInt64Coin(d, int64(1+w.pick(5)))
		f = &c
	}
	if partial {
		c := sdk.NewCoin(f.Denom, roundUpTo(f.Amount, assetsAmt))
		f = &c
	}
	return f
}

func (w *c02World) pair() (string, string) {
	p := w.pairs[w.pick(len(w.pairs))]
	return p[0], p[1]
}

func (w *c02World) genCreateAsk(before *c02Obs) *c02Op {
	m := w.market()
	mkt := w.app.ExchangeKeeper.GetMarket(w.ctx, m)
	seller := w.trader()
	ad, pd := w.pair()
	amt := w.assetAmount(seller)
	unit := int64(100 * (1 + w.pick(2)))
	partial := w.pick(3) != 0
	price := sdk.NewCoin(pd, amt.MulRaw(unit))
	assets := sdk.NewCoin(ad, amt)
	switch w.pick(14) {
	case 0: // more than the account can have
		assets = sdk.NewCoin(ad, sdkmath.NewIntFromBigInt(pow2(90)))
	case 1: // assets and price in the same denom: invalid
		price = sdk.NewCoin(ad, amt.MulRaw(unit))
	}
	ask := exchange.AskOrder{MarketId: m, Seller: w.spell(seller), Assets: assets, Price: price, AllowPartial: partial, ExternalId: w.orderExtID(before)}
	if mkt != nil {
		ask.SellerSettlementFlatFee = w.sellerFlat(mkt, pd, amt, partial)
	}
	msg := &exchange.MsgCreateAskRequest{AskOrder: ask}
	if mkt != nil {
		msg.OrderCreationFee = w.option(mkt.FeeCreateAskFlat)
		if msg.OrderCreationFee != nil && w.pick(12) == 0 {
			msg.OrderCreationFee = nil // missing required fee
		}
	}
	return &c02Op{kind: "create_ask", msg: msg,
		adm: func(ok bool) bool { return ok || w.richAccepts(msg, seller) },
		term: func(adm, _ bool, _, _ *c02Obs) string {
			o := exchange.NewOrder(0).WithAsk(&ask)
			return fmt.Sprintf("OCreate %s %s %s", coqBool(adm), w.orderT(o), w.optCoinT(msg.OrderCreationFee))
		}}
}

// genCreateAskFeeInAssets: an ask whose seller settlement flat fee is in the ASSETS denom (legal).  Its
// hold amount is assets + fee in ONE denom and must fit into the spendable balance as a whole; the amounts
// are placed around that boundary (spendable = balance - hold - still vesting).
func (w *c02World) genCreateAskFeeInAssets(before *c02Obs) *c02Op {
	m := w.market()
	mkt := w.app.ExchangeKeeper.GetMarket(w.ctx, m)
	if mkt == nil {
		return nil
	}
	ad, pd := w.pair()
	minFee := int64(1)
	if len(mkt.FeeSellerSettlementFlat) > 0 {
		found := false
		for _, c := range mkt.FeeSellerSettlementFlat {
			if c.Denom == ad {
				minFee, found = c.Amount.Int64(), true
			}
		}
		if !found {
			return nil // this market takes its flat fee in other denoms only
		}
	}
	// prefer a seller with little to spend in the assets denom
	seller := w.trader()
	for i := 0; i < 4; i++ {
		o := w.trader()
		if before.spendable(w.aid(o.String()), w.did(ad)).LT(before.spendable(w.aid(seller.String()), w.did(ad))) {
			seller = o
		}
	}
	msg := &exchange.MsgCreateAskRequest{}
	var cfeeInAssets int64
	if opts := mkt.FeeCreateAskFlat; len(opts) > 0 {
		c := opts[w.pick(len(opts))]
		for _, o := range opts { // a creation fee in another denom keeps the boundary exact
			if o.Denom != ad && w.pick(3) != 0 {
				c = o
			}
		}
		msg.OrderCreationFee = &c
		if c.Denom == ad {
			cfeeInAssets = c.Amount.Int64()
		}
	}
	sp := before.spendable(w.aid(seller.String()), w.did(ad))
	if !sp.IsInt64() || sp.Int64() < minFee+1+cfeeInAssets {
		sp = sdkmath.NewInt(minFee + 1 + cfeeInAssets + int64(w.pick(50)))
	}
	total := sp.Int64() - cfeeInAssets + int64(w.pick(7)-3) // -3 .. +3 around what can be held
	if w.pick(8) == 0 {
		total = 1 + w.r.Int63n(sp.Int64()) // anywhere below
	}
	fee := minFee + int64(w.pick(4))
	if w.pick(3) == 0 && total > 2*minFee {
		fee = total / 2 // each part alone fits, the sum may not
	}
	if total-fee < 1 {
		total = fee + 1
	}
	assets := sdk.NewInt64Coin(ad, total-fee)
	flat := sdk.NewInt64Coin(ad, fee)
	ask := exchange.AskOrder{MarketId: m, Seller: seller.String(), Assets: assets, Price: sdk.NewInt64Coin(pd, 100*(1+int64(w.pick(50)))),
		SellerSettlementFlatFee: &flat, AllowPartial: false}
	msg.AskOrder = ask
	return &c02Op{kind: "create_ask_fee_in_assets", msg: msg,
		adm: func(ok bool) bool { return ok || w.richAccepts(msg, seller) },
		term: func(adm, _ bool, _, _ *c02Obs) string {
			o := exchange.NewOrder(0).WithAsk(&ask)
			return fmt.Sprintf("OCreate %s %s %s", coqBool(adm), w.orderT(o), w.optCoinT(msg.OrderCreationFee))
		}}
}

// genSetExtID: MsgMarketSetOrderExternalID re-stores an order; its hold must not move.
func (w *c02World) genSetExtID(before *c02Obs) *c02Op {
	if len(before.orders) == 0 {
		return nil
	}
	o := before.orders[w.pick(len(before.orders))]
	admin := w.admin.String()
	if w.pick(8) == 0 {
		admin = w.trader().String()
	}
	id, m := o.OrderId, o.GetMarketID()
	if w.pick(10) == 0 {
		id = w.lastID + 5 // no such order
	}
	w.payN++
	msg := &exchange.MsgMarketSetOrderExternalIDRequest{Admin: admin, MarketId: m, OrderId: id, ExternalId: fmt.Sprintf("ext-%d-%d", id, w.payN)}
	return &c02Op{kind: "set_external_id", msg: msg, term: func(_, ok bool, _, _ *c02Obs) string {
		return fmt.Sprintf("OSetExtId %s %d", coqBool(ok), id)
	}}
}

// genWithdraw: MsgMarketWithdraw moves collected fees from the market account to an account.
func (w *c02World) genWithdraw(before *c02Obs) *c02Op {
	m := w.market()
	bal := w.app.BankKeeper.GetAllBalances(w.ctx, exchange.GetMarketAddress(m))
	var amount sdk.Coins
	for _, c := range bal {
		if w.inHistory(c.Denom) || w.pick(3) == 0 {
			amount = amount.Add(sdk.NewCoin(c.Denom, w.below(c.Amount)))
		}
	}
	if amount.IsZero() {
		if w.pick(4) != 0 {
			return nil
		}
		amount = sdk.NewCoins(sdk.NewInt64Coin(w.denoms[0], 5)) // the market account has nothing
	}
	if w.pick(10) == 0 {
		amount = amount.Add(sdk.NewInt64Coin(w.denoms[0], 1_000_000_000))
	}
	admin := w.admin.String()
	if w.pick(8) == 0 {
		admin = w.trader().String()
	}
	to := w.trader()
	if w.pick(4) == 0 {
		to = w.admin
	}
	msg := &exchange.MsgMarketWithdrawRequest{Admin: admin, MarketId: m, ToAddress: to.String(), Amount: amount}
	return &c02Op{kind: "market_withdraw", msg: msg, term: func(_, ok bool, _, _ *c02Obs) string {
		return fmt.Sprintf("OWithdraw %s %d %s", coqBool(ok), w.aid(to.String()), w.coinsT(amount))
	}}
}

func (w *c02World) genCreateBid(before *c02Obs) *c02Op {
	m := w.market()
	mkt := w.app.ExchangeKeeper.GetMarket(w.ctx, m)
	buyer := w.trader()
	ad, pd := w.pair()
	amt := w.assetAmount(buyer)
	unit := sdkmath.NewInt(int64(100 * (2 + w.pick(2))))
	partial := w.pick(3) != 0
	// mirror an existing ask so that settlements find compatible pairs
	if w.pick(10) < 6 {
		var asks []*exchange.AskOrder
		for _, o := range before.orders {
			if o.IsAskOrder() && !sameAddr(o.GetAskOrder().Seller, buyer.String()) {
				asks = append(asks, o.GetAskOrder())
			}
		}
		if len(asks) > 0 {
			a := asks[w.pick(len(asks))]
			m = a.MarketId
			mkt = w.app.ExchangeKeeper.GetMarket(w.ctx, m)
			ad, pd = a.Assets.Denom, a.Price.Denom
			aa := a.Assets.Amount
			switch w.pick(4) {
			case 0:
				if aa.ModRaw(2).IsZero() {
					amt = aa.QuoRaw(2)
				} else {
					amt = aa
				}
			case 1:
				amt = aa.MulRaw(2)
			default:
				amt = aa
			}
			unit = a.Price.Amount.Quo(aa).AddRaw(int64(100 * w.pick(2)))
			if !unit.IsPositive() {
				unit = sdkmath.NewInt(100)
			}
			if !aa.IsInt64() && len(w.whales) > 0 {
				// only a whale can pay for a whale's order
				buyer = w.whales[w.pick(len(w.whales))]
				if sameAddr(buyer.String(), a.Seller) {
					buyer = w.whales[(w.pick(len(w.whales))+1)%len(w.whales)]
				}
			}
		}
	}
	price := sdk.NewCoin(pd, amt.Mul(unit))
	assets := sdk.NewCoin(ad, amt)
	if w.pick(14) == 0 {
		price = sdk.NewCoin(pd, sdkmath.NewIntFromBigInt(pow2(90)))
	}
	bid := exchange.BidOrder{MarketId: m, Buyer: w.spell(buyer), Assets: assets, Price: price, AllowPartial: partial, ExternalId: w.orderExtID(before)}
	if mkt != nil {
		bid.BuyerSettlementFees = w.buyerFees(mkt, price, amt, partial)
	}
	msg := &exchange.MsgCreateBidRequest{BidOrder: bid}
	if mkt != nil {
		msg.OrderCreationFee = w.option(mkt.FeeCreateBidFlat)
		if msg.OrderCreationFee != nil && w.pick(12) == 0 {
			msg.OrderCreationFee = nil
		}
	}
	return &c02Op{kind: "create_bid", msg: msg,
		adm: func(ok bool) bool { return ok || w.richAccepts(msg, buyer) },
		term: func(adm, _ bool, _, _ *c02Obs) string {
			o := exchange.NewOrder(0).WithBid(&bid)
			return fmt.Sprintf("OCreate %s %s %s", coqBool(adm), w.orderT(o), w.optCoinT(msg.OrderCreationFee))
		}}
}

func (w *c02World) genCancel(before *c02Obs) *c02Op {
	var id uint64
	signer := w.trader().String()
	if len(before.orders) > 0 && w.pick(8) != 0 {
		o := before.orders[w.pick(len(before.orders))]
		id = o.OrderId
		switch w.pick(6) {
		case 0:
			signer = w.admin.String() // has the cancel permission
		case 1:
			signer = w.otherTrader(o.GetOwner()).String() // no permission
		default:
			signer = o.GetOwner()
		}
	} else {
		id = w.lastID + uint64(1+w.pick(3)) // does not exist
	}
	msg := &exchange.MsgCancelOrderRequest{Signer: signer, OrderId: id}
	// the model decides: the order exists and the signer is its owner or holds the cancel permission
	// (only the admin was granted permissions, in every market, and grants never change in a history)
	priv := signer == w.admin.String()
	return &c02Op{kind: "cancel", msg: msg,
		adm: func(bool) bool { return c02ValidateBasic(msg) == nil },
		term: func(adm, _ bool, _, _ *c02Obs) string {
			return fmt.Sprintf("OCancel %s %d %s %d", coqBool(adm), w.aid(signer), coqBool(priv), id)
		}}
}

// settleTerm derives the observed fills: listed orders that vanished were filled in full, the one
// that is still there with fewer assets was filled partially (by the difference).
func (w *c02World) settleTerm(ok bool, ids []uint64, before, after *c02Obs) string {
	if !ok {
		return fmt.Sprintf("OSettle false %s [] None []", zList(ids))
	}
	var fulls []uint64
	part := "None"
	seen := map[uint64]bool{}
	for _, id := range ids {
		if seen[id] {
			continue // an item is consumed once, however often the message names it
		}
		seen[id] = true
		ob, oa := before.order(id), after.order(id)
		switch {
		case ob == nil:
			fulls = append(fulls, id) // cannot happen for an accepted settlement
		case oa == nil:
			fulls = append(fulls, id)
		default:
			filled := ob.GetAssets().Amount.Sub(oa.GetAssets().Amount)
			part = fmt.Sprintf("(Some (%d, %s))", id, zInt(filled))
		}
	}
	var xf []string
	for _, kv := range after.bals {
		d := kv.v.Sub(before.bal(kv.a, kv.d))
		if !d.IsZero() {
			xf = append(xf, fmt.Sprintf("((%d, %d), %s)", kv.a, kv.d, zInt(d)))
		}
	}
	return fmt.Sprintf("OSettle true %s %s %s %s", zList(ids), zList(fulls), part, coqList(xf))
}

type c02Group struct {
	m        uint32
	ad, pd   string
	asks     []*exchange.Order
	bids     []*exchange.Order
}

func (w *c02World) groups(before *c02Obs) []*c02Group {
	idx := map[string]*c02Group{}
	var keys []string
	for _, o := range before.orders {
		k := fmt.Sprintf("%d/%s/%s", o.GetMarketID(), o.GetAssets().Denom, o.GetPrice().Denom)
		g, ok := idx[k]
		if !ok {
			g = &c02Group{m: o.GetMarketID(), ad: o.GetAssets().Denom, pd: o.GetPrice().Denom}
			idx[k] = g
			keys = append(keys, k)
		}
		if o.IsAskOrder() {
			g.asks = append(g.asks, o)
		} else {
			g.bids = append(g.bids, o)
		}
	}
	sort.Strings(keys)
	out := make([]*c02Group, 0, len(keys))
	for _, k := range keys {
		out = append(out, idx[k])
	}
	return out
}

func (w *c02World) sample(os []*exchange.Order, n int) []*exchange.Order {
	idx := w.r.Perm(len(os))
	if n > len(os) {
		n = len(os)
	}
	out := make([]*exchange.Order, 0, n)
	for _, i := range idx[:n] {
		out = append(out, os[i])
	}
	return out
}

func (w *c02World) genMarketSettle(before *c02Obs) *c02Op {
	var cands []*c02Group
	for _, g := range w.groups(before) {
		if len(g.asks) > 0 && len(g.bids) > 0 {
			cands = append(cands, g)
		}
	}
	admin := w.admin.String()
	if w.pick(10) == 0 {
		admin = w.trader().String() // no settle permission
	}
	var askIDs, bidIDs []uint64
	m := w.market()
	expectPartial := false
	if len(cands) > 0 {
		g := cands[w.pick(len(cands))]
		m = g.m
		asks := w.sample(g.asks, 1+w.pick(2))
		bids := w.sample(g.bids, 1+w.pick(2))
		// put an order that allows partial fills last, as the matching requires
		sort.SliceStable(asks, func(i, j int) bool { return !asks[i].PartialFillAllowed() && asks[j].PartialFillAllowed() })
		sort.SliceStable(bids, func(i, j int) bool { return !bids[i].PartialFillAllowed() && bids[j].PartialFillAllowed() })
		ta, tb := sdkmath.ZeroInt(), sdkmath.ZeroInt()
		for _, o := range asks {
			askIDs = append(askIDs, o.OrderId)
			ta = ta.Add(o.GetAssets().Amount)
		}
		for _, o := range bids {
			bidIDs = append(bidIDs, o.OrderId)
			tb = tb.Add(o.GetAssets().Amount)
		}
		expectPartial = !ta.Equal(tb)
		if w.pick(15) == 0 {
			expectPartial = !expectPartial
		}
	} else {
		if w.pick(8) != 0 {
			return nil
		}
		askIDs = []uint64{w.lastID + 1}
		bidIDs = []uint64{w.lastID + 2}
	}
	if len(bidIDs) > 0 && w.pick(10) == 0 {
		bidIDs = append(bidIDs, bidIDs[0]) // the same order twice: ValidateBasic must refuse
	}
	msg := &exchange.MsgMarketSettleRequest{Admin: admin, MarketId: m, AskOrderIds: askIDs, BidOrderIds: bidIDs, ExpectPartial: expectPartial}
	ids := append(append([]uint64{}, askIDs...), bidIDs...)
	return &c02Op{kind: "market_settle", msg: msg, term: func(_, ok bool, b, a *c02Obs) string { return w.settleTerm(ok, ids, b, a) }}
}

// pinched finds a trader (not an owner of the listed orders) with something on hold whose balance covers
// the coin but whose spendable amount does not.
func (w *c02World) pinched(before *c02Obs, c sdk.Coin, orders []*exchange.Order) sdk.AccAddress {
	d := w.did(c.Denom)
	for _, i := range w.r.Perm(len(w.accts)) {
		a := w.accts[i]
		id := w.aid(a.String())
		own := false
		for _, o := range orders {
			if sameAddr(o.GetOwner(), a.String()) {
				own = true
			}
		}
		if !own && before.get(before.holds, id, d).IsPositive() && before.bal(id, d).GTE(c.Amount) && before.spendable(id, d).LT(c.Amount) {
			return a
		}
	}
	return nil
}

func (w *c02World) genFillBids(before *c02Obs) *c02Op {
	var cands []*c02Group
	for _, g := range w.groups(before) {
		if len(g.bids) > 0 {
			cands = append(cands, g)
		}
	}
	if len(cands) == 0 {
		return nil
	}
	g := cands[w.pick(len(cands))]
	bids := w.sample(g.bids, 1+w.pick(2))
	dup := w.pick(6) == 0
	if dup {
		// the same bid twice ([7,7]): ValidateBasic must refuse it.  Prefer a bid whose owner has at least
		// twice its amount on hold (other open items), so that a double release would not be refused by the
		// hold keeper if the duplicate were let through.
		best := g.bids[w.pick(len(g.bids))]
		for _, b := range w.sample(g.bids, len(g.bids)) {
			need := b.GetHoldAmount()
			okAll := true
			for _, c := range need {
				if before.get(before.holds, w.aid(b.GetOwner()), w.did(c.Denom)).LT(c.Amount.MulRaw(2)) {
					okAll = false
				}
			}
			if okAll {
				best = b
				break
			}
		}
		bids = []*exchange.Order{best, best}
	}
	seller := w.trader()
	for i := 0; i < 6; i++ {
		clash := false
		for _, b := range bids {
			if sameAddr(b.GetOwner(), seller.String()) {
				clash = true
			}
		}
		if !clash {
			break
		}
		seller = w.trader()
	}
	mkt := w.app.ExchangeKeeper.GetMarket(w.ctx, g.m)
	var ids []uint64
	var total sdk.Coins
	for _, b := range bids {
		ids = append(ids, b.OrderId)
		total = total.Add(b.GetAssets())
	}
	if len(total) > 0 && w.pick(2) == 0 {
		// prefer a seller who owns the assets but can spend fewer: part is on hold for its OTHER obligations
		if p := w.pinched(before, total[0], bids); p != nil {
			seller = p
		}
	}
	if len(total) > 0 && !total[0].Amount.IsInt64() {
		for _, wh := range w.whales { // only a whale can deliver that much
			if !sameAddr(wh.String(), bids[0].GetOwner()) {
				seller = wh
			}
		}
	}
	if w.pick(12) == 0 {
		total = total.Add(sdk.NewInt64Coin(g.ad, 1)) // wrong total
	}
	msg := &exchange.MsgFillBidsRequest{Seller: seller.String(), MarketId: g.m, TotalAssets: total, BidOrderIds: ids}
	if mkt != nil {
		msg.SellerSettlementFlatFee = w.option(mkt.FeeSellerSettlementFlat)
		msg.AskOrderCreationFee = w.option(mkt.FeeCreateAskFlat)
	}
	return &c02Op{kind: "fill_bids", msg: msg, term: func(_, ok bool, b, a *c02Obs) string { return w.settleTerm(ok, ids, b, a) }}
}

func (w *c02World) genFillAsks(before *c02Obs) *c02Op {
	var cands []*c02Group
	for _, g := range w.groups(before) {
		if len(g.asks) > 0 {
			cands = append(cands, g)
		}
	}
	if len(cands) == 0 {
		return nil
	}
	g := cands[w.pick(len(cands))]
	asks := w.sample(g.asks, 1+w.pick(2))
	if w.pick(6) == 0 {
		best := g.asks[w.pick(len(g.asks))]
		for _, a := range w.sample(g.asks, len(g.asks)) {
			need := a.GetHoldAmount()
			okAll := true
			for _, c := range need {
				if before.get(before.holds, w.aid(a.GetOwner()), w.did(c.Denom)).LT(c.Amount.MulRaw(2)) {
					okAll = false
				}
			}
			if okAll {
				best = a
				break
			}
		}
		asks = []*exchange.Order{best, best} // the same ask twice: ValidateBasic must refuse
	}
	buyer := w.trader()
	for i := 0; i < 6; i++ {
		clash := false
		for _, a := range asks {
			if sameAddr(a.GetOwner(), buyer.String()) {
				clash = true
			}
		}
		if !clash {
			break
		}
		buyer = w.trader()
	}
	mkt := w.app.ExchangeKeeper.GetMarket(w.ctx, g.m)
	var ids []uint64
	total := sdk.NewInt64Coin(g.pd, 0)
	for _, a := range asks {
		ids = append(ids, a.OrderId)
		total = total.Add(a.GetPrice())
	}
	if w.pick(12) == 0 {
		total = total.AddAmount(sdkmath.NewInt(1))
	}
	if w.pick(2) == 0 {
		// prefer a buyer who owns the price but can spend less: part is on hold for its OTHER obligations
		if p := w.pinched(before, total, asks); p != nil {
			buyer = p
		}
	}
	if !total.Amount.IsInt64() {
		for _, wh := range w.whales { // only a whale can pay that much
			if !sameAddr(wh.String(), asks[0].GetOwner()) {
				buyer = wh
			}
		}
	}
	msg := &exchange.MsgFillAsksRequest{Buyer: buyer.String(), MarketId: g.m, TotalPrice: total, AskOrderIds: ids}
	if mkt != nil {
		msg.BuyerSettlementFees = w.buyerFees(mkt, total, sdkmath.OneInt(), false)
		msg.BidOrderCreationFee = w.option(mkt.FeeCreateBidFlat)
	}
	return &c02Op{kind: "fill_asks", msg: msg, term: func(_, ok bool, b, a *c02Obs) string { return w.settleTerm(ok, ids, b, a) }}
}

func (w *c02World) someCoins(max int64) sdk.Coins {
	cs := sdk.Coins{}
	n := 1 + w.pick(2)
	for i := 0; i < n; i++ {
		cs = cs.Add(sdk.NewInt64Coin(w.denoms[w.pick(len(w.denoms))], 1+w.r.Int63n(max)))
	}
	return cs
}

func (w *c02World) genCommit(before *c02Obs) *c02Op {
	m := w.market()
	mkt := w.app.ExchangeKeeper.GetMarket(w.ctx, m)
	acct := w.trader()
	amount := w.someCoins(500)
	if w.pick(12) == 0 {
		amount = sdk.NewCoins(sdk.NewInt64Coin(w.denoms[0], 1_000_000_000))
	}
	msg := &exchange.MsgCommitFundsRequest{Account: w.spell(acct), MarketId: m, Amount: amount}
	if mkt != nil {
		msg.CreationFee = w.option(mkt.FeeCreateCommitmentFlat)
		if msg.CreationFee != nil && w.pick(12) == 0 {
			msg.CreationFee = nil
		}
	}
	return &c02Op{kind: "commit", msg: msg,
		adm: func(ok bool) bool { return ok || w.richAccepts(msg, acct) },
		term: func(adm, _ bool, _, _ *c02Obs) string {
			return fmt.Sprintf("OCommit %s %d %d %s %s", coqBool(adm), m, w.aid(acct.String()), w.coinsT(amount), w.optCoinT(msg.CreationFee))
		}}
}

func (w *c02World) partOf(cs sdk.Coins) sdk.Coins {
	out := sdk.Coins{}
	for _, c := range cs {
		if w.pick(2) == 0 || len(out) == 0 {
			amt := c.Amount
			if amt.GT(sdkmath.OneInt()) && w.pick(3) != 0 {
				amt = w.below(amt)
			}
			out = out.Add(sdk.NewCoin(c.Denom, amt))
		}
	}
	return out
}

func (w *c02World) commitsOf(before *c02Obs, m uint32) []exchange.Commitment {
	var out []exchange.Commitment
	for _, c := range before.commits {
		if c.MarketId == m {
			out = append(out, c)
		}
	}
	return out
}

func (w *c02World) genRelease(before *c02Obs) *c02Op {
	m := w.market()
	if len(before.commits) > 0 {
		m = before.commits[w.pick(len(before.commits))].MarketId
	}
	cs := w.commitsOf(before, m)
	admin := w.admin.String()
	if w.pick(10) == 0 {
		admin = w.trader().String()
	}
	var entries []exchange.AccountAmount
	if len(cs) > 0 {
		perm := w.r.Perm(len(cs))
		n := 1 + w.pick(2)
		if n > len(cs) {
			n = len(cs)
		}
		if w.pick(6) == 0 {
			// the same account twice: a part, then "everything" (= what is left by then)
			c := cs[perm[0]]
			entries = append(entries, exchange.AccountAmount{Account: c.Account, Amount: w.partOf(c.Amount)}, exchange.AccountAmount{Account: c.Account})
			n = 0
			if w.pick(2) == 0 {
				entries[0], entries[1] = entries[1], entries[0] // everything first: the second entry finds nothing
			}
		}
		for _, i := range perm[:n] {
			c := cs[i]
			switch w.pick(5) {
			case 0, 1:
				entries = append(entries, exchange.AccountAmount{Account: c.Account}) // everything
			case 2:
				entries = append(entries, exchange.AccountAmount{Account: c.Account, Amount: c.Amount.Add(sdk.NewInt64Coin(c.Amount[0].Denom, 1))}) // too much
			default:
				entries = append(entries, exchange.AccountAmount{Account: c.Account, Amount: w.partOf(c.Amount)})
			}
		}
	} else {
		if w.pick(6) != 0 {
			return nil
		}
		entries = []exchange.AccountAmount{{Account: w.trader().String()}}
	}
	msg := &exchange.MsgMarketReleaseCommitmentsRequest{Admin: admin, MarketId: m, ToRelease: entries}
	// the model decides: every entry names an account with a commitment and not more than is committed
	return &c02Op{kind: "release_commitments", msg: msg,
		adm: func(bool) bool { return admin == w.admin.String() && c02ValidateBasic(msg) == nil },
		term: func(adm, _ bool, _, _ *c02Obs) string {
			return fmt.Sprintf("ORelease %s %d %s", coqBool(adm), m, w.entriesT(entries))
		}}
}

func (w *c02World) genCommitSettle(before *c02Obs) *c02Op {
	m := w.market()
	if len(before.commits) > 0 {
		m = before.commits[w.pick(len(before.commits))].MarketId
	}
	cs := w.commitsOf(before, m)
	if len(cs) == 0 {
		return nil
	}
	admin := w.admin.String()
	if w.pick(12) == 0 {
		admin = w.trader().String()
	}
	a := cs[w.pick(len(cs))]
	var inputs, outputs, fees []exchange.AccountAmount
	inA := w.partOf(a.Amount)
	inputs = append(inputs, exchange.AccountAmount{Account: a.Account, Amount: inA})
	if len(cs) > 1 && w.pick(3) != 0 {
		b := cs[w.pick(len(cs))]
		if !sameAddr(b.Account, a.Account) {
			inB := w.partOf(b.Amount)
			inputs = append(inputs, exchange.AccountAmount{Account: b.Account, Amount: inB})
			outputs = append(outputs, exchange.AccountAmount{Account: b.Account, Amount: inA}, exchange.AccountAmount{Account: a.Account, Amount: inB})
		}
	}
	if len(outputs) == 0 {
		to := w.otherTrader(a.Account)
		outputs = append(outputs, exchange.AccountAmount{Account: to.String(), Amount: inA})
	}
	if w.pick(2) == 0 {
		left, neg := a.Amount.SafeSub(inA...)
		if !neg && !left.IsZero() {
			fees = append(fees, exchange.AccountAmount{Account: a.Account, Amount: w.partOf(left)})
		} else if w.pick(3) == 0 {
			fees = append(fees, exchange.AccountAmount{Account: a.Account, Amount: sdk.NewCoins(sdk.NewInt64Coin(a.Amount[0].Denom, 1))}) // not committed
		}
	}
	if w.pick(15) == 0 {
		outputs[0].Amount = outputs[0].Amount.Add(sdk.NewInt64Coin(outputs[0].Amount[0].Denom, 1)) // totals differ
	}
	msg := &exchange.MsgMarketCommitmentSettleRequest{Admin: admin, MarketId: m, Inputs: inputs, Outputs: outputs, Fees: fees}
	if m == c02BipsMarket {
		// the exchange charges bips of the inputs, valued in the fee denom through the intermediary denom:
		// a NAV is needed for every other input denom, and one from the intermediary to the fee denom
		feeDenom := pioconfig.GetProvenanceConfig().FeeDenom
		for _, c := range exchange.SumAccountAmounts(inputs) {
			if c.Denom != c02Interm && c.Denom != feeDenom && w.pick(8) != 0 {
				msg.Navs = append(msg.Navs, exchange.NetAssetPrice{Assets: sdk.NewInt64Coin(c.Denom, int64(1+w.pick(7))), Price: sdk.NewInt64Coin(c02Interm, int64(1+w.pick(9)))})
			}
		}
		if c02Interm != feeDenom && w.pick(8) != 0 {
			msg.Navs = append(msg.Navs, exchange.NetAssetPrice{Assets: sdk.NewInt64Coin(c02Interm, int64(1+w.pick(5))), Price: sdk.NewInt64Coin(feeDenom, int64(1+w.pick(40)))})
		}
	}
	// outside the model: the permission, ValidateBasic, and the exchange's own fee on the settlement
	// (bips of the inputs converted through the NAVs), which fails when a conversion NAV is missing
	return &c02Op{kind: "commitment_settle", msg: msg,
		adm: func(bool) bool {
			if admin != w.admin.String() || c02ValidateBasic(msg) != nil {
				return false
			}
			cctx, _ := w.ctx.CacheContext()
			return try(func() error { _, e := w.app.ExchangeKeeper.CalculateCommitmentSettlementFee(cctx, msg); return e }) == nil
		},
		term: func(adm, _ bool, _, _ *c02Obs) string {
			return fmt.Sprintf("OCommitSettle %s %d %s %s %s", coqBool(adm), m, w.entriesT(inputs), w.entriesT(outputs), w.entriesT(fees))
		}}
}

func (w *c02World) genPayCreate(before *c02Obs) *c02Op {
	src := w.trader()
	w.payN++
	ext := fmt.Sprintf("pay%d", w.payN)
	switch w.pick(12) {
	case 0, 1, 2:
		ext = "" // a payment WITHOUT an external id: legal, and "" is a key like any other
	case 3:
		ext = fmt.Sprintf("p%d", w.payN%3) // short ids that come back (and are prefixes of "pay..")
	case 4:
		ext = strings.Repeat("e", exchange.MaxExternalIDLength-len(ext)) + ext // the longest legal id
	case 5:
		ext = fmt.Sprintf("zahlung-äöü-五-%d", w.payN) // not ASCII
	}
	if len(before.pays) > 0 && w.pick(10) == 0 {
		p := before.pays[w.pick(len(before.pays))]
		src, _ = sdk.AccAddressFromBech32(p.Source)
		ext = p.ExternalId // duplicate
	}
	if w.pick(3) == 0 {
		// a source that already has a payment without external id outstanding tries another one
		for _, p := range before.pays {
			if p.ExternalId == "" {
				src, _ = sdk.AccAddressFromBech32(p.Source)
				ext = ""
				break
			}
		}
	}
	target := ""
	if w.pick(5) != 0 {
		target = w.spell(w.otherTrader(src.String()))
	}
	var samt, tamt sdk.Coins
	switch w.pick(6) {
	case 0:
		tamt = w.someCoins(300) // nothing from the source: nothing held
	case 1:
		samt = w.someCoins(300)
	case 2:
		samt = sdk.NewCoins(sdk.NewInt64Coin(w.denoms[0], 1_000_000_000))
	default:
		samt = w.someCoins(300)
		tamt = w.someCoins(300)
	}
	if target != "" && w.pick(3) == 0 {
		// the target is asked for more than it can spend but not more than it owns: part of it is on hold for
		// the target's OTHER obligations, so accepting must be refused
		ta := w.aid(target)
		for _, kv := range before.holds {
			if kv.a == ta && kv.v.IsPositive() {
				sp := before.spendable(ta, kv.d)
				if sp.IsNegative() {
					sp = sdkmath.ZeroInt()
				}
				for _, d := range w.all {
					if w.did(d) == kv.d {
						tamt = sdk.NewCoins(sdk.NewCoin(d, sp.Add(w.below(kv.v))))
					}
				}
				break
			}
		}
	}
	pay := exchange.Payment{Source: w.spell(src), SourceAmount: samt, Target: target, TargetAmount: tamt, ExternalId: ext}
	msg := &exchange.MsgCreatePaymentRequest{Payment: pay}
	return &c02Op{kind: "payment_create", msg: msg,
		adm: func(bool) bool { return c02ValidateBasic(msg) == nil },
		term: func(adm, _ bool, _, _ *c02Obs) string {
			return fmt.Sprintf("OPayCreate %s %d %d %s %s %d", coqBool(adm), w.aid(pay.Source), w.eid(ext), w.coinsT(samt), w.coinsT(tamt), w.aid(target))
		}}
}

func (w *c02World) genPayAccept(before *c02Obs) *c02Op {
	if len(before.pays) == 0 {
		return nil
	}
	p := *before.pays[w.pick(len(before.pays))]
	if w.pick(2) == 0 {
		// prefer a payment whose target owns what it is asked for but cannot spend it (on hold for the
		// target's other obligations)
		for _, i := range w.r.Perm(len(before.pays)) {
			q := before.pays[i]
			if q.Target == "" {
				continue
			}
			ta := w.aid(q.Target)
			for _, c := range q.TargetAmount {
				d := w.did(c.Denom)
				if before.get(before.holds, ta, d).IsPositive() && before.bal(ta, d).GTE(c.Amount) && before.spendable(ta, d).LT(c.Amount) {
					p = *q
				}
			}
		}
	}
	switch w.pick(8) {
	case 0:
		p.SourceAmount = p.SourceAmount.Add(sdk.NewInt64Coin(w.denoms[0], 1)) // not what was agreed
	case 1:
		// somebody else claims to be the target (AcceptPayment compares the stored STRING, so the same account
		// in another spelling would count as somebody else too: not generated, spelling is outside the model)
		nt := w.otherTrader(p.Source).String()
		if !sameAddr(nt, p.Target) {
			p.Target = nt
		}
	}
	msg := &exchange.MsgAcceptPaymentRequest{Payment: p}
	return &c02Op{kind: "payment_accept", msg: msg,
		adm: func(bool) bool { return c02ValidateBasic(msg) == nil },
		term: func(adm, _ bool, _, _ *c02Obs) string {
			return fmt.Sprintf("OPayAccept %s %d %d %s %s %d", coqBool(adm), w.aid(p.Source), w.eid(p.ExternalId), w.coinsT(p.SourceAmount), w.coinsT(p.TargetAmount), w.aid(p.Target))
		}}
}

func (w *c02World) genPayReject(before *c02Obs) *c02Op {
	if len(before.pays) == 0 {
		return nil
	}
	p := before.pays[w.pick(len(before.pays))]
	target := p.Target
	if target == "" || w.pick(8) == 0 {
		target = w.trader().String()
	}
	msg := &exchange.MsgRejectPaymentRequest{Target: target, Source: p.Source, ExternalId: p.ExternalId}
	// RejectPayment compares the STORED target string with the canonical spelling of the signer: a payment
	// whose target was given in upper case cannot be rejected this way (only through MsgRejectPayments, which
	// goes by the index).  Spelling is outside the model (it identifies accounts by their bytes).
	canon := p.Target == strings.ToLower(p.Target) || !sameAddr(target, p.Target)
	return &c02Op{kind: "payment_reject", msg: msg,
		adm: func(bool) bool { return canon && c02ValidateBasic(msg) == nil },
		term: func(adm, _ bool, _, _ *c02Obs) string {
			return fmt.Sprintf("OPayReject %s %d %d %d", coqBool(adm), w.aid(target), w.aid(p.Source), w.eid(p.ExternalId))
		}}
}

func (w *c02World) genPayRejectAll(before *c02Obs) *c02Op {
	var withTarget []*exchange.Payment
	for _, p := range before.pays {
		if p.Target != "" {
			withTarget = append(withTarget, p)
		}
	}
	if len(withTarget) == 0 {
		return nil
	}
	p := withTarget[w.pick(len(withTarget))]
	target := p.Target
	sources := []string{p.Source}
	if w.pick(3) == 0 {
		for _, q := range withTarget {
			if sameAddr(q.Target, target) && !sameAddr(q.Source, p.Source) {
				sources = append(sources, q.Source)
				break
			}
		}
	}
	if w.pick(6) == 0 {
		sources = append(sources, w.trader().String()) // maybe a source without payments for the target
	}
	if w.pick(6) == 0 {
		sources = append(sources, p.Source) // duplicates are ignored
	}
	msg := &exchange.MsgRejectPaymentsRequest{Target: target, Sources: sources}
	return &c02Op{kind: "payments_reject", msg: msg,
		adm: func(bool) bool { return c02ValidateBasic(msg) == nil },
		term: func(adm, _ bool, _, _ *c02Obs) string {
			var ids []string
			for _, s := range sources {
				ids = append(ids, fmt.Sprintf("%d", w.aid(s)))
			}
			return fmt.Sprintf("OPayRejectAll %s %d %s", coqBool(adm), w.aid(target), coqList(ids))
		}}
}

func (w *c02World) genPayCancel(before *c02Obs) *c02Op {
	if len(before.pays) == 0 {
		return nil
	}
	p := before.pays[w.pick(len(before.pays))]
	exts := []string{p.ExternalId}
	for _, q := range before.pays {
		if sameAddr(q.Source, p.Source) && q.ExternalId != p.ExternalId && w.pick(2) == 0 {
			exts = append(exts, q.ExternalId)
		}
	}
	if w.pick(8) == 0 {
		exts = append(exts, "nope")
	}
	if w.pick(8) == 0 {
		exts = append(exts, p.ExternalId)
	}
	msg := &exchange.MsgCancelPaymentsRequest{Source: p.Source, ExternalIds: exts}
	return &c02Op{kind: "payments_cancel", msg: msg,
		adm: func(bool) bool { return c02ValidateBasic(msg) == nil },
		term: func(adm, _ bool, _, _ *c02Obs) string {
			var ids []string
			for _, e := range exts {
				ids = append(ids, fmt.Sprintf("%d", w.eid(e)))
			}
			return fmt.Sprintf("OPayCancel %s %d %s", coqBool(adm), w.aid(p.Source), coqList(ids))
		}}
}

func (w *c02World) genPayRetarget(before *c02Obs) *c02Op {
	if len(before.pays) == 0 {
		return nil
	}
	p := before.pays[w.pick(len(before.pays))]
	nt := ""
	switch w.pick(5) {
	case 0:
		nt = p.Target // unchanged: rejected (UpdatePaymentTarget compares strings: only in the canonical spelling)
		if nt != strings.ToLower(nt) {
			nt = w.otherTrader(p.Source).String()
		}
	case 1:
		nt = ""
	default:
		nt = w.otherTrader(p.Source).String()
	}
	if p.Target != strings.ToLower(p.Target) && sameAddr(nt, p.Target) {
		return nil // the same account in another spelling counts as a change for UpdatePaymentTarget: not modelled
	}
	msg := &exchange.MsgChangePaymentTargetRequest{Source: p.Source, ExternalId: p.ExternalId, NewTarget: nt}
	return &c02Op{kind: "payment_retarget", msg: msg,
		adm: func(bool) bool { return c02ValidateBasic(msg) == nil },
		term: func(adm, _ bool, _, _ *c02Obs) string {
			return fmt.Sprintf("OPayRetarget %s %d %d %d", coqBool(adm), w.aid(p.Source), w.eid(p.ExternalId), w.aid(nt))
		}}
}

func (w *c02World) genManageFees(before *c02Obs) *c02Op {
	m := w.market()
	mkt := w.app.ExchangeKeeper.GetMarket(w.ctx, m)
	authority := w.app.ExchangeKeeper.GetAuthority()
	if w.pick(10) == 0 {
		authority = w.admin.String()
	}
	msg := &exchange.MsgGovManageFeesRequest{Authority: authority, MarketId: m}
	d := w.denoms[w.pick(len(w.denoms))]
	amt := int64(1 + w.pick(6))
	if mkt != nil {
		switch w.pick(5) {
		case 0:
			for _, c := range mkt.FeeCreateAskFlat {
				if c.Denom == d {
					msg.RemoveFeeCreateAskFlat = append(msg.RemoveFeeCreateAskFlat, c)
				}
			}
			msg.AddFeeCreateAskFlat = []sdk.Coin{sdk.NewInt64Coin(d, amt)}
		case 1:
			for _, c := range mkt.FeeSellerSettlementFlat {
				if c.Denom == d {
					msg.RemoveFeeSellerSettlementFlat = append(msg.RemoveFeeSellerSettlementFlat, c)
				}
			}
			msg.AddFeeSellerSettlementFlat = []sdk.Coin{sdk.NewInt64Coin(d, amt)}
		case 2:
			for _, c := range mkt.FeeBuyerSettlementFlat {
				if c.Denom == d {
					msg.RemoveFeeBuyerSettlementFlat = append(msg.RemoveFeeBuyerSettlementFlat, c)
				}
			}
			msg.AddFeeBuyerSettlementFlat = []sdk.Coin{sdk.NewInt64Coin(d, amt)}
		case 3:
			if len(mkt.FeeCreateBidFlat) > 0 {
				msg.RemoveFeeCreateBidFlat = []sdk.Coin{mkt.FeeCreateBidFlat[0]}
			} else {
				msg.AddFeeCreateBidFlat = []sdk.Coin{sdk.NewInt64Coin(d, amt)}
			}
		default:
			for _, c := range mkt.FeeCreateCommitmentFlat {
				if c.Denom == d {
					msg.RemoveFeeCreateCommitmentFlat = append(msg.RemoveFeeCreateCommitmentFlat, c)
				}
			}
			msg.AddFeeCreateCommitmentFlat = []sdk.Coin{sdk.NewInt64Coin(d, amt)}
		}
	}
	return &c02Op{kind: "manage_fees", msg: msg, term: func(_, ok bool, _, _ *c02Obs) string {
		return fmt.Sprintf("OManageFees %s", coqBool(ok))
	}}
}

// genReopen switches order / commitment acceptance of a market (back) on; no effect on holds.
func (w *c02World) genReopen(before *c02Obs) *c02Op { return w.genFlags(before, true) }

func (w *c02World) genFlags(before *c02Obs, closed bool) *c02Op {
	m := w.market()
	var msg sdk.Msg
	mkt := w.app.ExchangeKeeper.GetMarket(w.ctx, m)
	switch {
	case mkt != nil && !mkt.AcceptingOrders:
		msg = &exchange.MsgMarketUpdateAcceptingOrdersRequest{Admin: w.admin.String(), MarketId: m, AcceptingOrders: true}
	case mkt != nil && !mkt.AcceptingCommitments:
		msg = &exchange.MsgMarketUpdateAcceptingCommitmentsRequest{Admin: w.admin.String(), MarketId: m, AcceptingCommitments: true}
	case mkt != nil && !mkt.AllowUserSettlement:
		msg = &exchange.MsgMarketUpdateUserSettleRequest{Admin: w.admin.String(), MarketId: m, AllowUserSettlement: true}
	case mkt != nil && !closed && w.pick(3) == 0:
		// the other direction: the market stops taking orders / commitments / user settlements while
		// items are open in it (every status of the market on every later operation)
		switch w.pick(3) {
		case 0:
			msg = &exchange.MsgMarketUpdateAcceptingOrdersRequest{Admin: w.admin.String(), MarketId: m, AcceptingOrders: false}
		case 1:
			msg = &exchange.MsgMarketUpdateAcceptingCommitmentsRequest{Admin: w.admin.String(), MarketId: m, AcceptingCommitments: false}
		default:
			msg = &exchange.MsgMarketUpdateUserSettleRequest{Admin: w.admin.String(), MarketId: m, AllowUserSettlement: false}
		}
	case w.pick(4) != 0:
		return nil
	default: // already on: rejected
		msg = &exchange.MsgMarketUpdateAcceptingOrdersRequest{Admin: w.admin.String(), MarketId: m, AcceptingOrders: true}
	}
	return &c02Op{kind: "market_flags", msg: msg, term: func(_, ok bool, _, _ *c02Obs) string {
		return fmt.Sprintf("OManageFees %s", coqBool(ok))
	}}
}

func (w *c02World) genCloseMarket(before *c02Obs) *c02Op {
	m := w.market()
	authority := w.app.ExchangeKeeper.GetAuthority()
	if w.pick(6) == 0 {
		authority = w.admin.String()
	}
	msg := &exchange.MsgGovCloseMarketRequest{Authority: authority, MarketId: m}
	return &c02Op{kind: "close_market", msg: msg, term: func(_, ok bool, _, _ *c02Obs) string {
		return fmt.Sprintf("OCloseMarket %s %d", coqBool(ok), m)
	}}
}

// genDelegate: the account delegates its own funds to the chain's validator (staking MsgDelegate, which ends
// in the bank's DelegateCoins), or DelegateCoins is called the way a module would.  Delegation is the one
// bank route that may use coins that are still vesting; coins ON HOLD must stay.  The amounts sit around
// balance - hold (what may go), balance - hold - vesting (what is spendable) and the balance itself.
func (w *c02World) genDelegate(before *c02Obs) *c02Op {
	denom := w.bond
	direct := w.pick(4) == 0 // the keeper route takes any denom
	if direct && w.pick(2) == 0 {
		denom = w.denoms[w.pick(len(w.denoms))]
	}
	did := w.did(denom)
	// prefer an account with something on hold in that denom
	who := w.trader()
	for i := 0; i < 6; i++ {
		if before.get(before.holds, w.aid(who.String()), did).IsPositive() {
			break
		}
		who = w.trader()
	}
	a := w.aid(who.String())
	bal, held, vest := before.bal(a, did), before.get(before.holds, a, did), before.get(before.vest, a, did)
	free := bal.Sub(held)
	var amt sdkmath.Int
	switch w.pick(9) {
	case 0:
		amt = free // everything that is not on hold
	case 1:
		amt = free.AddRaw(1) // one more than that
	case 2:
		amt = bal // everything, held funds included
	case 3:
		amt = free.SubRaw(1)
	case 4:
		amt = free.Sub(vest).AddRaw(1) // one more than is spendable: needs a vesting coin
	case 5:
		amt = held // as much as is on hold
	case 6:
		amt = free.AddRaw(int64(1 + w.pick(50)))
	default:
		if free.IsPositive() && free.IsInt64() {
			amt = sdkmath.NewInt(1 + w.r.Int63n(free.Int64()))
		} else {
			amt = sdkmath.NewInt(int64(1 + w.pick(100)))
		}
	}
	if !amt.IsPositive() {
		amt = sdkmath.NewInt(int64(1 + w.pick(100)))
	}
	coins := sdk.NewCoins(sdk.NewCoin(denom, amt))
	if direct && w.pick(3) == 0 {
		d2 := w.denoms[w.pick(len(w.denoms))]
		if d2 != denom {
			b2, h2 := before.bal(a, w.did(d2)), before.get(before.holds, a, w.did(d2))
			x := b2.Sub(h2).AddRaw(int64(w.pick(3) - 1))
			if x.IsPositive() {
				coins = coins.Add(sdk.NewCoin(d2, x))
			}
		}
	}
	op := &c02Op{kind: "delegate"}
	if direct {
		op.kind = "delegate_keeper"
		op.call = func(ctx sdk.Context) error {
			return w.app.BankKeeper.DelegateCoinsFromAccountToModule(ctx, who, stakingtypes.BondedPoolName, coins)
		}
	} else {
		val := w.val
		if w.pick(15) == 0 {
			val = sdk.ValAddress(who).String() // not a validator
		}
		c := coins[0]
		if w.pick(12) == 0 {
			c = sdk.NewCoin(w.denoms[0], amt) // maybe not the bond denom
		}
		coins = sdk.NewCoins(c)
		op.msg = &stakingtypes.MsgDelegate{DelegatorAddress: w.spell(who), ValidatorAddress: val, Amount: c}
	}
	// outside the model: the validator exists, the denom is the bond denom (asked of the implementation in a
	// copy of the state where the delegator has unlimited funds)
	op.adm = func(ok bool) bool { return ok || w.richAcceptsOp(op, who) }
	op.term = func(adm, _ bool, _, _ *c02Obs) string {
		return fmt.Sprintf("ODelegate %s %d %s", coqBool(adm), a, w.coinsT(coins))
	}
	return op
}

// genTime moves the block time on (never back): to just before, exactly at, and past the end of the vesting
// schedules, or somewhere in between.  The vesting locks observed afterwards are the operation's input.
func (w *c02World) genTime(before *c02Obs) *c02Op {
	now := w.ctx.BlockTime()
	var next time.Time
	end := time.Unix(w.vestEnd, 0).UTC()
	switch w.pick(6) {
	case 0:
		next = end.Add(-time.Nanosecond)
	case 1:
		next = end
	case 2:
		next = end.Add(time.Duration(1+w.pick(100)) * time.Second)
	default:
		next = now.Add(time.Duration(1+w.pick(400)) * time.Second)
	}
	if !next.After(now) {
		next = now.Add(time.Second)
	}
	return &c02Op{kind: "time", direct: func(w *c02World) error {
		w.ctx = w.ctx.WithBlockTime(next)
		return nil
	}, term: func(_, ok bool, _, after *c02Obs) string {
		return fmt.Sprintf("OTime %s %s", coqBool(ok), w.kvT(after.vest))
	}}
}

// genQuery runs one of the modules' gRPC queries on the history's own context (whatever a query writes
// would persist): nothing may change.
func (w *c02World) genQuery(before *c02Obs) *c02Op {
	who := w.spell(w.trader())
	m := w.market()
	n := w.pick(12)
	return &c02Op{kind: "query", direct: func(w *c02World) error {
		q := exchangekeeper.NewQueryServer(w.app.ExchangeKeeper)
		var err error
		switch n {
		case 0:
			_, err = w.app.HoldKeeper.GetAllHolds(w.ctx, &hold.GetAllHoldsRequest{})
		case 1:
			_, err = q.GetOwnerOrders(w.ctx, &exchange.QueryGetOwnerOrdersRequest{Owner: who})
		case 2:
			_, err = q.GetMarketOrders(w.ctx, &exchange.QueryGetMarketOrdersRequest{MarketId: m})
		case 3:
			_, err = q.GetAllOrders(w.ctx, &exchange.QueryGetAllOrdersRequest{})
		case 4:
			_, err = q.GetAccountCommitments(w.ctx, &exchange.QueryGetAccountCommitmentsRequest{Account: who})
		case 5:
			_, err = q.GetMarketCommitments(w.ctx, &exchange.QueryGetMarketCommitmentsRequest{MarketId: m})
		case 6:
			_, err = q.GetAllCommitments(w.ctx, &exchange.QueryGetAllCommitmentsRequest{})
		case 7:
			_, err = q.GetPaymentsWithSource(w.ctx, &exchange.QueryGetPaymentsWithSourceRequest{Source: who})
		case 8:
			_, err = q.GetPaymentsWithTarget(w.ctx, &exchange.QueryGetPaymentsWithTargetRequest{Target: who})
		case 9:
			_, err = q.GetAllPayments(w.ctx, &exchange.QueryGetAllPaymentsRequest{})
		case 10:
			_, err = q.GetMarket(w.ctx, &exchange.QueryGetMarketRequest{MarketId: m})
		default:
			_, err = w.app.BankKeeper.SpendableBalances(w.ctx, &banktypes.QuerySpendableBalancesRequest{Address: strings.ToLower(who)})
		}
		return err
	}, term: func(_, ok bool, _, _ *c02Obs) string {
		return fmt.Sprintf("OManageFees %s", coqBool(ok))
	}}
}

// genParams: governance changes the exchange's params in the middle of a history (the exchange's share of
// the fees -- only the untracked fee recipients see it -- and the payment fees).
func (w *c02World) genParams(before *c02Obs) *c02Op {
	authority := w.app.ExchangeKeeper.GetAuthority()
	if w.pick(8) == 0 {
		authority = w.admin.String()
	}
	params := exchange.Params{DefaultSplit: uint32(w.pick(4)) * 2500}
	if w.pick(2) == 0 {
		params.DenomSplits = []exchange.DenomSplit{{Denom: w.denoms[w.pick(len(w.denoms))], Split: uint32(w.pick(10001))}}
	}
	if w.pick(2) == 0 {
		params.FeeCreatePaymentFlat = []sdk.Coin{sdk.NewInt64Coin(w.denoms[0], int64(1+w.pick(5)))}
	}
	if w.pick(2) == 0 {
		params.FeeAcceptPaymentFlat = []sdk.Coin{sdk.NewInt64Coin(w.denoms[w.pick(len(w.denoms))], int64(1+w.pick(5)))}
	}
	msg := &exchange.MsgUpdateParamsRequest{Authority: authority, Params: params}
	return &c02Op{kind: "update_params", msg: msg, term: func(_, ok bool, _, _ *c02Obs) string {
		return fmt.Sprintf("OManageFees %s", coqBool(ok))
	}}
}

type c02Gen struct {
	weight int
	f      func(*c02Obs) *c02Op
}

func (w *c02World) nextOp(before *c02Obs, closed bool) *c02Op {
	gens := []c02Gen{
		{14, w.genCreateAsk}, {14, w.genCreateBid}, {7, w.genCancel}, {12, w.genMarketSettle},
		{5, w.genFillBids}, {5, w.genFillAsks}, {8, w.genCommit}, {5, w.genRelease}, {5, w.genCommitSettle},
		{7, w.genPayCreate}, {4, w.genPayAccept}, {3, w.genPayReject}, {2, w.genPayRejectAll},
		{3, w.genPayCancel}, {2, w.genPayRetarget}, {2, w.genManageFees}, {1, w.genCloseMarket}, {2, func(b *c02Obs) *c02Op { return w.genFlags(b, false) }},
		{6, w.genCreateAskFeeInAssets}, {2, w.genSetExtID}, {2, w.genWithdraw},
		{2, w.genTime}, {2, w.genQuery}, {1, w.genParams},
	}
	if w.bondIn {
		gens = append(gens, c02Gen{9, w.genDelegate})
	} else {
		gens = append(gens, c02Gen{2, w.genDelegate})
	}
	if closed {
		gens = append(gens, c02Gen{12, w.genReopen})
	}
	total := 0
	for _, g := range gens {
		total += g.weight
	}
	for tries := 0; tries < 20; tries++ {
		x := w.pick(total)
		for _, g := range gens {
			if x < g.weight {
				if op := g.f(before); op != nil {
					return op
				}
				break
			}
			x -= g.weight
		}
	}
	return w.genCreateAsk(before)
}

// ---------- set-up ----------

// c02Coins(2, "cna", 3, "cnA") = 2cna,3cnA (sorted)
func c02Coins(args ...any) []sdk.Coin {
	var cs sdk.Coins
	for i := 0; i+1 < len(args); i += 2 {
		cs = cs.Add(sdk.NewInt64Coin(args[i+1].(string), int64(args[i].(int))))
	}
	return cs
}

func c02Ratio(pa int64, pd string, fa int64, fd string) exchange.FeeRatio {
	return exchange.FeeRatio{Price: sdk.NewInt64Coin(pd, pa), Fee: sdk.NewInt64Coin(fd, fa)}
}

func c02Setup(t *testing.T, app *simapp.App, ctx sdk.Context, admin sdk.AccAddress) {
	ensureAccount(app, ctx, admin)
	grants := []exchange.AccessGrant{{Address: admin.String(), Permissions: exchange.AllPermissions()}}
	mk := []exchange.Market{
		{
			MarketId: 1, MarketDetails: exchange.MarketDetails{Name: "fees"},
			FeeCreateAskFlat:          c02Coins(2, c02DA, 3, c02DC),
			FeeCreateBidFlat:          c02Coins(3, c02DB, 1, c02DC),
			FeeSellerSettlementFlat:   c02Coins(4, c02DA, 5, c02DB, 6, c02DC),
			FeeSellerSettlementRatios: []exchange.FeeRatio{c02Ratio(100, c02DB, 1, c02DB), c02Ratio(50, c02DA, 1, c02DA)},
			FeeBuyerSettlementFlat:    c02Coins(3, c02DA, 4, c02DB),
			FeeBuyerSettlementRatios:  []exchange.FeeRatio{c02Ratio(100, c02DB, 2, c02DB), c02Ratio(100, c02DB, 1, c02DA), c02Ratio(100, c02DA, 1, c02DA)},
			AcceptingOrders:           true, AllowUserSettlement: true, AccessGrants: grants,
			AcceptingCommitments:    true,
			FeeCreateCommitmentFlat: c02Coins(1, c02DA),
		},
		{
			MarketId: 2, MarketDetails: exchange.MarketDetails{Name: "free"},
			AcceptingOrders: true, AllowUserSettlement: true, AccessGrants: grants, AcceptingCommitments: true,
		},
		{
			MarketId: c02BipsMarket, MarketDetails: exchange.MarketDetails{Name: "bips"},
			AcceptingOrders: true, AllowUserSettlement: true, AccessGrants: grants, AcceptingCommitments: true,
			FeeCreateCommitmentFlat:  c02Coins(1, c02DB),
			CommitmentSettlementBips: 25, IntermediaryDenom: c02Interm,
		},
	}
	for _, m := range mk {
		msg := &exchange.MsgGovCreateMarketRequest{Authority: app.ExchangeKeeper.GetAuthority(), Market: m}
		if err := msg.ValidateBasic(); err != nil {
			t.Fatalf("market %d: %v", m.MarketId, err)
		}
		if _, err := app.MsgServiceRouter().Handler(msg)(ctx, msg); err != nil {
			t.Fatalf("create market %d: %v", m.MarketId, err)
		}
	}
}

func (w *c02World) newHistory(base sdk.Context) {
	w.ctx, _ = base.CacheContext()
	nA := 3 + w.pick(3)
	nD := 2 + w.pick(3)
	nM := 1 + w.pick(3)
	w.accts = nil
	w.addrID = map[string]int64{}
	w.extID = map[string]int64{}
	w.denomID = map[string]int64{}
	for i, d := range w.all {
		w.denomID[d] = int64(i + 1)
	}
	w.denoms = append([]string{}, c02Denoms[:nD]...)
	funded := append([]string{}, c02Denoms[:nD]...)
	// a third of the histories trade the staking BOND denom (orders, commitments and payments in it can
	// meet delegations)
	w.bondIn = w.pick(3) == 0
	if w.bondIn {
		w.denoms[w.pick(nD)] = w.bond
	}
	if w.bondIn || w.pick(3) == 0 {
		funded = append(funded, w.bond)
	}
	// address shapes: 20 bytes (last byte 0xFF / 0x00 / other), 32 bytes, and a 32-byte address whose first
	// 20 bytes ARE another trader's address
	shape := w.pick(3)
	for i := 0; i < nA; i++ {
		a := addrN(200 + i)
		switch {
		case shape == 1 && i == 1, shape == 2 && i == 2:
			b := make([]byte, 32)
			copy(b, fmt.Sprintf("verifaddr32_%09d_long_______", 200+i))
			b[31] = []byte{0xFF, 0x00, 'x'}[w.pick(3)]
			a = sdk.AccAddress(b)
		case shape == 2 && i == 1:
			b := append(append([]byte{}, w.accts[0]...), []byte("_and_more___")...)
			a = sdk.AccAddress(b)
		}
		w.accts = append(w.accts, a)
		w.addrID[string(a)] = int64(i + 1)
	}
	w.addrID[string(w.admin)] = int64(nA + 1)
	w.markets = nil
	for _, i := range w.r.Perm(3)[:nM] {
		w.markets = append(w.markets, []uint32{1, 2, c02BipsMarket}[i])
	}
	sort.Slice(w.markets, func(i, j int) bool { return w.markets[i] < w.markets[j] })
	w.vesting = map[string]bool{}
	w.whale = map[string]bool{}
	w.whales = nil
	big := w.pick(4) == 0 // a quarter of the histories have two whales trading amounts beyond 64 bits
	w.lastID = 0
	w.payN = 0
	w.vestEnd = w.ctx.BlockTime().Unix() + 1000
	// traded pairs
	w.pairs = [][2]string{{w.denoms[0], w.denoms[1]}}
	if w.pick(2) == 0 {
		w.pairs = append(w.pairs, [2]string{w.denoms[nD-1], w.denoms[(nD-1+1)%nD]})
	}
	for i, a := range w.accts {
		if big && i >= nA-2 {
			var cs sdk.Coins
			for _, d := range funded {
				cs = cs.Add(sdk.NewCoin(d, sdkmath.NewIntFromBigInt(pow2(80)).AddRaw(w.r.Int63n(1000))))
			}
			ensureAccount(w.app, w.ctx, a)
			fund(w.t, w.app, w.ctx, a, cs)
			w.whale[string(a)] = true
			w.whales = append(w.whales, a)
			continue
		}
		var cs sdk.Coins
		for _, d := range funded {
			amt := int64(50_000)
			switch w.pick(6) {
			case 0:
				amt = w.r.Int63n(3000)
			case 1:
				amt = w.r.Int63n(300)
			}
			if amt > 0 {
				cs = cs.Add(sdk.NewInt64Coin(d, amt))
			}
		}
		if w.pick(4) == 0 && !cs.IsZero() && w.app.AccountKeeper.GetAccount(w.ctx, a) == nil {
			// a vesting account as order owner: part of its balance is locked by the schedule, on top of
			// which the holds are placed (the bank adds the two)
			now := w.ctx.BlockTime().Unix()
			var ov sdk.Coins
			for _, c := range cs {
				if w.pick(3) != 0 {
					ov = ov.Add(sdk.NewCoin(c.Denom, c.Amount.MulRaw(int64(1+w.pick(9))).QuoRaw(10)))
				}
			}
			ov = sdk.NewCoins(ov...)
			if !ov.IsZero() {
				bva, err := vesting.NewBaseVestingAccount(authtypes.NewBaseAccountWithAddress(a), ov, w.vestEnd)
				if err != nil {
					w.t.Fatalf("vesting account: %v", err)
				}
				var va sdk.AccountI = vesting.NewDelayedVestingAccountRaw(bva)
				if w.pick(2) == 0 {
					va = vesting.NewContinuousVestingAccountRaw(bva, now-1000) // half way: about half is still locked
				}
				w.app.AccountKeeper.SetAccount(w.ctx, w.app.AccountKeeper.NewAccount(w.ctx, va))
				w.vesting[string(a)] = true
			}
		}
		ensureAccount(w.app, w.ctx, a)
		if !cs.IsZero() {
			fund(w.t, w.app, w.ctx, a, cs)
		}
	}
}

// ---------- genesis cases ----------

// c02Genesis imports a random set of exchange records with the hold module's genesis either
// matching, exceeding or falling short of what the records need.
func (w *c02World) c02Genesis(base sdk.Context, cw *CaseWriter) {
	w.newHistory(base)
	var gs exchange.GenesisState
	gs.Params = w.app.ExchangeKeeper.GetParams(w.ctx)
	need := map[string]sdk.Coins{}
	var order []string
	add := func(addr string, cs sdk.Coins) {
		if _, ok := need[addr]; !ok {
			order = append(order, addr)
		}
		need[addr] = need[addr].Add(cs...)
	}
	nO := w.pick(4)
	for i := 0; i < nO; i++ {
		id := uint64(i + 1)
		ad, pd := w.pair()
		amt := c02AssetAmts[w.pick(len(c02AssetAmts))]
		owner := w.trader().String()
		if w.pick(2) == 0 {
			ask := &exchange.AskOrder{MarketId: 2, Seller: owner, Assets: sdk.NewInt64Coin(ad, amt), Price: sdk.NewInt64Coin(pd, amt*100), AllowPartial: true}
			if w.pick(2) == 0 {
				d := pd
				if w.pick(2) == 0 {
					d = ad
				}
				c := sdk.NewInt64Coin(d, 3)
				ask.SellerSettlementFlatFee = &c
			}
			o := exchange.NewOrder(id).WithAsk(ask)
			gs.Orders = append(gs.Orders, *o)
			// the amounts the property says must be reserved (not GetHoldAmount)
			req := sdk.NewCoins(ask.Assets)
			if ask.SellerSettlementFlatFee != nil && ask.SellerSettlementFlatFee.Denom != pd {
				req = req.Add(*ask.SellerSettlementFlatFee)
			}
			add(owner, req)
		} else {
			bid := &exchange.BidOrder{MarketId: 2, Buyer: owner, Assets: sdk.NewInt64Coin(ad, amt), Price: sdk.NewInt64Coin(pd, amt*100), AllowPartial: true}
			if w.pick(2) == 0 {
				bid.BuyerSettlementFees = sdk.NewCoins(sdk.NewInt64Coin(w.denoms[w.pick(len(w.denoms))], 5))
			}
			o := exchange.NewOrder(id).WithBid(bid)
			gs.Orders = append(gs.Orders, *o)
			add(owner, bid.BuyerSettlementFees.Add(bid.Price))
		}
	}
	gs.LastOrderId = uint64(nO)
	w.lastID = uint64(nO)
	seen := map[string]bool{}
	for i := 0; i < w.pick(3); i++ {
		a := w.trader().String()
		if seen[a] {
			continue
		}
		seen[a] = true
		c := exchange.Commitment{Account: a, MarketId: 2, Amount: w.someCoins(100)}
		gs.Commitments = append(gs.Commitments, c)
		add(a, c.Amount)
	}
	for i := 0; i < w.pick(3); i++ {
		src := w.trader().String()
		p := exchange.Payment{Source: src, SourceAmount: w.someCoins(100), Target: w.otherTrader(src).String(), ExternalId: fmt.Sprintf("g%d", i)}
		gs.Payments = append(gs.Payments, p)
		add(src, p.SourceAmount)
	}
	// holds: exact, more, or less than needed
	mode := w.pick(4)
	var hg hold.GenesisState
	for k, addr := range order {
		cs := need[addr]
		switch {
		case mode == 1 && k == 0:
			cs = cs.Add(sdk.NewInt64Coin(w.denoms[0], 7))
		case mode == 2 && k == len(order)-1:
			c := cs[w.pick(len(cs))]
			cs = cs.Sub(sdk.NewCoin(c.Denom, sdkmath.OneInt()))
		}
		if !cs.IsZero() {
			hg.Holds = append(hg.Holds, &hold.AccountHold{Address: addr, Amount: cs})
		}
	}
	// every account can afford the holds
	for _, a := range w.accts {
		fund(w.t, w.app, w.ctx, a, sdk.NewCoins(sdk.NewInt64Coin(w.denoms[0], 100_000), sdk.NewInt64Coin(w.denoms[1], 100_000)))
		for _, d := range w.denoms[2:] {
			fund(w.t, w.app, w.ctx, a, sdk.NewCoins(sdk.NewInt64Coin(d, 100_000)))
		}
	}
	// only the orders, commitments and payments are imported: markets and params stay as they are
	cctx, _ := w.ctx.CacheContext()
	err := try(func() error {
		w.app.HoldKeeper.InitGenesis(cctx, &hg)
		gs.LastMarketId = 0
		w.app.ExchangeKeeper.InitGenesis(cctx, &gs)
		return nil
	})
	// the state handed to genesis, as a model state
	g := &c02Obs{lastID: gs.LastOrderId}
	for i := range gs.Orders {
		g.orders = append(g.orders, &gs.Orders[i])
	}
	g.commits = gs.Commitments
	for i := range gs.Payments {
		g.pays = append(g.pays, &gs.Payments[i])
	}
	for _, ah := range hg.Holds {
		for _, c := range ah.Amount {
			g.holds = append(g.holds, c02KV{w.aid(ah.Address), w.did(c.Denom), c.Amount})
		}
	}
	cw.Add(fmt.Sprintf("CGenesis %s %s", w.stateT(g), coqBool(err == nil)),
		map[string]any{"kind": "genesis", "mode": mode, "orders": len(gs.Orders), "commitments": len(gs.Commitments), "payments": len(gs.Payments), "accepted": err == nil})
	cw.Count("genesis_cases")
	if err == nil {
		cw.Count("genesis_accepted")
	} else {
		cw.Count("genesis_rejected")
	}
	if len(order) > 0 {
		cw.Nontrivial(fmt.Sprintf("g/%d/%d/%d/%d/%v", mode, len(gs.Orders), len(gs.Commitments), len(gs.Payments), err == nil))
	}
	// carry on from the imported state: with exact holds the invariant is hold = obligations, with excess
	// holds (accepted: the genesis check is a coverage check) it is "hold - obligations never changes"
	if err == nil && len(order) > 0 && w.pick(2) == 0 {
		w.ctx = cctx
		w.markets = []uint32{2}
		if w.pick(2) == 0 {
			w.markets = []uint32{1, 2}
		}
		w.runHistory(cw, mode != 1, 4+w.pick(12), map[string]any{"after_genesis_mode": mode})
		cw.Count("histories_after_genesis")
		if mode == 1 {
			cw.Count("histories_after_genesis_with_excess_holds")
		}
	}
}

// ---------- the test ----------

// runHistory runs nOps generated operations from the current state of w.ctx and emits one CHist case.
// exact = the starting state's holds EQUAL its obligations (otherwise: right after a genesis import whose
// holds exceed them).
func (w *c02World) runHistory(cw *CaseWriter, exact bool, nOps int, desc map[string]any) {
	init := w.observe(w.ctx)
	var steps, kinds, trace, sig []string
	accepted := 0
	closed := false
	before := init
	for i := 0; i < nOps; i++ {
		op := w.nextOp(before, closed)
		res := w.exec(op)
		if res.ok {
			switch v := res.resp.(type) {
			case *exchange.MsgCreateAskResponse:
				w.lastID = v.OrderId
			case *exchange.MsgCreateBidResponse:
				w.lastID = v.OrderId
			}
			if op.kind == "close_market" {
				closed = true
			}
		}
		after := w.observe(w.ctx)
		adm := res.ok
		if op.adm != nil {
			adm = op.adm(res.ok)
			cw.Count("ops_two_sided")
			if !res.ok && adm {
				cw.Count("ops_refusal_left_to_model") // the model must predict this refusal (funds, amounts, owner ...)
			}
		}
		opT := op.term(adm, res.ok, before, after)
		steps = append(steps, fmt.Sprintf("(%s, %s, %s, %s)", opT, coqBool(res.ok), w.stateT(after), w.kvT(after.qholds)))
		trace = append(trace, fmt.Sprintf("%s => %v", opT, res.ok))
		cw.Count("ops")
		cw.Count("op_" + op.kind)
		w.countShapes(cw, op, res.ok, before)
		if res.ok {
			accepted++
			cw.Count("ops_accepted")
			cw.Count("ok_" + op.kind)
			kinds = append(kinds, op.kind)
			if strings.HasPrefix(opT, "OSettle true") && strings.Contains(opT, "(Some (") {
				cw.Count("partial_fills")
			}
			if o, isAsk := op.msg.(*exchange.MsgCreateAskRequest); isAsk && w.vesting[addrKey(o.AskOrder.Seller)] {
				cw.Count("ok_order_by_vesting_account")
			}
			if o, isBid := op.msg.(*exchange.MsgCreateBidRequest); isBid && w.vesting[addrKey(o.BidOrder.Buyer)] {
				cw.Count("ok_order_by_vesting_account")
			}
			if cs, isCS := op.msg.(*exchange.MsgMarketCommitmentSettleRequest); isCS && cs.MarketId == c02BipsMarket {
				cw.Count("ok_commitment_settle_with_bips_and_navs")
			}
		} else {
			cw.Count("ops_rejected")
			if dbg := os.Getenv("C02_DEBUG"); dbg != "" && strings.HasPrefix(op.kind, dbg) {
				e := res.err.Error()
				if len(e) > 200 {
					e = e[:200]
				}
				fmt.Printf("DBG %s adm=%v: %s\n", op.kind, adm, e)
			}
		}
		if len(after.holds) > 0 {
			cw.Count("steps_with_holds")
		}
		sig = append(sig, fmt.Sprintf("%s:%v", op.kind, res.ok))
		before = after
	}
	var accts, denoms []string
	for i := range w.universe() {
		accts = append(accts, fmt.Sprintf("%d", i+1))
	}
	for i := range w.all {
		denoms = append(denoms, fmt.Sprintf("%d", i+1))
	}
	term := fmt.Sprintf("CHist %s %s %s %s %s", coqBool(exact), coqList(accts), coqList(denoms), w.stateT(init), "[\n    "+strings.Join(steps, ";\n    ")+"]")
	d := map[string]any{"kind": "history", "exact_start": exact, "accounts": len(w.accts), "vesting_accounts": len(w.vesting), "denoms": len(w.denoms),
		"markets": w.markets, "ops": nOps, "accepted": accepted, "accepted_kinds": kinds, "initial_state": w.stateT(init), "trace": trace}
	for k, v := range desc {
		d[k] = v
	}
	cw.Add(term, d)
	cw.Count("histories")
	if len(w.vesting) > 0 {
		cw.Count("histories_with_vesting_account")
	}
	if w.bondIn {
		cw.Count("histories_trading_bond_denom")
	}
	if len(w.whales) > 0 {
		cw.Count("histories_with_whales")
	}
	for _, a := range w.accts {
		if len(a) == 32 {
			cw.Count("histories_with_32_byte_address")
			break
		}
	}
	cw.Count(fmt.Sprintf("hist_len_%02d_%02d", (nOps/10)*10, (nOps/10)*10+9))
	if accepted >= 3 {
		cw.Nontrivial(strings.Join(sig, ","))
	}
}

// countShapes records how often the corners the generator aims at were actually reached.
func (w *c02World) countShapes(cw *CaseWriter, op *c02Op, ok bool, before *c02Obs) {
	pre := "refused_"
	if ok {
		pre = "ok_"
	}
	upper := func(s string) bool { return s != "" && s != strings.ToLower(s) }
	big := func(c sdk.Coin) bool { return !c.Amount.IsInt64() }
	bigOrders := func(ids []uint64) bool {
		for _, id := range ids {
			if o := before.order(id); o != nil && big(o.GetAssets()) {
				return true
			}
		}
		return false
	}
	switch m := op.msg.(type) {
	case *exchange.MsgCreateAskRequest:
		if upper(m.AskOrder.Seller) {
			cw.Count(pre + "owner_spelled_in_upper_case")
		}
		if big(m.AskOrder.Assets) {
			cw.Count(pre + "order_beyond_64_bits")
		}
		if len(addrKey(m.AskOrder.Seller)) == 32 {
			cw.Count(pre + "order_by_32_byte_address")
		}
		if m.AskOrder.Assets.Denom == w.bond {
			cw.Count(pre + "order_holding_bond_denom")
		}
	case *exchange.MsgCreateBidRequest:
		if upper(m.BidOrder.Buyer) {
			cw.Count(pre + "owner_spelled_in_upper_case")
		}
		if big(m.BidOrder.Assets) {
			cw.Count(pre + "order_beyond_64_bits")
		}
		if len(addrKey(m.BidOrder.Buyer)) == 32 {
			cw.Count(pre + "order_by_32_byte_address")
		}
		if m.BidOrder.Price.Denom == w.bond {
			cw.Count(pre + "order_holding_bond_denom")
		}
	case *exchange.MsgMarketSettleRequest:
		if bigOrders(append(append([]uint64{}, m.AskOrderIds...), m.BidOrderIds...)) {
			cw.Count(pre + "settlement_beyond_64_bits")
		}
	case *exchange.MsgFillBidsRequest:
		if bigOrders(m.BidOrderIds) {
			cw.Count(pre + "settlement_beyond_64_bits")
		}
	case *exchange.MsgFillAsksRequest:
		if bigOrders(m.AskOrderIds) {
			cw.Count(pre + "settlement_beyond_64_bits")
		}
	case *exchange.MsgCommitFundsRequest:
		if upper(m.Account) {
			cw.Count(pre + "owner_spelled_in_upper_case")
		}
	case *exchange.MsgCreatePaymentRequest:
		if upper(m.Payment.Source) || upper(m.Payment.Target) {
			cw.Count(pre + "owner_spelled_in_upper_case")
		}
		if m.Payment.ExternalId == "" {
			cw.Count(pre + "payment_without_external_id")
			for _, p := range before.pays {
				if p.ExternalId == "" && sameAddr(p.Source, m.Payment.Source) {
					cw.Count(pre + "second_payment_without_external_id")
				}
			}
		}
	case *stakingtypes.MsgDelegate:
		a := w.aid(m.DelegatorAddress)
		if before.get(before.holds, a, w.did(m.Amount.Denom)).IsPositive() {
			cw.Count(pre + "delegate_by_account_with_hold_in_that_denom")
			free := before.bal(a, w.did(m.Amount.Denom)).Sub(before.get(before.holds, a, w.did(m.Amount.Denom)))
			if m.Amount.Amount.GT(free) {
				cw.Count(pre + "delegate_of_held_funds")
			}
		}
		if w.vesting[addrKey(m.DelegatorAddress)] {
			cw.Count(pre + "delegate_by_vesting_account")
		}
	}
}

func TestC02(t *testing.T) {
	r := newRand("C02")
	cw := NewCaseWriter("C02", "PV.Corr.C02", "check_all", 12)
	app, base := newApp(t)
	base = base.WithBlockTime(time.Unix(1_700_000_000, 0).UTC()) // vesting schedules are relative to it
	w := &c02World{t: t, app: app, r: r, admin: addrN(299)}
	c02Setup(t, app, base, w.admin)
	var err error
	if w.bond, err = app.StakingKeeper.BondDenom(base); err != nil {
		t.Fatalf("bond denom: %v", err)
	}
	vals, err := app.StakingKeeper.GetAllValidators(base)
	if err != nil || len(vals) == 0 {
		t.Fatalf("validators: %v %d", err, len(vals))
	}
	w.val = vals[0].GetOperator()
	w.all = append(append([]string{}, c02Denoms...), w.bond)

	nHist := scale(160, 4000)
	for h := 0; h < nHist; h++ {
		w.newHistory(base)
		w.runHistory(cw, true, 5+w.pick(56), map[string]any{"history": h})
	}
	for g := 0; g < scale(60, 1500); g++ {
		w.c02Genesis(base, cw)
	}
	if ops := cw.Stats["ops"]; ops > 0 {
		cw.Stats["accept_permille"] = cw.Stats["ops_accepted"] * 1000 / ops
	}
	cw.Flush(t)
}
