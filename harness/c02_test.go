//go:build c02

package harness

// C02 — funds on hold always equal the account's open exchange obligations.
//
// Histories of 5–60 operations are run through the REAL message handlers of the exchange module
// (with the real hold and bank keepers behind them).  After every operation the harness reads back
// every order, commitment and payment from the exchange store, every hold from the hold store and
// the balances from the bank, and emits them as a Coq term of the shape of the model's state.

import (
	"fmt"
	"math/rand"
	"os"
	"sort"
	"strings"
	"testing"

	sdkmath "cosmossdk.io/math"
	sdk "github.com/cosmos/cosmos-sdk/types"

	simapp "github.com/provenance-io/provenance/app"
	"github.com/provenance-io/provenance/x/exchange"
	"github.com/provenance-io/provenance/x/hold"
)

var c02Denoms = []string{"cna", "cnb", "cnc", "cnd"}

type c02World struct {
	t       *testing.T
	app     *simapp.App
	ctx     sdk.Context
	r       *rand.Rand
	accts   []sdk.AccAddress // traders; ids 1..n
	admin   sdk.AccAddress   // market admin (all permissions); id n+1
	denoms  []string         // traded denoms of this history (prefix of c02Denoms)
	markets []uint32
	addrID  map[string]int64
	extID   map[string]int64
	denomID map[string]int64
	lastID  uint64
	payN    int
	pairs   [][2]string // (assets denom, price denom) used by this history
}

// ---------- observation ----------

type c02Obs struct {
	orders  []*exchange.Order
	commits []exchange.Commitment
	pays    []*exchange.Payment
	holds   []c02KV
	bals    []c02KV
	lastID  uint64
}

type c02KV struct {
	a, d int64
	v    sdkmath.Int
}

func (w *c02World) aid(addr string) int64 {
	if addr == "" {
		return 0
	}
	if id, ok := w.addrID[addr]; ok {
		return id
	}
	id := int64(1000 + len(w.addrID))
	w.addrID[addr] = id
	return id
}

func (w *c02World) did(denom string) int64 {
	if id, ok := w.denomID[denom]; ok {
		return id
	}
	id := int64(50 + len(w.denomID))
	w.denomID[denom] = id
	return id
}

func (w *c02World) eid(ext string) int64 {
	if id, ok := w.extID[ext]; ok {
		return id
	}
	id := int64(1 + len(w.extID))
	w.extID[ext] = id
	return id
}

func (w *c02World) universe() []sdk.AccAddress {
	return append(append([]sdk.AccAddress{}, w.accts...), w.admin)
}

func (w *c02World) observe(ctx sdk.Context) *c02Obs {
	ob := &c02Obs{lastID: w.lastID}
	if err := w.app.ExchangeKeeper.IterateOrders(ctx, func(o *exchange.Order) bool {
		ob.orders = append(ob.orders, o)
		return false
	}); err != nil {
		w.t.Fatalf("IterateOrders: %v", err)
	}
	w.app.ExchangeKeeper.IterateCommitments(ctx, func(c exchange.Commitment) bool {
		ob.commits = append(ob.commits, c)
		return false
	})
	w.app.ExchangeKeeper.IteratePayments(ctx, func(p *exchange.Payment) bool {
		ob.pays = append(ob.pays, p)
		return false
	})
	ahs, err := w.app.HoldKeeper.GetAllAccountHolds(ctx)
	if err != nil {
		w.t.Fatalf("GetAllAccountHolds: %v", err)
	}
	for _, ah := range ahs {
		for _, c := range ah.Amount {
			ob.holds = append(ob.holds, c02KV{w.aid(ah.Address), w.did(c.Denom), c.Amount})
		}
	}
	for _, a := range w.universe() {
		for _, d := range c02Denoms {
			b := w.app.BankKeeper.GetBalance(ctx, a, d)
			ob.bals = append(ob.bals, c02KV{w.aid(a.String()), w.did(d), b.Amount})
		}
	}
	return ob
}

func (ob *c02Obs) bal(a, d int64) sdkmath.Int {
	for _, kv := range ob.bals {
		if kv.a == a && kv.d == d {
			return kv.v
		}
	}
	return sdkmath.ZeroInt()
}

func (ob *c02Obs) order(id uint64) *exchange.Order {
	for _, o := range ob.orders {
		if o.OrderId == id {
			return o
		}
	}
	return nil
}

// ---------- Coq terms ----------

func (w *c02World) coinT(c sdk.Coin) string {
	return fmt.Sprintf("(%d, %s)", w.did(c.Denom), zInt(c.Amount))
}

func (w *c02World) coinsT(cs sdk.Coins) string {
	items := make([]string, 0, len(cs))
	for _, c := range cs {
		items = append(items, w.coinT(c))
	}
	return coqList(items)
}

func (w *c02World) optCoinT(c *sdk.Coin) string {
	if c == nil {
		return "[]"
	}
	return coqList([]string{w.coinT(*c)})
}

func (w *c02World) orderT(o *exchange.Order) string {
	if o.IsAskOrder() {
		a := o.GetAskOrder()
		return fmt.Sprintf("(mk_order true %d %d %s %s %s %s)", w.aid(a.Seller), a.MarketId, w.coinT(a.Assets), w.coinT(a.Price),
			w.optCoinT(a.SellerSettlementFlatFee), coqBool(a.AllowPartial))
	}
	b := o.GetBidOrder()
	return fmt.Sprintf("(mk_order false %d %d %s %s %s %s)", w.aid(b.Buyer), b.MarketId, w.coinT(b.Assets), w.coinT(b.Price),
		w.coinsT(b.BuyerSettlementFees), coqBool(b.AllowPartial))
}

func (w *c02World) kvT(kvs []c02KV) string {
	items := make([]string, 0, len(kvs))
	for _, kv := range kvs {
		items = append(items, fmt.Sprintf("((%d, %d), %s)", kv.a, kv.d, zInt(kv.v)))
	}
	return coqList(items)
}

func (w *c02World) stateT(ob *c02Obs) string {
	var os, cs, ps []string
	for _, o := range ob.orders {
		os = append(os, fmt.Sprintf("(%d, %s)", o.OrderId, w.orderT(o)))
	}
	for _, c := range ob.commits {
		cs = append(cs, fmt.Sprintf("((%d, %d), %s)", c.MarketId, w.aid(c.Account), w.coinsT(c.Amount)))
	}
	for _, p := range ob.pays {
		ps = append(ps, fmt.Sprintf("((%d, %d), mk_payment %s %s %d)", w.aid(p.Source), w.eid(p.ExternalId),
			w.coinsT(p.SourceAmount), w.coinsT(p.TargetAmount), w.aid(p.Target)))
	}
	return fmt.Sprintf("(mk_state %s %d %s %s %s %s)", coqList(os), ob.lastID, coqList(cs), coqList(ps), w.kvT(ob.holds), w.kvT(ob.bals))
}

func (w *c02World) entriesT(es []exchange.AccountAmount) string {
	items := make([]string, 0, len(es))
	for _, e := range es {
		items = append(items, fmt.Sprintf("(%d, %s)", w.aid(e.Account), w.coinsT(e.Amount)))
	}
	return coqList(items)
}

func zList(ids []uint64) string {
	items := make([]string, 0, len(ids))
	for _, id := range ids {
		items = append(items, fmt.Sprintf("%d", id))
	}
	return coqList(items)
}

// ---------- running one message ----------

type c02Result struct {
	ok   bool
	resp any
	err  error
}

func (w *c02World) exec(msg sdk.Msg) c02Result {
	cctx, write := w.ctx.CacheContext()
	var resp any
	err := try(func() error {
		if vb, ok := msg.(interface{ ValidateBasic() error }); ok {
			if e := vb.ValidateBasic(); e != nil {
				return e
			}
		}
		h := w.app.MsgServiceRouter().Handler(msg)
		if h == nil {
			return fmt.Errorf("no handler for %T", msg)
		}
		res, e := h(cctx, msg)
		if e != nil {
			return e
		}
		if res != nil && len(res.MsgResponses) > 0 {
			resp = res.MsgResponses[0].GetCachedValue()
		}
		return nil
	})
	if err != nil {
		return c02Result{ok: false, err: err}
	}
	write()
	return c02Result{ok: true, resp: resp}
}

// ---------- generators ----------

// c02Op is one generated operation: the message and how to render the model operation from the
// observed outcome.
type c02Op struct {
	kind string
	msg  sdk.Msg
	term func(ok bool, before, after *c02Obs) string
}

func (w *c02World) pick(n int) int { return w.r.Intn(n) }

func (w *c02World) trader() sdk.AccAddress { return w.accts[w.pick(len(w.accts))] }

func (w *c02World) otherTrader(not string) sdk.AccAddress {
	for i := 0; i < 8; i++ {
		a := w.trader()
		if a.String() != not {
			return a
		}
	}
	return w.trader()
}

func (w *c02World) market() uint32 { return w.markets[w.pick(len(w.markets))] }

func (w *c02World) inHistory(denom string) bool {
	for _, d := range w.denoms {
		if d == denom {
			return true
		}
	}
	return false
}

// option picks a fee option, preferring the history's denoms.
func (w *c02World) option(opts []sdk.Coin) *sdk.Coin {
	if len(opts) == 0 {
		return nil
	}
	var pref []sdk.Coin
	for _, o := range opts {
		if w.inHistory(o.Denom) {
			pref = append(pref, o)
		}
	}
	if len(pref) == 0 || w.pick(10) == 0 {
		pref = opts
	}
	c := pref[w.pick(len(pref))]
	return &c
}

func roundUpTo(x sdkmath.Int, m int64) sdkmath.Int {
	mm := sdkmath.NewInt(m)
	rem := x.Mod(mm)
	if rem.IsZero() {
		return x
	}
	return x.Add(mm.Sub(rem))
}

var c02AssetAmts = []int64{1, 2, 4, 6, 10, 20}

// buyerFees computes settlement fees that satisfy the market for the given price.
func (w *c02World) buyerFees(mkt *exchange.Market, price sdk.Coin, assetsAmt int64, partial bool) sdk.Coins {
	var fees sdk.Coins
	if f := w.option(mkt.FeeBuyerSettlementFlat); f != nil {
		fees = fees.Add(*f)
	}
	var ratios []exchange.FeeRatio
	for _, r := range mkt.FeeBuyerSettlementRatios {
		if r.Price.Denom == price.Denom {
			ratios = append(ratios, r)
		}
	}
	if len(ratios) > 0 {
		var pref []exchange.FeeRatio
		for _, r := range ratios {
			if w.inHistory(r.Fee.Denom) {
				pref = append(pref, r)
			}
		}
		if len(pref) == 0 {
			pref = ratios
		}
		r := pref[w.pick(len(pref))]
		if fee, err := r.ApplyTo(price); err == nil {
			fees = fees.Add(fee)
		}
	}
	if len(fees) == 0 && w.pick(6) == 0 {
		// a voluntary fee in a market that asks for none
		fees = sdk.NewCoins(sdk.NewInt64Coin(w.denoms[w.pick(len(w.denoms))], int64(1+w.pick(5))*assetsAmt))
	}
	if partial {
		out := sdk.Coins{}
		for _, c := range fees {
			out = out.Add(sdk.NewCoin(c.Denom, roundUpTo(c.Amount, assetsAmt)))
		}
		fees = out
	}
	return fees
}

func (w *c02World) sellerFlat(mkt *exchange.Market, priceDenom string, assetsAmt int64, partial bool) *sdk.Coin {
	f := w.option(mkt.FeeSellerSettlementFlat)
	if f == nil {
		if w.pick(4) != 0 {
			return nil
		}
		// voluntary flat fee; sometimes in the price denom (then it is NOT held)
		d := w.denoms[w.pick(len(w.denoms))]
		if w.pick(3) == 0 {
			d = priceDenom
		}
		c := sdk.NewInt64Coin(d, int64(1+w.pick(5)))
		f = &c
	}
	if partial {
		c := sdk.NewCoin(f.Denom, roundUpTo(f.Amount, assetsAmt))
		f = &c
	}
	return f
}

func (w *c02World) pair() (string, string) {
	p := w.pairs[w.pick(len(w.pairs))]
	return p[0], p[1]
}

func (w *c02World) genCreateAsk(before *c02Obs) *c02Op {
	m := w.market()
	mkt := w.app.ExchangeKeeper.GetMarket(w.ctx, m)
	seller := w.trader()
	ad, pd := w.pair()
	amt := c02AssetAmts[w.pick(len(c02AssetAmts))]
	unit := int64(100 * (1 + w.pick(2)))
	partial := w.pick(3) != 0
	price := sdk.NewInt64Coin(pd, amt*unit)
	assets := sdk.NewInt64Coin(ad, amt)
	switch w.pick(14) {
	case 0: // more than the account can have
		assets = sdk.NewInt64Coin(ad, 1_000_000_000)
	case 1: // assets and price in the same denom: invalid
		price = sdk.NewInt64Coin(ad, amt*unit)
	}
	ask := exchange.AskOrder{MarketId: m, Seller: seller.String(), Assets: assets, Price: price, AllowPartial: partial}
	if mkt != nil {
		ask.SellerSettlementFlatFee = w.sellerFlat(mkt, pd, amt, partial)
	}
	msg := &exchange.MsgCreateAskRequest{AskOrder: ask}
	if mkt != nil {
		msg.OrderCreationFee = w.option(mkt.FeeCreateAskFlat)
		if msg.OrderCreationFee != nil && w.pick(12) == 0 {
			msg.OrderCreationFee = nil // missing required fee
		}
	}
	return &c02Op{kind: "create_ask", msg: msg, term: func(ok bool, _, _ *c02Obs) string {
		o := exchange.NewOrder(0).WithAsk(&ask)
		return fmt.Sprintf("OCreate %s %s %s", coqBool(ok), w.orderT(o), w.optCoinT(msg.OrderCreationFee))
	}}
}

func (w *c02World) genCreateBid(before *c02Obs) *c02Op {
	m := w.market()
	mkt := w.app.ExchangeKeeper.GetMarket(w.ctx, m)
	buyer := w.trader()
	ad, pd := w.pair()
	amt := c02AssetAmts[w.pick(len(c02AssetAmts))]
	unit := int64(100 * (2 + w.pick(2)))
	partial := w.pick(3) != 0
	// mirror an existing ask so that settlements find compatible pairs
	if w.pick(10) < 6 {
		var asks []*exchange.AskOrder
		for _, o := range before.orders {
			if o.IsAskOrder() && o.GetAskOrder().Seller != buyer.String() {
				asks = append(asks, o.GetAskOrder())
			}
		}
		if len(asks) > 0 {
			a := asks[w.pick(len(asks))]
			m = a.MarketId
			mkt = w.app.ExchangeKeeper.GetMarket(w.ctx, m)
			ad, pd = a.Assets.Denom, a.Price.Denom
			aa := a.Assets.Amount.Int64()
			switch w.pick(4) {
			case 0:
				if aa%2 == 0 {
					amt = aa / 2
				} else {
					amt = aa
				}
			case 1:
				amt = aa * 2
			default:
				amt = aa
			}
			au := a.Price.Amount.Int64() / aa
			unit = au + int64(100*w.pick(2))
			if unit <= 0 {
				unit = 100
			}
		}
	}
	price := sdk.NewInt64Coin(pd, amt*unit)
	assets := sdk.NewInt64Coin(ad, amt)
	if w.pick(14) == 0 {
		price = sdk.NewInt64Coin(pd, 1_000_000_000)
	}
	bid := exchange.BidOrder{MarketId: m, Buyer: buyer.String(), Assets: assets, Price: price, AllowPartial: partial}
	if mkt != nil {
		bid.BuyerSettlementFees = w.buyerFees(mkt, price, amt, partial)
	}
	msg := &exchange.MsgCreateBidRequest{BidOrder: bid}
	if mkt != nil {
		msg.OrderCreationFee = w.option(mkt.FeeCreateBidFlat)
		if msg.OrderCreationFee != nil && w.pick(12) == 0 {
			msg.OrderCreationFee = nil
		}
	}
	return &c02Op{kind: "create_bid", msg: msg, term: func(ok bool, _, _ *c02Obs) string {
		o := exchange.NewOrder(0).WithBid(&bid)
		return fmt.Sprintf("OCreate %s %s %s", coqBool(ok), w.orderT(o), w.optCoinT(msg.OrderCreationFee))
	}}
}

func (w *c02World) genCancel(before *c02Obs) *c02Op {
	var id uint64
	signer := w.trader().String()
	if len(before.orders) > 0 && w.pick(8) != 0 {
		o := before.orders[w.pick(len(before.orders))]
		id = o.OrderId
		switch w.pick(6) {
		case 0:
			signer = w.admin.String() // has the cancel permission
		case 1:
			signer = w.otherTrader(o.GetOwner()).String() // no permission
		default:
			signer = o.GetOwner()
		}
	} else {
		id = w.lastID + uint64(1+w.pick(3)) // does not exist
	}
	msg := &exchange.MsgCancelOrderRequest{Signer: signer, OrderId: id}
	return &c02Op{kind: "cancel", msg: msg, term: func(ok bool, _, _ *c02Obs) string {
		return fmt.Sprintf("OCancel %s %d", coqBool(ok), id)
	}}
}

// settleTerm derives the observed fills: listed orders that vanished were filled in full, the one
// that is still there with fewer assets was filled partially (by the difference).
func (w *c02World) settleTerm(ok bool, ids []uint64, before, after *c02Obs) string {
	if !ok {
		return fmt.Sprintf("OSettle false %s None []", zList(ids))
	}
	var fulls []uint64
	part := "None"
	for _, id := range ids {
		ob, oa := before.order(id), after.order(id)
		switch {
		case ob == nil:
			fulls = append(fulls, id) // cannot happen for an accepted settlement
		case oa == nil:
			fulls = append(fulls, id)
		default:
			filled := ob.GetAssets().Amount.Sub(oa.GetAssets().Amount)
			part = fmt.Sprintf("(Some (%d, %s))", id, zInt(filled))
		}
	}
	var xf []string
	for _, kv := range after.bals {
		d := kv.v.Sub(before.bal(kv.a, kv.d))
		if !d.IsZero() {
			xf = append(xf, fmt.Sprintf("((%d, %d), %s)", kv.a, kv.d, zInt(d)))
		}
	}
	return fmt.Sprintf("OSettle true %s %s %s", zList(fulls), part, coqList(xf))
}

type c02Group struct {
	m        uint32
	ad, pd   string
	asks     []*exchange.Order
	bids     []*exchange.Order
}

func (w *c02World) groups(before *c02Obs) []*c02Group {
	idx := map[string]*c02Group{}
	var keys []string
	for _, o := range before.orders {
		k := fmt.Sprintf("%d/%s/%s", o.GetMarketID(), o.GetAssets().Denom, o.GetPrice().Denom)
		g, ok := idx[k]
		if !ok {
			g = &c02Group{m: o.GetMarketID(), ad: o.GetAssets().Denom, pd: o.GetPrice().Denom}
			idx[k] = g
			keys = append(keys, k)
		}
		if o.IsAskOrder() {
			g.asks = append(g.asks, o)
		} else {
			g.bids = append(g.bids, o)
		}
	}
	sort.Strings(keys)
	out := make([]*c02Group, 0, len(keys))
	for _, k := range keys {
		out = append(out, idx[k])
	}
	return out
}

func (w *c02World) sample(os []*exchange.Order, n int) []*exchange.Order {
	idx := w.r.Perm(len(os))
	if n > len(os) {
		n = len(os)
	}
	out := make([]*exchange.Order, 0, n)
	for _, i := range idx[:n] {
		out = append(out, os[i])
	}
	return out
}

func (w *c02World) genMarketSettle(before *c02Obs) *c02Op {
	var cands []*c02Group
	for _, g := range w.groups(before) {
		if len(g.asks) > 0 && len(g.bids) > 0 {
			cands = append(cands, g)
		}
	}
	admin := w.admin.String()
	if w.pick(10) == 0 {
		admin = w.trader().String() // no settle permission
	}
	var askIDs, bidIDs []uint64
	m := w.market()
	expectPartial := false
	if len(cands) > 0 {
		g := cands[w.pick(len(cands))]
		m = g.m
		asks := w.sample(g.asks, 1+w.pick(2))
		bids := w.sample(g.bids, 1+w.pick(2))
		// put an order that allows partial fills last, as the matching requires
		sort.SliceStable(asks, func(i, j int) bool { return !asks[i].PartialFillAllowed() && asks[j].PartialFillAllowed() })
		sort.SliceStable(bids, func(i, j int) bool { return !bids[i].PartialFillAllowed() && bids[j].PartialFillAllowed() })
		ta, tb := sdkmath.ZeroInt(), sdkmath.ZeroInt()
		for _, o := range asks {
			askIDs = append(askIDs, o.OrderId)
			ta = ta.Add(o.GetAssets().Amount)
		}
		for _, o := range bids {
			bidIDs = append(bidIDs, o.OrderId)
			tb = tb.Add(o.GetAssets().Amount)
		}
		expectPartial = !ta.Equal(tb)
		if w.pick(15) == 0 {
			expectPartial = !expectPartial
		}
	} else {
		if w.pick(8) != 0 {
			return nil
		}
		askIDs = []uint64{w.lastID + 1}
		bidIDs = []uint64{w.lastID + 2}
	}
	msg := &exchange.MsgMarketSettleRequest{Admin: admin, MarketId: m, AskOrderIds: askIDs, BidOrderIds: bidIDs, ExpectPartial: expectPartial}
	ids := append(append([]uint64{}, askIDs...), bidIDs...)
	return &c02Op{kind: "market_settle", msg: msg, term: func(ok bool, b, a *c02Obs) string { return w.settleTerm(ok, ids, b, a) }}
}

func (w *c02World) genFillBids(before *c02Obs) *c02Op {
	var cands []*c02Group
	for _, g := range w.groups(before) {
		if len(g.bids) > 0 {
			cands = append(cands, g)
		}
	}
	if len(cands) == 0 {
		return nil
	}
	g := cands[w.pick(len(cands))]
	bids := w.sample(g.bids, 1+w.pick(2))
	seller := w.trader()
	for i := 0; i < 6; i++ {
		clash := false
		for _, b := range bids {
			if b.GetOwner() == seller.String() {
				clash = true
			}
		}
		if !clash {
			break
		}
		seller = w.trader()
	}
	mkt := w.app.ExchangeKeeper.GetMarket(w.ctx, g.m)
	var ids []uint64
	var total sdk.Coins
	for _, b := range bids {
		ids = append(ids, b.OrderId)
		total = total.Add(b.GetAssets())
	}
	if w.pick(12) == 0 {
		total = total.Add(sdk.NewInt64Coin(g.ad, 1)) // wrong total
	}
	msg := &exchange.MsgFillBidsRequest{Seller: seller.String(), MarketId: g.m, TotalAssets: total, BidOrderIds: ids}
	if mkt != nil {
		msg.SellerSettlementFlatFee = w.option(mkt.FeeSellerSettlementFlat)
		msg.AskOrderCreationFee = w.option(mkt.FeeCreateAskFlat)
	}
	return &c02Op{kind: "fill_bids", msg: msg, term: func(ok bool, b, a *c02Obs) string { return w.settleTerm(ok, ids, b, a) }}
}

func (w *c02World) genFillAsks(before *c02Obs) *c02Op {
	var cands []*c02Group
	for _, g := range w.groups(before) {
		if len(g.asks) > 0 {
			cands = append(cands, g)
		}
	}
	if len(cands) == 0 {
		return nil
	}
	g := cands[w.pick(len(cands))]
	asks := w.sample(g.asks, 1+w.pick(2))
	buyer := w.trader()
	for i := 0; i < 6; i++ {
		clash := false
		for _, a := range asks {
			if a.GetOwner() == buyer.String() {
				clash = true
			}
		}
		if !clash {
			break
		}
		buyer = w.trader()
	}
	mkt := w.app.ExchangeKeeper.GetMarket(w.ctx, g.m)
	var ids []uint64
	total := sdk.NewInt64Coin(g.pd, 0)
	for _, a := range asks {
		ids = append(ids, a.OrderId)
		total = total.Add(a.GetPrice())
	}
	if w.pick(12) == 0 {
		total = total.AddAmount(sdkmath.NewInt(1))
	}
	msg := &exchange.MsgFillAsksRequest{Buyer: buyer.String(), MarketId: g.m, TotalPrice: total, AskOrderIds: ids}
	if mkt != nil {
		msg.BuyerSettlementFees = w.buyerFees(mkt, total, 1, false)
		msg.BidOrderCreationFee = w.option(mkt.FeeCreateBidFlat)
	}
	return &c02Op{kind: "fill_asks", msg: msg, term: func(ok bool, b, a *c02Obs) string { return w.settleTerm(ok, ids, b, a) }}
}

func (w *c02World) someCoins(max int64) sdk.Coins {
	cs := sdk.Coins{}
	n := 1 + w.pick(2)
	for i := 0; i < n; i++ {
		cs = cs.Add(sdk.NewInt64Coin(w.denoms[w.pick(len(w.denoms))], 1+w.r.Int63n(max)))
	}
	return cs
}

func (w *c02World) genCommit(before *c02Obs) *c02Op {
	m := w.market()
	mkt := w.app.ExchangeKeeper.GetMarket(w.ctx, m)
	acct := w.trader()
	amount := w.someCoins(500)
	if w.pick(12) == 0 {
		amount = sdk.NewCoins(sdk.NewInt64Coin(w.denoms[0], 1_000_000_000))
	}
	msg := &exchange.MsgCommitFundsRequest{Account: acct.String(), MarketId: m, Amount: amount}
	if mkt != nil {
		msg.CreationFee = w.option(mkt.FeeCreateCommitmentFlat)
		if msg.CreationFee != nil && w.pick(12) == 0 {
			msg.CreationFee = nil
		}
	}
	return &c02Op{kind: "commit", msg: msg, term: func(ok bool, _, _ *c02Obs) string {
		return fmt.Sprintf("OCommit %s %d %d %s %s", coqBool(ok), m, w.aid(acct.String()), w.coinsT(amount), w.optCoinT(msg.CreationFee))
	}}
}

func (w *c02World) partOf(cs sdk.Coins) sdk.Coins {
	out := sdk.Coins{}
	for _, c := range cs {
		if w.pick(2) == 0 || len(out) == 0 {
			amt := c.Amount
			if amt.GT(sdkmath.OneInt()) && w.pick(3) != 0 {
				amt = sdkmath.NewInt(1 + w.r.Int63n(amt.Int64()))
			}
			out = out.Add(sdk.NewCoin(c.Denom, amt))
		}
	}
	return out
}

func (w *c02World) commitsOf(before *c02Obs, m uint32) []exchange.Commitment {
	var out []exchange.Commitment
	for _, c := range before.commits {
		if c.MarketId == m {
			out = append(out, c)
		}
	}
	return out
}

func (w *c02World) genRelease(before *c02Obs) *c02Op {
	m := w.market()
	if len(before.commits) > 0 {
		m = before.commits[w.pick(len(before.commits))].MarketId
	}
	cs := w.commitsOf(before, m)
	admin := w.admin.String()
	if w.pick(10) == 0 {
		admin = w.trader().String()
	}
	var entries []exchange.AccountAmount
	if len(cs) > 0 {
		perm := w.r.Perm(len(cs))
		n := 1 + w.pick(2)
		if n > len(cs) {
			n = len(cs)
		}
		for _, i := range perm[:n] {
			c := cs[i]
			switch w.pick(5) {
			case 0, 1:
				entries = append(entries, exchange.AccountAmount{Account: c.Account}) // everything
			case 2:
				entries = append(entries, exchange.AccountAmount{Account: c.Account, Amount: c.Amount.Add(sdk.NewInt64Coin(c.Amount[0].Denom, 1))}) // too much
			default:
				entries = append(entries, exchange.AccountAmount{Account: c.Account, Amount: w.partOf(c.Amount)})
			}
		}
	} else {
		if w.pick(6) != 0 {
			return nil
		}
		entries = []exchange.AccountAmount{{Account: w.trader().String()}}
	}
	msg := &exchange.MsgMarketReleaseCommitmentsRequest{Admin: admin, MarketId: m, ToRelease: entries}
	return &c02Op{kind: "release_commitments", msg: msg, term: func(ok bool, _, _ *c02Obs) string {
		return fmt.Sprintf("ORelease %s %d %s", coqBool(ok), m, w.entriesT(entries))
	}}
}

func (w *c02World) genCommitSettle(before *c02Obs) *c02Op {
	m := w.market()
	if len(before.commits) > 0 {
		m = before.commits[w.pick(len(before.commits))].MarketId
	}
	cs := w.commitsOf(before, m)
	if len(cs) == 0 {
		return nil
	}
	admin := w.admin.String()
	if w.pick(12) == 0 {
		admin = w.trader().String()
	}
	a := cs[w.pick(len(cs))]
	var inputs, outputs, fees []exchange.AccountAmount
	inA := w.partOf(a.Amount)
	inputs = append(inputs, exchange.AccountAmount{Account: a.Account, Amount: inA})
	if len(cs) > 1 && w.pick(3) != 0 {
		b := cs[w.pick(len(cs))]
		if b.Account != a.Account {
			inB := w.partOf(b.Amount)
			inputs = append(inputs, exchange.AccountAmount{Account: b.Account, Amount: inB})
			outputs = append(outputs, exchange.AccountAmount{Account: b.Account, Amount: inA}, exchange.AccountAmount{Account: a.Account, Amount: inB})
		}
	}
	if len(outputs) == 0 {
		to := w.otherTrader(a.Account)
		outputs = append(outputs, exchange.AccountAmount{Account: to.String(), Amount: inA})
	}
	if w.pick(2) == 0 {
		left, neg := a.Amount.SafeSub(inA...)
		if !neg && !left.IsZero() {
			fees = append(fees, exchange.AccountAmount{Account: a.Account, Amount: w.partOf(left)})
		} else if w.pick(3) == 0 {
			fees = append(fees, exchange.AccountAmount{Account: a.Account, Amount: sdk.NewCoins(sdk.NewInt64Coin(a.Amount[0].Denom, 1))}) // not committed
		}
	}
	if w.pick(15) == 0 {
		outputs[0].Amount = outputs[0].Amount.Add(sdk.NewInt64Coin(outputs[0].Amount[0].Denom, 1)) // totals differ
	}
	msg := &exchange.MsgMarketCommitmentSettleRequest{Admin: admin, MarketId: m, Inputs: inputs, Outputs: outputs, Fees: fees}
	return &c02Op{kind: "commitment_settle", msg: msg, term: func(ok bool, _, _ *c02Obs) string {
		return fmt.Sprintf("OCommitSettle %s %d %s %s %s", coqBool(ok), m, w.entriesT(inputs), w.entriesT(outputs), w.entriesT(fees))
	}}
}

func (w *c02World) genPayCreate(before *c02Obs) *c02Op {
	src := w.trader()
	w.payN++
	ext := fmt.Sprintf("pay%d", w.payN)
	if len(before.pays) > 0 && w.pick(10) == 0 {
		p := before.pays[w.pick(len(before.pays))]
		src, _ = sdk.AccAddressFromBech32(p.Source)
		ext = p.ExternalId // duplicate
	}
	target := ""
	if w.pick(5) != 0 {
		target = w.otherTrader(src.String()).String()
	}
	var samt, tamt sdk.Coins
	switch w.pick(6) {
	case 0:
		tamt = w.someCoins(300) // nothing from the source: nothing held
	case 1:
		samt = w.someCoins(300)
	case 2:
		samt = sdk.NewCoins(sdk.NewInt64Coin(w.denoms[0], 1_000_000_000))
	default:
		samt = w.someCoins(300)
		tamt = w.someCoins(300)
	}
	pay := exchange.Payment{Source: src.String(), SourceAmount: samt, Target: target, TargetAmount: tamt, ExternalId: ext}
	msg := &exchange.MsgCreatePaymentRequest{Payment: pay}
	return &c02Op{kind: "payment_create", msg: msg, term: func(ok bool, _, _ *c02Obs) string {
		return fmt.Sprintf("OPayCreate %s %d %d %s %s %d", coqBool(ok), w.aid(pay.Source), w.eid(ext), w.coinsT(samt), w.coinsT(tamt), w.aid(target))
	}}
}

func (w *c02World) genPayAccept(before *c02Obs) *c02Op {
	if len(before.pays) == 0 {
		return nil
	}
	p := *before.pays[w.pick(len(before.pays))]
	switch w.pick(8) {
	case 0:
		p.SourceAmount = p.SourceAmount.Add(sdk.NewInt64Coin(w.denoms[0], 1)) // not what was agreed
	case 1:
		p.Target = w.otherTrader(p.Source).String()
	}
	msg := &exchange.MsgAcceptPaymentRequest{Payment: p}
	return &c02Op{kind: "payment_accept", msg: msg, term: func(ok bool, _, _ *c02Obs) string {
		return fmt.Sprintf("OPayAccept %s %d %d %s %s %d", coqBool(ok), w.aid(p.Source), w.eid(p.ExternalId), w.coinsT(p.SourceAmount), w.coinsT(p.TargetAmount), w.aid(p.Target))
	}}
}

func (w *c02World) genPayReject(before *c02Obs) *c02Op {
	if len(before.pays) == 0 {
		return nil
	}
	p := before.pays[w.pick(len(before.pays))]
	target := p.Target
	if target == "" || w.pick(8) == 0 {
		target = w.trader().String()
	}
	msg := &exchange.MsgRejectPaymentRequest{Target: target, Source: p.Source, ExternalId: p.ExternalId}
	return &c02Op{kind: "payment_reject", msg: msg, term: func(ok bool, _, _ *c02Obs) string {
		return fmt.Sprintf("OPayReject %s %d %d %d", coqBool(ok), w.aid(target), w.aid(p.Source), w.eid(p.ExternalId))
	}}
}

func (w *c02World) genPayRejectAll(before *c02Obs) *c02Op {
	var withTarget []*exchange.Payment
	for _, p := range before.pays {
		if p.Target != "" {
			withTarget = append(withTarget, p)
		}
	}
	if len(withTarget) == 0 {
		return nil
	}
	p := withTarget[w.pick(len(withTarget))]
	target := p.Target
	sources := []string{p.Source}
	if w.pick(3) == 0 {
		for _, q := range withTarget {
			if q.Target == target && q.Source != p.Source {
				sources = append(sources, q.Source)
				break
			}
		}
	}
	if w.pick(6) == 0 {
		sources = append(sources, w.trader().String()) // maybe a source without payments for the target
	}
	if w.pick(6) == 0 {
		sources = append(sources, p.Source) // duplicates are ignored
	}
	msg := &exchange.MsgRejectPaymentsRequest{Target: target, Sources: sources}
	return &c02Op{kind: "payments_reject", msg: msg, term: func(ok bool, _, _ *c02Obs) string {
		var ids []string
		for _, s := range sources {
			ids = append(ids, fmt.Sprintf("%d", w.aid(s)))
		}
		return fmt.Sprintf("OPayRejectAll %s %d %s", coqBool(ok), w.aid(target), coqList(ids))
	}}
}

func (w *c02World) genPayCancel(before *c02Obs) *c02Op {
	if len(before.pays) == 0 {
		return nil
	}
	p := before.pays[w.pick(len(before.pays))]
	exts := []string{p.ExternalId}
	for _, q := range before.pays {
		if q.Source == p.Source && q.ExternalId != p.ExternalId && w.pick(2) == 0 {
			exts = append(exts, q.ExternalId)
		}
	}
	if w.pick(8) == 0 {
		exts = append(exts, "nope")
	}
	if w.pick(8) == 0 {
		exts = append(exts, p.ExternalId)
	}
	msg := &exchange.MsgCancelPaymentsRequest{Source: p.Source, ExternalIds: exts}
	return &c02Op{kind: "payments_cancel", msg: msg, term: func(ok bool, _, _ *c02Obs) string {
		var ids []string
		for _, e := range exts {
			ids = append(ids, fmt.Sprintf("%d", w.eid(e)))
		}
		return fmt.Sprintf("OPayCancel %s %d %s", coqBool(ok), w.aid(p.Source), coqList(ids))
	}}
}

func (w *c02World) genPayRetarget(before *c02Obs) *c02Op {
	if len(before.pays) == 0 {
		return nil
	}
	p := before.pays[w.pick(len(before.pays))]
	nt := ""
	switch w.pick(5) {
	case 0:
		nt = p.Target // unchanged: rejected
	case 1:
		nt = ""
	default:
		nt = w.otherTrader(p.Source).String()
	}
	msg := &exchange.MsgChangePaymentTargetRequest{Source: p.Source, ExternalId: p.ExternalId, NewTarget: nt}
	return &c02Op{kind: "payment_retarget", msg: msg, term: func(ok bool, _, _ *c02Obs) string {
		return fmt.Sprintf("OPayRetarget %s %d %d %d", coqBool(ok), w.aid(p.Source), w.eid(p.ExternalId), w.aid(nt))
	}}
}

func (w *c02World) genManageFees(before *c02Obs) *c02Op {
	m := w.market()
	mkt := w.app.ExchangeKeeper.GetMarket(w.ctx, m)
	authority := w.app.ExchangeKeeper.GetAuthority()
	if w.pick(10) == 0 {
		authority = w.admin.String()
	}
	msg := &exchange.MsgGovManageFeesRequest{Authority: authority, MarketId: m}
	d := w.denoms[w.pick(len(w.denoms))]
	amt := int64(1 + w.pick(6))
	if mkt != nil {
		switch w.pick(5) {
		case 0:
			for _, c := range mkt.FeeCreateAskFlat {
				if c.Denom == d {
					msg.RemoveFeeCreateAskFlat = append(msg.RemoveFeeCreateAskFlat, c)
				}
			}
			msg.AddFeeCreateAskFlat = []sdk.Coin{sdk.NewInt64Coin(d, amt)}
		case 1:
			for _, c := range mkt.FeeSellerSettlementFlat {
				if c.Denom == d {
					msg.RemoveFeeSellerSettlementFlat = append(msg.RemoveFeeSellerSettlementFlat, c)
				}
			}
			msg.AddFeeSellerSettlementFlat = []sdk.Coin{sdk.NewInt64Coin(d, amt)}
		case 2:
			for _, c := range mkt.FeeBuyerSettlementFlat {
				if c.Denom == d {
					msg.RemoveFeeBuyerSettlementFlat = append(msg.RemoveFeeBuyerSettlementFlat, c)
				}
			}
			msg.AddFeeBuyerSettlementFlat = []sdk.Coin{sdk.NewInt64Coin(d, amt)}
		case 3:
			if len(mkt.FeeCreateBidFlat) > 0 {
				msg.RemoveFeeCreateBidFlat = []sdk.Coin{mkt.FeeCreateBidFlat[0]}
			} else {
				msg.AddFeeCreateBidFlat = []sdk.Coin{sdk.NewInt64Coin(d, amt)}
			}
		default:
			for _, c := range mkt.FeeCreateCommitmentFlat {
				if c.Denom == d {
					msg.RemoveFeeCreateCommitmentFlat = append(msg.RemoveFeeCreateCommitmentFlat, c)
				}
			}
			msg.AddFeeCreateCommitmentFlat = []sdk.Coin{sdk.NewInt64Coin(d, amt)}
		}
	}
	return &c02Op{kind: "manage_fees", msg: msg, term: func(ok bool, _, _ *c02Obs) string {
		return fmt.Sprintf("OManageFees %s", coqBool(ok))
	}}
}

// genReopen switches order / commitment acceptance of a market (back) on; no effect on holds.
func (w *c02World) genReopen(before *c02Obs) *c02Op {
	m := w.market()
	var msg sdk.Msg
	mkt := w.app.ExchangeKeeper.GetMarket(w.ctx, m)
	switch {
	case mkt != nil && !mkt.AcceptingOrders:
		msg = &exchange.MsgMarketUpdateAcceptingOrdersRequest{Admin: w.admin.String(), MarketId: m, AcceptingOrders: true}
	case mkt != nil && !mkt.AcceptingCommitments:
		msg = &exchange.MsgMarketUpdateAcceptingCommitmentsRequest{Admin: w.admin.String(), MarketId: m, AcceptingCommitments: true}
	case w.pick(4) != 0:
		return nil
	default: // already on: rejected
		msg = &exchange.MsgMarketUpdateAcceptingOrdersRequest{Admin: w.admin.String(), MarketId: m, AcceptingOrders: true}
	}
	return &c02Op{kind: "market_flags", msg: msg, term: func(ok bool, _, _ *c02Obs) string {
		return fmt.Sprintf("OManageFees %s", coqBool(ok))
	}}
}

func (w *c02World) genCloseMarket(before *c02Obs) *c02Op {
	m := w.market()
	authority := w.app.ExchangeKeeper.GetAuthority()
	if w.pick(6) == 0 {
		authority = w.admin.String()
	}
	msg := &exchange.MsgGovCloseMarketRequest{Authority: authority, MarketId: m}
	return &c02Op{kind: "close_market", msg: msg, term: func(ok bool, _, _ *c02Obs) string {
		return fmt.Sprintf("OCloseMarket %s %d", coqBool(ok), m)
	}}
}

type c02Gen struct {
	weight int
	f      func(*c02Obs) *c02Op
}

func (w *c02World) nextOp(before *c02Obs, closed bool) *c02Op {
	gens := []c02Gen{
		{14, w.genCreateAsk}, {14, w.genCreateBid}, {7, w.genCancel}, {12, w.genMarketSettle},
		{5, w.genFillBids}, {5, w.genFillAsks}, {8, w.genCommit}, {5, w.genRelease}, {5, w.genCommitSettle},
		{7, w.genPayCreate}, {4, w.genPayAccept}, {3, w.genPayReject}, {2, w.genPayRejectAll},
		{3, w.genPayCancel}, {2, w.genPayRetarget}, {2, w.genManageFees}, {1, w.genCloseMarket}, {1, w.genReopen},
	}
	if closed {
		gens = append(gens, c02Gen{12, w.genReopen})
	}
	total := 0
	for _, g := range gens {
		total += g.weight
	}
	for tries := 0; tries < 20; tries++ {
		x := w.pick(total)
		for _, g := range gens {
			if x < g.weight {
				if op := g.f(before); op != nil {
					return op
				}
				break
			}
			x -= g.weight
		}
	}
	return w.genCreateAsk(before)
}

// ---------- set-up ----------

func c02Coins(s string) []sdk.Coin {
	cs, err := sdk.ParseCoinsNormalized(s)
	if err != nil {
		panic(err)
	}
	return cs
}

func c02Ratio(price, fee string) exchange.FeeRatio {
	p, _ := sdk.ParseCoinNormalized(price)
	f, _ := sdk.ParseCoinNormalized(fee)
	return exchange.FeeRatio{Price: p, Fee: f}
}

func c02Setup(t *testing.T, app *simapp.App, ctx sdk.Context, admin sdk.AccAddress) {
	ensureAccount(app, ctx, admin)
	grants := []exchange.AccessGrant{{Address: admin.String(), Permissions: exchange.AllPermissions()}}
	mk := []exchange.Market{
		{
			MarketId: 1, MarketDetails: exchange.MarketDetails{Name: "fees"},
			FeeCreateAskFlat:          c02Coins("2cna,3cnc"),
			FeeCreateBidFlat:          c02Coins("3cnb,1cnc"),
			FeeSellerSettlementFlat:   c02Coins("4cna,5cnb,6cnc"),
			FeeSellerSettlementRatios: []exchange.FeeRatio{c02Ratio("100cnb", "1cnb"), c02Ratio("50cna", "1cna")},
			FeeBuyerSettlementFlat:    c02Coins("3cna,4cnb"),
			FeeBuyerSettlementRatios:  []exchange.FeeRatio{c02Ratio("100cnb", "2cnb"), c02Ratio("100cnb", "1cna"), c02Ratio("100cna", "1cna")},
			AcceptingOrders:           true, AllowUserSettlement: true, AccessGrants: grants,
			AcceptingCommitments:    true,
			FeeCreateCommitmentFlat: c02Coins("1cna"),
		},
		{
			MarketId: 2, MarketDetails: exchange.MarketDetails{Name: "free"},
			AcceptingOrders: true, AllowUserSettlement: true, AccessGrants: grants, AcceptingCommitments: true,
		},
	}
	for _, m := range mk {
		msg := &exchange.MsgGovCreateMarketRequest{Authority: app.ExchangeKeeper.GetAuthority(), Market: m}
		if err := msg.ValidateBasic(); err != nil {
			t.Fatalf("market %d: %v", m.MarketId, err)
		}
		if _, err := app.MsgServiceRouter().Handler(msg)(ctx, msg); err != nil {
			t.Fatalf("create market %d: %v", m.MarketId, err)
		}
	}
}

func (w *c02World) newHistory(base sdk.Context) {
	w.ctx, _ = base.CacheContext()
	nA := 3 + w.pick(3)
	nD := 2 + w.pick(3)
	nM := 1 + w.pick(2)
	w.accts = nil
	w.addrID = map[string]int64{}
	w.extID = map[string]int64{}
	w.denomID = map[string]int64{}
	for i, d := range c02Denoms {
		w.denomID[d] = int64(i + 1)
	}
	w.denoms = c02Denoms[:nD]
	for i := 0; i < nA; i++ {
		a := addrN(200 + i)
		w.accts = append(w.accts, a)
		w.addrID[a.String()] = int64(i + 1)
	}
	w.addrID[w.admin.String()] = int64(nA + 1)
	w.markets = []uint32{1, 2}[:nM]
	if nM == 1 && w.pick(2) == 0 {
		w.markets = []uint32{2}
	}
	w.lastID = 0
	w.payN = 0
	// traded pairs
	w.pairs = [][2]string{{w.denoms[0], w.denoms[1]}}
	if w.pick(2) == 0 {
		w.pairs = append(w.pairs, [2]string{w.denoms[nD-1], w.denoms[(nD-1+1)%nD]})
	}
	for _, a := range w.accts {
		ensureAccount(w.app, w.ctx, a)
		var cs sdk.Coins
		for _, d := range w.denoms {
			amt := int64(50_000)
			switch w.pick(6) {
			case 0:
				amt = w.r.Int63n(3000)
			case 1:
				amt = w.r.Int63n(300)
			}
			if amt > 0 {
				cs = cs.Add(sdk.NewInt64Coin(d, amt))
			}
		}
		if !cs.IsZero() {
			fund(w.t, w.app, w.ctx, a, cs)
		}
	}
}

// ---------- genesis cases ----------

// c02Genesis imports a random set of exchange records with the hold module's genesis either
// matching, exceeding or falling short of what the records need.
func (w *c02World) c02Genesis(base sdk.Context, cw *CaseWriter) {
	w.newHistory(base)
	var gs exchange.GenesisState
	gs.Params = w.app.ExchangeKeeper.GetParams(w.ctx)
	need := map[string]sdk.Coins{}
	var order []string
	add := func(addr string, cs sdk.Coins) {
		if _, ok := need[addr]; !ok {
			order = append(order, addr)
		}
		need[addr] = need[addr].Add(cs...)
	}
	nO := w.pick(4)
	for i := 0; i < nO; i++ {
		id := uint64(i + 1)
		ad, pd := w.pair()
		amt := c02AssetAmts[w.pick(len(c02AssetAmts))]
		owner := w.trader().String()
		if w.pick(2) == 0 {
			ask := &exchange.AskOrder{MarketId: 2, Seller: owner, Assets: sdk.NewInt64Coin(ad, amt), Price: sdk.NewInt64Coin(pd, amt*100), AllowPartial: true}
			if w.pick(2) == 0 {
				d := pd
				if w.pick(2) == 0 {
					d = ad
				}
				c := sdk.NewInt64Coin(d, 3)
				ask.SellerSettlementFlatFee = &c
			}
			o := exchange.NewOrder(id).WithAsk(ask)
			gs.Orders = append(gs.Orders, *o)
			// the amounts the property says must be reserved (not GetHoldAmount)
			req := sdk.NewCoins(ask.Assets)
			if ask.SellerSettlementFlatFee != nil && ask.SellerSettlementFlatFee.Denom != pd {
				req = req.Add(*ask.SellerSettlementFlatFee)
			}
			add(owner, req)
		} else {
			bid := &exchange.BidOrder{MarketId: 2, Buyer: owner, Assets: sdk.NewInt64Coin(ad, amt), Price: sdk.NewInt64Coin(pd, amt*100), AllowPartial: true}
			if w.pick(2) == 0 {
				bid.BuyerSettlementFees = sdk.NewCoins(sdk.NewInt64Coin(w.denoms[w.pick(len(w.denoms))], 5))
			}
			o := exchange.NewOrder(id).WithBid(bid)
			gs.Orders = append(gs.Orders, *o)
			add(owner, bid.BuyerSettlementFees.Add(bid.Price))
		}
	}
	gs.LastOrderId = uint64(nO)
	w.lastID = uint64(nO)
	seen := map[string]bool{}
	for i := 0; i < w.pick(3); i++ {
		a := w.trader().String()
		if seen[a] {
			continue
		}
		seen[a] = true
		c := exchange.Commitment{Account: a, MarketId: 2, Amount: w.someCoins(100)}
		gs.Commitments = append(gs.Commitments, c)
		add(a, c.Amount)
	}
	for i := 0; i < w.pick(3); i++ {
		src := w.trader().String()
		p := exchange.Payment{Source: src, SourceAmount: w.someCoins(100), Target: w.otherTrader(src).String(), ExternalId: fmt.Sprintf("g%d", i)}
		gs.Payments = append(gs.Payments, p)
		add(src, p.SourceAmount)
	}
	// holds: exact, more, or less than needed
	mode := w.pick(4)
	var hg hold.GenesisState
	for k, addr := range order {
		cs := need[addr]
		switch {
		case mode == 1 && k == 0:
			cs = cs.Add(sdk.NewInt64Coin(w.denoms[0], 7))
		case mode == 2 && k == len(order)-1:
			c := cs[w.pick(len(cs))]
			cs = cs.Sub(sdk.NewCoin(c.Denom, sdkmath.OneInt()))
		}
		if !cs.IsZero() {
			hg.Holds = append(hg.Holds, &hold.AccountHold{Address: addr, Amount: cs})
		}
	}
	// every account can afford the holds
	for _, a := range w.accts {
		fund(w.t, w.app, w.ctx, a, sdk.NewCoins(sdk.NewInt64Coin(w.denoms[0], 100_000), sdk.NewInt64Coin(w.denoms[1], 100_000)))
		for _, d := range w.denoms[2:] {
			fund(w.t, w.app, w.ctx, a, sdk.NewCoins(sdk.NewInt64Coin(d, 100_000)))
		}
	}
	cctx, _ := w.ctx.CacheContext()
	err := try(func() error {
		w.app.HoldKeeper.InitGenesis(cctx, &hg)
		w.app.ExchangeKeeper.InitGenesis(cctx, &gs)
		return nil
	})
	// the state handed to genesis, as a model state
	g := &c02Obs{lastID: gs.LastOrderId}
	for i := range gs.Orders {
		g.orders = append(g.orders, &gs.Orders[i])
	}
	g.commits = gs.Commitments
	for i := range gs.Payments {
		g.pays = append(g.pays, &gs.Payments[i])
	}
	for _, ah := range hg.Holds {
		for _, c := range ah.Amount {
			g.holds = append(g.holds, c02KV{w.aid(ah.Address), w.did(c.Denom), c.Amount})
		}
	}
	cw.Add(fmt.Sprintf("CGenesis %s %s", w.stateT(g), coqBool(err == nil)),
		map[string]any{"kind": "genesis", "mode": mode, "orders": len(gs.Orders), "commitments": len(gs.Commitments), "payments": len(gs.Payments), "accepted": err == nil})
	cw.Count("genesis_cases")
	if err == nil {
		cw.Count("genesis_accepted")
	} else {
		cw.Count("genesis_rejected")
	}
	if len(order) > 0 {
		cw.Nontrivial(fmt.Sprintf("g/%d/%d/%d/%d/%v", mode, len(gs.Orders), len(gs.Commitments), len(gs.Payments), err == nil))
	}
}

// ---------- the test ----------

func TestC02(t *testing.T) {
	r := newRand("C02")
	cw := NewCaseWriter("C02", "PV.Corr.C02", "check_all", 12)
	app, base := newApp(t)
	w := &c02World{t: t, app: app, r: r, admin: addrN(299)}
	c02Setup(t, app, base, w.admin)

	nHist := scale(160, 4000)
	for h := 0; h < nHist; h++ {
		w.newHistory(base)
		nOps := 5 + w.pick(56)
		init := w.observe(w.ctx)
		var steps []string
		var kinds []string
		var trace []string
		accepted := 0
		closed := false
		before := init
		sig := []string{}
		for i := 0; i < nOps; i++ {
			op := w.nextOp(before, closed)
			res := w.exec(op.msg)
			if res.ok {
				switch v := res.resp.(type) {
				case *exchange.MsgCreateAskResponse:
					w.lastID = v.OrderId
				case *exchange.MsgCreateBidResponse:
					w.lastID = v.OrderId
				}
				if op.kind == "close_market" {
					closed = true
				}
			}
			after := w.observe(w.ctx)
			opT := op.term(res.ok, before, after)
			steps = append(steps, fmt.Sprintf("(%s, %s)", opT, w.stateT(after)))
			trace = append(trace, opT)
			cw.Count("ops")
			cw.Count("op_" + op.kind)
			if res.ok {
				accepted++
				cw.Count("ops_accepted")
				cw.Count("ok_" + op.kind)
				kinds = append(kinds, op.kind)
				if strings.HasPrefix(opT, "OSettle true") && strings.Contains(opT, "(Some (") {
					cw.Count("partial_fills")
				}
			} else {
				cw.Count("ops_rejected")
				if dbg := os.Getenv("C02_DEBUG"); dbg != "" && strings.HasPrefix(op.kind, dbg) {
					e := res.err.Error()
					if len(e) > 160 {
						e = e[:160]
					}
					fmt.Printf("DBG %s: %s\n", op.kind, e)
				}
			}
			if len(after.holds) > 0 {
				cw.Count("steps_with_holds")
			}
			sig = append(sig, fmt.Sprintf("%s:%v", op.kind, res.ok))
			before = after
		}
		var accts, denoms []string
		for i := range w.universe() {
			accts = append(accts, fmt.Sprintf("%d", i+1))
		}
		for i := range c02Denoms {
			denoms = append(denoms, fmt.Sprintf("%d", i+1))
		}
		term := fmt.Sprintf("CHist %s %s %s %s", coqList(accts), coqList(denoms), w.stateT(init), "[\n    "+strings.Join(steps, ";\n    ")+"]")
		cw.Add(term, map[string]any{"kind": "history", "history": h, "accounts": len(w.accts), "denoms": len(w.denoms), "markets": len(w.markets),
			"ops": nOps, "accepted": accepted, "accepted_kinds": kinds, "initial_state": w.stateT(init), "trace": trace})
		cw.Count("histories")
		cw.Count(fmt.Sprintf("hist_len_%02d_%02d", (nOps/10)*10, (nOps/10)*10+9))
		if accepted >= 3 {
			cw.Nontrivial(strings.Join(sig, ","))
		}
	}
	for g := 0; g < scale(60, 1500); g++ {
		w.c02Genesis(base, cw)
	}
	if ops := cw.Stats["ops"]; ops > 0 {
		cw.Stats["accept_permille"] = cw.Stats["ops_accepted"] * 1000 / ops
	}
	cw.Flush(t)
}
