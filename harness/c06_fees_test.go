//go:build c06

package harness

import (
	"fmt"
	"math/rand"
	"testing"
	"time"

	"cosmossdk.io/x/feegrant"
	storetypes "cosmossdk.io/store/types"
	abci "github.com/cometbft/cometbft/abci/types"
	cmtproto "github.com/cometbft/cometbft/proto/tendermint/types"
	"github.com/cosmos/cosmos-sdk/client/tx"
	"github.com/cosmos/cosmos-sdk/crypto/keys/secp256k1"
	cryptotypes "github.com/cosmos/cosmos-sdk/crypto/types"
	sdk "github.com/cosmos/cosmos-sdk/types"
	"github.com/cosmos/cosmos-sdk/types/tx/signing"
	authsigning "github.com/cosmos/cosmos-sdk/x/auth/signing"
	authtypes "github.com/cosmos/cosmos-sdk/x/auth/types"
	"github.com/cosmos/cosmos-sdk/x/authz"
	banktypes "github.com/cosmos/cosmos-sdk/x/bank/types"
	govtypes "github.com/cosmos/cosmos-sdk/x/gov/types"
	govv1 "github.com/cosmos/cosmos-sdk/x/gov/types/v1"

	simapp "github.com/provenance-io/provenance/app"
	"github.com/provenance-io/provenance/internal/pioconfig"
	msgfeestypes "github.com/provenance-io/provenance/x/msgfees/types"
	"github.com/provenance-io/provenance/x/sanction"
)

// Fee routes of C06: signed transactions through CheckTx and a FinalizeBlock of a second, real
// chain (ABCI mode), so that the fee is taken by the real ante handler chain: (1) the fee payer is
// the watched account; (2) the fee payer is somebody else who uses a fee allowance GRANTED BY the
// watched account.  The case is a CRoute: IsSanctioned before, the watched account's fee-denom
// balance before/after, the fee, admitted or not.

const (
	c06FeeChain = "verif-1"
	c06FeeDenom = "feecoin"
	c06FeeGas   = 400_000
)

type c06FeeAcct struct {
	priv cryptotypes.PrivKey
	addr sdk.AccAddress
}

type c06FeeNet struct {
	t      *testing.T
	app    *simapp.App
	height int64
	now    time.Time
}

func (n *c06FeeNet) ctx() sdk.Context {
	return n.app.BaseApp.NewContextLegacy(false, cmtproto.Header{ChainID: c06FeeChain, Height: n.height, Time: n.now})
}

func (n *c06FeeNet) commit(ctx sdk.Context) {
	ctx.MultiStore().(storetypes.CacheMultiStore).Write()
	if _, err := n.app.Commit(); err != nil {
		n.t.Fatalf("Commit(%d): %v", n.height, err)
	}
}

// offer: CheckTx on the committed state, then a block containing the transaction iff admitted.
func (n *c06FeeNet) offer(bz []byte) (admitted bool, executed bool) {
	chk, err := n.app.CheckTx(&abci.RequestCheckTx{Tx: bz, Type: abci.CheckTxType_New})
	if err != nil {
		n.t.Fatalf("CheckTx: %v", err)
	}
	admitted = chk.Code == 0
	var txs [][]byte
	if admitted {
		txs = [][]byte{bz}
	}
	n.height++
	n.now = n.now.Add(5 * time.Second)
	res, err := n.app.FinalizeBlock(&abci.RequestFinalizeBlock{Height: n.height, Time: n.now, Txs: txs})
	if err != nil {
		n.t.Fatalf("FinalizeBlock(%d): %v", n.height, err)
	}
	if admitted {
		executed = res.TxResults[0].Code == 0
	}
	return
}

func (n *c06FeeNet) sign(ctx sdk.Context, signer c06FeeAcct, granter sdk.AccAddress, fee sdk.Coins, msgs ...sdk.Msg) ([]byte, error) {
	cfg := n.app.GetEncodingConfig().TxConfig
	b := cfg.NewTxBuilder()
	if err := b.SetMsgs(msgs...); err != nil {
		return nil, err
	}
	b.SetFeeAmount(fee)
	b.SetGasLimit(c06FeeGas)
	if granter != nil {
		b.SetFeeGranter(granter)
	}
	mode := signing.SignMode(cfg.SignModeHandler().DefaultMode())
	acc := n.app.AccountKeeper.GetAccount(ctx, signer.addr)
	sig := signing.SignatureV2{PubKey: signer.priv.PubKey(), Data: &signing.SingleSignatureData{SignMode: mode}, Sequence: acc.GetSequence()}
	if err := b.SetSignatures(sig); err != nil {
		return nil, err
	}
	sd := authsigning.SignerData{Address: signer.addr.String(), ChainID: c06FeeChain, AccountNumber: acc.GetAccountNumber(), Sequence: acc.GetSequence(), PubKey: signer.priv.PubKey()}
	sig, err := tx.SignWithPrivKey(ctx, mode, sd, b, signer.priv, cfg, acc.GetSequence())
	if err != nil {
		return nil, err
	}
	if err := b.SetSignatures(sig); err != nil {
		return nil, err
	}
	return cfg.TxEncoder()(b.GetTx())
}

func c06FeeRoutes(t *testing.T, r *rand.Rand, w *CaseWriter) {
	pioconfig.SetProvenanceConfig(sdk.DefaultBondDenom, 1)
	hows := []string{"never sanctioned", "permanently sanctioned", "temporarily sanctioned, proposal in deposit period", "permanently sanctioned, temporarily unsanctioned", "sanction proposal cancelled by its proposer"}
	routes := []string{"transaction fee paid by the account (ante handler)", "transaction fee paid from a fee allowance granted by the account (ante handler)"}
	rounds := scale(1, 3)
	nCases := len(hows) * len(routes) * 2 * rounds
	// accounts: per case a watched account and a signer; one proposer
	var accts []c06FeeAcct
	var gen []authtypes.GenesisAccount
	var bals []banktypes.Balance
	for i := 0; i < 2*nCases+1; i++ {
		priv := secp256k1.GenPrivKeyFromSecret([]byte(fmt.Sprintf("verif-c06-key-%d", i)))
		a := c06FeeAcct{priv: priv, addr: sdk.AccAddress(priv.PubKey().Address())}
		accts = append(accts, a)
		gen = append(gen, authtypes.NewBaseAccount(a.addr, priv.PubKey(), uint64(i), 0))
		bals = append(bals, banktypes.Balance{Address: a.addr.String(), Coins: sdk.NewCoins(sdk.NewInt64Coin(c06FeeDenom, int64(c06FeeGas+r.Intn(1000))), sdk.NewInt64Coin(sdk.DefaultBondDenom, 1_000_000))})
	}
	n := &c06FeeNet{t: t}
	n.app = simapp.SetupWithGenesisAccounts(t, c06FeeChain, gen, bals...)
	n.height = n.app.LastBlockHeight() + 1
	n.now = time.Unix(c06T0, 0).UTC()
	govAddr := authtypes.NewModuleAddress(govtypes.ModuleName).String()
	proposer := accts[2*nCases]
	ctx := n.ctx()
	n.app.MsgFeesKeeper.SetParams(ctx, msgfeestypes.Params{FloorGasPrice: sdk.NewInt64Coin(c06FeeDenom, 1), NhashPerUsdMil: 1, ConversionFeeDenom: c06FeeDenom})
	if err := n.app.SanctionKeeper.SetParams(ctx, &sanction.Params{
		ImmediateSanctionMinDeposit:   sdk.NewCoins(sdk.NewInt64Coin(sdk.DefaultBondDenom, 300)),
		ImmediateUnsanctionMinDeposit: sdk.NewCoins(sdk.NewInt64Coin(sdk.DefaultBondDenom, 400))}); err != nil {
		t.Fatal(err)
	}
	gp, _ := n.app.GovKeeper.Params.Get(ctx)
	gp.MinDeposit = sdk.NewCoins(sdk.NewInt64Coin(sdk.DefaultBondDenom, c06GovMin))
	gp.MinInitialDepositRatio, gp.MinDepositRatio, gp.ProposalCancelRatio, gp.ProposalCancelDest = "0", "0", "0.5", ""
	d, v := 100000*time.Second, 100000*time.Second
	gp.MaxDepositPeriod, gp.VotingPeriod = &d, &v
	if err := n.app.GovKeeper.Params.Set(ctx, gp); err != nil {
		t.Fatal(err)
	}
	submit := func(ctx sdk.Context, dep int64, msgs ...sdk.Msg) (uint64, error) {
		id, err := n.app.GovKeeper.ProposalID.Peek(ctx)
		if err != nil {
			return 0, err
		}
		msg, err := govv1.NewMsgSubmitProposal(msgs, sdk.NewCoins(sdk.NewInt64Coin(sdk.DefaultBondDenom, dep)), proposer.addr.String(), "", "c06 fee", "c06 fee", false)
		if err != nil {
			return 0, err
		}
		return id, c06Deliver(n.app, ctx, msg)
	}
	k := 0
	for round := 0; round < rounds; round++ {
		for ri, route := range routes {
			for _, how := range hows {
				for variant := 0; variant < 2; variant++ {
					acct, signer := accts[2*k], accts[2*k+1]
					k++
					cctx, write := ctx.CacheContext()
					err := try(func() error {
						switch how {
						case "permanently sanctioned":
							return c06Deliver(n.app, cctx, sanction.NewMsgSanction(govAddr, acct.addr))
						case "temporarily sanctioned, proposal in deposit period":
							_, err := submit(cctx, 300, sanction.NewMsgSanction(govAddr, acct.addr))
							return err
						case "permanently sanctioned, temporarily unsanctioned":
							if err := c06Deliver(n.app, cctx, sanction.NewMsgSanction(govAddr, acct.addr)); err != nil {
								return err
							}
							_, err := submit(cctx, 400, sanction.NewMsgUnsanction(govAddr, acct.addr))
							return err
						case "sanction proposal cancelled by its proposer":
							id, err := submit(cctx, 300, sanction.NewMsgSanction(govAddr, acct.addr))
							if err != nil {
								return err
							}
							return c06Deliver(n.app, cctx, govv1.NewMsgCancelProposal(id, proposer.addr.String()))
						}
						return nil
					})
					if err != nil {
						w.Count("route_setup_failed:" + how)
						continue
					}
					write()
					fee := int64(c06FeeGas)
					if variant == 1 {
						// everything the account has
						fee = n.app.BankKeeper.GetBalance(ctx, acct.addr, c06FeeDenom).Amount.Int64()
					}
					var bz []byte
					// the message moves no funds: the signer grants an authorization to the proposer
					exp := n.now.Add(1000 * time.Hour)
					if ri == 0 {
						g, err := authz.NewMsgGrant(acct.addr, proposer.addr, authz.NewGenericAuthorization(sdk.MsgTypeURL(&banktypes.MsgSend{})), &exp)
						if err != nil {
							t.Fatal(err)
						}
						bz, err = n.sign(ctx, acct, nil, sdk.NewCoins(sdk.NewInt64Coin(c06FeeDenom, fee)), g)
						if err != nil {
							t.Fatalf("sign: %v", err)
						}
					} else {
						if err := n.app.FeeGrantKeeper.GrantAllowance(ctx, acct.addr, signer.addr, &feegrant.BasicAllowance{}); err != nil {
							t.Fatalf("fee allowance: %v", err)
						}
						g, err := authz.NewMsgGrant(signer.addr, proposer.addr, authz.NewGenericAuthorization(sdk.MsgTypeURL(&banktypes.MsgSend{})), &exp)
						if err != nil {
							t.Fatal(err)
						}
						bz, err = n.sign(ctx, signer, acct.addr, sdk.NewCoins(sdk.NewInt64Coin(c06FeeDenom, fee)), g)
						if err != nil {
							t.Fatalf("sign: %v", err)
						}
					}
					sanctioned := n.app.SanctionKeeper.IsSanctionedAddr(ctx, acct.addr)
					before := n.app.BankKeeper.GetBalance(ctx, acct.addr, c06FeeDenom).Amount.Int64()
					n.commit(ctx)
					admitted, executed := n.offer(bz)
					ctx = n.ctx()
					after := n.app.BankKeeper.GetBalance(ctx, acct.addr, c06FeeDenom).Amount.Int64()
					term := fmt.Sprintf("CRoute %s %s %s %s %s %s %s", coqStr(route), coqStr(how), coqBool(sanctioned), zI64(before), zI64(fee), coqBool(admitted), zI64(after))
					w.Add(term, map[string]any{"kind": "route", "route": route, "status_setup": how, "sanctioned": sanctioned, "balance_before": before,
						"amount": fee, "accepted": admitted, "messages_executed": executed, "balance_after": after})
					w.Count("routes")
					w.Count("route:" + route)
					if admitted {
						w.Count("routes_accepted")
					} else {
						w.Count("routes_rejected")
					}
					if sanctioned {
						w.Count("routes_from_sanctioned_account")
						w.Nontrivial(fmt.Sprintf("route/%s/%s/%d/%d", route, how, before, fee))
					}
				}
			}
		}
	}
	n.commit(ctx)
}
