//go:build c18

package harness

// C18, export / import of state that still REFERS TO A DELETED OBJECT of another module.
//
// No InitGenesis of the ten custom modules looks into another module's store for the objects its
// records mention (Genesis/FullProduct.v: the only cross-module inputs of the product import are
// the hold amounts the exchange checks and the accountdata name): a record that was admitted
// while the object it names existed must import after that object is gone.  The histories
// therefore create references to LIFE-CYCLE MARKERS (c18_lifecycle_test.go) - by denom and by
// marker account address - while the marker exists, and the routes "deleted-from-..." then cancel
// and delete it (the marker BeginBlocker purges it together with its own NAVs and deny entries)
// before the export:
//   scope NAV priced in the marker's denom (metadata AddSetNetAssetValues admits "usd or the denom
//   of an EXISTING marker"); marker NAV of another marker priced in it; an ask order priced in it;
//   a trigger whose action sends coins of it; a payment whose target is the marker account;
//   an attribute ON the marker account; a name OWNED by the marker account; a scope that gives the
//   marker account data access; an attribute on a SCOPE (scopes are deleted by md-scope-delete);
//   a restricted marker that requires an attribute whose NAME is later deleted.
// Then export -> fresh chain -> compare -> continue, like every other state.

import (
	"fmt"
	"strings"

	sdkmath "cosmossdk.io/math"

	sdk "github.com/cosmos/cosmos-sdk/types"
	banktypes "github.com/cosmos/cosmos-sdk/x/bank/types"

	attrtypes "github.com/provenance-io/provenance/x/attribute/types"
	"github.com/provenance-io/provenance/x/exchange"
	markertypes "github.com/provenance-io/provenance/x/marker/types"
	mdtypes "github.com/provenance-io/provenance/x/metadata/types"
	nametypes "github.com/provenance-io/provenance/x/name/types"
	triggertypes "github.com/provenance-io/provenance/x/trigger/types"
)

var c18RefKinds = []string{"scope-nav", "marker-nav", "ask-price", "attr-on-marker-account", "name-owned-by-marker-account",
	"trigger-action", "payment-target", "scope-data-access", "attr-on-scope"}

// lcDeletable: the marker is on a route that deletes it in the middle of the history
func (lc *c18LC) deletable() bool { return strings.HasPrefix(lc.target, "deleted-") }

// refPlan proposes one transaction that makes another module refer to a life-cycle marker that
// still exists (markers that will be deleted first), or to a scope.
func (g *c18Gen) refPlan() *c18Tx {
	r := g.r
	if !g.mdReady {
		return g.mdSpecsTx()
	}
	if len(g.scopes) == 0 {
		return g.mdScopeTx(g.astr(9))
	}
	if len(g.markers) == 0 {
		return g.rcoinAddTx()
	}
	var best *c18LC
	for _, lc := range g.lcs {
		if !lc.added || lc.dead {
			continue
		}
		if st := g.lcStatus(lc); st == markertypes.StatusUndefined || st >= markertypes.StatusCancelled {
			continue
		}
		// markers that will be deleted first, one after the other (the one that already has most
		// references), so that each of them is referred to in EVERY way before it goes; the others
		// share what is left, fewest references first
		better := best == nil || (lc.deletable() && !best.deletable()) ||
			(lc.deletable() && best.deletable() && lc.refs < len(c18RefKinds) && (best.refs >= len(c18RefKinds) || lc.refs > best.refs)) ||
			(!lc.deletable() && !best.deletable() && lc.refs < best.refs)
		if better {
			best = lc
		}
	}
	if best == nil {
		return nil
	}
	lc := best
	// the first reference to a marker is a scope NAV priced in it; the others rotate through all kinds
	kind := c18RefKinds[lc.refs%len(c18RefKinds)]
	maddr := markertypes.MustGetMarkerAddress(lc.denom)
	scope := g.scopes[r.Intn(len(g.scopes))]
	one := sdk.NewCoin(lc.denom, sdkmath.NewInt(int64(1+r.Intn(9))))
	var p *c18Tx
	switch kind {
	case "scope-nav":
		nav := mdtypes.NetAssetValue{Price: one, Volume: 1}
		p = &c18Tx{signers: []int{12}, msgs: []sdk.Msg{&mdtypes.MsgAddNetAssetValuesRequest{ScopeId: mdtypes.ScopeMetadataAddress(scope).String(), Signers: []string{g.astr(12)}, NetAssetValues: []mdtypes.NetAssetValue{nav}}}}
	case "marker-nav":
		nav := markertypes.NetAssetValue{Price: one, Volume: uint64(1 + r.Intn(50))}
		p = &c18Tx{signers: []int{2}, msgs: []sdk.Msg{markertypes.NewMsgAddNetAssetValuesRequest(g.markers[r.Intn(len(g.markers))], g.astr(2), []markertypes.NetAssetValue{nav})}}
	case "ask-price":
		s := g.pick(3, 4)
		o := exchange.AskOrder{MarketId: 2, Seller: g.astr(s), Assets: sdk.NewInt64Coin(c18Asset, int64(2+r.Intn(5))), Price: one, AllowPartial: false}
		p = &c18Tx{signers: []int{s}, msgs: []sdk.Msg{&exchange.MsgCreateAskRequest{AskOrder: o}}}
	case "attr-on-marker-account":
		p = &c18Tx{extra: sdk.NewCoins(sdk.NewInt64Coin(c18Stake, 600)), signers: []int{1},
			msgs: []sdk.Msg{attrtypes.NewMsgAddAttributeRequest(maddr.String(), g.addr(1), c18KycNam, attrtypes.AttributeType_String, []byte("mk"+lc.denom))}}
	case "name-owned-by-marker-account":
		g.nameSeq++
		rec := nametypes.NewNameRecord(fmt.Sprintf("m%d", g.nameSeq), maddr, true)
		p = &c18Tx{extra: sdk.NewCoins(sdk.NewInt64Coin(c18Stake, 1500)), signers: []int{1}, msgs: []sdk.Msg{nametypes.NewMsgBindNameRequest(rec, nametypes.NewNameRecord(c18Root, g.addr(1), false))}}
	case "trigger-action":
		o := g.pick(3, 4, 5, 6)
		msg, err := triggertypes.NewCreateTriggerRequest([]string{g.astr(o)}, &triggertypes.BlockHeightEvent{BlockHeight: uint64(g.n.height + 2000)},
			[]sdk.Msg{banktypes.NewMsgSend(g.addr(o), g.addr(13), sdk.NewCoins(one))})
		if err != nil {
			return nil
		}
		p = &c18Tx{gas: 900_000, signers: []int{o}, msgs: []sdk.Msg{msg}}
	case "payment-target":
		s := g.pick(3, 4)
		g.extSeq++
		pay := exchange.Payment{Source: g.astr(s), SourceAmount: sdk.NewCoins(sdk.NewInt64Coin(c18Asset, int64(1+r.Intn(5)))), Target: maddr.String(),
			TargetAmount: sdk.NewCoins(one), ExternalId: fmt.Sprintf("ref-%d", g.extSeq)}
		p = &c18Tx{extra: sdk.NewCoins(sdk.NewInt64Coin(c18Stake, 12_000_000_000)), signers: []int{s}, msgs: []sdk.Msg{&exchange.MsgCreatePaymentRequest{Payment: pay}}}
	case "scope-data-access":
		p = g.mdScopeTx(maddr.String())
	default: // attr-on-scope
		p = &c18Tx{extra: sdk.NewCoins(sdk.NewInt64Coin(c18Stake, 600)), signers: []int{1},
			msgs: []sdk.Msg{attrtypes.NewMsgAddAttributeRequest(mdtypes.ScopeMetadataAddress(scope).String(), g.addr(1), c18KycNam, attrtypes.AttributeType_String, []byte("sc"))}}
	}
	p.kind = "ref-" + kind
	if !g.ghost {
		p.ref = lc
	}
	return p
}

// refStats counts, at export time, the references of other modules' records to marker denoms /
// marker accounts / scopes that no longer exist (the dangling ones are what this file is about).
func (g *c18Gen) refStats() map[string]int {
	out := map[string]int{}
	ctx := g.n.queryCtx()
	app := g.n.app
	gone := func(denom string) bool {
		if denom == "usd" || !(strings.HasPrefix(denom, "lc") || strings.HasPrefix(denom, "Lc-") || strings.HasPrefix(denom, "zz")) {
			return false
		}
		m, err := app.MarkerKeeper.GetMarkerByDenom(ctx, denom)
		return err != nil || m == nil
	}
	goneAddr := map[string]bool{}
	for _, lc := range g.lcs {
		if lc.added && gone(lc.denom) {
			goneAddr[markertypes.MustGetMarkerAddress(lc.denom).String()] = true
		}
	}
	_ = try(func() error {
		md := app.MetadataKeeper.ExportGenesis(ctx)
		scopes := map[string]bool{}
		for _, s := range md.Scopes {
			scopes[s.ScopeId.String()] = true
			for _, a := range s.DataAccess {
				if goneAddr[a] {
					out["scope_data_access_of_deleted_marker_account"]++
				}
			}
		}
		for _, grp := range md.NetAssetValues {
			for _, nv := range grp.NetAssetValues {
				if gone(nv.Price.Denom) {
					out["scope_nav_priced_in_deleted_marker"]++
				}
			}
		}
		for _, grp := range app.MarkerKeeper.ExportGenesis(ctx).NetAssetValues {
			for _, nv := range grp.NetAssetValues {
				if gone(nv.Price.Denom) {
					out["marker_nav_priced_in_deleted_marker"]++
				}
			}
		}
		ex := app.ExchangeKeeper.ExportGenesis(ctx)
		for _, o := range ex.Orders {
			if a := o.GetAskOrder(); a != nil && gone(a.Price.Denom) {
				out["ask_order_priced_in_deleted_marker"]++
			}
		}
		for _, p := range ex.Payments {
			if goneAddr[p.Target] {
				out["payment_to_deleted_marker_account"]++
			}
		}
		for _, a := range app.AttributeKeeper.ExportGenesis(ctx).Attributes {
			if goneAddr[a.Address] {
				out["attribute_on_deleted_marker_account"]++
			}
			if strings.HasPrefix(a.Address, "scope") && !scopes[a.Address] {
				out["attribute_on_deleted_scope"]++
			}
		}
		for _, b := range app.NameKeeper.ExportGenesis(ctx).Bindings {
			if goneAddr[b.Address] {
				out["name_owned_by_deleted_marker_account"]++
			}
		}
		for _, tr := range app.TriggerKeeper.ExportGenesis(ctx).Triggers {
			for _, a := range tr.Actions {
				var send banktypes.MsgSend
				if strings.HasSuffix(a.TypeUrl, "MsgSend") && send.Unmarshal(a.Value) == nil {
					for _, c := range send.Amount {
						if gone(c.Denom) {
							out["trigger_action_sends_deleted_marker_denom"]++
						}
					}
				}
			}
		}
		names := map[string]bool{}
		for _, b := range app.NameKeeper.ExportGenesis(ctx).Bindings {
			names[b.Name] = true
		}
		for _, m := range app.MarkerKeeper.ExportGenesis(ctx).Markers {
			for _, ra := range m.RequiredAttributes {
				if !names[ra] {
					out["marker_requires_attribute_of_deleted_name"]++
				}
			}
		}
		return nil
	})
	return out
}
