//go:build c13probe

package harness

import (
	"fmt"
	"testing"

	sdk "github.com/cosmos/cosmos-sdk/types"
	"github.com/cosmos/cosmos-sdk/types/query"

	"github.com/provenance-io/provenance/x/exchange"
	"github.com/provenance-io/provenance/x/exchange/keeper"
)

func TestC13Probe(t *testing.T) {
	app, ctx := newApp(t)
	admin := addrN(1)
	owners := []sdk.AccAddress{addrN(2), addrN(3), addrN(4)}
	for _, a := range append(owners, admin) {
		ensureAccount(app, ctx, a)
		fund(t, app, ctx, a, sdk.NewCoins(sdk.NewInt64Coin("aaa", 1000000), sdk.NewInt64Coin("aaab", 1000000), sdk.NewInt64Coin("bbb", 1000000), sdk.NewInt64Coin("pricecoin", 1000000)))
	}
	mid, err := app.ExchangeKeeper.CreateMarket(ctx, exchange.Market{
		MarketDetails:   exchange.MarketDetails{Name: "m1"},
		AcceptingOrders: true, AllowUserSettlement: true,
		AccessGrants: []exchange.AccessGrant{{Address: admin.String(), Permissions: exchange.AllPermissions()}},
	})
	fmt.Println("market", mid, err)
	qs := keeper.NewQueryServer(app.ExchangeKeeper)
	h := func(msg sdk.Msg) error {
		return try(func() error { _, e := app.MsgServiceRouter().Handler(msg)(ctx, msg); return e })
	}
	fmt.Println(h(&exchange.MsgCreateAskRequest{AskOrder: exchange.AskOrder{MarketId: mid, Seller: owners[0].String(), Assets: sdk.NewInt64Coin("aaa", 10), Price: sdk.NewInt64Coin("pricecoin", 10), AllowPartial: true, ExternalId: "x1"}}))
	fmt.Println(h(&exchange.MsgCreateAskRequest{AskOrder: exchange.AskOrder{MarketId: mid, Seller: owners[0].String(), Assets: sdk.NewInt64Coin("aaab", 10), Price: sdk.NewInt64Coin("pricecoin", 10), AllowPartial: true}}))
	fmt.Println(h(&exchange.MsgCreateBidRequest{BidOrder: exchange.BidOrder{MarketId: mid, Buyer: owners[1].String(), Assets: sdk.NewInt64Coin("aaa", 4), Price: sdk.NewInt64Coin("pricecoin", 4), AllowPartial: true}}))
	r, err := qs.GetAssetOrders(ctx, &exchange.QueryGetAssetOrdersRequest{Asset: "aaa"})
	fmt.Println(len(r.Orders), err, r.Pagination)
	fmt.Println("settle", h(&exchange.MsgMarketSettleRequest{Admin: admin.String(), MarketId: mid, AskOrderIds: []uint64{1}, BidOrderIds: []uint64{3}, ExpectPartial: true}))
	o, err := qs.GetOrder(ctx, &exchange.QueryGetOrderRequest{OrderId: 1})
	fmt.Println(o, err)
	fmt.Println("close", h(&exchange.MsgGovCloseMarketRequest{Authority: app.ExchangeKeeper.GetAuthority(), MarketId: mid}))
	ra, err := qs.GetAllOrders(ctx, &exchange.QueryGetAllOrdersRequest{})
	fmt.Println(len(ra.Orders), err)
	// payments
	src := owners[0]
	for _, e := range []string{"", "x"} {
		fmt.Println("pay", h(&exchange.MsgCreatePaymentRequest{Payment: exchange.Payment{Source: src.String(), SourceAmount: sdk.NewCoins(sdk.NewInt64Coin("bbb", 5)), Target: owners[1].String(), ExternalId: e}}))
	}
	rp, err := qs.GetPaymentsWithSource(ctx, &exchange.QueryGetPaymentsWithSourceRequest{Source: src.String(), Pagination: &query.PageRequest{Limit: 1, Reverse: true}})
	fmt.Printf("payments rev limit1: n=%d err=%v next=%v nil=%v\n", len(rp.Payments), err, rp.Pagination.NextKey, rp.Pagination.NextKey == nil)
	rp, err = qs.GetPaymentsWithSource(ctx, &exchange.QueryGetPaymentsWithSourceRequest{Source: src.String(), Pagination: &query.PageRequest{Limit: 1, Reverse: false}})
	fmt.Printf("payments fwd limit1: n=%d err=%v next=%v\n", len(rp.Payments), err, rp.Pagination.NextKey)
	// reverse with key = largest key
	err = try(func() error {
		rm, e := qs.GetOwnerOrders(ctx, &exchange.QueryGetOwnerOrdersRequest{Owner: owners[0].String(), Pagination: &query.PageRequest{Limit: 1, Reverse: true, Key: []byte{0, 0, 0, 0, 0, 0, 0, 9}}})
		fmt.Println(rm, e)
		return e
	})
	fmt.Println("rev key beyond:", err)
}
