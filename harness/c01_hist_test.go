//go:build c01

package harness

import (
	"fmt"
	"math/big"
	"testing"

	sdk "github.com/cosmos/cosmos-sdk/types"

	simapp "github.com/provenance-io/provenance/app"
	"github.com/provenance-io/provenance/x/exchange"
)

// standing order of m equal slices: every later partial fill of whole slices divides evenly
type bigOrder struct {
	id      uint64
	ask     bool
	slices  int64 // remaining
	q, u    *big.Int
	feeUnit []mCoin
	owner   int
	mk      *c01Market
}

type c01Pending struct {
	term string
	desc map[string]any
	key  string
}

func (w *c01World) planOpts(mk *c01Market, maxN int) planOpts {
	g := w.g
	return planOpts{nOwners: w.nOwners, maxBits: w.maxBits, maxN: maxN, ad: mk.ad, pd: mk.pd, ratio: mk.sellerRatioFor(mk.pd), feeBits: g.feeBits,
		askFees: func(assets, price *big.Int, prop bool) []mCoin { return mk.askFees(g, assets, price, prop) },
		bidFees: func(assets, price *big.Int, prop bool) []mCoin { return mk.bidFees(g, assets, price, prop, mk.pd) },
	}
}

// mkOrder: a single order admissible in the market
func (w *c01World) mkOrder(mk *c01Market, ask bool, owner int, assets, price *big.Int) mOrder {
	g := w.g
	o := mOrder{ask: ask, owner: owner, ad: mk.ad, pd: mk.pd, assets: assets, price: price, partial: g.r.Intn(2) == 0}
	if ask {
		o.fees = mk.askFees(g, assets, price, false)
	} else {
		o.fees = mk.bidFees(g, assets, price, false, mk.pd)
	}
	return o
}

func (w *c01World) createAll(mk *c01Market, os []mOrder) []uint64 {
	var ids []uint64
	for _, o := range os {
		if id := w.create(mk, o, mk.creationFee(w.g, o.ask)); id != 0 {
			ids = append(ids, id)
		}
	}
	return ids
}

func shuffleIDs(g *c01Gen, ids []uint64) []uint64 {
	out := append([]uint64{}, ids...)
	g.r.Shuffle(len(out), func(i, j int) { out[i], out[j] = out[j], out[i] })
	return out
}

// settleRound: a planned settlement in one market, optionally against the standing order.
func (w *c01World) settleRound(mk *c01Market, bigp **bigOrder) {
	g, r := w.g, w.g.r
	maxN := 3
	if r.Intn(5) == 0 {
		maxN = 6
	}
	opts := w.planOpts(mk, maxN)
	p := g.plan(opts)
	big_ := *bigp
	if big_ != nil && big_.mk != mk {
		big_ = nil
	}
	if big_ == nil && *bigp == nil && r.Intn(2) == 0 {
		m := int64(3 + r.Intn(8))
		bits := w.maxBits - 8
		if bits < 4 {
			bits = 4
		}
		q, u := g.amount(bits), g.small(40)
		bo := &bigOrder{ask: r.Intn(2) == 0, slices: m, q: q, u: u, owner: 1 + r.Intn(w.nOwners), mk: mk}
		assets, price := mulB(q, big.NewInt(m)), mulB(mulB(q, u), big.NewInt(m))
		ord := mOrder{ask: bo.ask, owner: bo.owner, ad: mk.ad, pd: mk.pd, assets: assets, price: price, partial: true}
		// fees: every coin a multiple of the number of slices
		var need []mCoin
		if bo.ask {
			need = mk.askFees(g, assets, price, false)
		} else {
			need = mk.bidFees(g, assets, price, false, mk.pd)
		}
		for _, c := range need {
			unit := addB(ceilDiv(c.a, big.NewInt(m)), big.NewInt(int64(r.Intn(3))))
			bo.feeUnit = append(bo.feeUnit, mCoin{c.d, unit})
			ord.fees = append(ord.fees, mCoin{c.d, mulB(unit, big.NewInt(m))})
		}
		sortCoins(ord.fees)
		bo.id = w.create(mk, ord, mk.creationFee(g, ord.ask))
		if bo.id != 0 {
			*bigp = bo
			big_ = bo
		}
	}
	var askIDs, bidIDs []uint64
	expect := p.partialSide != 0
	if big_ != nil && r.Intn(4) != 0 {
		k := int64(1 + r.Intn(int(big_.slices)))
		if r.Intn(3) != 0 && big_.slices > 1 {
			k = int64(1 + r.Intn(int(big_.slices-1)))
		}
		fillAssets := mulB(big_.q, big.NewInt(k))
		fillPrice := mulB(mulB(big_.q, big_.u), big.NewInt(k))
		expect = k < big_.slices
		nOther := 1 + r.Intn(2)
		if fillAssets.Cmp(big.NewInt(int64(nOther))) < 0 {
			nOther = 1
		}
		parts := g.compose(fillAssets, nOther)
		if big_.ask {
			prices := g.compose(addB(fillPrice, big.NewInt(r.Int63n(7))), nOther)
			if fillPrice.Cmp(big.NewInt(int64(nOther))) < 0 {
				prices = g.compose(big.NewInt(int64(nOther)), nOther)
			}
			for i := 0; i < nOther; i++ {
				o := w.mkOrder(mk, false, 1+r.Intn(w.nOwners), parts[i], prices[i])
				if id := w.create(mk, o, mk.creationFee(g, false)); id != 0 {
					bidIDs = append(bidIDs, id)
				}
			}
			askIDs = []uint64{big_.id}
		} else {
			total := fillPrice
			if r.Intn(2) == 0 && total.Cmp(big.NewInt(int64(nOther+3))) > 0 {
				total = subB(total, big.NewInt(r.Int63n(3)))
			}
			if total.Cmp(big.NewInt(int64(nOther))) < 0 {
				total = big.NewInt(int64(nOther))
			}
			prices := g.compose(total, nOther)
			for i := 0; i < nOther; i++ {
				o := w.mkOrder(mk, true, 1+r.Intn(w.nOwners), parts[i], prices[i])
				if id := w.create(mk, o, mk.creationFee(g, true)); id != 0 {
					askIDs = append(askIDs, id)
				}
			}
			bidIDs = []uint64{big_.id}
		}
		if len(askIDs) == 0 || len(bidIDs) == 0 {
			return
		}
		if r.Intn(12) == 0 {
			expect = !expect
		}
		if w.settle(mk, askIDs, bidIDs, expect) {
			if k < big_.slices {
				big_.slices -= k
				w.flag("partial_fill")
				if w.flags["partial_fill_1"] {
					w.flag("repeated_partial_fill")
				}
				w.flag("partial_fill_1")
			} else {
				*bigp = nil
			}
		}
		return
	}
	if r.Intn(100) < 15 {
		g.perturb(&p)
	}
	for _, o := range p.asks {
		if id := w.create(mk, o, mk.creationFee(g, o.ask)); id != 0 {
			askIDs = append(askIDs, id)
		}
	}
	for _, o := range p.bids {
		if id := w.create(mk, o, mk.creationFee(g, o.ask)); id != 0 {
			bidIDs = append(bidIDs, id)
		}
	}
	switch r.Intn(30) {
	case 0:
		expect = !expect
	case 1:
		askIDs = append(askIDs, 424242)
	case 2:
		if len(bidIDs) > 0 {
			bidIDs = append(bidIDs, bidIDs[0])
		}
	case 3:
		if len(askIDs) > 1 {
			askIDs[0], askIDs[len(askIDs)-1] = askIDs[len(askIDs)-1], askIDs[0]
		}
	case 4: // an ask id in the bid list (wrong side)
		if len(askIDs) > 0 {
			bidIDs = append(bidIDs, askIDs[0])
		}
	case 5, 6, 7:
		// permuted id lists: without a partial fill the order of the ids must not matter beyond the
		// remainder units; with one, only the last of a list may be split
		if p.partialSide == 0 || r.Intn(3) == 0 {
			askIDs, bidIDs = shuffleIDs(g, askIDs), shuffleIDs(g, bidIDs)
			w.g.w.Count("settle_permuted_ids")
		}
	}
	if len(askIDs) == 0 || len(bidIDs) == 0 {
		return
	}
	if w.settle(mk, askIDs, bidIDs, expect) && p.partialSide != 0 {
		w.flag("partial_fill")
	}
}

// fillBidsRound: a seller fills 1-3 bids of one market.
func (w *c01World) fillBidsRound(mk *c01Market) {
	g, r := w.g, w.g.r
	nb := 1 + r.Intn(3)
	seller := 1 + r.Intn(w.nOwners)
	var ids []uint64
	total := sdk.Coins{}
	var need sdk.Coins // what the seller must own: the assets
	for i := 0; i < nb; i++ {
		owner := 1 + r.Intn(w.nOwners)
		if w.nOwners > 1 && r.Intn(6) != 0 {
			for owner == seller {
				owner = 1 + r.Intn(w.nOwners)
			}
		}
		o := w.mkOrder(mk, false, owner, g.amount(w.maxBits), g.amount(w.maxBits))
		if r.Intn(5) == 0 { // a second asset denom: FillBids allows mixed bids
			o.ad = mk.ad%len(c01Denoms) + 1
			if o.ad == mk.pd {
				o.ad = o.ad%len(c01Denoms) + 1
			}
		}
		if id := w.create(mk, o, mk.creationFee(g, false)); id != 0 {
			ids = append(ids, id)
			total = total.Add(sdkCoin(mCoin{o.ad, o.assets}))
			need = need.Add(sdkCoin(mCoin{o.ad, o.assets}))
		}
	}
	if len(ids) == 0 {
		return
	}
	var flat *mCoin
	if len(mk.sellerFlat) > 0 && r.Intn(8) != 0 {
		o := mk.sellerFlat[r.Intn(len(mk.sellerFlat))]
		flat = &mCoin{o.d, addB(o.a, big.NewInt(r.Int63n(3)))}
	} else if len(mk.sellerFlat) == 0 && r.Intn(2) == 0 {
		flat = &mCoin{1 + r.Intn(len(c01Denoms)), g.small(30)}
	}
	cfee := mk.creationFee(g, true)
	switch r.Intn(15) {
	case 0:
		total = total.Add(sdkCoin(mCoin{mk.ad, big.NewInt(1)}))
	case 1:
		ids = append(ids, 424242)
	}
	w.fillBids(mk, seller, ids, total, flat, cfee)
}

// fillAsksRound: a buyer fills 1-3 asks of one market, paying the market's buyer fees.
func (w *c01World) fillAsksRound(mk *c01Market) {
	g, r := w.g, w.g.r
	na := 1 + r.Intn(3)
	buyer := 1 + r.Intn(w.nOwners)
	var ids []uint64
	total := new(big.Int)
	for i := 0; i < na; i++ {
		price := g.amount(w.maxBits)
		if price.Cmp(big.NewInt(100)) < 0 {
			price = addB(price, big.NewInt(100))
		}
		owner := 1 + r.Intn(w.nOwners)
		if w.nOwners > 1 && r.Intn(6) != 0 {
			for owner == buyer {
				owner = 1 + r.Intn(w.nOwners)
			}
		}
		o := w.mkOrder(mk, true, owner, g.amount(w.maxBits), price)
		if id := w.create(mk, o, mk.creationFee(g, true)); id != 0 {
			ids = append(ids, id)
			total = addB(total, o.price)
		}
	}
	if len(ids) == 0 {
		return
	}
	fees := mk.bidFees(g, big.NewInt(1), total, false, mk.pd)
	if r.Intn(10) == 0 && len(fees) > 0 { // one unit short of what the market asks for
		fees[0].a = subB(fees[0].a, big.NewInt(1))
		if fees[0].a.Sign() <= 0 {
			fees = fees[1:]
		}
	}
	cfee := mk.creationFee(g, false)
	switch r.Intn(15) {
	case 0:
		total = addB(total, big.NewInt(1))
	case 1:
		ids = append(ids, ids[0])
	}
	w.fillAsks(mk, buyer, ids, sdkCoin(mCoin{mk.pd, total}), fees, cfee)
}

// simplePair creates one ask and one bid that settle exactly in the market; returns the ids.
func (w *c01World) simplePair(mk *c01Market, seller, buyer int) (uint64, uint64) {
	g := w.g
	assets := g.amount(w.maxBits)
	price := addB(g.amount(w.maxBits), big.NewInt(1000))
	a := w.mkOrder(mk, true, seller, assets, price)
	b := w.mkOrder(mk, false, buyer, assets, addB(price, big.NewInt(g.r.Int63n(4))))
	aid := w.create(mk, a, mk.creationFee(g, true))
	bid := w.create(mk, b, mk.creationFee(g, false))
	return aid, bid
}

// wrongMarketRound: orders of market A named in a settlement (or fill) of market B.
func (w *c01World) wrongMarketRound() {
	r := w.g.r
	a := w.markets[r.Intn(len(w.markets))]
	b := w.markets[r.Intn(len(w.markets))]
	for b == a {
		b = w.markets[r.Intn(len(w.markets))]
	}
	s, by := 1+r.Intn(w.nOwners), 1+r.Intn(w.nOwners)
	aid, bid := w.simplePair(a, s, by)
	if aid == 0 || bid == 0 {
		return
	}
	w.g.w.Count("wrong_market_attempt")
	switch r.Intn(4) {
	case 0: // both orders foreign
		w.settle(b, []uint64{aid}, []uint64{bid}, false)
	case 1: // one foreign order among own ones
		a2, b2 := w.simplePair(b, s, by)
		if a2 != 0 && b2 != 0 {
			w.settle(b, []uint64{a2, aid}, []uint64{b2}, false)
			w.settle(b, []uint64{a2}, []uint64{b2}, false)
		}
	case 2: // a fill naming the foreign bid
		o, _ := w.app.ExchangeKeeper.GetOrder(w.ctx, bid)
		if o != nil {
			filler := 1 + r.Intn(w.nOwners)
			w.fillBids(b, filler, []uint64{bid}, sdk.NewCoins(o.GetAssets()), nil, b.creationFee(w.g, true))
		}
	default:
		o, _ := w.app.ExchangeKeeper.GetOrder(w.ctx, aid)
		if o != nil {
			filler := 1 + r.Intn(w.nOwners)
			w.fillAsks(b, filler, []uint64{aid}, o.GetPrice(), b.bidFees(w.g, big.NewInt(1), o.GetPrice().Amount.BigInt(), false, c01DenomID(o.GetPrice().Denom)), b.creationFee(w.g, false))
		}
	}
	// then in its own market: accepted
	w.settle(a, []uint64{aid}, []uint64{bid}, false)
}

// paramsRound: governance changes the exchange splits (also to 0 and 10000, duplicates in the
// list: the last entry counts), then settlements go on.
func (w *c01World) paramsRound() {
	g, r := w.g, w.g.r
	def, ds := g.drawParams()
	if len(ds) > 0 && r.Intn(4) == 0 {
		ds = append(ds, exchange.DenomSplit{Denom: ds[0].Denom, Split: g.drawSplit()})
		g.w.Count("params_with_duplicate_denom")
	}
	w.setParams(def, ds)
	w.flag("params_changed")
}

// sanctionRound: a party of a settlement is sanctioned (refused), unsanctioned again (accepted).
func (w *c01World) sanctionRound() {
	r := w.g.r
	mk := w.markets[r.Intn(len(w.markets))]
	s, by := 1+r.Intn(w.nOwners), 1+r.Intn(w.nOwners)
	aid, bid := w.simplePair(mk, s, by)
	if aid == 0 || bid == 0 {
		return
	}
	who := s
	if r.Intn(2) == 0 {
		who = by
	}
	w.sanction(who, true)
	switch r.Intn(3) {
	case 0:
		w.settle(mk, []uint64{aid}, []uint64{bid}, false)
	case 1:
		if o, _ := w.app.ExchangeKeeper.GetOrder(w.ctx, bid); o != nil {
			filler := s
			w.fillBids(mk, filler, []uint64{bid}, sdk.NewCoins(o.GetAssets()), w.flatFor(mk), mk.creationFee(w.g, true))
		}
	default:
		w.settle(mk, []uint64{aid}, []uint64{bid}, false)
	}
	w.sanction(who, false)
	w.settle(mk, []uint64{aid}, []uint64{bid}, false)
	w.flag("sanctioned_party")
}

func (w *c01World) flatFor(mk *c01Market) *mCoin {
	if len(mk.sellerFlat) == 0 {
		return nil
	}
	o := mk.sellerFlat[w.g.r.Intn(len(mk.sellerFlat))]
	return &mCoin{o.d, new(big.Int).Set(o.a)}
}

// flagsRound: the market stops accepting orders / user settlement; a market settlement of
// existing orders still works, fills and creations do not.
func (w *c01World) flagsRound() {
	r := w.g.r
	mk := w.markets[r.Intn(len(w.markets))]
	s, by := 1+r.Intn(w.nOwners), 1+r.Intn(w.nOwners)
	aid, bid := w.simplePair(mk, s, by)
	if r.Intn(2) == 0 {
		w.setAccepting(mk, !mk.accepting)
	} else {
		w.setUserSettle(mk, !mk.userSettle)
	}
	if aid != 0 && bid != 0 {
		if r.Intn(2) == 0 {
			if o, _ := w.app.ExchangeKeeper.GetOrder(w.ctx, bid); o != nil {
				filler := 1 + r.Intn(w.nOwners)
				w.fillBids(mk, filler, []uint64{bid}, sdk.NewCoins(o.GetAssets()), w.flatFor(mk), mk.creationFee(w.g, true))
			}
		}
		w.settle(mk, []uint64{aid}, []uint64{bid}, false)
	}
	w.simplePair(mk, s, by) // creations while the market is (not) accepting
	if r.Intn(2) == 0 {
		if !mk.accepting {
			w.setAccepting(mk, true)
		}
		if !mk.userSettle {
			w.setUserSettle(mk, true)
		}
	}
	w.flag("market_flags_changed")
}

// specialPartyRound: the market's own account, the fee collector (a blocked recipient) or the
// marker account owns an order (they were funded at set-up).
func (w *c01World) specialPartyRound() {
	g, r := w.g, w.g.r
	if len(w.rich) == 0 {
		return
	}
	who := w.rich[r.Intn(len(w.rich))]
	mk := w.markets[r.Intn(len(w.markets))]
	switch {
	case who >= c01MktBase:
		w.flag("market_account_party")
		if r.Intn(2) == 0 {
			mk = w.markets[who-c01MktBase-1] // an order in its own market: it pays fees to itself
		}
	case who == c01FeeColID:
		w.flag("fee_collector_party")
	default:
		w.flag("marker_account_party")
	}
	other := 1 + r.Intn(w.nOwners)
	assets := g.amount(w.maxBits)
	price := addB(g.amount(w.maxBits), big.NewInt(1000))
	var aid, bid uint64
	if r.Intn(2) == 0 {
		aid = w.create(mk, w.mkOrder(mk, true, who, assets, price), mk.creationFee(g, true))
		bid = w.create(mk, w.mkOrder(mk, false, other, assets, price), mk.creationFee(g, false))
	} else {
		aid = w.create(mk, w.mkOrder(mk, true, other, assets, price), mk.creationFee(g, true))
		bid = w.create(mk, w.mkOrder(mk, false, who, assets, price), mk.creationFee(g, false))
	}
	if aid != 0 && bid != 0 {
		w.settle(mk, []uint64{aid}, []uint64{bid}, false)
	}
}

// poorFillerRound: the buyer of a FillAsks owns exactly what the fill needs in the price denom,
// or one unit less (the failure then comes in the middle of the transfer list or when the fees are
// collected, after earlier transfers of the same message went through).
func (w *c01World) poorFillerRound() {
	g, r := w.g, w.g.r
	mk := w.markets[r.Intn(len(w.markets))]
	if w.nOwners < 2 {
		return
	}
	filler := 1 + r.Intn(w.nOwners)
	owner := 1 + r.Intn(w.nOwners)
	for owner == filler {
		owner = 1 + r.Intn(w.nOwners)
	}
	pdName := c01Denoms[mk.pd-1]
	have := w.app.BankKeeper.SpendableCoin(w.ctx, w.owners[filler], pdName).Amount.BigInt()
	if have.Cmp(big.NewInt(100000)) < 0 {
		return
	}
	cfee := mk.creationFee(g, false)
	inPd := func(fees []mCoin) *big.Int {
		s := new(big.Int)
		for _, f := range fees {
			if f.d == mk.pd {
				s.Add(s, f.a)
			}
		}
		if cfee != nil && cfee.d == mk.pd {
			s.Add(s, cfee.a)
		}
		return s
	}
	// an upper bound of the fees, then the exact ones for the chosen price
	bound := inPd(mk.bidFees(g, big.NewInt(1), have, false, mk.pd))
	price := subB(subB(have, bound), g.amount(40))
	if price.Sign() <= 0 {
		return
	}
	fees := mk.bidFees(g, big.NewInt(1), price, false, mk.pd)
	slack := subB(have, addB(price, inPd(fees)))
	if slack.Sign() < 0 {
		return
	}
	short := r.Intn(2) == 0
	if short {
		slack = addB(slack, big.NewInt(1))
	}
	if slack.Sign() > 0 {
		done := false
		for i := range fees {
			if fees[i].d == mk.pd {
				fees[i].a = addB(fees[i].a, slack)
				done = true
				break
			}
		}
		if !done {
			fees = append(fees, mCoin{mk.pd, slack})
			sortCoins(fees)
		}
	}
	a := w.mkOrder(mk, true, owner, g.amount(w.maxBits), price)
	aid := w.create(mk, a, mk.creationFee(g, true))
	if aid == 0 {
		return
	}
	w.fillAsks(mk, filler, []uint64{aid}, sdkCoin(mCoin{mk.pd, price}), fees, cfee)
	w.flag("poor_filler")
	if short {
		w.g.w.Count("poor_filler_one_unit_short")
	} else {
		w.g.w.Count("poor_filler_exact_funds")
	}
}

func (g *c01Gen) multiHistory(t *testing.T, app *simapp.App, base sdk.Context) *c01Pending {
	r := g.r
	saved := c01Denoms
	defer func() { c01Denoms = saved }()
	w := g.newWorld(t, app, base)
	def, ds := app.ExchangeKeeper.GetParams(w.ctx).DefaultSplit, app.ExchangeKeeper.GetParams(w.ctx).DenomSplits
	splitItems := make([]string, len(ds))
	for i, s := range ds {
		splitItems[i] = fmt.Sprintf("(%d, %d)", c01DenomID(s.Denom), s.Split)
	}
	paramsTerm := fmt.Sprintf("(Pm %d %s)", def, coqList(splitItems))
	marketTerms := make([]string, len(w.markets))
	for i, mk := range w.markets {
		marketTerms[i] = mk.term()
	}
	init := w.observe(true, "[]")

	var big_ *bigOrder
	rounds := 2 + r.Intn(5)
	for rd := 0; rd < rounds; rd++ {
		mk := w.markets[r.Intn(len(w.markets))]
		kind := r.Intn(100)
		switch {
		case kind < 42:
			w.settleRound(mk, &big_)
		case kind < 54:
			w.fillBidsRound(mk)
		case kind < 66:
			w.fillAsksRound(mk)
		case kind < 74:
			w.wrongMarketRound()
		case kind < 82:
			w.paramsRound()
		case kind < 87:
			w.sanctionRound()
		case kind < 91:
			w.flagsRound()
		case kind < 95:
			w.specialPartyRound()
		default:
			w.poorFillerRound()
		}
	}
	if w.nOps == 0 {
		return nil
	}
	ids := make([]string, len(w.acctIDs))
	for i, a := range w.acctIDs {
		ids[i] = fmt.Sprint(a)
	}
	term := fmt.Sprintf("CMulti %s %s %d %s %s %s %s", w.worldTerm(), coqList(ids), len(c01Denoms), coqList(marketTerms), paramsTerm, init, coqList(w.steps))
	flags := []string{}
	for f := range w.flags {
		flags = append(flags, f)
		g.w.Count("history_" + f)
	}
	g.w.Count("history")
	g.w.CountN("history_ops", int64(w.nOps))
	g.w.CountN("history_ops_accepted", int64(w.nOK))
	g.w.CountN("history_markets", int64(len(w.markets)))
	if w.maxBits > 64 {
		g.w.Count("history_amounts_above_2^64")
	}
	desc := map[string]any{"stream": "stateful", "ops": w.nOps, "accepted": w.nOK, "owners": w.nOwners, "markets": len(w.markets),
		"denoms": append([]string{}, c01Denoms...), "flags": flags, "term": term}
	p := &c01Pending{term: term, desc: desc}
	if w.nOK > 0 {
		p.key = term
	}
	return p
}

// manyPayersHistory: one settlement (or fill) with 26-40 DISTINCT fee-paying accounts, each paying
// a few units: the exchange's share is the rounded-up share of the TOTAL per denom, however many
// payers there are and however the bank transfers are batched.
func (g *c01Gen) manyPayersHistory(t *testing.T, app *simapp.App, base sdk.Context) *c01Pending {
	r := g.r
	saved, savedBits := c01Denoms, g.feeBits
	defer func() { c01Denoms = saved; g.feeBits = savedBits; g.forceOwners = 0 }()
	g.forceOwners = 28 + r.Intn(13)
	g.feeBits = 3
	w := g.newWorld(t, app, base)
	w.maxBits = 20
	def, ds := app.ExchangeKeeper.GetParams(w.ctx).DefaultSplit, app.ExchangeKeeper.GetParams(w.ctx).DenomSplits
	splitItems := make([]string, len(ds))
	for i, s := range ds {
		splitItems[i] = fmt.Sprintf("(%d, %d)", c01DenomID(s.Denom), s.Split)
	}
	paramsTerm := fmt.Sprintf("(Pm %d %s)", def, coqList(splitItems))
	marketTerms := make([]string, len(w.markets))
	for i, mk := range w.markets {
		marketTerms[i] = mk.term()
	}
	init := w.observe(true, "[]")
	// a split that makes the rounding visible
	w.setParams(uint32([]int{500, 500, 1, 3333, 250, 2500}[r.Intn(6)]), nil)

	mk := w.markets[r.Intn(len(w.markets))]
	n := 26 + r.Intn(w.nOwners-27)
	feeDenom := 1 + r.Intn(len(c01Denoms))
	if feeDenom == w.restr {
		feeDenom = feeDenom%len(c01Denoms) + 1
	}
	withFee := func(o mOrder) mOrder {
		if len(o.fees) == 0 {
			o.fees = []mCoin{{feeDenom, big.NewInt(int64(1 + r.Intn(3)))}}
		}
		o.partial = false
		return o
	}
	unit := g.small(20)
	var many, one []uint64
	total := new(big.Int)
	manyAsks := r.Intn(3) == 0
	var manyOrders []mOrder
	for i := 0; i < n; i++ {
		a := g.small(1000)
		total = addB(total, a)
		price := mulB(a, unit)
		if !manyAsks {
			price = addB(price, big.NewInt(int64(r.Intn(3))))
		}
		manyOrders = append(manyOrders, withFee(w.mkOrder(mk, manyAsks, 2+i, a, price)))
	}
	kind := r.Intn(3)
	if kind == 0 || manyAsks {
		// market settlement: one order against n
		for _, o := range manyOrders {
			if id := w.create(mk, o, mk.creationFee(g, o.ask)); id != 0 {
				many = append(many, id)
			}
		}
		p := mulB(total, unit)
		if manyAsks {
			p = addB(p, big.NewInt(int64(r.Intn(40))))
		}
		o := withFee(w.mkOrder(mk, !manyAsks, 1, total, p))
		if id := w.create(mk, o, mk.creationFee(g, o.ask)); id != 0 {
			one = append(one, id)
		}
		if len(many) >= 26 && len(one) == 1 {
			if manyAsks {
				w.settle(mk, many, one, false)
			} else {
				w.settle(mk, one, many, false)
			}
			g.w.Count("many_payers_settlement")
		}
	} else {
		// a seller fills n bids of n distinct buyers
		tot := sdk.Coins{}
		for _, o := range manyOrders {
			if id := w.create(mk, o, mk.creationFee(g, false)); id != 0 {
				many = append(many, id)
				tot = tot.Add(sdkCoin(mCoin{o.ad, o.assets}))
			}
		}
		if len(many) >= 26 {
			w.fillBids(mk, 1, many, tot, w.flatFor(mk), mk.creationFee(g, true))
			g.w.Count("many_payers_fill_bids")
		}
	}
	if w.nOps == 0 {
		return nil
	}
	ids := make([]string, len(w.acctIDs))
	for i, a := range w.acctIDs {
		ids[i] = fmt.Sprint(a)
	}
	term := fmt.Sprintf("CMulti %s %s %d %s %s %s %s", w.worldTerm(), coqList(ids), len(c01Denoms), coqList(marketTerms), paramsTerm, init, coqList(w.steps))
	g.w.Count("history_many_payers")
	g.w.CountN("history_ops", int64(w.nOps))
	g.w.CountN("history_ops_accepted", int64(w.nOK))
	desc := map[string]any{"stream": "stateful", "shape": "many payers", "payers": n, "ops": w.nOps, "accepted": w.nOK, "term": term}
	p := &c01Pending{term: term, desc: desc}
	if w.nOK > 0 {
		p.key = term
	}
	return p
}
