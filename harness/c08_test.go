//go:build c08

package harness

import (
	"context"
	"fmt"
	"strings"
	"math/rand"
	"sort"
	"strconv"
	"testing"
	"time"

	abci "github.com/cometbft/cometbft/abci/types"
	cmtproto "github.com/cometbft/cometbft/proto/tendermint/types"

	sdkmath "cosmossdk.io/math"
	storetypes "cosmossdk.io/store/types"
	"cosmossdk.io/x/feegrant"
	feegrantkeeper "cosmossdk.io/x/feegrant/keeper"

	"github.com/cosmos/cosmos-sdk/client/tx"
	"github.com/cosmos/cosmos-sdk/crypto/keys/secp256k1"
	cryptotypes "github.com/cosmos/cosmos-sdk/crypto/types"
	sdk "github.com/cosmos/cosmos-sdk/types"
	"github.com/cosmos/cosmos-sdk/types/tx/signing"
	authsigning "github.com/cosmos/cosmos-sdk/x/auth/signing"
	authtypes "github.com/cosmos/cosmos-sdk/x/auth/types"
	"github.com/cosmos/cosmos-sdk/x/authz"
	banktypes "github.com/cosmos/cosmos-sdk/x/bank/types"
	distrtypes "github.com/cosmos/cosmos-sdk/x/distribution/types"
	govtypes "github.com/cosmos/cosmos-sdk/x/gov/types"
	govv1 "github.com/cosmos/cosmos-sdk/x/gov/types/v1"
	minttypes "github.com/cosmos/cosmos-sdk/x/mint/types"

	simapp "github.com/provenance-io/provenance/app"
	"github.com/provenance-io/provenance/internal/pioconfig"
	"github.com/provenance-io/provenance/x/exchange"
	msgfeestypes "github.com/provenance-io/provenance/x/msgfees/types"
)

// ---------- a real chain: signed transactions through CheckTx, then FinalizeBlock + Commit ----------

const (
	c08Chain = "verif-1" // not a chain id that isTestContext treats specially: all fee checks are live
	c08NAcc  = 6
	c08Gov   = c08NAcc + 1 // id of the gov module account in the Coq terms
	c08Bond  = "stake"     // bond denom: deposits and nothing else; not observed
)

// denoms and their ids in the Coq terms
var c08Denoms = []string{"feecoin", "hotdog", "xfer", "paycoin"} // none is the bond denom: block inflation never touches them

const c08UsdID = 7

const c08NDen = 4 // len(c08Denoms); paycoin is moved (and put on hold) only by x/exchange payments

func c08DenomID(d string) int {
	for i, x := range c08Denoms {
		if x == d {
			return i + 1
		}
	}
	if d == msgfeestypes.UsdDenom {
		return c08UsdID
	}
	return 9
}

// message kinds = message type ids in the Coq terms
const (
	c08Send   = 1
	c08Exec   = 2
	c08Assess = 3
	// x/exchange payments: their handlers record a flat fee on the fee gas meter themselves
	c08PayCreate = 4
	c08PayAccept = 5
	// x/gov messages have ids >= 100 (TxFees.gov_mtype): transactions made of them only are exempt from the gas limit
	c08Submit  = 100
	c08Vote    = 101
	c08Deposit = 102
)

// kinds whose fee schedule entries are observed and compared
var c08Kinds = []int{c08Send, c08Exec, c08Assess, c08PayCreate, c08PayAccept, c08Submit, c08Vote, c08Deposit}


var c08TypeURL = map[int]string{
	c08Send:   sdk.MsgTypeURL(&banktypes.MsgSend{}),
	c08Exec:   sdk.MsgTypeURL(&authz.MsgExec{}),
	c08Assess: sdk.MsgTypeURL(&msgfeestypes.MsgAssessCustomMsgFeeRequest{}),
	c08PayCreate: sdk.MsgTypeURL(&exchange.MsgCreatePaymentRequest{}),
	c08PayAccept: sdk.MsgTypeURL(&exchange.MsgAcceptPaymentRequest{}),
	c08Submit:    sdk.MsgTypeURL(&govv1.MsgSubmitProposal{}),
	c08Vote:      sdk.MsgTypeURL(&govv1.MsgVote{}),
	c08Deposit:   sdk.MsgTypeURL(&govv1.MsgDeposit{}),
}

type c08Acct struct {
	priv cryptotypes.PrivKey
	addr sdk.AccAddress
}

type c08Net struct {
	t      *testing.T
	app    *simapp.App
	accts  []c08Acct // sorted by bech32 string; account i has id i+1 in the Coq terms; id 0 = fee collector
	height int64
	now    time.Time
	sink   sdk.AccAddress
	feeCol sdk.AccAddress
	distr  sdk.AccAddress
	gov    sdk.AccAddress
	maxGas int64 // consensus param Block.MaxGas in force
	accNum [c08NAcc]uint64
	// message authorizations (authz) granted at start: authzOK[granter][grantee]
	authzOK [c08NAcc][c08NAcc]bool
	// open x/exchange payments as the harness knows them: key = source id / external id
	payments map[string]c08Payment
	payCount int
}

type c08Payment struct {
	source, target int
	srcAmt, tgtAmt sdk.Coins
	extID          string
}

func (p c08Payment) key() string { return fmt.Sprintf("%d/%s", p.source, p.extID) }

func c08NewNet(t *testing.T) *c08Net {
	// the msgfees keeper is constructed with this fee denom (its conversion denom default); staking and
	// mint keep using the bond denom "stake", so no block inflation ever touches the observed denoms
	pioconfig.SetProvenanceConfig(c08Denoms[0], 1)
	n := &c08Net{t: t, payments: map[string]c08Payment{}}
	for i := 0; i < c08NAcc; i++ {
		priv := secp256k1.GenPrivKeyFromSecret([]byte(fmt.Sprintf("verif-c08-key-%d", i)))
		n.accts = append(n.accts, c08Acct{priv: priv, addr: sdk.AccAddress(priv.PubKey().Address())})
	}
	// recipients are paid in the order of their bech32 strings; ids follow that order
	sort.Slice(n.accts, func(i, j int) bool { return n.accts[i].addr.String() < n.accts[j].addr.String() })
	var gen []authtypes.GenesisAccount
	var bals []banktypes.Balance
	for i, a := range n.accts {
		gen = append(gen, authtypes.NewBaseAccount(a.addr, a.priv.PubKey(), uint64(i), 0))
		bals = append(bals, banktypes.Balance{Address: a.addr.String(), Coins: sdk.NewCoins(
			sdk.NewInt64Coin(c08Denoms[0], 1_000_000_000_000_000), sdk.NewInt64Coin(c08Denoms[1], 1_000_000_000), sdk.NewInt64Coin(c08Denoms[3], 1_000_000_000), sdk.NewInt64Coin(c08Denoms[2], 1_000_000_000), sdk.NewInt64Coin(c08Bond, 1_000_000_000_000))})
	}
	n.app = simapp.SetupWithGenesisAccounts(t, c08Chain, gen, bals...)
	n.height = n.app.LastBlockHeight() + 1 // the block opened by the setup
	n.now = time.Unix(1_700_000_000, 0).UTC()
	n.sink = addrN(808)
	n.feeCol = authtypes.NewModuleAddress(authtypes.FeeCollectorName)
	n.distr = authtypes.NewModuleAddress(distrtypes.ModuleName)
	n.gov = authtypes.NewModuleAddress(govtypes.ModuleName)
	n.maxGas = simapp.DefaultConsensusParams.Block.MaxGas
	ctx := n.ctx()
	n.setupGov(ctx)
	for i, a := range n.accts {
		n.accNum[i] = n.app.AccountKeeper.GetAccount(ctx, a.addr).GetAccountNumber()
	}
	for g := 0; g < c08NAcc; g++ {
		for p := 0; p < c08NAcc; p++ {
			if g != p && (g*7+p*3)%4 != 0 {
				n.authzOK[g][p] = true
				for _, k := range []int{c08Send, c08Assess} {
					if err := n.app.AuthzKeeper.SaveGrant(ctx, n.accts[p].addr, n.accts[g].addr, authz.NewGenericAuthorization(c08TypeURL[k]), nil); err != nil {
						t.Fatalf("authz grant: %v", err)
					}
				}
			}
		}
	}
	return n
}

// ctx is the state of the block that is open (FinalizeBlock done, Commit not yet): reads see the
// block's effects, writes made through it are committed by commit().
func (n *c08Net) ctx() sdk.Context {
	return n.app.BaseApp.NewContextLegacy(false, cmtproto.Header{ChainID: c08Chain, Height: n.height, Time: n.now})
}

func (n *c08Net) commit(ctx sdk.Context) {
	ctx.MultiStore().(storetypes.CacheMultiStore).Write()
	if _, err := n.app.Commit(); err != nil {
		n.t.Fatalf("Commit(%d): %v", n.height, err)
	}
}

// offer runs CheckTx on the committed state and then a block that contains the transaction iff it
// was admitted.  Returns (admitted, checkCode, executed ok, deliverCode).
func (n *c08Net) offer(bz []byte) (bool, uint32, bool, uint32, int64) {
	chk, err := n.app.CheckTx(&abci.RequestCheckTx{Tx: bz, Type: abci.CheckTxType_New})
	if err != nil {
		n.t.Fatalf("CheckTx: %v", err)
	}
	admitted := chk.Code == 0
	var txs [][]byte
	if admitted {
		txs = [][]byte{bz}
	}
	n.height++
	n.now = n.now.Add(5 * time.Second)
	res, err := n.app.FinalizeBlock(&abci.RequestFinalizeBlock{Height: n.height, Time: n.now, Txs: txs})
	if err != nil {
		n.t.Fatalf("FinalizeBlock(%d): %v", n.height, err)
	}
	if !admitted {
		return false, chk.Code, false, 0, 0
	}
	r := res.TxResults[0]
	return true, 0, r.Code == 0, r.Code, r.GasUsed
}

// ---------- observed state ----------

type c08Allow struct {
	present   bool
	unlimited bool
	limit     sdk.Coins
}

type c08State struct {
	bal   [c08NAcc + 2][c08NDen]sdkmath.Int // account id (0 = fee collector + distribution, c08Gov = gov module account) x denom
	cfg   *c08Config                        // fee schedule and params as read from the store
	seq   [c08NAcc]uint64
	allow [c08NAcc][c08NAcc]c08Allow // [granter][grantee]
}

func (n *c08Net) addrOf(id int) sdk.AccAddress {
	switch id {
	case 0:
		return n.feeCol
	case c08Gov:
		return n.gov
	}
	return n.accts[id-1].addr
}

// idOf is the inverse of addrOf on bech32 strings (0 when the address is none of the universe's).
func (n *c08Net) idOf(bech string) int {
	for i, a := range n.accts {
		if a.addr.String() == bech {
			return i + 1
		}
	}
	if bech == n.gov.String() {
		return c08Gov
	}
	return 0
}

func (n *c08Net) observe(ctx sdk.Context) *c08State {
	s := &c08State{}
	for d, dn := range c08Denoms {
		s.bal[0][d] = n.app.BankKeeper.GetBalance(ctx, n.feeCol, dn).Amount.Add(n.app.BankKeeper.GetBalance(ctx, n.distr, dn).Amount)
		for i, a := range n.accts {
			s.bal[i+1][d] = n.app.BankKeeper.GetBalance(ctx, a.addr, dn).Amount
		}
		s.bal[c08Gov][d] = n.app.BankKeeper.GetBalance(ctx, n.gov, dn).Amount
	}
	s.cfg = n.observeCfg(ctx)
	for i, a := range n.accts {
		s.seq[i] = n.app.AccountKeeper.GetAccount(ctx, a.addr).GetSequence()
		for j, b := range n.accts {
			if i == j {
				continue
			}
			al, err := n.app.FeeGrantKeeper.GetAllowance(ctx, a.addr, b.addr)
			if err != nil || al == nil {
				continue
			}
			ba, ok := al.(*feegrant.BasicAllowance)
			if !ok {
				n.t.Fatalf("unexpected allowance type %T", al)
			}
			s.allow[i][j] = c08Allow{present: true, unlimited: ba.SpendLimit == nil, limit: ba.SpendLimit}
		}
	}
	return s
}

func c08N(i int) string { return strconv.Itoa(i) + "%N" }

func c08Coins(c sdk.Coins) string {
	var it []string
	for _, x := range c {
		it = append(it, "("+c08N(c08DenomID(x.Denom))+", "+zInt(x.Amount)+")")
	}
	return coqList(it)
}

func c08Coin(c sdk.Coin) string { return "(" + c08N(c08DenomID(c.Denom)) + ", " + zInt(c.Amount) + ")" }

func c08AllowTerm(a c08Allow) string {
	if !a.present {
		return "None"
	}
	if a.unlimited {
		return "(Some None)"
	}
	return "(Some (Some " + c08Coins(a.limit) + "))"
}

func (s *c08State) balTerm() string {
	var it []string
	for a := 0; a <= c08Gov; a++ {
		for d := 0; d < c08NDen; d++ {
			if !s.bal[a][d].IsZero() {
				it = append(it, fmt.Sprintf("(%s, %s, %s)", c08N(a), c08N(d+1), zInt(s.bal[a][d])))
			}
		}
	}
	return coqList(it)
}

func (s *c08State) seqTerm() string {
	var it []string
	for a := 0; a < c08NAcc; a++ {
		it = append(it, fmt.Sprintf("(%s, %d)", c08N(a+1), s.seq[a]))
	}
	return coqList(it)
}

func (s *c08State) allowTerm(pairs [][2]int) string {
	var it []string
	for _, gp := range pairs {
		a := s.allow[gp[0]-1][gp[1]-1]
		if a.present {
			it = append(it, fmt.Sprintf("(%s, %s, %s)", c08N(gp[0]), c08N(gp[1]), c08AllowTerm(a)))
		}
	}
	return coqList(it)
}

// ---------- direct state changes between transactions (the harness acting as faucet / granter) ----------

func (n *c08Net) setBal(ctx sdk.Context, id int, denom string, v sdkmath.Int) {
	addr := n.addrOf(id)
	cur := n.app.BankKeeper.GetBalance(ctx, addr, denom).Amount
	switch {
	case v.GT(cur) && id == c08Gov:
		add := sdk.NewCoins(sdk.NewCoin(denom, v.Sub(cur)))
		if err := n.app.BankKeeper.MintCoins(ctx, minttypes.ModuleName, add); err != nil {
			n.t.Fatalf("mint: %v", err)
		}
		if err := n.app.BankKeeper.SendCoinsFromModuleToModule(ctx, minttypes.ModuleName, govtypes.ModuleName, add); err != nil {
			n.t.Fatalf("fund gov: %v", err)
		}
	case v.GT(cur):
		fund(n.t, n.app, ctx, addr, sdk.NewCoins(sdk.NewCoin(denom, v.Sub(cur))))
	case v.LT(cur):
		if err := n.app.BankKeeper.SendCoins(ctx, addr, n.sink, sdk.NewCoins(sdk.NewCoin(denom, cur.Sub(v)))); err != nil {
			n.t.Fatalf("drain: %v", err)
		}
	}
}

func (n *c08Net) setAllow(ctx sdk.Context, g, p int, a c08Allow) {
	ga, pa := n.addrOf(g), n.addrOf(p)
	if ex, _ := n.app.FeeGrantKeeper.GetAllowance(ctx, ga, pa); ex != nil {
		if _, err := feegrantkeeper.NewMsgServerImpl(n.app.FeeGrantKeeper).RevokeAllowance(ctx, &feegrant.MsgRevokeAllowance{Granter: ga.String(), Grantee: pa.String()}); err != nil {
			n.t.Fatalf("revoke: %v", err)
		}
	}
	if !a.present {
		return
	}
	al := &feegrant.BasicAllowance{}
	if !a.unlimited {
		al.SpendLimit = a.limit
	}
	if err := n.app.FeeGrantKeeper.GrantAllowance(ctx, ga, pa, al); err != nil {
		n.t.Fatalf("grant allowance: %v", err)
	}
}

// ---------- configuration ----------

type c08FeeEntry struct {
	kind      int
	coin      sdk.Coin
	recipient int // account id, 0 = none
	bips      uint32
}

type c08Config struct {
	schedule []c08FeeEntry
	floor    sdk.Coin
	perMil   uint64
	conv     string // params.ConversionFeeDenom
	payCreate, payAccept sdk.Coins // exchange params FeeCreatePaymentFlat / FeeAcceptPaymentFlat (empty = none); not part of the Coq config: the fee appears on the routed message
	shared   int // when > 0: the recipient that several fee sources of this configuration name (not part of the Coq term)
}

func (c *c08Config) term() string {
	var it []string
	for _, e := range c.schedule {
		rc := "None"
		if e.recipient > 0 {
			rc = "(Some " + c08N(e.recipient) + ")"
		}
		it = append(it, fmt.Sprintf("(Fe %s %s %s %d)", c08N(e.kind), c08Coin(e.coin), rc, e.bips))
	}
	return fmt.Sprintf("(Cfg %s %s %s %s %d)", coqList(it), c08Coin(c.floor), c08N(c08DenomID(c.conv)), c08N(c08UsdID), c.perMil)
}

// observeCfg reads the fee schedule (store iteration, the committed content) and the params.
func (n *c08Net) observeCfg(ctx sdk.Context) *c08Config {
	c := &c08Config{}
	byURL := map[string]msgfeestypes.MsgFee{}
	if err := n.app.MsgFeesKeeper.IterateMsgFees(ctx, func(f msgfeestypes.MsgFee) bool {
		byURL[f.MsgTypeUrl] = f
		return false
	}); err != nil {
		n.t.Fatalf("IterateMsgFees: %v", err)
	}
	for _, k := range c08Kinds {
		if f, ok := byURL[c08TypeURL[k]]; ok {
			c.schedule = append(c.schedule, c08FeeEntry{kind: k, coin: f.AdditionalFee, recipient: n.idOf(f.Recipient), bips: f.RecipientBasisPoints})
		}
	}
	p := n.app.MsgFeesKeeper.GetParams(ctx)
	c.floor, c.perMil, c.conv = p.FloorGasPrice, p.NhashPerUsdMil, p.ConversionFeeDenom
	ep := n.app.ExchangeKeeper.GetParams(ctx)
	if ep != nil {
		c.payCreate, c.payAccept = ep.FeeCreatePaymentFlat, ep.FeeAcceptPaymentFlat
	}
	return c
}

func (n *c08Net) applyConfig(ctx sdk.Context, c *c08Config) {
	for _, url := range c08TypeURL {
		_ = n.app.MsgFeesKeeper.RemoveMsgFee(ctx, url)
	}
	for _, e := range c.schedule {
		rc := ""
		if e.recipient > 0 {
			rc = n.addrOf(e.recipient).String()
		}
		if err := n.app.MsgFeesKeeper.SetMsgFee(ctx, msgfeestypes.NewMsgFee(c08TypeURL[e.kind], e.coin, rc, e.bips)); err != nil {
			n.t.Fatalf("SetMsgFee: %v", err)
		}
	}
	n.app.MsgFeesKeeper.SetParams(ctx, msgfeestypes.Params{FloorGasPrice: c.floor, NhashPerUsdMil: c.perMil, ConversionFeeDenom: c.conv})
	ep := exchange.DefaultParams()
	ep.FeeCreatePaymentFlat = c.payCreate
	ep.FeeAcceptPaymentFlat = c.payAccept
	n.app.ExchangeKeeper.SetParams(ctx, ep)
}

var c08Bips = []uint32{0, 1, 2500, 3333, 5000, 9999, 10000}

func c08GenConfig(r *rand.Rand) *c08Config {
	c := &c08Config{}
	switch r.Intn(8) {
	case 0:
		c.floor = sdk.NewInt64Coin(c08Denoms[0], 0)
	case 1:
		c.floor = sdk.NewInt64Coin(c08Denoms[0], 1905)
	case 2:
		c.floor = sdk.NewInt64Coin(c08Denoms[1], int64(1+r.Intn(3))) // base fee in the second denom
		if r.Intn(4) == 0 {
			c.floor = sdk.NewInt64Coin(c08Denoms[2], int64(1+r.Intn(2))) // ... or in the transfer denom
		}
	default:
		c.floor = sdk.NewInt64Coin(c08Denoms[0], int64(1+r.Intn(5)))
	}
	c.perMil = []uint64{1, 7, 25, 1000}[r.Intn(4)]
	// the conversion denom is a governance param: mostly the keeper's construction-time default, often not
	c.conv = []string{c08Denoms[0], c08Denoms[0], c08Denoms[0], c08Denoms[1], c08Denoms[1], c08Denoms[2]}[r.Intn(6)]
	payFee := func() sdk.Coins {
		switch r.Intn(8) {
		case 0:
			return nil
		case 1:
			return sdk.Coins{sdk.NewInt64Coin(c08Denoms[1], int64(1+r.Intn(500)))}
		default:
			return sdk.Coins{sdk.NewInt64Coin(c08Denoms[0], []int64{1, 2, 10, 1000, 80_000, 10_000_000}[r.Intn(6)])}
		}
	}
	c.payCreate, c.payAccept = payFee(), payFee()
	// in half of the configurations several message types (and custom assessed fees) pay the SAME
	// recipient, so that one transaction accumulates shares for one address from different sources
	if r.Intn(2) == 0 {
		c.shared = 1 + r.Intn(c08NAcc)
	}
	present := 55
	if c.shared > 0 {
		present = 80
	}
	for _, k := range []int{c08Send, c08Exec, c08Assess, c08PayCreate, c08Submit, c08Vote} {
		if r.Intn(100) >= present || ((k == c08PayCreate || k == c08Submit || k == c08Vote) && r.Intn(2) == 0) {
			continue
		}
		e := c08FeeEntry{kind: k}
		amt := []int64{1, 3, 7, 10, 99, 100, 800, 1001, 10000, 12345, 1000003}[r.Intn(11)]
		if r.Intn(25) == 0 {
			amt = 0
		}
		e.coin = sdk.NewInt64Coin(c08Denoms[[]int{0, 0, 0, 0, 1, 1, 1, 1, 2}[r.Intn(9)]], amt)
		if c.shared > 0 && r.Intn(5) != 0 {
			e.recipient = c.shared
			e.bips = []uint32{1, 2500, 3333, 5000, 9999, 10000}[r.Intn(6)]
			if r.Intn(3) == 0 {
				e.bips = uint32(1 + r.Intn(10000))
			}
		} else if r.Intn(2) == 0 {
			e.recipient = 1 + r.Intn(c08NAcc)
			if r.Intn(3) == 0 {
				e.bips = uint32(r.Intn(10001))
			} else {
				e.bips = c08Bips[r.Intn(len(c08Bips))]
			}
		}
		c.schedule = append(c.schedule, e)
	}
	return c
}

// ---------- transactions ----------

type c08Msg struct {
	kind      int
	from      int // account id: sender / grantee of the exec / assessing account
	to        int
	coins     sdk.Coins
	inner     []c08Msg
	amount    sdk.Coin
	recipient int
	bips      string
	// x/exchange payment messages: the payment, what the harness expects of the handler, and the
	// fee the handler then records on the meter itself
	pay    c08Payment
	payOK  bool
	post   sdk.Coins
	// gov MsgSubmitProposal: the proposal's messages
	gov []c08GovItem
	// gov MsgVote / MsgDeposit: the proposal id, and whether the harness expects the handler to succeed
	pid   uint64
	govOK bool
}

func (n *c08Net) sdkMsg(m c08Msg) sdk.Msg {
	switch m.kind {
	case c08Send:
		return &banktypes.MsgSend{FromAddress: n.addrOf(m.from).String(), ToAddress: n.addrOf(m.to).String(), Amount: m.coins}
	case c08PayCreate, c08PayAccept:
		pm := exchange.Payment{Source: n.addrOf(m.pay.source).String(), SourceAmount: m.pay.srcAmt,
			Target: n.addrOf(m.pay.target).String(), TargetAmount: m.pay.tgtAmt, ExternalId: m.pay.extID}
		if m.kind == c08PayCreate {
			return &exchange.MsgCreatePaymentRequest{Payment: pm}
		}
		return &exchange.MsgAcceptPaymentRequest{Payment: pm}
	case c08Submit:
		return n.submitMsg(m.from, m.gov)
	case c08Vote:
		return govv1.NewMsgVote(n.addrOf(m.from), m.pid, govv1.OptionNo, "")
	case c08Deposit:
		return govv1.NewMsgDeposit(n.addrOf(m.from), m.pid, sdk.NewCoins(sdk.NewInt64Coin(c08Bond, 1)))
	case c08Exec:
		var in []sdk.Msg
		for _, x := range m.inner {
			in = append(in, n.sdkMsg(x))
		}
		e := authz.NewMsgExec(n.addrOf(m.from), in)
		return &e
	default:
		rc := ""
		if m.recipient > 0 {
			rc = n.addrOf(m.recipient).String()
		}
		a := msgfeestypes.NewMsgAssessCustomMsgFeeRequest("verif", m.amount, rc, n.addrOf(m.from).String(), m.bips)
		return &a
	}
}

// routedTerms flattens a message into the messages the router sees, in execution order.
// grantee > 0: the message is dispatched by an authz MsgExec of that account.
func (n *c08Net) routedTerms(m c08Msg, grantee int) []string {
	if grantee > 0 && grantee != m.from && !(m.kind != c08Exec && n.authzOK[m.from-1][grantee-1]) {
		// no authorization: the dispatch fails before the message is routed
		return []string{fmt.Sprintf("(Rt %s None (ANop false) [])", c08N(m.kind))}
	}
	switch m.kind {
	case c08PayCreate, c08PayAccept:
		var mv []string
		if m.kind == c08PayAccept && m.payOK {
			// accepting swaps the two amounts (the hold on the source amount is released first)
			if !m.pay.srcAmt.IsZero() {
				mv = append(mv, fmt.Sprintf("(Build_move %s %s %s)", c08N(m.pay.source), c08N(m.pay.target), c08Coins(m.pay.srcAmt)))
			}
			if !m.pay.tgtAmt.IsZero() {
				mv = append(mv, fmt.Sprintf("(Build_move %s %s %s)", c08N(m.pay.target), c08N(m.pay.source), c08Coins(m.pay.tgtAmt)))
			}
		}
		return []string{fmt.Sprintf("(Rt %s None (AExt %s %s) %s)", c08N(m.kind), coqBool(m.payOK), coqList(mv), c08Coins(m.post))}
	case c08Submit:
		// the deposit is in the bond denom (not observed); the proposal's messages are not routed now
		return []string{fmt.Sprintf("(Rt %s None (AExt true []) [])", c08N(c08Submit))}
	case c08Vote, c08Deposit:
		// fails when the proposal does not exist (or is not in its voting / deposit period); moves bond denom only
		return []string{fmt.Sprintf("(Rt %s None (ANop %s) [])", c08N(m.kind), coqBool(m.govOK))}
	case c08Send:
		return []string{fmt.Sprintf("(Rt %s None (ASend %s %s %s) [])", c08N(c08Send), c08N(m.from), c08N(m.to), c08Coins(m.coins))}
	case c08Exec:
		out := []string{fmt.Sprintf("(Rt %s None (ANop true) [])", c08N(c08Exec))}
		for _, x := range m.inner {
			out = append(out, n.routedTerms(x, m.from)...)
		}
		return out
	default:
		rc := "None"
		if m.recipient > 0 {
			rc = "(Some " + c08N(m.recipient) + ")"
		}
		bp := "None"
		if m.bips != "" {
			bp = "(Some " + m.bips + ")"
		}
		return []string{fmt.Sprintf("(Rt %s (Some (Cu %s %s %s)) (ANop true) [])", c08N(c08Assess), c08Coin(m.amount), rc, bp)}
	}
}

func (n *c08Net) tmsgTerm(m c08Msg) string {
	rs := n.routedTerms(m, 0)
	return fmt.Sprintf("(Tm %s %s)", rs[0], coqList(rs[1:]))
}

// charge list of a message tree (generator-side arithmetic, used only to aim the declared fee)
func c08Required(c *c08Config, msgs []c08Msg, nested bool) sdk.Coins {
	req := sdk.NewCoins()
	var walk func(m c08Msg)
	walk = func(m c08Msg) {
		if nested && m.payOK {
			req = req.Add(m.post...) // not visible to the mempool check
		}
		for _, e := range c.schedule {
			if e.kind == m.kind && e.coin.IsPositive() {
				req = req.Add(e.coin)
			}
		}
		if m.kind == c08Assess && m.amount.IsPositive() {
			switch m.amount.Denom {
			case msgfeestypes.UsdDenom:
				req = req.Add(sdk.NewCoin(c.conv, m.amount.Amount.Mul(sdkmath.NewIntFromUint64(c.perMil))))
			case c.conv:
				req = req.Add(m.amount)
			}
		}
		if nested {
			for _, x := range m.inner {
				walk(x)
			}
		}
	}
	for _, m := range msgs {
		walk(m)
	}
	return req
}

// c08SameRecipientSources is the largest number of DIFFERENT fee sources (message-type fees by type,
// custom assessed fees) with a positive recipient share that name one and the same recipient in the
// transaction's message tree.
func c08SameRecipientSources(c *c08Config, msgs []c08Msg) int {
	src := map[int]map[string]bool{}
	add := func(rc int, key string) {
		if src[rc] == nil {
			src[rc] = map[string]bool{}
		}
		src[rc][key] = true
	}
	var walk func(m c08Msg)
	walk = func(m c08Msg) {
		for _, e := range c.schedule {
			if e.kind == m.kind && e.coin.IsPositive() && e.recipient > 0 && e.bips > 0 {
				add(e.recipient, fmt.Sprintf("type%d", e.kind))
			}
		}
		if m.kind == c08Assess && m.recipient > 0 && m.bips != "0" && (m.amount.Denom == c.conv || m.amount.Denom == msgfeestypes.UsdDenom) {
			add(m.recipient, "custom")
		}
		for _, x := range m.inner {
			walk(x)
		}
	}
	for _, m := range msgs {
		walk(m)
	}
	best := 0
	for _, v := range src {
		if len(v) > best {
			best = len(v)
		}
	}
	return best
}

type c08Tx struct {
	fee     sdk.Coins
	gas     uint64
	payer   int
	granter int // 0 = none
	signers []int
	msgs    []c08Msg
	explicitPayer bool // the fee payer is named in the AuthInfo and is not a signer of any message
	sigOK   bool // false: the first signer signs for a sequence two ahead
	forced  bool // put into the block without asking CheckTx
	hold    bool // when admitted, the proposer leaves it out of this block: it stays pending
	recheck bool // pending from an earlier step: offered again with CheckTx(Recheck), same bytes
	bz      []byte
	// filled in when the transaction is signed / run
	sigSeq              []uint64
	gasIn               string // Coq gas_input term; "" = from the result codes
	admitted, ok        bool
	chkCode, code       uint32
	gasUsed, chkGasUsed int64
}

func (n *c08Net) sign(t *c08Tx, seqs [c08NAcc]uint64) ([]byte, error) {
	cfg := n.app.GetEncodingConfig().TxConfig
	b := cfg.NewTxBuilder()
	var msgs []sdk.Msg
	for _, m := range t.msgs {
		msgs = append(msgs, n.sdkMsg(m))
	}
	if err := b.SetMsgs(msgs...); err != nil {
		return nil, err
	}
	b.SetFeeAmount(t.fee)
	b.SetGasLimit(t.gas)
	if t.granter > 0 {
		b.SetFeeGranter(n.addrOf(t.granter))
	}
	if t.explicitPayer {
		b.SetFeePayer(n.addrOf(t.payer))
	}
	mode := signing.SignMode(cfg.SignModeHandler().DefaultMode())
	sigs := make([]signing.SignatureV2, len(t.signers))
	nums := make([]uint64, len(t.signers))
	sq := make([]uint64, len(t.signers))
	t.sigSeq = nil
	for i, s := range t.signers {
		nums[i] = n.accNum[s-1]
		sq[i] = seqs[s-1]
		if !t.sigOK && i == 0 {
			sq[i] += 2 // signed for a sequence the account is not at
		}
		t.sigSeq = append(t.sigSeq, sq[i])
		sigs[i] = signing.SignatureV2{PubKey: n.accts[s-1].priv.PubKey(), Data: &signing.SingleSignatureData{SignMode: mode}, Sequence: sq[i]}
	}
	if err := b.SetSignatures(sigs...); err != nil {
		return nil, err
	}
	for i, s := range t.signers {
		sd := authsigning.SignerData{Address: n.addrOf(s).String(), ChainID: c08Chain, AccountNumber: nums[i], Sequence: sq[i], PubKey: n.accts[s-1].priv.PubKey()}
		sig, err := tx.SignWithPrivKey(context.Background(), mode, sd, b, n.accts[s-1].priv, cfg, sq[i])
		if err != nil {
			return nil, err
		}
		sigs[i] = sig
	}
	if err := b.SetSignatures(sigs...); err != nil {
		return nil, err
	}
	return cfg.TxEncoder()(b.GetTx())
}

// gasInput is the Coq gas_input of the transaction: measured consumption when it was calibrated,
// else where the node's result codes (11 = out of gas) say it ran out of gas.
func (t *c08Tx) gasInput() string {
	if t.gasIn != "" {
		return t.gasIn
	}
	if !t.forced && !t.admitted && t.chkCode == 11 {
		return "(GObserved GasAnte)"
	}
	if (t.admitted && !t.hold || t.forced) && !t.ok && t.code == 11 {
		return "(GObserved GasMsgs)"
	}
	return "(GObserved GasOk)"
}

// btxTerm is the transaction as offered: body, signed sequences, gas input, reported gas, forced.
func (t *c08Tx) btxTerm(n *c08Net) string {
	var sq []string
	for i, s := range t.signers {
		sq = append(sq, fmt.Sprintf("(%s, %d)", c08N(s), t.sigSeq[i]))
	}
	return fmt.Sprintf("(Bt %s %s %s %d %s %s %s)", t.term(n, "GasOk"), coqList(sq), t.gasInput(), t.gasUsed, coqBool(t.forced), coqBool(t.hold), coqBool(t.recheck))
}

func (t *c08Tx) term(n *c08Net, gasOut string) string {
	gr := "None"
	if t.granter > 0 {
		gr = "(Some " + c08N(t.granter) + ")"
	}
	var sg, ms []string
	for _, s := range t.signers {
		sg = append(sg, c08N(s))
	}
	for _, m := range t.msgs {
		ms = append(ms, n.tmsgTerm(m))
	}
	return fmt.Sprintf("(Tx %s %d %s %s %s %s %s %s)", c08Coins(t.fee), t.gas, c08N(t.payer), gr, coqList(sg), coqList(ms), "true", gasOut)
}

// ---------- generator ----------

type c08Gen struct {
	r   *rand.Rand
	n   *c08Net
	cfg *c08Config // configuration of the transaction being generated
	// id the next submitted proposal will get, when the transaction being planned runs alone in its block (else 0)
	nextPid uint64
}

func (g *c08Gen) otherThan(x int) int {
	for {
		y := 1 + g.r.Intn(c08NAcc)
		if y != x {
			return y
		}
	}
}

// sendCoins picks what a MsgSend of account `from` moves: mostly affordable, sometimes not.
func (g *c08Gen) sendCoins(st *c08State, from int, wantFail bool) sdk.Coins {
	r := g.r
	d := []int{2, 2, 2, 0, 1}[r.Intn(5)] // mostly the transfer denom; sometimes a fee denom
	bal := st.bal[from][d]
	var amt sdkmath.Int
	switch {
	case wantFail:
		amt = bal.AddRaw(int64(1 + r.Intn(3)))
	case d == 2 || r.Intn(2) == 0:
		amt = sdkmath.NewInt(int64(1 + r.Intn(1000)))
	default: // a large part of a fee denom: the sweep at the end may then fail
		amt = bal.QuoRaw(int64(1 + r.Intn(3))).AddRaw(1)
		if amt.GT(bal) {
			amt = bal
		}
	}
	if !amt.IsPositive() {
		amt = sdkmath.OneInt()
	}
	return sdk.NewCoins(sdk.NewCoin(c08Denoms[d], amt))
}

func (g *c08Gen) genAssess(from int) c08Msg {
	r := g.r
	m := c08Msg{kind: c08Assess, from: from}
	amt := []int64{1, 3, 10, 101, 1000, 99999}[r.Intn(6)]
	conv := c08Denoms[0]
	if g.cfg != nil {
		conv = g.cfg.conv
	}
	// a denom that is not the conversion denom in force: the keeper's default (the "old" conversion
	// denom) when governance moved away from it, else another fee denom.  Not convertible: the fee
	// calculation fails
	other := c08Denoms[0]
	if conv == other {
		other = c08Denoms[1+r.Intn(2)]
	}
	switch r.Intn(10) {
	case 0, 1, 2, 3:
		m.amount = sdk.NewInt64Coin(msgfeestypes.UsdDenom, amt)
	case 4:
		m.amount = sdk.NewInt64Coin(other, amt)
	default:
		m.amount = sdk.NewInt64Coin(conv, amt)
	}
	if g.cfg != nil && g.cfg.shared > 0 && r.Intn(4) != 0 {
		// the custom fee names the recipient the message-type fees of this configuration name
		m.recipient = g.cfg.shared
		if m.amount.Denom == other {
			m.amount = sdk.NewInt64Coin(conv, amt)
		}
		switch r.Intn(3) {
		case 0:
			m.bips = ""
		case 1:
			m.bips = strconv.Itoa(1 + r.Intn(10000))
		default:
			m.bips = strconv.Itoa(int([]uint32{1, 2500, 3333, 5000, 9999, 10000}[r.Intn(6)]))
		}
	} else if r.Intn(3) != 0 {
		m.recipient = 1 + r.Intn(c08NAcc)
		switch r.Intn(4) {
		case 0:
			m.bips = ""
		case 1:
			m.bips = strconv.Itoa(r.Intn(10001))
		default:
			m.bips = strconv.Itoa(int(c08Bips[r.Intn(len(c08Bips))]))
		}
	}
	return m
}

func (g *c08Gen) genMsg(st *c08State, signer int, depth int, failShare int) c08Msg {
	r := g.r
	k := r.Intn(10)
	switch {
	case k < 5 || depth >= 3 && k < 8:
		return c08Msg{kind: c08Send, from: signer, to: g.otherThan(signer), coins: g.sendCoins(st, signer, r.Intn(100) < failShare)}
	case k < 8:
		m := c08Msg{kind: c08Exec, from: signer}
		for i := 0; i < 1+r.Intn(2); i++ {
			from := signer
			if r.Intn(3) == 0 {
				from = g.otherThan(signer) // needs an authorization; some pairs have none
			}
			in := g.genMsg(st, from, depth+1, failShare)
			if in.kind == c08Exec && from != signer {
				in.from = signer
			}
			m.inner = append(m.inner, in)
		}
		return m
	default:
		return g.genAssess(signer)
	}
}

func c08Signers(msgs []c08Msg) []int {
	var out []int
	seen := map[int]bool{}
	for _, m := range msgs {
		if !seen[m.from] {
			seen[m.from] = true
			out = append(out, m.from)
		}
	}
	return out
}

var c08GasChoices = []uint64{300_000, 400_000, 500_000, 1_000_000, 2_000_000, 3_999_999, 4_000_000}

type c08Plan struct {
	cfg      *c08Config
	tx       *c08Tx
	setBal   [][3]any // id, denom index, amount
	setAllow []struct {
		g, p int
		a    c08Allow
	}
	feeMode, balMode, grantMode, gasMode, bodyMode string
	payWork map[string]c08Payment // the open payments if this transaction succeeds
	holdAgain  bool               // a pending transaction the proposer holds back once more at its recheck
	recheckWhy string             // what changed between the admission and the recheck (statistics)
	expectAnte bool               // forced transactions: the harness expects the ante handler to pass (later signers sign for the next sequence)
}

// c08PlanOpts restrict what plan may choose (transactions that share a block are planned one by one
// against the state at the start of the block).
type c08PlanOpts struct {
	payer      int      // > 0: the fee payer
	granter    int      // > 0: name this fee granter, set no allowance
	noGrant    bool     // no fee granter
	noBal      bool     // leave the paying account's balance alone
	allowPay   bool     // x/exchange payment bodies (the harness tracks open payments: one such tx per block)
	mayEditCfg bool     // the configuration is about to be written by the harness: plan may adjust it
	body       []c08Msg // != nil: the transaction's messages
	bodyMode   string
	gas        uint64 // > 0: the gas limit
	feeMode    string // "exactly-base", "exact", "above-all": the declared fee; "" = drawn
}

func (g *c08Gen) plan(st *c08State, cfg *c08Config, o c08PlanOpts) *c08Plan {
	r := g.r
	p := &c08Plan{cfg: cfg}
	t := &c08Tx{sigOK: true}
	p.tx = t
	t.payer = 1 + r.Intn(c08NAcc)
	if o.payer > 0 {
		t.payer = o.payer
	}
	g.cfg = p.cfg
	failShare := 8
	if o.body != nil {
		t.msgs = o.body
		p.bodyMode = o.bodyMode
	} else if r.Intn(12) == 0 {
		// authz MsgExec nested three deep around a send or a custom assessed fee of the payer (or of an
		// account that did or did not authorize the payer)
		from := t.payer
		if r.Intn(3) == 0 {
			from = g.otherThan(t.payer)
		}
		var leaf c08Msg
		if r.Intn(2) == 0 {
			leaf = g.genAssess(from)
		} else {
			leaf = c08Msg{kind: c08Send, from: from, to: g.otherThan(from), coins: g.sendCoins(st, from, r.Intn(100) < failShare)}
		}
		m := c08Msg{kind: c08Exec, from: t.payer, inner: []c08Msg{leaf}}
		for i := 0; i < 2; i++ {
			m = c08Msg{kind: c08Exec, from: t.payer, inner: []c08Msg{m}}
			if r.Intn(3) == 0 {
				m.inner = append(m.inner, c08Msg{kind: c08Send, from: t.payer, to: g.otherThan(t.payer), coins: g.sendCoins(st, t.payer, false)})
			}
		}
		t.msgs = append(t.msgs, m)
		p.bodyMode = "exec-depth-3"
	} else if r.Intn(9) == 0 {
		// only x/gov messages: TxGasLimitDecorator lets such a transaction ask for any amount of gas; the
		// base fee is still floor price x THAT gas limit.  Votes and deposits on a proposal that does not
		// exist fail in the handler; an empty proposal (and a vote on it) succeeds.
		const missing = 987_654_321
		switch k := r.Intn(6); {
		case k == 0:
			t.msgs = []c08Msg{{kind: c08Vote, from: t.payer, pid: missing}}
		case k == 1:
			t.msgs = []c08Msg{{kind: c08Deposit, from: t.payer, pid: missing}}
		case k == 2:
			t.msgs = []c08Msg{{kind: c08Submit, from: t.payer}}
		case k == 3 && g.nextPid > 0:
			t.msgs = []c08Msg{{kind: c08Submit, from: t.payer}, {kind: c08Vote, from: t.payer, pid: g.nextPid, govOK: true}}
		case k == 4 && g.nextPid > 0:
			t.msgs = []c08Msg{{kind: c08Submit, from: t.payer}, {kind: c08Deposit, from: t.payer, pid: g.nextPid, govOK: true}, {kind: c08Vote, from: t.payer, pid: missing}}
		default:
			t.msgs = []c08Msg{{kind: c08Submit, from: t.payer}, {kind: c08Vote, from: t.payer, pid: missing}}
		}
		p.bodyMode = "gov-only"
		if o.gas == 0 && r.Intn(10) < 7 {
			o.gas = uint64(4_000_001 + r.Intn(3_000_000))
			p.gasMode = "gov-only-above-the-gas-cap"
		}
	} else if o.allowPay && r.Intn(10) < 3 {
		// x/exchange payments: the handler records a flat fee on the fee gas meter after it succeeded
		// a good share: nothing but the handler's own fee is due beyond the base fee, and the declared
		// fee is exactly the base fee - the sweep has nothing left and only the final subtraction
		// in DeductFeesDistributions stands between the payer and an undeclared charge
		exactBase := o.mayEditCfg && r.Intn(100) < 40
		if exactBase {
			p.cfg.schedule = nil
			if p.cfg.payCreate.IsZero() {
				p.cfg.payCreate = sdk.Coins{sdk.NewInt64Coin(c08Denoms[0], int64(1+r.Intn(100_000)))}
			}
			if p.cfg.payAccept.IsZero() {
				p.cfg.payAccept = sdk.Coins{sdk.NewInt64Coin(c08Denoms[0], int64(1+r.Intn(100_000)))}
			}
		}
		work := map[string]c08Payment{}
		var keys []string
		for k, v := range g.n.payments {
			work[k] = v
			keys = append(keys, k)
		}
		sort.Strings(keys)
		amt := func(zeroShare int) sdk.Coins {
			if r.Intn(100) < zeroShare {
				return nil
			}
			return sdk.NewCoins(sdk.NewInt64Coin(c08Denoms[3], int64(1+r.Intn(500))))
		}
		mkCreate := func(source int) c08Msg {
			pay := c08Payment{source: source, target: g.otherThan(source), srcAmt: amt(10), tgtAmt: amt(40)}
			if pay.srcAmt.IsZero() && pay.tgtAmt.IsZero() {
				pay.srcAmt = sdk.NewCoins(sdk.NewInt64Coin(c08Denoms[3], 7))
			}
			g.n.payCount++
			pay.extID = fmt.Sprintf("p%d", g.n.payCount)
			if len(keys) > 0 && r.Intn(12) == 0 { // an external id the source already uses: the handler fails
				if ex := work[keys[r.Intn(len(keys))]]; ex.source == source {
					pay.extID = ex.extID
				}
			}
			m := c08Msg{kind: c08PayCreate, from: source, pay: pay}
			if _, dup := work[pay.key()]; !dup {
				m.payOK = true
				work[pay.key()] = pay
				if !pay.srcAmt.IsZero() {
					m.post = p.cfg.payCreate
				}
			}
			return m
		}
		if len(keys) > 0 && r.Intn(2) == 0 {
			pay := work[keys[r.Intn(len(keys))]]
			t.payer = pay.target
			m := c08Msg{kind: c08PayAccept, from: pay.target, pay: pay, payOK: true}
			if r.Intn(10) == 0 { // not the payment that is in state
				m.pay.tgtAmt = m.pay.tgtAmt.Add(sdk.NewInt64Coin(c08Denoms[3], 1))
				m.payOK = false
			} else {
				delete(work, pay.key())
				if !pay.tgtAmt.IsZero() {
					m.post = p.cfg.payAccept
				}
			}
			t.msgs = append(t.msgs, m)
		} else {
			t.msgs = append(t.msgs, mkCreate(t.payer))
		}
		extra := r.Intn(5)
		if exactBase && extra == 2 {
			extra = 1
		}
		switch extra {
		case 0:
			t.msgs = append(t.msgs, mkCreate(t.payer))
		case 1:
			t.msgs = append(t.msgs, c08Msg{kind: c08Send, from: t.payer, to: g.otherThan(t.payer), coins: g.sendCoins(st, t.payer, false)})
		case 2:
			t.msgs = append(t.msgs, g.genAssess(t.payer))
		}
		p.payWork = work
		p.bodyMode = "exchange-payment"
		if exactBase {
			p.bodyMode = "exchange-payment-only-handler-fee"
		}
	} else if p.cfg.shared > 0 && r.Intn(3) != 0 {
		// 2-3 messages of DIFFERENT fee-bearing types: a send, a custom assessed fee, an exec wrapping either
		failShare = 3
		kinds := []int{c08Send, c08Assess, c08Exec}
		r.Shuffle(len(kinds), func(i, j int) { kinds[i], kinds[j] = kinds[j], kinds[i] })
		for _, k := range kinds[:2+r.Intn(2)] {
			switch k {
			case c08Send:
				t.msgs = append(t.msgs, c08Msg{kind: c08Send, from: t.payer, to: g.otherThan(t.payer), coins: g.sendCoins(st, t.payer, r.Intn(100) < failShare)})
			case c08Assess:
				t.msgs = append(t.msgs, g.genAssess(t.payer))
			default:
				m := c08Msg{kind: c08Exec, from: t.payer}
				if r.Intn(2) == 0 {
					m.inner = append(m.inner, g.genAssess(t.payer))
				} else {
					m.inner = append(m.inner, c08Msg{kind: c08Send, from: t.payer, to: g.otherThan(t.payer), coins: g.sendCoins(st, t.payer, false)})
				}
				t.msgs = append(t.msgs, m)
			}
		}
		p.bodyMode = "different-fee-types"
	} else {
		nm := 1 + r.Intn(3)
		for i := 0; i < nm; i++ {
			signer := t.payer
			if i > 0 && r.Intn(5) == 0 {
				signer = g.otherThan(t.payer)
			}
			t.msgs = append(t.msgs, g.genMsg(st, signer, 1, failShare))
		}
		p.bodyMode = "random"
	}
	t.signers = c08Signers(t.msgs)
	if o.payer == 0 && o.body == nil && !strings.HasPrefix(p.bodyMode, "exchange") && r.Intn(10) == 0 {
		// the fee payer field of the AuthInfo names an account that signs no message: it signs last,
		// pays (or its granter does) and its sequence advances with the others'
		fp := g.otherThan(t.payer)
		in := false
		for _, s := range t.signers {
			in = in || s == fp
		}
		if !in {
			t.signers = append(t.signers, fp)
			t.payer, t.explicitPayer = fp, true
		}
	}
	if r.Intn(40) == 0 {
		t.sigOK = false
	}

	// gas
	switch k := r.Intn(100); {
	case o.gas > 0:
		t.gas = o.gas
		if p.gasMode == "" {
			p.gasMode = "given"
		}
	case k < 89:
		t.gas = c08GasChoices[r.Intn(len(c08GasChoices))]
		p.gasMode = "ample"
	case k < 96:
		t.gas = uint64(20_000 + r.Intn(150_000))
		p.gasMode = "low"
	case k < 97:
		t.gas = 0
		p.gasMode = "zero"
	default:
		t.gas = 4_000_001 + uint64(r.Intn(3))*1_000_000
		p.gasMode = "above-limit"
	}

	// declared fee relative to what is required
	base := sdk.NewCoins()
	if p.cfg.floor.Amount.IsPositive() && t.gas > 0 {
		base = sdk.NewCoins(sdk.NewCoin(p.cfg.floor.Denom, p.cfg.floor.Amount.Mul(sdkmath.NewIntFromUint64(t.gas))))
	}
	reqAll := base.Add(c08Required(p.cfg, t.msgs, true)...)
	reqTop := base.Add(c08Required(p.cfg, t.msgs, false)...)
	minusOne := func(c sdk.Coins) sdk.Coins {
		if len(c) == 0 {
			return c
		}
		x := c[r.Intn(len(c))]
		return c.Sub(sdk.NewCoin(x.Denom, sdkmath.OneInt()))
	}
	switch k := r.Intn(100); {
	case k < 42:
		t.fee, p.feeMode = reqAll, "exact"
	case k < 62:
		t.fee, p.feeMode = reqAll.Add(sdk.NewInt64Coin(c08Denoms[r.Intn(2)], int64(1+r.Intn(5000)))), "above"
	case k < 70:
		t.fee, p.feeMode = reqAll.Add(sdk.NewInt64Coin(c08Denoms[2], int64(1+r.Intn(50)))), "above-extra-denom"
	case k < 79:
		t.fee, p.feeMode = reqTop, "top-level-only"
	case k < 85:
		t.fee, p.feeMode = minusOne(reqAll), "one-below"
	case k < 89:
		t.fee, p.feeMode = minusOne(reqTop), "one-below-top-level"
	case k < 93:
		t.fee, p.feeMode = base, "base-only"
	case k < 95:
		t.fee, p.feeMode = minusOne(base), "below-base"
	case k < 96:
		t.fee, p.feeMode = sdk.NewCoins(), "none"
	default: // only the first denom of what is required
		if len(reqAll) > 0 {
			t.fee = sdk.NewCoins(reqAll[0])
		}
		p.feeMode = "first-denom-only"
	}

	if p.bodyMode == "gov-only" && o.feeMode == "" && r.Intn(3) != 0 {
		o.feeMode = "exact"
	}
	switch o.feeMode {
	case "exactly-base":
		t.fee, p.feeMode = base, "exactly-base"
	case "exact":
		t.fee, p.feeMode = reqAll, "exact"
	case "above-all":
		// enough in every fee denom for whatever a stale schedule or a stale conversion denom could ask
		t.fee, p.feeMode = reqAll.Add(sdk.NewInt64Coin(c08Denoms[0], 200_000_000), sdk.NewInt64Coin(c08Denoms[1], 200_000_000), sdk.NewInt64Coin(c08Denoms[2], 200_000_000)), "above-in-every-fee-denom"
	}

	if p.bodyMode == "exchange-payment-only-handler-fee" {
		switch k := r.Intn(100); {
		case k < 70:
			t.fee, p.feeMode = base, "exactly-base"
		case k < 85:
			t.fee, p.feeMode = reqAll, "exact"
		default:
			t.fee, p.feeMode = minusOne(reqAll), "one-below"
		}
	}
	if p.bodyMode == "exchange-payment" {
		handler := reqAll.Sub(reqTop...) // what the handlers will record themselves
		switch k := r.Intn(100); {
		case k < 30:
			t.fee, p.feeMode = reqAll, "exact"
		case k < 55:
			t.fee, p.feeMode = reqTop, "without-handler-fee"
		case k < 75:
			part := sdk.NewCoins()
			for _, c := range handler {
				part = part.Add(sdk.NewCoin(c.Denom, c.Amount.QuoRaw(2)))
			}
			t.fee, p.feeMode = reqTop.Add(part...), "handler-fee-partly"
		case k < 85:
			t.fee, p.feeMode = minusOne(reqAll), "one-below"
		}
	}

	// fee grant
	src := t.payer
	if o.granter > 0 {
		t.granter = o.granter
		src = t.granter
		p.grantMode = "shared-in-block"
	} else if !o.noGrant && r.Intn(100) < 28 {
		t.granter = g.otherThan(t.payer)
		if r.Intn(25) == 0 {
			t.granter = t.payer // granter = payer: the grant is not consulted
		} else {
			src = t.granter
		}
		a := c08Allow{present: true}
		lim := func(c sdk.Coins) { a.limit = c; a.present = !c.IsZero() }
		switch k := r.Intn(12); k {
		case 0:
			a.present, p.grantMode = false, "no-grant"
		case 1, 2:
			a.unlimited, p.grantMode = true, "unlimited"
		case 3, 4:
			lim(t.fee)
			p.grantMode = "limit=declared"
		case 5:
			lim(minusOne(t.fee))
			p.grantMode = "limit=declared-1"
		case 6:
			lim(base)
			p.grantMode = "limit=base"
		case 7:
			lim(minusOne(base))
			p.grantMode = "limit=base-1"
		case 8:
			lim(t.fee.Add(sdk.NewInt64Coin(c08Denoms[0], 1)))
			p.grantMode = "limit=declared+1"
		default:
			lim(t.fee.Add(sdk.NewCoins(sdk.NewInt64Coin(c08Denoms[0], 1_000_000_000), sdk.NewInt64Coin(c08Denoms[1], 1_000_000))...))
			p.grantMode = "limit=ample"
		}
		if t.granter != t.payer {
			p.setAllow = append(p.setAllow, struct {
				g, p int
				a    c08Allow
			}{t.granter, t.payer, a})
		}
	} else {
		p.grantMode = "none"
	}

	// balance of the account that pays
	p.balMode = "ample"
	if !o.noBal && r.Intn(100) < 30 {
		d := r.Intn(2)
		dn := c08Denoms[d]
		var v sdkmath.Int
		switch r.Intn(7) {
		case 0:
			v, p.balMode = t.fee.AmountOf(dn), "=declared"
		case 1:
			v, p.balMode = t.fee.AmountOf(dn).SubRaw(1), "declared-1"
		case 2:
			v, p.balMode = base.AmountOf(dn), "=base"
		case 3:
			v, p.balMode = base.AmountOf(dn).SubRaw(1), "base-1"
		case 4:
			v, p.balMode = reqTop.AmountOf(dn).Sub(base.AmountOf(dn)), "=additional"
		case 5:
			v, p.balMode = t.fee.AmountOf(dn).AddRaw(int64(r.Intn(2000))), "declared+small"
		default:
			v, p.balMode = sdkmath.ZeroInt(), "zero"
		}
		if v.IsNegative() {
			v = sdkmath.ZeroInt()
		}
		p.setBal = append(p.setBal, [3]any{src, d, v})
	}
	return p
}

