//go:build c08

package harness

import (
	"fmt"
	"math/big"
	"math/rand"
	"sort"
	"strconv"
	"strings"
	"testing"
	"time"

	abci "github.com/cometbft/cometbft/abci/types"
	cmtproto "github.com/cometbft/cometbft/proto/tendermint/types"

	sdkmath "cosmossdk.io/math"
	storetypes "cosmossdk.io/store/types"
	"cosmossdk.io/x/feegrant"
	feegrantkeeper "cosmossdk.io/x/feegrant/keeper"

	"github.com/cosmos/cosmos-sdk/client/tx"
	"github.com/cosmos/cosmos-sdk/crypto/keys/secp256k1"
	cryptotypes "github.com/cosmos/cosmos-sdk/crypto/types"
	sdk "github.com/cosmos/cosmos-sdk/types"
	"github.com/cosmos/cosmos-sdk/types/tx/signing"
	authsigning "github.com/cosmos/cosmos-sdk/x/auth/signing"
	authtypes "github.com/cosmos/cosmos-sdk/x/auth/types"
	"github.com/cosmos/cosmos-sdk/x/authz"
	banktypes "github.com/cosmos/cosmos-sdk/x/bank/types"
	distrtypes "github.com/cosmos/cosmos-sdk/x/distribution/types"

	simapp "github.com/provenance-io/provenance/app"
	"github.com/provenance-io/provenance/internal/pioconfig"
	"github.com/provenance-io/provenance/x/exchange"
	msgfeestypes "github.com/provenance-io/provenance/x/msgfees/types"
)

// ---------- a real chain: signed transactions through CheckTx, then FinalizeBlock + Commit ----------

const (
	c08Chain = "verif-1" // not a chain id that isTestContext treats specially: all fee checks are live
	c08NAcc  = 6
)

// denoms and their ids in the Coq terms
var c08Denoms = []string{"feecoin", "hotdog", "xfer", "paycoin"} // none is the bond denom: block inflation never touches them

const c08UsdID = 7

const c08NDen = 4 // len(c08Denoms); paycoin is moved (and put on hold) only by x/exchange payments

func c08DenomID(d string) int {
	for i, x := range c08Denoms {
		if x == d {
			return i + 1
		}
	}
	if d == msgfeestypes.UsdDenom {
		return c08UsdID
	}
	return 9
}

// message kinds = message type ids in the Coq terms
const (
	c08Send   = 1
	c08Exec   = 2
	c08Assess = 3
	// x/exchange payments: their handlers record a flat fee on the fee gas meter themselves
	c08PayCreate = 4
	c08PayAccept = 5
)

var c08TypeURL = map[int]string{
	c08Send:   sdk.MsgTypeURL(&banktypes.MsgSend{}),
	c08Exec:   sdk.MsgTypeURL(&authz.MsgExec{}),
	c08Assess: sdk.MsgTypeURL(&msgfeestypes.MsgAssessCustomMsgFeeRequest{}),
	c08PayCreate: sdk.MsgTypeURL(&exchange.MsgCreatePaymentRequest{}),
	c08PayAccept: sdk.MsgTypeURL(&exchange.MsgAcceptPaymentRequest{}),
}

type c08Acct struct {
	priv cryptotypes.PrivKey
	addr sdk.AccAddress
}

type c08Net struct {
	t      *testing.T
	app    *simapp.App
	accts  []c08Acct // sorted by bech32 string; account i has id i+1 in the Coq terms; id 0 = fee collector
	height int64
	now    time.Time
	sink   sdk.AccAddress
	feeCol sdk.AccAddress
	distr  sdk.AccAddress
	// message authorizations (authz) granted at start: authzOK[granter][grantee]
	authzOK [c08NAcc][c08NAcc]bool
	// open x/exchange payments as the harness knows them: key = source id / external id
	payments map[string]c08Payment
	payCount int
}

type c08Payment struct {
	source, target int
	srcAmt, tgtAmt sdk.Coins
	extID          string
}

func (p c08Payment) key() string { return fmt.Sprintf("%d/%s", p.source, p.extID) }

func c08NewNet(t *testing.T) *c08Net {
	pioconfig.SetProvenanceConfig(sdk.DefaultBondDenom, 1)
	n := &c08Net{t: t, payments: map[string]c08Payment{}}
	for i := 0; i < c08NAcc; i++ {
		priv := secp256k1.GenPrivKeyFromSecret([]byte(fmt.Sprintf("verif-c08-key-%d", i)))
		n.accts = append(n.accts, c08Acct{priv: priv, addr: sdk.AccAddress(priv.PubKey().Address())})
	}
	// recipients are paid in the order of their bech32 strings; ids follow that order
	sort.Slice(n.accts, func(i, j int) bool { return n.accts[i].addr.String() < n.accts[j].addr.String() })
	var gen []authtypes.GenesisAccount
	var bals []banktypes.Balance
	for i, a := range n.accts {
		gen = append(gen, authtypes.NewBaseAccount(a.addr, a.priv.PubKey(), uint64(i), 0))
		bals = append(bals, banktypes.Balance{Address: a.addr.String(), Coins: sdk.NewCoins(
			sdk.NewInt64Coin(c08Denoms[0], 1_000_000_000_000_000), sdk.NewInt64Coin(c08Denoms[1], 1_000_000_000), sdk.NewInt64Coin(c08Denoms[3], 1_000_000_000), sdk.NewInt64Coin(c08Denoms[2], 1_000_000_000))})
	}
	n.app = simapp.SetupWithGenesisAccounts(t, c08Chain, gen, bals...)
	n.height = n.app.LastBlockHeight() + 1 // the block opened by the setup
	n.now = time.Unix(1_700_000_000, 0).UTC()
	n.sink = addrN(808)
	n.feeCol = authtypes.NewModuleAddress(authtypes.FeeCollectorName)
	n.distr = authtypes.NewModuleAddress(distrtypes.ModuleName)
	ctx := n.ctx()
	for g := 0; g < c08NAcc; g++ {
		for p := 0; p < c08NAcc; p++ {
			if g != p && (g*7+p*3)%4 != 0 {
				n.authzOK[g][p] = true
				for _, k := range []int{c08Send, c08Assess} {
					if err := n.app.AuthzKeeper.SaveGrant(ctx, n.accts[p].addr, n.accts[g].addr, authz.NewGenericAuthorization(c08TypeURL[k]), nil); err != nil {
						t.Fatalf("authz grant: %v", err)
					}
				}
			}
		}
	}
	return n
}

// ctx is the state of the block that is open (FinalizeBlock done, Commit not yet): reads see the
// block's effects, writes made through it are committed by commit().
func (n *c08Net) ctx() sdk.Context {
	return n.app.BaseApp.NewContextLegacy(false, cmtproto.Header{ChainID: c08Chain, Height: n.height, Time: n.now})
}

func (n *c08Net) commit(ctx sdk.Context) {
	ctx.MultiStore().(storetypes.CacheMultiStore).Write()
	if _, err := n.app.Commit(); err != nil {
		n.t.Fatalf("Commit(%d): %v", n.height, err)
	}
}

// offer runs CheckTx on the committed state and then a block that contains the transaction iff it
// was admitted.  Returns (admitted, checkCode, executed ok, deliverCode).
func (n *c08Net) offer(bz []byte) (bool, uint32, bool, uint32, int64) {
	chk, err := n.app.CheckTx(&abci.RequestCheckTx{Tx: bz, Type: abci.CheckTxType_New})
	if err != nil {
		n.t.Fatalf("CheckTx: %v", err)
	}
	admitted := chk.Code == 0
	var txs [][]byte
	if admitted {
		txs = [][]byte{bz}
	}
	n.height++
	n.now = n.now.Add(5 * time.Second)
	res, err := n.app.FinalizeBlock(&abci.RequestFinalizeBlock{Height: n.height, Time: n.now, Txs: txs})
	if err != nil {
		n.t.Fatalf("FinalizeBlock(%d): %v", n.height, err)
	}
	if !admitted {
		return false, chk.Code, false, 0, 0
	}
	r := res.TxResults[0]
	return true, 0, r.Code == 0, r.Code, r.GasUsed
}

// ---------- observed state ----------

type c08Allow struct {
	present   bool
	unlimited bool
	limit     sdk.Coins
}

type c08State struct {
	bal   [c08NAcc + 1][c08NDen]sdkmath.Int // account id (0 = fee collector + distribution) x denom
	seq   [c08NAcc]uint64
	allow [c08NAcc][c08NAcc]c08Allow // [granter][grantee]
}

func (n *c08Net) addrOf(id int) sdk.AccAddress { return n.accts[id-1].addr }

func (n *c08Net) observe(ctx sdk.Context) *c08State {
	s := &c08State{}
	for d, dn := range c08Denoms {
		s.bal[0][d] = n.app.BankKeeper.GetBalance(ctx, n.feeCol, dn).Amount.Add(n.app.BankKeeper.GetBalance(ctx, n.distr, dn).Amount)
		for i, a := range n.accts {
			s.bal[i+1][d] = n.app.BankKeeper.GetBalance(ctx, a.addr, dn).Amount
		}
	}
	for i, a := range n.accts {
		s.seq[i] = n.app.AccountKeeper.GetAccount(ctx, a.addr).GetSequence()
		for j, b := range n.accts {
			if i == j {
				continue
			}
			al, err := n.app.FeeGrantKeeper.GetAllowance(ctx, a.addr, b.addr)
			if err != nil || al == nil {
				continue
			}
			ba, ok := al.(*feegrant.BasicAllowance)
			if !ok {
				n.t.Fatalf("unexpected allowance type %T", al)
			}
			s.allow[i][j] = c08Allow{present: true, unlimited: ba.SpendLimit == nil, limit: ba.SpendLimit}
		}
	}
	return s
}

func c08N(i int) string { return strconv.Itoa(i) + "%N" }

func c08Coins(c sdk.Coins) string {
	var it []string
	for _, x := range c {
		it = append(it, "("+c08N(c08DenomID(x.Denom))+", "+zInt(x.Amount)+")")
	}
	return coqList(it)
}

func c08Coin(c sdk.Coin) string { return "(" + c08N(c08DenomID(c.Denom)) + ", " + zInt(c.Amount) + ")" }

func c08AllowTerm(a c08Allow) string {
	if !a.present {
		return "None"
	}
	if a.unlimited {
		return "(Some None)"
	}
	return "(Some (Some " + c08Coins(a.limit) + "))"
}

func (s *c08State) balTerm() string {
	var it []string
	for a := 0; a <= c08NAcc; a++ {
		for d := 0; d < c08NDen; d++ {
			if !s.bal[a][d].IsZero() {
				it = append(it, fmt.Sprintf("(%s, %s, %s)", c08N(a), c08N(d+1), zInt(s.bal[a][d])))
			}
		}
	}
	return coqList(it)
}

func (s *c08State) seqTerm() string {
	var it []string
	for a := 0; a < c08NAcc; a++ {
		it = append(it, fmt.Sprintf("(%s, %d)", c08N(a+1), s.seq[a]))
	}
	return coqList(it)
}

func (s *c08State) allowTerm(pairs [][2]int) string {
	var it []string
	for _, gp := range pairs {
		a := s.allow[gp[0]-1][gp[1]-1]
		if a.present {
			it = append(it, fmt.Sprintf("(%s, %s, %s)", c08N(gp[0]), c08N(gp[1]), c08AllowTerm(a)))
		}
	}
	return coqList(it)
}

// ---------- direct state changes between transactions (the harness acting as faucet / granter) ----------

func (n *c08Net) setBal(ctx sdk.Context, id int, denom string, v sdkmath.Int) {
	addr := n.addrOf(id)
	cur := n.app.BankKeeper.GetBalance(ctx, addr, denom).Amount
	switch {
	case v.GT(cur):
		fund(n.t, n.app, ctx, addr, sdk.NewCoins(sdk.NewCoin(denom, v.Sub(cur))))
	case v.LT(cur):
		if err := n.app.BankKeeper.SendCoins(ctx, addr, n.sink, sdk.NewCoins(sdk.NewCoin(denom, cur.Sub(v)))); err != nil {
			n.t.Fatalf("drain: %v", err)
		}
	}
}

func (n *c08Net) setAllow(ctx sdk.Context, g, p int, a c08Allow) {
	ga, pa := n.addrOf(g), n.addrOf(p)
	if ex, _ := n.app.FeeGrantKeeper.GetAllowance(ctx, ga, pa); ex != nil {
		if _, err := feegrantkeeper.NewMsgServerImpl(n.app.FeeGrantKeeper).RevokeAllowance(ctx, &feegrant.MsgRevokeAllowance{Granter: ga.String(), Grantee: pa.String()}); err != nil {
			n.t.Fatalf("revoke: %v", err)
		}
	}
	if !a.present {
		return
	}
	al := &feegrant.BasicAllowance{}
	if !a.unlimited {
		al.SpendLimit = a.limit
	}
	if err := n.app.FeeGrantKeeper.GrantAllowance(ctx, ga, pa, al); err != nil {
		n.t.Fatalf("grant allowance: %v", err)
	}
}

// ---------- configuration ----------

type c08FeeEntry struct {
	kind      int
	coin      sdk.Coin
	recipient int // account id, 0 = none
	bips      uint32
}

type c08Config struct {
	schedule []c08FeeEntry
	floor    sdk.Coin
	perMil   uint64
	payCreate, payAccept sdk.Coins // exchange params FeeCreatePaymentFlat / FeeAcceptPaymentFlat (empty = none); not part of the Coq config: the fee appears on the routed message
	shared   int // when > 0: the recipient that several fee sources of this configuration name (not part of the Coq term)
}

func (c *c08Config) term() string {
	var it []string
	for _, e := range c.schedule {
		rc := "None"
		if e.recipient > 0 {
			rc = "(Some " + c08N(e.recipient) + ")"
		}
		it = append(it, fmt.Sprintf("(Fe %s %s %s %d)", c08N(e.kind), c08Coin(e.coin), rc, e.bips))
	}
	return fmt.Sprintf("(Cfg %s %s %s %s %d)", coqList(it), c08Coin(c.floor), c08N(1), c08N(c08UsdID), c.perMil)
}

func (n *c08Net) applyConfig(ctx sdk.Context, c *c08Config) {
	for _, url := range c08TypeURL {
		_ = n.app.MsgFeesKeeper.RemoveMsgFee(ctx, url)
	}
	for _, e := range c.schedule {
		rc := ""
		if e.recipient > 0 {
			rc = n.addrOf(e.recipient).String()
		}
		if err := n.app.MsgFeesKeeper.SetMsgFee(ctx, msgfeestypes.NewMsgFee(c08TypeURL[e.kind], e.coin, rc, e.bips)); err != nil {
			n.t.Fatalf("SetMsgFee: %v", err)
		}
	}
	n.app.MsgFeesKeeper.SetParams(ctx, msgfeestypes.Params{FloorGasPrice: c.floor, NhashPerUsdMil: c.perMil, ConversionFeeDenom: c08Denoms[0]})
	ep := exchange.DefaultParams()
	ep.FeeCreatePaymentFlat = c.payCreate
	ep.FeeAcceptPaymentFlat = c.payAccept
	n.app.ExchangeKeeper.SetParams(ctx, ep)
}

var c08Bips = []uint32{0, 1, 2500, 3333, 5000, 9999, 10000}

func c08GenConfig(r *rand.Rand) *c08Config {
	c := &c08Config{}
	switch r.Intn(8) {
	case 0:
		c.floor = sdk.NewInt64Coin(c08Denoms[0], 0)
	case 1:
		c.floor = sdk.NewInt64Coin(c08Denoms[0], 1905)
	case 2:
		c.floor = sdk.NewInt64Coin(c08Denoms[1], int64(1+r.Intn(3))) // base fee in the second denom
	default:
		c.floor = sdk.NewInt64Coin(c08Denoms[0], int64(1+r.Intn(5)))
	}
	c.perMil = []uint64{1, 7, 25, 1000}[r.Intn(4)]
	payFee := func() sdk.Coins {
		switch r.Intn(8) {
		case 0:
			return nil
		case 1:
			return sdk.Coins{sdk.NewInt64Coin(c08Denoms[1], int64(1+r.Intn(500)))}
		default:
			return sdk.Coins{sdk.NewInt64Coin(c08Denoms[0], []int64{1, 2, 10, 1000, 80_000, 10_000_000}[r.Intn(6)])}
		}
	}
	c.payCreate, c.payAccept = payFee(), payFee()
	// in half of the configurations several message types (and custom assessed fees) pay the SAME
	// recipient, so that one transaction accumulates shares for one address from different sources
	if r.Intn(2) == 0 {
		c.shared = 1 + r.Intn(c08NAcc)
	}
	present := 55
	if c.shared > 0 {
		present = 80
	}
	for _, k := range []int{c08Send, c08Exec, c08Assess, c08PayCreate} {
		if r.Intn(100) >= present || (k == c08PayCreate && r.Intn(2) == 0) {
			continue
		}
		e := c08FeeEntry{kind: k}
		amt := []int64{1, 3, 7, 10, 99, 100, 800, 1001, 10000, 12345, 1000003}[r.Intn(11)]
		if r.Intn(25) == 0 {
			amt = 0
		}
		e.coin = sdk.NewInt64Coin(c08Denoms[r.Intn(2)], amt)
		if c.shared > 0 && r.Intn(5) != 0 {
			e.recipient = c.shared
			e.bips = []uint32{1, 2500, 3333, 5000, 9999, 10000}[r.Intn(6)]
			if r.Intn(3) == 0 {
				e.bips = uint32(1 + r.Intn(10000))
			}
		} else if r.Intn(2) == 0 {
			e.recipient = 1 + r.Intn(c08NAcc)
			if r.Intn(3) == 0 {
				e.bips = uint32(r.Intn(10001))
			} else {
				e.bips = c08Bips[r.Intn(len(c08Bips))]
			}
		}
		c.schedule = append(c.schedule, e)
	}
	return c
}

// ---------- transactions ----------

type c08Msg struct {
	kind      int
	from      int // account id: sender / grantee of the exec / assessing account
	to        int
	coins     sdk.Coins
	inner     []c08Msg
	amount    sdk.Coin
	recipient int
	bips      string
	// x/exchange payment messages: the payment, what the harness expects of the handler, and the
	// fee the handler then records on the meter itself
	pay    c08Payment
	payOK  bool
	post   sdk.Coins
}

func (n *c08Net) sdkMsg(m c08Msg) sdk.Msg {
	switch m.kind {
	case c08Send:
		return &banktypes.MsgSend{FromAddress: n.addrOf(m.from).String(), ToAddress: n.addrOf(m.to).String(), Amount: m.coins}
	case c08PayCreate, c08PayAccept:
		pm := exchange.Payment{Source: n.addrOf(m.pay.source).String(), SourceAmount: m.pay.srcAmt,
			Target: n.addrOf(m.pay.target).String(), TargetAmount: m.pay.tgtAmt, ExternalId: m.pay.extID}
		if m.kind == c08PayCreate {
			return &exchange.MsgCreatePaymentRequest{Payment: pm}
		}
		return &exchange.MsgAcceptPaymentRequest{Payment: pm}
	case c08Exec:
		var in []sdk.Msg
		for _, x := range m.inner {
			in = append(in, n.sdkMsg(x))
		}
		e := authz.NewMsgExec(n.addrOf(m.from), in)
		return &e
	default:
		rc := ""
		if m.recipient > 0 {
			rc = n.addrOf(m.recipient).String()
		}
		a := msgfeestypes.NewMsgAssessCustomMsgFeeRequest("verif", m.amount, rc, n.addrOf(m.from).String(), m.bips)
		return &a
	}
}

// routedTerms flattens a message into the messages the router sees, in execution order.
// grantee > 0: the message is dispatched by an authz MsgExec of that account.
func (n *c08Net) routedTerms(m c08Msg, grantee int) []string {
	if grantee > 0 && grantee != m.from && !(m.kind != c08Exec && n.authzOK[m.from-1][grantee-1]) {
		// no authorization: the dispatch fails before the message is routed
		return []string{fmt.Sprintf("(Rt %s None (ANop false) [])", c08N(m.kind))}
	}
	switch m.kind {
	case c08PayCreate, c08PayAccept:
		var mv []string
		if m.kind == c08PayAccept && m.payOK {
			// accepting swaps the two amounts (the hold on the source amount is released first)
			if !m.pay.srcAmt.IsZero() {
				mv = append(mv, fmt.Sprintf("(Build_move %s %s %s)", c08N(m.pay.source), c08N(m.pay.target), c08Coins(m.pay.srcAmt)))
			}
			if !m.pay.tgtAmt.IsZero() {
				mv = append(mv, fmt.Sprintf("(Build_move %s %s %s)", c08N(m.pay.target), c08N(m.pay.source), c08Coins(m.pay.tgtAmt)))
			}
		}
		return []string{fmt.Sprintf("(Rt %s None (AExt %s %s) %s)", c08N(m.kind), coqBool(m.payOK), coqList(mv), c08Coins(m.post))}
	case c08Send:
		return []string{fmt.Sprintf("(Rt %s None (ASend %s %s %s) [])", c08N(c08Send), c08N(m.from), c08N(m.to), c08Coins(m.coins))}
	case c08Exec:
		out := []string{fmt.Sprintf("(Rt %s None (ANop true) [])", c08N(c08Exec))}
		for _, x := range m.inner {
			out = append(out, n.routedTerms(x, m.from)...)
		}
		return out
	default:
		rc := "None"
		if m.recipient > 0 {
			rc = "(Some " + c08N(m.recipient) + ")"
		}
		bp := "None"
		if m.bips != "" {
			bp = "(Some " + m.bips + ")"
		}
		return []string{fmt.Sprintf("(Rt %s (Some (Cu %s %s %s)) (ANop true) [])", c08N(c08Assess), c08Coin(m.amount), rc, bp)}
	}
}

func (n *c08Net) tmsgTerm(m c08Msg) string {
	rs := n.routedTerms(m, 0)
	return fmt.Sprintf("(Tm %s %s)", rs[0], coqList(rs[1:]))
}

// charge list of a message tree (generator-side arithmetic, used only to aim the declared fee)
func c08Required(c *c08Config, msgs []c08Msg, nested bool) sdk.Coins {
	req := sdk.NewCoins()
	var walk func(m c08Msg)
	walk = func(m c08Msg) {
		if nested && m.payOK {
			req = req.Add(m.post...) // not visible to the mempool check
		}
		for _, e := range c.schedule {
			if e.kind == m.kind && e.coin.IsPositive() {
				req = req.Add(e.coin)
			}
		}
		if m.kind == c08Assess && m.amount.IsPositive() {
			switch m.amount.Denom {
			case msgfeestypes.UsdDenom:
				req = req.Add(sdk.NewCoin(c08Denoms[0], m.amount.Amount.Mul(sdkmath.NewIntFromUint64(c.perMil))))
			case c08Denoms[0]:
				req = req.Add(m.amount)
			}
		}
		if nested {
			for _, x := range m.inner {
				walk(x)
			}
		}
	}
	for _, m := range msgs {
		walk(m)
	}
	return req
}

// c08SameRecipientSources is the largest number of DIFFERENT fee sources (message-type fees by type,
// custom assessed fees) with a positive recipient share that name one and the same recipient in the
// transaction's message tree.
func c08SameRecipientSources(c *c08Config, msgs []c08Msg) int {
	src := map[int]map[string]bool{}
	add := func(rc int, key string) {
		if src[rc] == nil {
			src[rc] = map[string]bool{}
		}
		src[rc][key] = true
	}
	var walk func(m c08Msg)
	walk = func(m c08Msg) {
		for _, e := range c.schedule {
			if e.kind == m.kind && e.coin.IsPositive() && e.recipient > 0 && e.bips > 0 {
				add(e.recipient, fmt.Sprintf("type%d", e.kind))
			}
		}
		if m.kind == c08Assess && m.recipient > 0 && m.bips != "0" && m.amount.Denom != c08Denoms[1] {
			add(m.recipient, "custom")
		}
		for _, x := range m.inner {
			walk(x)
		}
	}
	for _, m := range msgs {
		walk(m)
	}
	best := 0
	for _, v := range src {
		if len(v) > best {
			best = len(v)
		}
	}
	return best
}

type c08Tx struct {
	fee     sdk.Coins
	gas     uint64
	payer   int
	granter int // 0 = none
	signers []int
	msgs    []c08Msg
	sigOK   bool
}

func (n *c08Net) sign(ctx sdk.Context, t *c08Tx, seqs [c08NAcc]uint64) ([]byte, error) {
	cfg := n.app.GetEncodingConfig().TxConfig
	b := cfg.NewTxBuilder()
	var msgs []sdk.Msg
	for _, m := range t.msgs {
		msgs = append(msgs, n.sdkMsg(m))
	}
	if err := b.SetMsgs(msgs...); err != nil {
		return nil, err
	}
	b.SetFeeAmount(t.fee)
	b.SetGasLimit(t.gas)
	if t.granter > 0 {
		b.SetFeeGranter(n.addrOf(t.granter))
	}
	mode := signing.SignMode(cfg.SignModeHandler().DefaultMode())
	sigs := make([]signing.SignatureV2, len(t.signers))
	nums := make([]uint64, len(t.signers))
	sq := make([]uint64, len(t.signers))
	for i, s := range t.signers {
		acc := n.app.AccountKeeper.GetAccount(ctx, n.addrOf(s))
		nums[i] = acc.GetAccountNumber()
		sq[i] = seqs[s-1]
		if !t.sigOK && i == 0 {
			sq[i] += 2 // signed for a sequence the account is not at
		}
		sigs[i] = signing.SignatureV2{PubKey: n.accts[s-1].priv.PubKey(), Data: &signing.SingleSignatureData{SignMode: mode}, Sequence: sq[i]}
	}
	if err := b.SetSignatures(sigs...); err != nil {
		return nil, err
	}
	for i, s := range t.signers {
		sd := authsigning.SignerData{Address: n.addrOf(s).String(), ChainID: c08Chain, AccountNumber: nums[i], Sequence: sq[i], PubKey: n.accts[s-1].priv.PubKey()}
		sig, err := tx.SignWithPrivKey(ctx, mode, sd, b, n.accts[s-1].priv, cfg, sq[i])
		if err != nil {
			return nil, err
		}
		sigs[i] = sig
	}
	if err := b.SetSignatures(sigs...); err != nil {
		return nil, err
	}
	return cfg.TxEncoder()(b.GetTx())
}

func (t *c08Tx) term(n *c08Net, gasOut string) string {
	gr := "None"
	if t.granter > 0 {
		gr = "(Some " + c08N(t.granter) + ")"
	}
	var sg, ms []string
	for _, s := range t.signers {
		sg = append(sg, c08N(s))
	}
	for _, m := range t.msgs {
		ms = append(ms, n.tmsgTerm(m))
	}
	return fmt.Sprintf("(Tx %s %d %s %s %s %s %s %s)", c08Coins(t.fee), t.gas, c08N(t.payer), gr, coqList(sg), coqList(ms), coqBool(t.sigOK), gasOut)
}

// ---------- generator ----------

type c08Gen struct {
	r   *rand.Rand
	n   *c08Net
	cfg *c08Config // configuration of the transaction being generated
}

func (g *c08Gen) otherThan(x int) int {
	for {
		y := 1 + g.r.Intn(c08NAcc)
		if y != x {
			return y
		}
	}
}

// sendCoins picks what a MsgSend of account `from` moves: mostly affordable, sometimes not.
func (g *c08Gen) sendCoins(st *c08State, from int, wantFail bool) sdk.Coins {
	r := g.r
	d := []int{2, 2, 2, 0, 1}[r.Intn(5)] // mostly the transfer denom; sometimes a fee denom
	bal := st.bal[from][d]
	var amt sdkmath.Int
	switch {
	case wantFail:
		amt = bal.AddRaw(int64(1 + r.Intn(3)))
	case d == 2 || r.Intn(2) == 0:
		amt = sdkmath.NewInt(int64(1 + r.Intn(1000)))
	default: // a large part of a fee denom: the sweep at the end may then fail
		amt = bal.QuoRaw(int64(1 + r.Intn(3))).AddRaw(1)
		if amt.GT(bal) {
			amt = bal
		}
	}
	if !amt.IsPositive() {
		amt = sdkmath.OneInt()
	}
	return sdk.NewCoins(sdk.NewCoin(c08Denoms[d], amt))
}

func (g *c08Gen) genAssess(from int) c08Msg {
	r := g.r
	m := c08Msg{kind: c08Assess, from: from}
	amt := []int64{1, 3, 10, 101, 1000, 99999}[r.Intn(6)]
	switch r.Intn(10) {
	case 0, 1, 2, 3:
		m.amount = sdk.NewInt64Coin(msgfeestypes.UsdDenom, amt)
	case 4:
		m.amount = sdk.NewInt64Coin(c08Denoms[1], amt) // not convertible: the fee calculation fails
	default:
		m.amount = sdk.NewInt64Coin(c08Denoms[0], amt)
	}
	if g.cfg != nil && g.cfg.shared > 0 && r.Intn(4) != 0 {
		// the custom fee names the recipient the message-type fees of this configuration name
		m.recipient = g.cfg.shared
		if m.amount.Denom == c08Denoms[1] {
			m.amount = sdk.NewInt64Coin(c08Denoms[0], amt)
		}
		switch r.Intn(3) {
		case 0:
			m.bips = ""
		case 1:
			m.bips = strconv.Itoa(1 + r.Intn(10000))
		default:
			m.bips = strconv.Itoa(int([]uint32{1, 2500, 3333, 5000, 9999, 10000}[r.Intn(6)]))
		}
	} else if r.Intn(3) != 0 {
		m.recipient = 1 + r.Intn(c08NAcc)
		switch r.Intn(4) {
		case 0:
			m.bips = ""
		case 1:
			m.bips = strconv.Itoa(r.Intn(10001))
		default:
			m.bips = strconv.Itoa(int(c08Bips[r.Intn(len(c08Bips))]))
		}
	}
	return m
}

func (g *c08Gen) genMsg(st *c08State, signer int, depth int, failShare int) c08Msg {
	r := g.r
	k := r.Intn(10)
	switch {
	case k < 5 || depth >= 3 && k < 8:
		return c08Msg{kind: c08Send, from: signer, to: g.otherThan(signer), coins: g.sendCoins(st, signer, r.Intn(100) < failShare)}
	case k < 8:
		m := c08Msg{kind: c08Exec, from: signer}
		for i := 0; i < 1+r.Intn(2); i++ {
			from := signer
			if r.Intn(3) == 0 {
				from = g.otherThan(signer) // needs an authorization; some pairs have none
			}
			in := g.genMsg(st, from, depth+1, failShare)
			if in.kind == c08Exec && from != signer {
				in.from = signer
			}
			m.inner = append(m.inner, in)
		}
		return m
	default:
		return g.genAssess(signer)
	}
}

func c08Signers(msgs []c08Msg) []int {
	var out []int
	seen := map[int]bool{}
	for _, m := range msgs {
		if !seen[m.from] {
			seen[m.from] = true
			out = append(out, m.from)
		}
	}
	return out
}

var c08GasChoices = []uint64{300_000, 400_000, 500_000, 1_000_000, 2_000_000, 3_999_999, 4_000_000}

type c08Plan struct {
	cfg      *c08Config
	tx       *c08Tx
	setBal   [][3]any // id, denom index, amount
	setAllow []struct {
		g, p int
		a    c08Allow
	}
	feeMode, balMode, grantMode, gasMode, bodyMode string
	payWork map[string]c08Payment // the open payments if this transaction succeeds
}

func (g *c08Gen) plan(st *c08State) *c08Plan {
	r := g.r
	p := &c08Plan{cfg: c08GenConfig(r)}
	t := &c08Tx{sigOK: true}
	p.tx = t
	t.payer = 1 + r.Intn(c08NAcc)
	g.cfg = p.cfg
	failShare := 8
	if r.Intn(10) < 3 {
		// x/exchange payments: the handler records a flat fee on the fee gas meter after it succeeded
		// a good share: nothing but the handler's own fee is due beyond the base fee, and the declared
		// fee is exactly the base fee - the sweep has nothing left and only the final subtraction
		// in DeductFeesDistributions stands between the payer and an undeclared charge
		exactBase := r.Intn(100) < 40
		if exactBase {
			p.cfg.schedule = nil
			if p.cfg.payCreate.IsZero() {
				p.cfg.payCreate = sdk.Coins{sdk.NewInt64Coin(c08Denoms[0], int64(1+r.Intn(100_000)))}
			}
			if p.cfg.payAccept.IsZero() {
				p.cfg.payAccept = sdk.Coins{sdk.NewInt64Coin(c08Denoms[0], int64(1+r.Intn(100_000)))}
			}
		}
		work := map[string]c08Payment{}
		var keys []string
		for k, v := range g.n.payments {
			work[k] = v
			keys = append(keys, k)
		}
		sort.Strings(keys)
		amt := func(zeroShare int) sdk.Coins {
			if r.Intn(100) < zeroShare {
				return nil
			}
			return sdk.NewCoins(sdk.NewInt64Coin(c08Denoms[3], int64(1+r.Intn(500))))
		}
		mkCreate := func(source int) c08Msg {
			pay := c08Payment{source: source, target: g.otherThan(source), srcAmt: amt(10), tgtAmt: amt(40)}
			if pay.srcAmt.IsZero() && pay.tgtAmt.IsZero() {
				pay.srcAmt = sdk.NewCoins(sdk.NewInt64Coin(c08Denoms[3], 7))
			}
			g.n.payCount++
			pay.extID = fmt.Sprintf("p%d", g.n.payCount)
			if len(keys) > 0 && r.Intn(12) == 0 { // an external id the source already uses: the handler fails
				if ex := work[keys[r.Intn(len(keys))]]; ex.source == source {
					pay.extID = ex.extID
				}
			}
			m := c08Msg{kind: c08PayCreate, from: source, pay: pay}
			if _, dup := work[pay.key()]; !dup {
				m.payOK = true
				work[pay.key()] = pay
				if !pay.srcAmt.IsZero() {
					m.post = p.cfg.payCreate
				}
			}
			return m
		}
		if len(keys) > 0 && r.Intn(2) == 0 {
			pay := work[keys[r.Intn(len(keys))]]
			t.payer = pay.target
			m := c08Msg{kind: c08PayAccept, from: pay.target, pay: pay, payOK: true}
			if r.Intn(10) == 0 { // not the payment that is in state
				m.pay.tgtAmt = m.pay.tgtAmt.Add(sdk.NewInt64Coin(c08Denoms[3], 1))
				m.payOK = false
			} else {
				delete(work, pay.key())
				if !pay.tgtAmt.IsZero() {
					m.post = p.cfg.payAccept
				}
			}
			t.msgs = append(t.msgs, m)
		} else {
			t.msgs = append(t.msgs, mkCreate(t.payer))
		}
		extra := r.Intn(5)
		if exactBase && extra == 2 {
			extra = 1
		}
		switch extra {
		case 0:
			t.msgs = append(t.msgs, mkCreate(t.payer))
		case 1:
			t.msgs = append(t.msgs, c08Msg{kind: c08Send, from: t.payer, to: g.otherThan(t.payer), coins: g.sendCoins(st, t.payer, false)})
		case 2:
			t.msgs = append(t.msgs, g.genAssess(t.payer))
		}
		p.payWork = work
		p.bodyMode = "exchange-payment"
		if exactBase {
			p.bodyMode = "exchange-payment-only-handler-fee"
		}
	} else if p.cfg.shared > 0 && r.Intn(3) != 0 {
		// 2-3 messages of DIFFERENT fee-bearing types: a send, a custom assessed fee, an exec wrapping either
		failShare = 3
		kinds := []int{c08Send, c08Assess, c08Exec}
		r.Shuffle(len(kinds), func(i, j int) { kinds[i], kinds[j] = kinds[j], kinds[i] })
		for _, k := range kinds[:2+r.Intn(2)] {
			switch k {
			case c08Send:
				t.msgs = append(t.msgs, c08Msg{kind: c08Send, from: t.payer, to: g.otherThan(t.payer), coins: g.sendCoins(st, t.payer, r.Intn(100) < failShare)})
			case c08Assess:
				t.msgs = append(t.msgs, g.genAssess(t.payer))
			default:
				m := c08Msg{kind: c08Exec, from: t.payer}
				if r.Intn(2) == 0 {
					m.inner = append(m.inner, g.genAssess(t.payer))
				} else {
					m.inner = append(m.inner, c08Msg{kind: c08Send, from: t.payer, to: g.otherThan(t.payer), coins: g.sendCoins(st, t.payer, false)})
				}
				t.msgs = append(t.msgs, m)
			}
		}
		p.bodyMode = "different-fee-types"
	} else {
		nm := 1 + r.Intn(3)
		for i := 0; i < nm; i++ {
			signer := t.payer
			if i > 0 && r.Intn(5) == 0 {
				signer = g.otherThan(t.payer)
			}
			t.msgs = append(t.msgs, g.genMsg(st, signer, 1, failShare))
		}
		p.bodyMode = "random"
	}
	t.signers = c08Signers(t.msgs)
	if r.Intn(40) == 0 {
		t.sigOK = false
	}

	// gas
	switch k := r.Intn(100); {
	case k < 89:
		t.gas = c08GasChoices[r.Intn(len(c08GasChoices))]
		p.gasMode = "ample"
	case k < 96:
		t.gas = uint64(20_000 + r.Intn(150_000))
		p.gasMode = "low"
	case k < 97:
		t.gas = 0
		p.gasMode = "zero"
	default:
		t.gas = 4_000_001 + uint64(r.Intn(3))*1_000_000
		p.gasMode = "above-limit"
	}

	// declared fee relative to what is required
	base := sdk.NewCoins()
	if p.cfg.floor.Amount.IsPositive() && t.gas > 0 {
		base = sdk.NewCoins(sdk.NewCoin(p.cfg.floor.Denom, p.cfg.floor.Amount.Mul(sdkmath.NewIntFromUint64(t.gas))))
	}
	reqAll := base.Add(c08Required(p.cfg, t.msgs, true)...)
	reqTop := base.Add(c08Required(p.cfg, t.msgs, false)...)
	minusOne := func(c sdk.Coins) sdk.Coins {
		if len(c) == 0 {
			return c
		}
		x := c[r.Intn(len(c))]
		return c.Sub(sdk.NewCoin(x.Denom, sdkmath.OneInt()))
	}
	switch k := r.Intn(100); {
	case k < 42:
		t.fee, p.feeMode = reqAll, "exact"
	case k < 62:
		t.fee, p.feeMode = reqAll.Add(sdk.NewInt64Coin(c08Denoms[r.Intn(2)], int64(1+r.Intn(5000)))), "above"
	case k < 70:
		t.fee, p.feeMode = reqAll.Add(sdk.NewInt64Coin(c08Denoms[2], int64(1+r.Intn(50)))), "above-extra-denom"
	case k < 79:
		t.fee, p.feeMode = reqTop, "top-level-only"
	case k < 85:
		t.fee, p.feeMode = minusOne(reqAll), "one-below"
	case k < 89:
		t.fee, p.feeMode = minusOne(reqTop), "one-below-top-level"
	case k < 93:
		t.fee, p.feeMode = base, "base-only"
	case k < 95:
		t.fee, p.feeMode = minusOne(base), "below-base"
	case k < 96:
		t.fee, p.feeMode = sdk.NewCoins(), "none"
	default: // only the first denom of what is required
		if len(reqAll) > 0 {
			t.fee = sdk.NewCoins(reqAll[0])
		}
		p.feeMode = "first-denom-only"
	}

	if p.bodyMode == "exchange-payment-only-handler-fee" {
		switch k := r.Intn(100); {
		case k < 70:
			t.fee, p.feeMode = base, "exactly-base"
		case k < 85:
			t.fee, p.feeMode = reqAll, "exact"
		default:
			t.fee, p.feeMode = minusOne(reqAll), "one-below"
		}
	}
	if p.bodyMode == "exchange-payment" {
		handler := reqAll.Sub(reqTop...) // what the handlers will record themselves
		switch k := r.Intn(100); {
		case k < 30:
			t.fee, p.feeMode = reqAll, "exact"
		case k < 55:
			t.fee, p.feeMode = reqTop, "without-handler-fee"
		case k < 75:
			part := sdk.NewCoins()
			for _, c := range handler {
				part = part.Add(sdk.NewCoin(c.Denom, c.Amount.QuoRaw(2)))
			}
			t.fee, p.feeMode = reqTop.Add(part...), "handler-fee-partly"
		case k < 85:
			t.fee, p.feeMode = minusOne(reqAll), "one-below"
		}
	}

	// fee grant
	src := t.payer
	if r.Intn(100) < 28 {
		t.granter = g.otherThan(t.payer)
		if r.Intn(25) == 0 {
			t.granter = t.payer // granter = payer: the grant is not consulted
		} else {
			src = t.granter
		}
		a := c08Allow{present: true}
		lim := func(c sdk.Coins) { a.limit = c; a.present = !c.IsZero() }
		switch k := r.Intn(12); k {
		case 0:
			a.present, p.grantMode = false, "no-grant"
		case 1, 2:
			a.unlimited, p.grantMode = true, "unlimited"
		case 3, 4:
			lim(t.fee)
			p.grantMode = "limit=declared"
		case 5:
			lim(minusOne(t.fee))
			p.grantMode = "limit=declared-1"
		case 6:
			lim(base)
			p.grantMode = "limit=base"
		case 7:
			lim(minusOne(base))
			p.grantMode = "limit=base-1"
		case 8:
			lim(t.fee.Add(sdk.NewInt64Coin(c08Denoms[0], 1)))
			p.grantMode = "limit=declared+1"
		default:
			lim(t.fee.Add(sdk.NewCoins(sdk.NewInt64Coin(c08Denoms[0], 1_000_000_000), sdk.NewInt64Coin(c08Denoms[1], 1_000_000))...))
			p.grantMode = "limit=ample"
		}
		if t.granter != t.payer {
			p.setAllow = append(p.setAllow, struct {
				g, p int
				a    c08Allow
			}{t.granter, t.payer, a})
		}
	} else {
		p.grantMode = "none"
	}

	// balance of the account that pays
	p.balMode = "ample"
	if r.Intn(100) < 30 {
		d := r.Intn(2)
		dn := c08Denoms[d]
		var v sdkmath.Int
		switch r.Intn(7) {
		case 0:
			v, p.balMode = t.fee.AmountOf(dn), "=declared"
		case 1:
			v, p.balMode = t.fee.AmountOf(dn).SubRaw(1), "declared-1"
		case 2:
			v, p.balMode = base.AmountOf(dn), "=base"
		case 3:
			v, p.balMode = base.AmountOf(dn).SubRaw(1), "base-1"
		case 4:
			v, p.balMode = reqTop.AmountOf(dn).Sub(base.AmountOf(dn)), "=additional"
		case 5:
			v, p.balMode = t.fee.AmountOf(dn).AddRaw(int64(r.Intn(2000))), "declared+small"
		default:
			v, p.balMode = sdkmath.ZeroInt(), "zero"
		}
		if v.IsNegative() {
			v = sdkmath.ZeroInt()
		}
		p.setBal = append(p.setBal, [3]any{src, d, v})
	}
	return p
}

func TestC08(t *testing.T) {
	r := newRand("C08")
	w := NewCaseWriter("C08", "PV.Corr.C08", "check_all", 25)
	n := c08NewNet(t)
	g := &c08Gen{r: r, n: n}
	nHist := scale(10, 500)
	perHist := scale(15, 20)
	type desc map[string]any

	ample := [c08NDen]sdkmath.Int{sdkmath.NewInt(1_000_000_000_000_000), sdkmath.NewInt(1_000_000_000), sdkmath.NewInt(1_000_000_000), sdkmath.NewInt(1_000_000_000)}
	var accts, denoms []string
	for a := 0; a <= c08NAcc; a++ {
		accts = append(accts, c08N(a))
	}
	for d := 1; d <= c08NDen; d++ {
		denoms = append(denoms, c08N(d))
	}
	var gasUsedMin, gasUsedMax int64
	ntTx := map[string]struct{}{} // distinct non-trivial transactions (with their configuration)

	for h := 0; h < nHist; h++ {
		// history start: clean fee allowances, ample balances; the starting state is observed
		ctx := n.ctx()
		for i := 1; i <= c08NAcc; i++ {
			for j := 1; j <= c08NAcc; j++ {
				if i != j {
					n.setAllow(ctx, i, j, c08Allow{})
				}
			}
			for d := 0; d < c08NDen; d++ {
				n.setBal(ctx, i, c08Denoms[d], ample[d])
			}
		}
		st := n.observe(ctx)
		init := st
		var steps []string
		var sdesc []desc
		touched := map[[2]int]bool{}
		var pairs [][2]int
		touch := func(gp [2]int) {
			if !touched[gp] {
				touched[gp] = true
				pairs = append(pairs, gp)
			}
		}
		type pend struct {
			pre, tx string
			post    *c08State
			adm, ok bool
		}
		var pends []pend
		histNontrivial := false
		for s := 0; s < perHist; s++ {
			p := g.plan(st)
			// accounts run dry as the history goes on (sends, earlier balance settings): most of the
			// time the faucet refills them, so that rejections for lack of funds stay a minority
			for id := 1; id <= c08NAcc; id++ {
				for d := 0; d < c08NDen; d++ {
					planned := false
					for _, sb := range p.setBal {
						planned = planned || (sb[0].(int) == id && sb[1].(int) == d)
					}
					if !planned && st.bal[id][d].LT(ample[d].QuoRaw(1000)) && r.Intn(6) != 0 {
						n.setBal(ctx, id, c08Denoms[d], ample[d])
						steps = append(steps, fmt.Sprintf("HSetBal %s %s %s", c08N(id), c08N(d+1), zInt(ample[d])))
						pends = append(pends, pend{})
						w.Count("faucet-refill")
					}
				}
			}
			// the harness' own state changes for this step, then commit them with the configuration
			for _, sb := range p.setBal {
				id, d, v := sb[0].(int), sb[1].(int), sb[2].(sdkmath.Int)
				// restore the account to ample funds afterwards? no: balances evolve with the history
				n.setBal(ctx, id, c08Denoms[d], v)
				steps = append(steps, fmt.Sprintf("HSetBal %s %s %s", c08N(id), c08N(d+1), zInt(v)))
				pends = append(pends, pend{})
			}
			for _, sa := range p.setAllow {
				n.setAllow(ctx, sa.g, sa.p, sa.a)
				touch([2]int{sa.g, sa.p})
				steps = append(steps, fmt.Sprintf("HSetAllow %s %s %s", c08N(sa.g), c08N(sa.p), c08AllowTerm(sa.a)))
				pends = append(pends, pend{})
			}
			n.applyConfig(ctx, p.cfg)
			cur := n.observe(ctx)
			bz, err := n.sign(ctx, p.tx, cur.seq)
			if err != nil {
				t.Fatalf("sign: %v", err)
			}
			n.commit(ctx)

			admitted, chkCode, ok, delCode, gasUsed := n.offer(bz)
			ctx = n.ctx()
			post := n.observe(ctx)
			gasOut := "GasOk"
			if !admitted && chkCode == 11 {
				gasOut = "GasAnte"
			}
			if admitted && !ok && delCode == 11 {
				gasOut = "GasMsgs"
			}
			// any allowance that exists without having been set in this history must be compared too
			for i := 1; i <= c08NAcc; i++ {
				for j := 1; j <= c08NAcc; j++ {
					if post.allow[i-1][j-1].present {
						touch([2]int{i, j})
					}
				}
			}
			if p.tx.granter > 0 && p.tx.granter != p.tx.payer {
				touch([2]int{p.tx.granter, p.tx.payer})
			}
			steps = append(steps, "")
			pends = append(pends, pend{pre: p.cfg.term(), tx: p.tx.term(n, gasOut), post: post, adm: admitted, ok: ok})

			outcome := "rejected"
			if admitted {
				outcome = "failed"
				if ok {
					outcome = "ok"
				}
				if gasUsedMin == 0 || gasUsed < gasUsedMin {
					gasUsedMin = gasUsed
				}
				if gasUsed > gasUsedMax {
					gasUsedMax = gasUsed
				}
			}
			w.Count("tx")
			w.Count("outcome:" + outcome)
			w.Count("fee:" + p.feeMode + ":" + outcome)
			w.Count("grant:" + p.grantMode + ":" + outcome)
			w.Count("balance:" + p.balMode + ":" + outcome)
			w.Count("gas:" + p.gasMode + ":" + outcome)
			if gasOut != "GasOk" {
				w.Count("out-of-gas:" + gasOut)
			}
			if !admitted {
				w.Count(fmt.Sprintf("check-code:%d", chkCode))
			} else if !ok {
				w.Count(fmt.Sprintf("deliver-code:%d", delCode))
			}
			nRouted := 0
			hasNested := false
			for _, m := range p.tx.msgs {
				rs := n.routedTerms(m, 0)
				nRouted += len(rs)
				if len(rs) > 1 {
					hasNested = true
				}
			}
			w.Count(fmt.Sprintf("routed-messages:%d", nRouted))
			if hasNested {
				w.Count("with-nested:" + outcome)
			}
			if k := c08SameRecipientSources(p.cfg, p.tx.msgs); k >= 2 {
				w.Count("same-recipient-from-2+-fee-sources:" + outcome)
			}
			w.Count("body:" + p.bodyMode + ":" + outcome)
			addl := c08Required(p.cfg, p.tx.msgs, true)
			if !addl.IsZero() {
				w.Count("with-additional-fee:" + outcome)
			}
			if len(addl) > 1 || (len(addl) == 1 && !p.cfg.floor.Amount.IsZero() && addl[0].Denom != p.cfg.floor.Denom) {
				w.Count("fee-in-two-denoms:" + outcome)
			}
			if len(p.tx.signers) > 1 {
				w.Count("multi-signer:" + outcome)
			}
			if admitted && (!addl.IsZero() || !ok || p.tx.granter > 0) {
				ntTx[p.cfg.term()+p.tx.term(n, gasOut)] = struct{}{}
				histNontrivial = true
			}
			sdesc = append(sdesc, desc{"fee": p.tx.fee.String(), "gas": p.tx.gas, "payer": p.tx.payer, "granter": p.tx.granter,
				"msgs": len(p.tx.msgs), "routed": nRouted, "fee_mode": p.feeMode, "grant_mode": p.grantMode, "balance_mode": p.balMode,
				"gas_mode": p.gasMode, "floor": p.cfg.floor.String(), "schedule": len(p.cfg.schedule), "outcome": outcome,
				"check_code": chkCode, "deliver_code": delCode})
			if ok && p.payWork != nil {
				n.payments = p.payWork
			}
			st = post
		}
		sort.Slice(pairs, func(i, j int) bool {
			if pairs[i][0] != pairs[j][0] {
				return pairs[i][0] < pairs[j][0]
			}
			return pairs[i][1] < pairs[j][1]
		})
		var pt []string
		for _, gp := range pairs {
			pt = append(pt, fmt.Sprintf("(%s, %s)", c08N(gp[0]), c08N(gp[1])))
		}
		for i := range steps {
			if steps[i] == "" {
				pd := pends[i]
				steps[i] = fmt.Sprintf("HTx %s %s (Ob %s %s %s %s %s)", pd.pre, pd.tx, coqBool(pd.adm), coqBool(pd.ok),
					pd.post.balTerm(), pd.post.seqTerm(), pd.post.allowTerm(pairs))
			}
		}
		term := fmt.Sprintf("CHist %s %s %s\n    %s\n    %s\n    %s\n    [%s]",
			coqList(accts), coqList(denoms), coqList(pt), init.balTerm(), init.seqTerm(), init.allowTerm(pairs),
			strings.Join(steps, ";\n     "))
		w.Add(term, desc{"history": h, "steps": sdesc})
		if histNontrivial {
			w.Nontrivial(term) // a history counts once; the transaction-level number is a separate statistic
		}
		w.Count("histories")
	}
	w.Stats["distinct_nontrivial_transactions"] = int64(len(ntTx))
	w.Stats["gas_used_min"] = gasUsedMin
	w.Stats["gas_used_max"] = gasUsedMax
	_ = big.NewInt
	w.Flush(t)
}
