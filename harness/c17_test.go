//go:build c17

package harness

import (
	"fmt"
	"math/rand"
	"os"
	"sort"
	"strconv"
	"strings"
	"testing"
	"time"

	abci "github.com/cometbft/cometbft/abci/types"
	cmtproto "github.com/cometbft/cometbft/proto/tendermint/types"

	sdkmath "cosmossdk.io/math"
	storetypes "cosmossdk.io/store/types"

	"github.com/cosmos/cosmos-sdk/client/tx"
	codectypes "github.com/cosmos/cosmos-sdk/codec/types"
	"github.com/cosmos/cosmos-sdk/crypto/keys/secp256k1"
	cryptotypes "github.com/cosmos/cosmos-sdk/crypto/types"
	sdk "github.com/cosmos/cosmos-sdk/types"
	sdktx "github.com/cosmos/cosmos-sdk/types/tx"
	"github.com/cosmos/cosmos-sdk/types/tx/signing"
	authsigning "github.com/cosmos/cosmos-sdk/x/auth/signing"
	authtypes "github.com/cosmos/cosmos-sdk/x/auth/types"
	banktypes "github.com/cosmos/cosmos-sdk/x/bank/types"

	simapp "github.com/provenance-io/provenance/app"
	"github.com/provenance-io/provenance/internal/pioconfig"
	triggertypes "github.com/provenance-io/provenance/x/trigger/types"
)

// ---------- a real chain driven block by block through FinalizeBlock/Commit ----------

const (
	c17Chain   = "verif-c17"
	c17TrigDen = "trigcoin" // only trigger actions and TSend txs move this denom
	c17EvtDen  = "evtcoin"  // moved by the event-emitting transactions
)

type c17Acct struct {
	priv cryptotypes.PrivKey
	addr sdk.AccAddress
}

type c17Net struct {
	t           *testing.T
	app         *simapp.App
	accts       []c17Acct
	height      int64
	now         time.Time
	pendingSeq  map[int]uint64
	lastSigners []int
	haltErr     error
}

func c17NewNet(t *testing.T, nAcc int, trigBal []int64) *c17Net {
	pioconfig.SetProvenanceConfig(sdk.DefaultBondDenom, 1)
	n := &c17Net{t: t}
	var gen []authtypes.GenesisAccount
	var bals []banktypes.Balance
	for i := 0; i < nAcc; i++ {
		priv := secp256k1.GenPrivKeyFromSecret([]byte(fmt.Sprintf("verif-c17-key-%d", i)))
		a := c17Acct{priv: priv, addr: sdk.AccAddress(priv.PubKey().Address())}
		n.accts = append(n.accts, a)
		gen = append(gen, authtypes.NewBaseAccount(a.addr, priv.PubKey(), uint64(i), 0))
		coins := sdk.NewCoins(sdk.NewInt64Coin(sdk.DefaultBondDenom, 1_000_000_000_000), sdk.NewInt64Coin(c17EvtDen, 1_000_000_000))
		if i < len(trigBal) && trigBal[i] > 0 {
			coins = coins.Add(sdk.NewInt64Coin(c17TrigDen, trigBal[i]))
		}
		bals = append(bals, banktypes.Balance{Address: a.addr.String(), Coins: coins})
	}
	n.app = simapp.SetupWithGenesisAccounts(t, c17Chain, gen, bals...)
	if _, err := n.app.Commit(); err != nil {
		t.Fatalf("commit: %v", err)
	}
	n.height = n.app.LastBlockHeight()
	n.now = time.Unix(1_700_000_000, 0).UTC()
	n.pendingSeq = map[int]uint64{}
	return n
}

// queryCtx is a read-only view of the last committed state.
func (n *c17Net) queryCtx() sdk.Context {
	return n.app.BaseApp.NewUncachedContext(false, cmtproto.Header{ChainID: c17Chain, Height: n.height, Time: n.now})
}

// signTx builds a transaction with msgs, signed by exactly the given accounts (in that order).
func (n *c17Net) signTx(gas uint64, signers []int, msgs ...sdk.Msg) ([]byte, error) {
	n.lastSigners = signers
	ctx := n.queryCtx()
	cfg := n.app.GetEncodingConfig().TxConfig
	b := cfg.NewTxBuilder()
	b.SetFeeAmount(sdk.NewCoins(sdk.NewInt64Coin(sdk.DefaultBondDenom, int64(gas))))
	b.SetGasLimit(gas)
	if err := b.SetMsgs(msgs...); err != nil {
		return nil, err
	}
	mode := signing.SignMode(cfg.SignModeHandler().DefaultMode())
	type sinfo struct {
		num, seq uint64
	}
	infos := make([]sinfo, len(signers))
	sigs := make([]signing.SignatureV2, len(signers))
	for i, s := range signers {
		acc := n.app.AccountKeeper.GetAccount(ctx, n.accts[s].addr)
		if acc == nil {
			return nil, fmt.Errorf("no account %d", s)
		}
		infos[i] = sinfo{acc.GetAccountNumber(), acc.GetSequence() + n.pendingSeq[s]}
		sigs[i] = signing.SignatureV2{PubKey: n.accts[s].priv.PubKey(),
			Data: &signing.SingleSignatureData{SignMode: mode}, Sequence: infos[i].seq}
	}
	if err := b.SetSignatures(sigs...); err != nil {
		return nil, err
	}
	for i, s := range signers {
		sd := authsigning.SignerData{Address: n.accts[s].addr.String(), ChainID: c17Chain,
			AccountNumber: infos[i].num, Sequence: infos[i].seq, PubKey: n.accts[s].priv.PubKey()}
		sig, err := tx.SignWithPrivKey(ctx, mode, sd, b, n.accts[s].priv, cfg, infos[i].seq)
		if err != nil {
			return nil, err
		}
		sigs[i] = sig
	}
	if err := b.SetSignatures(sigs...); err != nil {
		return nil, err
	}
	return cfg.TxEncoder()(b.GetTx())
}

// block runs one block at the given time with the given transactions and commits it.
func (n *c17Net) block(at time.Time, txs [][]byte) *abci.ResponseFinalizeBlock {
	n.height++
	n.now = at
	var res *abci.ResponseFinalizeBlock
	err := try(func() error {
		var e error
		res, e = n.app.FinalizeBlock(&abci.RequestFinalizeBlock{Height: n.height, Time: at, Txs: txs})
		return e
	})
	if err != nil {
		n.haltErr = err // a begin/end blocker failed: the chain cannot go on
		return nil
	}
	if _, err := n.app.Commit(); err != nil {
		n.t.Fatalf("Commit(%d): %v", n.height, err)
	}
	n.pendingSeq = map[int]uint64{}
	return res
}

// ---------- history generator ----------

type c17Action struct {
	from, to int
	amt      int64
}

type c17Trig struct {
	id    uint64
	owner int
}

type c17Plan struct {
	kind   string // create | destroy | tsend | emit
	bz     []byte
	gas    uint64
	coqPre string // Coq term of the tx up to (not including) the trailing `used` of a create
	desc   string
	shape  string
	lowGas bool
	nActs  int
	band   string
	noAnte bool // fails in ValidateBasic or in the ante handler: sequences do not advance
}

type c17Gen struct {
	t      *testing.T
	r      *rand.Rand
	w      *CaseWriter
	n      *c17Net
	nAcc   int
	intern map[string]int
	reg    []c17Trig // last observation
	queue  []c17Trig
	maxID  uint64
	burstH uint64
	burstT int64       // unix nanoseconds
	times  []time.Time // the block times of the whole history, planned up front (with sub-second parts)
	bi     int         // index of the block being planned
	style  int
	limits map[uint64]uint64 // gas limits seen at the last observation
	nActs  map[uint64]int    // number of actions per created trigger
	cal    *c17Cal
	band   map[uint64]string // precise-gas triggers: "n=2,k=1" (limit between k and k+1 times one send)
}

func (g *c17Gen) sym(s string) string {
	if s == "" {
		return "0"
	}
	v, ok := g.intern[s]
	if !ok {
		v = len(g.intern) + 1
		g.intern[s] = v
	}
	return strconv.Itoa(v)
}

func (g *c17Gen) addrStr(i int) string { return g.n.accts[i].addr.String() }

func c17NList(xs []int) string {
	items := make([]string, len(xs))
	for i, x := range xs {
		items[i] = strconv.Itoa(x)
	}
	return coqList(items)
}

var c17EventTypes = map[string]bool{"coin_received": true, "coin_spent": true, "transfer": true, "message": true}

// c17Cal is measured once per run on the binary under test.
type c17Cal struct {
	cMin, cTyp uint64    // gas of one successful bank send through the router's handler: least over state shapes, typical
	used       [4]uint64 // gas a precise-shape creation with n actions has consumed when the limit is computed
}

// c17Calibrate measures (a) what one bank-send action costs when run the way the dispatcher runs it (the
// router's handler on a context with its own gas meter) for the state shapes that change the cost
// (receiver without balance, sender left without balance, self send, longer amounts), (b) the overhead of
// the precise-shape creation, and (c) cross-checks (a) with real one-action triggers around the cost.
func c17Calibrate(t *testing.T, w *CaseWriter) *c17Cal {
	n := c17NewNet(t, 5, []int64{100000, 100000, 0, 50, 0})
	cal := &c17Cal{}
	measure := func(from, to int, amt int64) uint64 {
		ctx, _ := n.queryCtx().CacheContext()
		ctx = ctx.WithGasMeter(storetypes.NewGasMeter(10_000_000))
		msg := banktypes.NewMsgSend(n.accts[from].addr, n.accts[to].addr, sdk.NewCoins(sdk.NewInt64Coin(c17TrigDen, amt)))
		if _, err := n.app.MsgServiceRouter().Handler(msg)(ctx, msg); err != nil {
			t.Fatalf("calibration send: %v", err)
		}
		return ctx.GasMeter().GasConsumed()
	}
	cal.cTyp = measure(0, 1, 7)
	cal.cMin = cal.cTyp
	for _, sh := range [][3]int64{{0, 1, 7}, {0, 2, 7}, {3, 1, 50}, {3, 2, 50}, {0, 0, 7}, {3, 3, 50}, {0, 1, 99999}, {3, 4, 1}, {0, 1, 1}} {
		if c := measure(int(sh[0]), int(sh[1]), sh[2]); c < cal.cMin {
			cal.cMin = c
		}
	}
	mk := func(na int, gas uint64) []byte {
		var msgs []sdk.Msg
		for i := 0; i < na; i++ {
			msgs = append(msgs, banktypes.NewMsgSend(n.accts[0].addr, n.accts[1].addr, sdk.NewCoins(sdk.NewInt64Coin(c17TrigDen, 7))))
		}
		m := triggertypes.MustNewCreateTriggerRequest([]string{n.accts[0].addr.String()}, &triggertypes.BlockHeightEvent{BlockHeight: uint64(n.height + 3)}, msgs)
		bz, err := n.signTx(gas, []int{0}, m)
		if err != nil {
			t.Fatal(err)
		}
		n.pendingSeq[0]++
		return bz
	}
	limits := func() map[uint64]uint64 {
		out := map[uint64]uint64{}
		gls, err := n.app.TriggerKeeper.GetAllGasLimits(n.queryCtx())
		if err != nil {
			t.Fatal(err)
		}
		for _, gl := range gls {
			out[gl.TriggerId] = gl.Amount
		}
		return out
	}
	res := n.block(n.now.Add(5*time.Second), [][]byte{mk(1, 400000), mk(2, 400000), mk(3, 400000)})
	if res == nil {
		t.Fatalf("calibration block: %v", n.haltErr)
	}
	lim := limits()
	for na := 1; na <= 3; na++ {
		if res.TxResults[na-1].Code != 0 || lim[uint64(na)] == 0 {
			t.Fatalf("calibration create %d: %s", na, res.TxResults[na-1].Log)
		}
		cal.used[na] = 400000 - 2510 - lim[uint64(na)]
	}
	// cross-check with real triggers: one action, limits just below / above the typical cost
	offs := []int64{-400, -150, 150, 400}
	var txs [][]byte
	for _, d := range offs {
		txs = append(txs, mk(1, cal.used[1]+2510+uint64(int64(cal.cTyp)+d)))
	}
	if res = n.block(n.now.Add(5*time.Second), txs); res == nil {
		t.Fatalf("calibration block: %v", n.haltErr)
	}
	lim = limits()
	okByID := map[uint64]bool{}
	for i := 0; i < 6; i++ {
		if res = n.block(n.now.Add(5*time.Second), nil); res == nil {
			t.Fatalf("calibration block: %v", n.haltErr)
		}
		for _, e := range res.Events {
			if e.Type == "provenance.trigger.v1.EventTriggerExecuted" {
				idq, _ := c17Attr(e, "trigger_id")
				id, _ := strconv.ParseUint(strings.Trim(idq, "\""), 10, 64)
				okS, _ := c17Attr(e, "success")
				okByID[id] = okS == "true"
			}
		}
	}
	for i := range offs {
		id := uint64(4 + i)
		ok, seen := okByID[id]
		if !seen {
			w.Count("calibration_trigger_not_executed")
			continue
		}
		if ok != (lim[id] >= cal.cTyp) {
			w.Count("calibration_cross_check_disagrees") // the handler measurement does not predict the trigger outcome
		} else {
			w.Count("calibration_cross_check_agrees")
		}
	}
	w.CountN("calibrated_send_gas_min", int64(cal.cMin))
	w.CountN("calibrated_send_gas_typical", int64(cal.cTyp))
	w.CountN("calibrated_create_overhead_1_action", int64(cal.used[1]))
	return cal
}

// planPrecise: one authority, height condition, 1-3 affordable sends, and a gas limit aimed between k and
// k+1 times the cost of one send (k = 0: not even one action fits ... k > n: everything fits).
func (g *c17Gen) planPrecise() *c17Plan {
	r, n := g.r, g.n
	ctx := n.queryCtx()
	owner := -1
	for _, o := range r.Perm(g.nAcc) {
		if n.app.BankKeeper.GetBalance(ctx, n.accts[o].addr, c17TrigDen).Amount.Int64() >= 300 {
			owner = o
			break
		}
	}
	if owner < 0 {
		return nil
	}
	na := 1 + r.Intn(3)
	k := r.Intn(na + 2)
	c := int64(g.cal.cTyp)
	target := int64(k)*c + c/2 + int64(r.Intn(int(c/2))) - c/4
	h := uint64(n.height+1) + 1 + uint64(r.Intn(3))
	if g.burstH > uint64(n.height+1) && r.Intn(100) < 40 {
		h = g.burstH
	}
	var msgs []sdk.Msg
	var acts []string
	for i := 0; i < na; i++ {
		to := r.Intn(g.nAcc)
		amt := int64(1 + r.Intn(9))
		msgs = append(msgs, banktypes.NewMsgSend(n.accts[owner].addr, n.accts[to].addr, sdk.NewCoins(sdk.NewInt64Coin(c17TrigDen, amt))))
		acts = append(acts, fmt.Sprintf("{| a_from := %d; a_to := %d; a_amt := %d; a_co := [] |}", owner, to, amt))
	}
	gas := g.cal.used[na] + 2510 + uint64(target)
	m := triggertypes.MustNewCreateTriggerRequest([]string{g.addrStr(owner)}, &triggertypes.BlockHeightEvent{BlockHeight: h}, msgs)
	bz, err := n.signTx(gas, []int{owner}, m)
	if err != nil {
		g.t.Fatalf("sign create: %v", err)
	}
	return &c17Plan{kind: "create", bz: bz, gas: gas, shape: "precise-gas", nActs: na, band: fmt.Sprintf("n=%d,k=%d", na, k),
		coqPre: fmt.Sprintf("TCreate [%d] [%d] (EvHeight %d) %s %d", owner, owner, h, coqList(acts), gas),
		desc:   fmt.Sprintf("create by [%d] on height>=%d, %d actions, gas %d (limit aimed at %d = %d..%d x one send)", owner, h, na, gas, target, k, k+1)}
}

// planCreate builds a create-trigger transaction; most are valid.
func (g *c17Gen) planCreate() *c17Plan {
	r, n := g.r, g.n
	if g.cal != nil && r.Intn(100) < 22 {
		if p := g.planPrecise(); p != nil {
			return p
		}
	}
	owner := r.Intn(g.nAcc)
	auths := []int{owner}
	if r.Intn(4) == 0 {
		o2 := (owner + 1 + r.Intn(g.nAcc-1)) % g.nAcc
		auths = append(auths, o2)
	}
	shape := "valid"
	noAnte := false
	// event
	var ev triggertypes.TriggerEventI
	var evCoq, evDesc string
	switch k := r.Intn(10); {
	case k < 4: // height
		h := uint64(n.height+1) + 1 + uint64(r.Intn(3)) // the tx runs in block n.height+1
		if g.burstH > uint64(n.height+1) && r.Intn(100) < 60 {
			h = g.burstH
		}
		if r.Intn(15) == 0 {
			h = uint64(n.height+1) - uint64(r.Intn(2)) // not in the future: rejected by ValidateContext
			shape = "past-height"
		}
		ev = &triggertypes.BlockHeightEvent{BlockHeight: h}
		evCoq = fmt.Sprintf("(EvHeight %d)", h)
		evDesc = fmt.Sprintf("height>=%d", h)
	case k < 7: // time
		// a time relative to the exact time of this or a coming block: equal to it, a nanosecond or a few
		// hundred milliseconds before/after it (same second, earlier and later fraction)
		k := g.bi + r.Intn(5)
		var ref time.Time
		if k < len(g.times) {
			ref = g.times[k]
		} else {
			ref = g.times[len(g.times)-1].Add(time.Duration(1+r.Intn(20)) * time.Second)
		}
		deltas := []time.Duration{0, 1, -1, time.Millisecond, -time.Millisecond, 300 * time.Millisecond, -300 * time.Millisecond,
			500 * time.Millisecond, 999 * time.Millisecond, time.Duration(1 + r.Intn(999_999_999)), -time.Duration(1 + r.Intn(999_999_999))}
		tt := ref.Add(deltas[r.Intn(len(deltas))]).UnixNano()
		if g.burstT > g.times[g.bi].UnixNano() && r.Intn(100) < 50 {
			tt = g.burstT
		}
		if r.Intn(15) == 0 {
			tt = g.times[g.bi].UnixNano() - int64(r.Intn(2))*int64(1+r.Intn(2_000_000_000)) // now or earlier: rejected
			shape = "past-time"
		}
		ev = &triggertypes.BlockTimeEvent{Time: time.Unix(0, tt).UTC()}
		evCoq = fmt.Sprintf("(EvTime %d)", tt)
		evDesc = fmt.Sprintf("time>=%s", time.Unix(0, tt).UTC().Format("15:04:05.000000000"))
	default: // transaction event
		x := r.Intn(g.nAcc)
		amt := fmt.Sprintf("%d%s", 7+r.Intn(3), c17EvtDen)
		var name string
		var attrs []triggertypes.Attribute
		switch r.Intn(7) {
		case 0:
			name, attrs = "coin_received", []triggertypes.Attribute{{Name: "receiver", Value: g.addrStr(x)}}
		case 1:
			name, attrs = "coin_received", []triggertypes.Attribute{{Name: "receiver", Value: g.addrStr(x)}, {Name: "amount", Value: amt}}
		case 2:
			name, attrs = "transfer", []triggertypes.Attribute{{Name: "amount", Value: amt}, {Name: "sender", Value: ""}}
		case 3:
			name, attrs = "coin_spent", []triggertypes.Attribute{{Name: "spender", Value: g.addrStr(x)}}
		case 4:
			name, attrs = "message", []triggertypes.Attribute{{Name: "action", Value: "/cosmos.bank.v1beta1.MsgSend"}, {Name: "sender", Value: g.addrStr(x)}}
		case 5:
			name, attrs = "transfer", []triggertypes.Attribute{{Name: "recipient", Value: g.addrStr(x)}, {Name: "nosuchattr", Value: ""}}
		default:
			name, attrs = "coin_received", nil
		}
		if os.Getenv("VERIF_C17_RESERVED") == "1" && r.Intn(12) == 0 {
			// a transaction event named like the height/time listener prefixes (see findings/C17.md):
			// outside the property's text, so only generated on request
			name, attrs = []string{"block-height", "block-time"}[r.Intn(2)], nil
			shape = "reserved-event-name"
		}
		if r.Intn(25) == 0 {
			attrs = append(attrs, triggertypes.Attribute{Name: " ", Value: "x"})
			shape = "blank-attribute-name"
			noAnte = true
		}
		ev = &triggertypes.TransactionEvent{Name: name, Attributes: attrs}
		var as []string
		for _, a := range attrs {
			an := a.Name
			if strings.TrimSpace(an) == "" {
				an = ""
			}
			as = append(as, fmt.Sprintf("(%s, %s)", g.sym(an), g.sym(a.Value)))
		}
		evCoq = fmt.Sprintf("(EvTx %s %s)", g.sym(name), coqList(as))
		evDesc = fmt.Sprintf("tx %s %v", name, attrs)
	}
	// actions
	na := 1
	switch k := r.Intn(10); {
	case k < 5:
		na = 1
	case k < 8:
		na = 2 + r.Intn(2)
	default:
		na = 4 + r.Intn(3)
	}
	if r.Intn(40) == 0 {
		na = 0
		noAnte = true
		if shape == "valid" {
			shape = "no-actions"
		}
	}
	var msgs []sdk.Msg
	var acts []string
	ctx := n.queryCtx()
	for i := 0; i < na; i++ {
		from := auths[r.Intn(len(auths))]
		if r.Intn(30) == 0 {
			from = (auths[0] + 1 + r.Intn(g.nAcc-1)) % g.nAcc
			isAuth := false
			for _, a := range auths {
				if a == from {
					isAuth = true
				}
			}
			if !isAuth {
				noAnte = true
				if shape == "valid" {
					shape = "action-signer-not-authority"
				}
			}
		}
		to := r.Intn(g.nAcc)
		bal := n.app.BankKeeper.GetBalance(ctx, n.accts[from].addr, c17TrigDen).Amount.Int64()
		amt := int64(1 + r.Intn(40))
		switch r.Intn(12) {
		case 0:
			amt = bal + 1 + int64(r.Intn(50)) // will very likely fail
		case 1:
			if bal > 0 {
				amt = bal // everything: later actions of the same sender fail
			}
		case 2:
			if r.Intn(4) == 0 {
				amt = 0
				if shape == "valid" {
					shape = "zero-amount-action"
				}
			}
		}
		msgs = append(msgs, &banktypes.MsgSend{FromAddress: g.addrStr(from), ToAddress: g.addrStr(to),
			Amount: sdk.Coins{sdk.Coin{Denom: c17TrigDen, Amount: sdkmath.NewInt(amt)}}})
		acts = append(acts, fmt.Sprintf("{| a_from := %d; a_to := %d; a_amt := %d; a_co := [] |}", from, to, amt))
	}
	nested := false
	// sometimes one more action with TWO required signers: a nested MsgCreateTriggerRequest (authorities x, y)
	// whose own condition is a past height, so that it passes ValidateBasic and always fails when run
	if na > 0 && r.Intn(8) == 0 && (len(auths) > 1 || r.Intn(3) == 0) {
		x := auths[r.Intn(len(auths))]
		y := auths[len(auths)-1]
		if len(auths) == 1 || r.Intn(3) == 0 {
			y = (x + 1 + r.Intn(g.nAcc-1)) % g.nAcc
		}
		if y != x {
			yIsAuth := false
			for _, a := range auths {
				if a == y {
					yIsAuth = true
				}
			}
			if !yIsAuth {
				noAnte = true
				if shape == "valid" {
					shape = "action-cosigner-not-authority"
				}
			} else if shape == "valid" {
				shape = "valid-two-signer-action"
			}
			inner := triggertypes.MustNewCreateTriggerRequest([]string{g.addrStr(x), g.addrStr(y)},
				&triggertypes.BlockHeightEvent{BlockHeight: 1},
				[]sdk.Msg{banktypes.NewMsgSend(n.accts[x].addr, n.accts[y].addr, sdk.NewCoins(sdk.NewInt64Coin(c17TrigDen, 1)))})
			nested = true
			pos := r.Intn(len(msgs) + 1)
			msgs = append(msgs[:pos], append([]sdk.Msg{inner}, msgs[pos:]...)...)
			acts = append(acts[:pos], append([]string{fmt.Sprintf("{| a_from := %d; a_to := %d; a_amt := 0; a_co := [%d] |}", x, y, y)}, acts[pos:]...)...)
			na++
		}
	}
	// signers
	signers := append([]int{}, auths...)
	if r.Intn(30) == 0 {
		switch r.Intn(3) {
		case 0:
			if len(signers) > 1 {
				signers = signers[:1]
			} else {
				signers = []int{(auths[0] + 1) % g.nAcc}
			}
		case 1:
			signers = []int{(auths[0] + 1 + r.Intn(g.nAcc-1)) % g.nAcc}
		default:
			extra := (auths[len(auths)-1] + 1) % g.nAcc
			if extra != auths[0] {
				signers = append(signers, extra)
			}
		}
		if fmt.Sprint(signers) != fmt.Sprint(auths) {
			noAnte = true
			if shape == "valid" {
				shape = "authority-did-not-sign"
			}
		}
	}
	// gas: the limit the trigger gets is what is left of the tx gas
	base := uint64(70000 + 5800*na + 1500*(len(auths)-1))
	if _, ok := ev.(*triggertypes.TransactionEvent); ok {
		base += 3000
	}
	if nested {
		base += 9000
	}
	var target uint64
	lowGas := false
	gc := r.Intn(100)
	if g.style == 1 { // heavy-gas histories
		gc = 60 + r.Intn(40)
	}
	switch {
	case gc < 20:
		target = uint64(500 + r.Intn(30000))
	case gc < 75:
		target = uint64(40000 + r.Intn(120000))
	case gc < 90:
		target = uint64(300000 + r.Intn(900000))
	case gc < 97:
		target = uint64(1900000 + r.Intn(900000))
	default:
		target = 0
		base -= uint64(3000 + r.Intn(20000)) // probably not enough gas for the creation itself
		lowGas = true
		if shape == "valid" {
			shape = "low-gas"
		}
	}
	if target < 15000 {
		lowGas = true // the estimate of the overhead is rough: the creation itself may run out of gas
	}
	gas := base + 2510 + target
	if gas > 3900000 {
		gas = 3900000
	}
	authStrs := make([]string, len(auths))
	for i, a := range auths {
		authStrs[i] = g.addrStr(a)
	}
	eventAny, err := codectypes.NewAnyWithValue(ev)
	if err != nil {
		g.t.Fatal(err)
	}
	actAnys, err := sdktx.SetMsgs(msgs)
	if err != nil {
		g.t.Fatal(err)
	}
	msg := &triggertypes.MsgCreateTriggerRequest{Authorities: authStrs, Event: eventAny, Actions: actAnys}
	bz, err := n.signTx(gas, signers, msg)
	if err != nil {
		g.t.Fatalf("sign create: %v", err)
	}
	return &c17Plan{kind: "create", bz: bz, gas: gas, shape: shape, lowGas: lowGas, noAnte: noAnte, nActs: na,
		coqPre: fmt.Sprintf("TCreate %s %s %s %s %d", c17NList(signers), c17NList(auths), evCoq, coqList(acts), gas),
		desc:   fmt.Sprintf("create by %v signed %v on %s, %d actions, gas %d (%s)", auths, signers, evDesc, na, gas, shape)}
}

func (g *c17Gen) planDestroy() *c17Plan {
	r, n := g.r, g.n
	var id uint64
	who := r.Intn(g.nAcc)
	shape := "unknown-id"
	noAnte := false
	k := r.Intn(20)
	switch {
	case k < 13 && len(g.reg) > 0:
		tr := g.reg[r.Intn(len(g.reg))]
		id = tr.id
		if r.Intn(4) == 0 {
			who = (tr.owner + 1 + r.Intn(g.nAcc-1)) % g.nAcc
			shape = "stranger"
		} else {
			who = tr.owner
			shape = "owner"
		}
	case k < 17 && len(g.queue) > 0:
		tr := g.queue[r.Intn(len(g.queue))]
		id, who, shape = tr.id, tr.owner, "queued"
	case k < 18:
		id, shape, noAnte = 0, "zero-id", true
	case k < 19:
		id, shape = g.maxID+1, "maybe-created-this-block"
	default:
		if g.maxID > 0 {
			id = 1 + uint64(r.Intn(int(g.maxID)))
		} else {
			id = 3
		}
		shape = "random-id"
	}
	msg := triggertypes.NewDestroyTriggerRequest(g.addrStr(who), id)
	bz, err := n.signTx(150000, []int{who}, msg)
	if err != nil {
		g.t.Fatalf("sign destroy: %v", err)
	}
	return &c17Plan{kind: "destroy", bz: bz, gas: 150000, shape: shape, noAnte: noAnte,
		coqPre: fmt.Sprintf("TDestroy %d %d", who, id), desc: fmt.Sprintf("destroy %d by %d (%s)", id, who, shape)}
}

func (g *c17Gen) planSend(den string) *c17Plan {
	r, n := g.r, g.n
	from := r.Intn(g.nAcc)
	to := r.Intn(g.nAcc)
	amt := int64(7 + r.Intn(3))
	kind := "emit"
	if den == c17TrigDen {
		kind = "tsend"
		bal := n.app.BankKeeper.GetBalance(n.queryCtx(), n.accts[from].addr, c17TrigDen).Amount.Int64()
		amt = int64(1 + r.Intn(300))
		if r.Intn(5) == 0 {
			amt = bal + int64(r.Intn(3))
		}
		if amt == 0 {
			amt = 1
		}
	} else if r.Intn(12) == 0 {
		amt = 2_000_000_000 // fails: its events never reach the history
	}
	msg := banktypes.NewMsgSend(n.accts[from].addr, n.accts[to].addr, sdk.NewCoins(sdk.NewInt64Coin(den, amt)))
	bz, err := n.signTx(200000, []int{from}, msg)
	if err != nil {
		g.t.Fatalf("sign send: %v", err)
	}
	return &c17Plan{kind: kind, bz: bz, gas: 200000, shape: kind,
		coqPre: fmt.Sprintf("TSend %d %d %d", from, to, amt), desc: fmt.Sprintf("send %d%s %d->%d", amt, den, from, to)}
}

// observe reads registry, queue and balances from the committed state.
func (g *c17Gen) observe() (regT, queueT, balT string, limits map[uint64]uint64) {
	n := g.n
	ctx := n.queryCtx()
	idx := map[string]int{}
	for i := range n.accts {
		idx[n.accts[i].addr.String()] = i
	}
	limits = map[uint64]uint64{}
	gls, err := n.app.TriggerKeeper.GetAllGasLimits(ctx)
	if err != nil {
		g.t.Fatal(err)
	}
	for _, gl := range gls {
		limits[gl.TriggerId] = gl.Amount
	}
	trs, err := n.app.TriggerKeeper.GetAllTriggers(ctx)
	if err != nil {
		g.t.Fatal(err)
	}
	g.reg = g.reg[:0]
	var ri []string
	for _, tr := range trs {
		o, ok := idx[tr.Owner]
		if !ok {
			o = 999
		}
		lim, has := limits[tr.Id]
		if !has {
			lim = 999999999 // a registered trigger without a gas limit: shows up as a mismatch
		}
		ri = append(ri, fmt.Sprintf("(%d, %d, %d)", tr.Id, o, lim))
		g.reg = append(g.reg, c17Trig{tr.Id, o})
		if tr.Id > g.maxID {
			g.maxID = tr.Id
		}
	}
	qs, err := n.app.TriggerKeeper.GetAllQueueItems(ctx)
	if err != nil {
		g.t.Fatal(err)
	}
	g.queue = g.queue[:0]
	var qi []string
	for _, q := range qs {
		lim, has := limits[q.Trigger.Id]
		if !has {
			lim = 999999999
		}
		qi = append(qi, fmt.Sprintf("(%d, %d)", q.Trigger.Id, lim))
		g.queue = append(g.queue, c17Trig{q.Trigger.Id, idx[q.Trigger.Owner]})
		if q.Trigger.Id > g.maxID {
			g.maxID = q.Trigger.Id
		}
	}
	var bi []string
	for i := 0; i < g.nAcc; i++ {
		b := n.app.BankKeeper.GetBalance(ctx, n.accts[i].addr, c17TrigDen).Amount
		bi = append(bi, fmt.Sprintf("(%d, %s%%Z)", i, zInt(b)))
	}
	g.limits = limits
	return coqList(ri), coqList(qi), coqList(bi), limits
}

func c17Attr(e abci.Event, key string) (string, bool) {
	for _, a := range e.Attributes {
		if a.Key == key {
			return a.Value, true
		}
	}
	return "", false
}

func c17History(t *testing.T, r *rand.Rand, w *CaseWriter, hi int, cal *c17Cal) {
	const nAcc = 5
	bal := make([]int64, nAcc)
	for i := range bal {
		switch r.Intn(4) {
		case 0:
			bal[i] = int64(r.Intn(60))
		default:
			bal[i] = int64(200 + r.Intn(3000))
		}
	}
	n := c17NewNet(t, nAcc, bal)
	g := &c17Gen{t: t, r: r, w: w, n: n, nAcc: nAcc, intern: map[string]int{}, style: r.Intn(3), cal: cal, band: map[uint64]string{}}
	g.nActs = map[uint64]int{}
	_, _, bal0, _ := g.observe()
	nBlocks := 5 + r.Intn(26)
	if tier() == "quick" && nBlocks > 18 {
		nBlocks = 10 + r.Intn(9)
	}
	// block times: a few seconds apart, with sub-second parts (none, round milliseconds, arbitrary nanoseconds)
	at := n.now
	for b := 0; b < nBlocks; b++ {
		dt := 5
		if r.Intn(6) == 0 {
			dt = 1 + r.Intn(30)
		}
		at = at.Truncate(time.Second).Add(time.Duration(dt) * time.Second)
		switch r.Intn(5) {
		case 0:
		case 1:
			at = at.Add(time.Duration(r.Intn(1000)) * time.Millisecond)
		case 2:
			at = at.Add(200 * time.Millisecond)
		case 3:
			at = at.Add(999_999_999)
		default:
			at = at.Add(time.Duration(r.Intn(1_000_000_000)))
		}
		g.times = append(g.times, at)
	}
	if g.style != 1 { // burst: many triggers become ready in the same block
		g.burstH = uint64(n.height) + 3 + uint64(r.Intn(4))
		bt := g.times[(2+r.Intn(5))%nBlocks]
		g.burstT = bt.Add([]time.Duration{0, 1, -1, 400 * time.Millisecond, -400 * time.Millisecond}[r.Intn(5)]).UnixNano()
	}
	var blocks, descs []string
	executedAny, carried := false, false
	for b := 0; b < nBlocks; b++ {
		nt := r.Intn(7)
		g.bi = b
		if g.burstH > uint64(n.height+1) || g.burstT > g.times[b].UnixNano() {
			nt += 2
		}
		if b >= nBlocks-3 {
			nt = r.Intn(2) // let the queue drain
		}
		var plans []*c17Plan
		blocked := map[int]bool{}
		for i := 0; i < nt; i++ {
			var p *c17Plan
			n.lastSigners = nil
			switch k := r.Intn(20); {
			case k < 10:
				p = g.planCreate()
			case k < 13:
				p = g.planDestroy()
			case k < 17:
				p = g.planSend(c17EvtDen)
			default:
				p = g.planSend(c17TrigDen)
			}
			skip := false
			for _, s := range n.lastSigners {
				if blocked[s] {
					skip = true
				}
			}
			if skip {
				continue
			}
			// transactions that fail before or inside the ante handler do not advance sequences; the
			// accounts of a tx whose fate there is uncertain sign nothing else in this block
			if p.noAnte || p.lowGas {
				for _, s := range n.lastSigners {
					blocked[s] = true
				}
			} else {
				for _, s := range n.lastSigners {
					n.pendingSeq[s]++
				}
			}
			plans = append(plans, p)
		}
		txs := make([][]byte, len(plans))
		for i, p := range plans {
			txs[i] = p.bz
		}
		queuedBefore := len(g.queue)
		prevLimits := g.limits
		res := n.block(g.times[b], txs)
		if res == nil {
			descs = append(descs, fmt.Sprintf("h%d: CHAIN HALTED: %v", n.height, n.haltErr))
			w.Count("chain_halts")
			break
		}
		regT, queueT, balT, limits := g.observe()
		// executed triggers
		var exec, oracle []string
		nExec := 0
		for _, e := range res.Events {
			if e.Type != "provenance.trigger.v1.EventTriggerExecuted" {
				continue
			}
			idq, _ := c17Attr(e, "trigger_id")
			id, err := strconv.ParseUint(strings.Trim(idq, "\""), 10, 64)
			if err != nil {
				t.Fatalf("trigger id %q", idq)
			}
			okS, _ := c17Attr(e, "success")
			ok := okS == "true"
			exec = append(exec, fmt.Sprintf("(%d, %s)", id, coqBool(ok)))
			nExec++
			executedAny = true
			band := "gas-unknown-band"
			if na := uint64(g.nActs[id]); prevLimits[id] < 4000*na {
				band = "gas-surely-too-little"
			} else if prevLimits[id] >= 45000*na {
				band = "gas-ample"
			}
			if bd, has := g.band[id]; has {
				w.Count("precise:" + bd + ":" + map[bool]string{true: "ok", false: "failed"}[ok])
			}
			if ok {
				w.Count("triggers_executed_ok")
				w.Count("executed_ok:" + band)
			} else {
				w.Count("triggers_executed_failed")
				w.Count("executed_failed:" + band)
				oracle = append(oracle, strconv.FormatUint(id, 10))
			}
		}
		if nExec > 0 && queuedBefore > nExec {
			carried = true
			w.Count("blocks_with_carry_over")
		}
		// transactions
		var txT, resT, evT []string
		for i, p := range plans {
			tr := res.TxResults[i]
			ok := tr.Code == 0
			w.Count("tx_" + p.kind)
			if ok {
				w.Count("tx_accepted")
				w.Count("tx_" + p.kind + "_accepted")
			} else {
				w.Count("tx_rejected")
			}
			w.Count("shape:" + p.shape + ":" + map[bool]string{true: "accepted", false: "rejected"}[ok])
			if ok {
				for _, e := range tr.Events {
					if !c17EventTypes[e.Type] {
						continue
					}
					if _, has := c17Attr(e, "msg_index"); !has {
						continue // ante and fee events are not part of the block's event history
					}
					var as []string
					for _, a := range e.Attributes {
						as = append(as, fmt.Sprintf("(%s, %s)", g.sym(a.Key), g.sym(a.Value)))
					}
					evT = append(evT, fmt.Sprintf("{| em_type := %s; em_attrs := %s |}", g.sym(e.Type), coqList(as)))
				}
			}
			if p.kind == "emit" {
				continue
			}
			term := p.coqPre
			rterm := "None"
			if p.kind == "create" {
				used := uint64(0)
				var id uint64
				if ok {
					var d sdk.TxMsgData
					if err := d.Unmarshal(tr.Data); err != nil || len(d.MsgResponses) != 1 {
						t.Fatalf("tx data: %v", err)
					}
					var resp triggertypes.MsgCreateTriggerResponse
					if err := resp.Unmarshal(d.MsgResponses[0].Value); err != nil {
						t.Fatal(err)
					}
					id = resp.Id
					g.nActs[id] = p.nActs
					if p.band != "" {
						g.band[id] = p.band
					}
					if id > g.maxID {
						g.maxID = id
					}
					if lim, has := limits[id]; has && uint64(tr.GasUsed) >= lim+2510 {
						used = uint64(tr.GasUsed) - lim - 2510
					}
					rterm = fmt.Sprintf("(Some (%d, %d))", id, tr.GasUsed)
				} else if tr.Codespace == "sdk" && tr.Code == 11 {
					used = p.gas // out of gas
					w.Count("create_out_of_gas")
				}
				term = fmt.Sprintf("%s %d", term, used)
			} else if ok {
				rterm = fmt.Sprintf("(Some (0, %d))", tr.GasUsed)
			}
			txT = append(txT, "("+term+")")
			resT = append(resT, rterm)
			descs = append(descs, fmt.Sprintf("h%d: %s -> %v", n.height, p.desc, ok))
		}
		blk := fmt.Sprintf("{| b_height := %d; b_time := %d; b_oracle := %s; b_txs := %s; b_events := %s |}",
			n.height, n.now.UnixNano(), coqList(oracle), coqList(txT), coqList(evT))
		ob := fmt.Sprintf("{| ob_exec := %s; ob_txres := %s; ob_reg := %s; ob_queue := %s; ob_bal := %s |}",
			coqList(exec), coqList(resT), regT, queueT, balT)
		blocks = append(blocks, "("+blk+",\n    "+ob+")")
		if len(exec) > 0 {
			descs = append(descs, fmt.Sprintf("h%d: executed %v; queue now %s", n.height, exec, queueT))
		}
		w.Count("blocks")
		w.CountN("events_in_history", int64(len(evT)))
	}
	accN := make([]int, nAcc)
	for i := range accN {
		accN[i] = i
	}
	ctor := "CHist"
	if n.haltErr != nil {
		ctor = "CHalt"
	}
	w.Add(fmt.Sprintf("(%s %s %s %d\n   %s)%%N", ctor, c17NList(accN), bal0, cal.cMin, coqList(blocks)), map[string]any{"history": hi, "blocks": nBlocks, "steps": descs})
	w.Count("histories")
	if carried {
		w.Count("histories_with_carry_over")
	}
	if executedAny {
		sort.Strings(descs)
		w.Nontrivial(fmt.Sprintf("%d/%s", hi, strings.Join(descs, ";")))
	}
}

func TestC17(t *testing.T) {
	r := newRand("C17")
	w := NewCaseWriter("C17", "PV.Corr.C17", "check_all", 25)
	nh := scale(100, 1500)
	cal := c17Calibrate(t, w)
	for hi := 0; hi < nh; hi++ {
		c17History(t, r, w, hi, cal)
	}
	w.Flush(t)
}
