//go:build c17

package harness

import (
	"bytes"
	"crypto/sha256"
	"fmt"
	"math/big"
	"strconv"
	"testing"
	"time"

	abci "github.com/cometbft/cometbft/abci/types"
	cmtproto "github.com/cometbft/cometbft/proto/tendermint/types"

	storetypes "cosmossdk.io/store/types"

	"github.com/cosmos/cosmos-sdk/client/tx"
	codectypes "github.com/cosmos/cosmos-sdk/codec/types"
	"github.com/cosmos/cosmos-sdk/crypto/keys/secp256k1"
	cryptotypes "github.com/cosmos/cosmos-sdk/crypto/types"
	sdk "github.com/cosmos/cosmos-sdk/types"
	sdktx "github.com/cosmos/cosmos-sdk/types/tx"
	"github.com/cosmos/cosmos-sdk/types/tx/signing"
	authsigning "github.com/cosmos/cosmos-sdk/x/auth/signing"
	authtypes "github.com/cosmos/cosmos-sdk/x/auth/types"
	banktypes "github.com/cosmos/cosmos-sdk/x/bank/types"

	simapp "github.com/provenance-io/provenance/app"
	"github.com/provenance-io/provenance/internal/pioconfig"
	markertypes "github.com/provenance-io/provenance/x/marker/types"
	triggertypes "github.com/provenance-io/provenance/x/trigger/types"
)

// ---------- a real chain driven block by block through FinalizeBlock/Commit ----------

const (
	c17Chain   = "verif-c17"
	c17TrigDen = "trigcoin" // only trigger actions and TSend txs move this denom
	c17EvtDen  = "evtcoin"  // moved by the event-emitting transactions
	c17RDen    = "rcoin"    // restricted marker coin: only marker transfer actions move it
	c17Root    = "trig"     // restricted root name the bind actions bind under
	c17NNames  = 8          // names n0.trig .. n7.trig
)

type c17Acct struct {
	priv cryptotypes.PrivKey
	addr sdk.AccAddress
}

func c17Accts(n int) []c17Acct {
	out := make([]c17Acct, n)
	for i := range out {
		priv := secp256k1.GenPrivKeyFromSecret([]byte(fmt.Sprintf("verif-c17-key-%d", i)))
		out[i] = c17Acct{priv: priv, addr: sdk.AccAddress(priv.PubKey().Address())}
	}
	return out
}

// c17Imported is a trigger handed to the keeper's InitGenesis before the first block.
type c17Imported struct {
	id     uint64
	owner  int
	ev     triggertypes.TriggerEventI
	evCoq  string
	acts   []c17Act
	limit  uint64
	queued bool
}

type c17Setup struct {
	trigBal, rBal []int64
	xfer          []int // accounts with ACCESS_TRANSFER on the restricted marker
	rootOwner     int
	imported      []c17Imported
	nextID        uint64
}

type c17Net struct {
	t           *testing.T
	app         *simapp.App
	accts       []c17Acct
	height      int64
	now         time.Time
	pendingSeq  map[int]uint64
	lastSigners []int
	haltErr     error
}

func c17NewNet(t *testing.T, accts []c17Acct, su c17Setup) *c17Net {
	pioconfig.SetProvenanceConfig(sdk.DefaultBondDenom, 1)
	n := &c17Net{t: t, accts: accts}
	var gen []authtypes.GenesisAccount
	var bals []banktypes.Balance
	for i, a := range accts {
		gen = append(gen, authtypes.NewBaseAccount(a.addr, a.priv.PubKey(), uint64(i), 0))
		coins := sdk.NewCoins(sdk.NewInt64Coin(sdk.DefaultBondDenom, 1_000_000_000_000), sdk.NewInt64Coin(c17EvtDen, 1_000_000_000))
		if i < len(su.trigBal) && su.trigBal[i] > 0 {
			coins = coins.Add(sdk.NewInt64Coin(c17TrigDen, su.trigBal[i]))
		}
		bals = append(bals, banktypes.Balance{Address: a.addr.String(), Coins: coins})
	}
	n.app = simapp.SetupWithGenesisAccounts(t, c17Chain, gen, bals...)
	n.now = time.Unix(1_700_000_000, 0).UTC()
	// state written through the keepers on the not yet committed first block: the restricted root name, the
	// restricted marker with its coins handed out, and the trigger module's genesis
	ctx := n.app.BaseApp.NewContextLegacy(false, cmtproto.Header{ChainID: c17Chain, Height: n.app.LastBlockHeight() + 1, Time: n.now})
	must := func(err error, what string) {
		if err != nil {
			t.Fatalf("c17 setup %s: %v", what, err)
		}
	}
	must(n.app.NameKeeper.SetNameRecord(ctx, c17Root, accts[su.rootOwner].addr, true), "root name")
	grants := []markertypes.AccessGrant{{Address: accts[0].addr.String(), Permissions: markertypes.AccessList{markertypes.Access_Admin,
		markertypes.Access_Mint, markertypes.Access_Burn, markertypes.Access_Withdraw, markertypes.Access_Deposit}}}
	for _, x := range su.xfer {
		if x == 0 {
			grants[0].Permissions = append(grants[0].Permissions, markertypes.Access_Transfer)
		} else {
			grants = append(grants, markertypes.AccessGrant{Address: accts[x].addr.String(), Permissions: markertypes.AccessList{markertypes.Access_Transfer}})
		}
	}
	ma := markertypes.NewMarkerAccount(authtypes.NewBaseAccountWithAddress(markertypes.MustGetMarkerAddress(c17RDen)), sdk.NewInt64Coin(c17RDen, 1_000_000),
		accts[0].addr, grants, markertypes.StatusProposed, markertypes.MarkerType_RestrictedCoin, true, true, false, nil)
	must(n.app.MarkerKeeper.AddFinalizeAndActivateMarker(ctx, ma), "marker")
	for i := range accts {
		if i < len(su.rBal) && su.rBal[i] > 0 {
			must(n.app.MarkerKeeper.WithdrawCoins(ctx, accts[0].addr, accts[i].addr, c17RDen, sdk.NewCoins(sdk.NewInt64Coin(c17RDen, su.rBal[i]))), "withdraw")
		}
	}
	if len(su.imported) > 0 || su.nextID > 1 {
		var trs []triggertypes.Trigger
		var qs []triggertypes.QueuedTrigger
		var gls []triggertypes.GasLimit
		for _, im := range su.imported {
			evAny, err := codectypes.NewAnyWithValue(im.ev)
			must(err, "event any")
			var msgs []sdk.Msg
			for _, a := range im.acts {
				msgs = append(msgs, a.msg)
			}
			actAnys, err := sdktx.SetMsgs(msgs)
			must(err, "actions any")
			tr := triggertypes.NewTrigger(im.id, accts[im.owner].addr.String(), evAny, actAnys)
			if im.queued {
				qs = append(qs, triggertypes.NewQueuedTrigger(tr, n.now, uint64(n.app.LastBlockHeight()+1)))
			} else {
				trs = append(trs, tr)
			}
			gls = append(gls, triggertypes.GasLimit{TriggerId: im.id, Amount: im.limit})
		}
		gs := triggertypes.NewGenesisState(su.nextID, 1, trs, gls, qs)
		must(try(func() error { n.app.TriggerKeeper.InitGenesis(ctx, gs); return nil }), "trigger genesis")
	}
	ctx.MultiStore().(storetypes.CacheMultiStore).Write()
	if _, err := n.app.Commit(); err != nil {
		t.Fatalf("commit: %v", err)
	}
	n.height = n.app.LastBlockHeight()
	n.pendingSeq = map[int]uint64{}
	return n
}

// queryCtx is a read-only view of the last committed state.
func (n *c17Net) queryCtx() sdk.Context {
	return n.app.BaseApp.NewUncachedContext(false, cmtproto.Header{ChainID: c17Chain, Height: n.height, Time: n.now})
}

// signTx builds a transaction with msgs, signed by exactly the given accounts (in that order).
func (n *c17Net) signTx(gas uint64, signers []int, msgs ...sdk.Msg) ([]byte, error) {
	n.lastSigners = signers
	ctx := n.queryCtx()
	cfg := n.app.GetEncodingConfig().TxConfig
	b := cfg.NewTxBuilder()
	b.SetFeeAmount(sdk.NewCoins(sdk.NewInt64Coin(sdk.DefaultBondDenom, int64(gas))))
	b.SetGasLimit(gas)
	if err := b.SetMsgs(msgs...); err != nil {
		return nil, err
	}
	mode := signing.SignMode(cfg.SignModeHandler().DefaultMode())
	type sinfo struct {
		num, seq uint64
	}
	infos := make([]sinfo, len(signers))
	sigs := make([]signing.SignatureV2, len(signers))
	for i, s := range signers {
		acc := n.app.AccountKeeper.GetAccount(ctx, n.accts[s].addr)
		if acc == nil {
			return nil, fmt.Errorf("no account %d", s)
		}
		infos[i] = sinfo{acc.GetAccountNumber(), acc.GetSequence() + n.pendingSeq[s]}
		sigs[i] = signing.SignatureV2{PubKey: n.accts[s].priv.PubKey(),
			Data: &signing.SingleSignatureData{SignMode: mode}, Sequence: infos[i].seq}
	}
	if err := b.SetSignatures(sigs...); err != nil {
		return nil, err
	}
	for i, s := range signers {
		sd := authsigning.SignerData{Address: n.accts[s].addr.String(), ChainID: c17Chain,
			AccountNumber: infos[i].num, Sequence: infos[i].seq, PubKey: n.accts[s].priv.PubKey()}
		sig, err := tx.SignWithPrivKey(ctx, mode, sd, b, n.accts[s].priv, cfg, infos[i].seq)
		if err != nil {
			return nil, err
		}
		sigs[i] = sig
	}
	if err := b.SetSignatures(sigs...); err != nil {
		return nil, err
	}
	return cfg.TxEncoder()(b.GetTx())
}

// block runs one block at the given time with the given transactions and commits it.
func (n *c17Net) block(at time.Time, txs [][]byte) *abci.ResponseFinalizeBlock {
	n.height++
	n.now = at
	var res *abci.ResponseFinalizeBlock
	err := try(func() error {
		var e error
		res, e = n.app.FinalizeBlock(&abci.RequestFinalizeBlock{Height: n.height, Time: at, Txs: txs})
		return e
	})
	if err != nil {
		n.haltErr = err // a begin/end blocker failed: the chain cannot go on
		return nil
	}
	if _, err := n.app.Commit(); err != nil {
		n.t.Fatalf("Commit(%d): %v", n.height, err)
	}
	n.pendingSeq = map[int]uint64{}
	return res
}

// digests of the committed state: (a) the two coins in the bank store plus the whole marker, authz and
// name stores, (b) the trigger records, listeners and next id (not the queue and the gas limits, which a
// dispatch changes by design)
func (n *c17Net) digests() (string, string) {
	ctx := n.queryCtx()
	ha, hb := sha256.New(), sha256.New()
	for _, nm := range []string{"bank", "marker", "authz", "name", "trigger"} {
		it := ctx.KVStore(n.app.GetKey(nm)).Iterator(nil, nil)
		for ; it.Valid(); it.Next() {
			k := it.Key()
			switch nm {
			case "bank":
				if !(bytes.Contains(k, []byte(c17TrigDen)) || bytes.Contains(k, []byte(c17RDen))) {
					continue
				}
				ha.Write(k)
				ha.Write(it.Value())
			case "trigger":
				if len(k) > 0 && (k[0] == 0x01 || k[0] == 0x02 || k[0] == 0x05) {
					hb.Write(k)
					hb.Write(it.Value())
				}
			default:
				ha.Write([]byte(nm))
				ha.Write(k)
				ha.Write(it.Value())
			}
		}
		it.Close()
	}
	return fmt.Sprintf("%x", ha.Sum(nil)), fmt.Sprintf("%x", hb.Sum(nil))
}

func c17Nanos(t time.Time) *big.Int {
	v := new(big.Int).Mul(big.NewInt(t.Unix()), big.NewInt(1_000_000_000))
	return v.Add(v, big.NewInt(int64(t.Nanosecond())))
}

func c17TimeOf(nanos *big.Int) time.Time {
	sec, ns := new(big.Int).DivMod(nanos, big.NewInt(1_000_000_000), new(big.Int))
	return time.Unix(sec.Int64(), ns.Int64()).UTC()
}

func c17Attr(e abci.Event, key string) (string, bool) {
	for _, a := range e.Attributes {
		if a.Key == key {
			return a.Value, true
		}
	}
	return "", false
}

func c17NList(xs []int) string {
	items := make([]string, len(xs))
	for i, x := range xs {
		items[i] = strconv.Itoa(x)
	}
	return coqList(items)
}

func c17In(x int, l []int) bool {
	for _, y := range l {
		if x == y {
			return true
		}
	}
	return false
}
