//go:build c03

package harness

import (
	"fmt"
	"math/big"
	"math/rand"
	"strings"
	"testing"
	"time"

	sdkmath "cosmossdk.io/math"
	sdk "github.com/cosmos/cosmos-sdk/types"
	authtypes "github.com/cosmos/cosmos-sdk/x/auth/types"
	vesting "github.com/cosmos/cosmos-sdk/x/auth/vesting/types"
	banktypes "github.com/cosmos/cosmos-sdk/x/bank/types"
	govtypes "github.com/cosmos/cosmos-sdk/x/gov/types"
	govv1 "github.com/cosmos/cosmos-sdk/x/gov/types/v1"
	stakingtypes "github.com/cosmos/cosmos-sdk/x/staking/types"

	simapp "github.com/provenance-io/provenance/app"
	"github.com/provenance-io/provenance/internal/antewrapper"
	"github.com/google/uuid"

	"github.com/provenance-io/provenance/x/exchange"
	markertypes "github.com/provenance-io/provenance/x/marker/types"
	mdtypes "github.com/provenance-io/provenance/x/metadata/types"
)

// c03Deliver runs msg through ValidateBasic (when it has one) and the real message router.
func c03Deliver(app *simapp.App, ctx sdk.Context, msg sdk.Msg) error {
	return try(func() error {
		if vb, ok := msg.(interface{ ValidateBasic() error }); ok {
			if err := vb.ValidateBasic(); err != nil {
				return err
			}
		}
		h := app.MsgServiceRouter().Handler(msg)
		if h == nil {
			return fmt.Errorf("no handler for %T", msg)
		}
		_, err := h(ctx, msg)
		return err
	})
}

type c03Env struct {
	t        *testing.T
	app      *simapp.App
	base     sdk.Context
	bond     string
	valAddr  string
	marketID uint32
}

func c03Unvested(e *c03Env, ctx sdk.Context, addr sdk.AccAddress, denom string) sdkmath.Int {
	acc := e.app.AccountKeeper.GetAccount(ctx, addr)
	if va, ok := acc.(banktypes.VestingAccount); ok {
		return va.LockedCoins(ctx.BlockTime()).AmountOf(denom)
	}
	return sdkmath.ZeroInt()
}

func c03Obs(e *c03Env, ctx sdk.Context, ok bool, addr sdk.AccAddress, denom string) string {
	bal := e.app.BankKeeper.GetBalance(ctx, addr, denom).Amount
	hc, err := e.app.HoldKeeper.GetHoldCoin(ctx, addr, denom)
	if err != nil {
		e.t.Fatalf("GetHoldCoin: %v", err)
	}
	// The forked bank's SpendableCoin dereferences a nil amount when locked > balance; a panic in
	// the query is reported as the impossible value -1 so that the property checker flags it.
	sp := sdkmath.NewInt(-1)
	_ = try(func() error {
		a := e.app.BankKeeper.SpendableCoin(ctx, addr, denom).Amount
		// The spendable balance reported to clients (SpendableBalances query) goes through SpendableCoins.
		b := e.app.BankKeeper.SpendableCoins(ctx, addr).AmountOf(denom)
		if b.GT(a) {
			a = b // make a disagreement between the two visible: report the larger one
		}
		sp = a
		return nil
	})
	return fmt.Sprintf("{| ro_ok := %s; ro_bal := %s; ro_hold := %s; ro_unv := %s; ro_spend := %s |}",
		coqBool(ok), zInt(bal), zInt(hc.Amount), zInt(c03Unvested(e, ctx, addr, denom)), zInt(sp))
}

// account kinds
const (
	kBase = iota
	kContVesting
	kDelayedVesting
	kMarket
	kMarker
)

var c03KindNames = []string{"base", "continuous-vesting", "delayed-vesting", "market", "marker"}

type c03Route struct {
	name  string
	class string // RSpend | RDelegate | RNewHold
	kinds []int
	denom func(e *c03Env) string
	// run attempts to move/reserve amt of denom out of addr; extra returns what else it deducts
	run func(e *c03Env, ctx sdk.Context, addr, other sdk.AccAddress, denom string, amt sdkmath.Int) error
}

func TestC03(t *testing.T) {
	r := newRand("C03")
	w := NewCaseWriter("C03", "PV.Corr.C03", "check_all", 400)
	app, baseCtx := newApp(t)
	now := time.Unix(1_700_000_000, 0).UTC()
	baseCtx = baseCtx.WithBlockTime(now)
	e := &c03Env{t: t, app: app, base: baseCtx}
	bond, err := app.StakingKeeper.BondDenom(baseCtx)
	if err != nil {
		t.Fatal(err)
	}
	e.bond = bond
	vals, err := app.StakingKeeper.GetAllValidators(baseCtx)
	if err != nil || len(vals) == 0 {
		t.Fatalf("validators: %v %d", err, len(vals))
	}
	e.valAddr = vals[0].GetOperator()

	// let any positive amount be a valid (initial) deposit so that only the bank decides
	gp, err := app.GovKeeper.Params.Get(baseCtx)
	if err != nil {
		t.Fatal(err)
	}
	gp.MinInitialDepositRatio = "0"
	gp.MinDepositRatio = "0"
	if err := app.GovKeeper.Params.Set(baseCtx, gp); err != nil {
		t.Fatal(err)
	}

	admin := addrN(900)
	ensureAccount(app, baseCtx, admin)
	fund(t, app, baseCtx, admin, sdk.NewCoins(sdk.NewInt64Coin(bond, 1_000_000_000)))
	allPerms := exchange.AllPermissions()
	mid, err := app.ExchangeKeeper.CreateMarket(baseCtx, exchange.Market{
		MarketDetails:        exchange.MarketDetails{Name: "c03"},
		AcceptingOrders:      true,
		AllowUserSettlement:  true,
		AcceptingCommitments: true,
		CommitmentSettlementBips: 10,
		IntermediaryDenom:    "interm",
		AccessGrants:         []exchange.AccessGrant{{Address: admin.String(), Permissions: allPerms}},
	})
	if err != nil {
		t.Fatalf("create market: %v", err)
	}
	e.marketID = mid
	marketAddr := exchange.GetMarketAddress(mid)

	// restricted marker whose coins a plain account transfers with TRANSFER access
	mkMarker := func(ctx sdk.Context, denom string, mtype markertypes.MarkerType, supply int64, grants ...markertypes.AccessGrant) sdk.AccAddress {
		maddr := markertypes.MustGetMarkerAddress(denom)
		ma := markertypes.NewMarkerAccount(authtypes.NewBaseAccountWithAddress(maddr), sdk.NewInt64Coin(denom, supply), admin, grants,
			markertypes.StatusProposed, mtype, true, true, false, nil)
		if err := app.MarkerKeeper.AddFinalizeAndActivateMarker(ctx, ma); err != nil {
			t.Fatalf("marker %s: %v", denom, err)
		}
		return maddr
	}

	routes := []c03Route{
		{name: "bank send", class: "RSpend", kinds: []int{kBase, kContVesting, kDelayedVesting},
			run: func(e *c03Env, ctx sdk.Context, a, o sdk.AccAddress, d string, amt sdkmath.Int) error {
				return c03Deliver(e.app, ctx, banktypes.NewMsgSend(a, o, sdk.NewCoins(sdk.NewCoin(d, amt))))
			}},
		{name: "multi-send one input", class: "RSpend", kinds: []int{kBase, kContVesting},
			run: func(e *c03Env, ctx sdk.Context, a, o sdk.AccAddress, d string, amt sdkmath.Int) error {
				half := amt.QuoRaw(2)
				outs := []banktypes.Output{banktypes.NewOutput(o, sdk.NewCoins(sdk.NewCoin(d, amt.Sub(half))))}
				if half.IsPositive() {
					outs = append(outs, banktypes.NewOutput(addrN(901), sdk.NewCoins(sdk.NewCoin(d, half))))
				}
				return c03Deliver(e.app, ctx, banktypes.NewMsgMultiSend(banktypes.NewInput(a, sdk.NewCoins(sdk.NewCoin(d, amt))), outs))
			}},
		{name: "one of many inputs", class: "RSpend", kinds: []int{kBase, kContVesting},
			run: func(e *c03Env, ctx sdk.Context, a, o sdk.AccAddress, d string, amt sdkmath.Int) error {
				helper := addrN(902)
				ensureAccount(e.app, ctx, helper)
				fund(e.t, e.app, ctx, helper, sdk.NewCoins(sdk.NewInt64Coin(d, 5)))
				ins := []banktypes.Input{banktypes.NewInput(helper, sdk.NewCoins(sdk.NewInt64Coin(d, 5))), banktypes.NewInput(a, sdk.NewCoins(sdk.NewCoin(d, amt)))}
				outs := []banktypes.Output{banktypes.NewOutput(o, sdk.NewCoins(sdk.NewCoin(d, amt.AddRaw(5))))}
				return try(func() error { return e.app.BankKeeper.InputOutputCoinsProv(ctx, ins, outs) })
			}},
		{name: "send to module (gov deposit)", class: "RSpend", kinds: []int{kBase, kContVesting},
			denom: func(e *c03Env) string { return e.bond },
			run: func(e *c03Env, ctx sdk.Context, a, o sdk.AccAddress, d string, amt sdkmath.Int) error {
				msg, err := govv1.NewMsgSubmitProposal(nil, sdk.NewCoins(sdk.NewCoin(d, amt)), a.String(), "c03 metadata", "c03 title", "c03 summary", false)
				if err != nil {
					return err
				}
				return c03Deliver(e.app, ctx, msg)
			}},
		{name: "account to module", class: "RSpend", kinds: []int{kBase, kDelayedVesting},
			run: func(e *c03Env, ctx sdk.Context, a, o sdk.AccAddress, d string, amt sdkmath.Int) error {
				return try(func() error {
					return e.app.BankKeeper.SendCoinsFromAccountToModule(ctx, a, govtypes.ModuleName, sdk.NewCoins(sdk.NewCoin(d, amt)))
				})
			}},
		{name: "fee deduction (ante DeductFees)", class: "RSpend", kinds: []int{kBase, kContVesting, kDelayedVesting},
			run: func(e *c03Env, ctx sdk.Context, a, o sdk.AccAddress, d string, amt sdkmath.Int) error {
				// the bank call ProvenanceDeductFeeDecorator and the fee sweep make for the fee payer
				return try(func() error { return antewrapper.DeductFees(e.app.BankKeeper, ctx, a, sdk.NewCoins(sdk.NewCoin(d, amt))) })
			}},
		{name: "delegate", class: "RDelegate", kinds: []int{kBase, kContVesting, kDelayedVesting},
			denom: func(e *c03Env) string { return e.bond },
			run: func(e *c03Env, ctx sdk.Context, a, o sdk.AccAddress, d string, amt sdkmath.Int) error {
				return c03Deliver(e.app, ctx, stakingtypes.NewMsgDelegate(a.String(), e.valAddr, sdk.NewCoin(d, amt)))
			}},
		{name: "marker withdraw", class: "RSpend", kinds: []int{kMarker},
			run: func(e *c03Env, ctx sdk.Context, a, o sdk.AccAddress, d string, amt sdkmath.Int) error {
				return c03Deliver(e.app, ctx, markertypes.NewMsgWithdrawRequest(admin, o, d, sdk.NewCoins(sdk.NewCoin(d, amt))))
			}},
		{name: "marker transfer", class: "RSpend", kinds: []int{kBase},
			denom: func(e *c03Env) string { return "rstcoin" },
			run: func(e *c03Env, ctx sdk.Context, a, o sdk.AccAddress, d string, amt sdkmath.Int) error {
				return c03Deliver(e.app, ctx, markertypes.NewMsgTransferRequest(a, a, o, sdk.NewCoin(d, amt)))
			}},
		{name: "market withdraw", class: "RSpend", kinds: []int{kMarket},
			run: func(e *c03Env, ctx sdk.Context, a, o sdk.AccAddress, d string, amt sdkmath.Int) error {
				return c03Deliver(e.app, ctx, &exchange.MsgMarketWithdrawRequest{Admin: admin.String(), MarketId: e.marketID, ToAddress: o.String(), Amount: sdk.NewCoins(sdk.NewCoin(d, amt))})
			}},
		{name: "new ask order", class: "RNewHold", kinds: []int{kBase, kContVesting},
			run: func(e *c03Env, ctx sdk.Context, a, o sdk.AccAddress, d string, amt sdkmath.Int) error {
				return c03Deliver(e.app, ctx, &exchange.MsgCreateAskRequest{AskOrder: exchange.AskOrder{MarketId: e.marketID, Seller: a.String(),
					Assets: sdk.NewCoin(d, amt), Price: sdk.NewInt64Coin("pricecoin", 10)}})
			}},
		{name: "new ask order with flat fee in the assets denom", class: "RNewHold", kinds: []int{kBase, kContVesting},
			run: func(e *c03Env, ctx sdk.Context, a, o sdk.AccAddress, d string, amt sdkmath.Int) error {
				// the reserved amount is assets + seller settlement flat fee (same denom): split it
				fee := amt.QuoRaw(3)
				if !fee.IsPositive() {
					fee = sdkmath.OneInt()
				}
				assets := amt.Sub(fee)
				if !assets.IsPositive() {
					return fmt.Errorf("amount too small to split")
				}
				e.app.ExchangeKeeper.UpdateFees(ctx, &exchange.MsgGovManageFeesRequest{MarketId: e.marketID,
					AddFeeSellerSettlementFlat: []sdk.Coin{sdk.NewCoin(d, fee)}})
				feeCoin := sdk.NewCoin(d, fee)
				return c03Deliver(e.app, ctx, &exchange.MsgCreateAskRequest{AskOrder: exchange.AskOrder{MarketId: e.marketID, Seller: a.String(),
					Assets: sdk.NewCoin(d, assets), Price: sdk.NewInt64Coin("pricecoin", 10), SellerSettlementFlatFee: &feeCoin}})
			}},
		{name: "fill bids as the seller", class: "RSpend", kinds: []int{kBase, kContVesting},
			run: func(e *c03Env, ctx sdk.Context, a, o sdk.AccAddress, d string, amt sdkmath.Int) error {
				// the counterparty's bid (its price funds are held); the filler pays the assets from its own account
				fund(e.t, e.app, ctx, o, sdk.NewCoins(sdk.NewInt64Coin("pricecoin", 10)))
				id, err := e.app.ExchangeKeeper.CreateBidOrder(ctx, exchange.BidOrder{MarketId: e.marketID, Buyer: o.String(),
					Assets: sdk.NewCoin(d, amt), Price: sdk.NewInt64Coin("pricecoin", 10)}, nil)
				if err != nil {
					e.t.Fatalf("counterparty bid: %v", err)
				}
				return c03Deliver(e.app, ctx, &exchange.MsgFillBidsRequest{Seller: a.String(), MarketId: e.marketID,
					TotalAssets: sdk.NewCoins(sdk.NewCoin(d, amt)), BidOrderIds: []uint64{id}})
			}},
		{name: "fill asks as the buyer", class: "RSpend", kinds: []int{kBase, kDelayedVesting},
			run: func(e *c03Env, ctx sdk.Context, a, o sdk.AccAddress, d string, amt sdkmath.Int) error {
				fund(e.t, e.app, ctx, o, sdk.NewCoins(sdk.NewInt64Coin("assetcoin", 3)))
				id, err := e.app.ExchangeKeeper.CreateAskOrder(ctx, exchange.AskOrder{MarketId: e.marketID, Seller: o.String(),
					Assets: sdk.NewInt64Coin("assetcoin", 3), Price: sdk.NewCoin(d, amt)}, nil)
				if err != nil {
					e.t.Fatalf("counterparty ask: %v", err)
				}
				return c03Deliver(e.app, ctx, &exchange.MsgFillAsksRequest{Buyer: a.String(), MarketId: e.marketID,
					TotalPrice: sdk.NewCoin(d, amt), AskOrderIds: []uint64{id}})
			}},
		{name: "new bid order", class: "RNewHold", kinds: []int{kBase, kDelayedVesting},
			run: func(e *c03Env, ctx sdk.Context, a, o sdk.AccAddress, d string, amt sdkmath.Int) error {
				return c03Deliver(e.app, ctx, &exchange.MsgCreateBidRequest{BidOrder: exchange.BidOrder{MarketId: e.marketID, Buyer: a.String(),
					Assets: sdk.NewInt64Coin("assetcoin", 3), Price: sdk.NewCoin(d, amt)}})
			}},
		{name: "commitment", class: "RNewHold", kinds: []int{kBase, kContVesting},
			run: func(e *c03Env, ctx sdk.Context, a, o sdk.AccAddress, d string, amt sdkmath.Int) error {
				return c03Deliver(e.app, ctx, &exchange.MsgCommitFundsRequest{Account: a.String(), MarketId: e.marketID, Amount: sdk.NewCoins(sdk.NewCoin(d, amt))})
			}},
		{name: "accept a payment as its target (target amount leaves the account)", class: "RSpend", kinds: []int{kBase, kContVesting},
			run: func(e *c03Env, ctx sdk.Context, a, o sdk.AccAddress, d string, amt sdkmath.Int) error {
				// the source's side is reserved at creation; accepting moves the TARGET amount out of a
				fund(e.t, e.app, ctx, o, sdk.NewCoins(sdk.NewInt64Coin("othercoin", 1)))
				pmt := exchange.Payment{Source: o.String(), SourceAmount: sdk.NewCoins(sdk.NewInt64Coin("othercoin", 1)),
					Target: a.String(), TargetAmount: sdk.NewCoins(sdk.NewCoin(d, amt)), ExternalId: "c03acc"}
				if err := e.app.ExchangeKeeper.CreatePayment(ctx, &pmt); err != nil {
					e.t.Fatalf("counterparty payment: %v", err)
				}
				return c03Deliver(e.app, ctx, &exchange.MsgAcceptPaymentRequest{Payment: pmt})
			}},
		{name: "payment", class: "RNewHold", kinds: []int{kBase, kContVesting},
			run: func(e *c03Env, ctx sdk.Context, a, o sdk.AccAddress, d string, amt sdkmath.Int) error {
				return c03Deliver(e.app, ctx, &exchange.MsgCreatePaymentRequest{Payment: exchange.Payment{Source: a.String(), SourceAmount: sdk.NewCoins(sdk.NewCoin(d, amt)),
					Target: o.String(), TargetAmount: sdk.NewCoins(sdk.NewInt64Coin("othercoin", 1)), ExternalId: "c03"}})
			}},
	}

	type desc map[string]any
	nAcc := 1000
	rounds := scale(2, 12)
	for round := 0; round < rounds; round++ {
		for _, rt := range routes {
			for _, kind := range rt.kinds {
				// choose balance, hold, vesting
				b := int64(1000 + r.Intn(9000))
				if round%3 == 1 {
					b = b*1_000_000_007 + int64(r.Intn(1000))
				}
				h := int64(0)
				switch r.Intn(5) {
				case 0:
					h = 0
				case 1:
					h = b // everything on hold
				default:
					h = 1 + r.Int63n(b/2)
				}
				v := int64(0)
				if kind == kContVesting || kind == kDelayedVesting {
					v = 1 + r.Int63n(b/2)
				}
				denom := "plaincoin"
				if rt.denom != nil {
					denom = rt.denom(e)
				}
				type attempt struct{ amt int64 }
				for _, deltaKind := range []int{0, 1, 2, 3, 4, 5} {
					ctx, _ := baseCtx.CacheContext()
					nAcc++
					var addr sdk.AccAddress
					other := addrN(903)
					ensureAccount(app, ctx, other)
					if kind == kMarker {
						denom = fmt.Sprintf("wdcoin%d", nAcc)
					}
					switch kind {
					case kBase:
						addr = addrN(nAcc)
						ensureAccount(app, ctx, addr)
					case kContVesting, kDelayedVesting:
						addr = addrN(nAcc)
						ba := authtypes.NewBaseAccountWithAddress(addr)
						ov := sdk.NewCoins(sdk.NewInt64Coin(denom, 2*v))
						var va sdk.AccountI
						if kind == kContVesting {
							// half-way through the schedule: about v still vesting
							bva, err := vesting.NewBaseVestingAccount(ba, ov, now.Unix()+1000)
							if err != nil {
								t.Fatal(err)
							}
							va = vesting.NewContinuousVestingAccountRaw(bva, now.Unix()-1000)
						} else {
							ov = sdk.NewCoins(sdk.NewInt64Coin(denom, v))
							bva, err := vesting.NewBaseVestingAccount(ba, ov, now.Unix()+1000)
							if err != nil {
								t.Fatal(err)
							}
							va = vesting.NewDelayedVestingAccountRaw(bva)
						}
						app.AccountKeeper.SetAccount(ctx, app.AccountKeeper.NewAccount(ctx, va))
					case kMarket:
						addr = marketAddr
					case kMarker:
						addr = mkMarker(ctx, denom, markertypes.MarkerType_Coin, b,
							*markertypes.NewAccessGrant(admin, markertypes.AccessList{markertypes.Access_Withdraw, markertypes.Access_Mint, markertypes.Access_Burn, markertypes.Access_Admin}))
					}
					if kind != kMarker {
						if denom == "rstcoin" {
							mkMarker(ctx, denom, markertypes.MarkerType_RestrictedCoin, b+100,
								*markertypes.NewAccessGrant(admin, markertypes.AccessList{markertypes.Access_Withdraw, markertypes.Access_Admin}),
								*markertypes.NewAccessGrant(addr, markertypes.AccessList{markertypes.Access_Transfer}))
							if err := c03Deliver(app, ctx, markertypes.NewMsgWithdrawRequest(admin, addr, denom, sdk.NewCoins(sdk.NewInt64Coin(denom, b)))); err != nil {
								t.Fatalf("withdraw restricted: %v", err)
							}
						} else {
							fund(t, app, ctx, addr, sdk.NewCoins(sdk.NewInt64Coin(denom, b)))
						}
					}
					unv := c03Unvested(e, ctx, addr, denom).Int64()
					hh := h
					if hh > b-unv {
						hh = b - unv // a hold can only be placed on spendable funds
					}
					if hh > 0 {
						if err := app.HoldKeeper.AddHold(ctx, addr, sdk.NewCoins(sdk.NewInt64Coin(denom, hh)), "c03"); err != nil {
							t.Fatalf("AddHold(%d of %d, unvested %d, kind %d): %v", hh, b, unv, kind, err)
						}
					}
					free := b - hh - unv
					var amt int64
					switch deltaKind {
					case 0:
						amt = free
					case 1:
						amt = free + 1
					case 2:
						amt = free - 1
					case 3:
						amt = b - hh // ignores the vesting lock
					case 4:
						amt = b - hh + 1
					default:
						amt = b
					}
					if amt <= 0 {
						amt = 1
					}
					before := c03Obs(e, ctx, true, addr, denom)
					_ = before
					cctx, write := ctx.CacheContext()
					err := rt.run(e, cctx, addr, other, denom, sdkmath.NewInt(amt))
					if err == nil {
						write()
					}
					obs := c03Obs(e, ctx, err == nil, addr, denom)
					term := fmt.Sprintf("CRoute %s %s %s %s %s 0 %s %s", coqStr(rt.name+" from "+c03KindNames[kind]), rt.class,
						zI64(b), zI64(hh), zI64(unv), zI64(amt), obs)
					w.Add(term, desc{"route": rt.name, "kind": c03KindNames[kind], "balance": b, "hold": hh, "unvested": unv, "amount": amt, "accepted": err == nil,
						"error_class": errClass(err), "error": fmt.Sprint(err)})
					w.Count("route:" + rt.name)
					if err == nil {
						w.Count("routes_accepted")
					} else {
						w.Count("routes_rejected")
					}
					if hh > 0 {
						w.Nontrivial(fmt.Sprintf("%s/%d/%d/%d/%d/%d", rt.name, kind, b, hh, unv, amt))
					}
				}
			}
		}
	}

	// ---------------- deleting a scope burns its coin: not while the coin is on hold ----------------
	for k := 0; k < scale(8, 200); k++ {
		ctx, _ := baseCtx.CacheContext()
		nAcc++
		a := addrN(nAcc)
		ensureAccount(app, ctx, a)
		// an account that has signed before (x/metadata takes a never-used account for a contract)
		if acc := app.AccountKeeper.GetAccount(ctx, a); acc != nil {
			_ = acc.SetSequence(1)
			app.AccountKeeper.SetAccount(ctx, acc)
		}
		specID := mdtypes.ScopeSpecMetadataAddress(uuid.NewSHA1(uuid.Nil, []byte(fmt.Sprintf("c03-spec-%d", nAcc))))
		app.MetadataKeeper.SetScopeSpecification(ctx, mdtypes.ScopeSpecification{SpecificationId: specID,
			OwnerAddresses: []string{a.String()}, PartiesInvolved: []mdtypes.PartyType{mdtypes.PartyType_PARTY_TYPE_OWNER}})
		scopeID := mdtypes.ScopeMetadataAddress(uuid.NewSHA1(uuid.Nil, []byte(fmt.Sprintf("c03-scope-%d", nAcc))))
		if err := c03Deliver(app, ctx, &mdtypes.MsgWriteScopeRequest{Scope: mdtypes.Scope{ScopeId: scopeID, SpecificationId: specID,
			Owners: []mdtypes.Party{{Address: a.String(), Role: mdtypes.PartyType_PARTY_TYPE_OWNER}}, ValueOwnerAddress: a.String()},
			Signers: []string{a.String()}}); err != nil {
			t.Fatalf("write scope: %v", err)
		}
		denom := scopeID.Denom()
		hh := int64(k % 2)
		if hh > 0 {
			if k%4 == 1 {
				// the hold comes from an ask order selling the scope
				if err := c03Deliver(app, ctx, &exchange.MsgCreateAskRequest{AskOrder: exchange.AskOrder{MarketId: e.marketID, Seller: a.String(),
					Assets: sdk.NewInt64Coin(denom, 1), Price: sdk.NewInt64Coin("pricecoin", 10)}}); err != nil {
					t.Fatalf("ask selling the scope: %v", err)
				}
			} else if err := app.HoldKeeper.AddHold(ctx, a, sdk.NewCoins(sdk.NewInt64Coin(denom, 1)), "c03"); err != nil {
				t.Fatalf("hold on the scope coin: %v", err)
			}
		}
		cctx, write := ctx.CacheContext()
		err := c03Deliver(app, cctx, &mdtypes.MsgDeleteScopeRequest{ScopeId: scopeID, Signers: []string{a.String()}})
		if err == nil {
			write()
		}
		obs := c03Obs(e, ctx, err == nil, a, denom)
		term := fmt.Sprintf("CRoute %s RSpend 1 %s 0 0 1 %s", coqStr("delete scope (burn of the scope coin) from base account"), zI64(hh), obs)
		w.Add(term, desc{"route": "delete scope", "balance": 1, "hold": hh, "accepted": err == nil, "error": fmt.Sprint(err)})
		w.Count("route:delete scope")
		if hh > 0 {
			w.Nontrivial(fmt.Sprintf("delete scope/%d", k))
		}
	}

	// ---------------- histories on the real bank + hold keepers ----------------
	nh := scale(60, 3000)
	for hi := 0; hi < nh; hi++ {
		c03History(e, r, w, hi)
	}
	w.Flush(t)
}

func errClass(err error) string {
	if err == nil {
		return ""
	}
	s := err.Error()
	switch {
	case strings.Contains(s, "panic"):
		return "panic"
	case strings.Contains(s, "spendable") || strings.Contains(s, "insufficient") || strings.Contains(s, "smaller than") || strings.Contains(s, "less than"):
		return "insufficient"
	default:
		return "other"
	}
}

func c03History(e *c03Env, r *rand.Rand, w *CaseWriter, hi int) {
	app := e.app
	ctx, _ := e.base.CacheContext()
	now := ctx.BlockTime()
	const nA, nD = 4, 3
	// denom 2 is a near namesake of denom 0: a longer denom starting with it, or its spelling in
	// another letter case (hold keys are address + denom; both are legal, different denoms)
	fam := [][2]string{{"histaaa", "histaaax"}, {"Hist/AAA", "hist/aaa"}, {"hist", "hist.x"}}[hi%3]
	denoms := []string{fam[0], e.bond, fam[1]}
	accts := make([]sdk.AccAddress, nA)
	// account 0..2 plain, account 3 continuous vesting in denom 0; plus the bonded pool as account 4
	pool := authtypes.NewModuleAddress(stakingtypes.BondedPoolName)
	for i := 0; i < nA; i++ {
		accts[i] = addrN(5000 + hi*10 + i)
		if i == 1 && hi%2 == 1 {
			// a 32-byte account whose first 20 bytes are account 0's address
			accts[i] = sdk.AccAddress(append(append([]byte{}, accts[0]...), []byte("verif32bytes")...))
		}
		if i == 3 {
			ba := authtypes.NewBaseAccountWithAddress(accts[i])
			bva, err := vesting.NewBaseVestingAccount(ba, sdk.NewCoins(sdk.NewInt64Coin(denoms[0], 600)), now.Unix()+600)
			if err != nil {
				e.t.Fatal(err)
			}
			app.AccountKeeper.SetAccount(ctx, app.AccountKeeper.NewAccount(ctx, vesting.NewContinuousVestingAccountRaw(bva, now.Unix()-600)))
		} else {
			ensureAccount(app, ctx, accts[i])
		}
		fund(e.t, app, ctx, accts[i], sdk.NewCoins(sdk.NewInt64Coin(denoms[0], int64(500+r.Intn(1000))), sdk.NewInt64Coin(denoms[1], int64(500+r.Intn(1000))),
			sdk.NewInt64Coin(denoms[2], int64(500+r.Intn(1000)))))
	}
	all := append(append([]sdk.AccAddress{}, accts...), pool)
	idx := func(a sdk.AccAddress) int {
		for i, x := range all {
			if x.Equals(a) {
				return i
			}
		}
		return -1
	}
	_ = idx
	entries := func(f func(a sdk.AccAddress, d string) sdkmath.Int) string {
		var items []string
		for i, a := range all {
			for j, d := range denoms {
				v := f(a, d)
				if !v.IsZero() {
					items = append(items, fmt.Sprintf("(%d%%N, %d%%N, %s)", i, j, zInt(v)))
				}
			}
		}
		return coqList(items)
	}
	getBal := func(a sdk.AccAddress, d string) sdkmath.Int { return app.BankKeeper.GetBalance(ctx, a, d).Amount }
	getHold := func(a sdk.AccAddress, d string) sdkmath.Int {
		c, err := app.HoldKeeper.GetHoldCoin(ctx, a, d)
		if err != nil {
			e.t.Fatal(err)
		}
		return c.Amount
	}
	getUnv := func(a sdk.AccAddress, d string) sdkmath.Int { return c03Unvested(e, ctx, a, d) }
	getSp := func(a sdk.AccAddress, d string) sdkmath.Int {
		rv := sdkmath.NewInt(-1)
		_ = try(func() error { rv = app.BankKeeper.SpendableCoins(ctx, a).AmountOf(d); return nil })
		return rv
	}
	obs := func(ok bool) string {
		return fmt.Sprintf("{| so_ok := %s; so_bal := %s; so_hold := %s; so_unv := %s; so_spend := %s |}", coqBool(ok),
			entries(getBal), entries(getHold), entries(getUnv), entries(getSp))
	}
	b0, h0, u0 := entries(getBal), entries(getHold), entries(getUnv)
	var steps []string
	var descSteps []string
	n := 8 + r.Intn(25)
	accepted := 0
	// emit vesting-lock observations as explicit steps whenever they changed
	lastUnv := map[string]string{}
	syncVesting := func() {
		for i, a := range all {
			for j, d := range denoms {
				v := getUnv(a, d)
				k := fmt.Sprintf("%d/%d", i, j)
				if lastUnv[k] == "" {
					lastUnv[k] = "0"
					if i == 3 && j == 0 {
						lastUnv[k] = "init"
					}
				}
				if lastUnv[k] == "init" {
					lastUnv[k] = v.String()
					continue
				}
				if lastUnv[k] != v.String() {
					lastUnv[k] = v.String()
					steps = append(steps, fmt.Sprintf("(OVesting %d%%N %d%%N %s, %s)", i, j, zInt(v), obs(true)))
					descSteps = append(descSteps, fmt.Sprintf("vesting lock of %d/%s now %s", i, d, v))
				}
			}
		}
	}
	syncVesting()
	for s := 0; s < n; s++ {
		ai := r.Intn(nA)
		a := accts[ai]
		dj := r.Intn(nD)
		d := denoms[dj]
		bal, hold, unv := getBal(a, d).Int64(), getHold(a, d).Int64(), getUnv(a, d).Int64()
		free := bal - hold - unv
		pick := func() int64 {
			switch r.Intn(6) {
			case 0:
				return free
			case 1:
				return free + 1
			case 2:
				return bal - hold
			case 3:
				return bal - hold + 1
			default:
				if free > 1 {
					return 1 + r.Int63n(free)
				}
				return 1 + r.Int63n(20)
			}
		}
		amt := pick()
		if amt <= 0 {
			amt = 1
		}
		coin := sdk.NewCoins(sdk.NewInt64Coin(d, amt))
		bi := (ai + 1 + r.Intn(nA-1)) % nA
		to := accts[bi]
		var term, dsc string
		var err error
		cctx, write := ctx.CacheContext()
		switch r.Intn(9) {
		case 0, 1:
			err = try(func() error { return app.BankKeeper.SendCoins(cctx, a, to, coin) })
			term = fmt.Sprintf("OSend %d%%N %d%%N %d%%N %s", ai, bi, dj, zI64(amt))
			dsc = fmt.Sprintf("send %d->%d %d%s", ai, bi, amt, d)
		case 2:
			a1 := amt / 2
			a2 := amt - a1
			ci := (bi + 1) % nA
			if ci == ai {
				ci = (ci + 1) % nA
			}
			var outs []banktypes.Output
			var mo []string
			if a1 > 0 {
				outs = append(outs, banktypes.NewOutput(to, sdk.NewCoins(sdk.NewInt64Coin(d, a1))))
				mo = append(mo, fmt.Sprintf("(%d%%N, %s)", bi, zI64(a1)))
			}
			outs = append(outs, banktypes.NewOutput(accts[ci], sdk.NewCoins(sdk.NewInt64Coin(d, a2))))
			mo = append(mo, fmt.Sprintf("(%d%%N, %s)", ci, zI64(a2)))
			err = try(func() error {
				return app.BankKeeper.InputOutputCoinsProv(cctx, []banktypes.Input{banktypes.NewInput(a, coin)}, outs)
			})
			term = fmt.Sprintf("OMulti %d%%N %s %d%%N", ai, coqList(mo), dj)
			dsc = fmt.Sprintf("multisend %d->%d,%d %d%s", ai, bi, ci, amt, d)
		case 3:
			// two inputs, one output
			ci := (ai + 1) % nA
			if ci == bi {
				ci = (ci + 1) % nA
			}
			if ci == ai {
				ci = (ci + 1) % nA
			}
			amt2 := int64(1 + r.Intn(5))
			ins := []banktypes.Input{banktypes.NewInput(a, coin), banktypes.NewInput(accts[ci], sdk.NewCoins(sdk.NewInt64Coin(d, amt2)))}
			outs := []banktypes.Output{banktypes.NewOutput(to, sdk.NewCoins(sdk.NewInt64Coin(d, amt+amt2)))}
			if ci == bi || ai == bi {
				continue
			}
			err = try(func() error { return app.BankKeeper.InputOutputCoinsProv(cctx, ins, outs) })
			term = fmt.Sprintf("OMultiIn [(%d%%N, %s); (%d%%N, %s)] %d%%N %d%%N", ai, zI64(amt), ci, zI64(amt2), bi, dj)
			dsc = fmt.Sprintf("multi-input %d,%d->%d %d+%d%s", ai, ci, bi, amt, amt2, d)
		case 4:
			if d != e.bond {
				continue
			}
			err = try(func() error {
				return app.BankKeeper.DelegateCoinsFromAccountToModule(cctx, a, stakingtypes.BondedPoolName, coin)
			})
			term = fmt.Sprintf("ODelegate %d%%N %d%%N %d%%N %s", ai, nA, dj, zI64(amt))
			dsc = fmt.Sprintf("delegate %d %d%s", ai, amt, d)
		case 5:
			if d != e.bond {
				continue
			}
			pb := getBal(pool, d).Int64()
			if pb > 0 && r.Intn(2) == 0 {
				amt = 1 + r.Int63n(pb)
			}
			coin = sdk.NewCoins(sdk.NewInt64Coin(d, amt))
			err = try(func() error {
				return app.BankKeeper.UndelegateCoinsFromModuleToAccount(cctx, stakingtypes.BondedPoolName, a, coin)
			})
			term = fmt.Sprintf("OUndelegate %d%%N %d%%N %d%%N %s", nA, ai, dj, zI64(amt))
			dsc = fmt.Sprintf("undelegate ->%d %d%s", ai, amt, d)
		case 6, 7:
			ha := amt
			if r.Intn(3) == 0 && free > 0 {
				ha = free
			}
			err = try(func() error { return app.HoldKeeper.AddHold(cctx, a, sdk.NewCoins(sdk.NewInt64Coin(d, ha)), "c03") })
			term = fmt.Sprintf("OAddHold %d%%N %d%%N %s", ai, dj, zI64(ha))
			dsc = fmt.Sprintf("add hold %d %d%s", ai, ha, d)
		default:
			ra := int64(1)
			if hold > 0 {
				ra = 1 + r.Int63n(hold+1)
			}
			err = try(func() error { return app.HoldKeeper.ReleaseHold(cctx, a, sdk.NewCoins(sdk.NewInt64Coin(d, ra))) })
			term = fmt.Sprintf("OReleaseHold %d%%N %d%%N %s", ai, dj, zI64(ra))
			dsc = fmt.Sprintf("release hold %d %d%s", ai, ra, d)
		}
		if err == nil {
			write()
			accepted++
		}
		steps = append(steps, fmt.Sprintf("(%s, %s)", term, obs(err == nil)))
		descSteps = append(descSteps, fmt.Sprintf("%s -> %v", dsc, err == nil))
		if r.Intn(6) == 0 {
			ctx = ctx.WithBlockTime(ctx.BlockTime().Add(time.Duration(30+r.Intn(200)) * time.Second))
		}
		syncVesting()
	}
	accN := make([]string, len(all))
	for i := range all {
		accN[i] = fmt.Sprintf("%d%%N", i)
	}
	term := fmt.Sprintf("CHist %s [0%%N; 1%%N; 2%%N] %s %s %s %s", coqList(accN), b0, h0, u0, coqList(steps))
	if len(accts[1]) == 32 {
		w.Count("histories_with_a_32_byte_account_extending_a_20_byte_one")
	}
	w.Add(term, map[string]any{"history": hi, "steps": descSteps})
	w.Count("histories")
	w.CountN("history_steps", int64(len(steps)))
	w.CountN("history_steps_accepted", int64(accepted))
	w.Nontrivial(fmt.Sprintf("hist/%d/%s", hi, strings.Join(descSteps, ";")))
	_ = big.NewInt
}
