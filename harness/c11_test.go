//go:build c11

package harness

import (
	"crypto/sha256"
	"encoding/hex"
	"fmt"
	"math/rand"
	"reflect"
	"sort"
	"strings"
	"testing"

	sdkmath "cosmossdk.io/math"
	storetypes "cosmossdk.io/store/types"
	sdk "github.com/cosmos/cosmos-sdk/types"
	authtypes "github.com/cosmos/cosmos-sdk/x/auth/types"
	govtypes "github.com/cosmos/cosmos-sdk/x/gov/types"
	"github.com/cosmos/gogoproto/proto"

	simapp "github.com/provenance-io/provenance/app"
	"github.com/provenance-io/provenance/x/exchange"
)

// ---------------------------------------------------------------- shared state of the C11 harness

type c11Env struct {
	t    *testing.T
	app  *simapp.App
	base sdk.Context
	w    *CaseWriter
	r    *rand.Rand

	auth   string // governance authority (bech32)
	ids    map[string]int64
	seller, buyer, committer, recipient, grantee sdk.AccAddress
	askID, bidID                                 uint64
	ask2ID, bid2ID                               uint64 // the same in market 2
}

var c11Perms = []exchange.Permission{
	exchange.Permission_settle, exchange.Permission_set_ids, exchange.Permission_cancel, exchange.Permission_withdraw,
	exchange.Permission_update, exchange.Permission_permissions, exchange.Permission_attributes,
}

var c11PermNames = map[exchange.Permission]string{
	exchange.Permission_settle: "PSettle", exchange.Permission_set_ids: "PSetIds", exchange.Permission_cancel: "PCancel",
	exchange.Permission_withdraw: "PWithdraw", exchange.Permission_update: "PUpdate",
	exchange.Permission_permissions: "PPermissions", exchange.Permission_attributes: "PAttributes",
}

// id interns an address: the authority is 0, everything else gets the next number.
func (e *c11Env) id(addr string) int64 {
	if addr == e.auth {
		return 0
	}
	if v, ok := e.ids[addr]; ok {
		return v
	}
	v := int64(len(e.ids) + 1)
	e.ids[addr] = v
	return v
}

func nTerm(v int64) string { return fmt.Sprintf("%d%%N", v) }

func (e *c11Env) send(ctx sdk.Context, msg sdk.Msg) error {
	h := e.app.MsgServiceRouter().Handler(msg)
	if h == nil {
		return fmt.Errorf("no handler for %T", msg)
	}
	return try(func() error {
		_, err := h(ctx, msg)
		return err
	})
}

// dumpHash is a digest of every key/value of every KV store mounted in the app as seen by ctx.
func (e *c11Env) dumpHash(ctx sdk.Context) string {
	keys := e.app.GetStoreKeys()
	sort.Slice(keys, func(i, j int) bool { return keys[i].Name() < keys[j].Name() })
	h := sha256.New()
	for _, k := range keys {
		kv, ok := k.(*storetypes.KVStoreKey)
		if !ok {
			continue
		}
		h.Write([]byte("#" + kv.Name() + "\n"))
		it := ctx.KVStore(kv).Iterator(nil, nil)
		for ; it.Valid(); it.Next() {
			kb, vb := it.Key(), it.Value()
			h.Write([]byte(fmt.Sprintf("%d:%d:", len(kb), len(vb))))
			h.Write(kb)
			h.Write(vb)
		}
		it.Close()
	}
	return hex.EncodeToString(h.Sum(nil))
}

// grants reads the permission entries of markets 1 and 2 back from the real store (through the
// prefix iteration of GetAccessGrants, not through HasPermission).
func (e *c11Env) grants(ctx sdk.Context) []string {
	var out []string
	for _, m := range []uint32{1, 2} {
		for _, ag := range e.app.ExchangeKeeper.GetAccessGrants(ctx, m) {
			for _, p := range ag.Permissions {
				out = append(out, fmt.Sprintf("(%s, %s, %s)", nTerm(int64(m)), nTerm(e.id(ag.Address)), c11PermNames[p]))
			}
		}
	}
	return out
}

func (e *c11Env) coins(s string) sdk.Coins {
	c, err := sdk.ParseCoinsNormalized(s)
	if err != nil {
		e.t.Fatalf("coins %q: %v", s, err)
	}
	return c
}

func (e *c11Env) must(err error, what string) {
	if err != nil {
		e.t.Fatalf("%s: %v", what, err)
	}
}

func subsetPerms(mask int) []exchange.Permission {
	var out []exchange.Permission
	for i, p := range c11Perms {
		if mask&(1<<i) != 0 {
			out = append(out, p)
		}
	}
	return out
}

// ---------------------------------------------------------------- setup

func (e *c11Env) setup() {
	ctx := e.base
	k := e.app.ExchangeKeeper
	e.seller, e.buyer, e.committer, e.recipient, e.grantee = addrN(101), addrN(102), addrN(103), addrN(104), addrN(105)
	for _, a := range []sdk.AccAddress{e.seller, e.buyer, e.committer, e.recipient, e.grantee, addrN(110), addrN(111), addrN(112)} {
		ensureAccount(e.app, ctx, a)
		fund(e.t, e.app, ctx, a, e.coins("100000apple,100000peach,100000cherry,100000nhash"))
	}
	allV := exchange.AccessGrant{Address: addrN(111).String(), Permissions: append([]exchange.Permission{}, c11Perms...)}
	for _, m := range []uint32{1, 2} {
		mk := exchange.Market{
			MarketId: m, MarketDetails: exchange.MarketDetails{Name: fmt.Sprintf("c11 market %d", m)},
			AcceptingOrders: true, AllowUserSettlement: false, AcceptingCommitments: true,
			FeeCreateCommitmentFlat: []sdk.Coin{sdk.NewInt64Coin("nhash", 1)},
		}
		if m == 2 {
			mk.AccessGrants = []exchange.AccessGrant{allV}
		}
		_, err := k.CreateMarket(ctx, mk)
		e.must(err, "create market")
		fund(e.t, e.app, ctx, exchange.GetMarketAddress(m), e.coins("5000nhash"))
	}
	var err error
	e.askID, err = k.CreateAskOrder(ctx, exchange.AskOrder{MarketId: 1, Seller: e.seller.String(),
		Assets: sdk.NewInt64Coin("apple", 10), Price: sdk.NewInt64Coin("peach", 100)}, nil)
	e.must(err, "create ask")
	e.bidID, err = k.CreateBidOrder(ctx, exchange.BidOrder{MarketId: 1, Buyer: e.buyer.String(),
		Assets: sdk.NewInt64Coin("apple", 10), Price: sdk.NewInt64Coin("peach", 100)}, nil)
	e.must(err, "create bid")
	e.must(k.AddCommitment(ctx, 1, e.committer, e.coins("50cherry"), ""), "commit")
	e.ask2ID, err = k.CreateAskOrder(ctx, exchange.AskOrder{MarketId: 2, Seller: e.seller.String(),
		Assets: sdk.NewInt64Coin("apple", 10), Price: sdk.NewInt64Coin("peach", 100)}, nil)
	e.must(err, "create ask 2")
	e.bid2ID, err = k.CreateBidOrder(ctx, exchange.BidOrder{MarketId: 2, Buyer: e.buyer.String(),
		Assets: sdk.NewInt64Coin("apple", 10), Price: sdk.NewInt64Coin("peach", 100)}, nil)
	e.must(err, "create bid 2")
	e.must(k.AddCommitment(ctx, 2, e.committer, e.coins("50cherry"), ""), "commit 2")
	ensureAccount(e.app, ctx, addrN(113))
	fund(e.t, e.app, ctx, addrN(113), e.coins("100000nhash"))
}

// the guarded endpoints: each request is valid for market 1 as set up, so that the outcome is
// decided by the guard alone.
type c11Endpoint struct {
	name string
	msg  func(e *c11Env, caller string) sdk.Msg
}

var c11Endpoints = []c11Endpoint{
	{"MarketSettle", func(e *c11Env, c string) sdk.Msg {
		return &exchange.MsgMarketSettleRequest{Admin: c, MarketId: 1, AskOrderIds: []uint64{e.askID}, BidOrderIds: []uint64{e.bidID}}
	}},
	{"MarketCommitmentSettle", func(e *c11Env, c string) sdk.Msg {
		return &exchange.MsgMarketCommitmentSettleRequest{Admin: c, MarketId: 1,
			Inputs:  []exchange.AccountAmount{{Account: e.committer.String(), Amount: e.coins("20cherry")}},
			Outputs: []exchange.AccountAmount{{Account: e.recipient.String(), Amount: e.coins("20cherry")}}}
	}},
	{"MarketReleaseCommitments", func(e *c11Env, c string) sdk.Msg {
		return &exchange.MsgMarketReleaseCommitmentsRequest{Admin: c, MarketId: 1,
			ToRelease: []exchange.AccountAmount{{Account: e.committer.String(), Amount: e.coins("5cherry")}}}
	}},
	{"MarketSetOrderExternalID", func(e *c11Env, c string) sdk.Msg {
		return &exchange.MsgMarketSetOrderExternalIDRequest{Admin: c, MarketId: 1, OrderId: e.askID, ExternalId: "c11-new-id"}
	}},
	{"MarketWithdraw", func(e *c11Env, c string) sdk.Msg {
		return &exchange.MsgMarketWithdrawRequest{Admin: c, MarketId: 1, ToAddress: e.recipient.String(), Amount: e.coins("7nhash")}
	}},
	{"MarketUpdateDetails", func(e *c11Env, c string) sdk.Msg {
		return &exchange.MsgMarketUpdateDetailsRequest{Admin: c, MarketId: 1, MarketDetails: exchange.MarketDetails{Name: "renamed", Description: "d"}}
	}},
	{"MarketUpdateAcceptingOrders", func(e *c11Env, c string) sdk.Msg {
		return &exchange.MsgMarketUpdateAcceptingOrdersRequest{Admin: c, MarketId: 1, AcceptingOrders: false}
	}},
	{"MarketUpdateUserSettle", func(e *c11Env, c string) sdk.Msg {
		return &exchange.MsgMarketUpdateUserSettleRequest{Admin: c, MarketId: 1, AllowUserSettlement: true}
	}},
	{"MarketUpdateAcceptingCommitments", func(e *c11Env, c string) sdk.Msg {
		return &exchange.MsgMarketUpdateAcceptingCommitmentsRequest{Admin: c, MarketId: 1, AcceptingCommitments: false}
	}},
	{"MarketUpdateIntermediaryDenom", func(e *c11Env, c string) sdk.Msg {
		return &exchange.MsgMarketUpdateIntermediaryDenomRequest{Admin: c, MarketId: 1, IntermediaryDenom: "newinterm"}
	}},
	{"MarketManagePermissions", func(e *c11Env, c string) sdk.Msg {
		return &exchange.MsgMarketManagePermissionsRequest{Admin: c, MarketId: 1,
			ToGrant: []exchange.AccessGrant{{Address: e.grantee.String(), Permissions: []exchange.Permission{exchange.Permission_settle}}}}
	}},
	{"MarketManageReqAttrs", func(e *c11Env, c string) sdk.Msg {
		return &exchange.MsgMarketManageReqAttrsRequest{Admin: c, MarketId: 1, CreateAskToAdd: []string{"kyc.c11.test"}}
	}},
	// deprecated endpoints: nobody passes
	{"MarketUpdateEnabled", func(e *c11Env, c string) sdk.Msg {
		return &exchange.MsgMarketUpdateEnabledRequest{Admin: c, MarketId: 1, AcceptingOrders: false} //nolint:staticcheck
	}},
}

// ---------------------------------------------------------------- 1. endpoint x permission-subset x caller-kind matrix

func (e *c11Env) matrix() {
	type kind struct {
		name   string
		caller string
	}
	kinds := []kind{
		{"unrelated", addrN(110).String()},
		{"all_on_other_market", addrN(111).String()}, // holds all seven permissions on market 2
		{"authority", e.auth},
	}
	for _, kd := range kinds {
		for mask := 0; mask < 128; mask++ {
			ctx1, _ := e.base.CacheContext()
			if mask != 0 {
				err := e.app.ExchangeKeeper.UpdatePermissions(ctx1, &exchange.MsgMarketManagePermissionsRequest{Admin: e.auth, MarketId: 1,
					ToGrant: []exchange.AccessGrant{{Address: kd.caller, Permissions: subsetPerms(mask)}}})
				e.must(err, "grant subset")
			}
			st := coqList(e.grants(ctx1))
			h1 := e.dumpHash(ctx1)
			caller := nTerm(e.id(kd.caller))
			for _, ep := range c11Endpoints {
				ctx, _ := ctx1.CacheContext()
				err := e.send(ctx, ep.msg(e, kd.caller))
				obs := err == nil
				wrote := false
				if !obs {
					wrote = e.dumpHash(ctx) != h1
				}
				e.w.Add(fmt.Sprintf("CMatrix %s 0%%N %s 1%%N %s %s %s", coqStr(ep.name), st, caller, coqBool(obs), coqBool(wrote)),
					map[string]any{"kind": "matrix", "endpoint": ep.name, "caller": kd.name, "granted_on_market_1": permNames(mask), "passed": obs, "rejected_call_wrote": wrote})
				e.w.Count("matrix_cases")
				if obs {
					e.w.Count("matrix_passed")
				} else {
					e.w.Count("matrix_rejected")
				}
				e.w.Nontrivial(fmt.Sprintf("m/%s/%s/%d", ep.name, kd.name, mask))
			}
			// CancelOrder of the seller's order by this caller (a non-owner)
			{
				ctx, _ := ctx1.CacheContext()
				err := e.send(ctx, &exchange.MsgCancelOrderRequest{Signer: kd.caller, OrderId: e.askID})
				e.cancelCase(ctx, st, kd.caller, err == nil, kd.name, mask)
			}
		}
	}
	// the order's owner, whatever he holds
	for mask := 0; mask < 128; mask++ {
		ctx1, _ := e.base.CacheContext()
		if mask != 0 {
			e.must(e.app.ExchangeKeeper.UpdatePermissions(ctx1, &exchange.MsgMarketManagePermissionsRequest{Admin: e.auth, MarketId: 1,
				ToGrant: []exchange.AccessGrant{{Address: e.seller.String(), Permissions: subsetPerms(mask)}}}), "grant subset")
		}
		st := coqList(e.grants(ctx1))
		ctx, _ := ctx1.CacheContext()
		err := e.send(ctx, &exchange.MsgCancelOrderRequest{Signer: e.seller.String(), OrderId: e.askID})
		e.cancelCase(ctx, st, e.seller.String(), err == nil, "owner", mask)
	}
}

func permNames(mask int) []string {
	out := []string{}
	for _, p := range subsetPerms(mask) {
		out = append(out, p.SimpleString())
	}
	return out
}

func (e *c11Env) cancelCase(ctx sdk.Context, st, signer string, obs bool, kind string, mask int) {
	o, _ := e.app.ExchangeKeeper.GetOrder(ctx, e.askID)
	still := o != nil
	e.w.Add(fmt.Sprintf("CCancel 0%%N %s {| o_id := %s; o_market := 1%%N; o_owner := %s |} %s %s %s",
		st, nTerm(int64(e.askID)), nTerm(e.id(e.seller.String())), nTerm(e.id(signer)), coqBool(obs), coqBool(still)),
		map[string]any{"kind": "cancel_order", "signer": kind, "granted_on_market_1": permNames(mask), "passed": obs, "order_still_there": still})
	e.w.Count("cancel_cases")
	if obs {
		e.w.Count("cancel_passed")
	}
	e.w.Nontrivial(fmt.Sprintf("c/%s/%d", kind, mask))
}

// ---------------------------------------------------------------- 1b. cross-market targets

// itemState renders the orders and the commitment of one market as seen by ctx.
func (e *c11Env) itemState(ctx sdk.Context, m uint32) string {
	ask, bid := e.askID, e.bidID
	if m == 2 {
		ask, bid = e.ask2ID, e.bid2ID
	}
	var sb strings.Builder
	for _, id := range []uint64{ask, bid} {
		o, err := e.app.ExchangeKeeper.GetOrder(ctx, id)
		if err != nil || o == nil {
			fmt.Fprintf(&sb, "order %d: none;", id)
		} else {
			fmt.Fprintf(&sb, "order %d: %s;", id, o.String())
		}
	}
	fmt.Fprintf(&sb, "commitment: %s", e.app.ExchangeKeeper.GetCommitmentAmount(ctx, m, e.committer))
	return sb.String()
}

// cross: the request names market reqM (where the caller holds a subset of the permissions) but
// its target item - the order to set an id on / settle / cancel, the commitment - belongs to itemM.
func (e *c11Env) cross() {
	caller := addrN(113).String()
	orders := map[uint32][2]uint64{1: {e.askID, e.bidID}, 2: {e.ask2ID, e.bid2ID}}
	type variant struct {
		reqM, itemM uint32
		caller      string
		masks       int
	}
	variants := []variant{{2, 1, caller, 128}, {1, 2, caller, 128}, {1, 1, caller, 128},
		{2, 1, e.auth, 1}, {1, 2, e.auth, 1},
		{1, 2, addrN(111).String(), 1}} // holds everything on market 2, names market 1 (where he holds nothing) for a market-2 item
	for _, v := range variants {
		for mask := 0; mask < v.masks; mask++ {
			ctx1, _ := e.base.CacheContext()
			if mask != 0 {
				e.must(e.app.ExchangeKeeper.UpdatePermissions(ctx1, &exchange.MsgMarketManagePermissionsRequest{Admin: e.auth, MarketId: v.reqM,
					ToGrant: []exchange.AccessGrant{{Address: v.caller, Permissions: subsetPerms(mask)}}}), "grant subset")
			}
			st := coqList(e.grants(ctx1))
			ids := orders[v.itemM]
			type req struct {
				name, what string
				msg        sdk.Msg
			}
			reqs := []req{
				{"MarketSetOrderExternalID", "ask order", &exchange.MsgMarketSetOrderExternalIDRequest{Admin: v.caller, MarketId: v.reqM, OrderId: ids[0], ExternalId: "c11-cross-id"}},
				{"MarketSetOrderExternalID", "bid order", &exchange.MsgMarketSetOrderExternalIDRequest{Admin: v.caller, MarketId: v.reqM, OrderId: ids[1], ExternalId: "c11-cross-id"}},
				{"MarketSettle", "ask+bid orders", &exchange.MsgMarketSettleRequest{Admin: v.caller, MarketId: v.reqM, AskOrderIds: []uint64{ids[0]}, BidOrderIds: []uint64{ids[1]}}},
			}
			if v.reqM == v.itemM {
				reqs = append(reqs,
					req{"MarketReleaseCommitments", "commitment", &exchange.MsgMarketReleaseCommitmentsRequest{Admin: v.caller, MarketId: v.reqM,
						ToRelease: []exchange.AccountAmount{{Account: e.committer.String(), Amount: e.coins("5cherry")}}}},
					req{"MarketCommitmentSettle", "commitment", &exchange.MsgMarketCommitmentSettleRequest{Admin: v.caller, MarketId: v.reqM,
						Inputs:  []exchange.AccountAmount{{Account: e.committer.String(), Amount: e.coins("20cherry")}},
						Outputs: []exchange.AccountAmount{{Account: e.recipient.String(), Amount: e.coins("20cherry")}}}})
			}
			for _, rq := range reqs {
				ctx, _ := ctx1.CacheContext()
				before := e.itemState(ctx, v.itemM)
				err := e.send(ctx, rq.msg)
				changed := err == nil && e.itemState(ctx, v.itemM) != before
				e.w.Add(fmt.Sprintf("CCross %s 0%%N %s %s %s %s %s", coqStr(rq.name), st, nTerm(int64(v.reqM)), nTerm(int64(v.itemM)), nTerm(e.id(v.caller)), coqBool(changed)),
					map[string]any{"kind": "cross_market", "endpoint": rq.name, "target": rq.what, "request_market": v.reqM, "item_market": v.itemM,
						"caller_is_authority": v.caller == e.auth, "granted_on_request_market": permNames(mask), "passed": err == nil, "item_changed": changed})
				e.w.Count("cross_cases")
				if changed {
					e.w.Count("cross_item_changed")
				}
				e.w.Nontrivial(fmt.Sprintf("x/%s/%s/%d/%d/%s/%d", rq.name, rq.what, v.reqM, v.itemM, v.caller, mask))
			}
			// CancelOrder has no market field: the caller's permissions are on reqM, the order is in itemM
			for i, owner := range []sdk.AccAddress{e.seller, e.buyer} {
				ctx, _ := ctx1.CacheContext()
				err := e.send(ctx, &exchange.MsgCancelOrderRequest{Signer: v.caller, OrderId: ids[i]})
				o, _ := e.app.ExchangeKeeper.GetOrder(ctx, ids[i])
				e.w.Add(fmt.Sprintf("CCancel 0%%N %s {| o_id := %s; o_market := %s; o_owner := %s |} %s %s %s",
					st, nTerm(int64(ids[i])), nTerm(int64(v.itemM)), nTerm(e.id(owner.String())), nTerm(e.id(v.caller)), coqBool(err == nil), coqBool(o != nil)),
					map[string]any{"kind": "cancel_order_cross_market", "order": []string{"ask", "bid"}[i], "order_market": v.itemM, "permissions_on_market": v.reqM,
						"granted": permNames(mask), "passed": err == nil, "order_still_there": o != nil})
				e.w.Count("cancel_cases")
				if err == nil {
					e.w.Count("cancel_passed")
				}
				e.w.Nontrivial(fmt.Sprintf("cx/%d/%d/%d/%s/%d", i, v.reqM, v.itemM, v.caller, mask))
			}
		}
	}
}

// ---------------------------------------------------------------- 2. payments

type c11Pay struct {
	src, ext, tgt string
	srcAmt, tgtAmt string
}

func (e *c11Env) payAccounts() (s, t, x, w sdk.AccAddress) {
	return addrN(120), addrN(121), addrN(122), addrN(123)
}

func (e *c11Env) extID(ext string) int64 {
	return e.id("ext:" + ext)
}

func (e *c11Env) optAddr(a string) string {
	if a == "" {
		return "None"
	}
	return "(Some " + nTerm(e.id(a)) + ")"
}

func (e *c11Env) listPayments(ctx sdk.Context) (string, map[string]*exchange.Payment) {
	var items []string
	byKey := map[string]*exchange.Payment{}
	e.app.ExchangeKeeper.IteratePayments(ctx, func(p *exchange.Payment) bool {
		items = append(items, fmt.Sprintf("{| p_source := %s; p_ext := %s; p_target := %s |}", nTerm(e.id(p.Source)), nTerm(e.extID(p.ExternalId)), e.optAddr(p.Target)))
		cp := *p
		byKey[p.Source+"/"+p.ExternalId] = &cp
		return false
	})
	return coqList(items), byKey
}

type c11PayOp struct {
	term string
	msg  sdk.Msg
	desc map[string]any
}

func (e *c11Env) nList(vals []int64) string {
	var s []string
	for _, v := range vals {
		s = append(s, nTerm(v))
	}
	return coqList(s)
}

// payOp builds the message and its model term; the caller is always the message's signer field.
func (e *c11Env) payOpAccept(signer string, src, ext string, existing map[string]*exchange.Payment) c11PayOp {
	p := exchange.Payment{Source: src, Target: signer, ExternalId: ext}
	if ex, ok := existing[src+"/"+ext]; ok {
		p.SourceAmount, p.TargetAmount = ex.SourceAmount, ex.TargetAmount
	} else {
		p.SourceAmount = e.coins("1plum")
	}
	return c11PayOp{fmt.Sprintf("(PyAccept %s %s %s)", nTerm(e.id(signer)), nTerm(e.id(src)), nTerm(e.extID(ext))),
		&exchange.MsgAcceptPaymentRequest{Payment: p}, map[string]any{"op": "AcceptPayment", "signer": e.id(signer), "source": e.id(src), "external_id": ext}}
}

func (e *c11Env) payOpReject(signer, src, ext string) c11PayOp {
	return c11PayOp{fmt.Sprintf("(PyReject %s %s %s)", nTerm(e.id(signer)), nTerm(e.id(src)), nTerm(e.extID(ext))),
		&exchange.MsgRejectPaymentRequest{Target: signer, Source: src, ExternalId: ext}, map[string]any{"op": "RejectPayment", "signer": e.id(signer), "source": e.id(src), "external_id": ext}}
}

func (e *c11Env) payOpRejectAll(signer string, srcs []string) c11PayOp {
	var ids []int64
	for _, s := range srcs {
		ids = append(ids, e.id(s))
	}
	return c11PayOp{fmt.Sprintf("(PyRejectAll %s %s)", nTerm(e.id(signer)), e.nList(ids)),
		&exchange.MsgRejectPaymentsRequest{Target: signer, Sources: srcs}, map[string]any{"op": "RejectPayments", "signer": e.id(signer), "sources": ids}}
}

func (e *c11Env) payOpCancel(signer string, exts []string) c11PayOp {
	var ids []int64
	for _, s := range exts {
		ids = append(ids, e.extID(s))
	}
	return c11PayOp{fmt.Sprintf("(PyCancel %s %s)", nTerm(e.id(signer)), e.nList(ids)),
		&exchange.MsgCancelPaymentsRequest{Source: signer, ExternalIds: exts}, map[string]any{"op": "CancelPayments", "signer": e.id(signer), "external_ids": exts}}
}

func (e *c11Env) payOpRetarget(signer, ext, nt string) c11PayOp {
	return c11PayOp{fmt.Sprintf("(PyRetarget %s %s %s)", nTerm(e.id(signer)), nTerm(e.extID(ext)), e.optAddr(nt)),
		&exchange.MsgChangePaymentTargetRequest{Source: signer, ExternalId: ext, NewTarget: nt}, map[string]any{"op": "ChangePaymentTarget", "signer": e.id(signer), "external_id": ext, "new_target": nt != ""}}
}

func (e *c11Env) payOpCreate(signer, ext, tgt string) c11PayOp {
	p := exchange.Payment{Source: signer, SourceAmount: e.coins("3plum"), Target: tgt, ExternalId: ext}
	if tgt != "" {
		p.TargetAmount = e.coins("2pear")
	}
	return c11PayOp{fmt.Sprintf("(PyCreate %s %s %s)", nTerm(e.id(signer)), nTerm(e.extID(ext)), e.optAddr(tgt)),
		&exchange.MsgCreatePaymentRequest{Payment: p}, map[string]any{"op": "CreatePayment", "signer": e.id(signer), "external_id": ext, "has_target": tgt != ""}}
}

func (e *c11Env) payments() {
	S, T, X, W := e.payAccounts()
	ctx0, _ := e.base.CacheContext()
	for _, a := range []sdk.AccAddress{S, T, X, W} {
		ensureAccount(e.app, ctx0, a)
		fund(e.t, e.app, ctx0, a, e.coins("100000plum,100000pear,100000nhash"))
	}
	s, t, x, w := S.String(), T.String(), X.String(), W.String()
	initial := []exchange.Payment{
		{Source: s, SourceAmount: e.coins("10plum"), Target: t, TargetAmount: e.coins("5pear"), ExternalId: "e1"},
		{Source: x, SourceAmount: e.coins("10plum"), Target: t, ExternalId: "e1"},
		{Source: t, SourceAmount: e.coins("3pear"), Target: s, TargetAmount: e.coins("2plum"), ExternalId: "e2"},
		{Source: s, SourceAmount: e.coins("10plum"), ExternalId: "e3"},
	}
	for i := range initial {
		e.must(e.app.ExchangeKeeper.CreatePayment(ctx0, &initial[i]), "create payment")
	}
	stTerm, existing := e.listPayments(ctx0)

	var ops []c11PayOp
	keys := [][2]string{{s, "e1"}, {x, "e1"}, {t, "e2"}, {s, "e3"}, {w, "e9"}}
	for _, signer := range []string{s, t, x, e.auth} {
		for _, k := range keys {
			ops = append(ops, e.payOpAccept(signer, k[0], k[1], existing), e.payOpReject(signer, k[0], k[1]))
		}
		for _, srcs := range [][]string{{s}, {x}, {s, x}, {t}, {t, s}} {
			ops = append(ops, e.payOpRejectAll(signer, srcs))
		}
		for _, exts := range [][]string{{"e1"}, {"e2"}, {"e3"}, {"e1", "e3"}, {"e9"}} {
			ops = append(ops, e.payOpCancel(signer, exts))
		}
		for _, ext := range []string{"e1", "e2", "e3"} {
			for _, nt := range []string{w, "", t} {
				ops = append(ops, e.payOpRetarget(signer, ext, nt))
			}
		}
	}
	for _, op := range ops {
		ctx, _ := ctx0.CacheContext()
		err := e.send(ctx, op.msg)
		after, _ := e.listPayments(ctx)
		op.desc["kind"] = "payment"
		op.desc["passed"] = err == nil
		e.w.Add(fmt.Sprintf("CPayment %s %s %s %s", stTerm, op.term, coqBool(err == nil), after), op.desc)
		e.w.Count("payment_cases")
		if err == nil {
			e.w.Count("payment_passed")
		}
		e.w.Nontrivial("p/" + op.term)
	}

	// random histories of payment operations by S, T, X
	nh := scale(60, 1500)
	people := []string{s, t, x}
	exts := []string{"h1", "h2", "h3"}
	for h := 0; h < nh; h++ {
		hctx, _ := ctx0.CacheContext()
		st0, _ := e.listPayments(hctx)
		var steps []string
		var descs []map[string]any
		okCount := 0
		for i := 0; i < 10; i++ {
			_, cur := e.listPayments(hctx)
			var curKeys []string
			for k := range cur {
				curKeys = append(curKeys, k)
			}
			sort.Strings(curKeys)
			signer := people[e.r.Intn(3)]
			var op c11PayOp
			pick := func() *exchange.Payment {
				if len(curKeys) == 0 {
					return &exchange.Payment{Source: s, ExternalId: "none"}
				}
				return cur[curKeys[e.r.Intn(len(curKeys))]]
			}
			p := pick()
			role := e.r.Intn(10) < 7 // act in the right role most of the time
			switch e.r.Intn(6) {
			case 0:
				tgt := ""
				if e.r.Intn(4) != 0 {
					tgt = people[e.r.Intn(3)]
				}
				op = e.payOpCreate(signer, append(exts, "e1", "e3")[e.r.Intn(5)], tgt)
			case 1:
				if role && p.Target != "" {
					signer = p.Target
				}
				op = e.payOpAccept(signer, p.Source, p.ExternalId, cur)
			case 2:
				if role && p.Target != "" {
					signer = p.Target
				}
				op = e.payOpReject(signer, p.Source, p.ExternalId)
			case 3:
				if role && p.Target != "" {
					signer = p.Target
				}
				srcs := []string{p.Source}
				if e.r.Intn(3) == 0 {
					srcs = append(srcs, people[e.r.Intn(3)])
				}
				op = e.payOpRejectAll(signer, srcs)
			case 4:
				if role {
					signer = p.Source
				}
				ids := []string{p.ExternalId}
				if e.r.Intn(3) == 0 {
					ids = append(ids, append(exts, "e1")[e.r.Intn(4)])
				}
				op = e.payOpCancel(signer, ids)
			default:
				if role {
					signer = p.Source
				}
				nt := ""
				if e.r.Intn(4) != 0 {
					nt = append(people, w)[e.r.Intn(4)]
				}
				op = e.payOpRetarget(signer, p.ExternalId, nt)
			}
			sctx, write := hctx.CacheContext()
			err := e.send(sctx, op.msg)
			after, _ := e.listPayments(sctx)
			if err == nil {
				write()
				okCount++
				e.w.Count("payment_history_ops_accepted")
			}
			e.w.Count("payment_history_ops")
			steps = append(steps, fmt.Sprintf("(%s, %s, %s)", op.term, coqBool(err == nil), after))
			op.desc["passed"] = err == nil
			descs = append(descs, op.desc)
		}
		e.w.Add(fmt.Sprintf("CPayHist %s %s", st0, coqList(steps)), map[string]any{"kind": "payment_history", "steps": descs})
		e.w.Count("payment_histories")
		if okCount > 0 {
			e.w.Nontrivial(fmt.Sprintf("ph/%d/%s", h, strings.Join(steps, "")))
		}
	}
}

// ---------------------------------------------------------------- 3. sequences of MarketManagePermissions with a frame check

func (e *c11Env) grantsTerm(ags []exchange.AccessGrant) string {
	var items []string
	for _, ag := range ags {
		var ps []string
		for _, p := range ag.Permissions {
			ps = append(ps, c11PermNames[p])
		}
		items = append(items, fmt.Sprintf("(%s, %s)", nTerm(e.id(ag.Address)), coqList(ps)))
	}
	return coqList(items)
}

func (e *c11Env) manageHistories() {
	accts := []string{addrN(130).String(), addrN(131).String(), addrN(132).String(), addrN(133).String()}
	P, Q, U := addrN(134).String(), addrN(135).String(), addrN(136).String()
	everyone := append(append([]string{}, accts...), P, Q, U)
	ctx0, _ := e.base.CacheContext()
	allBut := func(skip exchange.Permission) []exchange.Permission {
		var out []exchange.Permission
		for _, p := range c11Perms {
			if p != skip {
				out = append(out, p)
			}
		}
		return out
	}
	for _, m := range []uint32{1, 2} {
		e.must(e.app.ExchangeKeeper.UpdatePermissions(ctx0, &exchange.MsgMarketManagePermissionsRequest{Admin: e.auth, MarketId: m,
			ToGrant: []exchange.AccessGrant{
				{Address: P, Permissions: []exchange.Permission{exchange.Permission_permissions}},
				{Address: Q, Permissions: allBut(exchange.Permission_permissions)},
				{Address: accts[0], Permissions: []exchange.Permission{exchange.Permission_settle, exchange.Permission_cancel}},
				{Address: accts[1], Permissions: []exchange.Permission{exchange.Permission_update}},
			}}), "manage setup")
	}
	var universe []string
	for _, m := range []int64{1, 2} {
		for _, a := range append(append([]string{}, everyone...), addrN(111).String()) {
			for _, p := range c11Perms {
				universe = append(universe, fmt.Sprintf("(%s, %s, %s)", nTerm(m), nTerm(e.id(a)), c11PermNames[p]))
			}
		}
	}
	uniTerm := coqList(universe)
	nh := scale(150, 4000)
	for h := 0; h < nh; h++ {
		hctx, _ := ctx0.CacheContext()
		st0 := coqList(e.grants(hctx))
		var steps []string
		var descs []map[string]any
		accepted := 0
		for i := 0; i < 8; i++ {
			m := uint32(1 + e.r.Intn(2))
			var admin string
			switch e.r.Intn(10) {
			case 0, 1, 2:
				admin = e.auth
			case 3, 4, 5, 6:
				admin = P
			case 7:
				admin = Q
			case 8:
				admin = accts[e.r.Intn(len(accts))] // may have been given the permission earlier
			default:
				admin = U
			}
			has := map[string][]exchange.Permission{}
			for _, ag := range e.app.ExchangeKeeper.GetAccessGrants(hctx, m) {
				has[ag.Address] = ag.Permissions
			}
			lacks := func(a string) []exchange.Permission {
				var out []exchange.Permission
				for _, p := range c11Perms {
					found := false
					for _, q := range has[a] {
						if q == p {
							found = true
						}
					}
					if !found {
						out = append(out, p)
					}
				}
				return out
			}
			sub := func(ps []exchange.Permission) []exchange.Permission {
				var out []exchange.Permission
				for _, p := range ps {
					if e.r.Intn(2) == 0 {
						out = append(out, p)
					}
				}
				if len(out) == 0 && len(ps) > 0 {
					out = append(out, ps[e.r.Intn(len(ps))])
				}
				return out
			}
			req := &exchange.MsgMarketManagePermissionsRequest{Admin: admin, MarketId: m}
			used := map[string]bool{}
			shuffled := append([]string{}, everyone...)
			e.r.Shuffle(len(shuffled), func(i, j int) { shuffled[i], shuffled[j] = shuffled[j], shuffled[i] })
			allValid := e.r.Intn(10) < 6
			for _, a := range shuffled {
				// a request is either valid throughout, or each item is invalid with probability 0.3
				// (the invalid ones make UpdatePermissions fail after the earlier items were written)
				valid := allValid || e.r.Intn(10) < 7
				switch e.r.Intn(6) {
				case 0: // revoke all
					if (len(has[a]) > 0) == valid && !used[a] {
						req.RevokeAll = append(req.RevokeAll, a)
						used[a] = true
					}
				case 1: // revoke some
					if used[a] {
						continue
					}
					if valid && len(has[a]) > 0 {
						req.ToRevoke = append(req.ToRevoke, exchange.AccessGrant{Address: a, Permissions: sub(has[a])})
						used[a] = true
					} else if !valid && len(lacks(a)) > 0 {
						req.ToRevoke = append(req.ToRevoke, exchange.AccessGrant{Address: a, Permissions: sub(lacks(a))})
						used[a] = true
					}
				case 2, 3: // grant some
					if used[a] {
						continue
					}
					if valid && len(lacks(a)) > 0 {
						req.ToGrant = append(req.ToGrant, exchange.AccessGrant{Address: a, Permissions: sub(lacks(a))})
						used[a] = true
					} else if !valid && len(has[a]) > 0 {
						req.ToGrant = append(req.ToGrant, exchange.AccessGrant{Address: a, Permissions: sub(has[a])})
						used[a] = true
					}
				}
			}
			if !req.HasUpdates() {
				req.ToGrant = []exchange.AccessGrant{{Address: U, Permissions: sub(c11Perms)}}
			}
			sctx, write := hctx.CacheContext()
			err := e.send(sctx, req)
			after := coqList(e.grants(sctx))
			if err == nil {
				write()
				accepted++
				e.w.Count("manage_requests_accepted")
			}
			e.w.Count("manage_requests")
			var ra []int64
			for _, a := range req.RevokeAll {
				ra = append(ra, e.id(a))
			}
			steps = append(steps, fmt.Sprintf("{| ms_admin := %s; ms_req := {| u_market := %s; u_revoke_all := %s; u_to_revoke := %s; u_to_grant := %s |}; ms_ok := %s; ms_after := %s |}",
				nTerm(e.id(admin)), nTerm(int64(m)), e.nList(ra), e.grantsTerm(req.ToRevoke), e.grantsTerm(req.ToGrant), coqBool(err == nil), after))
			descs = append(descs, map[string]any{"admin": e.id(admin), "market": m, "revoke_all": len(req.RevokeAll), "to_revoke": len(req.ToRevoke), "to_grant": len(req.ToGrant), "passed": err == nil})
		}
		e.w.Add(fmt.Sprintf("CManage 0%%N %s %s %s", st0, uniTerm, coqList(steps)), map[string]any{"kind": "manage_permissions_history", "steps": descs})
		e.w.Count("manage_histories")
		if accepted > 0 {
			e.w.Nontrivial(fmt.Sprintf("mh/%d/%d", h, accepted))
		}
	}
}

// ---------------------------------------------------------------- 4. signer fields

func (e *c11Env) signerCases() {
	u := addrN(110).String()
	check := func(msg sdk.Msg, field, want string) {
		signers, _, err := e.app.AppCodec().GetMsgV1Signers(msg)
		agrees := err == nil && len(signers) == 1 && sdk.AccAddress(signers[0]).String() == want
		name := proto.MessageName(msg)
		e.w.Add(fmt.Sprintf("CSigner %s %s %s", coqStr(name), coqStr(field), coqBool(agrees)), map[string]any{"kind": "signer", "msg": name, "field": field, "agrees": agrees})
		e.w.Count("signer_cases")
	}
	for _, ep := range c11Endpoints {
		check(ep.msg(e, u), "Admin", u)
	}
	check(&exchange.MsgCancelOrderRequest{Signer: u, OrderId: 1}, "Signer", u)
	check(&exchange.MsgAcceptPaymentRequest{Payment: exchange.Payment{Source: addrN(120).String(), Target: u, ExternalId: "x"}}, "Payment.Target", u)
	check(&exchange.MsgCreatePaymentRequest{Payment: exchange.Payment{Source: u, Target: addrN(120).String(), ExternalId: "x"}}, "Payment.Source", u)
	check(&exchange.MsgRejectPaymentRequest{Target: u, Source: addrN(120).String(), ExternalId: "x"}, "Target", u)
	check(&exchange.MsgRejectPaymentsRequest{Target: u, Sources: []string{addrN(120).String()}}, "Target", u)
	check(&exchange.MsgCancelPaymentsRequest{Source: u, ExternalIds: []string{"x"}}, "Source", u)
	check(&exchange.MsgChangePaymentTargetRequest{Source: u, ExternalId: "x", NewTarget: addrN(120).String()}, "Source", u)
}

// ---------------------------------------------------------------- 5. sweep over every registered sdk.Msg with an Authority field

func c11Module(typeURL string) (module, request string) {
	name := strings.TrimPrefix(typeURL, "/")
	i := strings.LastIndex(name, ".")
	pkg, req := name[:i], name[i+1:]
	parts := strings.Split(pkg, ".")
	// messages of the modules under x/ live in provenance.<module>.v1 (sanction and quarantine in
	// cosmos.<module>.v1beta1); everything else is reported with an empty module
	if len(parts) >= 2 && (parts[0] == "provenance" || (parts[0] == "cosmos" && (parts[1] == "sanction" || parts[1] == "quarantine"))) {
		return parts[1], req
	}
	return "", req
}

func (e *c11Env) govSweep() {
	reg := e.app.InterfaceRegistry()
	urls := reg.ListImplementations(sdk.MsgInterfaceProtoName)
	sort.Strings(urls)
	stranger := addrN(140)
	gctx, _ := e.base.CacheContext()
	ensureAccount(e.app, gctx, stranger)
	fund(e.t, e.app, gctx, stranger, e.coins("100000nhash"))
	fills, alts := c11GovFills(e, gctx)
	h0 := e.dumpHash(gctx)
	seen := map[string]bool{}
	for _, url := range urls {
		m, err := reg.Resolve(url)
		if err != nil {
			continue
		}
		if seen[url] {
			continue
		}
		seen[url] = true
		rv := reflect.ValueOf(m)
		if rv.Kind() != reflect.Ptr || rv.Elem().Kind() != reflect.Struct {
			continue
		}
		f := rv.Elem().FieldByName("Authority")
		if !f.IsValid() || f.Kind() != reflect.String {
			continue
		}
		e.w.Count("gov_msg_types_with_authority_field")
		module, request := c11Module(url)
		for _, asAuthority := range []bool{false, true} {
			signer := stranger.String()
			if asAuthority {
				signer = e.auth
			}
			var msg sdk.Msg
			if fill, ok := fills[url]; ok {
				msg = fill(signer)
			} else {
				mm, _ := reg.Resolve(url)
				reflect.ValueOf(mm).Elem().FieldByName("Authority").SetString(signer)
				msg = mm.(sdk.Msg)
			}
			if e.app.MsgServiceRouter().Handler(msg) == nil {
				e.w.Count("gov_msg_types_without_handler")
				break
			}
			if !asAuthority {
				signers, _, serr := e.app.AppCodec().GetMsgV1Signers(msg)
				agrees := serr == nil && len(signers) == 1 && sdk.AccAddress(signers[0]).String() == signer
				e.w.Add(fmt.Sprintf("CSigner %s %s %s", coqStr(strings.TrimPrefix(url, "/")), coqStr("Authority"), coqBool(agrees)),
					map[string]any{"kind": "signer", "msg": url, "field": "Authority", "agrees": agrees})
				e.w.Count("signer_cases")
			}
			ctx, _ := gctx.CacheContext()
			serr := e.send(ctx, msg)
			obs := serr == nil
			wrote := false
			if !obs {
				wrote = e.dumpHash(ctx) != h0
			}
			e.w.Add(fmt.Sprintf("CGov %s %s %s %s %s", coqStr(module), coqStr(request), coqBool(asAuthority), coqBool(obs), coqBool(wrote)),
				map[string]any{"kind": "gov_sweep", "type_url": url, "module": module, "signer_is_authority": asAuthority, "passed": obs, "rejected_call_wrote": wrote})
			e.w.Count("gov_cases")
			if asAuthority {
				if obs {
					e.w.Count("gov_authority_variant_accepted")
					e.w.Nontrivial("g/" + url) // the same request passes for the authority: the rejection was the guard's
				} else {
					e.w.Count("gov_authority_variant_rejected_for_other_reasons")
					if os := strings.TrimSpace(fmt.Sprint(serr)); module != "" && len(os) > 0 {
						e.t.Logf("authority variant of %s rejected: %.160s", url, os)
					}
				}
			} else if obs {
				e.w.Count("gov_stranger_accepted")
			}
		}
		// callers that hold rights over the objects the request names, but are not the authority:
		// every single exchange permission (and all seven) on markets 1 and 2; every marker access on
		// the marker; the owner of the bound name and of the trigger
		if _, isException := alts[url]; !isException && module != "" && fills[url] != nil {
			type privileged struct {
				what  string
				addr  string
				perms []exchange.Permission
			}
			var callers []privileged
			if module == "exchange" {
				for _, p := range c11Perms {
					callers = append(callers, privileged{"market permission " + p.SimpleString(), addrN(144).String(), []exchange.Permission{p}})
				}
				callers = append(callers, privileged{"all market permissions", addrN(144).String(), c11Perms})
			}
			callers = append(callers, privileged{"all access on the marker", addrN(141).String(), nil},
				privileged{"owner of the name and the trigger", addrN(142).String(), nil})
			for _, pc := range callers {
				ctx1, _ := gctx.CacheContext()
				for _, m := range []uint32{1, 2} {
					if len(pc.perms) > 0 {
						e.must(e.app.ExchangeKeeper.UpdatePermissions(ctx1, &exchange.MsgMarketManagePermissionsRequest{Admin: e.auth, MarketId: m,
							ToGrant: []exchange.AccessGrant{{Address: pc.addr, Permissions: pc.perms}}}), "grant for gov sweep")
					}
				}
				h1 := e.dumpHash(ctx1)
				ctx, _ := ctx1.CacheContext()
				obs := e.send(ctx, fills[url](pc.addr)) == nil
				wrote := !obs && e.dumpHash(ctx) != h1
				e.w.Add(fmt.Sprintf("CGov %s %s false %s %s", coqStr(module), coqStr(request), coqBool(obs), coqBool(wrote)),
					map[string]any{"kind": "gov_sweep_privileged_non_authority", "type_url": url, "module": module, "signer_holds": pc.what, "passed": obs, "rejected_call_wrote": wrote})
				e.w.Count("gov_privileged_non_authority_cases")
				if obs {
					e.w.Count("gov_privileged_non_authority_accepted")
				}
				e.w.Nontrivial("gp/" + url + "/" + pc.what)
			}
		}
		if holder, ok := alts[url]; ok {
			ctx, _ := gctx.CacheContext()
			obs := e.send(ctx, fills[url](holder)) == nil
			e.w.Add(fmt.Sprintf("CGovAlt %s %s %s", coqStr(module), coqStr(request), coqBool(obs)),
				map[string]any{"kind": "gov_sweep_alternative_right_holder", "type_url": url, "passed": obs})
			e.w.Count("gov_alt_cases")
			if obs {
				e.w.Nontrivial("ga/" + url)
			}
		}
	}
}

// ---------------------------------------------------------------- entry point

func TestC11(t *testing.T) {
	app, base := newApp(t)
	e := &c11Env{t: t, app: app, base: base, r: newRand("C11"), ids: map[string]int64{},
		w:    NewCaseWriter("C11", "PV.Corr.C11", "check_all", 400),
		auth: authtypes.NewModuleAddress(govtypes.ModuleName).String()}
	if got := app.ExchangeKeeper.GetAuthority(); got != e.auth {
		t.Fatalf("exchange authority %s is not the gov module account %s", got, e.auth)
	}
	e.setup()
	e.signerCases()
	e.matrix()
	e.cross()
	e.payments()
	e.manageHistories()
	e.govSweep()
	e.orderRoles()
	e.paymentRoleHistories()
	e.worldHistories()
	e.querySweep()
	e.authorityCases()
	e.wrappedSweep()
	e.nestedTriggerSweep()
	e.commitHistories()
	_ = sdkmath.ZeroInt
	e.w.Flush(t)
}
